(* driver.ml — trusted glue around the extracted model: reads one request tree per
   line on stdin, prints one response tree per line on stdout.
   Tree syntax: an atom is a double-quoted string with backslash escapes for the
   quote, the backslash and (as xHH) any byte; a list is parenthesised. *)
open Model

let explode (s : string) : char list = List.init (String.length s) (String.get s)
let implode (l : char list) : string =
  let b = Buffer.create 64 in List.iter (Buffer.add_char b) l; Buffer.contents b

exception Parse_error of string

let parse (s : string) : sexp =
  let n = String.length s in
  let pos = ref 0 in
  let rec skip () = if !pos < n && (s.[!pos] = ' ' || s.[!pos] = '\t') then (incr pos; skip ()) in
  let hexv c = match c with
    | '0'..'9' -> Char.code c - 48
    | 'a'..'f' -> Char.code c - 87
    | 'A'..'F' -> Char.code c - 55
    | _ -> raise (Parse_error "hex") in
  let rec term () : sexp =
    skip ();
    if !pos >= n then raise (Parse_error "eof");
    match s.[!pos] with
    | '(' ->
        incr pos;
        let items = ref [] in
        let rec loop () =
          skip ();
          if !pos >= n then raise (Parse_error "eof in list");
          if s.[!pos] = ')' then incr pos
          else (items := term () :: !items; loop ()) in
        loop ();
        L (List.rev !items)
    | '"' ->
        incr pos;
        let b = Buffer.create 16 in
        let rec loop () =
          if !pos >= n then raise (Parse_error "eof in atom");
          match s.[!pos] with
          | '"' -> incr pos
          | '\\' ->
              (match s.[!pos + 1] with
               | 'x' ->
                   Buffer.add_char b (Char.chr (16 * hexv s.[!pos + 2] + hexv s.[!pos + 3]));
                   pos := !pos + 4
               | c -> Buffer.add_char b c; pos := !pos + 2);
              loop ()
          | c -> Buffer.add_char b c; incr pos; loop () in
        loop ();
        A (explode (Buffer.contents b))
    | c -> raise (Parse_error (Printf.sprintf "unexpected %c at %d" c !pos)) in
  let t = term () in
  skip ();
  if !pos <> n then raise (Parse_error "trailing input");
  t

let rec print (b : Buffer.t) (t : sexp) : unit =
  match t with
  | A cs ->
      Buffer.add_char b '"';
      List.iter (fun c ->
          let k = Char.code c in
          if c = '"' then Buffer.add_string b "\\\""
          else if c = '\\' then Buffer.add_string b "\\\\"
          else if k < 32 || k > 126 then Buffer.add_string b (Printf.sprintf "\\x%02x" k)
          else Buffer.add_char b c) cs;
      Buffer.add_char b '"'
  | L l ->
      Buffer.add_char b '(';
      List.iteri (fun i x -> if i > 0 then Buffer.add_char b ' '; print b x) l;
      Buffer.add_char b ')'

let () =
  try
    while true do
      let line = input_line stdin in
      if String.length line > 0 then begin
        let out = Buffer.create 1024 in
        (try print out (run (parse line))
         with Parse_error m -> Buffer.add_string out ("(\"driver-parse-error\" \"" ^ m ^ "\")")
            | Stack_overflow -> Buffer.add_string out "(\"driver-stack-overflow\")");
        print_string (Buffer.contents out);
        print_newline ()
      end
    done
  with End_of_file -> ()
