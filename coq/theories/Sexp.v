(* Sexp.v — the generic tree in which programs, observations and serialised
   artefacts travel between the harness and the extracted model. *)
From Coq Require Import String List.
Import ListNotations.

Inductive sexp : Type :=
| A (s : string)
| L (l : list sexp).

Inductive exc : Type :=
| EProv            (* prov.model.ProvException *)
| EInvalidQName    (* ProvExceptionInvalidQualifiedName *)
| EIdRequired      (* ProvElementIdentifierRequired *)
| EValue           (* ValueError *)
| EKey             (* KeyError *)
| EType            (* TypeError *)
| EAttribute       (* AttributeError *)
| EJson            (* ProvJSONException *)
| EXml             (* ProvXMLException *)
| EOther.

Inductive result (T : Type) : Type :=
| OK (a : T)
| Raise (e : exc)
| OutOfDomain.     (* input the model does not cover; counted by the harness *)
Arguments OK {T} a.
Arguments Raise {T} e.
Arguments OutOfDomain {T}.

Definition bind {T U} (r : result T) (f : T -> result U) : result U :=
  match r with OK a => f a | Raise e => Raise e | OutOfDomain => OutOfDomain end.

Open Scope string_scope.
Definition exc_name (e : exc) : string :=
  match e with
  | EProv => "ProvException" | EInvalidQName => "ProvExceptionInvalidQualifiedName"
  | EIdRequired => "ProvElementIdentifierRequired" | EValue => "ValueError"
  | EKey => "KeyError" | EType => "TypeError" | EAttribute => "AttributeError"
  | EJson => "ProvJSONException" | EXml => "ProvXMLException" | EOther => "Other"
  end.
