(* SpecRecProofs.v — C10 at record level, PROV-JSON: the object the library writes for a record means,
   to the reader written from the specification, exactly the record: its kind, its identifier URI, and
   for every attribute, in order, every value (URI of the name, strict content of the value). *)
From Coq Require Import String Ascii List Bool Arith ZArith Lia.
From Prov Require Import Str StrProofs Sexp Tables Nsm NsmProofs Values Record RecordProofs World Jtree Json JsonProofs
  Spec JsonSpec IsoDigits IsoProofs TimeProofs SpecProofs JsonRecProofs.
Import ListNotations.
Open Scope string_scope.

(* a value the specification reader reads back as itself in prefix table t *)
Definition sv (ft : ftable) (t : ptable) (v : value) : Prop :=
  JsonSpec.read_literal ft t (encode_value v) = Some (content_value v).

Definition attr_content (kv : qname * list value) : list sexp :=
  map (fun v => L [A (qn_uri (fst kv)); content_value v]) (snd kv).

Definition is_formal_name (formals : list string) (name : string) : bool :=
  existsb (fun f => String.eqb name ("prov:" ++ f)) formals.

(* an attribute the specification reader can read in table t, for a record kind with these formal arguments *)
Inductive attr_spec (ft : ftable) (t : ptable) (formals : list string) : qname * list value -> Prop :=
| as_empty : forall a, attr_spec ft t formals (a, [])
| as_other : forall a v vs,
    is_qname_attr a = false -> is_time_attr a = false -> is_formal_name formals (qn_str a) = false ->
    spec_resolve t (qn_str a) = Some (qn_uri a) -> Forall (sv ft t) (v :: vs) ->
    attr_spec ft t formals (a, v :: vs)
| as_ref : forall f q,
    In f formals -> existsb (String.eqb f) spec_time_args = false -> is_qname_attr (prov_qn f) = true ->
    spec_resolve t (qn_str q) = Some (qn_uri q) ->
    attr_spec ft t formals (prov_qn f, [VQn q])
| as_time : forall f tm,
    In f formals -> existsb (String.eqb f) spec_time_args = true ->
    is_qname_attr (prov_qn f) = false -> is_time_attr (prov_qn f) = true -> valid_dt tm = true ->
    attr_spec ft t formals (prov_qn f, [VTime tm]).

Lemma all_some_map_ok : forall (T U : Type) (f : T -> option U) (g : T -> U) l,
  (forall x, In x l -> f x = Some (g x)) -> all_some (map f l) = Some (map g l).
Proof.
  intros T U f g l. induction l as [|x l IH]; intros H; [reflexivity|]. cbn [map all_some].
  rewrite (H x (or_introl eq_refl)), IH; [reflexivity|]. intros y Hy. apply H. right. exact Hy.
Qed.

Lemma formal_name_in : forall formals f, In f formals -> is_formal_name formals ("prov:" ++ f) = true.
Proof.
  intros formals f H. unfold is_formal_name. apply existsb_exists. exists f. split; [exact H | apply String.eqb_refl].
Qed.

Lemma read_attr_ok : forall ft t formals kv, attr_spec ft t formals kv ->
  forall name j, encode_attr kv = [(name, j)] -> read_attr ft t formals name j = Some (attr_content kv).
Proof.
  intros ft t formals kv G name j E. destruct G as [a | a v vs Q T NF R SV | f q I NT Q R | f tm I TT Q T V].
  - discriminate E.
  - unfold encode_attr in E. rewrite Q, T in E.
    assert (EN : name = qn_str a) by (destruct vs; inversion E; reflexivity). subst name.
    unfold read_attr. fold (is_formal_name formals (qn_str a)). rewrite NF, R.
    assert (VALS : match j with JArr l => l | x => [x] end = map encode_value (v :: vs)).
    { destruct vs as [|v2 vs]; inversion E; subst j; [|reflexivity]. apply (unwrap_single v). }
    rewrite VALS, map_map.
    rewrite (all_some_map_ok _ _ _ (fun x => L [A (qn_uri a); content_value x])); [reflexivity|].
    intros x Hx. pose proof (proj1 (Forall_forall _ _) SV x Hx) as S. unfold sv in S. rewrite S. reflexivity.
  - unfold encode_attr in E. rewrite Q in E. inversion E; subst name j.
    unfold read_attr. fold (is_formal_name formals (qn_str (prov_qn f))).
    change (qn_str (prov_qn f)) with ("prov:" ++ f). rewrite (formal_name_in _ _ I).
    change (drop 5 ("prov:" ++ f)) with f. cbn [map all_some]. rewrite NT, R. reflexivity.
  - unfold encode_attr in E. rewrite Q, T in E. inversion E; subst name j.
    unfold read_attr. fold (is_formal_name formals (qn_str (prov_qn f))).
    change (qn_str (prov_qn f)) with ("prov:" ++ f). rewrite (formal_name_in _ _ I).
    change (drop 5 ("prov:" ++ f)) with f. cbn [map all_some]. rewrite TT, (iso_roundtrip tm V). reflexivity.
Qed.

Lemma read_members_ok : forall ft t formals attrs, Forall (attr_spec ft t formals) attrs ->
  all_some (map (fun kv => read_attr ft t formals (fst kv) (snd kv)) (flat_map encode_attr attrs))
  = Some (map attr_content (filter (fun kv => nonempty (snd kv)) attrs)).
Proof.
  intros ft t formals attrs F. induction F as [|kv attrs G F IH]; [reflexivity|].
  cbn [flat_map filter]. destruct (encode_attr_shape kv) as [E|[j E]]; rewrite E; cbn [app map all_some].
  - assert (NE : nonempty (snd kv) = false).
    { destruct kv as [a [|v vs]]; [reflexivity|]. exfalso. unfold encode_attr in E.
      destruct (is_qname_attr a); [discriminate|]. destruct (is_time_attr a); [discriminate|]. destruct vs; discriminate. }
    rewrite NE. exact IH.
  - cbn [fst snd]. rewrite (read_attr_ok ft t formals kv G _ _ E), IH.
    assert (NE : nonempty (snd kv) = true) by (destruct kv as [a [|v vs]]; [discriminate E | reflexivity]).
    rewrite NE. reflexivity.
Qed.

Definition record_content (kind : string) (idc : sexp) (r : prec) : sexp :=
  L [A "rec"; A (spec_prov_uri ++ kind); idc;
     L (concat (map attr_content (filter (fun kv => nonempty (snd kv)) (rattrs r))))].

Definition id_content (t : ptable) (id : string) : option sexp :=
  if is_blank id then Some (A "none")
  else match spec_resolve t id with Some u => Some (A u) | None => None end.

(* the record object, read by the specification reader (all kinds but the multi-entity membership form,
   which the writer never produces for a record holding one entity) *)
Theorem spec_json_record : forall ft t kind formals id r ic,
  NoDup (member_names (rattrs r)) -> Forall (attr_spec ft t formals) (rattrs r) ->
  id_content t id = Some ic -> kind <> "Membership" ->
  read_record ft t kind formals id (encode_record_obj r) = Some [record_content kind ic r].
Proof.
  intros ft t kind formals id r ic UN G IC NK.
  rewrite (encode_record_flat r UN). unfold read_record. rewrite (read_members_ok ft t formals _ G).
  unfold id_content in IC.
  destruct (is_blank id).
  - inversion IC; subst ic.
    assert (K : String.eqb kind "Membership" = false) by (apply String.eqb_neq; exact NK). rewrite K. reflexivity.
  - destruct (spec_resolve t id) as [u|]; [|discriminate]. inversion IC; subst ic.
    assert (K : String.eqb kind "Membership" = false) by (apply String.eqb_neq; exact NK). rewrite K. reflexivity.
Qed.

(* the premises are satisfiable: the usage of JsonRecProofs read in a table binding ex *)
Definition x_t : ptable := [("prov", spec_prov_uri); ("xsd", spec_xsd_uri); ("ex", "http://e/")].
Lemma x_std : Std x_t.
Proof. split; reflexivity. Qed.

Example spec_json_record_applies :
  read_record [] x_t "Usage" ["activity"; "entity"; "time"] "ex:u" (encode_record_obj x_r)
  = Some [record_content "Usage" (A "http://e/u") x_r].
Proof.
  apply spec_json_record.
  - vm_compute. repeat constructor; cbn; intuition discriminate.
  - cbn [rattrs x_r]. apply Forall_cons; [|apply Forall_cons; [|apply Forall_cons; [|apply Forall_cons; [|apply Forall_nil]]]].
    + apply as_other; try (vm_compute; reflexivity).
      apply Forall_cons; [apply spec_json_int; exact x_std|]. apply Forall_cons; [apply spec_json_str | apply Forall_nil].
    + apply (as_ref [] x_t _ "activity" (x_q "a")); try (vm_compute; reflexivity). left. reflexivity.
    + apply as_other; try (vm_compute; reflexivity).
      apply Forall_cons; [|apply Forall_nil].
      apply spec_json_qn; [exact x_std | discriminate | reflexivity | reflexivity].
    + apply as_empty.
  - vm_compute. reflexivity.
  - discriminate.
Qed.
