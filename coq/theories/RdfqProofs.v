(* RdfqProofs.v — round trip of the quad-level model over the systematic family of relation
   shapes of the C07 quantifier: every relation kind x identified/anonymous x subset of the
   optional formal arguments x kind of extra attribute, alone and in pairs on one subject with
   the same or another object.  The family is finite; the theorems are by evaluation. Values
   are opaque tokens: writer and reader only move them and compare them for equality. *)
From Coq Require Import String Ascii List Bool Arith.
From Prov Require Import Str Tables Rdf Rdfq.
Import ListNotations.
Open Scope string_scope.

Definition EXU (l : string) : string := "http://example.org/" ++ l.

Definition soft_kinds : list string :=
  ["Attribution"; "Communication"; "Delegation"; "Influence"; "Specialization"; "Alternate"; "Membership"].

Definition relation_kind_names : list string :=
  filter (fun k => negb (String.eqb k "Mention")) (map fst relation_kinds).

Definition extras_patterns : list (list (string * obj)) :=
  [ [];
    [(P "role", ON (NU (EXU "r")))];
    [(EXU "k", OL "s:v")];
    [(P "label", OL "s:l"); (EXU "n", OL "i:5")];
    [(P "type", ON (NU (EXU "MyType")))] ].

Fixpoint masks (n : nat) : list (list bool) :=
  match n with
  | O => [[]]
  | S m => flat_map (fun l => [false :: l; true :: l]) (masks m)
  end.

Definition is_time_formal (f : string) : bool := existsb (String.eqb f) ["time"; "startTime"; "endTime"].

Record shape : Type := mkS { s_ident : bool; s_mask : list bool; s_extra : nat }.

Definition shapes_of (k : string) : list shape :=
  let opt := tl (tl (formals_of k)) in
  let soft := existsb (String.eqb k) soft_kinds in
  flat_map (fun ident =>
    if (ident && String.eqb k "Alternate")%bool then [] else
    flat_map (fun mask =>
      flat_map (fun ex =>
        let attributed := (existsb (fun b => b) mask || negb (Nat.eqb ex 0))%bool in
        if (negb ident && soft && attributed)%bool then [] else [mkS ident mask ex])
      (seq 0 (length extras_patterns)))
    (masks (length opt)))
  [false; true].

Definition mk_rel (k : string) (sh : shape) (n : nat) (o : string) : rrec :=
  let opt := tl (tl (formals_of k)) in
  mkR k (if s_ident sh then Some (EXU ("rel" ++ nat_to_str n)) else None)
      (Some (ON (NU (EXU "s"))) :: Some (ON (NU (EXU o))) ::
       map (fun fb : string * bool => if snd fb then Some (if is_time_formal (fst fb) then OL "t:" else ON (NU (EXU ("opt_" ++ fst fb)))) else None)
           (combine opt (s_mask sh)))
      (nth (s_extra sh) extras_patterns []).

Definition single_ok (k : string) : bool :=
  forallb (fun sh => roundtrips [mk_rel k sh 0 "o"]) (shapes_of k).

Definition pair_ok (k : string) : bool :=
  forallb (fun s1 => forallb (fun s2 =>
    if Bool.eqb (s_ident s1) (s_ident s2) then
      (roundtrips [mk_rel k s1 0 "o"; mk_rel k s2 1 "o"] && roundtrips [mk_rel k s1 0 "o"; mk_rel k s2 1 "o2"])%bool
    else true) (shapes_of k)) (shapes_of k).

Theorem rdfq_single_roundtrip : forallb single_ok relation_kind_names = true.
Proof. vm_compute. reflexivity. Qed.

Theorem rdfq_pair_roundtrip : forallb pair_ok relation_kind_names = true.
Proof. vm_compute. reflexivity. Qed.

Example rdfq_family_size :
  length relation_kind_names = 14%nat /\
  fold_left (fun a k => (a + length (shapes_of k))%nat) relation_kind_names 0%nat > 200.
Proof. vm_compute. split; [reflexivity | repeat constructor]. Qed.
