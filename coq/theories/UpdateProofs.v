(* UpdateProofs.v — C09, update(): merging the bundles of another document into a document
   leaves the document's own records alone, keeps every bundle in place under its key, and
   only appends records to bundles. *)
From Coq Require Import String Ascii List Bool Arith ZArith Lia.
From Prov Require Import Str StrProofs Sexp Tables Nsm NsmProofs Values Record RecordProofs World WorldProofs Derive.
Import ListNotations.
Open Scope string_scope.

Lemma doc_new_bundle_main_recs : forall dd x ft dd' r, doc_new_bundle dd x ft = (dd', r) ->
  brecs (dmain dd') = brecs (dmain dd).
Proof.
  intros dd x ft dd' r H. unfold doc_new_bundle in H. destruct x as [n|]; [|inversion H; reflexivity].
  destruct (resolve None (bns (dmain dd)) n) as [[m [q|]]|e|]; try (inversion H; reflexivity).
  cbv zeta in H. destruct (mem (qn_uri q) (dbundles dd)); inversion H; reflexivity.
Qed.

Lemma doc_new_bundle_bundles : forall dd x ft dd' r, doc_new_bundle dd x ft = (dd', r) ->
  dbundles dd' = dbundles dd \/ exists q, dbundles dd' = (dbundles dd ++ [(qn_uri q, bundle_init (Some q))])%list.
Proof.
  intros dd x ft dd' r H. unfold doc_new_bundle in H. destruct x as [n|]; [|inversion H; left; reflexivity].
  destruct (resolve None (bns (dmain dd)) n) as [[m [q|]]|e|]; try (inversion H; left; reflexivity).
  cbv zeta in H. destruct (mem (qn_uri q) (dbundles dd)); inversion H; [left; reflexivity | right; exists q; reflexivity].
Qed.

Theorem merge_bundles_main_recs : forall ft bs dd dd' r, merge_bundles ft dd bs = (dd', r) ->
  brecs (dmain dd') = brecs (dmain dd).
Proof.
  intros ft bs. induction bs as [|[k sb] bs IH]; intros dd dd' r H; cbn [merge_bundles] in H.
  - inversion H; reflexivity.
  - destruct sb as [[sid|] sm srecs sidmap]; [|inversion H; reflexivity]. cbv zeta in H.
    destruct (find _ (combine (seq 0 (length (dbundles dd))) (dbundles dd))) as [[i ib]|].
    + destruct (nth_error (dbundles dd) i) as [[k1 tb]|]; [|inversion H; reflexivity].
      destruct (add_records _ ft tb srecs) as [tb' [u|e|]]; [|inversion H; reflexivity|inversion H; reflexivity].
      apply IH in H. exact H.
    + destruct (doc_new_bundle dd (Some (NQn sid)) ft) as [dd1 [u|e|]] eqn:EN;
        pose proof (doc_new_bundle_main_recs _ _ _ _ _ EN) as M; try (inversion H; subst; exact M).
      destruct (nth_error (dbundles dd1) (length (dbundles dd1) - 1)) as [[k1 tb]|]; [|inversion H; subst; exact M].
      destruct (add_records _ ft tb srecs) as [tb' [u2|e|]]; try (inversion H; subst; exact M).
      apply IH in H. cbn [dmain] in H. rewrite H. exact M.
Qed.

(* ---- records are only ever appended *)
Lemma new_record_prefix : forall par ft b k i attrs b' x, new_record par ft b k i attrs = (b', x) ->
  exists ext, brecs b' = (brecs b ++ ext)%list /\ bid b' = bid b.
Proof.
  intros par ft b k i attrs b' x H. unfold new_record in H.
  destruct (match i with None => Done (bns b) None | Some y => resolve_o (mkCtx par ft) (bns b) y end) as [m1 idq|m1 e|].
  - destruct (new_prec (mkCtx par ft) m1 k idq attrs) as [m2 r|m2 e|]; inversion H; subst.
    + exists [r]. split; reflexivity.
    + exists []. rewrite app_nil_r. split; reflexivity.
    + exists []. rewrite app_nil_r. split; reflexivity.
  - inversion H; subst. exists []. rewrite app_nil_r. split; reflexivity.
  - inversion H; subst. exists []. rewrite app_nil_r. split; reflexivity.
Qed.

Lemma add_record_prefix : forall par ft b r b' x, add_record par ft b r = (b', x) ->
  exists ext, brecs b' = (brecs b ++ ext)%list /\ bid b' = bid b.
Proof.
  intros par ft b r b' x H. unfold add_record in H. destruct (negb (formal_single r)).
  - inversion H; subst. exists []. rewrite app_nil_r. split; reflexivity.
  - eapply new_record_prefix. exact H.
Qed.

Lemma add_records_prefix : forall par ft rs b b' x, add_records par ft b rs = (b', x) ->
  exists ext, brecs b' = (brecs b ++ ext)%list /\ bid b' = bid b.
Proof.
  induction rs as [|r rs IH]; intros b b' x H; cbn [add_records] in H.
  - inversion H; subst. exists []. rewrite app_nil_r. split; reflexivity.
  - destruct (add_record par ft b r) as [b1 [y|e|]] eqn:E; destruct (add_record_prefix _ _ _ _ _ _ E) as [e1 [P1 I1]].
    + destruct (IH _ _ _ H) as [e2 [P2 I2]]. exists (e1 ++ e2)%list. rewrite P2, P1, <- app_assoc, I2, I1. split; reflexivity.
    + inversion H; subst. exists e1. split; assumption.
    + inversion H; subst. exists e1. split; assumption.
Qed.

Lemma nth_set_nth_same {T} : forall (l : list T) i v x, nth_error l i = Some x -> nth_error (World.set_nth i v l) i = Some v.
Proof.
  induction l as [|a l IH]; intros [|i] v x H; cbn in *; try discriminate; [reflexivity|]. eapply IH. exact H.
Qed.

Lemma nth_set_nth_other {T} : forall (l : list T) i j v, i <> j -> nth_error (World.set_nth i v l) j = nth_error l j.
Proof.
  induction l as [|a l IH]; intros [|i] [|j] v N; simpl; try reflexivity; try congruence.
  apply IH. congruence.
Qed.

(* a bundle of the target stays where it is, under its key and identifier, and keeps its records as a prefix *)
Definition extends (tb tb' : bundle) : Prop := bid tb' = bid tb /\ exists ext, brecs tb' = (brecs tb ++ ext)%list.

Lemma extends_refl : forall b, extends b b.
Proof. intros b. split; [reflexivity | exists []; rewrite app_nil_r; reflexivity]. Qed.

Lemma extends_trans : forall a b c, extends a b -> extends b c -> extends a c.
Proof.
  intros a b c [I1 [e1 P1]] [I2 [e2 P2]]. split; [rewrite I2; exact I1|].
  exists (e1 ++ e2)%list. rewrite P2, P1, <- app_assoc. reflexivity.
Qed.

Theorem merge_bundles_keeps : forall ft bs dd dd' r, merge_bundles ft dd bs = (dd', r) ->
  forall j k tb, nth_error (dbundles dd) j = Some (k, tb) ->
  exists tb', nth_error (dbundles dd') j = Some (k, tb') /\ extends tb tb'.
Proof.
  intros ft bs. induction bs as [|[k0 sb] bs IH]; intros dd dd' r H j k tb N; cbn [merge_bundles] in H.
  - inversion H; subst. exists tb. split; [exact N | apply extends_refl].
  - destruct sb as [[sid|] sm srecs sidmap]; [|inversion H; subst; exists tb; split; [exact N | apply extends_refl]].
    cbv zeta in H.
    assert (STEP : forall dd1 i k1 tb1 tb1' x,
               nth_error (dbundles dd1) j = Some (k, tb) ->
               nth_error (dbundles dd1) i = Some (k1, tb1) ->
               add_records (Some (bns (dmain dd1))) ft tb1 srecs = (tb1', x) ->
               exists tb2, nth_error (set_nth i (k1, tb1') (dbundles dd1)) j = Some (k, tb2) /\ extends tb tb2).
    { intros dd1 i k1 tb1 tb1' x Nj Ni A. destruct (Nat.eq_dec i j) as [->|NE].
      - rewrite Nj in Ni. inversion Ni; subst k1 tb1.
        exists tb1'. split.
        + apply nth_set_nth_same with (x := (k, tb)). exact Nj.
        + destruct (add_records_prefix _ _ _ _ _ _ A) as [ext [P I]]. split; [exact I | exists ext; exact P].
      - exists tb. split; [|apply extends_refl]. rewrite nth_set_nth_other by exact NE. exact Nj. }
    destruct (find _ (combine (seq 0 (length (dbundles dd))) (dbundles dd))) as [[i ib]|].
    + destruct (nth_error (dbundles dd) i) as [[k1 tb1]|] eqn:Ni;
        [|inversion H; subst; exists tb; split; [exact N | apply extends_refl]].
      destruct (add_records _ ft tb1 srecs) as [tb1' [u|e|]] eqn:A.
      * destruct (STEP dd i k1 tb1 tb1' _ N Ni A) as [tb2 [N2 X2]].
        destruct (IH _ _ _ H j k tb2 N2) as [tb3 [N3 X3]]. exists tb3. split; [exact N3 | eapply extends_trans; eauto].
      * inversion H; subst. cbn [dbundles]. exact (STEP dd i k1 tb1 tb1' _ N Ni A).
      * inversion H; subst. exists tb. split; [exact N | apply extends_refl].
    + destruct (doc_new_bundle dd (Some (NQn sid)) ft) as [dd1 [u|e|]] eqn:EN;
        assert (N1 : nth_error (dbundles dd1) j = Some (k, tb))
          by (destruct (doc_new_bundle_bundles _ _ _ _ _ EN) as [E|[q E]]; rewrite E;
              [exact N | rewrite nth_error_app1; [exact N | apply nth_error_Some; rewrite N; discriminate]]);
        try (inversion H; subst; exists tb; split; [exact N1 | apply extends_refl]).
      destruct (nth_error (dbundles dd1) (length (dbundles dd1) - 1)) as [[k1 tb1]|] eqn:Ni;
        [|inversion H; subst; exists tb; split; [exact N1 | apply extends_refl]].
      destruct (add_records _ ft tb1 srecs) as [tb1' [u2|e|]] eqn:A.
      * destruct (STEP dd1 _ k1 tb1 tb1' _ N1 Ni A) as [tb2 [N2 X2]].
        destruct (IH _ _ _ H j k tb2 N2) as [tb3 [N3 X3]]. exists tb3. split; [exact N3 | eapply extends_trans; eauto].
      * inversion H; subst. cbn [dbundles]. exact (STEP dd1 _ k1 tb1 tb1' _ N1 Ni A).
      * inversion H; subst. exists tb. split; [exact N1 | apply extends_refl].
Qed.

(* ---- where the records of a merged bundle land *)
From Prov Require Import WInvUProofs IdemProofs ReaddProofs.

Lemma in_combine_seq : forall (T : Type) (l : list T) s i x,
  In (i, x) (combine (seq s (length l)) l) -> s <= i /\ nth_error l (i - s) = Some x.
Proof.
  intros T l. induction l as [|a l IH]; intros s i x H; [destruct H|].
  cbn [length seq combine] in H. destruct H as [H|H].
  - inversion H; subst. split; [lia|]. rewrite Nat.sub_diag. reflexivity.
  - destruct (IH _ _ _ H) as [L N]. split; [lia|].
    replace (i - s) with (S (i - S s)) by lia. exact N.
Qed.

Lemma merge_cons : forall ft x rest dd dd',
  merge_bundles ft dd (x :: rest) = (dd', OK tt) ->
  exists dd2, merge_bundles ft dd [x] = (dd2, OK tt) /\ merge_bundles ft dd2 rest = (dd', OK tt).
Proof.
  intros ft [k0 sb] rest dd dd' H. cbn [merge_bundles] in *.
  destruct sb as [[sid|] sm srecs sidmap]; [|discriminate]. cbv zeta in *.
  destruct (find _ (combine (seq 0 (length (dbundles dd))) (dbundles dd))) as [[i ib]|].
  - destruct (nth_error (dbundles dd) i) as [[k1 tb]|]; [|discriminate].
    destruct (add_records _ ft tb srecs) as [tb' [u|e|]]; try discriminate.
    eexists. split; [reflexivity | exact H].
  - destruct (doc_new_bundle dd (Some (NQn sid)) ft) as [dd1 [u|e|]]; try discriminate.
    destruct (nth_error (dbundles dd1) (length (dbundles dd1) - 1)) as [[k1 tb]|]; [|discriminate].
    destruct (add_records _ ft tb srecs) as [tb' [u2|e|]]; try discriminate.
    eexists. split; [reflexivity | exact H].
Qed.

Lemma doc_new_bundle_ok : forall dd sid ft dd1, BInv (dmain dd) ->
  doc_new_bundle dd (Some (NQn sid)) ft = (dd1, OK tt) ->
  exists q, dbundles dd1 = (dbundles dd ++ [(qn_uri sid, bundle_init (Some q))])%list.
Proof.
  intros dd sid ft dd1 I H. unfold doc_new_bundle in H. cbn [resolve] in H.
  destruct (resolve_qn (bns (dmain dd)) sid) as [[m q]|] eqn:R; [|discriminate].
  destruct (resolve_qn_uri _ _ _ _ I R) as [U _]. cbv zeta in H.
  destruct (mem (qn_uri q) (dbundles dd)); [discriminate|]. inversion H; subst. cbn [dbundles].
  exists q. rewrite U. reflexivity.
Qed.

Definition good_recs (ft : ftable) (rs : list prec) : Prop :=
  forall r0, In r0 rs -> forall p, In p (record_pairs r0) -> good_pair ft p.

Lemma merge_one_lands : forall ft k0 sb dd dd2,
  DInv dd -> good_recs ft (brecs sb) ->
  merge_bundles ft dd [(k0, sb)] = (dd2, OK tt) ->
  exists sid i tb1' pre rs',
    bid sb = Some sid /\ nth_error (dbundles dd2) i = Some (qn_uri sid, tb1') /\
    brecs tb1' = (pre ++ rs')%list /\ Forall2 (image_of ft) (brecs sb) rs' /\
    ((exists tb1, nth_error (dbundles dd) i = Some (qn_uri sid, tb1) /\ pre = brecs tb1) \/
     (i = length (dbundles dd) /\ pre = [])).
Proof.
  intros ft k0 sb dd dd2 [DM DB] G H. cbn [merge_bundles] in H.
  destruct sb as [[sid|] sm srecs sidmap]; [|discriminate]. cbv zeta in H. cbn [brecs bid] in *.
  destruct (find _ (combine (seq 0 (length (dbundles dd))) (dbundles dd))) as [[i ib]|] eqn:F.
  - apply find_some in F. destruct F as [FI FE]. cbn [fst snd] in FE. apply String.eqb_eq in FE.
    apply in_combine_seq in FI. destruct FI as [_ FN]. rewrite Nat.sub_0_r in FN.
    rewrite FN in H. destruct ib as [k1 tb]. cbn [fst] in FE. subst k1.
    destruct (add_records _ ft tb srecs) as [tb' [u|e|]] eqn:A; try discriminate. destruct u.
    inversion H; subst dd2. cbn [dbundles].
    destruct (add_records_images _ _ _ _ _ (nth_error_Forall _ _ _ _ DB FN) G A) as [rs' [P [I2 _]]].
    exists sid, i, tb', (brecs tb), rs'. split; [reflexivity|]. split.
    + apply nth_set_nth_same with (x := (qn_uri sid, tb)). exact FN.
    + split; [exact P|]. split; [exact I2|]. left. exists tb. split; [exact FN | reflexivity].
  - destruct (doc_new_bundle dd (Some (NQn sid)) ft) as [dd1 [u|e|]] eqn:EN; try discriminate. destruct u.
    destruct (doc_new_bundle_ok _ _ _ _ DM EN) as [q EB].
    assert (NL : nth_error (dbundles dd1) (length (dbundles dd1) - 1) = Some (qn_uri sid, bundle_init (Some q))).
    { rewrite EB, app_length. cbn [length]. replace (length (dbundles dd) + 1 - 1) with (length (dbundles dd)) by lia.
      rewrite nth_error_app2 by lia. rewrite Nat.sub_diag. reflexivity. }
    rewrite NL in H.
    destruct (add_records _ ft (bundle_init (Some q)) srecs) as [tb' [u|e|]] eqn:A; try discriminate. destruct u.
    inversion H; subst dd2. cbn [dbundles].
    destruct (add_records_images _ _ _ _ _ (BInv_init (Some q)) G A) as [rs' [P [I2 _]]].
    exists sid, (length (dbundles dd1) - 1), tb', [], rs'. split; [reflexivity|]. split.
    + apply nth_set_nth_same with (x := (qn_uri sid, bundle_init (Some q))). exact NL.
    + split; [exact P|]. split; [exact I2|]. right. split; [|reflexivity].
      rewrite EB, app_length. cbn [length]. lia.
Qed.

(* update(): every bundle of the other document ends up in the bundle of the same identifier of the
   target — created if it was not there — as the images of its records, in order, after whatever
   that bundle held before and before whatever later bundles of the same identifier add *)
Theorem merge_bundles_images : forall ft bs dd dd',
  DInv dd -> (forall k sb, In (k, sb) bs -> good_recs ft (brecs sb)) ->
  merge_bundles ft dd bs = (dd', OK tt) ->
  forall k0 sb, In (k0, sb) bs ->
  exists sid i tb' pre rs' post,
    bid sb = Some sid /\ nth_error (dbundles dd') i = Some (qn_uri sid, tb') /\
    brecs tb' = (pre ++ rs' ++ post)%list /\ Forall2 (image_of ft) (brecs sb) rs'.
Proof.
  intros ft bs. induction bs as [|[k sb0] bs IH]; intros dd dd' D G H k0 sb I; [destruct I|].
  destruct (merge_cons _ _ _ _ _ H) as [dd2 [H1 H2]].
  pose proof (merge_bundles_DInv _ _ _ _ _ D H1) as D2.
  destruct I as [I|I].
  - inversion I; subst k sb0.
    destruct (merge_one_lands ft k0 sb dd dd2 D (G k0 sb (or_introl eq_refl)) H1)
      as [sid [i [tb1' [pre [rs' [B [N [P [F _]]]]]]]]].
    destruct (merge_bundles_keeps _ _ _ _ _ H2 i _ _ N) as [tb3 [N3 [_ [ext X]]]].
    exists sid, i, tb3, pre, rs', ext. split; [exact B|]. split; [exact N3|]. split; [|exact F].
    rewrite X, P, <- app_assoc. reflexivity.
  - refine (IH dd2 dd' D2 _ H2 k0 sb I). intros k1 sb1 I1. apply (G k1 sb1). right. exact I1.
Qed.
