(* XmlProofs.v — C02 at value level: what the PROV-XML writer emits for a value and the
   reader rebuilds from it, followed by normalisation on insertion, is the value. *)
From Coq Require Import String Ascii List Bool Arith ZArith Lia.
From Prov Require Import Str StrProofs Sexp Tables Nsm NsmProofs Values Record RecordProofs World Interp
     WorldProofs Jtree Json JsonProofs Xml.
Import ListNotations.
Open Scope string_scope.

(* type(value) in ALWAYS_CHECK is decided by the generated table: evaluate it *)
Ltac norm_always :=
  repeat match goal with
         | |- context [always_of ?v] =>
             let b := eval vm_compute in (always_of v) in change (always_of v) with b
         end.

(* the inferred-type condition of a value whose Python type is in ALWAYS_CHECK holds whatever force_types is *)
Ltac cond_true ft a :=
  match goal with
  | |- context [if ?cnd then _ else _] => replace cnd with true by (destruct ft, (is_tlv a); reflexivity)
  end.

Lemma xml_name_vqn : forall par m s, xml_name par m s = vqn par m (JStr s).
Proof. reflexivity. Qed.

(* the branch of add_attributes that normalises a value for attribute a *)
Definition insert_value (c : actx) (m : nsm) (a : qname) (va : valarg) : outcome (option value) :=
  if is_qname_attr a then qn_value c m va
  else if is_time_attr a then time_value m va
  else auto_conv c m va.

(* written, read back, inserted *)
Definition xml_reinsert (ft : bool) (c : actx) (m : nsm) (a : qname) (v : value) : outcome (option value) :=
  match xml_read (cparent c) m (xml_emit ft a v) with
  | OK va => insert_value c m a va
  | Raise e => Fail m e
  | OutOfDomain => OOD
  end.

Definition plain_attr (a : qname) : Prop :=
  is_qname_attr a = false /\ is_time_attr a = false /\ is_time_or_label a = false.

Lemma xsd_not_qname : forall l, l <> "QName" -> String.eqb (qn_uri (xsd_qn l)) (xsd_uri ++ "QName") = false.
Proof.
  intros l N. apply String.eqb_neq. unfold qn_uri, xsd_qn, xsd_ns; cbn [qn_ns ns_uri qn_local].
  intro H. apply append_inj_l in H. contradiction.
Qed.

(* strings: typed xsd:string or plain text, for every string, both values of force_types,
   every attribute that is not a reference or time attribute (prov:label included) *)
Theorem xml_value_str : forall ft c m a s, Builtins m ->
  is_qname_attr a = false -> is_time_attr a = false ->
  xml_reinsert ft c m a (VStr s) = Done m (Some (VStr s)).
Proof.
  intros ft c m a s B Q T. unfold xml_reinsert, xml_emit. norm_always. cbn [prov_str]. cbn [value_str]. rewrite Q. cbn [andb negb].
  match goal with |- context [if ?cnd then (Some "xsd:string", _) else _] => destruct cnd eqn:C end;
    unfold xml_read; cbn [x_text x_type x_lang x_ref].
  - rewrite xml_name_vqn.
    change "xsd:string" with ("xsd:" ++ "string"). rewrite (vqn_builtin_xsd _ _ _ B).
    rewrite xsd_not_qname by discriminate. unfold insert_value. rewrite Q, T.
    apply (entry_path_string c m s "xsd" "string"). vm_compute. reflexivity.
  - unfold insert_value. rewrite Q, T. reflexivity.
Qed.

Theorem xml_value_int : forall ft c m a z, Builtins m -> plain_attr a ->
  xml_reinsert ft c m a (VInt z) = Done m (Some (VInt z)).
Proof.
  intros ft c m a z B [Q [T L]]. unfold xml_reinsert, xml_emit. norm_always. cbn [prov_str]. cbn [value_str]. rewrite Q, L. cbn [andb negb].
  cond_true ft a.
  unfold xml_read; cbn [x_text x_type x_lang x_ref]. rewrite xml_name_vqn.
  change "xsd:int" with ("xsd:" ++ "int"). rewrite (vqn_builtin_xsd _ _ _ B).
  rewrite xsd_not_qname by discriminate. unfold insert_value. rewrite Q, T.
  apply (entry_path_int c m z "xsd" "int"). vm_compute. reflexivity.
Qed.

Theorem xml_value_bool : forall ft c m a b, Builtins m -> plain_attr a ->
  xml_reinsert ft c m a (VBool b) = Done m (Some (VBool b)).
Proof.
  intros ft c m a b B [Q [T L]]. unfold xml_reinsert, xml_emit. norm_always. cbn [prov_str]. cbn [value_str]. rewrite Q, L. cbn [andb negb].
  cond_true ft a.
  unfold xml_read; cbn [x_text x_type x_lang x_ref]. rewrite xml_name_vqn.
  change "xsd:boolean" with ("xsd:" ++ "boolean"). rewrite (vqn_builtin_xsd _ _ _ B).
  rewrite xsd_not_qname by discriminate. unfold insert_value. rewrite Q, T.
  destruct b; cbn [py_bool_str].
  - apply (entry_path_bool c m true "xsd" "boolean"). vm_compute. reflexivity.
  - apply (entry_path_bool c m false "xsd" "boolean"). vm_compute. reflexivity.
Qed.

Theorem xml_value_float : forall ft c m a r iv g, Builtins m -> plain_attr a ->
  lookup r (cft c) = Some (Some (r, iv, g)) ->
  xml_reinsert ft c m a (VFloat r iv g) = Done m (Some (VFloat r iv g)).
Proof.
  intros ft c m a r iv g B [Q [T L]] F. unfold xml_reinsert, xml_emit. norm_always. cbn [prov_str]. cbn [value_str]. rewrite Q, L. cbn [andb negb].
  cond_true ft a.
  unfold xml_read; cbn [x_text x_type x_lang x_ref]. rewrite xml_name_vqn.
  change "xsd:double" with ("xsd:" ++ "double"). rewrite (vqn_builtin_xsd _ _ _ B).
  rewrite xsd_not_qname by discriminate. unfold insert_value. rewrite Q, T.
  apply (entry_path_double c m r iv g "xsd" "double"); [vm_compute; reflexivity | exact F].
Qed.

Theorem xml_value_uri : forall ft c m a u, Builtins m -> plain_attr a ->
  xml_reinsert ft c m a (VId u) = Done m (Some (VId u)).
Proof.
  intros ft c m a u B [Q [T L]]. unfold xml_reinsert, xml_emit. norm_always. cbn [prov_str]. cbn [value_str]. rewrite Q, L. cbn [andb negb].
  cond_true ft a.
  unfold xml_read; cbn [x_text x_type x_lang x_ref]. rewrite xml_name_vqn.
  change "xsd:anyURI" with ("xsd:" ++ "anyURI"). rewrite (vqn_builtin_xsd _ _ _ B).
  rewrite xsd_not_qname by discriminate. unfold insert_value. rewrite Q, T.
  apply (entry_path_anyuri c m u "xsd" "anyURI"). vm_compute. reflexivity.
Qed.

(* language-tagged strings keep their language (prov:label included) *)
Theorem xml_value_lang : forall ft c m a lex ch l, Builtins m ->
  is_qname_attr a = false -> is_time_attr a = false ->
  xml_reinsert ft c m a (VLit lex (Some (prov_qn "InternationalizedString")) (Some (String ch l)))
  = Done m (Some (VLit lex (Some (prov_qn "InternationalizedString")) (Some (String ch l)))).
Proof.
  intros ft c m a lex ch l B Q T. unfold xml_reinsert, xml_emit. norm_always. cbn [prov_str].
  replace (intl_string (prov_qn "InternationalizedString")) with true by (vm_compute; reflexivity).
  rewrite Q. cbn [andb negb].
  assert (E : forall b1 b2, (if (b1 && true && negb false && true && b2)%bool
                 then (@None string, lex) else (@None string, lex)) = (None, lex)) by (intros [] []; reflexivity).
  match goal with |- context [if ?cnd then _ else _] => destruct cnd end;
    unfold xml_read; cbn [x_text x_type x_lang x_ref]; unfold insert_value; rewrite Q, T;
    cbn [auto_conv]; unfold keep_literal; cbn [mk_literal]; unfold resolve_o; cbn [resolve];
    (assert (Bd : Bound m (prov_qn "InternationalizedString")) by (right; split; [discriminate | apply B]));
    rewrite (resolve_qn_bound _ _ Bd); reflexivity.
Qed.

(* reference-valued formal attributes: written as prov:ref, read back to the same name *)
Theorem xml_value_ref : forall ft c m a q, Builtins m -> is_qname_attr a = true ->
  Bound m q -> printable q ->
  xml_reinsert ft c m a (VQn q) = Done m (Some (VQn q)).
Proof.
  intros ft c m a q B Q Bd P. unfold xml_reinsert, xml_emit. norm_always. cbn [prov_str]. rewrite Q.
  pose proof (qn_str_nonempty _ P) as NE. pose proof (Bound_reresolve _ _ Bd P) as R.
  destruct (qn_str q) as [|ch s] eqn:ES; [contradiction|].
  repeat (first [ rewrite andb_false_r | progress cbv beta iota zeta
                | progress change (String.eqb (String ch s) "") with false | progress cbn [andb negb orb] ]).
  unfold xml_read; cbn [x_text x_type x_lang x_ref].
  unfold xml_name. cbn [resolve]. unfold bind, resolve_str. rewrite R.
  unfold insert_value. rewrite Q. unfold qn_value, resolve_o. cbn [resolve].
  assert (Bd' : Bound m (mkQn (qn_ns q) (qn_local q))) by (destruct q; exact Bd).
  rewrite (resolve_qn_bound _ _ Bd'). destruct q; reflexivity.
Qed.
