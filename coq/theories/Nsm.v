(* Nsm.v — model of prov.identifier.Namespace / QualifiedName and of
   prov.model.NamespaceManager (src/prov/model.py), as the code is.
   A NamespaceManager is a dict subclass: [tbl] is the dict itself (prefix ->
   Namespace, with the built-ins and, under "", a default namespace set through
   set_default_namespace), [regd] is _namespaces, [dflt] is _default, [urimap],
   [renmap], [prenmap] are _uri_map, _rename_map, _prefix_renamed_map.  The parent
   pointer is not stored: the parent manager is passed to [resolve]. *)
From Coq Require Import String Ascii List Bool Arith.
From Prov Require Import Str Sexp Tables.
Import ListNotations.
Open Scope string_scope.

Record ns : Type := mkNs { ns_prefix : string; ns_uri : string }.
Definition ns_eqb (a b : ns) : bool :=
  String.eqb (ns_uri a) (ns_uri b) && String.eqb (ns_prefix a) (ns_prefix b).

Record qname : Type := mkQn { qn_ns : ns; qn_local : string }.
Definition qn_uri (q : qname) : string := ns_uri (qn_ns q) ++ qn_local q.
(* QualifiedName.__str__ *)
Definition qn_str (q : qname) : string :=
  match ns_prefix (qn_ns q) with
  | EmptyString => qn_local q
  | p => p ++ ":" ++ qn_local q
  end.
(* Identifier.__eq__ between two QualifiedNames *)
Definition qn_eqb (a b : qname) : bool := String.eqb (qn_uri a) (qn_uri b).

Record nsm : Type := mkNsm {
  tbl : list (string * ns);
  regd : list (string * ns);
  dflt : option ns;
  urimap : list (string * ns);
  renmap : list (ns * ns);
  prenmap : list (string * ns)
}.

Definition builtin_tbl : list (string * ns) :=
  map (fun pu => (fst pu, mkNs (fst pu) (snd pu))) default_namespaces.

Definition nsm_init : nsm :=
  mkNsm builtin_tbl [] None [] [] [].

(* Namespace.__init__ raises ValueError for an empty or all-whitespace URI *)
Definition uri_ok (u : string) : bool :=
  match u with EmptyString => false | _ => negb (all_chars is_space_ascii u) end.

Fixpoint ren_lookup (n : ns) (d : list (ns * ns)) : option ns :=
  match d with
  | [] => None
  | (k, v) :: r => if ns_eqb n k then Some v else ren_lookup n r
  end.
Fixpoint ren_set (n v : ns) (d : list (ns * ns)) : list (ns * ns) :=
  match d with
  | [] => [(n, v)]
  | (k, v') :: r => if ns_eqb n k then (k, v) :: r else (k, v') :: ren_set n v r
  end.

(* "namespace in self.values()" *)
Definition in_values (n : ns) (t : list (string * ns)) : bool :=
  existsb (fun kv => ns_eqb n (snd kv)) t.

(* NamespaceManager._get_unused_prefix: the while-True loop, with explicit fuel.
   NsmProofs.unused_prefix_fuel shows fuel [length t + 1] always suffices. *)
Fixpoint unused_from (fuel : nat) (p : string) (count : nat) (t : list (string * ns))
  : option string :=
  match fuel with
  | O => None
  | S f =>
      let np := p ++ "_" ++ str_of_nat count in
      if mem np t then unused_from f p (S count) t else Some np
  end.
Definition get_unused_prefix (p : string) (t : list (string * ns)) : option string :=
  if mem p t then unused_from (S (length t)) p 1 t else Some p.

(* NamespaceManager.set_default_namespace *)
Definition set_default (m : nsm) (u : string) : nsm :=
  let d := mkNs "" u in
  mkNsm (dset "" d (tbl m)) (regd m) (Some d) (urimap m) (renmap m) (prenmap m).

(* NamespaceManager.add_namespace; None only if the fuel ran out (unreachable) *)
Definition add_namespace (m : nsm) (n : ns) : option (nsm * ns) :=
  if in_values n (tbl m) then Some (m, n)
  else match ren_lookup n (renmap m) with
  | Some r => Some (m, r)
  | None =>
    let u := ns_uri n in
    let p := ns_prefix n in
    match lookup u (urimap m) with
    | Some e =>
        Some (mkNsm (tbl m) (regd m) (dflt m) (urimap m)
                    (ren_set n e (renmap m)) (dset p e (prenmap m)), e)
    | None =>
        if mem p (tbl m) then
          match get_unused_prefix p (tbl m) with
          | None => None
          | Some np =>
              let nn := mkNs np u in
              Some (mkNsm (dset np nn (tbl m)) (dset np nn (regd m)) (dflt m)
                          (dset u nn (urimap m)) (ren_set n nn (renmap m))
                          (dset p nn (prenmap m)), nn)
          end
        else
          Some (mkNsm (dset p n (tbl m)) (dset p n (regd m)) (dflt m)
                      (dset u n (urimap m)) (renmap m) (prenmap m), n)
    end
  end.

(* the argument of valid_qualified_name *)
Inductive namearg : Type :=
| NQn (q : qname)        (* a QualifiedName object *)
| NStr (s : string)      (* a str *)
| NId (u : string).      (* an Identifier (not QualifiedName) object *)

(* valid_qualified_name, QualifiedName branch (lines 1151-1185) *)
Definition resolve_qn (m : nsm) (q : qname) : option (nsm * qname) :=
  let n := qn_ns q in
  let l := qn_local q in
  match ns_prefix n with
  | EmptyString =>
      match dflt m with
      | Some d =>
          if ns_eqb d n then Some (m, mkQn d l)
          else match add_namespace m (mkNs "dn" (ns_uri n)) with
               | Some (m', n') => Some (m', mkQn n' l)
               | None => None
               end
      | None =>
          (* adopted: self._default = namespace; self[""] = namespace (as repaired) *)
          Some (mkNsm (dset "" n (tbl m)) (regd m) (Some n) (urimap m) (renmap m) (prenmap m), q)
      end
  | p =>
      match lookup p (tbl m) with
      | Some e =>
          if ns_eqb e n then Some (m, mkQn e l)
          else match add_namespace m (mkNs p (ns_uri n)) with
               | Some (m', n') => Some (m', mkQn n' l)
               | None => None
               end
      | None =>
          match add_namespace m (mkNs p (ns_uri n)) with
          | Some (m', n') => Some (m', mkQn n' l)
          | None => None
          end
      end
  end.

(* valid_qualified_name, str / Identifier branch within one manager
   (lines 1187-1214); never writes to the manager *)
Inductive sres : Type :=
| SFound (q : qname)
| SNone          (* returns None without consulting the parent *)
| SParent        (* falls through to the parent delegation *)
| STypeError.    (* Namespace[Identifier] -> "".join raises TypeError *)

Definition resolve_str1 (m : nsm) (s : string) (is_id : bool) : sres :=
  if starts_with "_:" s then SNone
  else match split_colon s with
  | Some (p, l) =>
      match lookup p (tbl m) with
      | Some n => SFound (mkQn n l)
      | None =>
          match lookup p (prenmap m) with
          | Some n => SFound (mkQn n l)
          | None =>
              match find (fun kv => starts_with (ns_uri (snd kv)) s) (tbl m) with
              | Some (_, n) => SFound (mkQn n (drop (String.length (ns_uri n)) s))   (* str_value[len(namespace.uri):] (as repaired) *)
              | None => SParent
              end
          end
      end
  | None =>
      match dflt m with
      | Some d => if is_id then STypeError else SFound (mkQn d s)
      | None => SParent
      end
  end.

Definition resolve_str (parent : option nsm) (m : nsm) (s : string) (is_id : bool)
  : result (option qname) :=
  match resolve_str1 m s is_id with
  | SFound q => OK (Some q)
  | SNone => OK None
  | STypeError => Raise EType
  | SParent =>
      match parent with
      | None => OK None
      | Some pm =>
          match resolve_str1 pm s is_id with
          | SFound q => OK (Some q)
          | SNone => OK None
          | STypeError => Raise EType
          | SParent => OK None
          end
      end
  end.

(* NamespaceManager.valid_qualified_name *)
Definition resolve (parent : option nsm) (m : nsm) (x : namearg)
  : result (nsm * option qname) :=
  match x with
  | NQn q => match resolve_qn m q with
             | Some (m', q') => OK (m', Some q')
             | None => OutOfDomain
             end
  | NStr EmptyString => OK (m, None)          (* "if not qname: return None" *)
  | NStr s => bind (resolve_str parent m s false) (fun r => OK (m, r))
  | NId u => bind (resolve_str parent m u true) (fun r => OK (m, r))
  end.

(* ---- wire format ---- *)
Definition sx_ns (n : ns) : sexp := L [A "ns"; A (ns_prefix n); A (ns_uri n)].
Definition sx_qn (q : qname) : sexp :=
  L [A "qn"; A (ns_prefix (qn_ns q)); A (ns_uri (qn_ns q)); A (qn_local q)].
