(* RdfVal.v — the literal mapping of provrdf.py, both ways, and the predicate an attribute of an element
   (entity, activity, agent) travels under.
     encode_rdf_representation / literal_rdf_representation        -> rdf_encode
     decode_rdf_representation (+ rdflib's lexical -> Python -> str) -> rdf_decode
     the element branch of encode_container                        -> enc_elem_pred
     predicate_mapper and `(str(pred_new), obj1)` in decode_container -> dec_elem_name
   An RDF term is a URI or a literal (lexical form, datatype URI, language).  What rdflib and the TriG syntax do
   to a term in between is an oracle: the term read is the term written (measured on every run).  Outside the
   model (None / OutOfDomain): floats (rdflib's lexical form of a double), base64Binary, gYear, gYearMonth,
   XMLLiteral, every W3C datatype rdflib converts other than string / int / boolean / anyURI / dateTime, a URI
   no declared namespace compacts (the reader then asks rdflib's compute_qname). *)
From Coq Require Import String Ascii List Bool ZArith.
From Prov Require Import Str Sexp Tables Nsm Values Record World Rdf.
Import ListNotations.
Open Scope string_scope.

Inductive rterm : Type :=
| RUri (u : string)
| RLit (lex : string) (dt : option string) (lang : option string).

Definition xsdu (l : string) : string := xsd_uri ++ l.
Definition rdf_syntax_ns : string := "http://www.w3.org/1999/02/22-rdf-syntax-ns#".

(* encode_rdf_representation *)
Definition rdf_encode (v : value) : option rterm :=
  match v with
  | VStr s => Some (RLit s (lookup "str" rdf_literal_xsdtype_map) None)
  | VInt z => Some (RLit (str_of_Z z) (lookup "int" rdf_literal_xsdtype_map) None)
  | VBool b => Some (RLit (if b then "true" else "false") (Some (xsdu "boolean")) None)   (* rdflib: Literal(True) *)
  | VTime t => Some (RLit (iso_print t) (Some (xsdu "dateTime")) None)
  | VId u => Some (RLit u (Some (xsdu "anyURI")) None)
  | VQn q => Some (RUri (qn_uri q))
  | VFloat _ _ _ => None
  | VLit lex dt lang =>
      match lex with
      | EmptyString => None                      (* `if literal.value` is false: the Literal object itself is handed to rdflib *)
      | _ =>
          match lang with
          | Some (String c l) => Some (RLit lex None (Some (String c l)))
          | _ =>
              match dt with
              | Some d => if contains_str "base64Binary" (qn_uri d) then None else Some (RLit lex (Some (qn_uri d)) None)
              | None => None
              end
          end
      end
  end.

(* str(literal.value if literal.value is not None else literal): rdflib converts the lexical form of the
   datatypes it knows to a Python value, Literal.__init__ of prov turns it into a string again *)
Definition rdflib_str (lex d : string) : option string :=
  if (String.eqb d (xsdu "string") || String.eqb d (xsdu "anyURI"))%bool then Some lex
  else if String.eqb d (xsdu "int") then
    match parse_int lex with Some z => Some (str_of_Z z) | None => None end
  else if String.eqb d (xsdu "boolean") then
    match parse_boolean lex with Some true => Some "True" | Some false => Some "False" | None => None end
  else if (starts_with xsd_uri d || starts_with rdf_syntax_ns d)%bool then None
  else Some lex.

(* decode_rdf_representation; valid_identifier = document.valid_qualified_name on the URI as a plain string *)
Definition rdf_decode (par : option nsm) (m : nsm) (t : rterm) : result valarg :=
  match t with
  | RUri u =>
      match resolve_str par m u false with
      | OK (Some q) => OK (AQn q)
      | OK None => OutOfDomain
      | Raise e => Raise e
      | OutOfDomain => OutOfDomain
      end
  | RLit lex None lang => OK (ALit lex None lang)
  | RLit lex (Some d) lang =>
      if String.eqb d (xsdu "QName") then OK (ALit lex (Some (xsd_qn "QName")) None)
      else if String.eqb d (xsdu "dateTime") then
        match parse_datetime lex with
        | DtOk t => OK (ATime t)
        | DtInvalid => Raise EValue
        | DtOutOfDomain => OutOfDomain
        end
      else
        match rdflib_str lex d with
        | None => OutOfDomain
        | Some s =>
            match resolve_str par m d false with
            | OK q => OK (ALit s q lang)
            | Raise e => Raise e
            | OutOfDomain => OutOfDomain
            end
        end
  end.

(* the element branch of encode_container: the predicate of attribute a *)
Definition enc_elem_pred (a : qname) : string :=
  let u := qn_uri a in
  if String.eqb u (P "location") then P "atLocation"
  else if String.eqb u (P "type") then rdf_type
  else if String.eqb u (P "label") then rdfs_label
  else if String.eqb u (P "startTime") then P "startedAtTime"
  else if String.eqb u (P "endTime") then P "endedAtTime"
  else u.

(* decode_container: rdf:type objects are filed under the QualifiedName prov:type; every other predicate as
   str(pred_new): "prov:<name>" for a predicate of predicate_mapper, the URI itself otherwise *)
Definition dec_elem_name (p : string) : namearg :=
  if String.eqb p rdf_type then NQn (prov_qn "type")
  else match lookup p rdf_predicate_mapper with
       | Some l => NStr ("prov:" ++ l)
       | None => NStr p
       end.

(* one attribute of an element through the writer and the reader: the reader's manager holds the namespaces
   the graph declares *)
Definition ins_value (c : actx) (m : nsm) (a : qname) (va : valarg) : outcome (option value) :=
  if is_qname_attr a then qn_value c m va
  else if is_time_attr a then time_value m va
  else auto_conv c m va.

Inductive attr_back : Type :=
| BOk (a : qname) (v : value)
| BNone                       (* the name or the value resolves to None: the attribute is refused *)
| BRaise (e : exc)
| BOod.

Definition rdf_attr_back (c : actx) (m : nsm) (p : string) (t : rterm) : attr_back :=
  match resolve_o c m (dec_elem_name p) with
  | Done m1 (Some a) =>
      match rdf_decode (cparent c) m1 t with
      | OK va =>
          match ins_value c m1 a va with
          | Done _ (Some v) => BOk a v
          | Done _ None => BNone
          | Fail _ e => BRaise e
          | OOD => BOod
          end
      | Raise e => BRaise e
      | OutOfDomain => BOod
      end
  | Done _ None => BNone
  | Fail _ e => BRaise e
  | OOD => BOod
  end.

(* ---- a whole element.  The writer: one triple per (attribute, value) pair of the record (besides the rdf:type
   triple naming its class); the reader: every predicate/object of the subject decoded in the document's manager,
   then bundle.new_record(class, str(subject), no formal values, the decoded pairs) *)
Fixpoint rdf_element_triples (pairs : list (qname * value)) : option (list (string * rterm)) :=
  match pairs with
  | [] => Some []
  | (a, v) :: rest =>
      match rdf_encode v, rdf_element_triples rest with
      | Some t, Some ts => Some ((enc_elem_pred a, t) :: ts)
      | _, _ => None
      end
  end.

Fixpoint rdf_decode_args (par : option nsm) (m : nsm) (ts : list (string * rterm)) : result (list (namearg * valarg)) :=
  match ts with
  | [] => OK []
  | (p, t) :: rest =>
      match rdf_decode par m t with
      | OK va =>
          match rdf_decode_args par m rest with
          | OK l => OK ((dec_elem_name p, va) :: l)
          | Raise e => Raise e
          | OutOfDomain => OutOfDomain
          end
      | Raise e => Raise e
      | OutOfDomain => OutOfDomain
      end
  end.

Definition rdf_read_element (par : option nsm) (ft : ftable) (b : bundle) (kind : string) (subject : string)
  (ts : list (string * rterm)) : bundle * result prec :=
  match rdf_decode_args par (bns b) ts with
  | OK args => new_record par ft b kind (Some (NStr subject)) args
  | Raise e => (b, Raise e)
  | OutOfDomain => (b, OutOfDomain)
  end.

(* ---- wire format *)
Definition sx_ostr (o : option string) : sexp := match o with Some s => L [A "some"; A s] | None => A "none" end.
Definition sx_rterm (t : rterm) : sexp :=
  match t with
  | RUri u => L [A "uri"; A u]
  | RLit l d g => L [A "lit"; A l; sx_ostr d; sx_ostr g]
  end.
Definition sx_attr_back (b : attr_back) : sexp :=
  match b with
  | BOk a v => L [A "ok"; sx_qn a; sx_value v]
  | BNone => A "refused"
  | BRaise e => L [A "raise"; A (exc_name e)]
  | BOod => A "ood"
  end.

Fixpoint declare_all (m : nsm) (l : list (string * string)) : option nsm :=
  match l with
  | [] => Some m
  | (p, u) :: r => match add_namespace m (mkNs p u) with Some (m', _) => declare_all m' r | None => None end
  end.

(* ---- a container that holds elements only.  The writer: per element record, the triple naming its class, then one
   triple per (attribute, value) pair.  The reader (decode_container): first every rdf:type triple — an object naming a
   PROV class whose base class it is registers the subject under that kind (once), any other object is filed as a
   prov:type attribute of the subject; then every other triple of a registered subject is decoded and filed under its
   subject; at the end one new_record per registered subject, in the order of registration.  Triples are taken in
   the order of the list (rdflib's store order is an oracle; the harness re-runs the real decoder on shuffled quads).
   Outside this model (OutOfDomain): predicates of relation_mapper, subjects without a registered kind, the derivation
   subtypes as rdf:type objects. *)
Definition rdf_element_block (r : prec) : option (list (string * string * rterm)) :=
  match rid r, rdf_element_triples (attributes r) with
  | Some q, Some ts => Some ((qn_uri q, rdf_type, RUri (P (rkind r))) :: map (fun pt => (qn_uri q, fst pt, snd pt)) ts)
  | _, _ => None
  end.

Fixpoint rdf_element_blocks (rs : list prec) : option (list (string * string * rterm)) :=
  match rs with
  | [] => Some []
  | r :: rest => match rdf_element_block r, rdf_element_blocks rest with
                 | Some a, Some b => Some (a ++ b)%list
                 | _, _ => None
                 end
  end.

Definition term_str (t : rterm) : string := match t with RUri u => u | RLit lex _ _ => lex end.

(* (class named, its base class) when the string is the URI of a PROV record class *)
Definition class_of_uri (u : string) : option (string * string) :=
  if starts_with prov_uri u then
    let l := drop (String.length prov_uri) u in
    match lookup l prov_base_cls with Some b => Some (l, b) | None => None end
  else None.

Definition others : Type := list (string * list (namearg * valarg)).
Fixpoint other_add (id : string) (na : namearg * valarg) (o : others) : others :=
  match o with
  | [] => [(id, [na])]
  | (k, l) :: r => if String.eqb id k then (k, (l ++ [na])%list) :: r else (k, l) :: other_add id na r
  end.
Definition other_get (id : string) (o : others) : list (namearg * valarg) :=
  match lookup id o with Some l => l | None => [] end.

(* phase 1: the rdf:type triples *)
Fixpoint rdf_types (par : option nsm) (m : nsm) (ts : list (string * string * rterm)) (ids : list (string * string)) (o : others)
  : result (list (string * string) * others) :=
  match ts with
  | [] => OK (ids, o)
  | (s, p, t) :: rest =>
      if negb (String.eqb p rdf_type) then rdf_types par m rest ids o else
      let file :=
        match rdf_decode par m t with
        | OK va => rdf_types par m rest ids (other_add s (NQn (prov_qn "type"), va) o)
        | Raise e => Raise e
        | OutOfDomain => OutOfDomain
        end in
      match class_of_uri (term_str t) with
      | Some (cls, base) =>
          if existsb (String.eqb cls) ["Revision"; "Quotation"; "PrimarySource"] then OutOfDomain
          else if (negb (mem s ids) && String.eqb cls base)%bool then rdf_types par m rest (ids ++ [(s, base)])%list o
          else file
      | None => file
      end
  end.

(* phase 2: the other triples of registered subjects *)
Fixpoint rdf_attrs (par : option nsm) (m : nsm) (ts : list (string * string * rterm)) (ids : list (string * string)) (o : others)
  : result others :=
  match ts with
  | [] => OK o
  | (s, p, t) :: rest =>
      if String.eqb p rdf_type then rdf_attrs par m rest ids o
      else if mem (drop (String.length prov_uri) p) rdf_relation_mapper && starts_with prov_uri p then OutOfDomain
      else if negb (mem s ids) then OutOfDomain
      else match rdf_decode par m t with
           | OK va => rdf_attrs par m rest ids (other_add s (dec_elem_name p, va) o)
           | Raise e => Raise e
           | OutOfDomain => OutOfDomain
           end
  end.

(* phase 3: one record per registered subject *)
Fixpoint rdf_make (par : option nsm) (ft : ftable) (b : bundle) (ids : list (string * string)) (o : others) : bundle * result unit :=
  match ids with
  | [] => (b, OK tt)
  | (s, kind) :: rest =>
      match new_record par ft b kind (Some (NStr s)) (other_get s o) with
      | (b', OK _) => rdf_make par ft b' rest o
      | (b', Raise e) => (b', Raise e)
      | (b', OutOfDomain) => (b', OutOfDomain)
      end
  end.

Definition rdf_read_elements (par : option nsm) (ft : ftable) (b : bundle) (ts : list (string * string * rterm)) : bundle * result unit :=
  match rdf_types par (bns b) ts [] [] with
  | OK (ids, o1) =>
      match rdf_attrs par (bns b) ts ids o1 with
      | OK o2 => rdf_make par ft b ids o2
      | Raise e => (b, Raise e)
      | OutOfDomain => (b, OutOfDomain)
      end
  | Raise e => (b, Raise e)
  | OutOfDomain => (b, OutOfDomain)
  end.

(* a graph is a set of triples *)
Definition rterm_eqb (a b : rterm) : bool :=
  match a, b with
  | RUri x, RUri y => String.eqb x y
  | RLit l d g, RLit l2 d2 g2 =>
      (String.eqb l l2 && match d, d2 with Some x, Some y => String.eqb x y | None, None => true | _, _ => false end
       && match g, g2 with Some x, Some y => String.eqb x y | None, None => true | _, _ => false end)%bool
  | _, _ => false
  end.
Definition triple_eqb3 (a b : string * string * rterm) : bool :=
  (String.eqb (fst (fst a)) (fst (fst b)) && String.eqb (snd (fst a)) (snd (fst b)) && rterm_eqb (snd a) (snd b))%bool.
Fixpoint dedup_triples (l : list (string * string * rterm)) : list (string * string * rterm) :=
  match l with
  | [] => []
  | x :: r => x :: filter (fun y => negb (triple_eqb3 x y)) (dedup_triples r)
  end.
