(* JsonRecProofs.v — C01/C11 one level above single values: a whole attribute of a
   record through the PROV-JSON writer and reader.  An attribute holding any number
   of values of any kinds is written as one member (a bare value or an array) and
   read back as exactly that many (attribute, value) pairs, in the same order, each of
   which the insertion code normalises to the value that was written; the formal
   attributes (references and times) are written as a bare string and converted back. *)
From Coq Require Import String Ascii List Bool Arith ZArith Lia.
From Prov Require Import Str StrProofs Sexp Tables Nsm NsmProofs Scope Values Record RecordProofs World Jtree Json
  JsonProofs IsoDigits IsoProofs TimeProofs.
Import ListNotations.
Open Scope string_scope.

(* a value the JSON value path carries unchanged in container scope m *)
Definition rt (c : actx) (m : nsm) (v : value) : Prop := reinsert c m v = Done m (Some v).

Lemma rt_decoded : forall c m v, rt c m v ->
  exists a, decode_value (cparent c) m (encode_value v) = OK a /\ auto_conv c m a = Done m (Some v).
Proof.
  intros c m v H. unfold rt, reinsert in H.
  destruct (decode_value (cparent c) m (encode_value v)) as [a|e|]; try discriminate.
  exists a. split; [reflexivity | exact H].
Qed.

(* the pairs the reader hands to new_record for one attribute *)
Definition carried (c : actx) (m : nsm) (a : qname) (p : namearg * valarg) (v : value) : Prop :=
  fst p = NQn a /\ auto_conv c m (snd p) = Done m (Some v).

Lemma decode_values_encode : forall c m a vs, Forall (rt c m) vs ->
  exists l, decode_values (cparent c) m (NQn a) (map encode_value vs) = OK l /\ Forall2 (carried c m a) l vs.
Proof.
  intros c m a vs F. induction F as [|v vs Hv F IH].
  - exists []. split; [reflexivity | constructor].
  - destruct IH as [l [E L]]. destruct (rt_decoded _ _ _ Hv) as [x [D A]].
    exists ((NQn a, x) :: l). split.
    + cbn [map decode_values]. rewrite D, E. reflexivity.
    + constructor; [split; [reflexivity | exact A] | exact L].
Qed.

(* the writer never emits an array for a single value, so unwrapping is unambiguous *)
Lemma encode_value_not_arr : forall v l, encode_value v <> JArr l.
Proof.
  intros v l. destruct v as [s|z|r iv g|b|t|u|q|lex dt lg]; cbn [encode_value]; try discriminate.
  all: try (destruct (lookup _ json_literal_xsdtype_map); discriminate).
  destruct lg as [[|ch lg]|]; discriminate.
Qed.

Definition unwrap (j : jv) : list jv := match j with JArr l => l | v => [v] end.

Lemma unwrap_single : forall v, unwrap (encode_value v) = [encode_value v].
Proof.
  intros v. unfold unwrap. destruct (encode_value v) eqn:E; try reflexivity.
  exfalso. exact (encode_value_not_arr _ _ E).
Qed.

(* ---- an ordinary (non-formal) attribute with one or more values *)
Theorem json_attr_roundtrip : forall c m a v vs,
  is_qname_attr a = false -> is_time_attr a = false -> Forall (rt c m) (v :: vs) ->
  exists j l, encode_attr (a, v :: vs) = [(qn_str a, j)] /\
              decode_values (cparent c) m (NQn a) (unwrap j) = OK l /\
              Forall2 (carried c m a) l (v :: vs).
Proof.
  intros c m a v vs Q T F. destruct (decode_values_encode c m a _ F) as [l [D L]].
  unfold encode_attr. rewrite Q, T. destruct vs as [|v2 vs].
  - exists (encode_value v), l. split; [reflexivity|]. rewrite unwrap_single. split; [exact D | exact L].
  - exists (JArr (map encode_value (v :: v2 :: vs))), l. split; [reflexivity|]. split; [exact D | exact L].
Qed.

(* an attribute without values is not written at all *)
Lemma json_attr_empty : forall a, encode_attr (a, []) = [].
Proof. reflexivity. Qed.

(* ---- formal attributes: the conversion decode_element applies to the bare string *)
Definition formal_conv (par : option nsm) (m : nsm) (a : qname) (v : jv) : result valarg :=
  if is_qname_attr a then
    match vqn par m v with
    | OK (Some q) => OK (AQn q)
    | OK None => OK ANone
    | Raise e => Raise e
    | OutOfDomain => OutOfDomain
    end
  else
    match v with
    | JStr s => match parse_datetime s with
                | DtOk t => OK (ATime t)
                | DtInvalid => OK ANone
                | DtOutOfDomain => OutOfDomain
                end
    | _ => Raise EType
    end.

(* a reference: written as the name's string, resolved back to the same name, accepted by the
   reference branch of add_attributes *)
Theorem json_formal_ref_roundtrip : forall c m a q, is_qname_attr a = true -> Bound m q -> printable q ->
  encode_attr (a, [VQn q]) = [(qn_str a, JStr (qn_str q))] /\
  formal_conv (cparent c) m a (JStr (qn_str q)) = OK (AQn q) /\
  qn_value c m (AQn q) = Done m (Some (VQn q)).
Proof.
  intros c m a q Q Bd P. split; [unfold encode_attr; rewrite Q; reflexivity|].
  pose proof (qn_str_nonempty _ P) as NE. pose proof (Bound_reresolve _ _ Bd P) as R.
  assert (Bd' : Bound m (mkQn (qn_ns q) (qn_local q))) by (destruct q; exact Bd).
  split.
  - unfold formal_conv. rewrite Q. unfold vqn.
    destruct (qn_str q) as [|ch s] eqn:ES; [contradiction|].
    cbn [resolve]. unfold bind, resolve_str. rewrite R. destruct q; reflexivity.
  - unfold qn_value, resolve_o. cbn [resolve]. rewrite (resolve_qn_bound _ _ Bd). destruct q; reflexivity.
Qed.

(* a time: written in ISO form, parsed back to the same instant and offset *)
Theorem json_formal_time_roundtrip : forall c m a t, is_qname_attr a = false -> is_time_attr a = true ->
  valid_dt t = true ->
  encode_attr (a, [VTime t]) = [(qn_str a, JStr (iso_print t))] /\
  formal_conv (cparent c) m a (JStr (iso_print t)) = OK (ATime t) /\
  time_value m (ATime t) = Done m (Some (VTime t)).
Proof.
  intros c m a t Q T V. split; [unfold encode_attr; rewrite Q, T; reflexivity|]. split.
  - unfold formal_conv. rewrite Q, (parse_datetime_print t V). reflexivity.
  - reflexivity.
Qed.

(* formal_conv is the conversion decode_element performs: one formal member, bare value *)
Lemma decode_element_formal : forall par m kind a name v rest acc,
  attr_key par m name = OK (Some a) -> is_formal_attr a = true ->
  (forall l, v <> JArr l) ->
  decode_element par m kind ((name, v) :: rest) acc =
  match formal_conv par m a v with
  | OK va => decode_element par m kind rest (mkAcc (fset a va (acc_formal acc)) (acc_other acc) (acc_members acc))
  | Raise e => Raise e
  | OutOfDomain => OutOfDomain
  end.
Proof.
  intros par m kind a name v rest acc K F NA. cbn [decode_element]. rewrite K, F. unfold formal_conv.
  destruct v as [ | | | | |l| ]; try reflexivity. exfalso. exact (NA l eq_refl).
Qed.

(* and the one for an ordinary member *)
Lemma decode_element_other : forall par m kind a name j rest acc,
  attr_key par m name = OK (Some a) -> is_formal_attr a = false ->
  decode_element par m kind ((name, j) :: rest) acc =
  match decode_values par m (NQn a) (unwrap j) with
  | OK l => decode_element par m kind rest (mkAcc (acc_formal acc) (acc_other acc ++ l)%list (acc_members acc))
  | Raise e => Raise e
  | OutOfDomain => OutOfDomain
  end.
Proof. intros par m kind a name j rest acc K F. cbn [decode_element]. rewrite K, F. reflexivity. Qed.

(* ================================================================== the whole record *)
(* ---- A. add_attributes on arguments that resolve and normalise without touching the manager:
   the loop is a fold of attr_add (formal attributes: one value each) *)
Definition insert_value (c : actx) (m : nsm) (a : qname) (va : valarg) : outcome (option value) :=
  if is_qname_attr a then qn_value c m va
  else if is_time_attr a then time_value m va
  else auto_conv c m va.

Definition arg_ok (c : actx) (m : nsm) (na : namearg * valarg) (kv : qname * value) : Prop :=
  snd na <> ANone /\ resolve_o c m (fst na) = Done m (Some (fst kv)) /\
  insert_value c m (fst kv) (snd na) = Done m (Some (snd kv)).

Fixpoint put_all (ic : bool) (pairs : list (qname * value)) (d : list (qname * list value))
  : option (list (qname * list value)) :=
  match pairs with
  | [] => Some d
  | (k, v) :: rest =>
      if (negb (ic && is_prov_name "entity" k) && is_formal_attr k)%bool then
        match attr_get k d with
        | e0 :: _ => if py_eq v e0 then put_all ic rest d else None
        | [] => put_all ic rest (attr_add k v d)
        end
      else put_all ic rest (attr_add k v d)
  end.

Lemma loop_fixed : forall c ic m l pairs d d',
  Forall2 (arg_ok c m) l pairs -> put_all ic pairs d = Some d' ->
  add_attrs_loop c ic m d l = (m, d', LDone).
Proof.
  intros c ic m l pairs d d' F. revert d d'.
  induction F as [|[n a] [k v] l pairs [NN [R I]] F IH]; intros d d' P.
  - cbn in P. inversion P; subst. reflexivity.
  - cbn [fst snd] in NN, R, I. cbn [put_all] in P.
    assert (E : add_attrs_loop c ic m d ((n, a) :: l) =
                match insert_value c m k a with
                | Done m2 (Some v0) =>
                    if (negb (ic && is_prov_name "entity" k) && is_formal_attr k)%bool then
                      match attr_get k d with
                      | e0 :: _ => if py_eq v0 e0 then add_attrs_loop c ic m2 d l else (m2, d, LFail EProv)
                      | [] => add_attrs_loop c ic m2 (attr_add k v0 d) l
                      end
                    else add_attrs_loop c ic m2 (attr_add k v0 d) l
                | Done m2 None => (m2, d, LFail EProv)
                | Fail m2 e => (m2, d, LFail e)
                | OOD => (m, d, LOOD)
                end).
    { destruct a; try (exfalso; apply NN; reflexivity); cbn [add_attrs_loop]; rewrite R; reflexivity. }
    rewrite E, I. clear E.
    destruct (negb (ic && is_prov_name "entity" k) && is_formal_attr k)%bool.
    + destruct (attr_get k d) as [|e0 es].
      * apply IH. exact P.
      * destruct (py_eq v e0); [apply IH; exact P | discriminate].
    + apply IH. exact P.
Qed.

(* ---- B. with distinct member names the record object is the concatenation of its attributes' members *)
Lemma dset_fresh : forall (V : Type) (d : list (string * V)) k v, ~ In k (map fst d) -> dset k v d = (d ++ [(k, v)])%list.
Proof.
  intros V d. induction d as [|[k' v'] d IH]; intros k v N; [reflexivity|].
  cbn [dset]. destruct (String.eqb k k') eqn:E.
  - apply String.eqb_eq in E. subst. exfalso. apply N. left. reflexivity.
  - cbn [app]. f_equal. apply IH. intro H. apply N. right. exact H.
Qed.

Lemma encode_attr_shape : forall kv, encode_attr kv = [] \/ exists j, encode_attr kv = [(qn_str (fst kv), j)].
Proof.
  intros [a vs]. destruct vs as [|v rest]; [left; reflexivity|]. right. cbn [fst]. unfold encode_attr.
  destruct (is_qname_attr a); [eexists; reflexivity|].
  destruct (is_time_attr a); [eexists; reflexivity|].
  destruct rest; eexists; reflexivity.
Qed.

Definition member_names (attrs : list (qname * list value)) : list string :=
  flat_map (fun kv => map fst (encode_attr kv)) attrs.

Lemma encode_fold_flat : forall attrs acc,
  NoDup (map fst acc ++ member_names attrs)%list ->
  fold_left (fun acc kv => fold_left (fun a e => jset (fst e) (snd e) a) (encode_attr kv) acc) attrs acc
  = (acc ++ flat_map encode_attr attrs)%list.
Proof.
  induction attrs as [|kv attrs IH]; intros acc U; cbn [fold_left flat_map]; [rewrite app_nil_r; reflexivity|].
  unfold member_names in U. cbn [flat_map] in U. fold (member_names attrs) in U.
  destruct (encode_attr_shape kv) as [E|[j E]]; rewrite E in *; cbn [fold_left map app] in *.
  - apply IH. exact U.
  - cbn [fst snd]. unfold jset. rewrite dset_fresh.
    + rewrite IH.
      * rewrite <- app_assoc. reflexivity.
      * rewrite map_app. cbn [map fst]. rewrite <- app_assoc. exact U.
    + intro H. apply NoDup_remove_2 in U. apply U. apply in_or_app. left. exact H.
Qed.

Theorem encode_record_flat : forall r, NoDup (member_names (rattrs r)) ->
  encode_record_obj r = JObj (flat_map encode_attr (rattrs r)).
Proof. intros r U. unfold encode_record_obj. rewrite encode_fold_flat; [reflexivity | exact U]. Qed.

(* ---- C. what put_all builds from the pairs of a list of attributes *)
Definition key_uri (kv : qname * list value) : string := qn_uri (fst kv).
Definition fresh_key (a : qname) (d : list (qname * list value)) : Prop := ~ In (qn_uri a) (map key_uri d).

Lemma qn_eqb_uri : forall a b, qn_eqb a b = true <-> qn_uri a = qn_uri b.
Proof. intros a b. unfold qn_eqb. apply String.eqb_eq. Qed.

Lemma qn_eqb_refl : forall a, qn_eqb a a = true.
Proof. intros a. apply qn_eqb_uri. reflexivity. Qed.

Lemma fresh_cons : forall a k vs d, fresh_key a ((k, vs) :: d) -> qn_eqb a k = false /\ fresh_key a d.
Proof.
  intros a k vs d F. split.
  - destruct (qn_eqb a k) eqn:E; [|reflexivity]. exfalso. apply F. left. symmetry. apply qn_eqb_uri. exact E.
  - intro H. apply F. right. exact H.
Qed.

Lemma attr_get_fresh : forall a d, fresh_key a d -> attr_get a d = [].
Proof.
  intros a d. induction d as [|[k vs] d IH]; intros F; [reflexivity|].
  destruct (fresh_cons _ _ _ _ F) as [E F']. cbn [attr_get]. rewrite E. apply IH. exact F'.
Qed.

Lemma attr_put_fresh : forall a vs d, fresh_key a d -> attr_put a vs d = (d ++ [(a, vs)])%list.
Proof.
  intros a vs d. induction d as [|[k old] d IH]; intros F; [reflexivity|].
  destruct (fresh_cons _ _ _ _ F) as [E F']. cbn [attr_put app]. rewrite E. f_equal. apply IH. exact F'.
Qed.

Lemma attr_get_last : forall a vs d, fresh_key a d -> attr_get a (d ++ [(a, vs)])%list = vs.
Proof.
  intros a vs d. induction d as [|[k old] d IH]; intros F.
  - cbn. rewrite qn_eqb_refl. reflexivity.
  - destruct (fresh_cons _ _ _ _ F) as [E F']. cbn [attr_get app]. rewrite E. apply IH. exact F'.
Qed.

Lemma attr_put_last : forall a vs vs' d, fresh_key a d ->
  attr_put a vs' (d ++ [(a, vs)])%list = (d ++ [(a, vs')])%list.
Proof.
  intros a vs vs' d. induction d as [|[k old] d IH]; intros F.
  - cbn. rewrite qn_eqb_refl. reflexivity.
  - destruct (fresh_cons _ _ _ _ F) as [E F']. cbn [attr_put app]. rewrite E. f_equal. apply IH. exact F'.
Qed.

(* a value list as a Python set holds it: no element equal-and-hashing-alike to an earlier one *)
Definition set_distinct (l : list value) : Prop :=
  forall pre v post, l = (pre ++ v :: post)%list -> set_mem v pre = false.

Lemma set_distinct_snoc : forall pre v, set_distinct (pre ++ [v]) -> set_mem v pre = false.
Proof. intros pre v H. apply (H pre v []). reflexivity. Qed.

Lemma set_distinct_prefix : forall l1 l2, set_distinct (l1 ++ l2) -> set_distinct l1.
Proof.
  intros l1 l2 H pre v post E. apply (H pre v (post ++ l2)%list). rewrite E, <- app_assoc. reflexivity.
Qed.

(* adding the values vs of attribute a one by one, a already holding pre *)
Lemma add_values_other : forall ic a rest vs pre d,
  is_formal_attr a = false -> fresh_key a d -> set_distinct (pre ++ vs) ->
  put_all ic (map (pair a) vs ++ rest) (d ++ [(a, pre)])%list = put_all ic rest (d ++ [(a, pre ++ vs)])%list.
Proof.
  intros ic a rest vs. induction vs as [|v vs IH]; intros pre d NF F SD.
  - cbn [map app]. rewrite app_nil_r. reflexivity.
  - cbn [map app put_all]. rewrite NF, andb_false_r.
    unfold attr_add. rewrite (attr_get_last _ _ _ F).
    assert (M : set_mem v pre = false).
    { apply set_distinct_snoc. apply (set_distinct_prefix _ vs). rewrite <- app_assoc. exact SD. }
    unfold set_add. rewrite M. rewrite (attr_put_last _ _ _ _ F).
    rewrite (IH (pre ++ [v])%list d NF F); [rewrite <- app_assoc; reflexivity|].
    rewrite <- app_assoc. exact SD.
Qed.

Lemma add_attr_other : forall ic a rest v vs d,
  is_formal_attr a = false -> fresh_key a d -> set_distinct (v :: vs) ->
  put_all ic (map (pair a) (v :: vs) ++ rest) d = put_all ic rest (d ++ [(a, v :: vs)])%list.
Proof.
  intros ic a rest v vs d NF F SD. cbn [map app put_all]. rewrite NF, andb_false_r.
  unfold attr_add. rewrite (attr_get_fresh _ _ F). cbn [set_add set_mem existsb]. unfold set_add. cbn [set_mem existsb app].
  rewrite (attr_put_fresh _ _ _ F).
  apply (add_values_other ic a rest vs [v] d NF F). exact SD.
Qed.

Lemma add_attr_formal : forall ic a rest v d, fresh_key a d ->
  put_all ic ((a, v) :: rest) d = put_all ic rest (d ++ [(a, [v])])%list.
Proof.
  intros ic a rest v d F. cbn [put_all]. unfold attr_add. rewrite (attr_get_fresh _ _ F).
  unfold set_add. cbn [set_mem existsb app]. rewrite (attr_put_fresh _ _ _ F).
  destruct (negb (ic && is_prov_name "entity" a) && is_formal_attr a)%bool; reflexivity.
Qed.

Definition pairs_of (l : list (qname * list value)) : list (qname * value) :=
  flat_map (fun kv => map (pair (fst kv)) (snd kv)) l.

(* an attribute as a record holds it: formal attributes one value, the others a set, none empty *)
Definition attr_shape (kv : qname * list value) : Prop :=
  match snd kv with
  | [] => False
  | [v] => True
  | vs => is_formal_attr (fst kv) = false
  end /\ set_distinct (snd kv).

Lemma put_all_attrs : forall ic L rest d,
  NoDup (map key_uri (d ++ L)) -> Forall attr_shape L ->
  put_all ic (pairs_of L ++ rest) d = put_all ic rest (d ++ L)%list.
Proof.
  intros ic L. induction L as [|[a vs] L IH]; intros rest d U S.
  - cbn. rewrite app_nil_r. reflexivity.
  - inversion S as [|x y [Sh SD] S']; subst. cbn [fst snd] in Sh, SD.
    assert (F : fresh_key a d).
    { unfold fresh_key. rewrite map_app in U. cbn [map] in U. apply NoDup_remove_2 in U.
      intro H. apply U. apply in_or_app. left. exact H. }
    assert (U' : NoDup (map key_uri ((d ++ [(a, vs)]) ++ L))) by (rewrite <- app_assoc; exact U).
    unfold pairs_of. cbn [flat_map fst snd]. fold (pairs_of L). rewrite <- app_assoc.
    replace (d ++ (a, vs) :: L)%list with ((d ++ [(a, vs)]) ++ L)%list by (rewrite <- app_assoc; reflexivity).
    destruct vs as [|v vs]; [destruct Sh|].
    destruct (is_formal_attr a) eqn:FA.
    + destruct vs as [|v2 vs]; [|discriminate Sh].
      cbn [map app]. rewrite (add_attr_formal ic a _ v d F). apply IH; assumption.
    + rewrite (add_attr_other ic a _ v vs d FA F SD). apply IH; assumption.
Qed.

(* ---- D. decoding the members of a record object *)
Definition nonempty {T} (l : list T) : bool := match l with [] => false | _ => true end.
Definition formals (attrs : list (qname * list value)) :=
  filter (fun kv => (is_formal_attr (fst kv) && nonempty (snd kv))%bool) attrs.
Definition others (attrs : list (qname * list value)) :=
  filter (fun kv => (negb (is_formal_attr (fst kv)) && nonempty (snd kv))%bool) attrs.

(* an attribute the JSON path carries in container scope m: its name is declared there and is read
   back as itself, its values are round-trippable *)
Inductive attr_good (c : actx) (m : nsm) : qname * list value -> Prop :=
| ag_empty : forall a, attr_good c m (a, [])
| ag_other : forall a v vs,
    attr_key (cparent c) m (qn_str a) = OK (Some a) -> Bound m a -> is_formal_attr a = false ->
    Forall (rt c m) (v :: vs) -> attr_good c m (a, v :: vs)
| ag_ref : forall a q,
    attr_key (cparent c) m (qn_str a) = OK (Some a) -> Bound m a -> is_qname_attr a = true ->
    Bound m q -> printable q -> attr_good c m (a, [VQn q])
| ag_time : forall a t,
    attr_key (cparent c) m (qn_str a) = OK (Some a) -> Bound m a -> is_qname_attr a = false ->
    is_time_attr a = true -> valid_dt t = true -> attr_good c m (a, [VTime t]).

Definition farg_ok (c : actx) (m : nsm) (p : qname * valarg) (kv : qname * value) : Prop :=
  fst p = fst kv /\ arg_ok c m (NQn (fst p), snd p) kv.

Definition fset_all (fa : list (qname * valarg)) (d : list (qname * valarg)) : list (qname * valarg) :=
  fold_left (fun d p => fset (fst p) (snd p) d) fa d.

Lemma resolve_o_bound : forall c m a, Bound m a -> resolve_o c m (NQn a) = Done m (Some a).
Proof.
  intros c m a Bd. unfold resolve_o. cbn [resolve]. rewrite (resolve_qn_bound _ _ Bd). destruct a; reflexivity.
Qed.

Lemma formal_split : forall a, is_formal_attr a = false -> is_qname_attr a = false /\ is_time_attr a = false.
Proof. intros a H. unfold is_formal_attr in H. apply orb_false_iff in H. exact H. Qed.

Lemma carried_arg_ok : forall c m a p v, Bound m a -> is_formal_attr a = false ->
  carried c m a p v -> arg_ok c m p (a, v).
Proof.
  intros c m a [n x] v Bd NF [E A]. cbn [fst snd] in *. subst n. unfold arg_ok. cbn [fst snd].
  destruct (formal_split _ NF) as [Q T]. split; [|split].
  - intro X. subst x. cbn in A. discriminate.
  - apply resolve_o_bound. exact Bd.
  - unfold insert_value. rewrite Q, T. exact A.
Qed.

Lemma Forall2_carried : forall c m a l vs, Bound m a -> is_formal_attr a = false ->
  Forall2 (carried c m a) l vs -> Forall2 (arg_ok c m) l (map (pair a) vs).
Proof.
  intros c m a l vs Bd NF F. induction F as [|p v l vs H F IH]; cbn [map]; constructor; [|exact IH].
  apply carried_arg_ok; assumption.
Qed.

Lemma decode_members : forall c m kind attrs, Forall (attr_good c m) attrs -> forall acc,
  exists fa oa,
    decode_element (cparent c) m kind (flat_map encode_attr attrs) acc
      = OK (mkAcc (fset_all fa (acc_formal acc)) (acc_other acc ++ oa) (acc_members acc)) /\
    Forall2 (farg_ok c m) fa (pairs_of (formals attrs)) /\
    Forall2 (arg_ok c m) oa (pairs_of (others attrs)).
Proof.
  intros c m kind attrs F. induction F as [|kv attrs G F IH]; intros acc.
  - exists [], []. cbn. rewrite app_nil_r. destruct acc. repeat split; constructor.
  - cbn [flat_map]. destruct G as [a | a v vs K Bd NF R | a q K Bd Q Bq P | a t K Bd Q T V].
    + (* no value: not written *)
      cbn [encode_attr app]. destruct (IH acc) as [fa [oa [E [F1 F2]]]]. exists fa, oa.
      split; [exact E|]. unfold formals, others. cbn [filter fst snd nonempty]. rewrite !andb_false_r.
      split; assumption.
    + (* ordinary attribute *)
      destruct (formal_split _ NF) as [Q T].
      destruct (json_attr_roundtrip c m a v vs Q T R) as [j [l [E [D L]]]]. rewrite E. cbn [app].
      rewrite (decode_element_other _ _ _ a _ _ _ _ K NF), D.
      destruct (IH (mkAcc (acc_formal acc) (acc_other acc ++ l) (acc_members acc))) as [fa [oa [E2 [F1 F2]]]].
      exists fa, (l ++ oa)%list. cbn [acc_formal acc_other acc_members] in E2. rewrite app_assoc.
      split; [exact E2|]. unfold formals, others. cbn [filter fst snd nonempty]. rewrite NF. cbn [andb negb].
      split; [exact F1|]. unfold pairs_of. cbn [flat_map fst snd]. apply Forall2_app; [|exact F2].
      apply Forall2_carried; assumption.
    + (* reference *)
      destruct (json_formal_ref_roundtrip c m a q Q Bq P) as [E [C V]]. rewrite E. cbn [app].
      assert (FA : is_formal_attr a = true) by (unfold is_formal_attr; rewrite Q; reflexivity).
      rewrite (decode_element_formal _ _ _ a _ _ _ _ K FA) by discriminate. rewrite C.
      destruct (IH (mkAcc (fset a (AQn q) (acc_formal acc)) (acc_other acc) (acc_members acc))) as [fa [oa [E2 [F1 F2]]]].
      exists ((a, AQn q) :: fa), oa. cbn [acc_formal acc_other acc_members] in E2.
      split; [exact E2|]. unfold formals, others. cbn [filter fst snd nonempty]. rewrite FA. cbn [andb negb].
      split; [|exact F2]. unfold pairs_of. cbn [flat_map fst snd map app]. constructor; [|exact F1].
      split; [reflexivity|]. unfold arg_ok. cbn [fst snd]. split; [discriminate|]. split; [apply resolve_o_bound; exact Bd|].
      unfold insert_value. rewrite Q. exact V.
    + (* time *)
      destruct (json_formal_time_roundtrip c m a t Q T V) as [E [C V2]]. rewrite E. cbn [app].
      assert (FA : is_formal_attr a = true) by (unfold is_formal_attr; rewrite T; apply orb_true_r).
      rewrite (decode_element_formal _ _ _ a _ _ _ _ K FA) by discriminate. rewrite C.
      destruct (IH (mkAcc (fset a (ATime t) (acc_formal acc)) (acc_other acc) (acc_members acc))) as [fa [oa [E2 [F1 F2]]]].
      exists ((a, ATime t) :: fa), oa. cbn [acc_formal acc_other acc_members] in E2.
      split; [exact E2|]. unfold formals, others. cbn [filter fst snd nonempty]. rewrite FA. cbn [andb negb].
      split; [|exact F2]. unfold pairs_of. cbn [flat_map fst snd map app]. constructor; [|exact F1].
      split; [reflexivity|]. unfold arg_ok. cbn [fst snd]. split; [discriminate|]. split; [apply resolve_o_bound; exact Bd|].
      unfold insert_value. rewrite Q, T. exact V2.
Qed.

(* ---- E. the formal-attribute dictionary of the reader, keys distinct *)
Lemma fset_fresh : forall k v d, ~ In (qn_uri k) (map (fun p => qn_uri (fst p)) d) -> fset k v d = (d ++ [(k, v)])%list.
Proof.
  intros k v d. induction d as [|[k0 v0] d IH]; intros N; [reflexivity|].
  cbn [fset app]. destruct (qn_eqb k k0) eqn:E.
  - exfalso. apply N. left. symmetry. apply qn_eqb_uri. exact E.
  - f_equal. apply IH. intro H. apply N. right. exact H.
Qed.

Lemma fset_all_fresh : forall fa d, NoDup (map (fun p => qn_uri (fst p)) (d ++ fa)) -> fset_all fa d = (d ++ fa)%list.
Proof.
  induction fa as [|[k v] fa IH]; intros d U; cbn [fset_all fold_left]; [rewrite app_nil_r; reflexivity|].
  cbn [fst snd]. rewrite fset_fresh.
  - fold (fset_all fa (d ++ [(k, v)])%list). rewrite IH; rewrite <- app_assoc; [reflexivity | exact U].
  - rewrite map_app in U. cbn [map fst] in U. apply NoDup_remove_2 in U. intro H. apply U. apply in_or_app. left. exact H.
Qed.

Lemma pairs_of_formals_keys : forall c m attrs, Forall (attr_good c m) attrs ->
  map (fun kv : qname * value => qn_uri (fst kv)) (pairs_of (formals attrs)) = map key_uri (formals attrs).
Proof.
  intros c m attrs F. induction F as [|kv attrs G F IH]; [reflexivity|].
  unfold formals. cbn [filter]. fold (formals attrs).
  destruct G as [a | a v vs K Bd NF R | a q K Bd Q Bq P | a t K Bd Q T V]; cbn [fst snd nonempty].
  - rewrite andb_false_r. exact IH.
  - rewrite NF. exact IH.
  - unfold is_formal_attr. rewrite Q. cbn [orb andb]. unfold pairs_of. cbn [flat_map map fst snd app]. f_equal. exact IH.
  - unfold is_formal_attr. rewrite T, orb_true_r. cbn [andb]. unfold pairs_of. cbn [flat_map map fst snd app]. f_equal. exact IH.
Qed.

Lemma Forall2_fst_keys : forall c m fa ps, Forall2 (farg_ok c m) fa ps ->
  map (fun p : qname * valarg => qn_uri (fst p)) fa = map (fun kv : qname * value => qn_uri (fst kv)) ps.
Proof.
  intros c m fa ps F. induction F as [|p kv fa ps [E _] F IH]; [reflexivity|]. cbn [map]. rewrite E, IH. reflexivity.
Qed.

Lemma NoDup_map_filter : forall (T U : Type) (f : T -> U) (p : T -> bool) l, NoDup (map f l) -> NoDup (map f (filter p l)).
Proof.
  intros T U f p l. induction l as [|x l IH]; intros N; [constructor|].
  cbn [map] in N. inversion N as [|y ys Hn N']; subst. cbn [filter]. destruct (p x); [|apply IH; exact N'].
  cbn [map]. constructor; [|apply IH; exact N'].
  intro H. apply Hn. apply in_map_iff in H. destruct H as [z [E I]]. apply filter_In in I. destruct I as [I _].
  apply in_map_iff. exists z. split; assumption.
Qed.

Lemma NoDup_map_partition : forall (T U : Type) (f : T -> U) (p q : T -> bool) l,
  (forall x, p x = true -> q x = true -> False) ->
  NoDup (map f l) -> NoDup (map f (filter p l ++ filter q l)).
Proof.
  intros T U f p q l D. induction l as [|x l IH]; intros N; [constructor|].
  cbn [map] in N. inversion N as [|y ys Hn N']; subst. specialize (IH N').
  assert (Hx : ~ In (f x) (map f (filter p l ++ filter q l))).
  { intro H. apply Hn. apply in_map_iff in H. destruct H as [z [E I]]. apply in_map_iff. exists z. split; [exact E|].
    apply in_app_or in I. destruct I as [I|I]; apply filter_In in I; apply I. }
  cbn [filter]. destruct (p x) eqn:Px, (q x) eqn:Qx.
  - exfalso. exact (D x Px Qx).
  - cbn [app map]. constructor; assumption.
  - rewrite map_app. cbn [map].
    apply (proj2 (NoDup_Add (Add_app (f x) (map f (filter p l)) (map f (filter q l))))).
    rewrite <- map_app. split; assumption.
  - exact IH.
Qed.

(* ---- F. the record *)
Definition live (attrs : list (qname * list value)) : list (qname * list value) := (formals attrs ++ others attrs)%list.

Lemma live_keys_nodup : forall attrs, NoDup (map key_uri attrs) -> NoDup (map key_uri (live attrs)).
Proof.
  intros attrs U. unfold live, formals, others. apply NoDup_map_partition; [|exact U].
  intros x P Q. destruct (is_formal_attr (fst x)); cbn in P, Q; discriminate.
Qed.

Lemma live_shape : forall c m attrs, Forall (attr_good c m) attrs ->
  Forall (fun kv => set_distinct (snd kv)) attrs -> Forall attr_shape (live attrs).
Proof.
  intros c m attrs G S. unfold live. apply Forall_app. split; apply Forall_forall; intros kv I;
    apply filter_In in I; destruct I as [I C]; apply andb_true_iff in C; destruct C as [C1 C2];
    pose proof (proj1 (Forall_forall _ _) G kv I) as Gk; pose proof (proj1 (Forall_forall _ _) S kv I) as Sk;
    (split; [|exact Sk]).
  - destruct Gk as [a | a v vs K Bd NF R | a q K Bd Q Bq P | a t K Bd Q T V]; cbn [fst snd] in *; try exact Logic.I.
    + discriminate C2.
    + rewrite NF in C1. discriminate C1.
  - apply negb_true_iff in C1.
    destruct Gk as [a | a v vs K Bd NF R | a q K Bd Q Bq P | a t K Bd Q T V]; cbn [fst snd] in *; try exact Logic.I.
    + discriminate C2.
    + destruct vs; [exact Logic.I | exact NF].
Qed.

(* reading a record object written by the library: in a container whose namespaces declare the
   record's names, the reader rebuilds a record of the same kind under the resolved identifier
   whose attribute dictionary is the record's own — formal attributes first, every attribute
   with the same values in the same order — and changes nothing else in the container *)
Theorem json_record_roundtrip : forall par ft b kind rec_id idq r,
  let c := mkCtx par ft in
  let m := bns b in
  NoDup (member_names (rattrs r)) -> NoDup (map key_uri (rattrs r)) ->
  Forall (attr_good c m) (rattrs r) -> Forall (fun kv => set_distinct (snd kv)) (rattrs r) ->
  resolve_o c m (NStr rec_id) = Done m idq ->
  (is_element kind = false \/ idq <> None) ->
  decode_elements par ft b kind rec_id [encode_record_obj r]
  = (add_rec_to (with_ns b m) (mkRec kind idq (live (rattrs r))), OK tt).
Proof.
  intros par ft b kind rec_id idq r c m UN UK G SD RI EL.
  rewrite (encode_record_flat r UN). cbn [decode_elements].
  destruct (decode_members c m kind (rattrs r) G (mkAcc [] [] [])) as [fa [oa [E [F1 F2]]]].
  change (cparent c) with par in E. fold m. rewrite E. cbn [acc_formal acc_other acc_members app].
  assert (KF : map (fun p : qname * valarg => qn_uri (fst p)) fa = map key_uri (formals (rattrs r))).
  { rewrite (Forall2_fst_keys _ _ _ _ F1). apply (pairs_of_formals_keys c m). exact G. }
  rewrite fset_all_fresh.
  2:{ cbn [app]. rewrite KF. unfold formals. apply NoDup_map_filter. exact UK. }
  cbn [app].
  set (args := (map (fun kv : qname * valarg => (NQn (fst kv), snd kv)) fa ++ oa)%list).
  assert (AO : Forall2 (arg_ok c m) args (pairs_of (formals (rattrs r)) ++ pairs_of (others (rattrs r)))).
  { unfold args. apply Forall2_app; [|exact F2]. clear -F1.
    induction F1 as [|p kv fa ps [_ H] F IH]; cbn [map]; constructor; assumption. }
  assert (PA : put_all (names_collection args) (pairs_of (formals (rattrs r)) ++ pairs_of (others (rattrs r))) []
               = Some (live (rattrs r))).
  { replace (pairs_of (formals (rattrs r)) ++ pairs_of (others (rattrs r)))%list
      with (pairs_of (live (rattrs r)) ++ [])%list.
    - rewrite put_all_attrs; [reflexivity | apply live_keys_nodup; exact UK | apply (live_shape c m); assumption].
    - rewrite app_nil_r. unfold live, pairs_of. apply flat_map_app. }
  assert (AA : add_attributes c m (mkRec kind idq []) args = ADone m (mkRec kind idq (live (rattrs r)))).
  { unfold add_attributes. destruct args as [|x args'] eqn:EA.
    - inversion AO as [E1 E2|]. rewrite <- E2 in PA. cbn in PA. inversion PA. reflexivity.
    - rewrite <- EA in *. cbn [rattrs rkind rid]. rewrite (loop_fixed c _ m args _ [] _ AO PA). reflexivity. }
  unfold new_record. fold c. fold m. rewrite RI. unfold new_prec.
  assert (EB : (is_element kind && match idq with None => true | Some _ => false end)%bool = false).
  { destruct EL as [EL|EL]; [rewrite EL; reflexivity|]. destruct idq; [apply andb_false_r | contradiction]. }
  rewrite EB, AA. reflexivity.
Qed.

(* every attribute of the rebuilt record holds exactly the values it held *)
Lemma attr_get_in : forall l x k vs, NoDup (map key_uri l) -> In (k, vs) l -> qn_eqb x k = true -> attr_get x l = vs.
Proof.
  induction l as [|[k0 vs0] l IH]; intros x k vs U I E; [destruct I|].
  cbn [map] in U. inversion U as [|y ys Hn U']; subst. cbn [attr_get]. destruct I as [I|I].
  - inversion I; subst. rewrite E. reflexivity.
  - destruct (qn_eqb x k0) eqn:E0.
    + exfalso. apply Hn. apply qn_eqb_uri in E. apply qn_eqb_uri in E0. unfold key_uri at 1. cbn [fst].
      rewrite <- E0, E. apply in_map_iff. exists (k, vs). split; [reflexivity | exact I].
    + apply (IH x k vs U' I E).
Qed.

Lemma attr_get_none : forall l x, (forall k vs, In (k, vs) l -> qn_eqb x k = true -> vs = []) -> attr_get x l = [].
Proof.
  induction l as [|[k0 vs0] l IH]; intros x H; [reflexivity|]. cbn [attr_get].
  destruct (qn_eqb x k0) eqn:E; [apply (H k0 vs0); [left; reflexivity | exact E]|].
  apply IH. intros k vs I. apply H. right. exact I.
Qed.

Lemma in_live : forall attrs k vs, In (k, vs) (live attrs) <-> In (k, vs) attrs /\ vs <> [].
Proof.
  intros attrs k vs. unfold live, formals, others. rewrite in_app_iff, !filter_In. cbn [fst snd].
  split.
  - intros [[I C]|[I C]]; apply andb_true_iff in C; destruct C as [_ C]; (split; [exact I|]); destruct vs; discriminate.
  - intros [I N]. destruct (is_formal_attr k); [left | right]; (split; [exact I|]); destruct vs; try contradiction; reflexivity.
Qed.

Theorem live_same_attributes : forall attrs x, NoDup (map key_uri attrs) -> attr_get x (live attrs) = attr_get x attrs.
Proof.
  intros attrs x U.
  destruct (existsb (fun kv => (qn_eqb x (fst kv) && nonempty (snd kv))%bool) attrs) eqn:EX.
  - apply existsb_exists in EX. destruct EX as [[k vs] [I C]]. cbn [fst snd] in C.
    apply andb_true_iff in C. destruct C as [E NE].
    rewrite (attr_get_in attrs x k vs U I E).
    apply (attr_get_in (live attrs) x k vs); [apply live_keys_nodup; exact U | | exact E].
    apply in_live. split; [exact I | destruct vs; discriminate].
  - assert (Z : forall k vs, In (k, vs) attrs -> qn_eqb x k = true -> vs = []).
    { intros k vs I E. destruct vs as [|v vs]; [reflexivity|]. exfalso.
      assert (X : existsb (fun kv => (qn_eqb x (fst kv) && nonempty (snd kv))%bool) attrs = true).
      { apply existsb_exists. exists (k, v :: vs). split; [exact I|]. cbn [fst snd nonempty]. rewrite E. reflexivity. }
      rewrite X in EX. discriminate. }
    rewrite (attr_get_none attrs x Z). apply attr_get_none.
    intros k vs I E. apply in_live in I. destruct I as [I _]. exact (Z k vs I E).
Qed.

(* ---- G. when an attribute name is read back as itself *)
Lemma attr_key_plain : forall par m a, lookup (qn_str a) attributes_id_map = None -> Bound m a -> printable a ->
  attr_key par m (qn_str a) = OK (Some a).
Proof.
  intros par m a L Bd P. unfold attr_key. rewrite L. unfold vqn.
  pose proof (qn_str_nonempty _ P) as NE. pose proof (Bound_reresolve _ _ Bd P) as R.
  destruct (qn_str a) as [|ch s] eqn:ES; [contradiction|].
  cbn [resolve]. unfold bind, resolve_str. rewrite R. destruct a; reflexivity.
Qed.

Definition id_map_ok (e : string * string) : bool :=
  match lookup ("prov:" ++ snd e) attributes_id_map with Some l' => String.eqb l' (snd e) | None => false end.
Lemma id_map_all_ok : forallb id_map_ok attributes_id_map = true.
Proof. vm_compute. reflexivity. Qed.

Lemma attr_key_prov : forall par m name l, In (name, l) attributes_id_map ->
  attr_key par m (qn_str (prov_qn l)) = OK (Some (prov_qn l)).
Proof.
  intros par m name l I. pose proof (proj1 (forallb_forall _ _) id_map_all_ok _ I) as H.
  unfold id_map_ok in H. cbn [snd] in H. unfold attr_key.
  change (qn_str (prov_qn l)) with ("prov:" ++ l).
  destruct (lookup ("prov:" ++ l) attributes_id_map) as [l'|]; [|discriminate].
  apply String.eqb_eq in H. subst l'. reflexivity.
Qed.

(* ---- H. the premises are satisfiable: a usage with a two-valued attribute, a reference, a type
   and an attribute emptied of its values, read back in a bundle that declares ex *)
Definition x_ns : ns := mkNs "ex" "http://e/".
Definition x_q (l : string) : qname := mkQn x_ns l.
Definition x_m : nsm := match add_namespace nsm_init x_ns with Some (m, _) => m | None => nsm_init end.
Definition x_b : bundle := mkB None x_m [] [].
Definition x_r : prec :=
  mkRec "Usage" (Some (x_q "u"))
    [(x_q "k", [VInt 5; VStr "x"]); (prov_qn "activity", [VQn (x_q "a")]); (prov_qn "type", [VQn (x_q "T")]);
     (x_q "empty", [])].

Lemma x_builtins : Builtins x_m.
Proof. split; vm_compute; reflexivity. Qed.
Lemma x_bound : forall l, Bound x_m (x_q l).
Proof. intros l. right. split; [discriminate | vm_compute; reflexivity]. Qed.
Lemma x_bound_prov : forall l, Bound x_m (prov_qn l).
Proof. intros l. right. split; [discriminate | vm_compute; reflexivity]. Qed.
Lemma x_printable : forall l, printable (x_q l).
Proof. intros l. unfold printable. cbn. split; [reflexivity | discriminate]. Qed.

Example json_record_roundtrip_applies :
  decode_elements None [] x_b "Usage" "ex:u" [encode_record_obj x_r]
  = (add_rec_to (with_ns x_b x_m) (mkRec "Usage" (Some (x_q "u")) (live (rattrs x_r))), OK tt).
Proof.
  apply (json_record_roundtrip None [] x_b "Usage" "ex:u" (Some (x_q "u")) x_r).
  - vm_compute. repeat constructor; cbn; intuition discriminate.
  - vm_compute. repeat constructor; cbn; intuition discriminate.
  - cbn [rattrs x_r]. apply Forall_cons; [|apply Forall_cons; [|apply Forall_cons; [|apply Forall_cons; [|apply Forall_nil]]]].
    + apply ag_other.
      * apply attr_key_plain; [vm_compute; reflexivity | apply x_bound | apply x_printable].
      * apply x_bound.
      * vm_compute. reflexivity.
      * apply Forall_cons; [apply json_value_roundtrip_int; exact x_builtins|].
        apply Forall_cons; [apply json_value_roundtrip_str | apply Forall_nil].
    + apply ag_ref.
      * apply (attr_key_prov None x_m "prov:activity" "activity"). apply lookup_In. vm_compute. reflexivity.
      * apply x_bound_prov.
      * vm_compute. reflexivity.
      * apply x_bound.
      * apply x_printable.
    + apply ag_other.
      * apply attr_key_plain; [vm_compute; reflexivity | apply x_bound_prov | cbn; split; [reflexivity | discriminate]].
      * apply x_bound_prov.
      * vm_compute. reflexivity.
      * apply Forall_cons; [|apply Forall_nil].
        apply json_value_roundtrip_qn; [exact x_builtins | apply x_bound | apply x_printable].
    + apply ag_empty.
  - cbn [rattrs x_r]. repeat (apply Forall_cons || apply Forall_nil); intros pre v post E; cbn [snd] in E.
    all: destruct pre as [|p1 [|p2 [|p3 pre]]]; cbn in E; inversion E; subst; try reflexivity; try (destruct pre; discriminate).
  - vm_compute. reflexivity.
  - left. vm_compute. reflexivity.
Qed.
