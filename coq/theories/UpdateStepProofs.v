(* UpdateStepProofs.v — C09: d.update(other) for two documents, at the level of the interpreter
   and for every reachable world: d ends up holding its former records followed by the images of
   other's records; its bundles stay in place and only gain records; every bundle of other lands,
   as one block of images, in the bundle of the same identifier. *)
From Coq Require Import String Ascii List Bool Arith ZArith Lia.
From Prov Require Import Str StrProofs Sexp Tables Nsm NsmProofs Values Record RecordProofs World WorldProofs Derive
  Interp InterpProofs WInvUProofs IdemProofs ReaddProofs GoodProofs UpdateProofs.
Import ListNotations.
Open Scope string_scope.

Definition update_result (ft : ftable) (dd odoc nd : doc) : Prop :=
  (exists rs', brecs (dmain nd) = (brecs (dmain dd) ++ rs')%list /\ Forall2 (image_of ft) (brecs (dmain odoc)) rs') /\
  (forall j k tb, nth_error (dbundles dd) j = Some (k, tb) ->
     exists tb', nth_error (dbundles nd) j = Some (k, tb') /\ extends tb tb') /\
  (forall k0 sb, In (k0, sb) (dbundles odoc) ->
     exists sid i tb' pre rs2 post,
       bid sb = Some sid /\ nth_error (dbundles nd) i = Some (qn_uri sid, tb') /\
       brecs tb' = (pre ++ rs2 ++ post)%list /\ Forall2 (image_of ft) (brecs sb) rs2).

Lemma get_doc_set_doc_same : forall w d dd x, get_doc w d = Some x -> get_doc (set_doc w d dd) d = Some dd.
Proof. intros w d dd x H. unfold get_doc, set_doc in *. cbn [wdocs]. eapply UpdateProofs.nth_set_nth_same. exact H. Qed.

Theorem update_doc_spec : forall w d od dd odoc w',
  get_doc w d = Some dd -> get_doc w od = Some odoc ->
  DInv dd -> good_recs (wft w) (brecs (dmain odoc)) ->
  (forall k sb, In (k, sb) (dbundles odoc) -> good_recs (wft w) (brecs sb)) ->
  step w (OUpdate (CDoc d) (CDoc od)) = (w', RUnit) ->
  exists nd, get_doc w' d = Some nd /\ update_result (wft w) dd odoc nd.
Proof.
  intros w d od dd odoc w' Gd Go [DM DB] GM GB H.
  cbn [step] in H. unfold get_cont in H. rewrite Gd, Go in H. cbn [option_map] in H.
  destruct (add_records None (wft w) (dmain dd) (brecs (dmain odoc))) as [b' [u|e|]] eqn:A; try discriminate.
  destruct u.
  destruct (add_records_images _ _ _ _ _ DM GM A) as [rs' [P [I2 IB]]].
  unfold set_cont in H. rewrite Gd in H.
  rewrite (get_doc_set_doc_same w d _ dd Gd) in H.
  destruct (merge_bundles (wft w) (mkD b' (dbundles dd)) (dbundles odoc)) as [dd' x] eqn:M.
  destruct x as [u|e|]; cbn [of_result] in H; try discriminate. destruct u.
  inversion H; subst w'. clear H.
  exists dd'. split.
  - eapply get_doc_set_doc_same. eapply get_doc_set_doc_same. exact Gd.
  - assert (D1 : DInv (mkD b' (dbundles dd))) by (split; assumption).
    split; [|split].
    + exists rs'. split; [|exact I2]. rewrite (merge_bundles_main_recs _ _ _ _ _ M). exact P.
    + intros j k tb N. exact (merge_bundles_keeps _ _ _ _ _ M j k tb N).
    + intros k0 sb I. exact (merge_bundles_images _ _ _ _ D1 GB M k0 sb I).
Qed.

(* in every reachable world the hypotheses on the managers and on the stored values hold *)
Lemma BGood_good_recs : forall ft b, BGood ft b -> good_recs ft (brecs b).
Proof.
  intros ft b G r0 Hr. apply GoodR_record_pairs. unfold BGood in G. rewrite Forall_forall in G. exact (G r0 Hr).
Qed.

Theorem reachable_update_doc : forall ft ops d od dd odoc w',
  let w := wrun ft ops in
  get_doc w d = Some dd -> get_doc w od = Some odoc ->
  step w (OUpdate (CDoc d) (CDoc od)) = (w', RUnit) ->
  exists nd, get_doc w' d = Some nd /\ update_result (wft w) dd odoc nd.
Proof.
  intros ft ops d od dd odoc w' w Gd Go H.
  destruct (reachable_WGood ft ops) as [WI WG]. fold w in WI, WG.
  destruct (WGood_get_doc w od odoc WG Go) as [M B].
  apply (update_doc_spec w d od dd odoc w' Gd Go (WInv_get_doc _ _ _ WI Gd)); [| |exact H].
  - apply BGood_good_recs. exact M.
  - intros k sb I. apply BGood_good_recs. rewrite Forall_forall in B. exact (B (k, sb) I).
Qed.

(* non-vacuity: two documents with a bundle of the same identifier and one only the other has *)
Definition ux (l : string) : namearg := NStr ("ex:" ++ l).
Definition u_w : world :=
  wrun [] [ONewDoc; OAddNs (CDoc 0) "ex" "http://e/"; ONewRecord (CDoc 0) "Entity" (Some (ux "a")) [];
           ONewBundle 0 (Some (ux "b1")); ONewRecord (CBun 0 0) "Entity" (Some (ux "x")) [];
           ONewDoc; OAddNs (CDoc 1) "ex" "http://e/"; ONewRecord (CDoc 1) "Agent" (Some (ux "g")) [];
           ONewBundle 1 (Some (ux "b1")); ONewRecord (CBun 1 0) "Entity" (Some (ux "y")) [];
           ONewBundle 1 (Some (ux "b2")); ONewRecord (CBun 1 1) "Activity" (Some (ux "z")) []].
Example update_computes :
  match step u_w (OUpdate (CDoc 0) (CDoc 1)) with
  | (w', RUnit) =>
      match get_doc w' 0 with
      | Some nd => (map rkind (brecs (dmain nd)),
                    map (fun kb => (fst kb, map rkind (brecs (snd kb)))) (dbundles nd))
      | None => ([], [])
      end
  | _ => ([], [])
  end = (["Entity"; "Agent"], [("http://e/b1", ["Entity"; "Entity"]); ("http://e/b2", ["Activity"])]).
Proof. vm_compute. reflexivity. Qed.

(* ---- a bundle as the target: ProvBundle.update(other) *)
Lemma get_cont_set_cont_same : forall w c b x, get_cont w c = Some x -> get_cont (set_cont w c b) c = Some b.
Proof.
  intros w c b x H. destruct c as [d|d i]; cbn [get_cont set_cont] in *.
  - destruct (get_doc w d) as [dd|] eqn:G; [|discriminate].
    rewrite (get_doc_set_doc_same w d _ dd G). reflexivity.
  - destruct (get_doc w d) as [dd|] eqn:G; [|discriminate].
    destruct (nth_error (dbundles dd) i) as [[k b0]|] eqn:N; [|discriminate].
    rewrite (get_doc_set_doc_same w d _ dd G). cbn [dbundles].
    rewrite (UpdateProofs.nth_set_nth_same _ _ _ _ N). reflexivity.
Qed.

Theorem update_bundle_spec : forall w d i o b ob w',
  get_cont w (CBun d i) = Some b -> get_cont w o = Some ob ->
  BInv b -> good_recs (wft w) (brecs ob) ->
  step w (OUpdate (CBun d i) o) = (w', RUnit) ->
  exists b' rs', get_cont w' (CBun d i) = Some b' /\
                 brecs b' = (brecs b ++ rs')%list /\ Forall2 (image_of (wft w)) (brecs ob) rs'.
Proof.
  intros w d i o b ob w' Gb Go I G H. cbn [step] in H. rewrite Gb, Go in H.
  destruct (has_bundles w o); [discriminate|].
  destruct (add_records (parent_ns w (CBun d i)) (wft w) b (brecs ob)) as [b' [u|e|]] eqn:A;
    cbn [of_result] in H; try discriminate. destruct u.
  apply (f_equal fst) in H. cbn [fst] in H. subst w'.
  destruct (add_records_images _ _ _ _ _ I G A) as [rs' [P [F _]]].
  exists b', rs'. split; [eapply get_cont_set_cont_same; exact Gb | split; assumption].
Qed.

Theorem reachable_update_bundle : forall ft ops d i o b ob w',
  let w := wrun ft ops in
  get_cont w (CBun d i) = Some b -> get_cont w o = Some ob ->
  step w (OUpdate (CBun d i) o) = (w', RUnit) ->
  exists b' rs', get_cont w' (CBun d i) = Some b' /\
                 brecs b' = (brecs b ++ rs')%list /\ Forall2 (image_of (wft w)) (brecs ob) rs'.
Proof.
  intros ft ops d i o b ob w' w Gb Go H.
  destruct (reachable_WGood ft ops) as [WI WG]. fold w in WI, WG.
  apply (update_bundle_spec w d i o b ob w' Gb Go (WInv_get_cont _ _ _ WI Gb)); [|exact H].
  apply BGood_good_recs. exact (WGood_get_cont _ _ _ WG Go).
Qed.

(* ---- add_bundle(document, identifier): a new bundle at the end of the target's bundles, under the
   requested identifier, holding the images of the document's records in order; the target's own
   records and its other bundles are as they were *)
Theorem add_bundle_spec : forall w d src x order dd sd w',
  get_doc w d = Some dd -> get_doc w src = Some sd ->
  good_recs (wft w) (brecs (dmain sd)) ->
  step w (OAddBundleDoc d src x order) = (w', RUnit) ->
  exists q nb,
    get_doc w' d = Some (mkD (dmain dd) (dbundles dd ++ [(qn_uri q, nb)])%list) /\
    bid nb = Some q /\ Forall2 (image_of (wft w)) (brecs (dmain sd)) (brecs nb) /\
    mem (qn_uri q) (dbundles dd) = false /\
    (forall q0, x = Some (NQn q0) -> qn_uri q = qn_uri q0).
Proof.
  intros w d src x order dd sd w' Gd Gs G H. cbn [step] in H. rewrite Gd, Gs in H.
  destruct (dbundles sd); [|discriminate]. cbv zeta in H.
  destruct (negb (Nat.eqb _ _)); [discriminate|].
  destruct (add_namespaces nsm_init _) as [m0|] eqn:AN; [|discriminate].
  pose proof (add_namespaces_InvU _ _ _ InvU_init AN) as I0.
  destruct (add_records None (wft w) (mkB None m0 [] []) (brecs (dmain sd))) as [nb [u|e|]] eqn:A; try discriminate.
  destruct u.
  destruct (add_records_images None (wft w) (brecs (dmain sd)) (mkB None m0 [] []) nb I0 G A) as [rs' [P [F IB]]].
  cbn [brecs app] in P.
  destruct x as [n|]; [|discriminate].
  destruct (resolve (Some (bns (dmain dd))) (bns nb) n) as [[m [q|]]|e|] eqn:R; try discriminate.
  destruct (mem (qn_uri q) (dbundles dd)) eqn:M; [discriminate|].
  apply (f_equal fst) in H. cbn [fst] in H. subst w'.
  exists q, (mkB (Some q) m (brecs nb) (bidmap nb)). split; [eapply get_doc_set_doc_same; exact Gd|].
  split; [reflexivity|]. split; [cbn [brecs]; rewrite P; exact F|]. split; [exact M|].
  intros q0 E. inversion E; subst n. cbn [resolve] in R.
  destruct (resolve_qn (bns nb) q0) as [[m1 q1]|] eqn:RQ; [|discriminate]. inversion R; subst m1 q1.
  exact (proj1 (resolve_qn_uri _ _ _ _ IB RQ)).
Qed.

Theorem reachable_add_bundle : forall ft ops d src x order dd sd w',
  let w := wrun ft ops in
  get_doc w d = Some dd -> get_doc w src = Some sd ->
  step w (OAddBundleDoc d src x order) = (w', RUnit) ->
  exists q nb,
    get_doc w' d = Some (mkD (dmain dd) (dbundles dd ++ [(qn_uri q, nb)])%list) /\
    bid nb = Some q /\ Forall2 (image_of (wft w)) (brecs (dmain sd)) (brecs nb) /\
    mem (qn_uri q) (dbundles dd) = false /\
    (forall q0, x = Some (NQn q0) -> qn_uri q = qn_uri q0).
Proof.
  intros ft ops d src x order dd sd w' w Gd Gs H.
  destruct (reachable_WGood ft ops) as [WI WG]. fold w in WI, WG.
  apply (add_bundle_spec w d src x order dd sd w' Gd Gs); [|exact H].
  apply BGood_good_recs. exact (proj1 (WGood_get_doc w src sd WG Gs)).
Qed.
