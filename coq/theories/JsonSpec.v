(* JsonSpec.v — a PROV-JSON reader written from the specification (PROV-JSON member
   submission) over the hand-written tables of Spec.v.  It shares no definition with
   Json.v (the model of the library's reader/writer): only the JSON tree type, the
   string helpers and the lexical parsers.  Result: the strict content as a tree
     (content (bundle <uri|""> (rec <kind> <id uri|none> ((<attr uri> <value>) ...)) ...) ...)
   with values (str s) (int z) (float repr) (bool b) (time <naive iso> <offset|none>)
   (qn uri) (id uri) (lit lex <datatype uri|none> <lang|none>). *)
From Coq Require Import String Ascii List Bool Arith ZArith.
From Prov Require Import Str Sexp Values Jtree Spec.
Import ListNotations.
Open Scope string_scope.

(* prefix table: prefix -> uri, "" = default namespace *)
Definition ptable : Type := list (string * string).

Definition read_prefixes (base : ptable) (v : option jv) : option ptable :=
  match v with
  | None => Some base
  | Some (JObj ps) =>
      fold_left (fun acc kv =>
                   match acc, snd kv with
                   | Some t, JStr u => Some (dset (if String.eqb (fst kv) "default" then "" else fst kv) u t)
                   | _, _ => None
                   end) ps (Some base)
  | Some _ => None
  end.

(* a qualified name string in scope t: prefix:local, or local in the default namespace *)
Definition spec_resolve (t : ptable) (s : string) : option string :=
  match split_colon s with
  | Some (p, l) => match lookup p t with
                   | Some u => Some (u ++ l)
                   | None => None
                   end
  | None => match lookup "" t with
            | Some u => Some (u ++ s)
            | None => None
            end
  end.

Definition is_blank (s : string) : bool := starts_with "_:" s.

Definition time_content (tm : dtime) : sexp :=
  L [A "time"; A (iso_print (mkDt (dy tm) (dmo tm) (dd tm) (dh tm) (dmi tm) (dsec tm) (dus tm) None));
     sx_opt sx_Z (dtz tm)].

(* a typed literal {"$": v, "type": t} / {"$": v, "lang": l} or a JSON scalar *)
Definition lex_of (v : jv) : option string :=
  match v with
  | JStr s => Some s
  | JInt z => Some (str_of_Z z)
  | JFloat r _ _ => Some r
  | JBool true => Some "true"
  | JBool false => Some "false"
  | _ => None
  end.

Definition read_literal (ft : ftable) (t : ptable) (v : jv) : option sexp :=
  match v with
  | JStr s => Some (L [A "str"; A s])
  | JBool b => Some (L [A "bool"; A (if b then "true" else "false")])
  | JInt z => Some (L [A "int"; sx_Z z])
  | JFloat r _ _ => Some (L [A "float"; A r])
  | JObj ms =>
      match lookup "$" ms with
      | None => None
      | Some val =>
          match lookup "lang" ms with
          | Some (JStr lang) =>
              match lex_of val with
              | Some s => Some (L [A "lit"; A s; A (spec_prov_uri ++ "InternationalizedString"); L [A "some"; A lang]])
              | None => None
              end
          | Some _ => None
          | None =>
              match lookup "type" ms, lex_of val with
              | Some (JStr ty), Some s =>
                  match spec_resolve t ty with
                  | None => None
                  | Some dt =>
                      if String.eqb dt (spec_xsd_uri ++ "string") then Some (L [A "str"; A s])
                      else if (String.eqb dt (spec_xsd_uri ++ "int") || String.eqb dt (spec_xsd_uri ++ "long"))%bool then
                        match parse_int s with Some z => Some (L [A "int"; sx_Z z]) | None => None end
                      else if String.eqb dt (spec_xsd_uri ++ "double") then
                        match parse_float ft s with
                        | FOk (VFloat r _ _) => Some (L [A "float"; A r])
                        | _ => None
                        end
                      else if String.eqb dt (spec_xsd_uri ++ "boolean") then
                        match xsd_boolean s with
                        | Some b => Some (L [A "bool"; A (if b then "true" else "false")])
                        | None => Some (L [A "lit"; A s; A dt; A "none"])
                        end
                      else if String.eqb dt (spec_xsd_uri ++ "dateTime") then
                        match iso_parse s with
                        | Some tm => Some (time_content tm)
                        | None => Some (L [A "lit"; A s; A dt; A "none"])
                        end
                      else if String.eqb dt (spec_xsd_uri ++ "anyURI") then Some (L [A "id"; A s])
                      else if String.eqb dt (spec_prov_uri ++ "QUALIFIED_NAME") then
                        match spec_resolve t s with
                        | Some u => Some (L [A "qn"; A u])
                        | None => None
                        end
                      else Some (L [A "lit"; A s; A dt; A "none"])
                  end
              | _, _ => None
              end
          end
      end
  | _ => None
  end.

Definition kind_by_key (k : string) : option (string * list string) :=
  match find (fun e => String.eqb (snd (fst (fst e))) k) spec_kinds with
  | Some (kind, _, formals, _) => Some (kind, formals)
  | None => None
  end.

Fixpoint all_some {T} (l : list (option T)) : option (list T) :=
  match l with
  | [] => Some []
  | Some x :: r => match all_some r with Some r' => Some (x :: r') | None => None end
  | None :: _ => None
  end.

(* attributes of one record object: list of (attr uri, value); membership with
   several entities yields the extra entity URIs separately *)
Definition read_attr (ft : ftable) (t : ptable) (formals : list string) (name : string) (v : jv)
  : option (list sexp) :=
  let formal := existsb (fun f => String.eqb name ("prov:" ++ f)) formals in
  if formal then
    let arg := drop 5 name in
    let vals := match v with JArr l => l | x => [x] end in
    all_some (map (fun x =>
       match x with
       | JStr s =>
           if existsb (String.eqb arg) spec_time_args then
             match iso_parse s with
             | Some tm => Some (L [A (spec_prov_uri ++ arg); time_content tm])
             | None => None
             end
           else match spec_resolve t s with
                | Some u => Some (L [A (spec_prov_uri ++ arg); L [A "qn"; A u]])
                | None => None
                end
       | _ => None
       end) vals)
  else
    match spec_resolve t name with
    | None => None
    | Some au =>
        let vals := match v with JArr l => l | x => [x] end in
        all_some (map (fun x => match read_literal ft t x with
                                | Some c => Some (L [A au; c])
                                | None => None
                                end) vals)
    end.

Definition read_record (ft : ftable) (t : ptable) (kind : string) (formals : list string)
  (id : string) (obj : jv) : option (list sexp) :=
  match obj with
  | JObj ms =>
      match all_some (map (fun kv => read_attr ft t formals (fst kv) (snd kv)) ms) with
      | None => None
      | Some attrss =>
          let attrs := concat attrss in
          let idc := if is_blank id then Some (A "none")
                     else match spec_resolve t id with Some u => Some (A u) | None => None end in
          match idc with
          | None => None
          | Some ic =>
              (* PROV-JSON: hadMember may list several entities; it stands for one
                 membership per entity (the first keeps the identifier) *)
              let ent := spec_prov_uri ++ "entity" in
              let is_ent (a : sexp) := match a with L [A u; _] => String.eqb u ent | _ => false end in
              if (String.eqb kind "Membership" && Nat.ltb 1 (length (filter is_ent attrs)))%bool then
                let ents := filter is_ent attrs in
                let others := filter (fun a => negb (is_ent a)) attrs in
                let coll := filter (fun a => match a with L [A u; _] => String.eqb u (spec_prov_uri ++ "collection") | _ => false end) attrs in
                match ents with
                | e0 :: more =>
                    Some (L [A "rec"; A (spec_prov_uri ++ kind); ic; L (others ++ [e0])%list]
                          :: map (fun e => L [A "rec"; A (spec_prov_uri ++ kind); A "none"; L (coll ++ [e])%list]) more)
                | [] => None
                end
              else Some [L [A "rec"; A (spec_prov_uri ++ kind); ic; L attrs]]
          end
      end
  | _ => None
  end.

Definition read_container (ft : ftable) (base : ptable) (ms : list (string * jv)) : option (ptable * list sexp) :=
  match read_prefixes base (lookup "prefix" ms) with
  | None => None
  | Some t =>
      let kinds := filter (fun kv => negb (String.eqb (fst kv) "prefix" || String.eqb (fst kv) "bundle")%bool) ms in
      match all_some (map (fun kv =>
               match kind_by_key (fst kv), snd kv with
               | Some (kind, formals), JObj entries =>
                   match all_some (map (fun e =>
                            match snd e with
                            | JArr objs => option_map (@concat sexp) (all_some (map (read_record ft t kind formals (fst e)) objs))
                            | o => read_record ft t kind formals (fst e) o
                            end) entries) with
                   | Some l => Some (concat l)
                   | None => None
                   end
               | _, _ => None
               end) kinds) with
      | Some l => Some (t, concat l)
      | None => None
      end
  end.

Definition builtin_ptable : ptable := [("prov", spec_prov_uri); ("xsd", spec_xsd_uri)].

Definition read (ft : ftable) (v : jv) : option sexp :=
  match v with
  | JObj ms =>
      match read_container ft builtin_ptable ms with
      | None => None
      | Some (t, recs) =>
          let bundles := match lookup "bundle" ms with Some (JObj bs) => Some bs | None => Some [] | _ => None end in
          match bundles with
          | None => None
          | Some bs =>
              match all_some (map (fun kb =>
                       match snd kb with
                       | JObj bms =>
                           match read_container ft t bms with
                           | Some (bt, brecs) =>
                               (* the bundle identifier is a name of the bundle's scope, which
                                  inherits the document's *)
                               match spec_resolve bt (fst kb) with
                               | Some u => Some (L (A "bundle" :: A u :: brecs))
                               | None => None
                               end
                           | None => None
                           end
                       | _ => None
                       end) bs) with
              | Some bl => Some (L (A "content" :: L (A "bundle" :: A "" :: recs) :: bl))
              | None => None
              end
          end
      end
  | _ => None
  end.
