(* XmlDocProofs.v — C10 for PROV-XML at document level: the tree the model of serialize() builds for a document
   (XmlScope.xml_document: document element, its records, one bundleContent per bundle with its own prefix map and
   records) is read by the specification's reader (XmlSpec.read) as the document's content: the records of the
   document in order, then every bundle under the URI its prov:id denotes in the bundle's scope. *)
From Coq Require Import String Ascii List Bool Arith ZArith Lia.
From Prov Require Import Str StrProofs Sexp Tables Nsm NsmProofs Values Record World Spec XmlSpec Xml XmlProofs XmlLabel XmlLabelProofs
  XmlRec XmlRecProofs XmlScope.
Import ListNotations.
Open Scope string_scope.

(* the element written for record r in scope `scope` is read by the specification as c *)
Definition rec_reads (ft : ftable) (fl : bool) (scope : list (string * string)) (r : prec) (c : sexp) : Prop :=
  exists x, xml_record fl scope (rkind r) (rid r) (attributes r) = Some x /\
            XmlSpec.read_record ft x = Some [c] /\ is_bundle_content x = false /\ is_other x = false.

(* the record-level theorem gives it *)
Lemma record_reads : forall ft fl scope r label rest ic,
  lookup (rkind r) prov_base_cls = Some (rkind r) -> rkind r <> "Membership" ->
  NoDup (formal_attrs (rkind r) ++ five) ->
  record_label (rkind r) (attributes r) = Some (label, rest) ->
  Forall (fun kv => canon_prov (fst kv)) rest ->
  Forall (PairXml ft fl scope (formal_attrs (rkind r))) rest ->
  match rid r with
  | Some q => resolve_uri scope (qn_str q) = Some (qn_uri q) /\ ic = A (qn_uri q)
  | None => ic = A "none"
  end ->
  exists sub, rec_reads ft fl scope r
    (L [A "rec"; A (spec_prov_uri ++ rkind r); ic; L (map pair_content (sorted_pairs (rkind r) rest) ++ sub_content sub)]).
Proof.
  intros ft fl scope r label rest ic K NM ND RL CP PX ID.
  assert (XR : xml_record fl scope (rkind r) (rid r) (attributes r)
               = Some (XE prov_uri label (match rid r with Some q => [(prov_uri, "id", qn_str q)] | None => [] end) scope ""
                          (map (xml_child fl scope) (sorted_pairs (rkind r) rest)))).
  { unfold xml_record. rewrite RL. reflexivity. }
  destruct (xml_record_read ft fl scope (rkind r) (rid r) (attributes r) label rest _ ic K NM ND RL XR CP PX ID) as [sub [KN [_ RD]]].
  exists sub. eexists. split; [exact XR|]. split; [exact RD|].
  split.
  - unfold is_bundle_content. destruct (String.eqb label "bundleContent") eqn:E; [|rewrite andb_false_r; reflexivity].
    apply String.eqb_eq in E. subst label. vm_compute in KN. discriminate.
  - unfold is_other. destruct (String.eqb label "other") eqn:E; [|rewrite andb_false_r; reflexivity].
    apply String.eqb_eq in E. subst label. vm_compute in KN. discriminate.
Qed.

(* ---- lists of records *)
Lemma records_read : forall ft fl scope rs cs, Forall2 (rec_reads ft fl scope) rs cs ->
  exists xs, xml_records fl scope rs = Some xs /\
             all_some (map (XmlSpec.read_record ft) xs) = Some (map (fun c => [c]) cs) /\
             filter (fun k => negb (is_bundle_content k || is_other k)) xs = xs /\
             filter (fun k => negb (is_other k)) xs = xs /\ filter is_bundle_content xs = [].
Proof.
  intros ft fl scope rs cs F. induction F as [|r c rs cs [x [XR [RD [NB NO]]]] F IH].
  - exists []. repeat split; reflexivity.
  - destruct IH as [xs [E1 [E2 [E3 [E4 E5]]]]]. exists (x :: xs). unfold xml_records in *. cbn [map all_some].
    rewrite XR, E1. split; [reflexivity|]. cbn [map all_some]. rewrite RD, E2. split; [reflexivity|].
    cbn [filter]. rewrite NB, NO. cbn [orb negb]. rewrite E3, E4, E5. repeat split; reflexivity.
Qed.

Lemma concat_singletons : forall (cs : list sexp), concat (map (fun c => [c]) cs) = cs.
Proof. induction cs as [|c cs IH]; [reflexivity|]. cbn [map concat app]. rewrite IH. reflexivity. Qed.

(* ---- a bundle *)
Definition bundle_reads (ft : ftable) (fl : bool) (dm : nsm) (b : bundle) (bc : sexp) : Prop :=
  exists q u rcs, bid b = Some q /\ resolve_uri (nsmap_of dm (bns b)) (qn_str q) = Some u /\
                  Forall2 (rec_reads ft fl (nsmap_of dm (bns b))) (brecs b) rcs /\ bc = L (A "bundle" :: A u :: rcs).

Lemma bundle_read : forall ft fl dm b bc, bundle_reads ft fl dm b bc ->
  exists x, xml_bundle fl dm b = Some x /\ XmlSpec.read_bundle ft x = Some bc /\ is_bundle_content x = true /\ is_other x = false.
Proof.
  intros ft fl dm b bc [q [u [rcs [EI [RU [F ->]]]]]].
  destruct (records_read ft fl _ _ _ F) as [xs [E1 [E2 [_ [E4 _]]]]].
  eexists. unfold xml_bundle. rewrite EI, E1. split; [reflexivity|]. split; [|split; reflexivity].
  unfold XmlSpec.read_bundle. cbv beta iota.
  change (xattr spec_prov_uri "id" [(prov_uri, "id", qn_str q)]) with (Some (qn_str q)). cbv beta iota.
  rewrite RU, E4, E2, concat_singletons. reflexivity.
Qed.

Lemma bundles_read : forall ft fl dm (kbs : list (string * bundle)) bcs,
  Forall2 (fun kb bc => bundle_reads ft fl dm (snd kb) bc) kbs bcs ->
  exists bs, all_some (map (fun kb => xml_bundle fl dm (snd kb)) kbs) = Some bs /\
             all_some (map (XmlSpec.read_bundle ft) bs) = Some bcs /\
             filter (fun k => negb (is_bundle_content k || is_other k)) bs = [] /\ filter is_bundle_content bs = bs.
Proof.
  intros ft fl dm kbs bcs F. induction F as [|kb bc kbs bcs H F IH].
  - exists []. repeat split; reflexivity.
  - destruct IH as [bs [E1 [E2 [E3 E4]]]]. destruct (bundle_read ft fl dm (snd kb) bc H) as [x [XB [RB [IB IO]]]].
    exists (x :: bs). cbn [map all_some]. rewrite XB, E1. split; [reflexivity|].
    cbn [map all_some]. rewrite RB, E2. split; [reflexivity|].
    cbn [filter]. rewrite IB. cbn [orb negb]. rewrite E3, E4. split; reflexivity.
Qed.

(* ---- the document *)
Theorem xml_document_read : forall ft fl d cs bcs,
  let dm := bns (dmain d) in
  Forall2 (rec_reads ft fl (nsmap_of dm dm)) (brecs (dmain d)) cs ->
  Forall2 (fun kb bc => bundle_reads ft fl dm (snd kb) bc) (dbundles d) bcs ->
  exists x, xml_document fl d = Some x /\
            XmlSpec.read ft x = Some (L (A "content" :: L (A "bundle" :: A "" :: cs) :: bcs)).
Proof.
  intros ft fl d cs bcs dm FR FB.
  destruct (records_read ft fl _ _ _ FR) as [xs [E1 [E2 [E3 [_ E5]]]]].
  destruct (bundles_read ft fl dm _ _ FB) as [bs [B1 [B2 [B3 B4]]]].
  eexists. unfold xml_document. fold dm. rewrite E1, B1. split; [reflexivity|].
  unfold XmlSpec.read.
  change (negb (String.eqb prov_uri spec_prov_uri && String.eqb "document" "document")) with false. cbv iota.
  rewrite !filter_app, E3, B3, E5, B4, app_nil_r. cbn [app]. rewrite E2, B2, concat_singletons. reflexivity.
Qed.

(* ---- the premises are satisfiable: an entity with an integer attribute, and a bundle holding an agent *)
Definition xd_ns : ns := mkNs "ex" "http://e/".
Definition xd_q (l : string) : qname := mkQn xd_ns l.
Definition xd_m : nsm := match add_namespace nsm_init xd_ns with Some (m, _) => m | None => nsm_init end.
Definition xd_doc : doc :=
  mkD (mkB None xd_m [mkRec "Entity" (Some (xd_q "e")) [(xd_q "k", [VInt 5])]] [])
      [("http://e/b", mkB (Some (xd_q "b")) xd_m [mkRec "Agent" (Some (xd_q "ag")) []] [])].

Example xml_document_applies :
  exists x, xml_document false xd_doc = Some x /\
    XmlSpec.read [] x
    = Some (L [A "content";
               L [A "bundle"; A ""; L [A "rec"; A (spec_prov_uri ++ "Entity"); A "http://e/e";
                                       L [L [A "http://e/k"; L [A "int"; A "5"]]]]];
               L [A "bundle"; A "http://e/b"; L [A "rec"; A (spec_prov_uri ++ "Agent"); A "http://e/ag"; L []]]]).
Proof.
  apply (xml_document_read [] false xd_doc
           [L [A "rec"; A (spec_prov_uri ++ "Entity"); A "http://e/e"; L [L [A "http://e/k"; L [A "int"; A "5"]]]]]
           [L [A "bundle"; A "http://e/b"; L [A "rec"; A (spec_prov_uri ++ "Agent"); A "http://e/ag"; L []]]]).
  - constructor; [|constructor]. eexists. split; [vm_compute; reflexivity|]. split; [vm_compute; reflexivity|]. split; reflexivity.
  - constructor; [|constructor]. exists (xd_q "b"), "http://e/b", [L [A "rec"; A (spec_prov_uri ++ "Agent"); A "http://e/ag"; L []]].
    split; [reflexivity|]. split; [vm_compute; reflexivity|]. split; [|reflexivity].
    constructor; [|constructor]. eexists. split; [vm_compute; reflexivity|]. split; [vm_compute; reflexivity|]. split; reflexivity.
Qed.
