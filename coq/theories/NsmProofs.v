(* NsmProofs.v — invariants of the NamespaceManager model and the lemmas behind
   C03 (a), (b), (c). *)
From Coq Require Import String Ascii List Bool Arith Lia FinFun.
From Prov Require Import Str StrProofs Sexp Tables TablesOK Nsm.
Import ListNotations.
Open Scope string_scope.

(* ------------------------------------------------------------------ basics *)
Lemma ns_eqb_eq : forall a b, ns_eqb a b = true <-> a = b.
Proof.
  intros [pa ua] [pb ub]. unfold ns_eqb; simpl.
  rewrite andb_true_iff, !String.eqb_eq. split.
  - intros [-> ->]; reflexivity.
  - intros H; inversion H; auto.
Qed.

Lemma ns_eqb_refl : forall a, ns_eqb a a = true.
Proof. intros a. apply ns_eqb_eq. reflexivity. Qed.

Lemma lookup_dset {V} : forall (d : list (string * V)) k k' v,
  lookup k' (dset k v d) = if String.eqb k' k then Some v else lookup k' d.
Proof.
  intros d k k' v. destruct (String.eqb k' k) eqn:E.
  - apply String.eqb_eq in E. subst. apply lookup_dset_same.
  - apply String.eqb_neq in E. apply lookup_dset_other. congruence.
Qed.

Lemma ren_lookup_set : forall d n v a,
  ren_lookup a (ren_set n v d) = if ns_eqb a n then Some v else ren_lookup a d.
Proof.
  induction d as [|[k v'] d IH]; simpl; intros n v a.
  - destruct (ns_eqb a n); reflexivity.
  - destruct (ns_eqb n k) eqn:E; simpl.
    + apply ns_eqb_eq in E. subst k. destruct (ns_eqb a n); reflexivity.
    + destruct (ns_eqb a k) eqn:E2.
      * apply ns_eqb_eq in E2. subst k.
        destruct (ns_eqb a n) eqn:E3; [|reflexivity].
        apply ns_eqb_eq in E3. subst. rewrite ns_eqb_refl in E. discriminate.
      * apply IH.
Qed.

(* ------------------------------------------------------------------ _get_unused_prefix *)
Lemma unused_from_spec : forall f p c t np,
  unused_from f p c t = Some np -> mem np t = false /\ exists k, np = p ++ "_" ++ str_of_nat k.
Proof.
  induction f as [|f IH]; cbn [unused_from]; intros p c t np H; [discriminate|].
  destruct (mem (p ++ "_" ++ str_of_nat c) t) eqn:E.
  - apply IH in H. exact H.
  - inversion H; subst. split; [exact E | exists c; reflexivity].
Qed.

Lemma get_unused_prefix_spec : forall p t np,
  get_unused_prefix p t = Some np -> mem np t = false.
Proof.
  unfold get_unused_prefix. intros p t np H.
  destruct (mem p t) eqn:E.
  - apply unused_from_spec in H. tauto.
  - inversion H; subst; exact E.
Qed.

Lemma app_underscore_nonempty : forall p s, p ++ "_" ++ s <> "".
Proof. intros [|c p] s; simpl; discriminate. Qed.

Lemma get_unused_prefix_nonempty : forall p t np,
  p <> "" -> get_unused_prefix p t = Some np -> np <> "".
Proof.
  unfold get_unused_prefix. intros p t np N H.
  destruct (mem p t).
  - apply unused_from_spec in H. destruct H as [_ [k ->]]. apply app_underscore_nonempty.
  - inversion H; subst; exact N.
Qed.

(* the while-True loop terminates: if the fuelled search fails, [fuel] distinct
   candidates are all keys of the table, which cannot be when fuel > length t *)
Lemma unused_from_none_keys : forall f p c t,
  unused_from f p c t = None ->
  forall k, c <= k < c + f -> In (p ++ "_" ++ str_of_nat k) (map fst t).
Proof.
  induction f as [|f IH]; cbn [unused_from]; intros p c t H k Hk; [lia|].
  destruct (mem (p ++ "_" ++ str_of_nat c) t) eqn:E; [|discriminate].
  destruct (Nat.eq_dec k c) as [->|N].
  - apply mem_true_lookup in E. destruct E as [v E]. eapply lookup_key_in; eauto.
  - apply (IH p (S c) t H). lia.
Qed.

Lemma candidates_nodup : forall p f c,
  NoDup (map (fun k => p ++ "_" ++ str_of_nat k) (seq c f)).
Proof.
  intros p f c. apply Injective_map_NoDup; [|apply seq_NoDup].
  intros a b E. apply append_inj_l in E. apply append_inj_l in E.
  apply str_of_nat_inj. exact E.
Qed.

Theorem unused_prefix_fuel : forall p (t : list (string * ns)),
  get_unused_prefix p t <> None.
Proof.
  unfold get_unused_prefix. intros p t. destruct (mem p t); [|discriminate].
  intro H.
  pose proof (unused_from_none_keys _ _ _ _ H) as K.
  assert (I : incl (map (fun k => p ++ "_" ++ str_of_nat k) (seq 1 (S (length t)))) (map fst t)).
  { intros x Hx. apply in_map_iff in Hx. destruct Hx as [k [<- Hk]].
    apply in_seq in Hk. apply K. lia. }
  apply NoDup_incl_length in I; [|apply candidates_nodup].
  rewrite !map_length, seq_length in I. lia.
Qed.

(* ------------------------------------------------------------------ URI invariant (for C03a) *)
Record InvU (m : nsm) : Prop := {
  iu_uri : forall u n, lookup u (urimap m) = Some n -> ns_uri n = u;
  iu_ren : forall a b, ren_lookup a (renmap m) = Some b -> ns_uri b = ns_uri a
}.

Lemma InvU_init : InvU nsm_init.
Proof. split; simpl; intros; discriminate. Qed.

Lemma add_namespace_uri : forall m n m' r,
  InvU m -> add_namespace m n = Some (m', r) -> ns_uri r = ns_uri n /\ InvU m'.
Proof.
  intros m n m' r [Hu Hr] H. unfold add_namespace in H.
  destruct (in_values n (tbl m)).
  { inversion H; subst. split; [reflexivity | split; assumption]. }
  destruct (ren_lookup n (renmap m)) as [x|] eqn:ER.
  { inversion H; subst. split; [eapply Hr; eauto | split; assumption]. }
  destruct (lookup (ns_uri n) (urimap m)) as [e|] eqn:EU.
  { inversion H; subst; clear H. pose proof (Hu _ _ EU) as Ue. split; [exact Ue|].
    split; simpl; [exact Hu|]. intros a b Hab. rewrite ren_lookup_set in Hab.
    destruct (ns_eqb a n) eqn:E.
    - apply ns_eqb_eq in E. inversion Hab; subst. exact Ue.
    - eapply Hr; eauto. }
  destruct (mem (ns_prefix n) (tbl m)).
  - destruct (get_unused_prefix (ns_prefix n) (tbl m)) as [np|]; [|discriminate].
    inversion H; subst; clear H. split; [reflexivity|]. split; simpl.
    + intros u x Hx. rewrite lookup_dset in Hx.
      destruct (String.eqb u (ns_uri n)) eqn:E.
      * apply String.eqb_eq in E. inversion Hx; subst. reflexivity.
      * eapply Hu; eauto.
    + intros a b Hab. rewrite ren_lookup_set in Hab.
      destruct (ns_eqb a n) eqn:E.
      * apply ns_eqb_eq in E. inversion Hab; subst. reflexivity.
      * eapply Hr; eauto.
  - inversion H; subst; clear H. split; [reflexivity|]. split; simpl; [|exact Hr].
    intros u x Hx. rewrite lookup_dset in Hx.
    destruct (String.eqb u (ns_uri r)) eqn:E.
    + apply String.eqb_eq in E. inversion Hx; subst. reflexivity.
    + eapply Hu; eauto.
Qed.

Lemma set_default_InvU : forall m u, InvU m -> InvU (set_default m u).
Proof. intros m u [Hu Hr]. split; simpl; assumption. Qed.

Lemma resolve_qn_uri : forall m q m' q',
  InvU m -> resolve_qn m q = Some (m', q') -> qn_uri q' = qn_uri q /\ InvU m'.
Proof.
  intros m [n l] m' q' I H. unfold resolve_qn in H. simpl in H. unfold qn_uri; simpl.
  destruct (ns_prefix n) as [|c p] eqn:EP.
  - destruct (dflt m) as [d|] eqn:ED.
    + destruct (ns_eqb d n) eqn:E.
      * apply ns_eqb_eq in E. inversion H; subst. simpl. split; [reflexivity | exact I].
      * destruct (add_namespace m (mkNs "dn" (ns_uri n))) as [[m2 n2]|] eqn:EA; [|discriminate].
        inversion H; subst. apply add_namespace_uri in EA; [|exact I].
        destruct EA as [U I2]. simpl in *. rewrite U. split; [reflexivity | exact I2].
    + inversion H; subst. simpl. split; [reflexivity|]. destruct I as [Hu Hr]. split; simpl; assumption.
  - assert (ADD : forall m2 n2, add_namespace m (mkNs (String c p) (ns_uri n)) = Some (m2, n2) ->
                   (ns_uri n2 ++ l = ns_uri n ++ l) /\ InvU m2).
    { intros m2 n2 EA. apply add_namespace_uri in EA; [|exact I]. destruct EA as [U I2].
      simpl in U. rewrite U. split; [reflexivity | exact I2]. }
    destruct (lookup (String c p) (tbl m)) as [e|] eqn:EL.
    + destruct (ns_eqb e n) eqn:E.
      * apply ns_eqb_eq in E. inversion H; subst. simpl. split; [reflexivity | exact I].
      * destruct (add_namespace m (mkNs (String c p) (ns_uri n))) as [[m2 n2]|] eqn:EA; [|discriminate].
        inversion H; subst. simpl. eapply ADD; eauto.
    + destruct (add_namespace m (mkNs (String c p) (ns_uri n))) as [[m2 n2]|] eqn:EA; [|discriminate].
      inversion H; subst. simpl. eapply ADD; eauto.
Qed.

Lemma resolve_InvU : forall par m x m' r,
  InvU m -> resolve par m x = OK (m', r) -> InvU m'.
Proof.
  intros par m x m' r I H. destruct x as [q|s|u]; simpl in H.
  - destruct (resolve_qn m q) as [[m2 q2]|] eqn:E; [|discriminate].
    inversion H; subst. eapply resolve_qn_uri; eauto.
  - destruct s; [inversion H; subst; exact I|].
    unfold bind in H. destruct (resolve_str par m _ false); inversion H; subst; exact I.
  - unfold bind in H. destruct (resolve_str par m u true); inversion H; subst; exact I.
Qed.

(* ------------------------------------------------------------------ prefix stability (for C03b) *)
Lemma add_namespace_tbl_stable : forall m n m' r,
  add_namespace m n = Some (m', r) ->
  forall p v, lookup p (tbl m) = Some v -> lookup p (tbl m') = Some v.
Proof.
  intros m n m' r H p v L. unfold add_namespace in H.
  destruct (in_values n (tbl m)); [inversion H; subst; exact L|].
  destruct (ren_lookup n (renmap m)); [inversion H; subst; exact L|].
  destruct (lookup (ns_uri n) (urimap m)); [inversion H; subst; exact L|].
  destruct (mem (ns_prefix n) (tbl m)) eqn:EM.
  - destruct (get_unused_prefix (ns_prefix n) (tbl m)) as [np|] eqn:EG; [|discriminate].
    inversion H; subst; simpl. rewrite lookup_dset.
    destruct (String.eqb p np) eqn:E; [|exact L].
    apply String.eqb_eq in E. subst. apply get_unused_prefix_spec in EG.
    apply mem_false_lookup in EG. congruence.
  - inversion H; subst; simpl. rewrite lookup_dset.
    destruct (String.eqb p (ns_prefix r)) eqn:E; [|exact L].
    apply String.eqb_eq in E. subst. apply mem_false_lookup in EM. congruence.
Qed.

Lemma set_default_tbl_stable : forall m u p,
  p <> "" -> lookup p (tbl (set_default m u)) = lookup p (tbl m).
Proof.
  intros m u p N. unfold set_default; simpl. rewrite lookup_dset.
  destruct (String.eqb p "") eqn:E; [apply String.eqb_eq in E; contradiction | reflexivity].
Qed.

Lemma resolve_qn_tbl_stable : forall m q m' q',
  resolve_qn m q = Some (m', q') ->
  forall p v, p <> "" -> lookup p (tbl m) = Some v -> lookup p (tbl m') = Some v.
Proof.
  intros m [n l] m' q' H p v NP L. unfold resolve_qn in H; simpl in H.
  destruct (ns_prefix n) as [|c pp].
  - destruct (dflt m) as [d|].
    + destruct (ns_eqb d n); [inversion H; subst; exact L|].
      destruct (add_namespace m _) as [[m2 n2]|] eqn:EA; [|discriminate].
      inversion H; subst. eapply add_namespace_tbl_stable; eauto.
    + inversion H; subst; simpl. rewrite lookup_dset.
      destruct (String.eqb p "") eqn:E; [apply String.eqb_eq in E; contradiction | exact L].
  - destruct (lookup (String c pp) (tbl m)) as [e|].
    + destruct (ns_eqb e n); [inversion H; subst; exact L|].
      destruct (add_namespace m _) as [[m2 n2]|] eqn:EA; [|discriminate].
      inversion H; subst. eapply add_namespace_tbl_stable; eauto.
    + destruct (add_namespace m _) as [[m2 n2]|] eqn:EA; [|discriminate].
      inversion H; subst. eapply add_namespace_tbl_stable; eauto.
Qed.

Lemma resolve_tbl_stable : forall par m x m' r,
  resolve par m x = OK (m', r) ->
  forall p v, p <> "" -> lookup p (tbl m) = Some v -> lookup p (tbl m') = Some v.
Proof.
  intros par m x m' r H p v NP L. destruct x as [q|s|u]; simpl in H.
  - destruct (resolve_qn m q) as [[m2 q2]|] eqn:E; [|discriminate].
    inversion H; subst. eapply resolve_qn_tbl_stable; eauto.
  - destruct s; [inversion H; subst; exact L|].
    unfold bind in H. destruct (resolve_str par m _ false); inversion H; subst; exact L.
  - unfold bind in H. destruct (resolve_str par m u true); inversion H; subst; exact L.
Qed.

Theorem add_namespace_clash_fresh : forall m n m' r,
  add_namespace m n = Some (m', r) ->
  in_values n (tbl m) = false -> ren_lookup n (renmap m) = None ->
  lookup (ns_uri n) (urimap m) = None -> mem (ns_prefix n) (tbl m) = true ->
  lookup (ns_prefix r) (tbl m) = None /\ lookup (ns_prefix r) (tbl m') = Some r /\
  ns_uri r = ns_uri n /\ lookup (ns_prefix n) (tbl m') = lookup (ns_prefix n) (tbl m).
Proof.
  intros m n m' r H E1 E2 E3 E4. unfold add_namespace in H. rewrite E1, E2, E3, E4 in H.
  destruct (get_unused_prefix (ns_prefix n) (tbl m)) as [np|] eqn:EG; [|discriminate].
  inversion H; subst; simpl. apply get_unused_prefix_spec in EG.
  pose proof (mem_false_lookup _ _ EG) as L. repeat split.
  - exact L.
  - apply lookup_dset_same.
  - rewrite lookup_dset. destruct (String.eqb (ns_prefix n) np) eqn:E; [|reflexivity].
    apply String.eqb_eq in E. subst. apply mem_true_lookup in E4. destruct E4 as [v E4]. congruence.
Qed.

(* ------------------------------------------------------------------ binding invariant (for C03c) *)
Definition tbound (m : nsm) (n : ns) : Prop :=
  ns_prefix n <> "" /\ lookup (ns_prefix n) (tbl m) = Some n.

Record InvB (m : nsm) : Prop := {
  ib_uniq : uniq (tbl m);
  ib_key : forall k n, lookup k (tbl m) = Some n -> ns_prefix n = k;
  ib_uri : forall u n, lookup u (urimap m) = Some n -> tbound m n;
  ib_ren : forall a b, ren_lookup a (renmap m) = Some b -> tbound m b;
  ib_pren : forall p n, lookup p (prenmap m) = Some n -> tbound m n;
  ib_dflt : forall d, dflt m = Some d -> ns_prefix d = "";
  ib_empty : forall n, lookup "" (tbl m) = Some n -> dflt m = Some n
}.

Definition Bound (m : nsm) (q : qname) : Prop :=
  (ns_prefix (qn_ns q) = "" /\ dflt m = Some (qn_ns q)) \/ tbound m (qn_ns q).

Lemma builtin_key : forall (l : list (string * string)) k n,
  lookup k (map (fun pu => (fst pu, mkNs (fst pu) (snd pu))) l) = Some n -> ns_prefix n = k.
Proof.
  induction l as [|[p u] l IH]; simpl; intros k n H; [discriminate|].
  destruct (String.eqb k p) eqn:E.
  - apply String.eqb_eq in E. inversion H; subst. reflexivity.
  - apply IH. exact H.
Qed.

Lemma builtin_no_empty : forall (l : list (string * string)),
  forallb (fun pu => negb (String.eqb (fst pu) "")) l = true ->
  lookup "" (map (fun pu => (fst pu, mkNs (fst pu) (snd pu))) l) = None.
Proof.
  induction l as [|[p u] l IH]; simpl; intros H; [reflexivity|].
  apply andb_true_iff in H. destruct H as [H1 H2].
  destruct p as [|c p']; [simpl in H1; discriminate|]. apply IH. exact H2.
Qed.

Lemma InvB_init : InvB nsm_init.
Proof.
  split; unfold nsm_init; cbn [tbl urimap renmap prenmap dflt].
  - unfold uniq, builtin_tbl. rewrite map_map.
    erewrite map_ext; [apply default_ns_nodup|]. intros [a b]; reflexivity.
  - intros k n. apply builtin_key.
  - intros; discriminate.
  - intros; discriminate.
  - intros; discriminate.
  - intros; discriminate.
  - intros n H. unfold builtin_tbl in H. rewrite builtin_no_empty in H; [discriminate|].
    apply default_ns_nonempty.
Qed.

Lemma in_values_lookup : forall m n, InvB m -> in_values n (tbl m) = true ->
  lookup (ns_prefix n) (tbl m) = Some n.
Proof.
  intros m n I H. unfold in_values in H. apply existsb_exists in H.
  destruct H as [[k v] [Hin E]]. simpl in E. apply ns_eqb_eq in E. subst v.
  pose proof (uniq_In_lookup _ _ _ (ib_uniq _ I) Hin) as L.
  pose proof (ib_key _ I _ _ L) as K. subst k. exact L.
Qed.

Lemma tbound_tbl_stable : forall m m' n,
  (forall p v, lookup p (tbl m) = Some v -> lookup p (tbl m') = Some v) ->
  tbound m n -> tbound m' n.
Proof. intros m m' n S [N L]. split; [exact N | apply S; exact L]. Qed.

(* registering under a fresh non-empty key keeps InvB and binds the new namespace *)
Lemma InvB_register : forall m np nn um rm pm,
  InvB m -> np <> "" -> ns_prefix nn = np -> lookup np (tbl m) = None ->
  (forall u n, lookup u um = Some n -> n = nn \/ tbound m n) ->
  (forall a b, ren_lookup a rm = Some b -> b = nn \/ tbound m b) ->
  (forall p n, lookup p pm = Some n -> n = nn \/ tbound m n) ->
  forall rg,
  InvB (mkNsm (dset np nn (tbl m)) rg (dflt m) um rm pm) /\
  tbound (mkNsm (dset np nn (tbl m)) rg (dflt m) um rm pm) nn.
Proof.
  intros m np nn um rm pm I N P L Hu Hr Hp rg.
  assert (TB : forall n, n = nn \/ tbound m n ->
                 tbound (mkNsm (dset np nn (tbl m)) rg (dflt m) um rm pm) n).
  { intros n [->|[Nn Ln]]; split; simpl.
    - rewrite P; exact N.
    - rewrite P. apply lookup_dset_same.
    - exact Nn.
    - rewrite lookup_dset. destruct (String.eqb (ns_prefix n) np) eqn:E; [|exact Ln].
      apply String.eqb_eq in E. congruence. }
  split; [|apply TB; left; reflexivity].
  split; simpl.
  - apply uniq_dset. apply (ib_uniq _ I).
  - intros k n Hk. rewrite lookup_dset in Hk. destruct (String.eqb k np) eqn:E.
    + apply String.eqb_eq in E. inversion Hk; subst. reflexivity.
    + eapply ib_key; eauto.
  - intros u n H. apply TB. eapply Hu; eauto.
  - intros a b H. apply TB. eapply Hr; eauto.
  - intros p n H. apply TB. eapply Hp; eauto.
  - apply (ib_dflt _ I).
  - intros n H. rewrite lookup_dset in H. destruct (String.eqb "" np) eqn:E.
    + apply String.eqb_eq in E. congruence.
    + eapply ib_empty; eauto.
Qed.

Lemma add_namespace_InvB : forall m n m' r,
  InvB m -> ns_prefix n <> "" -> add_namespace m n = Some (m', r) ->
  InvB m' /\ tbound m' r.
Proof.
  intros m n m' r I NP H. unfold add_namespace in H.
  destruct (in_values n (tbl m)) eqn:EV.
  { inversion H; subst. split; [exact I|]. split; [exact NP | apply in_values_lookup; assumption]. }
  destruct (ren_lookup n (renmap m)) as [x|] eqn:ER.
  { inversion H; subst. split; [exact I | eapply ib_ren; eauto]. }
  destruct (lookup (ns_uri n) (urimap m)) as [e|] eqn:EU.
  { inversion H; subst; clear H. pose proof (ib_uri _ I _ _ EU) as Te.
    assert (TS : forall x, tbound m x ->
              tbound (mkNsm (tbl m) (regd m) (dflt m) (urimap m) (ren_set n r (renmap m))
                            (dset (ns_prefix n) r (prenmap m))) x).
    { intros x [A B]. split; assumption. }
    split; [|apply TS; exact Te].
    split; simpl.
    - apply (ib_uniq _ I).
    - apply (ib_key _ I).
    - intros u x Hx. apply TS. eapply ib_uri; eauto.
    - intros a b Hab. apply TS. rewrite ren_lookup_set in Hab.
      destruct (ns_eqb a n); [inversion Hab; subst; exact Te | eapply ib_ren; eauto].
    - intros p x Hx. apply TS. rewrite lookup_dset in Hx.
      destruct (String.eqb p (ns_prefix n)); [inversion Hx; subst; exact Te | eapply ib_pren; eauto].
    - apply (ib_dflt _ I).
    - apply (ib_empty _ I). }
  destruct (mem (ns_prefix n) (tbl m)) eqn:EM.
  - destruct (get_unused_prefix (ns_prefix n) (tbl m)) as [np|] eqn:EG; [|discriminate].
    inversion H; subst; clear H.
    apply InvB_register; try assumption.
    + eapply get_unused_prefix_nonempty; eauto.
    + reflexivity.
    + apply mem_false_lookup. eapply get_unused_prefix_spec; eauto.
    + intros u x Hx. rewrite lookup_dset in Hx.
      destruct (String.eqb u (ns_uri n)); [inversion Hx; left; reflexivity | right; eapply ib_uri; eauto].
    + intros a b Hab. rewrite ren_lookup_set in Hab.
      destruct (ns_eqb a n); [inversion Hab; left; reflexivity | right; eapply ib_ren; eauto].
    + intros p x Hx. rewrite lookup_dset in Hx.
      destruct (String.eqb p (ns_prefix n)); [inversion Hx; left; reflexivity | right; eapply ib_pren; eauto].
  - inversion H; subst; clear H.
    apply InvB_register; try assumption.
    + reflexivity.
    + apply mem_false_lookup. exact EM.
    + intros u x Hx. rewrite lookup_dset in Hx.
      destruct (String.eqb u (ns_uri r)); [inversion Hx; left; reflexivity | right; eapply ib_uri; eauto].
    + intros a b Hab. right. eapply ib_ren; eauto.
    + intros p x Hx. right. eapply ib_pren; eauto.
Qed.

Lemma set_default_InvB : forall m u, InvB m -> InvB (set_default m u).
Proof.
  intros m u I.
  assert (TS : forall x, tbound m x -> tbound (set_default m u) x).
  { intros x [A B]. split; [exact A|]. rewrite set_default_tbl_stable; assumption. }
  split; simpl.
  - apply uniq_dset. apply (ib_uniq _ I).
  - intros k n H. rewrite lookup_dset in H. destruct (String.eqb k "") eqn:E.
    + apply String.eqb_eq in E. inversion H; subst. reflexivity.
    + eapply ib_key; eauto.
  - intros x n H. apply TS. eapply ib_uri; eauto.
  - intros a b H. apply TS. eapply ib_ren; eauto.
  - intros p n H. apply TS. eapply ib_pren; eauto.
  - intros d H. inversion H; subst. reflexivity.
  - intros n H. rewrite lookup_dset in H. simpl in H. exact H.
Qed.

Lemma resolve_qn_InvB : forall m q m' q',
  InvB m -> resolve_qn m q = Some (m', q') -> InvB m' /\ Bound m' q'.
Proof.
  intros m [n l] m' q' I H. unfold resolve_qn in H; simpl in H.
  destruct (ns_prefix n) as [|c p] eqn:EP.
  - destruct (dflt m) as [d|] eqn:ED.
    + destruct (ns_eqb d n) eqn:E.
      * apply ns_eqb_eq in E. inversion H; subst. split; [exact I|].
        left; simpl. split; [exact EP | exact ED].
      * destruct (add_namespace m (mkNs "dn" (ns_uri n))) as [[m2 n2]|] eqn:EA; [|discriminate].
        inversion H; subst. apply add_namespace_InvB in EA; [|exact I|simpl; discriminate].
        destruct EA as [I2 T]. split; [exact I2 | right; exact T].
    + inversion H; subst; clear H. split.
      * assert (TS : forall x, tbound m x ->
                  tbound (mkNsm (dset "" n (tbl m)) (regd m) (Some n) (urimap m) (renmap m) (prenmap m)) x).
        { intros x [A B]. split; [exact A|]. simpl. rewrite lookup_dset.
          destruct (String.eqb (ns_prefix x) "") eqn:E; [apply String.eqb_eq in E; contradiction | exact B]. }
        split; simpl.
        -- apply uniq_dset. apply (ib_uniq _ I).
        -- intros k x Hk. rewrite lookup_dset in Hk. destruct (String.eqb k "") eqn:E.
           ++ apply String.eqb_eq in E. inversion Hk; subst. exact EP.
           ++ eapply ib_key; eauto.
        -- intros u x Hx. apply TS. eapply ib_uri; eauto.
        -- intros a b Hab. apply TS. eapply ib_ren; eauto.
        -- intros p x Hx. apply TS. eapply ib_pren; eauto.
        -- intros d Hd. inversion Hd; subst. exact EP.
        -- intros x Hx. rewrite lookup_dset in Hx. simpl in Hx. exact Hx.
      * left; simpl. split; [exact EP | reflexivity].
  - assert (ADD : forall m2 n2, add_namespace m (mkNs (String c p) (ns_uri n)) = Some (m2, n2) ->
                   InvB m2 /\ Bound m2 (mkQn n2 l)).
    { intros m2 n2 EA. apply add_namespace_InvB in EA; [|exact I|simpl; discriminate].
      destruct EA as [I2 T]. split; [exact I2 | right; exact T]. }
    destruct (lookup (String c p) (tbl m)) as [e|] eqn:EL.
    + destruct (ns_eqb e n) eqn:E.
      * apply ns_eqb_eq in E. inversion H; subst. split; [exact I|].
        right. split; simpl; [rewrite EP; discriminate | rewrite EP; exact EL].
      * destruct (add_namespace m (mkNs (String c p) (ns_uri n))) as [[m2 n2]|] eqn:EA; [|discriminate].
        inversion H; subst. eapply ADD; eauto.
    + destruct (add_namespace m (mkNs (String c p) (ns_uri n))) as [[m2 n2]|] eqn:EA; [|discriminate].
      inversion H; subst. eapply ADD; eauto.
Qed.

Lemma tbl_hit_Bound : forall m k n l, InvB m -> lookup k (tbl m) = Some n -> Bound m (mkQn n l).
Proof.
  intros m k n l I L. pose proof (ib_key _ I _ _ L) as K. subst k.
  destruct (ns_prefix n) as [|c p] eqn:EP.
  - left; simpl. split; [exact EP | apply (ib_empty _ I); exact L].
  - right. split; simpl; [rewrite EP; discriminate | rewrite EP; exact L].
Qed.

Lemma resolve_str1_Bound : forall m s b q,
  InvB m -> resolve_str1 m s b = SFound q -> Bound m q.
Proof.
  intros m s b q I H. unfold resolve_str1 in H.
  destruct (starts_with "_:" s); [discriminate|].
  destruct (split_colon s) as [[p l]|].
  - destruct (lookup p (tbl m)) as [n|] eqn:EL.
    + inversion H; subst. eapply tbl_hit_Bound; eauto.
    + destruct (lookup p (prenmap m)) as [n|] eqn:EP.
      * inversion H; subst. right. eapply ib_pren; eauto.
      * destruct (find _ (tbl m)) as [[k n]|] eqn:EF; [|discriminate].
        inversion H; subst. apply find_some in EF. destruct EF as [Hin _].
        pose proof (uniq_In_lookup _ _ _ (ib_uniq _ I) Hin) as L.
        eapply tbl_hit_Bound; eauto.
  - destruct (dflt m) as [d|] eqn:ED; [|discriminate].
    destruct b; [discriminate|]. inversion H; subst.
    left; simpl. split; [eapply ib_dflt; eauto | exact ED].
Qed.

(* what the syntax prefix:local can carry *)
Definition printable (q : qname) : Prop :=
  match ns_prefix (qn_ns q) with
  | EmptyString => qn_local q <> "" /\ contains_char colon (qn_local q) = false
  | p => contains_char colon p = false /\ p <> "_"
  end.

Lemma qn_str_nonempty : forall q, printable q -> qn_str q <> "".
Proof.
  intros [[p u] l]. unfold printable, qn_str; simpl.
  destruct p as [|c p]; [tauto | simpl; discriminate].
Qed.

Lemma qn_str_prefixed : forall q, ns_prefix (qn_ns q) <> "" ->
  qn_str q = ns_prefix (qn_ns q) ++ String colon (qn_local q).
Proof. intros [[p u] l]; unfold qn_str; simpl. destruct p; [contradiction | reflexivity]. Qed.

Lemma qn_str_default : forall q, ns_prefix (qn_ns q) = "" -> qn_str q = qn_local q.
Proof. intros [[p u] l]; unfold qn_str; simpl. intros ->. reflexivity. Qed.

Lemma blank_false_local : forall l, contains_char colon l = false -> starts_with "_:" l = false.
Proof.
  intros l NC. destruct l as [|a l]; [reflexivity|]. cbn [starts_with].
  destruct (Ascii.eqb "_" a); [|reflexivity].
  destruct l as [|b l]; [reflexivity|]. cbn [starts_with].
  cbn [contains_char] in NC. apply orb_false_iff in NC. destruct NC as [_ NC].
  apply orb_false_iff in NC. destruct NC as [NC _].
  change (Ascii.eqb ":" b) with (Ascii.eqb colon b). rewrite NC. reflexivity.
Qed.

Lemma blank_false_prefixed : forall p l, p <> "_" -> contains_char colon p = false ->
  starts_with "_:" (p ++ String colon l) = false.
Proof.
  intros p l NU NC. destruct p as [|c p]; [reflexivity|].
  cbn [append starts_with]. destruct (Ascii.eqb "_" c) eqn:E1; [|reflexivity].
  apply Ascii.eqb_eq in E1. subst c.
  destruct p as [|b p]; [exfalso; apply NU; reflexivity|].
  cbn [append starts_with].
  cbn [contains_char] in NC. apply orb_false_iff in NC. destruct NC as [_ NC].
  apply orb_false_iff in NC. destruct NC as [NC _].
  change (Ascii.eqb ":" b) with (Ascii.eqb colon b). rewrite NC. reflexivity.
Qed.

Lemma Bound_reresolve : forall m q,
  Bound m q -> printable q ->
  resolve_str1 m (qn_str q) false = SFound (mkQn (qn_ns q) (qn_local q)).
Proof.
  intros m q B P. unfold printable in P. unfold resolve_str1.
  destruct B as [[E D]|[N L]].
  - rewrite E in P. destruct P as [NE NC]. rewrite (qn_str_default _ E).
    rewrite (blank_false_local _ NC), (split_colon_none _ NC), D. reflexivity.
  - rewrite (qn_str_prefixed _ N).
    destruct (ns_prefix (qn_ns q)) as [|c p] eqn:EP; [contradiction|].
    destruct P as [NC NU].
    rewrite (blank_false_prefixed _ _ NU NC), (split_colon_app _ _ NC), L. reflexivity.
Qed.

(* ---- a full URI given as a string or Identifier: when the part before its first colon is not a prefix the
   manager knows, the name found by compaction (the first namespace whose URI the string starts with) has
   exactly that URI — str_value[len(namespace.uri):] (as repaired; replace() dropped every occurrence) *)
Lemma starts_with_drop : forall p s, starts_with p s = true -> p ++ drop (String.length p) s = s.
Proof.
  induction p as [|a p IH]; intros s H; [reflexivity|].
  destruct s as [|b s]; [discriminate|]. cbn [starts_with] in H.
  destruct (Ascii.eqb a b) eqn:E; [|discriminate]. apply Ascii.eqb_eq in E. subst b.
  cbn [String.length drop append]. rewrite (IH s H). reflexivity.
Qed.

Theorem compaction_preserves_uri : forall m s b p l q,
  split_colon s = Some (p, l) -> lookup p (tbl m) = None -> lookup p (prenmap m) = None ->
  resolve_str1 m s b = SFound q -> qn_uri q = s.
Proof.
  intros m s b p l q SC L1 L2 H. unfold resolve_str1 in H.
  destruct (starts_with "_:" s); [discriminate|]. rewrite SC, L1, L2 in H.
  destruct (find _ (tbl m)) as [[k n]|] eqn:EF; [|discriminate].
  inversion H; subst q. apply find_some in EF. destruct EF as [_ SW]. cbn [snd] in SW.
  unfold qn_uri. cbn [qn_ns qn_local]. apply starts_with_drop. exact SW.
Qed.
