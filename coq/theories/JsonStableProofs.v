(* JsonStableProofs.v — C11, PROV-JSON: "writing d and loading the result gives d again" for documents d that were
   themselves loaded from a text.  The structural premises of the round-trip theorem (rec_ok) hold for every loaded
   document: the kind of every record can be named by the writer (KindProofs), the attribute dictionaries are keyed by
   pairwise different URIs with set-valued lists (ShapeProofs), every value is in stored form and of the kind its attribute
   demands (GoodProofs).  What is left as a premise is exactly what the open findings are about and what can be checked on
   d itself: names re-read as themselves in the manager the prefix block gives (names_ok: C01-F1..F3), formal attributes
   single-valued (C05-F1 is the way to get two), times valid, floats in the float table. *)
From Coq Require Import String List Arith ZArith Bool.
From Prov Require Import Str StrProofs Sexp Tables Nsm NsmProofs Values Record RecordProofs World WorldProofs Derive Jtree Json
  JsonProofs JsonRecProofs JsonContProofs JsonPrefixProofs JsonDocProofs JsonValueProofs IdemProofs GoodProofs ShapeProofs KindProofs.
Import ListNotations.
Open Scope string_scope.

(* what is asked of the names and values of a record, in the manager m the document's prefix block re-creates *)
Definition attr_names_ok (c : actx) (m : nsm) (kv : qname * list value) : Prop :=
  snd kv <> [] ->
  attr_key (cparent c) m (qn_str (fst kv)) = OK (Some (fst kv)) /\ Bound m (fst kv) /\ Forall (value_ok c m) (snd kv).

Definition names_ok (c : actx) (m : nsm) (r : prec) : Prop :=
  Forall (attr_names_ok c m) (rattrs r) /\
  match rid r with
  | Some q => Bound m q /\ printable q
  | None => is_element (rkind r) = false
  end.

Lemma encode_attr_nil : forall a, encode_attr (a, []) = [].
Proof. reflexivity. Qed.

Lemma in_member_names : forall s attrs, In s (member_names attrs) ->
  exists b ws, In (b, ws) attrs /\ ws <> [] /\ s = qn_str b.
Proof.
  intros s attrs. induction attrs as [|[a vs] attrs IH]; intros H; [destruct H|].
  unfold member_names in H. cbn [flat_map] in H. fold (member_names attrs) in H.
  apply in_app_or in H. destruct H as [H|H].
  - destruct vs as [|v vs]; [rewrite encode_attr_nil in H; destruct H|].
    destruct (encode_attr_shape (a, v :: vs)) as [E|[j E]]; rewrite E in H; [destruct H|].
    cbn [map fst In] in H. destruct H as [<-|[]]. exists a, (v :: vs). repeat split; [left; reflexivity | discriminate].
  - destruct (IH H) as [b [ws [I [N E]]]]. exists b, ws. repeat split; [right; exact I | exact N | exact E].
Qed.

Lemma member_names_nodup : forall c m attrs,
  NoDup (map key_uri attrs) -> Forall (attr_names_ok c m) attrs -> NoDup (member_names attrs).
Proof.
  intros c m attrs. induction attrs as [|[a vs] attrs IH]; intros U F; [constructor|].
  inversion U as [|x l NI U']; subst. inversion F as [|y l' Fa F']; subst.
  unfold member_names. cbn [flat_map]. fold (member_names attrs).
  destruct vs as [|v vs]; [rewrite encode_attr_nil; cbn [map app]; exact (IH U' F')|].
  destruct (encode_attr_shape (a, v :: vs)) as [E|[j E]]; rewrite E; cbn [map fst app]; [exact (IH U' F')|].
  constructor; [|exact (IH U' F')].
  intro H. destruct (in_member_names _ _ H) as [b [ws [I [N Eq]]]].
  assert (Ka : attr_key (cparent c) m (qn_str a) = OK (Some a)) by (apply Fa; cbn; discriminate).
  rewrite Forall_forall in F'. specialize (F' (b, ws) I). destruct (F' N) as [Kb _]. cbn [fst] in *.
  rewrite Eq in Ka. rewrite Kb in Ka. inversion Ka; subst b.
  apply NI. apply in_map_iff. exists (a, ws). split; [reflexivity | exact I].
Qed.

(* with keys of pairwise different URIs, an entry is what attr_get finds under its key *)
Lemma attr_get_entry : forall d a vs, NoDup (map key_uri d) -> In (a, vs) d -> attr_get a d = vs.
Proof.
  induction d as [|[k ws] d IH]; intros a vs U I; [destruct I|].
  inversion U as [|x l NI U']; subst. cbn [attr_get]. destruct I as [E|I].
  - inversion E; subst. rewrite qn_eqb_refl. reflexivity.
  - destruct (qn_eqb a k) eqn:Q.
    + exfalso. apply NI. apply qn_eqb_uri in Q. apply in_map_iff. exists (a, vs). split; [unfold key_uri; cbn; exact Q | exact I].
    + exact (IH a vs U' I).
Qed.

Lemma is_formal_split : forall a, is_formal_attr a = true -> is_qname_attr a = true \/ (is_qname_attr a = false /\ is_time_attr a = true).
Proof.
  intros a H. unfold is_formal_attr in H. destruct (is_qname_attr a); [left; reflexivity|]. right. split; [reflexivity | exact H].
Qed.

Lemma attr_good_of_parts : forall c m d a vs,
  Builtins m -> GoodD (cft c) d -> NormalD d -> NoDup (map key_uri d) -> In (a, vs) d ->
  attr_names_ok c m (a, vs) -> attr_good c m (a, vs).
Proof.
  intros c m d a vs B G N U I O. destruct vs as [|v vs]; [constructor|].
  destruct (O ltac:(cbn; discriminate)) as [K [Bd Vs]]. cbn [fst snd] in *.
  unfold GoodD in G. rewrite Forall_forall in G. specialize (G (a, v :: vs) I). cbn [fst snd] in G.
  destruct (is_formal_attr a) eqn:FA.
  - specialize (N a FA). rewrite (attr_get_entry d a (v :: vs) U I) in N.
    destruct vs as [|v2 vs]; [|destruct N].
    inversion G as [|x l [S T] _]; subst. inversion Vs as [|y l' Ov _]; subst.
    destruct (is_formal_split a FA) as [Q|[NQ TT]].
    + destruct T as [T _]. specialize (T Q). destruct v; try destruct T. cbn [value_ok] in Ov. destruct Ov as [Bq Pq].
      apply ag_ref; assumption.
    + destruct T as [_ T]. specialize (T TT). destruct v; try destruct T. cbn [value_ok] in Ov.
      apply ag_time; assumption.
  - apply ag_other; [exact K | exact Bd | exact FA|].
    rewrite Forall_forall. intros x Hx. apply rt_of_stored; [exact B| |].
    + rewrite Forall_forall in G. exact (proj1 (G x Hx)).
    + rewrite Forall_forall in Vs. exact (Vs x Hx).
Qed.

Theorem rec_ok_of_parts : forall par ft m r,
  Builtins m -> kind_ok (rkind r) -> GoodR ft r -> ShapeR r -> Normal r -> names_ok (mkCtx par ft) m r ->
  rec_ok par ft m r.
Proof.
  intros par ft m r B [K NB] G [U SD] N [NA NI]. unfold rec_ok.
  split; [exact K|]. split; [exact NB|].
  split; [exact (member_names_nodup (mkCtx par ft) m _ U NA)|].
  split; [exact U|].
  split; [|split; [exact SD | exact NI]].
  rewrite Forall_forall. intros [a vs] I. rewrite Forall_forall in NA.
  exact (attr_good_of_parts (mkCtx par ft) m (rattrs r) a vs B G N U I (NA _ I)).
Qed.

Lemma Builtins_after : forall l d, Builtins (with_default (after l) d).
Proof.
  intros l d. unfold Builtins, with_default. destruct d as [x|]; split; reflexivity.
Qed.

(* ---- documents that were themselves loaded, bundle-free: written and loaded again they are the same records (grouped as
   the writer groups them: C01_grouped_is_permutation), in the manager the prefix block gives *)
Theorem json_stable_flat : forall ft t d l,
  decode_doc ft t = OK d -> dbundles d = [] ->
  regd (bns (dmain d)) = map reg_entry l -> plain_regs l ->
  match dflt (bns (dmain d)) with Some x => uri_ok (ns_uri x) = true | None => True end ->
  let m := with_default (after l) (dflt (bns (dmain d))) in
  Forall Normal (brecs (dmain d)) ->
  Forall (names_ok (mkCtx None ft) m) (brecs (dmain d)) ->
  decode_doc ft (encode_doc d)
  = OK (mkD (add_all (with_ns (bundle_init None) m) (map renorm (grouped (brecs (dmain d))))) []).
Proof.
  intros ft t d l H NB R P D m FN FO.
  apply json_doc_roundtrip_plain; [exact NB | exact R | exact P | exact D|].
  fold m. rewrite Forall_forall. intros r Hr.
  assert (Hb : In (dmain d) (doc_containers d)) by (left; reflexivity).
  apply rec_ok_of_parts.
  - apply Builtins_after.
  - exact (decoded_records_kind _ _ _ H _ _ Hb Hr).
  - destruct (decode_doc_DGood _ _ _ H) as [GM _]. unfold BGood in GM. rewrite Forall_forall in GM. exact (GM r Hr).
  - destruct (decode_doc_DShape _ _ _ H) as [SM _]. unfold BShape in SM. rewrite Forall_forall in SM. exact (SM r Hr).
  - rewrite Forall_forall in FN. exact (FN r Hr).
  - rewrite Forall_forall in FO. exact (FO r Hr).
Qed.

Definition t0 : jv := JObj [("prefix", JObj [("ex", JStr "http://e/")]);
                            ("entity", JObj [("ex:e", JObj [("ex:k", JArr [JInt 5; JStr "five"])])]);
                            ("agent", JObj [("ex:ag", JObj [])])].
Definition d0 : doc := match decode_doc [] t0 with OK d => d | _ => doc_init end.
Definition exns : ns := mkNs "ex" "http://e/".
(* the premises are satisfiable: a foreign tree — a multi-valued attribute as an array, an attribute-less record — loaded,
   written and loaded again *)
Example json_stable_flat_applies :
  decode_doc [] t0 = OK d0 /\
  decode_doc [] (encode_doc d0)
  = OK (mkD (add_all (with_ns (bundle_init None) (with_default (after [exns]) None)) (map renorm (grouped (brecs (dmain d0))))) []).
Proof.
  split; [vm_compute; reflexivity|].
  apply (json_stable_flat [] t0 d0 [exns]).
  - vm_compute; reflexivity.
  - vm_compute; reflexivity.
  - vm_compute; reflexivity.
  - unfold plain_regs. split; [repeat constructor; intros []|]. split; [repeat constructor; intros []|].
    intros n [<-|[]]. vm_compute. auto.
  - vm_compute. exact I.
  - vm_compute brecs. constructor; [|constructor; [|constructor]].
    + intros a FA. cbn [rattrs attr_get].
      match goal with |- context [qn_eqb a ?k] => destruct (qn_eqb a k) eqn:Q end; [|exact I].
      exfalso. rewrite (is_formal_attr_eqb _ _ Q) in FA. vm_compute in FA. discriminate.
    + intros a FA. exact I.
  - vm_compute brecs. constructor; [|constructor; [|constructor]].
    + unfold names_ok. cbn [rattrs rid rkind].
      assert (Bd : forall l0, Bound (with_default (after [exns]) (dflt (bns (dmain d0)))) (mkQn exns l0)).
      { intros l0. right. split; [discriminate | vm_compute; reflexivity]. }
      split; [|split; [apply Bd | split; [reflexivity | discriminate]]].
      constructor; [|constructor]. intros _. cbn [fst snd].
      split; [vm_compute; reflexivity|]. split; [apply Bd|]. repeat constructor.
    + unfold names_ok. cbn [rattrs rid rkind]. split; [constructor|].
      split; [right; split; [discriminate | vm_compute; reflexivity] | split; [reflexivity | discriminate]].
Qed.
