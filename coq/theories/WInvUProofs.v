(* WInvUProofs.v — URI consistency of every namespace manager (InvU: the tables never hold two
   entries for one URI under different names and renamings keep URIs) is an invariant of the
   interpreter: it holds in every reachable world.  With it the conservation theorems of
   ReaddProofs.v need no hypothesis on the managers. *)
From Coq Require Import String List Arith ZArith Bool.
From Prov Require Import Str Sexp Tables Nsm NsmProofs Values Record RecordProofs World WorldProofs.
Import ListNotations.
Open Scope string_scope.

Definition BInv (b : bundle) : Prop := InvU (bns b).

Lemma BInv_init : forall i, BInv (bundle_init i).
Proof. intros i. exact InvU_init. Qed.

Lemma new_record_BInv : forall par ft b k i attrs b' x,
  BInv b -> new_record par ft b k i attrs = (b', x) -> BInv b'.
Proof.
  intros par ft b k i attrs b' x I H. unfold new_record in H. unfold BInv in *.
  assert (ID : out_InvU (match i with None => Done (bns b) None | Some y => resolve_o (mkCtx par ft) (bns b) y end)).
  { destruct i as [y|]; [apply resolve_o_InvU; exact I | exact I]. }
  destruct (match i with None => Done (bns b) None | Some y => resolve_o (mkCtx par ft) (bns b) y end) as [m1 idq|m1 e|];
    cbn [out_InvU] in ID; try (inversion H; subst; cbn [with_ns bns]; assumption).
  unfold new_prec in H.
  destruct ((is_element k && match idq with None => true | Some _ => false end)%bool).
  - inversion H; subst. exact ID.
  - pose proof (add_attributes_InvU (mkCtx par ft) m1 (mkRec k idq []) attrs ID) as IA.
    destruct (add_attributes (mkCtx par ft) m1 (mkRec k idq []) attrs) as [m2 r2|m2 r2 e|]; inversion H; subst; cbn; try exact IA; exact I.
Qed.

Lemma add_record_BInv : forall par ft b r b' x, BInv b -> add_record par ft b r = (b', x) -> BInv b'.
Proof.
  intros par ft b r b' x I H. unfold add_record in H. destruct (negb (formal_single r)).
  - inversion H; subst. exact I.
  - eapply new_record_BInv; eauto.
Qed.

Lemma add_records_BInv : forall par ft rs b b' x, BInv b -> add_records par ft b rs = (b', x) -> BInv b'.
Proof.
  induction rs as [|r rs IH]; intros b b' x I H; cbn [add_records] in H.
  - inversion H; subst. exact I.
  - destruct (add_record par ft b r) as [b1 [y|e|]] eqn:E;
      pose proof (add_record_BInv _ _ _ _ _ _ I E) as I1.
    + eapply IH; eauto.
    + inversion H; subst. exact I1.
    + inversion H; subst. exact I1.
Qed.

Lemma factory_call_BInv : forall par ft b f i args other b' x,
  BInv b -> factory_call par ft b f i args other = (b', x) -> BInv b'.
Proof.
  intros par ft b f i args other b' x I H. unfold factory_call in H.
  destruct (factory_entry f) as [[[[f0 k] params] asserted]|]; [|inversion H; subst; exact I].
  destruct (factory_args (bns b) params args) as [m0 fa|m0 e|]; try (inversion H; subst; exact I).
  destruct (new_record par ft b k i (fa ++ other)%list) as [b1 [r|e|]] eqn:EN;
    pose proof (new_record_BInv _ _ _ _ _ _ _ _ I EN) as I1; try (inversion H; subst; exact I1).
  destruct asserted as [ty|]; [|inversion H; subst; exact I1].
  pose proof (add_attributes_InvU (mkCtx par ft) (bns b1) r [(NQn (prov_qn "type"), AQn (prov_qn ty))] I1) as IA.
  destruct (add_attributes (mkCtx par ft) (bns b1) r [(NQn (prov_qn "type"), AQn (prov_qn ty))]) as [m2 r2|m2 r2 e|];
    inversion H; subst; cbn; try exact IA; exact I1.
Qed.

(* ---- documents *)
From Prov Require Import Derive.

Definition DInv (dd : doc) : Prop := BInv (dmain dd) /\ Forall (fun kb => BInv (snd kb)) (dbundles dd).

Lemma DInv_init : DInv doc_init.
Proof. split; [exact InvU_init | constructor]. Qed.

Lemma Forall_set_nth_b : forall (l : list (string * bundle)) i k b,
  Forall (fun kb => BInv (snd kb)) l -> BInv b -> Forall (fun kb => BInv (snd kb)) (set_nth i (k, b) l).
Proof. intros l i k b F B. apply Forall_set_nth; assumption. Qed.

Lemma doc_new_bundle_DInv : forall dd x ft dd' r, DInv dd -> doc_new_bundle dd x ft = (dd', r) -> DInv dd'.
Proof.
  intros dd x ft dd' r [M B] H. unfold doc_new_bundle in H. destruct x as [n|]; [|inversion H; subst; split; assumption].
  destruct (resolve None (bns (dmain dd)) n) as [[m [q|]]|e|] eqn:ER; try (inversion H; subst; split; assumption).
  - pose proof (resolve_InvU _ _ _ _ _ M ER) as I1.
    destruct (mem (qn_uri q) (dbundles dd)); inversion H; subst; split; cbn; try exact I1; try exact B.
    apply Forall_app. split; [exact B|]. constructor; [exact InvU_init | constructor].
  - pose proof (resolve_InvU _ _ _ _ _ M ER) as I1. inversion H; subst. split; cbn; assumption.
Qed.

Lemma nth_error_Forall : forall (l : list (string * bundle)) i k b,
  Forall (fun kb => BInv (snd kb)) l -> nth_error l i = Some (k, b) -> BInv b.
Proof.
  intros l i k b F H. rewrite Forall_forall in F. exact (F (k, b) (nth_error_In _ _ H)).
Qed.

Lemma merge_bundles_DInv : forall ft bs dd dd' r, DInv dd -> merge_bundles ft dd bs = (dd', r) -> DInv dd'.
Proof.
  induction bs as [|[k sb] bs IH]; intros dd dd' r D H; cbn [merge_bundles] in H.
  - inversion H; subst. exact D.
  - destruct sb as [[sid|] sm srecs sidmap]; [|inversion H; subst; exact D].
    cbv zeta in H.
    set (step1 := match find (fun ib => String.eqb (fst (snd ib)) (qn_uri sid))
                             (combine (seq 0 (length (dbundles dd))) (dbundles dd)) with
                  | Some (i, _) => (dd, OK i)
                  | None => match doc_new_bundle dd (Some (NQn sid)) ft with
                            | (dd1, OK _) => (dd1, OK (length (dbundles dd1) - 1))
                            | (dd1, Raise e) => (dd1, Raise e)
                            | (dd1, OutOfDomain) => (dd1, OutOfDomain)
                            end
                  end) in *.
    assert (S1 : DInv (fst step1)).
    { unfold step1. destruct (find _ _) as [[i x]|]; [exact D|].
      destruct (doc_new_bundle dd (Some (NQn sid)) ft) as [dd1 [y|e|]] eqn:EN; cbn [fst];
        exact (doc_new_bundle_DInv _ _ _ _ _ D EN). }
    destruct step1 as [dd1 [i|e|]]; cbn [fst] in S1; try (inversion H; subst; exact S1).
    destruct (nth_error (dbundles dd1) i) as [[k1 tb]|] eqn:EN; [|inversion H; subst; exact S1].
    destruct S1 as [M1 B1].
    destruct (add_records (Some (bns (dmain dd1))) ft tb srecs) as [tb' [y|e|]] eqn:EA;
      pose proof (add_records_BInv _ _ _ _ _ _ (nth_error_Forall _ _ _ _ B1 EN) EA) as IT.
    + eapply IH; [|exact H]. split; cbn; [exact M1 | apply Forall_set_nth_b; assumption].
    + inversion H; subst. split; cbn; [exact M1 | apply Forall_set_nth_b; assumption].
    + inversion H; subst. split; assumption.
Qed.

Lemma bundle_unified_BInv : forall ft b nb, bundle_unified ft b = OK nb -> BInv nb.
Proof.
  intros ft b nb H. unfold bundle_unified in H. destruct (unified_records ft b) as [u|e|]; try discriminate.
  destruct (add_records None ft (bundle_init (bid b)) u) as [nb' [y|e|]] eqn:EA; try discriminate.
  inversion H; subst. exact (add_records_BInv _ _ _ _ _ _ (BInv_init _) EA).
Qed.

Lemma attach_bundle_DInv : forall dd b dd' r, DInv dd -> BInv b -> attach_bundle dd b = (dd', r) -> DInv dd'.
Proof.
  intros dd b dd' r [M B] Ib H. unfold attach_bundle in H. destruct (bid b) as [i|]; [|inversion H; subst; split; assumption].
  destruct (resolve (Some (bns (dmain dd))) (bns b) (NQn i)) as [[m [q|]]|e|] eqn:ER; try (inversion H; subst; split; assumption).
  pose proof (resolve_InvU _ _ _ _ _ Ib ER) as I1.
  destruct (mem (qn_uri q) (dbundles dd)); inversion H; subst; split; cbn; try assumption.
  apply Forall_app. split; [exact B|]. constructor; [exact I1 | constructor].
Qed.

Lemma unify_bundles_DInv : forall ft bs nd nd', DInv nd -> unify_bundles ft bs nd = OK nd' -> DInv nd'.
Proof.
  induction bs as [|[k b] bs IH]; intros nd nd' D H; cbn [unify_bundles] in H.
  - inversion H; subst. exact D.
  - destruct (bundle_unified ft b) as [nb|e|] eqn:EU; try discriminate.
    destruct (attach_bundle nd nb) as [nd1 [y|e|]] eqn:EA; try discriminate.
    eapply IH; [|exact H]. exact (attach_bundle_DInv _ _ _ _ D (bundle_unified_BInv _ _ _ EU) EA).
Qed.

Lemma add_namespaces_InvU : forall l m m', InvU m -> add_namespaces m l = Some m' -> InvU m'.
Proof.
  induction l as [|n l IH]; intros m m' I H; cbn [add_namespaces] in H.
  - inversion H; subst. exact I.
  - destruct (add_namespace m n) as [[m1 n1]|] eqn:EA; [|discriminate].
    eapply IH; [|exact H]. exact (proj2 (add_namespace_uri _ _ _ _ I EA)).
Qed.

Lemma doc_unified_DInv : forall ft dd nd, doc_unified ft dd = OK nd -> DInv nd.
Proof.
  intros ft dd nd H. unfold doc_unified in H.
  destruct (add_namespaces nsm_init (map snd (regd (bns (dmain dd))))) as [m0|] eqn:EN; [|discriminate].
  pose proof (add_namespaces_InvU _ _ _ InvU_init EN) as I0.
  destruct (unified_records ft (dmain dd)) as [u|e|]; try discriminate.
  set (m1 := match dflt (bns (dmain dd)) with Some dn => set_default m0 (ns_uri dn) | None => m0 end) in *.
  assert (I1 : InvU m1) by (unfold m1; destruct (dflt (bns (dmain dd))); [apply set_default_InvU|]; exact I0).
  destruct (add_records None ft (mkB None m1 [] []) u) as [nmain [y|e|]] eqn:EA; try discriminate.
  eapply unify_bundles_DInv; [|exact H]. split; [|constructor].
  exact (add_records_BInv None ft u (mkB None m1 [] []) nmain (OK y) I1 EA).
Qed.

(* ---- the PROV-JSON decoder *)
From Prov Require Import Jtree Json.

Lemma decode_prefixes_InvU : forall ps m m', InvU m -> decode_prefixes m ps = OK m' -> InvU m'.
Proof.
  induction ps as [|[p v] ps IH]; intros m m' I H; cbn [decode_prefixes] in H.
  - inversion H; subst. exact I.
  - destruct v as [ | | | | s| | ]; try discriminate.
    destruct (negb (uri_ok s)); [discriminate|].
    destruct (String.eqb p "default").
    + eapply IH; [|exact H]. apply set_default_InvU. exact I.
    + destruct (add_namespace m (mkNs p s)) as [[m1 n1]|] eqn:EA; [|discriminate].
      eapply IH; [|exact H]. exact (proj2 (add_namespace_uri _ _ _ _ I EA)).
Qed.

Lemma add_members_BInv : forall par ft ms b coll b' r,
  BInv b -> add_members par ft b coll ms = (b', r) -> BInv b'.
Proof.
  induction ms as [|mv ms IH]; intros b coll b' r C H; cbn [add_members] in H.
  - inversion H; subst; exact C.
  - destruct (vqn par (bns b) mv) as [q|e|]; try (inversion H; subst; exact C).
    destruct (factory_call par ft b "membership" None _ []) as [b1 [y|e|]] eqn:E.
    + eapply IH; [|exact H]. eapply factory_call_BInv; eauto.
    + inversion H; subst. eapply factory_call_BInv; eauto.
    + inversion H; subst. eapply factory_call_BInv; eauto.
Qed.

Lemma decode_elements_BInv : forall par ft kind rec_id els b b' r,
  BInv b -> decode_elements par ft b kind rec_id els = (b', r) -> BInv b'.
Proof.
  induction els as [|e els IH]; intros b b' r C H; cbn [decode_elements] in H.
  - inversion H; subst; exact C.
  - destruct e as [ | | | | | |members]; try (inversion H; subst; exact C).
    destruct (decode_element par (bns b) kind members _) as [acc|e|]; try (inversion H; subst; exact C).
    destruct (new_record par ft b kind _ _) as [b1 [y|e|]] eqn:EN;
      try (inversion H; subst; eapply new_record_BInv; eauto; fail).
    pose proof (new_record_BInv _ _ _ _ _ _ _ _ C EN) as C1.
    destruct (acc_members acc) as [|m0 ms]; [eapply IH; eauto|].
    destruct (find _ (acc_formal acc)) as [[k v]|]; [|inversion H; subst; exact C1].
    destruct (add_members par ft b1 v (m0 :: ms)) as [b2 [y2|e|]] eqn:EM.
    + eapply IH; [|exact H]. eapply add_members_BInv; eauto.
    + inversion H; subst. eapply add_members_BInv; eauto.
    + inversion H; subst. eapply add_members_BInv; eauto.
Qed.

Lemma decode_records_BInv : forall par ft kind entries b b' r,
  BInv b -> decode_records par ft b kind entries = (b', r) -> BInv b'.
Proof.
  induction entries as [|[rid content] entries IH]; intros b b' r C H; cbn [decode_records] in H.
  - inversion H; subst; exact C.
  - destruct (match content with JObj _ => Some [content] | JArr l => Some l | _ => None end) as [l|];
      [|inversion H; subst; exact C].
    destruct (decode_elements par ft b kind rid l) as [b1 [y|e|]] eqn:E.
    + eapply IH; [|exact H]. eapply decode_elements_BInv; eauto.
    + inversion H; subst. eapply decode_elements_BInv; eauto.
    + inversion H; subst. eapply decode_elements_BInv; eauto.
Qed.

Lemma decode_kinds_BInv : forall par ft jc b b' r,
  BInv b -> decode_kinds par ft b jc = (b', r) -> BInv b'.
Proof.
  induction jc as [|[lbl content] jc IH]; intros b b' r C H; cbn [decode_kinds] in H.
  - inversion H; subst; exact C.
  - destruct (kind_of_label lbl) as [kind|]; [|inversion H; subst; exact C].
    destruct (String.eqb kind "Bundle"); [inversion H; subst; exact C|].
    destruct content as [ | | | | | |entries]; try (inversion H; subst; exact C).
    destruct (decode_records par ft b kind entries) as [b1 [y|e|]] eqn:E.
    + eapply IH; [|exact H]. eapply decode_records_BInv; eauto.
    + inversion H; subst. eapply decode_records_BInv; eauto.
    + inversion H; subst. eapply decode_records_BInv; eauto.
Qed.

Lemma decode_container_BInv : forall par ft b jc b' r,
  BInv b -> decode_container par ft b jc = (b', r) -> BInv b'.
Proof.
  intros par ft b jc b' r C H. unfold decode_container in H.
  destruct (lookup "prefix" jc) as [[ | | | | | |ps]|]; try (inversion H; subst; exact C).
  - destruct (decode_prefixes (bns b) ps) as [m|e|] eqn:EP; try (inversion H; subst; exact C).
    eapply decode_kinds_BInv; [|exact H]. exact (decode_prefixes_InvU _ _ _ C EP).
  - eapply decode_kinds_BInv; eauto.
Qed.

Lemma attach_decoded_DInv : forall dd b i dd' r,
  DInv dd -> BInv b -> attach_decoded dd b i = (dd', r) -> DInv dd'.
Proof.
  intros dd b i dd' r [M B] C H. unfold attach_decoded in H.
  destruct i as [q0|]; [|inversion H; subst; split; assumption].
  destruct (resolve _ (bns b) (NQn q0)) as [[m [q|]]|e|] eqn:ER; try (inversion H; subst; split; assumption).
  pose proof (resolve_InvU _ _ _ _ _ C ER) as I1.
  destruct (mem (qn_uri q) (dbundles dd)); inversion H; subst; split; cbn; try assumption.
  apply Forall_app. split; [exact B|]. constructor; [exact I1 | constructor].
Qed.

Lemma decode_bundles_DInv : forall ft bs dd dd' r,
  DInv dd -> decode_bundles ft dd bs = (dd', r) -> DInv dd'.
Proof.
  induction bs as [|[bid_str content] bs IH]; intros dd dd' r D H; cbn [decode_bundles] in H.
  - inversion H; subst; exact D.
  - destruct content as [ | | | | | |jc]; try (inversion H; subst; exact D).
    cbv zeta in H.
    destruct (decode_container _ ft (bundle_init None) jc) as [b [y|e|]] eqn:EC;
      try (inversion H; subst; exact D).
    pose proof (decode_container_BInv _ _ _ _ _ _ (BInv_init None) EC) as Cb.
    destruct (resolve _ (bns b) (NStr bid_str)) as [[m i]|e|] eqn:ER; try (inversion H; subst; exact D).
    pose proof (resolve_InvU _ _ _ _ _ Cb ER) as I1.
    destruct (attach_decoded dd (with_ns b m) i) as [dd1 [y1|e|]] eqn:EA;
      pose proof (attach_decoded_DInv dd (with_ns b m) i dd1 _ D I1 EA) as D1.
    + eapply IH; eauto.
    + inversion H; subst. exact D1.
    + inversion H; subst. exact D1.
Qed.

Lemma decode_doc_DInv : forall ft t nd, decode_doc ft t = OK nd -> DInv nd.
Proof.
  intros ft t nd H. unfold decode_doc in H.
  destruct t as [ | | | | | |content]; try discriminate.
  destruct (match lookup "bundle" content with
            | Some (JObj bs) => Some bs | None => Some [] | _ => None end) as [bs|]; [|discriminate].
  destruct (decode_container None ft (bundle_init None) _) as [b [y|e|]] eqn:EC; try discriminate.
  pose proof (decode_container_BInv _ _ _ _ _ _ (BInv_init None) EC) as Cb.
  destruct (decode_bundles ft (mkD b []) bs) as [dd [y2|e|]] eqn:EB; inversion H; subst.
  eapply decode_bundles_DInv; [|exact EB]. split; [exact Cb | constructor].
Qed.

(* ---- worlds *)
From Prov Require Import Provn Graph Interp InterpProofs GraphProofs.

Definition WInv (w : world) : Prop := Forall DInv (wdocs w).

Lemma WInv_get_doc : forall w d dd, WInv w -> get_doc w d = Some dd -> DInv dd.
Proof. intros w d dd W G. unfold WInv in W. rewrite Forall_forall in W. apply W. eapply nth_error_In; eauto. Qed.

Lemma WInv_get_cont : forall w c b, WInv w -> get_cont w c = Some b -> BInv b.
Proof.
  intros w c b W G. destruct c as [d|d i]; cbn [get_cont] in G.
  - destruct (get_doc w d) as [dd|] eqn:E; [|discriminate]. inversion G; subst.
    apply (WInv_get_doc _ _ _ W E).
  - destruct (get_doc w d) as [dd|] eqn:E; [|discriminate].
    destruct (nth_error (dbundles dd) i) as [[k bb]|] eqn:E2; [|discriminate]. inversion G; subst.
    destruct (WInv_get_doc _ _ _ W E) as [_ F]. rewrite Forall_forall in F.
    apply (F (k, b)). eapply nth_error_In; eauto.
Qed.

Lemma WInv_set_doc : forall w d dd, WInv w -> DInv dd -> WInv (set_doc w d dd).
Proof. intros. unfold WInv, set_doc; cbn. apply Forall_set_nth; assumption. Qed.

Lemma WInv_set_cont : forall w c b, WInv w -> BInv b -> WInv (set_cont w c b).
Proof.
  intros w c b W C. unfold set_cont. destruct c as [d|d i].
  - destruct (get_doc w d) as [dd|] eqn:E; [|exact W].
    apply WInv_set_doc; [exact W|]. destruct (WInv_get_doc _ _ _ W E) as [_ F]. split; assumption.
  - destruct (get_doc w d) as [dd|] eqn:E; [|exact W].
    destruct (nth_error (dbundles dd) i) as [[k bb]|] eqn:E2; [|exact W].
    apply WInv_set_doc; [exact W|]. destruct (WInv_get_doc _ _ _ W E) as [M F].
    split; [exact M|]. apply Forall_set_nth; [exact F | exact C].
Qed.

Lemma WInv_app : forall w nd ft, WInv w -> DInv nd -> WInv (mkW (wdocs w ++ [nd])%list ft).
Proof. intros. unfold WInv; cbn. apply Forall_app. split; [assumption | constructor; [assumption|constructor]]. Qed.

Lemma DInv_main : forall b, BInv b -> DInv (mkD b []).
Proof. intros b B. split; [exact B | constructor]. Qed.

Lemma graph_to_prov_DInv : forall ft g nd, graph_to_prov ft g = OK nd -> DInv nd.
Proof.
  intros ft g nd H. unfold graph_to_prov in H.
  destruct (add_records None ft (bundle_init None) _) as [b [y|e|]] eqn:EA; try discriminate.
  inversion H; subst. apply DInv_main. exact (add_records_BInv _ _ _ _ _ _ (BInv_init None) EA).
Qed.

Lemma DInv_attach : forall dd q m recs idm, DInv dd -> InvU m ->
  DInv (mkD (dmain dd) (dbundles dd ++ [(qn_uri q, mkB (Some q) m recs idm)])%list).
Proof.
  intros dd q m recs idm [M B] I. split; [exact M|]. cbn. apply Forall_app. split; [exact B|].
  constructor; [exact I | constructor].
Qed.

Lemma add_namespace_InvU' : forall m n m' n', InvU m -> add_namespace m n = Some (m', n') -> InvU m'.
Proof. intros m n m' n' I H. exact (proj2 (add_namespace_uri _ _ _ _ I H)). Qed.

Lemma add_attributes_InvU_fail : forall c m r l m' r' e, InvU m -> add_attributes c m r l = AFail m' r' e -> InvU m'.
Proof.
  intros c m r l m' r' e I H. pose proof (add_attributes_InvU c m r l I) as X. rewrite H in X. exact X.
Qed.

Lemma add_attributes_InvU_done' : forall c m r l m' r', InvU m -> add_attributes c m r l = ADone m' r' -> InvU m'.
Proof.
  intros c m r l m' r' I H. pose proof (add_attributes_InvU c m r l I) as X. rewrite H in X. exact X.
Qed.

Ltac inv_b :=
  first
    [ assumption
    | apply BInv_init
    | exact InvU_init
    | eapply new_record_BInv; [ | eassumption ]; inv_b
    | eapply factory_call_BInv; [ | eassumption ]; inv_b
    | eapply add_record_BInv; [ | eassumption ]; inv_b
    | eapply add_records_BInv; [ | eassumption ]; inv_b
    | eapply WInv_get_cont; [ | eassumption ]; assumption
    | (unfold BInv; cbn [bns with_ns upd_rec]; inv_m) ]
with inv_m :=
  first
    [ assumption
    | exact InvU_init
    | apply set_default_InvU; inv_m
    | eapply add_namespace_InvU'; [ | eassumption ]; inv_m
    | eapply resolve_InvU; [ | eassumption ]; inv_m
    | eapply add_attributes_InvU_done'; [ | eassumption ]; inv_m
    | eapply add_attributes_InvU_fail; [ | eassumption ]; inv_m
    | eapply add_namespaces_InvU; [ | eassumption ]; inv_m
    | match goal with
      | |- InvU (bns ?b) => change (BInv b); inv_b
      end ].

Ltac inv_w :=
  match goal with
  | |- WInv (set_cont _ _ _) => apply WInv_set_cont; [ inv_w | inv_b ]
  | |- WInv (set_doc _ _ _) => apply WInv_set_doc; [ inv_w | inv_d ]
  | |- WInv (mkW (_ ++ [_])%list _) => apply WInv_app; [ inv_w | inv_d ]
  | |- WInv _ => assumption
  end
with inv_d :=
  first
    [ assumption
    | apply DInv_init
    | apply DInv_main; inv_b
    | eapply doc_new_bundle_DInv; [ | eassumption ]; inv_d
    | eapply merge_bundles_DInv; [ | eassumption ]; inv_d
    | eapply doc_unified_DInv; eassumption
    | eapply graph_to_prov_DInv; eassumption
    | eapply decode_doc_DInv; eassumption
    | apply DInv_attach; [ inv_d | inv_m ]
    | eapply WInv_get_doc; [ | eassumption ]; inv_w ].

Ltac inv_step :=
  repeat (match goal with
          | |- context [match ?x with _ => _ end] => destruct x eqn:?
          | |- context [if ?x then _ else _] => destruct x eqn:?
          end; cbn [fst snd]);
  try inv_w.

Theorem step_WInv : forall w o, WInv w -> WInv (fst (step w o)).
Proof.
  intros w o W.
  destruct o as [ |c p u|c u|c x|t x|c k i attrs|c f i args other|[c i] attrs|[c i] s e|[c i] v
                 |c r|c o|t src x order|t|t|c|c x|c cls|a b|a b|t|jt|t|t|t| ];
    cbn [step]; unfold with_cont; cbn [fst snd].
  all: inv_step.
Qed.

Theorem reachable_WInv : forall ft ops, WInv (wrun ft ops).
Proof.
  intros ft ops. unfold wrun.
  assert (G : forall w, WInv w -> WInv (fold_left (fun w o => fst (step w o)) ops w)).
  { induction ops as [|o ops IH]; intros w W; [exact W|]. cbn [fold_left]. apply IH. apply step_WInv. exact W. }
  apply G. constructor.
Qed.

(* every container of every reachable world has a URI-consistent namespace manager *)
Corollary reachable_container_InvU : forall ft ops c b,
  get_cont (wrun ft ops) c = Some b -> InvU (bns b).
Proof. intros ft ops c b H. exact (WInv_get_cont _ _ _ (reachable_WInv ft ops) H). Qed.
