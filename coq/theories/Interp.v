(* Interp.v — API programs: operations, their meaning on worlds, wire format. *)
From Coq Require Import String Ascii List Bool Arith ZArith.
From Prov Require Import Str Sexp Tables Nsm Scope Values Record World Jtree Json Provn.
From Prov Require Export Derive Graph.
Import ListNotations.
Open Scope string_scope.

(* a value argument may refer to a record object of the world *)
Inductive warg : Type :=
| WA (a : valarg)
| WRec (r : rref).

Inductive op : Type :=
| ONewDoc
| OAddNs (c : cref) (p u : string)
| OSetDefault (c : cref) (u : string)
| OResolve (c : cref) (x : namearg)
| ONewBundle (d : nat) (x : option namearg)
| ONewRecord (c : cref) (k : string) (i : option namearg) (attrs : list (namearg * warg))
| OFactory (c : cref) (f : string) (i : option namearg) (args : list (string * warg))
           (other : list (namearg * warg))
| OAddAttrs (r : rref) (attrs : list (namearg * warg))
| OSetTime (r : rref) (s e : valarg)
| OAddType (r : rref) (v : warg)
| OAddRecord (c : cref) (r : rref)
| OUpdate (c : cref) (o : cref)
| OAddBundleDoc (d : nat) (src : nat) (x : option namearg) (nsorder : list string)
| OFlattened (d : nat)
| OUnified (d : nat)
| ODocFromRecords (c : cref)
| OGetRecord (c : cref) (x : option namearg)
| OGetRecords (c : cref) (cls : option string)
| OEq (a b : cref)
| OEqRec (a b : rref)
| OExportJson (d : nat)
| OLoadJson (t : jv)
| OExportProvn (d : nat)
| OToGraph (d : nat)
| OGraphRoundTrip (d : nat)
| OObserveAll.

(* result of a step *)
Inductive res : Type :=
| RUnit
| RHandle (d : nat)
| RNs (n : ns)
| RQn (q : option qname)
| RRec (r : prec)
| RRecs (l : list prec)
| RBool (b : bool)
| RDump (s : sexp)
| RRaise (e : exc)
| RBad                 (* dangling handle: generator error *)
| ROOD.

Definition resolve_warg (w : world) (a : warg) : option valarg :=
  match a with
  | WA x => Some x
  | WRec r => match get_rec w r with
              | Some p => Some (ARecId (rid p))
              | None => None
              end
  end.
Fixpoint resolve_wargs {K} (w : world) (l : list (K * warg)) : option (list (K * valarg)) :=
  match l with
  | [] => Some []
  | (k, a) :: r =>
      match resolve_warg w a, resolve_wargs w r with
      | Some x, Some r' => Some ((k, x) :: r')
      | _, _ => None
      end
  end.

Definition of_result {T} (f : T -> res) (r : result T) : res :=
  match r with OK x => f x | Raise e => RRaise e | OutOfDomain => ROOD end.

Definition is_doc_ref (c : cref) : bool := match c with CDoc _ => true | CBun _ _ => false end.

(* ---- dumps ---- *)
Definition sx_dict (d : list (string * ns)) : sexp :=
  L (map (fun kv => L [A (fst kv); sx_ns (snd kv)]) d).
Definition sx_nsm (m : nsm) : sexp :=
  L [A "mgr";
     L [A "tbl"; sx_dict (tbl m)];
     L [A "regd"; sx_dict (regd m)];
     L [A "dflt"; match dflt m with Some d => sx_ns d | None => A "none" end];
     L [A "urimap"; sx_dict (urimap m)];
     L [A "renmap"; L (map (fun kv => L [sx_ns (fst kv); sx_ns (snd kv)]) (renmap m))];
     L [A "prenmap"; sx_dict (prenmap m)]].
Definition sx_nat (n : nat) : sexp := A (str_of_nat n).
Definition sx_bundle (b : bundle) : sexp :=
  L [A "cont"; sx_opt sx_qn (bid b); sx_nsm (bns b); L (map sx_rec (brecs b));
     L (map (fun kv => L [A (fst kv); L (map sx_nat (snd kv))])
            (filter (fun kv => match snd kv with [] => false | _ => true end) (bidmap b)))].
Definition sx_doc (dd : doc) : sexp :=
  L [A "doc"; sx_bundle (dmain dd);
     L (map (fun kb => L [A (fst kb); sx_bundle (snd kb)]) (dbundles dd))].
Definition sx_world (w : world) : sexp := L (map sx_doc (wdocs w)).

Definition sx_res (r : res) : sexp :=
  match r with
  | RUnit => A "unit"
  | RHandle d => L [A "handle"; sx_nat d]
  | RNs n => sx_ns n
  | RQn (Some q) => sx_qn q
  | RQn None => A "none"
  | RRec r => sx_rec r
  | RRecs l => L (A "recs" :: map sx_rec l)
  | RBool b => A (if b then "true" else "false")
  | RDump s => s
  | RRaise e => L [A "raise"; A (exc_name e)]
  | RBad => A "bad-handle"
  | ROOD => A "out-of-domain"
  end.

(* ---- the step function ---- *)
Definition with_cont (w : world) (c : cref) (f : bundle -> option nsm -> world * res) : world * res :=
  match get_cont w c with
  | Some b => f b (parent_ns w c)
  | None => (w, RBad)
  end.

Definition step (w : world) (o : op) : world * res :=
  let ft := wft w in
  match o with
  | ONewDoc => (mkW (wdocs w ++ [doc_init])%list ft, RHandle (length (wdocs w)))
  | OAddNs c p u =>
      with_cont w c (fun b par =>
        if uri_ok u then
          match add_namespace (bns b) (mkNs p u) with
          | Some (m, n) => (set_cont w c (with_ns b m), RNs n)
          | None => (w, ROOD)
          end
        else (w, RRaise EValue))
  | OSetDefault c u =>
      with_cont w c (fun b par =>
        if uri_ok u then (set_cont w c (with_ns b (set_default (bns b) u)), RUnit)
        else (w, RRaise EValue))
  | OResolve c x =>
      with_cont w c (fun b par =>
        match resolve par (bns b) x with
        | OK (m, r) => (set_cont w c (with_ns b m), RQn r)
        | Raise e => (w, RRaise e)
        | OutOfDomain => (w, ROOD)
        end)
  | ONewBundle d x =>
      match get_doc w d with
      | None => (w, RBad)
      | Some dd => let '(dd', r) := doc_new_bundle dd x ft in
                   (set_doc w d dd', of_result (fun _ => RUnit) r)
      end
  | ONewRecord c k i attrs =>
      with_cont w c (fun b par =>
        match resolve_wargs w attrs with
        | None => (w, RBad)
        | Some l => let '(b', r) := new_record par ft b k i l in
                    (set_cont w c b', of_result RRec r)
        end)
  | OFactory c f i args other =>
      with_cont w c (fun b par =>
        match resolve_wargs w args, resolve_wargs w other with
        | Some a, Some ot => let '(b', r) := factory_call par ft b f i a ot in
                             (set_cont w c b', of_result RRec r)
        | _, _ => (w, RBad)
        end)
  | OAddAttrs (RRef c i) attrs =>
      with_cont w c (fun b par =>
        match nth_error (brecs b) i, resolve_wargs w attrs with
        | Some r, Some l =>
            match add_attributes (mkCtx par ft) (bns b) r l with
            | ADone m r' => (set_cont w c (upd_rec b i m r'), RRec r')
            | AFail m r' e => (set_cont w c (upd_rec b i m r'), RRaise e)
            | AOOD => (w, ROOD)
            end
        | _, _ => (w, RBad)
        end)
  | OSetTime (RRef c i) s e =>
      with_cont w c (fun b par =>
        match nth_error (brecs b) i with
        | Some r =>
            if negb (String.eqb (rkind r) "Activity") then (w, RRaise EAttribute) else
            match ensure_datetime (bns b) s with
            | OOD => (w, ROOD)
            | Fail _ e1 => (w, RRaise e1)
            | Done _ sv =>
                let d1 := match sv with
                          | Some v => attr_put (prov_qn "startTime") [v] (rattrs r)
                          | None => rattrs r
                          end in
                match ensure_datetime (bns b) e with
                | OOD => (w, ROOD)
                | Fail _ e2 =>
                    let r1 := mkRec (rkind r) (rid r) d1 in
                    (set_cont w c (upd_rec b i (bns b) r1), RRaise e2)
                | Done _ ev =>
                    let d2 := match ev with
                              | Some v => attr_put (prov_qn "endTime") [v] d1
                              | None => d1
                              end in
                    let r2 := mkRec (rkind r) (rid r) d2 in
                    (set_cont w c (upd_rec b i (bns b) r2), RRec r2)
                end
            end
        | None => (w, RBad)
        end)
  | OAddType (RRef c i) v =>
      with_cont w c (fun b par =>
        match nth_error (brecs b) i, resolve_warg w v with
        | Some r, Some a =>
            match add_attributes (mkCtx par ft) (bns b) r [(NQn (prov_qn "type"), a)] with
            | ADone m r' => (set_cont w c (upd_rec b i m r'), RRec r')
            | AFail m r' e => (set_cont w c (upd_rec b i m r'), RRaise e)
            | AOOD => (w, ROOD)
            end
        | _, _ => (w, RBad)
        end)
  | OAddRecord c r =>
      with_cont w c (fun b par =>
        match get_rec w r with
        | Some p => let '(b', x) := add_record par ft b p in
                    (set_cont w c b', of_result RRec x)
        | None => (w, RBad)
        end)
  | OUpdate c o =>
      match get_cont w c, get_cont w o with
      | Some b, Some ob =>
          match c with
          | CBun _ _ =>
              (* ProvBundle.update *)
              if has_bundles w o then (w, RRaise EProv)
              else let '(b', x) := add_records (parent_ns w c) ft b (brecs ob) in
                   (set_cont w c b', of_result (fun _ => RUnit) x)
          | CDoc d =>
              (* ProvDocument.update *)
              match add_records None ft b (brecs ob) with
              | (b', OK _) =>
                  let w1 := set_cont w c b' in
                  match o, get_doc w1 d with
                  | CDoc od, Some dd =>
                      match get_doc w od with
                      | Some odoc =>
                          let '(dd', x) := merge_bundles ft dd (dbundles odoc) in
                          (set_doc w1 d dd', of_result (fun _ => RUnit) x)
                      | None => (w, RBad)
                      end
                  | _, _ => (w1, RUnit)
                  end
              | (b', Raise e) => (set_cont w c b', RRaise e)
              | (b', OutOfDomain) => (w, ROOD)
              end
          end
      | _, _ => (w, RBad)
      end
  | OAddBundleDoc d src x nsorder =>
      match get_doc w d, get_doc w src with
      | Some dd, Some sd =>
          match dbundles sd with
          | _ :: _ => (w, RRaise EProv)
          | [] =>
              (* new_bundle = ProvBundle(namespaces=bundle.namespaces); registration order
                 is the iteration order of a Python set: supplied by the harness *)
              let regs := regd (bns (dmain sd)) in
              let ordered := flat_map (fun p => match lookup p regs with Some n => [n] | None => [] end) nsorder in
              if negb (Nat.eqb (length ordered) (length regs)) then (w, RBad) else
              match add_namespaces nsm_init ordered with
              | None => (w, ROOD)
              | Some m0 =>
                  match add_records None ft (mkB None m0 [] []) (brecs (dmain sd)) with
                  | (nb, OK _) =>
                      match x with
                      | None => (w, RRaise EProv)
                      | Some n =>
                          match resolve (Some (bns (dmain dd))) (bns nb) n with
                          | OK (m, Some q) =>
                              if mem (qn_uri q) (dbundles dd) then (w, RRaise EProv)
                              else (set_doc w d (mkD (dmain dd)
                                      (dbundles dd ++ [(qn_uri q, mkB (Some q) m (brecs nb) (bidmap nb))])%list),
                                    RUnit)
                          | OK (_, None) => (w, RRaise EProv)     (* identifier not valid (as repaired) *)
                          | Raise e => (w, RRaise e)
                          | OutOfDomain => (w, ROOD)
                          end
                      end
                  | (_, Raise e) => (w, RRaise e)
                  | (_, OutOfDomain) => (w, ROOD)
                  end
              end
          end
      | _, _ => (w, RBad)
      end
  | OFlattened d =>
      match get_doc w d with
      | None => (w, RBad)
      | Some dd =>
          match dbundles dd with
          | [] => (w, RHandle d)
          | bs =>
              let all := (brecs (dmain dd) ++ flat_map (fun kb => brecs (snd kb)) bs)%list in
              match add_records None ft (bundle_init None) all with
              | (nb, OK _) => (mkW (wdocs w ++ [mkD nb []])%list ft, RHandle (length (wdocs w)))
              | (_, Raise e) => (w, RRaise e)
              | (_, OutOfDomain) => (w, ROOD)
              end
          end
      end
  | OUnified d =>
      match get_doc w d with
      | None => (w, RBad)
      | Some dd =>
          match doc_unified ft dd with
          | OK nd => (mkW (wdocs w ++ [nd])%list ft, RHandle (length (wdocs w)))
          | Raise e => (w, RRaise e)
          | OutOfDomain => (w, ROOD)
          end
      end
  | ODocFromRecords c =>
      with_cont w c (fun b par =>
        match add_records None ft (bundle_init None) (brecs b) with
        | (nb, OK _) => (mkW (wdocs w ++ [mkD nb []])%list ft, RHandle (length (wdocs w)))
        | (_, Raise e) => (w, RRaise e)
        | (_, OutOfDomain) => (w, ROOD)
        end)
  | OGetRecord c x =>
      with_cont w c (fun b par =>
        match x with
        | None => (w, RRecs [])
        | Some n =>
            match resolve par (bns b) n with
            | OK (m, q) =>
                let b' := with_ns b m in
                let idxs := match q with
                            | Some q' => match lookup (qn_uri q') (bidmap b) with Some l => l | None => [] end
                            | None => []
                            end in
                (set_cont w c b',
                 RRecs (flat_map (fun i => match nth_error (brecs b) i with Some r => [r] | None => [] end) idxs))
            | Raise e => (w, RRaise e)
            | OutOfDomain => (w, ROOD)
            end
        end)
  | OGetRecords c cls =>
      with_cont w c (fun b par =>
        (w, RRecs (match cls with
                   | None => brecs b
                   | Some cn => filter (instance_of cn) (brecs b)
                   end)))
  | OEq a b =>
      match a, b with
      | CDoc x, CDoc y =>
          match get_doc w x, get_doc w y with
          | Some dx, Some dy => (w, RBool (doc_eqb dx dy))
          | _, _ => (w, RBad)
          end
      | CBun _ _, CBun _ _ =>
          match get_cont w a, get_cont w b with
          | Some bx, Some by_ => (w, RBool (bundle_eqb bx by_))
          | _, _ => (w, RBad)
          end
      | _, _ =>
          match get_cont w a, get_cont w b with
          | Some _, Some _ => (w, RBool false)
          | _, _ => (w, RBad)
          end
      end
  | OEqRec a b =>
      match get_rec w a, get_rec w b with
      | Some x, Some y => (w, RBool (rec_eqb x y))
      | _, _ => (w, RBad)
      end
  | OExportJson d =>
      match get_doc w d with
      | Some dd => (w, RDump (sx_jv (encode_doc dd)))
      | None => (w, RBad)
      end
  | OLoadJson t =>
      match decode_doc ft t with
      | OK nd => (mkW (wdocs w ++ [nd])%list ft, RHandle (length (wdocs w)))
      | Raise e => (w, RRaise e)
      | OutOfDomain => (w, ROOD)
      end
  | OExportProvn d =>
      match get_doc w d with
      | Some dd => (w, RDump (L [A "text"; A (doc_provn dd)]))
      | None => (w, RBad)
      end
  | OToGraph d =>
      match get_doc w d with
      | Some dd => match prov_to_graph ft dd with
                   | OK g => (w, RDump (sx_graph g))
                   | Raise e => (w, RRaise e)
                   | OutOfDomain => (w, ROOD)
                   end
      | None => (w, RBad)
      end
  | OGraphRoundTrip d =>
      match get_doc w d with
      | Some dd =>
          match prov_to_graph ft dd with
          | OK g => match graph_to_prov ft g with
                    | OK nd => (mkW (wdocs w ++ [nd])%list ft, RHandle (length (wdocs w)))
                    | Raise e => (w, RRaise e)
                    | OutOfDomain => (w, ROOD)
                    end
          | Raise e => (w, RRaise e)
          | OutOfDomain => (w, ROOD)
          end
      | None => (w, RBad)
      end
  | OObserveAll => (w, RDump (sx_world w))
  end.

(* ---- parsing programs ---- *)
Definition px_nat (x : sexp) : option nat := match x with A s => parse_nat s | _ => None end.
Definition px_cref (x : sexp) : option cref :=
  match x with
  | L [A "d"; n] => option_map CDoc (px_nat n)
  | L [A "b"; n; i] => match px_nat n, px_nat i with
                       | Some n', Some i' => Some (CBun n' i')
                       | _, _ => None
                       end
  | _ => None
  end.
Definition px_rref (x : sexp) : option rref :=
  match x with
  | L [A "r"; c; i] => match px_cref c, px_nat i with
                       | Some c', Some i' => Some (RRef c' i')
                       | _, _ => None
                       end
  | _ => None
  end.
Definition px_valarg (x : sexp) : option valarg :=
  match x with
  | L [A "str"; A s] => Some (AStr s)
  | L [A "int"; z] => option_map AInt (px_Z z)
  | L [A "float"; A r; iv; A g] => match px_optZ iv with Some i => Some (AFloat r i g) | None => None end
  | L [A "bool"; A "true"] => Some (ABool true)
  | L [A "bool"; A "false"] => Some (ABool false)
  | L (A "time" :: _) => option_map ATime (px_time x)
  | L [A "id"; A u] => Some (AId u)
  | L [A "qn"; _; _; _] => option_map AQn (px_qn x)
  | L [A "lit"; A l; d; g] =>
      match px_optqn d, px_optstr g with
      | Some d', Some g' => Some (ALit l d' g')
      | _, _ => None
      end
  | A "none" => Some ANone
  | _ => None
  end.
Definition px_warg (x : sexp) : option warg :=
  match x with
  | L [A "rec"; r] => option_map WRec (px_rref r)
  | _ => option_map WA (px_valarg x)
  end.
Definition px_optname (x : sexp) : option (option namearg) :=
  match x with
  | A "none" => Some None
  | _ => option_map Some (px_namearg x)
  end.
Fixpoint px_list {T} (f : sexp -> option T) (l : list sexp) : option (list T) :=
  match l with
  | [] => Some []
  | x :: r => match f x, px_list f r with
              | Some a, Some b => Some (a :: b)
              | _, _ => None
              end
  end.
Definition px_attr (x : sexp) : option (namearg * warg) :=
  match x with
  | L [n; v] => match px_namearg n, px_warg v with
                | Some n', Some v' => Some (n', v')
                | _, _ => None
                end
  | _ => None
  end.
Definition px_param (x : sexp) : option (string * warg) :=
  match x with
  | L [A p; v] => option_map (fun v' => (p, v')) (px_warg v)
  | _ => None
  end.
Definition px_str (x : sexp) : option string := match x with A s => Some s | _ => None end.

(* an element convenience method (entity.wasGeneratedBy(...)) is one call of a factory of the element's own
   bundle with the element as first argument: rewritten into that Factory call with the generated table *)
Definition desugar_elem_method (x : sexp) : sexp :=
  match x with
  | L [A "ElemMethod"; L [A "r"; c; i]; A meth; L args; other] =>
      match find (fun e => String.eqb (snd (fst (fst (fst (fst e))))) meth) element_methods with
      | Some (_, _, fac, selfp, pairs, has_attrs) =>
          let ren (a : sexp) : sexp :=
            match a with
            | L [A mp; v] => match lookup mp pairs with Some fp => L [A fp; v] | None => L [A ("?" ++ mp); v] end
            | y => y
            end in
          L [A "Factory"; c; A fac; A "none";
             L (L [A selfp; L [A "rec"; L [A "r"; c; i]]] :: map ren args);
             if has_attrs then other else L []]
      | None => x
      end
  | _ => x
  end.

Definition px_op_core (x : sexp) : option op :=
  match x with
  | L [A "NewDoc"] => Some ONewDoc
  | L [A "AddNs"; c; A p; A u] => option_map (fun c' => OAddNs c' p u) (px_cref c)
  | L [A "SetDefault"; c; A u] => option_map (fun c' => OSetDefault c' u) (px_cref c)
  | L [A "Resolve"; c; n] =>
      match px_cref c, px_namearg n with
      | Some c', Some n' => Some (OResolve c' n') | _, _ => None end
  | L [A "NewBundle"; d; n] =>
      match px_nat d, px_optname n with
      | Some d', Some n' => Some (ONewBundle d' n') | _, _ => None end
  | L [A "NewRecord"; c; A k; i; L attrs] =>
      match px_cref c, px_optname i, px_list px_attr attrs with
      | Some c', Some i', Some a' => Some (ONewRecord c' k i' a') | _, _, _ => None end
  | L [A "Factory"; c; A f; i; L args; L other] =>
      match px_cref c, px_optname i, px_list px_param args, px_list px_attr other with
      | Some c', Some i', Some a', Some o' => Some (OFactory c' f i' a' o') | _, _, _, _ => None end
  | L [A "AddAttrs"; r; L attrs] =>
      match px_rref r, px_list px_attr attrs with
      | Some r', Some a' => Some (OAddAttrs r' a') | _, _ => None end
  | L [A "SetTime"; r; s; e] =>
      match px_rref r, px_valarg s, px_valarg e with
      | Some r', Some s', Some e' => Some (OSetTime r' s' e') | _, _, _ => None end
  | L [A "AddType"; r; v] =>
      match px_rref r, px_warg v with
      | Some r', Some v' => Some (OAddType r' v') | _, _ => None end
  | L [A "AddRecord"; c; r] =>
      match px_cref c, px_rref r with
      | Some c', Some r' => Some (OAddRecord c' r') | _, _ => None end
  | L [A "Update"; c; o] =>
      match px_cref c, px_cref o with
      | Some c', Some o' => Some (OUpdate c' o') | _, _ => None end
  | L [A "AddBundleDoc"; d; s; n; L order] =>
      match px_nat d, px_nat s, px_optname n, px_list px_str order with
      | Some d', Some s', Some n', Some o' => Some (OAddBundleDoc d' s' n' o') | _, _, _, _ => None end
  | L [A "Flattened"; d] => option_map OFlattened (px_nat d)
  | L [A "Unified"; d] => option_map OUnified (px_nat d)
  | L [A "DocFromRecords"; c] => option_map ODocFromRecords (px_cref c)
  | L [A "GetRecord"; c; n] =>
      match px_cref c, px_optname n with
      | Some c', Some n' => Some (OGetRecord c' n') | _, _ => None end
  | L [A "GetRecords"; c; A "none"] => option_map (fun c' => OGetRecords c' None) (px_cref c)
  | L [A "GetRecords"; c; L [A "cls"; A cn]] => option_map (fun c' => OGetRecords c' (Some cn)) (px_cref c)
  | L [A "Eq"; a; b] =>
      match px_cref a, px_cref b with
      | Some a', Some b' => Some (OEq a' b') | _, _ => None end
  | L [A "EqRec"; a; b] =>
      match px_rref a, px_rref b with
      | Some a', Some b' => Some (OEqRec a' b') | _, _ => None end
  | L [A "ExportJson"; d] => option_map OExportJson (px_nat d)
  | L [A "LoadJson"; t] => option_map OLoadJson (px_jv 64 t)
  | L [A "ExportProvn"; d] => option_map OExportProvn (px_nat d)
  | L [A "ToGraph"; d] => option_map OToGraph (px_nat d)
  | L [A "GraphRoundTrip"; d] => option_map OGraphRoundTrip (px_nat d)
  | L [A "ObserveAll"] => Some OObserveAll
  | _ => None
  end.

(* float oracle table: ((lex (r iv g)) | (lex none)) ... *)
Definition px_op (x : sexp) : option op := px_op_core (desugar_elem_method x).

Definition px_fentry (x : sexp) : option (string * option (string * option Z * string)) :=
  match x with
  | L [A lex; A "none"] => Some (lex, None)
  | L [A lex; L [A r; iv; A g]] =>
      match px_optZ iv with Some i => Some (lex, Some (r, i, g)) | None => None end
  | _ => None
  end.

Fixpoint run_ops (w : world) (ops : list sexp) : list sexp :=
  match ops with
  | [] => []
  | o :: r =>
      match px_op o with
      | None => [L [A "parse-error"; o]]
      | Some p => let '(w', x) := step w p in sx_res x :: run_ops w' r
      end
  end.

(* request: ("prog" (ftable ...) op op ...) *)
Definition run_prog (ft : list sexp) (ops : list sexp) : sexp :=
  match px_list px_fentry ft with
  | Some t => L (run_ops (mkW [] t) ops)
  | None => A "bad-float-table"
  end.
