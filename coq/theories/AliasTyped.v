(* AliasTyped.v — the pointers of the object graph (Alias.v) lead where the Python code takes them to lead:
   a bundle's manager pointer to a manager; every record a bundle lists was made for that very bundle (its _bundle);
   every bundle a document lists is a plain bundle whose manager's parent is the document's manager; handles are
   documents.  Typed holds after any sequence of calls (arun_typed).  With it: add_attributes on a record writes the
   manager of the container that lists it, and changing a copy of a record leaves the source record as it was. *)
From Coq Require Import List Arith Bool Lia.
From Prov Require Import Alias AliasProofs.
Import ListNotations.

Definition mgr_at (w : aworld) (l : loc) (p : option loc) : Prop := exists v, aget w l = Some (OMgr p v).
Definition rec_at (w : aworld) (l b : loc) : Prop := exists v, aget w l = Some (ORec b v).
Definition sub_at (w : aworld) (l m : loc) : Prop := exists rs, aget w l = Some (OBun false m rs []).

Record Typed (w : aworld) : Prop := mkTyped {
  ty_docs : forall d, In d (adocs w) -> exists ns rs ss, aget w d = Some (OBun true ns rs ss);
  ty_ns : forall b k ns rs ss, aget w b = Some (OBun k ns rs ss) -> exists p, mgr_at w ns p;
  ty_recs : forall b k ns rs ss r, aget w b = Some (OBun k ns rs ss) -> In r rs -> rec_at w r b;
  ty_subs : forall b k ns rs ss s, aget w b = Some (OBun k ns rs ss) -> In s ss ->
            exists m, sub_at w s m /\ mgr_at w m (Some ns) }.

(* the three facts survive a change of the store *)
Definition Pres (w w' : aworld) : Prop :=
  (forall l p, mgr_at w l p -> mgr_at w' l p) /\ (forall l b, rec_at w l b -> rec_at w' l b) /\
  (forall l m, sub_at w l m -> sub_at w' l m).

Lemma pres_alloc : forall w os t, Pres w (alloc w os t).
Proof.
  intros w os t. repeat split; intros l x [y H]; exists y; (rewrite aget_alloc_old; [exact H | eapply aget_lt; exact H]).
Qed.

Lemma pres_bump : forall w l, Pres w (bump l w).
Proof.
  intros w l. unfold bump. destruct (aget w l) as [o|] eqn:G; [|repeat split; auto].
  repeat split; intros l' x [y H]; unfold mgr_at, rec_at, sub_at; rewrite aget_write;
    (destruct (Nat.eqb_spec l l') as [->|_]; [|exists y; exact H]); rewrite G; rewrite G in H; injection H as ->; cbn; eauto.
Qed.

Lemma pres_write_bundle : forall w b k ns rs ss rs', aget w b = Some (OBun k ns rs ss) ->
  Pres w (awrite w b (OBun k ns rs' ss)).
Proof.
  intros w b k ns rs ss rs' G.
  repeat split; intros l' x [y H]; unfold mgr_at, rec_at, sub_at; rewrite aget_write;
    (destruct (Nat.eqb_spec b l') as [->|_]; [|exists y; exact H]); rewrite G; rewrite G in H; try discriminate.
  injection H as -> -> _ ->. exists rs'. reflexivity.
Qed.

Lemma pres_write_doc : forall w d ns rs ss ss', aget w d = Some (OBun true ns rs ss) ->
  Pres w (awrite w d (OBun true ns rs ss')).
Proof.
  intros w d ns rs ss ss' G.
  repeat split; intros l' x [y H]; unfold mgr_at, rec_at, sub_at; rewrite aget_write;
    (destruct (Nat.eqb_spec d l') as [->|_]; [|exists y; exact H]); rewrite G in H; discriminate.
Qed.

Lemma aget_alloc_new0 : forall w os t, aget (alloc w os t) (anext w) = nth_error os 0.
Proof. intros. pose proof (aget_alloc_new w os t 0) as H. rewrite Nat.add_0_r in H. exact H. Qed.
Lemma aget_alloc_new1 : forall w os t, aget (alloc w os t) (S (anext w)) = nth_error os 1.
Proof. intros. pose proof (aget_alloc_new w os t 1) as H. rewrite Nat.add_1_r in H. exact H. Qed.

(* ------------------------------------------------------------------ the primitives *)
Lemma typed_of_pres : forall w w', Typed w -> Pres w w' -> adocs w' = adocs w ->
  (forall b k ns rs ss, aget w' b = Some (OBun k ns rs ss) -> aget w b = Some (OBun k ns rs ss)) ->
  (forall d ns rs ss, aget w d = Some (OBun true ns rs ss) -> exists ns' rs' ss', aget w' d = Some (OBun true ns' rs' ss')) ->
  Typed w'.
Proof.
  intros w w' T [P1 [P2 P3]] D B K. split.
  - intros d Hd. rewrite D in Hd. destruct (ty_docs _ T d Hd) as [ns [rs [ss G]]]. eapply K; exact G.
  - intros b k ns rs ss G. destruct (ty_ns _ T _ _ _ _ _ (B _ _ _ _ _ G)) as [p H]. exists p. apply P1; exact H.
  - intros b k ns rs ss r G Hr. apply P2. eapply ty_recs; [exact T | exact (B _ _ _ _ _ G) | exact Hr].
  - intros b k ns rs ss s G Hs. destruct (ty_subs _ T _ _ _ _ _ s (B _ _ _ _ _ G) Hs) as [m [H1 H2]].
    exists m. split; [apply P3; exact H1 | apply P1; exact H2].
Qed.

Lemma typed_bump : forall w l, Typed w -> Typed (bump l w).
Proof.
  intros w l T. apply (typed_of_pres w); [exact T | apply pres_bump | unfold bump; destruct (aget w l); reflexivity | |].
  - intros b k ns rs ss G. unfold bump in G. destruct (aget w l) as [o|] eqn:Go; [|exact G].
    rewrite aget_write in G. destruct (Nat.eqb_spec l b) as [->|_]; [|exact G].
    rewrite Go in G. injection G as G. rewrite Go. destruct o; cbn in G; try discriminate. rewrite G. reflexivity.
  - intros d ns rs ss G. unfold bump. destruct (aget w l) as [o|] eqn:Go; [|eauto].
    rewrite aget_write. destruct (Nat.eqb_spec l d) as [->|_]; [|eauto].
    rewrite Go. rewrite Go in G. injection G as ->. cbn. eauto.
Qed.

Lemma is_bundle_old : forall w os t b k ns rs ss,
  (forall o, In o os -> match o with OBun _ _ _ _ => False | _ => True end) ->
  aget (alloc w os t) b = Some (OBun k ns rs ss) -> aget w b = Some (OBun k ns rs ss).
Proof.
  intros w os t b k ns rs ss NB G. destruct (Nat.lt_ge_cases b (length (aheap w))) as [L|L].
  - rewrite aget_alloc_old in G by assumption. exact G.
  - replace b with (anext w + (b - length (aheap w))) in G by (unfold anext; lia). rewrite aget_alloc_new in G.
    exfalso. apply (NB _ (nth_error_In _ _ G)).
Qed.

Lemma typed_alloc_plain : forall w os t, Typed w ->
  (forall o, In o os -> match o with OBun _ _ _ _ => False | _ => True end) -> Typed (alloc w os t).
Proof.
  intros w os t T NB. apply (typed_of_pres w); [exact T | apply pres_alloc | reflexivity | |].
  - intros b k ns rs ss G. eapply is_bundle_old; eassumption.
  - intros d ns rs ss G. exists ns, rs, ss. rewrite aget_alloc_old; [exact G | eapply aget_lt; exact G].
Qed.

(* overwriting a bundle with the same bundle holding other records, all made for it *)
Lemma typed_write_bundle : forall w b k ns rs ss rs', Typed w -> aget w b = Some (OBun k ns rs ss) ->
  (forall r, In r rs' -> rec_at w r b) -> Typed (awrite w b (OBun k ns rs' ss)).
Proof.
  intros w b k ns rs ss rs' T G R. destruct (pres_write_bundle w b k ns rs ss rs' G) as [P1 [P2 P3]]. split.
  - intros d Hd. change (In d (adocs w)) in Hd. destruct (ty_docs _ T d Hd) as [ns0 [rs0 [ss0 G0]]].
    rewrite aget_write. destruct (Nat.eqb_spec b d) as [->|_]; [|eauto].
    rewrite G. rewrite G in G0. injection G0 as -> _ _ _. eauto.
  - intros b' k' ns' rs0 ss' G'. rewrite aget_write in G'. destruct (Nat.eqb_spec b b') as [->|_].
    + rewrite G in G'. injection G' as <- <- <- <-. destruct (ty_ns _ T _ _ _ _ _ G) as [p H]. exists p. apply P1; exact H.
    + destruct (ty_ns _ T _ _ _ _ _ G') as [p H]. exists p. apply P1; exact H.
  - intros b' k' ns' rs0 ss' r G' Hr. rewrite aget_write in G'. destruct (Nat.eqb_spec b b') as [->|_].
    + rewrite G in G'. injection G' as <- <- <- <-. apply P2, R, Hr.
    + apply P2. eapply ty_recs; eassumption.
  - intros b' k' ns' rs0 ss' s G' Hs. rewrite aget_write in G'. destruct (Nat.eqb_spec b b') as [->|_].
    + rewrite G in G'. injection G' as <- <- <- <-. destruct (ty_subs _ T _ _ _ _ _ s G Hs) as [m [H1 H2]].
      exists m. split; [apply P3; exact H1 | apply P1; exact H2].
    + destruct (ty_subs _ T _ _ _ _ _ s G' Hs) as [m [H1 H2]]. exists m. split; [apply P3; exact H1 | apply P1; exact H2].
Qed.

(* overwriting a document with the same document listing other bundles, all plain and parented by its manager *)
Lemma typed_write_doc : forall w d ns rs ss ss', Typed w -> aget w d = Some (OBun true ns rs ss) ->
  (forall s, In s ss' -> exists m, sub_at w s m /\ mgr_at w m (Some ns)) -> Typed (awrite w d (OBun true ns rs ss')).
Proof.
  intros w d ns rs ss ss' T G R. destruct (pres_write_doc w d ns rs ss ss' G) as [P1 [P2 P3]]. split.
  - intros x Hx. change (In x (adocs w)) in Hx. destruct (ty_docs _ T x Hx) as [ns0 [rs0 [ss0 G0]]].
    rewrite aget_write. destruct (Nat.eqb_spec d x) as [->|_]; [rewrite G; eauto | eauto].
  - intros b' k' ns' rs0 ss0 G'. rewrite aget_write in G'. destruct (Nat.eqb_spec d b') as [->|_].
    + rewrite G in G'. injection G' as <- <- <- <-. destruct (ty_ns _ T _ _ _ _ _ G) as [p H]. exists p. apply P1; exact H.
    + destruct (ty_ns _ T _ _ _ _ _ G') as [p H]. exists p. apply P1; exact H.
  - intros b' k' ns' rs0 ss0 r G' Hr. rewrite aget_write in G'. destruct (Nat.eqb_spec d b') as [->|_].
    + rewrite G in G'. injection G' as <- <- <- <-. apply P2. eapply ty_recs; eassumption.
    + apply P2. eapply ty_recs; eassumption.
  - intros b' k' ns' rs0 ss0 s G' Hs. rewrite aget_write in G'. destruct (Nat.eqb_spec d b') as [->|_].
    + rewrite G in G'. injection G' as <- <- <- <-. destruct (R s Hs) as [m [H1 H2]].
      exists m. split; [apply P3; exact H1 | apply P1; exact H2].
    + destruct (ty_subs _ T _ _ _ _ _ s G' Hs) as [m [H1 H2]]. exists m. split; [apply P3; exact H1 | apply P1; exact H2].
Qed.

(* ------------------------------------------------------------------ the building blocks *)
Lemma typed_add_rec : forall d b w, Typed w -> Typed (add_rec d b w).
Proof.
  intros d b w T. unfold add_rec. destruct (aget w b) as [[| |k ns rs ss]|] eqn:G; try exact T.
  apply typed_bump.
  assert (T1 : Typed (alloc w [ORec b 0] d)).
  { apply typed_alloc_plain; [exact T|]. intros o [<-|[]]. exact I. }
  assert (G1 : aget (alloc w [ORec b 0] d) b = Some (OBun k ns rs ss)).
  { rewrite aget_alloc_old; [exact G | eapply aget_lt; exact G]. }
  apply (typed_write_bundle _ b k ns rs ss); [exact T1 | exact G1|].
  intros r Hr. apply in_app_or in Hr. destruct Hr as [Hr|[<-|[]]].
  - eapply ty_recs; eassumption.
  - exists 0. rewrite aget_alloc_new0. reflexivity.
Qed.

Lemma typed_add_recs : forall d b k w, Typed w -> Typed (add_recs d b k w).
Proof. intros d b k; induction k as [|k IH]; intros w T; cbn [add_recs]; [exact T | apply IH, typed_add_rec, T]. Qed.

Lemma typed_add_sub : forall d k w, Typed w -> In d (adocs w) -> Typed (add_sub d k w).
Proof.
  intros d k w T Hd. unfold add_sub. destruct (ty_docs _ T d Hd) as [ns [rs [ss G]]]. rewrite G.
  apply typed_add_recs.
  set (os := [OMgr (Some ns) 0; OBun false (anext w) [] []]).
  assert (Gm : aget (alloc w os d) (anext w) = Some (OMgr (Some ns) 0)).
  { rewrite aget_alloc_new0. reflexivity. }
  assert (Gb : aget (alloc w os d) (S (anext w)) = Some (OBun false (anext w) [] [])).
  { rewrite aget_alloc_new1. reflexivity. }
  assert (Gd : aget (alloc w os d) d = Some (OBun true ns rs ss)).
  { rewrite aget_alloc_old; [exact G | eapply aget_lt; exact G]. }
  destruct (pres_alloc w os d) as [P1 [P2 P3]].
  assert (T1 : Typed (alloc w os d)).
  { split.
    - intros x Hx. change (In x (adocs w)) in Hx. destruct (ty_docs _ T x Hx) as [ns0 [rs0 [ss0 G0]]].
      exists ns0, rs0, ss0. rewrite aget_alloc_old; [exact G0 | eapply aget_lt; exact G0].
    - intros b' k' ns' rs0 ss0 G'. destruct (Nat.lt_ge_cases b' (length (aheap w))) as [L|L].
      + rewrite aget_alloc_old in G' by assumption. destruct (ty_ns _ T _ _ _ _ _ G') as [p H]. exists p. apply P1; exact H.
      + replace b' with (anext w + (b' - length (aheap w))) in G' by (unfold anext; lia). rewrite aget_alloc_new in G'.
        destruct (b' - length (aheap w)) as [|[|n]]; cbn in G'; try discriminate; [|destruct n; discriminate].
        injection G' as <- <- <- <-. exists (Some ns), 0. exact Gm.
    - intros b' k' ns' rs0 ss0 r G' Hr. destruct (Nat.lt_ge_cases b' (length (aheap w))) as [L|L].
      + rewrite aget_alloc_old in G' by assumption. apply P2. eapply ty_recs; eassumption.
      + replace b' with (anext w + (b' - length (aheap w))) in G' by (unfold anext; lia). rewrite aget_alloc_new in G'.
        destruct (b' - length (aheap w)) as [|[|n]]; cbn in G'; try discriminate; [|destruct n; discriminate].
        injection G' as <- <- <- <-. destruct Hr.
    - intros b' k' ns' rs0 ss0 s G' Hs. destruct (Nat.lt_ge_cases b' (length (aheap w))) as [L|L].
      + rewrite aget_alloc_old in G' by assumption. destruct (ty_subs _ T _ _ _ _ _ s G' Hs) as [m [H1 H2]].
        exists m. split; [apply P3; exact H1 | apply P1; exact H2].
      + replace b' with (anext w + (b' - length (aheap w))) in G' by (unfold anext; lia). rewrite aget_alloc_new in G'.
        destruct (b' - length (aheap w)) as [|[|n]]; cbn in G'; try discriminate; [|destruct n; discriminate].
        injection G' as <- <- <- <-. destruct Hs. }
  apply (typed_write_doc _ d ns rs ss); [exact T1 | exact Gd|].
  intros s Hs. apply in_app_or in Hs. destruct Hs as [Hs|[<-|[]]].
  - eapply ty_subs; eassumption.
  - exists (anext w). split; [exists []; exact Gb | exists 0; exact Gm].
Qed.

Lemma adocs_bump : forall l w, adocs (bump l w) = adocs w.
Proof. intros l w. unfold bump. destruct (aget w l); reflexivity. Qed.
Lemma adocs_add_rec : forall d b w, adocs (add_rec d b w) = adocs w.
Proof. intros d b w. unfold add_rec. destruct (aget w b) as [[| |? ? ? ?]|]; try reflexivity. rewrite adocs_bump. reflexivity. Qed.
Lemma adocs_add_recs : forall d b k w, adocs (add_recs d b k w) = adocs w.
Proof. intros d b k; induction k as [|k IH]; intros w; cbn [add_recs]; [reflexivity | rewrite IH; apply adocs_add_rec]. Qed.
Lemma adocs_add_sub : forall d k w, adocs (add_sub d k w) = adocs w.
Proof. intros d k w. unfold add_sub. destruct (aget w d) as [[| |? ? ? ?]|]; try reflexivity. rewrite adocs_add_recs. reflexivity. Qed.

Lemma typed_fold_add_sub : forall d ks w, Typed w -> In d (adocs w) -> Typed (fold_left (fun w k => add_sub d k w) ks w).
Proof.
  intros d ks; induction ks as [|k ks IH]; intros w T Hd; cbn [fold_left]; [exact T|].
  apply IH; [apply typed_add_sub; assumption | rewrite adocs_add_sub; exact Hd].
Qed.

Lemma typed_new_doc_with : forall k0 ks w, Typed w -> Typed (new_doc_with k0 ks w).
Proof.
  intros k0 ks w T. unfold new_doc_with.
  set (d := anext w). set (os := [OBun true (S d) [] []; OMgr None 0]).
  assert (Gd : aget (alloc w os d) d = Some (OBun true (S d) [] [])).
  { unfold d. rewrite aget_alloc_new0. reflexivity. }
  assert (Gm : aget (alloc w os d) (S d) = Some (OMgr None 0)).
  { unfold d. rewrite aget_alloc_new1. reflexivity. }
  destruct (pres_alloc w os d) as [P1 [P2 P3]].
  set (w2 := mkAW (aheap (alloc w os d)) (aown (alloc w os d)) (adocs (alloc w os d) ++ [d])).
  assert (T2 : Typed w2).
  { split.
    - intros x Hx. cbn in Hx. apply in_app_or in Hx. destruct Hx as [Hx|[<-|[]]]; [|eauto].
      destruct (ty_docs _ T x Hx) as [ns0 [rs0 [ss0 G0]]].
      exists ns0, rs0, ss0. change (aget (alloc w os d) x = Some (OBun true ns0 rs0 ss0)).
      rewrite aget_alloc_old; [exact G0 | eapply aget_lt; exact G0].
    - intros b' k' ns' rs0 ss0 G'. change (aget (alloc w os d) b' = Some (OBun k' ns' rs0 ss0)) in G'.
      destruct (Nat.lt_ge_cases b' (length (aheap w))) as [L|L].
      + rewrite aget_alloc_old in G' by assumption. destruct (ty_ns _ T _ _ _ _ _ G') as [p H]. exists p. apply P1; exact H.
      + replace b' with (anext w + (b' - length (aheap w))) in G' by (unfold anext; lia). rewrite aget_alloc_new in G'.
        destruct (b' - length (aheap w)) as [|[|n]]; cbn in G'; try discriminate; [|destruct n; discriminate].
        injection G' as <- <- <- <-. exists None, 0. exact Gm.
    - intros b' k' ns' rs0 ss0 r G' Hr. change (aget (alloc w os d) b' = Some (OBun k' ns' rs0 ss0)) in G'.
      destruct (Nat.lt_ge_cases b' (length (aheap w))) as [L|L].
      + rewrite aget_alloc_old in G' by assumption. apply P2. eapply ty_recs; eassumption.
      + replace b' with (anext w + (b' - length (aheap w))) in G' by (unfold anext; lia). rewrite aget_alloc_new in G'.
        destruct (b' - length (aheap w)) as [|[|n]]; cbn in G'; try discriminate; [|destruct n; discriminate].
        injection G' as <- <- <- <-. destruct Hr.
    - intros b' k' ns' rs0 ss0 s G' Hs. change (aget (alloc w os d) b' = Some (OBun k' ns' rs0 ss0)) in G'.
      destruct (Nat.lt_ge_cases b' (length (aheap w))) as [L|L].
      + rewrite aget_alloc_old in G' by assumption. destruct (ty_subs _ T _ _ _ _ _ s G' Hs) as [m [H1 H2]].
        exists m. split; [apply P3; exact H1 | apply P1; exact H2].
      + replace b' with (anext w + (b' - length (aheap w))) in G' by (unfold anext; lia). rewrite aget_alloc_new in G'.
        destruct (b' - length (aheap w)) as [|[|n]]; cbn in G'; try discriminate; [|destruct n; discriminate].
        injection G' as <- <- <- <-. destruct Hs. }
  apply typed_fold_add_sub; [apply typed_add_recs; exact T2|].
  rewrite adocs_add_recs. cbn. apply in_or_app. right. left. reflexivity.
Qed.

Lemma typed_update_subs : forall d cs w, Typed w -> In d (adocs w) -> Typed (update_subs d cs w).
Proof.
  intros d cs; induction cs as [|[k [t|]] cs IH]; intros w T Hd; cbn [update_subs]; [exact T| |].
  - destruct (nth_error (subs_of w d) t) as [b|]; [|apply IH; assumption].
    apply IH; [apply typed_add_recs; exact T | rewrite adocs_add_recs; exact Hd].
  - apply IH; [apply typed_add_sub; assumption | rewrite adocs_add_sub; exact Hd].
Qed.

(* ------------------------------------------------------------------ every call *)
Theorem astep_typed : forall w o, Typed w -> Typed (astep w o).
Proof.
  intros w o T.
  assert (HD : forall i d, hdl w i = Some d -> In d (adocs w)) by (intros i d H; eapply nth_error_In; exact H).
  destruct o as [|i|i s k|i s r|i s|k0 ks|i k0 ks|i|i s|i s j t|i j ms|i j|i s r]; cbn [astep].
  - apply typed_new_doc_with; exact T.
  - destruct (hdl w i) as [d|] eqn:H; [|exact T]. apply typed_add_sub; [exact T | eapply HD; exact H].
  - destruct (hdl w i) as [d|]; [|exact T]. destruct (cont w d s); [apply typed_add_recs; exact T | exact T].
  - destruct (hdl w i) as [d|]; [|exact T]. destruct (cont w d s) as [b|]; [|exact T].
    destruct (nth_error (recs_of w b) r) as [x|]; [|exact T].
    destruct (aget w x) as [[|ob v|]|]; try exact T.
    destruct (ns_of w ob); [apply typed_bump, typed_bump, T | apply typed_bump, T].
  - destruct (hdl w i) as [d|]; [|exact T]. destruct (cont w d s) as [b|]; [|exact T].
    destruct (ns_of w b); [apply typed_bump, T | exact T].
  - apply typed_new_doc_with; exact T.
  - destruct (hdl w i); [apply typed_new_doc_with; exact T | exact T].
  - destruct (hdl w i) as [d|]; [|exact T]. destruct (subs_of w d); [exact T | apply typed_new_doc_with; exact T].
  - destruct (hdl w i) as [d|]; [|exact T]. destruct (cont w d s); [apply typed_new_doc_with; exact T | exact T].
  - destruct (hdl w i) as [d|]; [|exact T]. destruct (hdl w j) as [e|]; [|exact T].
    destruct (cont w d s); [|exact T]. destruct (cont w e t); [apply typed_add_recs; exact T | exact T].
  - destruct (hdl w i) as [d|] eqn:H; [|exact T]. destruct (hdl w j) as [e|]; [|exact T].
    apply typed_update_subs; [apply typed_add_recs; exact T | rewrite adocs_add_recs; eapply HD; exact H].
  - destruct (hdl w i) as [d|] eqn:H; [|exact T]. destruct (hdl w j) as [e|]; [|exact T].
    destruct (subs_of w e); [apply typed_add_sub; [exact T | eapply HD; exact H] | exact T].
  - destruct (hdl w i) as [d|]; [|exact T]. destruct (cont w d s) as [b|]; [|exact T].
    destruct (nth_error (recs_of w b) r) as [x|]; [|exact T].
    destruct (aget w x) as [[|ob v|]|]; try exact T.
    assert (T1 : Typed (bump (anext w) (alloc w [ORec ob 0] d))).
    { apply typed_bump, typed_alloc_plain; [exact T|]. intros o [<-|[]]. exact I. }
    destruct (ns_of w ob); [apply typed_bump, T1 | exact T1].
Qed.

Lemma typed_empty : Typed aempty.
Proof.
  assert (E : forall b o, aget aempty b = Some o -> False) by (intros b o G; unfold aget in G; cbn in G; destruct b; discriminate).
  split.
  - intros d [].
  - intros b k ns rs ss G. destruct (E _ _ G).
  - intros b k ns rs ss r G. destruct (E _ _ G).
  - intros b k ns rs ss s G. destruct (E _ _ G).
Qed.

Theorem arun_typed : forall ops, Typed (arun ops).
Proof.
  intros ops. unfold arun. generalize typed_empty. generalize aempty.
  induction ops as [|o ops IH]; intros w T; cbn [fold_left]; [exact T | apply IH, astep_typed, T].
Qed.

(* ------------------------------------------------------------------ consequences *)
(* add_attributes on a listed record writes the record and the manager of the very container that lists it *)
Theorem touch_rec_writes_own_container : forall w i s r d b x,
  Typed w -> hdl w i = Some d -> cont w d s = Some b -> nth_error (recs_of w b) r = Some x ->
  exists v, aget w x = Some (ORec b v) /\
  astep w (ATouchRec i s r) = match ns_of w b with Some m => bump m (bump x w) | None => bump x w end.
Proof.
  intros w i s r d b x T H C N.
  assert (Hx : In x (recs_of w b)) by (eapply nth_error_In; exact N).
  unfold recs_of in Hx. destruct (aget w b) as [[| |k ns rs ss]|] eqn:G; try contradiction.
  destruct (ty_recs _ T _ _ _ _ _ x G Hx) as [v Gx]. exists v. split; [exact Gx|].
  cbn [astep]. rewrite H, C, N, Gx. reflexivity.
Qed.

(* c = r.copy(); c.add_attributes(...): the source record, and every other record and bundle of the store, is as it
   was; the only existing object written is the manager of the container that lists the source *)
Theorem copy_touch_leaves_source : forall w i s r d b x,
  Inv w -> Typed w -> hdl w i = Some d -> cont w d s = Some b -> nth_error (recs_of w b) r = Some x ->
  let w' := astep w (ACopyTouch i s r) in
  aget w' x = aget w x /\
  (forall l, l < anext w -> ns_of w b <> Some l -> aget w' l = aget w l) /\ adocs w' = adocs w.
Proof.
  intros w i s r d b x I T H C N w'.
  assert (Hx : In x (recs_of w b)) by (eapply nth_error_In; exact N).
  unfold recs_of in Hx. destruct (aget w b) as [[| |k ns rs ss]|] eqn:G; try contradiction.
  destruct (ty_recs _ T _ _ _ _ _ x G Hx) as [v Gx].
  destruct (copy_touch_footprint w i s r d b x b v I H C N Gx) as [F D]. fold w' in F, D.
  assert (Nx : ns_of w b <> Some x).
  { unfold ns_of. rewrite G. intros E. injection E as ->. destruct (ty_ns _ T _ _ _ _ _ G) as [p [v' Gm]]. congruence. }
  split; [apply F; [eapply aget_lt; exact Gx | exact Nx]|]. split; [exact F | exact D].
Qed.
