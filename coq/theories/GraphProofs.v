(* GraphProofs.v — C14: what prov_to_graph builds. *)
From Coq Require Import String Ascii List Bool Arith Lia.
From Prov Require Import Str StrProofs Sexp Tables Nsm NsmProofs Values Record World Derive Graph.
Import ListNotations.
Open Scope string_scope.

Definition node_uri (n : gnode) : option string := option_map qn_uri (rid (nrec n)).

(* node_map sends every identifier URI to a node with that identifier *)
Definition NMok (nm : nmap) : Prop := forall u n, lookup u nm = Some n -> node_uri n = Some u.

Lemma endpoint_ok : forall nm attr q nm' n,
  NMok nm -> endpoint nm attr q = Some (nm', n) -> NMok nm' /\ node_uri n = Some (qn_uri q).
Proof.
  intros nm attr q nm' n OK H. unfold endpoint in H.
  destruct (lookup (qn_uri q) nm) as [n0|] eqn:L.
  - inversion H; subst. split; [exact OK | apply OK; exact L].
  - unfold infer in H. destruct (lookup attr inferred_element_class) as [k|]; [|discriminate].
    inversion H; subst. split; [|reflexivity].
    intros u x Hx. rewrite lookup_dset in Hx. destruct (String.eqb u (qn_uri q)) eqn:E.
    + apply String.eqb_eq in E. inversion Hx; subst. reflexivity.
    + apply OK; exact Hx.
Qed.

(* every edge is one of the given relations, directed from the node of its first
   formal argument to the node of its second *)
Definition edge_spec (e : gnode * gnode * prec) : Prop :=
  let '(n1, n2, r) := e in
  exists a1 q1 a2 q2, first_two r = Some ((a1, Some (VQn q1)), (a2, Some (VQn q2))) /\
    node_uri n1 = Some (qn_uri q1) /\ node_uri n2 = Some (qn_uri q2).

Theorem add_relations_edges : forall rels nm g,
  NMok nm -> Forall edge_spec (gedges g) ->
  Forall edge_spec (gedges (add_relations rels nm g)) /\
  (forall e, In e (gedges (add_relations rels nm g)) -> In e (gedges g) \/ In (snd e) rels) /\
  length (gedges (add_relations rels nm g)) <= length (gedges g) + length rels.
Proof.
  induction rels as [|r rels IH]; intros nm g OK F; cbn [add_relations].
  - repeat split; auto. cbn; lia.
  - assert (SKIP : forall nm0, NMok nm0 ->
       Forall edge_spec (gedges (add_relations rels nm0 g)) /\
       (forall e, In e (gedges (add_relations rels nm0 g)) -> In e (gedges g) \/ In (snd e) (r :: rels)) /\
       length (gedges (add_relations rels nm0 g)) <= length (gedges g) + length (r :: rels)).
    { intros nm0 OK0. destruct (IH nm0 g OK0 F) as [A [B C]]. repeat split; [exact A | | cbn; lia].
      intros e He. destruct (B e He); [left | right; right]; assumption. }
    destruct (first_two r) as [[[a1 [v1|]] [a2 [v2|]]]|] eqn:FT; try (cbv iota; apply SKIP; exact OK);
      try (destruct v1; cbv iota; apply SKIP; exact OK).
    destruct v1 as [ | | | | | |q1| ]; try (cbv iota; apply SKIP; exact OK).
    destruct v2 as [ | | | | | |q2| ]; try (cbv iota; apply SKIP; exact OK).
    destruct (endpoint nm a1 q1) as [[nm1 n1]|] eqn:E1; [|apply SKIP; exact OK].
    destruct (endpoint_ok _ _ _ _ _ OK E1) as [OK1 U1].
    destruct (endpoint nm1 a2 q2) as [[nm2 n2]|] eqn:E2; [|apply SKIP; exact OK1].
    destruct (endpoint_ok _ _ _ _ _ OK1 E2) as [OK2 U2].
    set (g' := mkGraph (add_node n2 (add_node n1 (gnodes g))) (gedges g ++ [(n1, n2, r)])%list).
    assert (F' : Forall edge_spec (gedges g')).
    { cbn [gedges g']. apply Forall_app. split; [exact F|]. constructor; [|constructor].
      cbn. exists a1, q1, a2, q2. auto. }
    destruct (IH nm2 g' OK2 F') as [A [B C]]. repeat split; [exact A | |].
    + intros e He. destruct (B e He) as [H|H]; [|right; right; exact H].
      cbn [gedges g'] in H. apply in_app_or in H. destruct H as [H|[H|[]]]; [left; exact H|].
      subst e. right. left. reflexivity.
    + cbn [gedges g'] in C. rewrite app_length in C. cbn in *. lia.
Qed.

(* when both endpoints of every relation are declared, the edges are exactly the
   relations, in order, between the declared nodes *)
Theorem add_relations_declared : forall rels nm g,
  (forall r, In r rels -> exists a1 q1 a2 q2 n1 n2,
      first_two r = Some ((a1, Some (VQn q1)), (a2, Some (VQn q2))) /\
      lookup (qn_uri q1) nm = Some n1 /\ lookup (qn_uri q2) nm = Some n2) ->
  map (fun e => snd e) (gedges (add_relations rels nm g)) = (map (fun e => snd e) (gedges g) ++ rels)%list.
Proof.
  induction rels as [|r rels IH]; intros nm g H; cbn [add_relations].
  - rewrite app_nil_r. reflexivity.
  - destruct (H r (or_introl eq_refl)) as [a1 [q1 [a2 [q2 [n1 [n2 [FT [L1 L2]]]]]]]].
    rewrite FT. unfold endpoint. rewrite L1, L2.
    rewrite IH.
    + cbn [gedges]. rewrite map_app. cbn. rewrite <- app_assoc. reflexivity.
    + intros r' Hr'. apply H. right. exact Hr'.
Qed.

(* the declared nodes are kept: every element record of the unified document is a node *)
Lemma add_node_keeps : forall n l x, In x l -> In x (add_node n l).
Proof. intros n l x H. unfold add_node. destruct (existsb (node_eqb n) l); [exact H | apply in_or_app; left; exact H]. Qed.

Theorem add_relations_keeps_nodes : forall rels nm g x,
  In x (gnodes g) -> In x (gnodes (add_relations rels nm g)).
Proof.
  induction rels as [|r rels IH]; intros nm g x H; cbn [add_relations]; [exact H|].
  destruct (first_two r) as [[[a1 [v1|]] [a2 [v2|]]]|]; try (apply IH; exact H);
    try (destruct v1; apply IH; exact H).
  destruct v1 as [ | | | | | |q1| ]; try (apply IH; exact H).
  destruct v2 as [ | | | | | |q2| ]; try (apply IH; exact H).
  destruct (endpoint nm a1 q1) as [[nm1 n1]|]; [|apply IH; exact H].
  destruct (endpoint nm1 a2 q2) as [[nm2 n2]|]; [|apply IH; exact H].
  apply IH. cbn [gnodes]. apply add_node_keeps. apply add_node_keeps. exact H.
Qed.
