(* JsonContProofs.v — C01/C11 at container level: the record maps of a PROV-JSON container.
   The writer groups the records by kind label and, within a label, by identifier string (one object, or
   an array of objects for a repeated identifier); the reader walks the labels, the identifiers and the
   array members in that order and re-creates one record per object.  Proved: an abstract description of
   the grouping (agroup) is what encode_records builds, and decoding it re-creates, after the records the
   container held, exactly one record per written record — the grouped order — each as
   json_record_roundtrip describes it, without touching the container's namespaces. *)
From Coq Require Import String Ascii List Bool Arith ZArith Lia Permutation.
From Prov Require Import Str StrProofs Sexp Tables Nsm NsmProofs Scope Values Record RecordProofs World Jtree Json
  JsonProofs IsoDigits IsoProofs TimeProofs JsonRecProofs.
Import ListNotations.
Open Scope string_scope.

(* ---- the grouping, abstractly: label -> identifier string -> records, all in first-appearance order *)
Definition igroups : Type := list (string * list prec).
Definition lgroups : Type := list (string * igroups).

Definition ident_of (r : prec) (cache : list (prec * string)) (count : nat) : string * list (prec * string) * nat :=
  match rid r with
  | Some q => (qn_str q, cache, count)
  | None =>
      match anon_lookup r cache with
      | Some s => (s, cache, count)
      | None => let s := "_:id" ++ str_of_nat (S count) in (s, (r, s) :: cache, S count)
      end
  end.

Definition iadd (ident : string) (r : prec) (g : igroups) : igroups :=
  match lookup ident g with
  | None => dset ident [r] g
  | Some l => dset ident (l ++ [r])%list g
  end.

Fixpoint agroup (rs : list prec) (cache : list (prec * string)) (count : nat) (G : lgroups) : lgroups :=
  match rs with
  | [] => G
  | r :: rest =>
      let '(ident, cache', count') := ident_of r cache count in
      let label := prov_n_name (rkind r) in
      let cur := match lookup label G with Some g => g | None => [] end in
      agroup rest cache' count' (dset label (iadd ident r cur) G)
  end.

(* the JSON value of one identifier's records *)
Definition jrecs (l : list prec) : jv :=
  match l with
  | [r] => encode_record_obj r
  | _ => JArr (map encode_record_obj l)
  end.
Definition jig (g : igroups) : list (string * jv) := map (fun kv => (fst kv, jrecs (snd kv))) g.
Definition jlg (G : lgroups) : list (string * list (string * jv)) := map (fun kv => (fst kv, jig (snd kv))) G.

(* every identifier group holds at least one record *)
Definition ig_ok (g : igroups) : Prop := forall k l, In (k, l) g -> l <> [].
Definition lg_ok (G : lgroups) : Prop := forall k g, In (k, g) G -> ig_ok g.

Lemma lookup_map_snd : forall (U V : Type) (f : U -> V) (d : list (string * U)) k,
  lookup k (map (fun kv => (fst kv, f (snd kv))) d) = option_map f (lookup k d).
Proof.
  intros U V f d k. induction d as [|[k0 v0] d IH]; [reflexivity|]. cbn [map lookup fst snd].
  destruct (String.eqb k k0); [reflexivity | exact IH].
Qed.

Lemma dset_map_snd : forall (U V : Type) (f : U -> V) (d : list (string * U)) k v,
  dset k (f v) (map (fun kv => (fst kv, f (snd kv))) d) = map (fun kv => (fst kv, f (snd kv))) (dset k v d).
Proof.
  intros U V f d k v. induction d as [|[k0 v0] d IH]; [reflexivity|]. cbn [map dset fst snd].
  destruct (String.eqb k k0); [reflexivity|]. cbn [map fst snd]. f_equal. exact IH.
Qed.

Lemma encode_record_obj_is_obj : forall r, exists ms, encode_record_obj r = JObj ms.
Proof. intros r. unfold encode_record_obj. eexists. reflexivity. Qed.

(* adding one record's object to the JSON identifier map = the JSON of the abstract addition *)
Lemma jset_iadd : forall g ident r, ig_ok g ->
  (match lookup ident (jig g) with
   | None => jset ident (encode_record_obj r) (jig g)
   | Some (JArr l) => jset ident (JArr (l ++ [encode_record_obj r])%list) (jig g)
   | Some other => jset ident (JArr [other; encode_record_obj r]) (jig g)
   end) = jig (iadd ident r g).
Proof.
  intros g ident r OK. unfold jig at 1. rewrite lookup_map_snd. unfold iadd.
  destruct (lookup ident g) as [l|] eqn:L; cbn [option_map].
  - assert (NE : l <> []) by (apply (OK ident); apply lookup_In; exact L).
    destruct l as [|r1 [|r2 l]]; [contradiction| |].
    + cbn [jrecs]. destruct (encode_record_obj_is_obj r1) as [ms E]. rewrite E.
      unfold jset, jig. rewrite <- (dset_map_snd _ _ jrecs). cbn [jrecs app map]. rewrite E. reflexivity.
    + cbn [jrecs]. unfold jset, jig. rewrite <- (dset_map_snd _ _ jrecs).
      assert (X : jrecs ((r1 :: r2 :: l) ++ [r]) = JArr (map encode_record_obj (r1 :: r2 :: l) ++ [encode_record_obj r])).
      { cbn [app]. destruct (l ++ [r])%list eqn:EL; [destruct l; discriminate|]. cbn [jrecs].
        rewrite <- EL. cbn [map]. rewrite map_app. reflexivity. }
      rewrite X. reflexivity.
  - unfold jset, jig. rewrite <- (dset_map_snd _ _ jrecs). reflexivity.
Qed.

Lemma iadd_ok : forall g ident r, ig_ok g -> ig_ok (iadd ident r g).
Proof.
  intros g ident r OK k l I. unfold iadd in I.
  assert (G : forall v, v <> [] -> In (k, l) (dset ident v g) -> l <> []).
  { intros v NV. clear I. induction g as [|[k0 v0] g IH]; cbn [dset]; intros I.
    - destruct I as [I|[]]. inversion I; subst. exact NV.
    - destruct (String.eqb ident k0).
      + destruct I as [I|I]; [inversion I; subst; exact NV | apply (OK k l); right; exact I].
      + destruct I as [I|I]; [apply (OK k l); left; exact I|].
        apply IH; [intros k' l' I'; apply (OK k' l'); right; exact I' | exact I]. }
  destruct (lookup ident g) as [l0|]; [apply (G (l0 ++ [r])%list); [destruct l0; discriminate | exact I] |
                                        apply (G [r]); [discriminate | exact I]].
Qed.

Lemma lg_ok_dset : forall G label g, lg_ok G -> ig_ok g -> lg_ok (dset label g G).
Proof.
  intros G label g OK Og k g' I. induction G as [|[k0 g0] G IH]; cbn [dset] in I.
  - destruct I as [I|[]]. inversion I; subst. exact Og.
  - destruct (String.eqb label k0).
    + destruct I as [I|I]; [inversion I; subst; exact Og | apply (OK k g'); right; exact I].
    + destruct I as [I|I]; [apply (OK k g'); left; exact I|].
      apply IH; [intros k' g'' I'; apply (OK k' g''); right; exact I' | exact I].
Qed.

Lemma lookup_ok : forall G label, lg_ok G -> ig_ok (match lookup label G with Some g => g | None => [] end).
Proof.
  intros G label OK. destruct (lookup label G) as [g|] eqn:L; [apply (OK label); apply lookup_In; exact L | intros k l []].
Qed.

(* what encode_records builds is the JSON of the abstract grouping *)
Theorem encode_records_agroup : forall rs cache count G, lg_ok G ->
  encode_records rs cache count (jlg G) = jlg (agroup rs cache count G) /\ lg_ok (agroup rs cache count G).
Proof.
  induction rs as [|r rs IH]; intros cache count G OK; [split; [reflexivity | exact OK]|].
  cbn [encode_records agroup]. unfold ident_of.
  set (idc := match rid r with
              | Some q => (qn_str q, cache, count)
              | None => match anon_lookup r cache with
                        | Some s => (s, cache, count)
                        | None => ("_:id" ++ str_of_nat (S count), (r, "_:id" ++ str_of_nat (S count)) :: cache, S count)
                        end
              end).
  destruct idc as [[ident cache'] count'].
  set (label := prov_n_name (rkind r)).
  set (cur := match lookup label G with Some g => g | None => [] end).
  assert (Oc : ig_ok cur) by apply (lookup_ok G label OK).
  assert (CUR : match lookup label (jlg G) with Some m => m | None => [] end = jig cur).
  { unfold jlg. rewrite lookup_map_snd. unfold cur. destruct (lookup label G); reflexivity. }
  rewrite CUR, (jset_iadd cur ident r Oc).
  unfold jlg at 1. rewrite (dset_map_snd _ _ jig). fold (jlg (dset label (iadd ident r cur) G)).
  apply IH. apply lg_ok_dset; [exact OK | apply iadd_ok; exact Oc].
Qed.

(* ---- decoding *)
Definition norm (kind : string) (idq : option qname) (r : prec) : prec := mkRec kind idq (live (rattrs r)).
Definition add_all (b : bundle) (l : list prec) : bundle := fold_left add_rec_to l b.

Definition idres (c : actx) (m : nsm) (ident : string) : option qname :=
  match resolve_o c m (NStr ident) with Done _ q => q | _ => None end.

(* a record the reader re-creates from its object, under identifier string ident, in a container with manager m *)
Definition rec_good (par : option nsm) (ft : ftable) (m : nsm) (kind ident : string) (r : prec) : Prop :=
  let c := mkCtx par ft in
  NoDup (member_names (rattrs r)) /\ NoDup (map key_uri (rattrs r)) /\
  Forall (attr_good c m) (rattrs r) /\ Forall (fun kv => set_distinct (snd kv)) (rattrs r) /\
  resolve_o c m (NStr ident) = Done m (idres c m ident) /\
  (is_element kind = false \/ idres c m ident <> None).

Lemma bns_add_rec_to : forall b r, bns (add_rec_to b r) = bns b.
Proof. reflexivity. Qed.

Lemma bns_add_all : forall l b, bns (add_all b l) = bns b.
Proof. induction l as [|r l IH]; intros b; [reflexivity|]. cbn [add_all fold_left]. fold (add_all (add_rec_to b r) l). rewrite IH. reflexivity. Qed.

Lemma with_ns_same : forall b, with_ns b (bns b) = b.
Proof. intros [i m rs idx]. reflexivity. Qed.

(* one element, then the rest *)
Lemma decode_elements_cons : forall par ft b kind id x rest,
  decode_elements par ft b kind id (x :: rest) =
  match decode_elements par ft b kind id [x] with
  | (b1, OK _) => decode_elements par ft b1 kind id rest
  | other => other
  end.
Proof.
  intros par ft b kind id x rest. cbn [decode_elements].
  destruct x as [ | | | | | |members]; try reflexivity.
  destruct (decode_element par (bns b) kind members (mkAcc [] [] [])) as [acc|e|]; try reflexivity.
  destruct (new_record par ft b kind (Some (NStr id)) _) as [b1 [y|e|]]; try reflexivity.
  destruct (acc_members acc) as [|m0 ms]; [reflexivity|].
  destruct (find _ (acc_formal acc)) as [[k v]|]; [|reflexivity].
  destruct (add_members par ft b1 v (m0 :: ms)) as [b2 [y2|e|]]; reflexivity.
Qed.

Lemma decode_elements_group : forall par ft kind ident l b,
  Forall (rec_good par ft (bns b) kind ident) l ->
  decode_elements par ft b kind ident (map encode_record_obj l)
  = (add_all b (map (norm kind (idres (mkCtx par ft) (bns b) ident)) l), OK tt).
Proof.
  intros par ft kind ident l. induction l as [|r l IH]; intros b F; [reflexivity|].
  inversion F as [|x y [UN [UK [G [SD [RI EL]]]]] F']; subst. cbn [map].
  rewrite decode_elements_cons.
  rewrite (json_record_roundtrip par ft b kind ident _ r UN UK G SD RI EL). rewrite with_ns_same.
  cbn [add_all fold_left].
  set (b1 := add_rec_to b (mkRec kind (idres (mkCtx par ft) (bns b) ident) (live (rattrs r)))).
  assert (E : bns b1 = bns b) by reflexivity.
  rewrite (IH b1); [rewrite E; reflexivity | rewrite E; exact F'].
Qed.

Lemma add_all_app : forall l1 l2 b, add_all b (l1 ++ l2) = add_all (add_all b l1) l2.
Proof. intros l1 l2 b. unfold add_all. apply fold_left_app. Qed.

Definition flat_ig (c : actx) (m : nsm) (kind : string) (g : igroups) : list prec :=
  flat_map (fun kv => map (norm kind (idres c m (fst kv))) (snd kv)) g.

Lemma jrecs_elements : forall l, l <> [] ->
  match jrecs l with JObj _ => Some [jrecs l] | JArr x => Some x | _ => None end = Some (map encode_record_obj l).
Proof.
  intros l NE. destruct l as [|r1 [|r2 l]]; [contradiction| |reflexivity].
  cbn [jrecs map]. destruct (encode_record_obj_is_obj r1) as [ms E]. rewrite E. reflexivity.
Qed.

Lemma decode_records_groups : forall par ft kind g b,
  ig_ok g ->
  (forall ident l, In (ident, l) g -> Forall (rec_good par ft (bns b) kind ident) l) ->
  decode_records par ft b kind (jig g) = (add_all b (flat_ig (mkCtx par ft) (bns b) kind g), OK tt).
Proof.
  intros par ft kind g. induction g as [|[ident l] g IH]; intros b OK H; [reflexivity|].
  cbn [jig map decode_records fst snd]. fold (jig g).
  rewrite (jrecs_elements l (OK ident l (or_introl eq_refl))).
  rewrite (decode_elements_group par ft kind ident l b (H ident l (or_introl eq_refl))).
  set (b1 := add_all b (map (norm kind (idres (mkCtx par ft) (bns b) ident)) l)).
  assert (E : bns b1 = bns b) by apply bns_add_all.
  rewrite (IH b1).
  - rewrite E. unfold flat_ig at 2. cbn [flat_map fst snd]. fold (flat_ig (mkCtx par ft) (bns b) kind g).
    rewrite add_all_app. reflexivity.
  - intros k l' I. apply (OK k l'). right. exact I.
  - intros k l' I. rewrite E. apply H. right. exact I.
Qed.

Definition label_kind (label : string) : string := match kind_of_label label with Some k => k | None => "" end.

Definition flat_lg (c : actx) (m : nsm) (G : lgroups) : list prec :=
  flat_map (fun kv => flat_ig c m (label_kind (fst kv)) (snd kv)) G.

Definition lg_good (par : option nsm) (ft : ftable) (m : nsm) (G : lgroups) : Prop :=
  forall label g, In (label, g) G ->
    exists kind, kind_of_label label = Some kind /\ String.eqb kind "Bundle" = false /\
      forall ident l, In (ident, l) g -> Forall (rec_good par ft m kind ident) l.

Theorem decode_kinds_groups : forall par ft G b,
  lg_ok G -> lg_good par ft (bns b) G ->
  decode_kinds par ft b (map (fun kv => (fst kv, JObj (snd kv))) (jlg G))
  = (add_all b (flat_lg (mkCtx par ft) (bns b) G), OK tt).
Proof.
  intros par ft G. induction G as [|[label g] G IH]; intros b OK H; [reflexivity|].
  cbn [jlg map decode_kinds fst snd]. fold (jlg G).
  destruct (H label g (or_introl eq_refl)) as [kind [K [NB R]]]. rewrite K, NB.
  rewrite (decode_records_groups par ft kind g b (OK label g (or_introl eq_refl)) R).
  set (b1 := add_all b (flat_ig (mkCtx par ft) (bns b) kind g)).
  assert (E : bns b1 = bns b) by apply bns_add_all.
  rewrite (IH b1).
  - rewrite E. unfold flat_lg at 2. cbn [flat_map fst snd]. fold (flat_lg (mkCtx par ft) (bns b) G).
    unfold label_kind. rewrite K. rewrite add_all_app. reflexivity.
  - intros k g' I. apply (OK k g'). right. exact I.
  - intros k g' I. rewrite E. apply H. right. exact I.
Qed.

(* ---- where the records sit in the grouping *)
Lemma in_dset : forall (V : Type) (d : list (string * V)) k0 v0 k v,
  In (k, v) (dset k0 v0 d) -> (k = k0 /\ v = v0) \/ In (k, v) d.
Proof.
  intros V d k0 v0 k v. induction d as [|[k1 v1] d IH]; cbn [dset]; intros I.
  - destruct I as [I|[]]. inversion I; subst. left. split; reflexivity.
  - destruct (String.eqb k0 k1) eqn:E.
    + apply String.eqb_eq in E. subst k1. destruct I as [I|I]; [inversion I; subst; left; split; reflexivity | right; right; exact I].
    + destruct I as [I|I]; [right; left; exact I|]. destruct (IH I) as [X|X]; [left; exact X | right; right; exact X].
Qed.

Lemma in_iadd : forall g i r ident l, In (ident, l) (iadd i r g) ->
  In (ident, l) g \/ (ident = i /\ ((lookup i g = None /\ l = [r]) \/ exists l0, lookup i g = Some l0 /\ l = (l0 ++ [r])%list)).
Proof.
  intros g i r ident l I. unfold iadd in I. destruct (lookup i g) as [l0|] eqn:L; apply in_dset in I;
    destruct I as [[E1 E2]|I]; try (left; exact I); right; split; try exact E1.
  - right. exists l0. split; [reflexivity | exact E2].
  - left. split; [reflexivity | exact E2].
Qed.

Definition placed (P : string -> string -> prec -> Prop) (G : lgroups) : Prop :=
  forall label g ident l r, In (label, g) G -> In (ident, l) g -> In r l -> P label ident r.

Definition place_ok (label ident : string) (r : prec) : Prop :=
  label = prov_n_name (rkind r) /\
  match rid r with Some q => ident = qn_str q | None => starts_with "_:" ident = true end.

Definition cache_ok (cache : list (prec * string)) : Prop := forall r s, In (r, s) cache -> starts_with "_:" s = true.

Lemma anon_lookup_in : forall r cache s, anon_lookup r cache = Some s -> exists r0, In (r0, s) cache.
Proof.
  intros r cache s. induction cache as [|[k v] cache IH]; cbn [anon_lookup]; intros H; [discriminate|].
  destruct (rec_eqb r k); [inversion H; subst; exists k; left; reflexivity|].
  destruct (IH H) as [r0 I]. exists r0. right. exact I.
Qed.

Lemma ident_of_ok : forall r cache count ident cache' count',
  cache_ok cache -> ident_of r cache count = (ident, cache', count') ->
  cache_ok cache' /\ match rid r with Some q => ident = qn_str q | None => starts_with "_:" ident = true end.
Proof.
  intros r cache count ident cache' count' C H. unfold ident_of in H. destruct (rid r) as [q|].
  - inversion H; subst. split; [exact C | reflexivity].
  - destruct (anon_lookup r cache) as [s|] eqn:A.
    + inversion H; subst. split; [exact C|]. destruct (anon_lookup_in _ _ _ A) as [r0 I]. exact (C r0 ident I).
    + inversion H; subst. split; [|reflexivity]. intros r0 s [I|I]; [inversion I; subst; reflexivity | exact (C r0 s I)].
Qed.

Theorem agroup_placed : forall rs cache count G,
  cache_ok cache -> placed place_ok G -> placed place_ok (agroup rs cache count G).
Proof.
  induction rs as [|r rs IH]; intros cache count G C P; [exact P|]. cbn [agroup].
  destruct (ident_of r cache count) as [[ident cache'] count'] eqn:EI.
  destruct (ident_of_ok _ _ _ _ _ _ C EI) as [C' ID].
  apply IH; [exact C'|].
  intros label g i l x Hg Hi Hx. apply in_dset in Hg. destruct Hg as [[E1 E2]|Hg]; [|exact (P label g i l x Hg Hi Hx)].
  subst label g. apply in_iadd in Hi.
  set (cur := match lookup (prov_n_name (rkind r)) G with Some g0 => g0 | None => [] end) in *.
  assert (PC : forall i0 l0 x0, In (i0, l0) cur -> In x0 l0 -> place_ok (prov_n_name (rkind r)) i0 x0).
  { intros i0 l0 x0 H0 H1. unfold cur in H0. destruct (lookup (prov_n_name (rkind r)) G) as [g0|] eqn:L; [|destruct H0].
    exact (P _ g0 i0 l0 x0 (lookup_In _ _ _ L) H0 H1). }
  destruct Hi as [Hi|[-> [[_ ->]|[l0 [L ->]]]]].
  - exact (PC i l x Hi Hx).
  - destruct Hx as [<-|[]]. split; [reflexivity | exact ID].
  - apply in_app_or in Hx. destruct Hx as [Hx|[<-|[]]].
    + exact (PC ident l0 x (lookup_In _ _ _ L) Hx).
    + split; [reflexivity | exact ID].
Qed.

(* ---- nothing is lost or duplicated by the grouping *)
Definition recs_ig (g : igroups) : list prec := flat_map (fun kv => snd kv) g.
Definition recs_lg (G : lgroups) : list prec := flat_map (fun kv => recs_ig (snd kv)) G.

Lemma perm_dset : forall (V : Type) (W : V -> list prec) (d : list (string * V)) k v' r (dflt : V),
  W dflt = [] ->
  Permutation (W v') (W (match lookup k d with Some v => v | None => dflt end) ++ [r]) ->
  Permutation (flat_map (fun kv => W (snd kv)) (dset k v' d)) (flat_map (fun kv => W (snd kv)) d ++ [r]).
Proof.
  intros V W d k v' r dflt WD. induction d as [|[k1 v1] d IH]; cbn [lookup dset flat_map]; intros H.
  - rewrite WD in H. cbn [app] in *. cbn [snd]. rewrite app_nil_r. exact H.
  - destruct (String.eqb k k1).
    + cbn [flat_map snd]. rewrite <- app_assoc.
      apply Permutation_trans with ((W v1 ++ [r]) ++ flat_map (fun kv => W (snd kv)) d)%list.
      * apply Permutation_app_tail. exact H.
      * rewrite <- app_assoc. apply Permutation_app_head. apply Permutation_app_comm.
    + cbn [flat_map snd]. rewrite <- app_assoc. apply Permutation_app_head. exact (IH H).
Qed.

Lemma perm_iadd : forall g i r, Permutation (recs_ig (iadd i r g)) (recs_ig g ++ [r]).
Proof.
  intros g i r. unfold iadd, recs_ig. destruct (lookup i g) as [l0|] eqn:L.
  - apply (perm_dset _ (fun l => l) g i (l0 ++ [r])%list r []); [reflexivity|]. rewrite L. apply Permutation_refl.
  - apply (perm_dset _ (fun l => l) g i [r] r []); [reflexivity|]. rewrite L. apply Permutation_refl.
Qed.

Theorem agroup_perm : forall rs cache count G, Permutation (recs_lg (agroup rs cache count G)) (recs_lg G ++ rs).
Proof.
  induction rs as [|r rs IH]; intros cache count G; [rewrite app_nil_r; apply Permutation_refl|].
  cbn [agroup]. destruct (ident_of r cache count) as [[ident cache'] count'].
  eapply Permutation_trans; [apply IH|].
  replace (recs_lg G ++ r :: rs)%list with ((recs_lg G ++ [r]) ++ rs)%list by (rewrite <- app_assoc; reflexivity).
  apply Permutation_app_tail. unfold recs_lg.
  apply (perm_dset _ recs_ig G (prov_n_name (rkind r)) _ r []); [reflexivity|]. apply perm_iadd.
Qed.

Lemma dset_nonempty : forall (V : Type) (d : list (string * V)) k v, dset k v d <> [].
Proof. intros V d k v. destruct d as [|[k0 v0] d]; cbn [dset]; [discriminate|]. destruct (String.eqb k k0); discriminate. Qed.

Lemma agroup_nonempty : forall rs cache count G,
  (forall label g, In (label, g) G -> g <> []) ->
  forall label g, In (label, g) (agroup rs cache count G) -> g <> [].
Proof.
  induction rs as [|r rs IH]; intros cache count G H; [exact H|]. cbn [agroup].
  destruct (ident_of r cache count) as [[ident cache'] count'].
  apply IH. intros label g I. apply in_dset in I. destruct I as [[_ ->]|I]; [|exact (H label g I)].
  unfold iadd. destruct (lookup ident _); apply dset_nonempty.
Qed.

(* ---- the record maps of a container, end to end *)
Definition renorm (r : prec) : prec := mkRec (rkind r) (rid r) (live (rattrs r)).

Definition rec_ok (par : option nsm) (ft : ftable) (m : nsm) (r : prec) : Prop :=
  kind_of_label (prov_n_name (rkind r)) = Some (rkind r) /\ String.eqb (rkind r) "Bundle" = false /\
  NoDup (member_names (rattrs r)) /\ NoDup (map key_uri (rattrs r)) /\
  Forall (attr_good (mkCtx par ft) m) (rattrs r) /\ Forall (fun kv => set_distinct (snd kv)) (rattrs r) /\
  match rid r with
  | Some q => Bound m q /\ printable q
  | None => is_element (rkind r) = false
  end.

Lemma resolve_o_named : forall c m q, Bound m q -> printable q ->
  resolve_o c m (NStr (qn_str q)) = Done m (Some q).
Proof.
  intros c m q Bd P. pose proof (qn_str_nonempty _ P) as NE. pose proof (Bound_reresolve _ _ Bd P) as R.
  unfold resolve_o. destruct (qn_str q) as [|ch s] eqn:ES; [contradiction|].
  cbn [resolve]. unfold bind, resolve_str. rewrite R. destruct q; reflexivity.
Qed.

Lemma resolve_o_blank : forall c m ident, starts_with "_:" ident = true -> resolve_o c m (NStr ident) = Done m None.
Proof.
  intros c m ident B. unfold resolve_o. destruct ident as [|ch s]; [discriminate B|].
  cbn [resolve]. unfold bind, resolve_str, resolve_str1. rewrite B. reflexivity.
Qed.

Lemma place_rec_good : forall par ft m label ident r,
  rec_ok par ft m r -> place_ok label ident r ->
  kind_of_label label = Some (rkind r) /\ rec_good par ft m (rkind r) ident r /\
  idres (mkCtx par ft) m ident = rid r.
Proof.
  intros par ft m label ident r [K [NB [UN [UK [G [SD ID]]]]]] [PL PI]. subst label.
  assert (RES : resolve_o (mkCtx par ft) m (NStr ident) = Done m (rid r)).
  { destruct (rid r) as [q|]; [destruct ID as [Bd P]; subst ident; apply resolve_o_named; assumption |
                                 apply resolve_o_blank; exact PI]. }
  assert (IR : idres (mkCtx par ft) m ident = rid r) by (unfold idres; rewrite RES; reflexivity).
  split; [exact K|]. split; [|exact IR].
  unfold rec_good. rewrite IR. repeat (split; [assumption|]).
  destruct (rid r) as [q|]; [right; discriminate | left; exact ID].
Qed.

Lemma flat_lg_renorm : forall par ft m G,
  (forall label g ident l r, In (label, g) G -> In (ident, l) g -> In r l ->
     kind_of_label label = Some (rkind r) /\ idres (mkCtx par ft) m ident = rid r) ->
  flat_lg (mkCtx par ft) m G = map renorm (recs_lg G).
Proof.
  intros par ft m G. induction G as [|[label g] G IH]; intros H; [reflexivity|].
  unfold flat_lg, recs_lg. cbn [flat_map fst snd]. fold (flat_lg (mkCtx par ft) m G). fold (recs_lg G).
  rewrite map_app. f_equal; [|apply IH; intros l0 g0 i0 l1 r0 I; apply H; right; exact I].
  assert (HG : forall ident l r, In (ident, l) g -> In r l ->
                 kind_of_label label = Some (rkind r) /\ idres (mkCtx par ft) m ident = rid r)
    by (intros ident l r; apply H; left; reflexivity).
  clear H IH. induction g as [|[ident l] g IHg]; [reflexivity|].
  unfold flat_ig, recs_ig. cbn [flat_map fst snd]. fold (flat_ig (mkCtx par ft) m (label_kind label) g). fold (recs_ig g).
  rewrite map_app. f_equal; [|apply IHg; intros i0 l0 r0 I; apply HG; right; exact I].
  apply map_ext_in. intros r Hr. destruct (HG ident l r (or_introl eq_refl) Hr) as [K I].
  unfold norm, renorm, label_kind. rewrite K, I. reflexivity.
Qed.

Lemma agroup_good : forall par ft m rs,
  Forall (rec_ok par ft m) rs ->
  let G := agroup rs [] 0 [] in
  encode_records rs [] 0 [] = jlg G /\ lg_ok G /\ lg_good par ft m G /\
  flat_lg (mkCtx par ft) m G = map renorm (recs_lg G) /\ Permutation (recs_lg G) rs.
Proof.
  intros par ft m rs F G.
  assert (OK0 : lg_ok []) by (intros k g []).
  destruct (encode_records_agroup rs [] 0 [] OK0) as [E OKG]. change (jlg []) with (@nil (string * list (string * jv))) in E.
  fold G in E, OKG.
  assert (PL : placed place_ok G) by (apply agroup_placed; [intros r s [] | intros l g i l0 r []]).
  assert (PM : Permutation (recs_lg G) rs) by (apply (agroup_perm rs [] 0 [])).
  assert (INR : forall label g ident l r, In (label, g) G -> In (ident, l) g -> In r l -> In r rs).
  { intros label g ident l r Hg Hi Hr. apply (Permutation_in _ PM). unfold recs_lg. apply in_flat_map.
    exists (label, g). split; [exact Hg|]. unfold recs_ig. apply in_flat_map. exists (ident, l). split; assumption. }
  assert (ALL : forall label g ident l r, In (label, g) G -> In (ident, l) g -> In r l ->
            kind_of_label label = Some (rkind r) /\ rec_good par ft m (rkind r) ident r /\
            idres (mkCtx par ft) m ident = rid r).
  { intros label g ident l r Hg Hi Hr. apply place_rec_good; [|exact (PL label g ident l r Hg Hi Hr)].
    exact (proj1 (Forall_forall _ _) F r (INR _ _ _ _ _ Hg Hi Hr)). }
  split; [exact E|]. split; [exact OKG|]. split; [|split; [|exact PM]].
  - intros label g Hg.
    assert (NEg : g <> []) by (apply (agroup_nonempty rs [] 0 [] (fun l0 g0 I0 => match I0 with end) label g Hg)).
    destruct g as [|[ident0 l0] g'] eqn:EG; [contradiction|].
    assert (NE0 : l0 <> []) by (apply (OKG label _ Hg ident0 l0); left; reflexivity).
    destruct l0 as [|r0 l0']; [contradiction|].
    destruct (ALL label _ ident0 (r0 :: l0') r0 Hg (or_introl eq_refl) (or_introl eq_refl)) as [K0 _].
    exists (rkind r0). split; [exact K0|].
    assert (R0 : rec_ok par ft m r0).
    { apply (proj1 (Forall_forall _ _) F). apply (INR label _ ident0 (r0 :: l0') r0 Hg); left; reflexivity. }
    split; [exact (proj1 (proj2 R0))|].
    intros ident l Hi. apply Forall_forall. intros r Hr.
    destruct (ALL label _ ident l r Hg Hi Hr) as [K [RG _]].
    assert (EK : rkind r = rkind r0) by (rewrite K in K0; inversion K0; reflexivity).
    rewrite <- EK. exact RG.
  - apply flat_lg_renorm. intros label g ident l r Hg Hi Hr.
    destruct (ALL label g ident l r Hg Hi Hr) as [K [_ I]]. split; assumption.
Qed.

(* the grouped order: by kind label, then by identifier string, each in order of first appearance *)
Definition grouped (rs : list prec) : list prec := recs_lg (agroup rs [] 0 []).

Theorem grouped_perm : forall rs, Permutation (grouped rs) rs.
Proof. intros rs. apply (agroup_perm rs [] 0 []). Qed.

Theorem json_records_roundtrip : forall par ft b0 rs,
  Forall (rec_ok par ft (bns b0)) rs ->
  decode_kinds par ft b0 (map (fun kv => (fst kv, JObj (snd kv))) (encode_records rs [] 0 []))
  = (add_all b0 (map renorm (grouped rs)), OK tt).
Proof.
  intros par ft b0 rs F. destruct (agroup_good par ft (bns b0) rs F) as [E [OKG [LG [FL _]]]].
  rewrite E, (decode_kinds_groups par ft _ b0 OKG LG), FL. reflexivity.
Qed.

(* ---- the whole container: prefix block, then the record maps *)
Lemma kinds_no_prefix : forall par ft m G, lg_good par ft m G ->
  forall label g, In (label, g) G -> String.eqb label "prefix" = false.
Proof.
  intros par ft m G LG label g I. destruct (LG label g I) as [kind [K _]].
  destruct (String.eqb label "prefix") eqn:E; [|reflexivity]. apply String.eqb_eq in E. subst label.
  vm_compute in K. discriminate.
Qed.

Lemma lookup_prefix_none : forall (G : lgroups) (H : forall label g, In (label, g) G -> String.eqb label "prefix" = false),
  lookup "prefix" (map (fun kv => (fst kv, JObj (snd kv))) (jlg G)) = None /\
  filter (fun kv : string * jv => negb (String.eqb (fst kv) "prefix")) (map (fun kv => (fst kv, JObj (snd kv))) (jlg G))
  = map (fun kv => (fst kv, JObj (snd kv))) (jlg G).
Proof.
  intros G. induction G as [|[label g] G IH]; intros H; [split; reflexivity|].
  cbn [jlg map lookup filter fst snd]. fold (jlg G).
  pose proof (H label g (or_introl eq_refl)) as E. rewrite String.eqb_sym in E. rewrite E.
  rewrite String.eqb_sym in E. rewrite E. cbn [negb].
  destruct (IH (fun l0 g0 I0 => H l0 g0 (or_intror I0))) as [L F]. rewrite L, F. split; reflexivity.
Qed.

Theorem json_container_roundtrip : forall par ft b0 b m,
  match encode_prefixes (bns b) with
  | [] => m = bns b0
  | ps => decode_prefixes (bns b0) ps = OK m
  end ->
  Forall (rec_ok par ft m) (brecs b) ->
  decode_container par ft b0 (encode_container b)
  = (add_all (with_ns b0 m) (map renorm (grouped (brecs b))), OK tt).
Proof.
  intros par ft b0 b m PF F.
  destruct (agroup_good par ft m (brecs b) F) as [E [OKG [LG [FL _]]]].
  destruct (lookup_prefix_none _ (kinds_no_prefix par ft m _ LG)) as [LN FI].
  unfold encode_container, decode_container. rewrite E.
  destruct (encode_prefixes (bns b)) as [|p ps] eqn:EP.
  - subst m. cbn [app]. rewrite LN, FI.
    rewrite (decode_kinds_groups par ft _ b0 OKG LG), FL, with_ns_same. reflexivity.
  - cbn [app lookup String.eqb Ascii.eqb Bool.eqb filter fst negb]. rewrite FI, PF.
    assert (LG' : lg_good par ft (bns (with_ns b0 m)) (agroup (brecs b) [] 0 [])) by exact LG.
    rewrite (decode_kinds_groups par ft _ (with_ns b0 m) OKG LG'). cbn [with_ns bns]. rewrite FL. reflexivity.
Qed.

(* ---- the premises are satisfiable: a container with a two-attribute usage, two entities sharing an
   identifier, and an anonymous relation, read into a fresh bundle *)
Definition y_e1 : prec := mkRec "Entity" (Some (x_q "e")) [(x_q "k", [VInt 1])].
Definition y_e2 : prec := mkRec "Entity" (Some (x_q "e")) [].
Definition y_u : prec := mkRec "Usage" None [(prov_qn "activity", [VQn (x_q "a")])].
Definition y_b : bundle := mkB None x_m [y_e1; x_r; y_e2; y_u] [].

Lemma sd_single : forall v : value, set_distinct [v].
Proof.
  intros v pre w post E. destruct pre as [|p pre]; [reflexivity|]. destruct pre; discriminate.
Qed.

Lemma y_rec_ok : Forall (rec_ok None [] x_m) (brecs y_b).
Proof.
  cbn [brecs y_b]. apply Forall_cons; [|apply Forall_cons; [|apply Forall_cons; [|apply Forall_cons; [|apply Forall_nil]]]].
  - (* entity ex:e with ex:k = 1 *)
    unfold rec_ok. cbn [rkind rid rattrs y_e1].
    split; [vm_compute; reflexivity|]. split; [reflexivity|].
    split; [vm_compute; repeat constructor; cbn; intuition discriminate|].
    split; [vm_compute; repeat constructor; cbn; intuition discriminate|].
    split; [|split; [|split; [apply x_bound | apply x_printable]]].
    + apply Forall_cons; [|apply Forall_nil]. apply ag_other.
      * apply attr_key_plain; [vm_compute; reflexivity | apply x_bound | apply x_printable].
      * apply x_bound.
      * vm_compute. reflexivity.
      * apply Forall_cons; [apply json_value_roundtrip_int; exact x_builtins | apply Forall_nil].
    + apply Forall_cons; [apply sd_single | apply Forall_nil].
  - (* the usage of JsonRecProofs *)
    unfold rec_ok. cbn [rkind rid rattrs x_r].
    split; [vm_compute; reflexivity|]. split; [reflexivity|].
    split; [vm_compute; repeat constructor; cbn; intuition discriminate|].
    split; [vm_compute; repeat constructor; cbn; intuition discriminate|].
    split; [|split; [|split; [apply x_bound | apply x_printable]]].
    + apply Forall_cons; [|apply Forall_cons; [|apply Forall_cons; [|apply Forall_cons; [|apply Forall_nil]]]].
      * apply ag_other.
        -- apply attr_key_plain; [vm_compute; reflexivity | apply x_bound | apply x_printable].
        -- apply x_bound.
        -- vm_compute. reflexivity.
        -- apply Forall_cons; [apply json_value_roundtrip_int; exact x_builtins|].
           apply Forall_cons; [apply json_value_roundtrip_str | apply Forall_nil].
      * apply ag_ref.
        -- apply (attr_key_prov None x_m "prov:activity" "activity"). apply lookup_In. vm_compute. reflexivity.
        -- apply x_bound_prov.
        -- vm_compute. reflexivity.
        -- apply x_bound.
        -- apply x_printable.
      * apply ag_other.
        -- apply attr_key_plain; [vm_compute; reflexivity | apply x_bound_prov | cbn; split; [reflexivity | discriminate]].
        -- apply x_bound_prov.
        -- vm_compute. reflexivity.
        -- apply Forall_cons; [|apply Forall_nil].
           apply json_value_roundtrip_qn; [exact x_builtins | apply x_bound | apply x_printable].
      * apply ag_empty.
    + repeat (apply Forall_cons || apply Forall_nil); try apply sd_single.
      * intros pre v post E. cbn [snd] in E.
        destruct pre as [|p1 [|p2 [|p3 pre]]]; cbn in E; inversion E; subst; try reflexivity; try (destruct pre; discriminate).
      * intros pre v post E. destruct pre; discriminate.
  - (* entity ex:e without attributes *)
    unfold rec_ok. cbn [rkind rid rattrs y_e2].
    split; [vm_compute; reflexivity|]. split; [reflexivity|].
    split; [constructor|]. split; [constructor|]. split; [constructor|]. split; [constructor|].
    split; [apply x_bound | apply x_printable].
  - (* anonymous usage *)
    unfold rec_ok. cbn [rkind rid rattrs y_u].
    split; [vm_compute; reflexivity|]. split; [reflexivity|].
    split; [vm_compute; repeat constructor; cbn; intuition discriminate|].
    split; [vm_compute; repeat constructor; cbn; intuition discriminate|].
    split; [|split; [|vm_compute; reflexivity]].
    + apply Forall_cons; [|apply Forall_nil]. apply ag_ref.
      * apply (attr_key_prov None x_m "prov:activity" "activity"). apply lookup_In. vm_compute. reflexivity.
      * apply x_bound_prov.
      * vm_compute. reflexivity.
      * apply x_bound.
      * apply x_printable.
    + apply Forall_cons; [apply sd_single | apply Forall_nil].
Qed.

Example json_container_roundtrip_applies :
  decode_container None [] (bundle_init None) (encode_container y_b)
  = (add_all (with_ns (bundle_init None) x_m) (map renorm (grouped (brecs y_b))), OK tt) /\
  map (fun r => (rkind r, option_map qn_str (rid r))) (grouped (brecs y_b))
  = [("Entity", Some "ex:e"); ("Entity", Some "ex:e"); ("Usage", Some "ex:u"); ("Usage", None)].
Proof.
  split; [|vm_compute; reflexivity].
  apply json_container_roundtrip; [vm_compute; reflexivity | exact y_rec_ok].
Qed.

(* ---- a bundle-free document *)
Lemma kinds_no_bundle : forall par ft m G, lg_good par ft m G ->
  forall label g, In (label, g) G -> String.eqb label "bundle" = false.
Proof.
  intros par ft m G LG label g I. destruct (LG label g I) as [kind [K [NB _]]].
  destruct (String.eqb label "bundle") eqn:E; [|reflexivity]. apply String.eqb_eq in E. subst label.
  vm_compute in K. inversion K; subst kind. discriminate NB.
Qed.

Lemma lookup_key_none : forall key (G : lgroups) (H : forall label g, In (label, g) G -> String.eqb label key = false),
  lookup key (map (fun kv => (fst kv, JObj (snd kv))) (jlg G)) = None /\
  filter (fun kv : string * jv => negb (String.eqb (fst kv) key)) (map (fun kv => (fst kv, JObj (snd kv))) (jlg G))
  = map (fun kv => (fst kv, JObj (snd kv))) (jlg G).
Proof.
  intros key G. induction G as [|[label g] G IH]; intros H; [split; reflexivity|].
  cbn [jlg map lookup filter fst snd]. fold (jlg G).
  pose proof (H label g (or_introl eq_refl)) as E. rewrite String.eqb_sym in E. rewrite E.
  rewrite String.eqb_sym in E. rewrite E. cbn [negb].
  destruct (IH (fun l0 g0 I0 => H l0 g0 (or_intror I0))) as [L F]. rewrite L, F. split; reflexivity.
Qed.

Theorem json_doc_roundtrip_flat : forall ft d m,
  dbundles d = [] ->
  match encode_prefixes (bns (dmain d)) with
  | [] => m = nsm_init
  | ps => decode_prefixes nsm_init ps = OK m
  end ->
  Forall (rec_ok None ft m) (brecs (dmain d)) ->
  decode_doc ft (encode_doc d)
  = OK (mkD (add_all (with_ns (bundle_init None) m) (map renorm (grouped (brecs (dmain d))))) []).
Proof.
  intros ft d m NB PF F. unfold encode_doc. rewrite NB. unfold decode_doc.
  destruct (agroup_good None ft m (brecs (dmain d)) F) as [E [OKG [LG _]]].
  destruct (lookup_key_none "bundle" _ (kinds_no_bundle None ft m _ LG)) as [LN FI].
  assert (ENC : encode_container (dmain d) =
                ((match encode_prefixes (bns (dmain d)) with [] => [] | _ => [("prefix", JObj (encode_prefixes (bns (dmain d))))] end)
                 ++ map (fun kv => (fst kv, JObj (snd kv))) (jlg (agroup (brecs (dmain d)) [] 0 [])))%list)
    by (unfold encode_container; rewrite E; reflexivity).
  assert (LB : lookup "bundle" (encode_container (dmain d)) = None).
  { rewrite ENC. destruct (encode_prefixes (bns (dmain d))); cbn [app lookup String.eqb Ascii.eqb Bool.eqb]; exact LN. }
  assert (FB : filter (fun kv : string * jv => negb (String.eqb (fst kv) "bundle")) (encode_container (dmain d))
               = encode_container (dmain d)).
  { rewrite ENC. destruct (encode_prefixes (bns (dmain d))); cbn [app filter fst String.eqb Ascii.eqb Bool.eqb negb]; rewrite FI; reflexivity. }
  rewrite LB, FB.
  rewrite (json_container_roundtrip None ft (bundle_init None) (dmain d) m PF F). reflexivity.
Qed.
