(* UnifyDocProofs.v — C08 at document level: in the document unified() returns, no container has
   anything left to merge (its unified records are its records, in order): unified() is idempotent. *)
From Coq Require Import String List Arith ZArith Bool Lia.
From Prov Require Import Str StrProofs Sexp Tables Nsm NsmProofs Values Record RecordProofs World WorldProofs Derive
  UnifyProofs UnifyIdemProofs WInvUProofs IdemProofs ReaddProofs.
Import ListNotations.
Open Scope string_scope.

(* re-creation keeps the key (kind, identifier URI) *)
Lemma add_record_key : forall par ft b r0 b' r, InvU (bns b) -> add_record par ft b r0 = (b', OK r) ->
  rkey r = rkey r0 /\ brecs b' = (brecs b ++ [r])%list /\ InvU (bns b').
Proof.
  intros par ft b r0 b' r I H. destruct (rid r0) as [q|] eqn:E.
  - destruct (add_record_spec _ _ _ _ _ _ _ I E H) as [K [U [P I']]].
    split; [|split; assumption]. unfold rkey. rewrite K, U, E. reflexivity.
  - destruct (add_record_anon _ _ _ _ _ _ I E H) as [K [N [P I']]].
    split; [|split; assumption]. unfold rkey. rewrite K, N, E. reflexivity.
Qed.

Lemma add_records_keys : forall par ft rs b b', InvU (bns b) -> add_records par ft b rs = (b', OK tt) ->
  map rkey (brecs b') = (map rkey (brecs b) ++ map rkey rs)%list /\ InvU (bns b').
Proof.
  induction rs as [|r0 rs IH]; intros b b' I H; cbn [add_records] in H.
  - inversion H; subst. rewrite app_nil_r. split; [reflexivity | exact I].
  - destruct (add_record par ft b r0) as [b1 [r|e|]] eqn:E; try discriminate.
    destruct (add_record_key _ _ _ _ _ _ I E) as [K [P I1]].
    destruct (IH _ _ I1 H) as [KS I2]. split; [|exact I2].
    rewrite KS, P, map_app. cbn [map]. rewrite K, <- app_assoc. reflexivity.
Qed.

(* a container whose identified records have pairwise different keys has nothing to merge *)
Definition settled (b : bundle) : Prop := distinct_ids (map rkey (brecs b)) = true.

Theorem settled_fixed_point : forall ft b, settled b -> unified_records ft b = OK (brecs b).
Proof.
  intros ft b D. apply no_reuse_identity. intros r I N.
  destruct (rid r) as [q|] eqn:E; [|contradiction]. exact (distinct_filter (brecs b) r q D I E).
Qed.

Lemma unified_records_distinct : forall ft b u, unified_records ft b = OK u -> distinct_ids (map rkey u) = true.
Proof.
  intros ft b u H. rewrite (unified_keys ft b u H). unfold first_fold. rewrite fold_firsts. cbn [app].
  apply firsts_distinct.
Qed.

Lemma bundle_unified_settled : forall ft b nb, bundle_unified ft b = OK nb -> settled nb.
Proof.
  intros ft b nb H. unfold bundle_unified in H. destruct (unified_records ft b) as [u|e|] eqn:U; try discriminate.
  destruct (add_records None ft (bundle_init (bid b)) u) as [nb' [y|e|]] eqn:A; try discriminate.
  inversion H; subst nb'. destruct y.
  destruct (add_records_keys _ _ _ _ _ (BInv_init (bid b)) A) as [K _]. unfold settled. rewrite K.
  cbn [bundle_init brecs map app]. exact (unified_records_distinct _ _ _ U).
Qed.

Definition doc_settled (dd : doc) : Prop := settled (dmain dd) /\ Forall (fun kb => settled (snd kb)) (dbundles dd).

Lemma attach_bundle_settled : forall dd b dd', doc_settled dd -> settled b -> attach_bundle dd b = (dd', OK tt) -> doc_settled dd'.
Proof.
  intros dd b dd' [M B] S H. unfold attach_bundle in H. destruct (bid b) as [i|]; [|discriminate].
  destruct (resolve (Some (bns (dmain dd))) (bns b) (NQn i)) as [[m [q|]]|e|]; try discriminate.
  destruct (mem (qn_uri q) (dbundles dd)); [discriminate|]. inversion H; subst. split; [exact M|].
  cbn [dbundles]. apply Forall_app. split; [exact B|]. constructor; [exact S | constructor].
Qed.

Lemma unify_bundles_settled : forall ft bs nd nd', doc_settled nd -> unify_bundles ft bs nd = OK nd' -> doc_settled nd'.
Proof.
  induction bs as [|[k b] bs IH]; intros nd nd' D H; cbn [unify_bundles] in H.
  - inversion H; subst. exact D.
  - destruct (bundle_unified ft b) as [nb|e|] eqn:EU; try discriminate.
    destruct (attach_bundle nd nb) as [nd1 [y|e|]] eqn:EA; try discriminate. destruct y.
    eapply IH; [|exact H]. exact (attach_bundle_settled _ _ _ D (bundle_unified_settled _ _ _ EU) EA).
Qed.

Theorem doc_unified_settled : forall ft dd nd, doc_unified ft dd = OK nd -> doc_settled nd.
Proof.
  intros ft dd nd H. unfold doc_unified in H.
  destruct (add_namespaces nsm_init (map snd (regd (bns (dmain dd))))) as [m0|] eqn:EN; [|discriminate].
  pose proof (add_namespaces_InvU _ _ _ InvU_init EN) as I0.
  destruct (unified_records ft (dmain dd)) as [u|e|] eqn:U; try discriminate.
  set (m1 := match dflt (bns (dmain dd)) with Some dn => set_default m0 (ns_uri dn) | None => m0 end) in *.
  assert (I1 : InvU m1) by (unfold m1; destruct (dflt (bns (dmain dd))); [apply set_default_InvU|]; exact I0).
  destruct (add_records None ft (mkB None m1 [] []) u) as [nmain [y|e|]] eqn:A; try discriminate. destruct y.
  destruct (add_records_keys None ft u (mkB None m1 [] []) nmain I1 A) as [K _]. cbn [brecs map app] in K.
  eapply unify_bundles_settled; [|exact H]. split; [|constructor].
  unfold settled. cbn [dmain]. rewrite K. exact (unified_records_distinct _ _ _ U).
Qed.

(* idempotence: in the result of unified() every container is a fixed point of unification *)
Theorem doc_unified_idempotent : forall ft dd nd, doc_unified ft dd = OK nd ->
  forall ft', unified_records ft' (dmain nd) = OK (brecs (dmain nd)) /\
              forall k b, In (k, b) (dbundles nd) -> unified_records ft' b = OK (brecs b).
Proof.
  intros ft dd nd H ft'. destruct (doc_unified_settled _ _ _ H) as [M B]. split.
  - apply settled_fixed_point. exact M.
  - intros k b I. apply settled_fixed_point. rewrite Forall_forall in B. exact (B (k, b) I).
Qed.
