(* Dotg.v — the structure prov_to_dot builds (prov/dot.py), without texts and styles: which statements are added to the
   main graph and to each bundle's cluster, in order — element nodes, generic nodes for merely referenced names, blank
   nodes, annotation nodes, edges with the label they carry, clusters.  Node identifiers are the counters of the
   Python code (n<k>, b<k>, ann<k>, c<k>); node_map is the one dictionary shared by the document and its bundles.
   Labels, HTML annotation rows and styles are not modelled (the quoting layer is Dot.v). *)
From Coq Require Import String Ascii List Bool Arith.
From Prov Require Import Str Sexp Tables Nsm Values Record World Derive.
Import ListNotations.
Open Scope string_scope.

Record dopts : Type := mkDO { o_nary : bool; o_ea : bool; o_ra : bool }.

Inductive stmt : Type :=
| SNode (id : string) (cls : string) (url : option string)   (* cls: elem:<Kind> | gen:<class or -> | blank | ann:<rows> *)
| SEdge (t h : string) (lab : option string) (link : bool)   (* link: the dashed edge from an annotation *)
| SSub (name : string) (url : string).                       (* a cluster; its statements are listed separately *)

Record dst : Type := mkDS { cn : nat; cb : nat; cc : nat; ca : nat; nmap : list (string * string) }.

Definition nid (p : string) (k : nat) : string := p ++ str_of_nat k.

(* attributes shown in an annotation: those whose name is not a reference attribute *)
Definition nonref (r : prec) : list (qname * value) :=
  filter (fun kv => negb (is_qname_attr (fst kv))) (attributes r).

(* _attach_attribute_annotation *)
Definition annotate (s : dst) (node : string) (r : prec) : dst * list stmt :=
  match nonref r with
  | [] => (s, [])
  | l =>
      let k := S (ca s) in
      (mkDS (cn s) (cb s) (cc s) k (nmap s),
       [SNode (nid "ann" k) ("ann:" ++ str_of_nat (length l)) None; SEdge (nid "ann" k) node None true])
  end.

(* _add_node *)
Definition add_elem (o : dopts) (s : dst) (r : prec) : dst * list stmt :=
  match rid r with
  | None => (s, [])                          (* an element always has an identifier *)
  | Some q =>
      let k := S (cn s) in
      let id := nid "n" k in
      let s1 := mkDS k (cb s) (cc s) (ca s) (dset (qn_uri q) id (nmap s)) in
      let node := SNode id ("elem:" ++ rkind r) (Some (qn_uri q)) in
      if o_ea o then let '(s2, an) := annotate s1 id r in (s2, node :: an) else (s1, [node])
  end.

(* _get_bnode *)
Definition get_bnode (s : dst) : dst * list stmt * string :=
  let k := S (cb s) in
  (mkDS (cn s) k (cc s) (ca s) (nmap s), [SNode (nid "b" k) "blank" None], nid "b" k).

(* _get_node *)
Definition get_node (s : dst) (q : option qname) (ptype : option string) : dst * list stmt * string :=
  match q with
  | None => get_bnode s
  | Some x =>
      match lookup (qn_uri x) (nmap s) with
      | Some id => (s, [], id)
      | None =>
          let k := S (cn s) in
          let id := nid "n" k in
          (mkDS k (cb s) (cc s) (ca s) (dset (qn_uri x) id (nmap s)),
           [SNode id ("gen:" ++ match ptype with Some c => c | None => "-" end) (Some (qn_uri x))], id)
      end
  end.

(* the reference-valued formal attributes of a relation with their first value *)
Definition ref_args (r : prec) : list (string * option qname) :=
  flat_map (fun l => if is_qname_attr (prov_qn l) then
                       [(l, match attr_get (prov_qn l) (rattrs r) with
                            | VQn q :: _ => Some q
                            | _ => None
                            end)]
                     else []) (formal_attrs (rkind r)).

Definition edge_label (kind : string) : option string := lookup kind prov_n_map.

Fixpoint nary_edges (s : dst) (b : string) (rest : list (string * option qname)) : dst * list stmt :=
  match rest with
  | [] => (s, [])
  | (l, None) :: r => nary_edges s b r
  | (l, Some q) :: r =>
      let '(s1, st1, id) := get_node s (Some q) (lookup l inferred_element_class) in
      let '(s2, st2) := nary_edges s1 b r in
      (s2, st1 ++ SEdge b id (Some l) false :: st2)%list
  end.

(* one relation *)
Definition add_relation (o : dopts) (s : dst) (r : prec) : dst * list stmt :=
  match ref_args r with
  | (l0, q0) :: (l1, q1) :: more =>
      let add_ann := (o_ra o && match nonref r with [] => false | _ => true end)%bool in
      let add_nary := (match more with [] => false | _ => true end && o_nary o)%bool in
      if (add_nary || add_ann)%bool then
        let '(s1, stb, b) := get_bnode s in
        let '(s2, st0, id0) := get_node s1 q0 (lookup l0 inferred_element_class) in
        let '(s3, st1, id1) := get_node s2 q1 (lookup l1 inferred_element_class) in
        let '(s4, stn) := if add_nary then nary_edges s3 b more else (s3, []) in
        let '(s5, sta) := if add_ann then annotate s4 b r else (s4, []) in
        (s5, stb ++ st0 ++ SEdge id0 b (edge_label (rkind r)) false :: st1 ++ SEdge b id1 None false :: stn ++ sta)%list
      else
        let '(s1, st0, id0) := get_node s q0 (lookup l0 inferred_element_class) in
        let '(s2, st1, id1) := get_node s1 q1 (lookup l1 inferred_element_class) in
        (s2, st0 ++ st1 ++ [SEdge id0 id1 (edge_label (rkind r)) false])%list
  | _ => (s, [])
  end.

Fixpoint fold_stmts {T} (f : dst -> T -> dst * list stmt) (s : dst) (l : list T) : dst * list stmt :=
  match l with
  | [] => (s, [])
  | x :: r => let '(s1, a) := f s x in let '(s2, b) := fold_stmts f s1 r in (s2, a ++ b)%list
  end.

(* _bundle_to_dot for a container without sub-bundles: element nodes first, then the relations *)
Definition container_stmts (o : dopts) (s : dst) (recs : list prec) : dst * list stmt * list prec :=
  let els := filter (fun r => is_element (rkind r)) recs in
  let rels := filter (fun r => negb (is_element (rkind r))) recs in
  let '(s1, a) := fold_stmts (add_elem o) s els in
  (s1, a, rels).

Definition bundle_cluster (o : dopts) (s : dst) (kb : string * bundle) : dst * (stmt * list stmt) :=
  let b := snd kb in
  let k := S (cc s) in
  let s0 := mkDS (cn s) (cb s) k (ca s) (nmap s) in
  let '(s1, a, rels) := container_stmts o s0 (brecs b) in
  let '(s2, c) := fold_stmts (add_relation o) s1 rels in
  (s2, (SSub (nid "cluster_c" k) (match bid b with Some q => qn_uri q | None => "" end), (a ++ c)%list)).

Fixpoint clusters (o : dopts) (s : dst) (bs : list (string * bundle)) : dst * list (stmt * list stmt) :=
  match bs with
  | [] => (s, [])
  | kb :: r => let '(s1, c) := bundle_cluster o s kb in let '(s2, cs) := clusters o s1 r in (s2, c :: cs)
  end.

(* the main graph: element nodes, the clusters, then the document's relations *)
Definition dot_of_unified (o : dopts) (u : doc) : list stmt * list (list stmt) :=
  let s0 := mkDS 0 0 0 0 [] in
  let '(s1, a, rels) := container_stmts o s0 (brecs (dmain u)) in
  let '(s2, cs) := clusters o s1 (dbundles u) in
  let '(_, c) := fold_stmts (add_relation o) s2 rels in
  ((a ++ map fst cs ++ c)%list, map snd cs).

(* prov_to_dot: the unified document, or the document itself when it cannot be unified *)
Definition dot_structure (ft : ftable) (o : dopts) (d : doc) : option (list stmt * list (list stmt)) :=
  match doc_unified ft d with
  | OK u => Some (dot_of_unified o u)
  | Raise _ => Some (dot_of_unified o d)
  | OutOfDomain => None
  end.

(* ---- wire format *)
Definition sx_ostr2 (o : option string) : sexp := match o with Some s => L [A "some"; A s] | None => A "none" end.
Definition sx_stmt (x : stmt) : sexp :=
  match x with
  | SNode id cls url => L [A "node"; A id; A cls; sx_ostr2 url]
  | SEdge t h lab link => L [A "edge"; A t; A h; sx_ostr2 lab; A (if link then "link" else "edge")]
  | SSub name url => L [A "sub"; A name; A url]
  end.
