(* RecordProofs.v — lemmas behind C05: add_attributes keeps records in normal form,
   refuses a second different value, accumulates other attributes as sets, and
   typed literals of native datatypes are stored like the plain values. *)
From Coq Require Import String Ascii List Bool Arith ZArith Lia DecimalString DecimalZ DecimalPos Decimal.
From Prov Require Import Str StrProofs Sexp Tables TablesOK Nsm NsmProofs Values Record.
Import ListNotations.
Open Scope string_scope.

(* ------------------------------------------------------------------ attribute dictionary *)
Lemma qn_eqb_refl : forall a, qn_eqb a a = true.
Proof. intros a. unfold qn_eqb. apply String.eqb_refl. Qed.

Lemma qn_eqb_trans_l : forall a k k0, qn_eqb k k0 = true -> qn_eqb a k0 = qn_eqb a k.
Proof. unfold qn_eqb. intros a k k0 H. apply String.eqb_eq in H. rewrite H. reflexivity. Qed.

Lemma attr_get_put : forall d a k vs,
  attr_get a (attr_put k vs d) = if qn_eqb a k then vs else attr_get a d.
Proof.
  induction d as [|[k0 old] d IH]; intros a k vs; cbn [attr_put attr_get].
  - destruct (qn_eqb a k); reflexivity.
  - destruct (qn_eqb k k0) eqn:E; cbn [attr_get].
    + rewrite (qn_eqb_trans_l a k k0 E). destruct (qn_eqb a k); reflexivity.
    + rewrite IH. destruct (qn_eqb a k0) eqn:E0; [|reflexivity].
      destruct (qn_eqb a k) eqn:E1; [|reflexivity].
      exfalso. unfold qn_eqb in *. apply String.eqb_eq in E0, E1.
      rewrite <- E0, <- E1, String.eqb_refl in E. discriminate.
Qed.

Lemma attr_get_add : forall d a k v,
  attr_get a (attr_add k v d) = if qn_eqb a k then set_add v (attr_get k d) else attr_get a d.
Proof. intros. unfold attr_add. apply attr_get_put. Qed.

(* the class predicates depend on the URI only *)
Lemma in_prov_set_eqb : forall t a k, qn_eqb a k = true -> in_prov_set t a = in_prov_set t k.
Proof.
  intros t a k H. unfold qn_eqb in H. apply String.eqb_eq in H.
  unfold in_prov_set, is_prov_name. rewrite H. reflexivity.
Qed.
Lemma is_qname_attr_eqb : forall a k, qn_eqb a k = true -> is_qname_attr a = is_qname_attr k.
Proof. intros; apply in_prov_set_eqb; assumption. Qed.
Lemma is_time_attr_eqb : forall a k, qn_eqb a k = true -> is_time_attr a = is_time_attr k.
Proof. intros; apply in_prov_set_eqb; assumption. Qed.
Lemma is_formal_attr_eqb : forall a k, qn_eqb a k = true -> is_formal_attr a = is_formal_attr k.
Proof.
  intros a k H. unfold is_formal_attr.
  rewrite (is_qname_attr_eqb _ _ H), (is_time_attr_eqb _ _ H). reflexivity.
Qed.

(* reference-valued and time-valued attribute names are disjoint (generated tables) *)
Lemma qname_time_disjoint : forall q, is_qname_attr q = true -> is_time_attr q = false.
Proof.
  intros q H. unfold is_qname_attr, is_time_attr, in_prov_set in *.
  apply existsb_exists in H. destruct H as [l1 [I1 E1]].
  destruct (existsb (fun l => is_prov_name l q) attribute_literals) eqn:E; [|reflexivity].
  apply existsb_exists in E. destruct E as [l2 [I2 E2]].
  unfold is_prov_name in *. apply String.eqb_eq in E1, E2.
  rewrite E1 in E2. apply append_inj_l in E2. subst l2.
  exfalso. pose proof attr_tables_disjoint as D.
  rewrite forallb_forall in D. specialize (D _ I1).
  apply negb_true_iff in D.
  assert (X : existsb (String.eqb l1) attribute_literals = true).
  { apply existsb_exists. exists l1. split; [exact I2 | apply String.eqb_refl]. }
  congruence.
Qed.

(* ------------------------------------------------------------------ normal form *)
Definition is_qn (v : value) : Prop := match v with VQn _ => True | _ => False end.
Definition is_time (v : value) : Prop := match v with VTime _ => True | _ => False end.
Definition typed (a : qname) (v : value) : Prop :=
  (is_qname_attr a = true -> is_qn v) /\ (is_time_attr a = true -> is_time v).

(* every formal attribute holds at most one value, of the right kind *)
Definition NormalD (d : list (qname * list value)) : Prop :=
  forall a, is_formal_attr a = true ->
    match attr_get a d with
    | [] => True
    | [v] => typed a v
    | _ => False
    end.
Definition Normal (r : prec) : Prop := NormalD (rattrs r).

Lemma NormalD_nil : NormalD [].
Proof. intros a _. exact I. Qed.

Lemma via_is_qn : forall c m x m' v,
  match resolve_o c m x with
  | Done m1 (Some q) => Done m1 (Some (VQn q))
  | Done m1 None => Done m1 None
  | Fail m1 e => Fail m1 e
  | OOD => OOD
  end = Done m' (Some v) -> is_qn v.
Proof.
  intros c m x m' v H. destruct (resolve_o c m x) as [m1 [q|]|m1 e|]; inversion H; subst; exact I.
Qed.

Lemma qn_value_is_qn : forall c m a m' v, qn_value c m a = Done m' (Some v) -> is_qn v.
Proof.
  intros c m a m' v H. unfold qn_value in H.
  destruct a as [s|z|r iv g|b|t|u|q|lex dt lang|[q|]|]; try (inversion H; fail);
    eapply via_is_qn; exact H.
Qed.

Lemma time_value_is_time : forall m a m' v, time_value m a = Done m' (Some v) -> is_time v.
Proof.
  intros m a m' v H. unfold time_value in H.
  destruct a; try (inversion H; subst; exact I; fail); try (inversion H; fail).
  destruct (parse_datetime s); inversion H; subst; exact I.
Qed.

Lemma typed_transfer : forall a k v, qn_eqb a k = true -> typed k v -> typed a v.
Proof.
  intros a k v E [T1 T2]. split; intro H.
  - apply T1. rewrite <- (is_qname_attr_eqb _ _ E). exact H.
  - apply T2. rewrite <- (is_time_attr_eqb _ _ E). exact H.
Qed.

(* adding the first value of a formal attribute, or any value of a non-formal one *)
Lemma NormalD_add_first : forall d k v,
  NormalD d -> attr_get k d = [] -> typed k v -> NormalD (attr_add k v d).
Proof.
  intros d k v N E T a Fa. rewrite attr_get_add.
  destruct (qn_eqb a k) eqn:EQ.
  - rewrite E. cbn. eapply typed_transfer; eauto.
  - apply N. exact Fa.
Qed.

Lemma NormalD_add_other : forall d k v,
  NormalD d -> is_formal_attr k = false -> NormalD (attr_add k v d).
Proof.
  intros d k v N NF a Fa. rewrite attr_get_add.
  destruct (qn_eqb a k) eqn:EQ.
  - rewrite (is_formal_attr_eqb _ _ EQ) in Fa. congruence.
  - apply N. exact Fa.
Qed.

(* one iteration of the loop for a value that is not None *)
Definition loop_body (c : actx) (is_coll : bool) (m : nsm) (d : list (qname * list value))
  (n : namearg) (a : valarg) (rest : list (namearg * valarg)) :=
  match resolve_o c m n with
  | OOD => (m, d, LOOD)
  | Fail m1 e => (m1, d, LFail e)
  | Done m1 None => (m1, d, LFail EInvalidQName)
  | Done m1 (Some attr) =>
      match (if is_qname_attr attr then qn_value c m1 a
             else if is_time_attr attr then time_value m1 a else auto_conv c m1 a) with
      | OOD => (m1, d, LOOD)
      | Fail m2 e => (m2, d, LFail e)
      | Done m2 None => (m2, d, LFail EProv)
      | Done m2 (Some v) =>
          if (negb (is_coll && is_prov_name "entity" attr) && is_formal_attr attr)%bool then
            match attr_get attr d with
            | e0 :: _ => if py_eq v e0 then add_attrs_loop c is_coll m2 d rest
                         else (m2, d, LFail EProv)
            | [] => add_attrs_loop c is_coll m2 (attr_add attr v d) rest
            end
          else add_attrs_loop c is_coll m2 (attr_add attr v d) rest
      end
  end.

Lemma add_attrs_loop_cons : forall c ic m d n a rest,
  a <> ANone -> add_attrs_loop c ic m d ((n, a) :: rest) = loop_body c ic m d n a rest.
Proof. intros. destruct a; try contradiction; reflexivity. Qed.

Lemma add_attrs_loop_none : forall c ic m d n rest,
  add_attrs_loop c ic m d ((n, ANone) :: rest) = add_attrs_loop c ic m d rest.
Proof. reflexivity. Qed.

Lemma loop_body_normal : forall c m d n a rest m' d' res,
  (forall m0 d0 m1 d1 r1, NormalD d0 -> add_attrs_loop c false m0 d0 rest = (m1, d1, r1) -> NormalD d1) ->
  NormalD d -> loop_body c false m d n a rest = (m', d', res) -> NormalD d'.
Proof.
  intros c m d n a rest m' d' res IH N H. unfold loop_body in H.
  destruct (resolve_o c m n) as [m1 [attr|]|m1 e|] eqn:ER;
    try (inversion H; subst; exact N).
  destruct (if is_qname_attr attr then qn_value c m1 a
            else if is_time_attr attr then time_value m1 a else auto_conv c m1 a)
    as [m2 [v|]|m2 e2|] eqn:EV; try (inversion H; subst; exact N).
  cbn [negb andb] in H.
  destruct (is_formal_attr attr) eqn:EF.
  - destruct (attr_get attr d) as [|e0 rest0] eqn:EG.
    + eapply IH; [|exact H]. apply NormalD_add_first; [exact N | exact EG |].
      unfold is_formal_attr in EF.
      destruct (is_qname_attr attr) eqn:EQ.
      * split; intro X; [eapply qn_value_is_qn; eauto|].
        rewrite (qname_time_disjoint _ EQ) in X. discriminate.
      * destruct (is_time_attr attr) eqn:ET; [|cbn in EF; discriminate].
        split; intro X; [congruence | eapply time_value_is_time; eauto].
    + destruct (py_eq v e0); [eapply IH; eauto | inversion H; subst; exact N].
  - eapply IH; [|exact H]. apply NormalD_add_other; assumption.
Qed.

Definition valarg_is_none (a : valarg) : {a = ANone} + {a <> ANone}.
Proof. destruct a; try (right; discriminate). left; reflexivity. Defined.

(* the heart of C05: the loop keeps the normal form, whether it ends normally or
   by raising (the record keeps what was added before the exception) *)
Theorem add_attrs_loop_normal : forall c l m d m' d' res,
  NormalD d -> add_attrs_loop c false m d l = (m', d', res) -> NormalD d'.
Proof.
  intros c l. induction l as [|[n a] l IH]; intros m d m' d' res N H.
  - cbn in H. inversion H; subst. exact N.
  - destruct (valarg_is_none a) as [->|NN].
    + rewrite add_attrs_loop_none in H. eapply IH; eauto.
    + rewrite add_attrs_loop_cons in H by exact NN.
      eapply loop_body_normal; eauto.
Qed.

Theorem add_attributes_normal : forall c m r l,
  Normal r -> names_collection l = false ->
  match add_attributes c m r l with
  | ADone _ r' => Normal r'
  | AFail _ r' _ => Normal r'
  | AOOD => True
  end.
Proof.
  intros c m r l N NC. unfold add_attributes. destruct l as [|x l]; [exact N|].
  rewrite NC.
  destruct (add_attrs_loop c false m (rattrs r) (x :: l)) as [[m' d'] res] eqn:E.
  pose proof (add_attrs_loop_normal _ _ _ _ _ _ _ N E) as N'.
  destruct res; exact N' || exact I.
Qed.

(* a second, different value for a formal attribute is refused, the record is left
   as it was; the same value again is a no-op *)
Theorem second_value : forall c m r n a attr v m1 m2 e0 rest,
  names_collection [(n, a)] = false -> a <> ANone ->
  resolve_o c m n = Done m1 (Some attr) -> is_formal_attr attr = true ->
  (if is_qname_attr attr then qn_value c m1 a
   else if is_time_attr attr then time_value m1 a else auto_conv c m1 a) = Done m2 (Some v) ->
  attr_get attr (rattrs r) = e0 :: rest ->
  add_attributes c m r [(n, a)] =
    if py_eq v e0 then ADone m2 r else AFail m2 r EProv.
Proof.
  intros c m r n a attr v m1 m2 e0 rest NC NN ER EF EV EG.
  unfold add_attributes. rewrite NC.
  rewrite add_attrs_loop_cons by exact NN. unfold loop_body.
  rewrite ER, EV. cbn [negb andb]. rewrite EF, EG.
  destruct r as [k i d]. cbn [rattrs rkind rid] in *.
  destruct (py_eq v e0); reflexivity.
Qed.

(* other attributes accumulate a set; nothing else changes *)
Theorem other_accumulates : forall c m r n a attr v m1 m2,
  a <> ANone ->
  resolve_o c m n = Done m1 (Some attr) -> is_formal_attr attr = false ->
  auto_conv c m1 a = Done m2 (Some v) ->
  exists r', add_attributes c m r [(n, a)] = ADone m2 r' /\
    rkind r' = rkind r /\ rid r' = rid r /\
    (forall x, attr_get x (rattrs r') =
               if qn_eqb x attr then set_add v (attr_get attr (rattrs r)) else attr_get x (rattrs r)).
Proof.
  intros c m r n a attr v m1 m2 NN ER EF EV.
  pose proof EF as EF'. unfold is_formal_attr in EF'. apply orb_false_iff in EF'. destruct EF' as [EQ ET].
  exists (mkRec (rkind r) (rid r) (attr_add attr v (rattrs r))).
  split; [|split; [reflexivity|split; [reflexivity|intros x; apply attr_get_add]]].
  unfold add_attributes.
  rewrite add_attrs_loop_cons by exact NN. unfold loop_body.
  rewrite ER, EQ, ET, EV, EF, andb_false_r. reflexivity.
Qed.

(* the membership factory: a fresh record, two distinct formal attributes, guard
   switched off — still in normal form *)
Lemma set_add_nil : forall v, set_add v [] = [v].
Proof. reflexivity. Qed.

(* ------------------------------------------------------------------ entry-path independence *)
Lemma rstrip_id : forall s, all_chars (fun c => negb (is_space_ascii c)) s = true -> rstrip s = s.
Proof.
  induction s as [|c s IH]; cbn [all_chars rstrip]; intros H; [reflexivity|].
  apply andb_true_iff in H. destruct H as [H1 H2]. rewrite (IH H2).
  destruct s; [|reflexivity]. apply negb_true_iff in H1. rewrite H1. reflexivity.
Qed.

Lemma lstrip_id : forall s, all_chars (fun c => negb (is_space_ascii c)) s = true -> lstrip s = s.
Proof.
  destruct s as [|c s]; cbn [all_chars lstrip]; intros H; [reflexivity|].
  apply andb_true_iff in H. destruct H as [H1 _]. apply negb_true_iff in H1. rewrite H1. reflexivity.
Qed.

Definition nonspace (c : ascii) : bool := negb (is_space_ascii c).

Lemma uint_nonspace : forall d, all_chars nonspace (NilEmpty.string_of_uint d) = true.
Proof. induction d; cbn [NilEmpty.string_of_uint all_chars]; try reflexivity; rewrite IHd; reflexivity. Qed.

Lemma int_nonspace : forall d, all_chars nonspace (NilZero.string_of_int d) = true.
Proof.
  intros [d|d]; unfold NilZero.string_of_int, NilZero.string_of_uint.
  - destruct d; try reflexivity; apply (uint_nonspace (_ d)) || (cbn [NilEmpty.string_of_uint all_chars]; rewrite uint_nonspace; reflexivity).
  - destruct d; try reflexivity; cbn [NilEmpty.string_of_uint all_chars]; rewrite uint_nonspace; reflexivity.
Qed.

Lemma to_int_not_nil : forall z, Z.to_int z <> Pos Nil /\ Z.to_int z <> Neg Nil.
Proof.
  intros [|p|p]; cbn; split; try discriminate;
    intro H; inversion H as [H1]; pose proof (DecimalPos.Unsigned.to_uint_nonnil p) as X; congruence.
Qed.

Lemma str_of_Z_not_plus : forall z, match str_of_Z z with String "+" _ => False | _ => True end.
Proof.
  intros z. unfold str_of_Z. destruct (Z.to_int z) as [d|d]; unfold NilZero.string_of_int, NilZero.string_of_uint.
  - destruct d; cbn; exact I.
  - destruct d; cbn; exact I.
Qed.

Theorem parse_int_str_of_Z : forall z, parse_int (str_of_Z z) = Some z.
Proof.
  intros z. unfold parse_int, strip.
  pose proof (int_nonspace (Z.to_int z)) as NS. fold (str_of_Z z) in NS.
  rewrite (lstrip_id _ NS), (rstrip_id _ NS).
  pose proof (str_of_Z_not_plus z) as NP.
  assert (R : option_map Z.of_int (NilZero.int_of_string (str_of_Z z)) = Some z).
  { unfold str_of_Z. destruct (to_int_not_nil z) as [A B].
    rewrite NilZero.isi by assumption. cbn. rewrite of_to. reflexivity. }
  destruct (str_of_Z z) as [|c s] eqn:E; [exact R|].
  destruct (Ascii.eqb c "+") eqn:EC.
  - apply Ascii.eqb_eq in EC. subst c. contradiction.
  - destruct c as [[] [] [] [] [] [] [] []]; try exact R; cbn in EC; discriminate.
Qed.

(* typed literals of the natively supported datatypes vs the plain value *)
Lemma xsd_kind : forall l p, lookup l xsd_parsers = Some p ->
  forall pfx, xsd_local (mkQn (mkNs pfx xsd_uri) l) = Some l.
Proof.
  intros l p H pfx. unfold xsd_local, qn_uri. cbn [qn_ns ns_uri qn_local].
  revert H. generalize xsd_parsers as t.
  induction t as [|[k v] t IH]; cbn [lookup map find fst]; intros H; [discriminate|].
  destruct (String.eqb l k) eqn:E.
  - apply String.eqb_eq in E. subst k. rewrite String.eqb_refl. reflexivity.
  - assert (X : String.eqb (xsd_uri ++ l) (xsd_uri ++ k) = false).
    { apply String.eqb_neq. intro A. apply append_inj_l in A. subst. rewrite String.eqb_refl in E. discriminate. }
    rewrite X. apply IH. exact H.
Qed.

Theorem entry_path_int : forall c m z pfx l,
  lookup l xsd_parsers = Some "int" ->
  auto_conv c m (ALit (str_of_Z z) (Some (mkQn (mkNs pfx xsd_uri) l)) None) = Done m (Some (VInt z)).
Proof.
  intros c m z pfx l H. cbn [auto_conv]. unfold parse_xsd.
  rewrite (xsd_kind _ _ H pfx), H, parse_int_str_of_Z. reflexivity.
Qed.

Theorem entry_path_string : forall c m s pfx l,
  lookup l xsd_parsers = Some "str" ->
  auto_conv c m (ALit s (Some (mkQn (mkNs pfx xsd_uri) l)) None) = Done m (Some (VStr s)).
Proof.
  intros c m s pfx l H. cbn [auto_conv]. unfold parse_xsd.
  rewrite (xsd_kind _ _ H pfx), H. reflexivity.
Qed.

Theorem entry_path_anyuri : forall c m s pfx l,
  lookup l xsd_parsers = Some "identifier" ->
  auto_conv c m (ALit s (Some (mkQn (mkNs pfx xsd_uri) l)) None) = Done m (Some (VId s)).
Proof.
  intros c m s pfx l H. cbn [auto_conv]. unfold parse_xsd.
  rewrite (xsd_kind _ _ H pfx), H. reflexivity.
Qed.

Theorem entry_path_bool : forall c m (b : bool) pfx l,
  lookup l xsd_parsers = Some "bool" ->
  auto_conv c m (ALit (if b then "true" else "false") (Some (mkQn (mkNs pfx xsd_uri) l)) None)
    = Done m (Some (VBool b)).
Proof.
  intros c m b pfx l H. cbn [auto_conv]. unfold parse_xsd.
  rewrite (xsd_kind _ _ H pfx), H. destruct b; reflexivity.
Qed.

(* floats: under the law of the oracle (float(repr(x)) is x) *)
Theorem entry_path_double : forall c m r iv g pfx l,
  lookup l xsd_parsers = Some "float" ->
  lookup r (cft c) = Some (Some (r, iv, g)) ->
  auto_conv c m (ALit r (Some (mkQn (mkNs pfx xsd_uri) l)) None) = Done m (Some (VFloat r iv g)).
Proof.
  intros c m r iv g pfx l H F. cbn [auto_conv]. unfold parse_xsd, parse_float.
  rewrite (xsd_kind _ _ H pfx), H, F. reflexivity.
Qed.

(* set_time keeps the normal form *)
Lemma NormalD_put_time : forall d k t,
  NormalD d -> is_time_attr k = true -> NormalD (attr_put k [VTime t] d).
Proof.
  intros d k t N T a Fa. rewrite attr_get_put.
  destruct (qn_eqb a k) eqn:E; [|apply N; exact Fa].
  split; intro X.
  - rewrite (is_qname_attr_eqb _ _ E) in X.
    rewrite (qname_time_disjoint _ X) in T. discriminate.
  - exact I.
Qed.

Theorem new_prec_normal : forall c m k i l m' r,
  names_collection l = false -> new_prec c m k i l = Done m' r -> Normal r.
Proof.
  intros c m k i l m' r NC H. unfold new_prec in H.
  destruct (is_element k && match i with None => true | Some _ => false end)%bool; [discriminate|].
  pose proof (add_attributes_normal c m (mkRec k i []) l NormalD_nil NC) as X.
  destruct (add_attributes c m (mkRec k i []) l); inversion H; subst; exact X.
Qed.
