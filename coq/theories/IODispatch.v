(* IODispatch.v — the text/bytes dispatch of ProvDocument.serialize / deserialize, of the four serializers and of
   prov.read, as the code has it (model.py: serialize, deserialize; provjson.py, provxml.py, provrdf.py, provn.py:
   serialize / deserialize; __init__.py: read).  A Python object that travels is a str or a bytes; a stream is a text
   stream (isinstance(stream, io.TextIOBase)) or not.  The UTF-8 codec of the runtime and the locale's codec that
   open(path) uses are parameters with the round-trip law as hypothesis (recorded in the trusted base); the parsers are
   reduced to what they are handed.  What is proved (IODispatchProofs.v): whatever destination kind a document was
   written to and whatever source kind hands the artefact back, the format's parser is handed the same payload, and
   prov.read tries the formats in the registry's order on the whole content. *)
From Coq Require Import String List Bool.
From Prov Require Import Str IO.
Import ListNotations.

Section Dispatch.
  Variable text bytes : Type.
  Variable enc : text -> bytes.                 (* str.encode("utf-8") *)
  Variable dec : bytes -> option text.          (* bytes.decode("utf-8"); None: UnicodeDecodeError *)
  Variable ldec : bytes -> option text.         (* what open(path).read() yields: the locale's codec *)

  Inductive datum : Type := DText (t : text) | DBytes (b : bytes).
  Inductive skind : Type := SKText | SKBin.

  (* ---- the serializers: what they hand to stream.write, given the payload (the text of the serialisation) and
     whether the stream is a text stream.  PROV-JSON: json.dump into a StringIO, then the text or its UTF-8 bytes;
     PROV-XML (as repaired, 1a76678): lxml's UTF-8 bytes, decoded for a text stream; PROV-O: rdflib writes bytes into a
     BytesIO, decoded for a text stream; PROV-N: get_provn(), encoded unless a text stream *)
  Definition ser_write (f : fmt) (k : skind) (p : text) : option datum :=
    match f, k with
    | FJson, SKText => Some (DText p)
    | FJson, SKBin => Some (DBytes (enc p))
    | FXml, SKText => match dec (enc p) with Some t => Some (DText t) | None => None end
    | FXml, SKBin => Some (DBytes (enc p))
    | FRdf, SKText => match dec (enc p) with Some t => Some (DText t) | None => None end
    | FRdf, SKBin => Some (DBytes (enc p))
    | FProvn, SKText => Some (DText p)
    | FProvn, SKBin => Some (DBytes (enc p))
    end.

  (* a stream takes what matches its kind (StringIO.write(bytes) and BytesIO.write(str) raise TypeError) *)
  Definition stream_takes (k : skind) (d : datum) : bool :=
    match k, d with SKText, DText _ => true | SKBin, DBytes _ => true | _, _ => false end.

  (* ---- ProvDocument.serialize: destination None -> io.StringIO, its value is returned; a stream -> as given; a file
     name -> a temp file opened "wb", moved over the destination (IO.serialize_to has the file-system half) *)
  Definition dest_kind (d : dest) : skind :=
    match d with DString | DTextStream => SKText | DBinaryStream | DPath => SKBin end.

  Definition artefact (f : fmt) (d : dest) (p : text) : option datum :=
    match ser_write f (dest_kind d) p with
    | Some x => if stream_takes (dest_kind d) x then Some x else None
    | None => None
    end.

  (* ---- handing an artefact back: the five source kinds of the property.  A text artefact handed back as bytes is its
     UTF-8 encoding and the other way round (that is what "the same text, UTF-8 encoded for binary targets" means) *)
  Inductive source : Type :=
  | SrcContentStr (t : text)
  | SrcContentBytes (b : bytes)
  | SrcStream (k : skind) (d : datum)
  | SrcFile (b : bytes).

  Definition as_text (d : datum) : option text := match d with DText t => Some t | DBytes b => dec b end.
  Definition as_bytes (d : datum) : bytes := match d with DText t => enc t | DBytes b => b end.

  Definition to_source (s : src) (d : datum) : option source :=
    match s with
    | SContentStr => match as_text d with Some t => Some (SrcContentStr t) | None => None end
    | SContentBytes => Some (SrcContentBytes (as_bytes d))
    | STextStream => match as_text d with Some t => Some (SrcStream SKText (DText t)) | None => None end
    | SBinaryStream => Some (SrcStream SKBin (DBytes (as_bytes d)))
    | SPath => Some (SrcFile (as_bytes d))
    end.

  (* ---- ProvDocument.deserialize: content -> io.StringIO(content if str else content.decode()); a stream -> as given;
     a file name -> open(name): a text stream in the locale's encoding *)
  Definition open_source (s : source) : option (skind * datum) :=
    match s with
    | SrcContentStr t => Some (SKText, DText t)
    | SrcContentBytes b => match dec b with Some t => Some (SKText, DText t) | None => None end
    | SrcStream k d => Some (k, d)
    | SrcFile b => match ldec b with Some t => Some (SKText, DText t) | None => None end
    end.

  (* what the parser of the format is handed *)
  Inductive pin : Type := PText (t : text) | PBytes (b : bytes).

  (* PROV-JSON: a non-text stream is read and decoded, then json.load; PROV-XML: a text stream is read, encoded into a
     BytesIO and parsed, anything else is parsed as it is; PROV-O: rdflib's parse takes the stream as it is; PROV-N has
     no reader *)
  Definition reader_input (f : fmt) (kd : skind * datum) : option pin :=
    match f, kd with
    | FJson, (SKText, DText t) => Some (PText t)
    | FJson, (SKBin, DBytes b) => match dec b with Some t => Some (PText t) | None => None end
    | FXml, (SKText, DText t) => Some (PBytes (enc t))
    | FXml, (SKBin, DBytes b) => Some (PBytes b)
    | FRdf, (SKText, DText t) => Some (PText t)
    | FRdf, (SKBin, DBytes b) => Some (PBytes b)
    | _, _ => None
    end.

  Definition deserialize_input (f : fmt) (s : source) : option pin :=
    match open_source s with Some kd => reader_input f kd | None => None end.

  (* the parser input x carries the payload p: as text, or as its UTF-8 bytes *)
  Definition carries (x : pin) (p : text) : Prop :=
    match x with PText t => t = p | PBytes b => b = enc p end.

  (* ---- prov.read without a format (as repaired, efac7b9): a stream is read once, and every format is tried on the whole
     content through deserialize(content=...); a file name is opened afresh for every format.  fmt_of: which format a
     text is a serialisation of; a parser accepts what it is handed iff that is a serialisation in its own format (the
     law about the three parsers, measured per run) *)
  Variable fmt_of : text -> fmt.

  Definition fmt_eqb (a b : fmt) : bool :=
    match a, b with FJson, FJson | FXml, FXml | FRdf, FRdf | FProvn, FProvn => true | _, _ => false end.

  Definition parser_accepts (g : fmt) (x : pin) : bool :=
    match x with
    | PText t => fmt_eqb g (fmt_of t)
    | PBytes b => match dec b with Some t => fmt_eqb g (fmt_of t) | None => false end
    end.

  Definition read_content (s : source) : option source :=
    match s with
    | SrcStream _ (DText t) => Some (SrcContentStr t)
    | SrcStream _ (DBytes b) => Some (SrcContentBytes b)
    | SrcFile b => Some (SrcFile b)
    | _ => None                                   (* prov.read takes a stream or a file name *)
    end.

  Fixpoint try_formats (order : list string) (s : source) : option (fmt * pin) :=
    match order with
    | [] => None
    | n :: rest =>
        match registry_fmt n with
        | Some FProvn | None => try_formats rest s       (* NotImplementedError is swallowed like any other *)
        | Some g =>
            match deserialize_input g s with
            | Some x => if parser_accepts g x then Some (g, x) else try_formats rest s
            | None => try_formats rest s
            end
        end
    end.

  Definition read_detect (order : list string) (s : source) : option (fmt * pin) :=
    match read_content s with Some c => try_formats order c | None => None end.
End Dispatch.
