(* TimeProofs.v — datetime values through the serializers: with iso_roundtrip the
   value-level round-trip theorems of JsonProofs.v / XmlProofs.v extend to datetimes. *)
From Coq Require Import String Ascii List Bool Arith ZArith Lia.
From Prov Require Import Str Sexp Tables Nsm NsmProofs Scope Values Record RecordProofs World Jtree Json JsonProofs
  Xml XmlProofs IsoDigits IsoProofs.
Import ListNotations.
Open Scope string_scope.

Lemma parse_datetime_print : forall t, valid_dt t = true -> parse_datetime (iso_print t) = DtOk t.
Proof. intros t H. unfold parse_datetime. rewrite (iso_roundtrip t H). reflexivity. Qed.

Lemma xsd_datetime_parser : lookup "dateTime" xsd_parsers = Some "datetime".
Proof. vm_compute. reflexivity. Qed.

Theorem entry_path_datetime : forall c m lex t pfx l,
  lookup l xsd_parsers = Some "datetime" -> parse_datetime lex = DtOk t ->
  auto_conv c m (ALit lex (Some (mkQn (mkNs pfx xsd_uri) l)) None) = Done m (Some (VTime t)).
Proof.
  intros c m lex t pfx l H P. cbn [auto_conv]. unfold parse_xsd.
  rewrite (xsd_kind _ _ H pfx), H, P. reflexivity.
Qed.

Theorem entry_path_datetime_print : forall c m t pfx l, lookup l xsd_parsers = Some "datetime" -> valid_dt t = true ->
  auto_conv c m (ALit (iso_print t) (Some (mkQn (mkNs pfx xsd_uri) l)) None) = Done m (Some (VTime t)).
Proof.
  intros c m t pfx l H V.
  exact (entry_path_datetime c m (iso_print t) t pfx l H (parse_datetime_print t V)).
Qed.

Theorem json_value_roundtrip_time : forall c m t, Builtins m -> valid_dt t = true ->
  reinsert c m (VTime t) = Done m (Some (VTime t)).
Proof.
  intros c m t B V. unfold reinsert, encode_value.
  cbn [decode_value lookup String.eqb Ascii.eqb Bool.eqb].
  change "xsd:dateTime" with ("xsd:" ++ "dateTime"). rewrite (vqn_builtin_xsd _ _ _ B).
  rewrite xsd_anyuri_is, xsd_not_provqn. cbn [String.eqb Ascii.eqb Bool.eqb jscalar_str].
  apply (entry_path_datetime c m (iso_print t) t "xsd" "dateTime" xsd_datetime_parser).
  apply parse_datetime_print. exact V.
Qed.

(* ---- PROV-XML *)
Lemma take_digits_first : forall n acc s v r,
  take_digits (S n) acc s = Some (v, r) -> exists c s', s = String c s' /\ digit_val c <> None.
Proof.
  intros n acc s v r H. destruct s as [|c s']; cbn [take_digits] in H; [discriminate|].
  exists c, s'. split; [reflexivity|]. destruct (digit_val c); [discriminate | discriminate].
Qed.

Lemma pad4_first : forall y, (0 <= y < 10000)%Z -> exists c s', pad 4 y = String c s' /\ digit_val c <> None.
Proof.
  intros y Hy.
  assert (H : field_ok 4 y = true).
  { apply (proj1 (forallb_forall _ _) all4). apply in_zrange. change (Z.of_nat 10000) with 10000%Z. lia. }
  unfold field_ok in H. destruct (take_digits 4 0%Z (pad 4 y)) as [[v r]|] eqn:E; [|discriminate].
  apply (take_digits_first _ _ _ _ _ E).
Qed.

Lemma iso_print_not_prov : forall t, valid_dt t = true -> starts_with "prov:" (iso_print t) = false.
Proof.
  intros t V. destruct (valid_dt_bounds t V) as [Hb _].
  rewrite iso_print_shape.
  destruct (pad4_first (dy t)) as [c [s' [E D]]]; [lia|]. rewrite E.
  change (String c s' ++ ?x) with (String c (s' ++ x)).
  cbn [starts_with]. destruct (Ascii.eqb "p" c) eqn:P; [|reflexivity].
  apply Ascii.eqb_eq in P. subst c. exfalso. apply D. reflexivity.
Qed.

(* a datetime on an ordinary attribute: typed xsd:dateTime, both values of force_types *)
Theorem xml_value_time : forall ft c m a t, Builtins m -> plain_attr a ->
  valid_dt t = true ->
  xml_reinsert ft c m a (VTime t) = Done m (Some (VTime t)).
Proof.
  intros ft c m a t B [Q [T L]] V. unfold xml_reinsert, xml_emit. norm_always. cbn [prov_str]. cbn [value_str].
  rewrite Q, L, T. cbn [andb negb].
  cond_true ft a.
  unfold xml_read; cbn [x_text x_type x_lang x_ref]. rewrite xml_name_vqn.
  change "xsd:dateTime" with ("xsd:" ++ "dateTime"). rewrite (vqn_builtin_xsd _ _ _ B).
  rewrite xsd_not_qname by discriminate. unfold insert_value. rewrite Q, T.
  apply (entry_path_datetime c m (iso_print t) t "xsd" "dateTime" xsd_datetime_parser).
  apply parse_datetime_print. exact V.
Qed.

(* a datetime on prov:time / prov:startTime / prov:endTime: plain text, no xsi:type, parsed on insertion *)
Theorem xml_value_formal_time : forall ft c m a t, is_qname_attr a = false -> is_time_attr a = true ->
  valid_dt t = true ->
  xml_reinsert ft c m a (VTime t) = Done m (Some (VTime t)).
Proof.
  intros ft c m a t Q T V. unfold xml_reinsert, xml_emit. norm_always. cbn [prov_str]. cbn [value_str].
  rewrite Q, T. cbn [andb negb].
  match goal with |- context [if ?cnd then (None, iso_print t) else (None, iso_print t)] => destruct cnd end;
    unfold xml_read; cbn [x_text x_type x_lang x_ref];
    unfold insert_value; rewrite Q, T; cbn [time_value]; rewrite (parse_datetime_print t V); reflexivity.
Qed.

Example formal_time_attrs :
  forall l, In l ["time"; "startTime"; "endTime"] ->
  is_qname_attr (prov_qn l) = false /\ is_time_attr (prov_qn l) = true.
Proof. intros l [<-|[<-|[<-|[]]]]; vm_compute; repeat split; reflexivity. Qed.
