(* InterpProofs.v — frame property of the interpreter (C12): a step changes at most
   its target document; deriving operations only append new documents. *)
From Coq Require Import String Ascii List Bool Arith ZArith Lia.
From Prov Require Import Str Sexp Tables Nsm Values Record World Interp.
Import ListNotations.
Open Scope string_scope.

Definition cref_doc (c : cref) : nat := match c with CDoc d => d | CBun d _ => d end.

(* the document a call may modify *)
Definition target (o : op) : option nat :=
  match o with
  | OAddNs c _ _ | OSetDefault c _ | OResolve c _ | ONewRecord c _ _ _ | OFactory c _ _ _ _
  | OAddRecord c _ | OUpdate c _ | OGetRecord c _ => Some (cref_doc c)
  | ONewBundle d _ | OAddBundleDoc d _ _ _ => Some d
  | OAddAttrs (RRef c _) _ | OSetTime (RRef c _) _ _ | OAddType (RRef c _) _ => Some (cref_doc c)
  | _ => None
  end.

Lemma nth_set_nth_other {T} : forall (l : list T) i j v, i <> j -> nth_error (World.set_nth i v l) j = nth_error l j.
Proof.
  induction l as [|a l IH]; intros [|i] [|j] v N; simpl; try reflexivity; try congruence.
  apply IH. congruence.
Qed.

Lemma frame_set_doc : forall w t dd d, d <> t -> nth_error (wdocs (set_doc w t dd)) d = nth_error (wdocs w) d.
Proof. intros. unfold set_doc; simpl. apply nth_set_nth_other. congruence. Qed.

Lemma frame_set_cont : forall w c b d, d <> cref_doc c ->
  nth_error (wdocs (set_cont w c b)) d = nth_error (wdocs w) d.
Proof.
  intros w c b d N. unfold set_cont. destruct c as [t|t i]; simpl in N.
  - destruct (get_doc w t); [apply frame_set_doc; exact N | reflexivity].
  - destruct (get_doc w t) as [dd|]; [|reflexivity].
    destruct (nth_error (dbundles dd) i) as [[k ?]|]; [apply frame_set_doc; exact N | reflexivity].
Qed.

Lemma frame_app : forall (w : world) x d, d < length (wdocs w) ->
  nth_error (wdocs w ++ [x])%list d = nth_error (wdocs w) d.
Proof. intros. apply nth_error_app1. assumption. Qed.

Ltac frame_step :=
  repeat (match goal with
          | |- context [match ?x with _ => _ end] => destruct x eqn:?
          | |- context [if ?x then _ else _] => destruct x eqn:?
          end; cbn [fst snd wdocs]);
  cbn [cref_doc] in *;
  repeat (first [ rewrite frame_set_doc by congruence
                | rewrite frame_set_cont by (cbn [cref_doc]; congruence)
                | rewrite frame_app by assumption ]);
  try reflexivity.

(* C12: a call changes at most its target document; every other existing document
   is exactly as before, whatever the call returns or raises *)
Theorem step_frame : forall w o d,
  d < length (wdocs w) -> Some d <> target o ->
  nth_error (wdocs (fst (step w o))) d = nth_error (wdocs w) d.
Proof.
  intros w o d L N.
  destruct o as [ |c p u|c u|c x|t x|c k i attrs|c f i args other|[c i] attrs|[c i] s e|[c i] v
                 |c r|c o|t src x order|t|t|c|c x|c cls|a b|a b|t|jt|t|t|t| ];
    cbn [step target cref_doc] in *; unfold with_cont; cbn [fst snd wdocs].
  all: frame_step.
Qed.

Lemma length_set_nth {T} : forall (l : list T) i v, length (World.set_nth i v l) = length l.
Proof. induction l as [|a l IH]; intros [|i] v; simpl; try reflexivity. rewrite IH. reflexivity. Qed.

Lemma length_set_doc : forall w t dd, length (wdocs (set_doc w t dd)) = length (wdocs w).
Proof. intros. unfold set_doc; simpl. apply length_set_nth. Qed.

Lemma length_set_cont : forall w c b, length (wdocs (set_cont w c b)) = length (wdocs w).
Proof.
  intros w c b. unfold set_cont. destruct c as [t|t i].
  - destruct (get_doc w t); [apply length_set_doc | reflexivity].
  - destruct (get_doc w t) as [dd|]; [|reflexivity].
    destruct (nth_error (dbundles dd) i) as [[k ?]|]; [apply length_set_doc | reflexivity].
Qed.

Ltac length_step :=
  repeat (match goal with
          | |- context [match ?x with _ => _ end] => destruct x eqn:?
          | |- context [if ?x then _ else _] => destruct x eqn:?
          end; cbn [fst snd wdocs]);
  repeat (first [ rewrite length_set_doc | rewrite length_set_cont | rewrite app_length; cbn [length] ]);
  try lia.

(* handles stay valid: no call ever removes a document; deriving calls append *)
Theorem step_length : forall w o, length (wdocs w) <= length (wdocs (fst (step w o))).
Proof.
  intros w o.
  destruct o as [ |c p u|c u|c x|t x|c k i attrs|c f i args other|[c i] attrs|[c i] s e|[c i] v
                 |c r|c o|t src x order|t|t|c|c x|c cls|a b|a b|t|jt|t|t|t| ];
    cbn [step]; unfold with_cont; cbn [fst snd wdocs].
  all: length_step.
Qed.

(* ------------------------------------------------------------------ C18: coherence of every
   container is an invariant of the interpreter *)
From Prov Require Import WorldProofs Jtree Json JsonProofs.

Ltac coh_b :=
  first
    [ assumption
    | apply Coherent_init
    | apply Coherent_empty
    | apply Coherent_with_ns; coh_b
    | eapply new_record_coherent; [ | eassumption ]; coh_b
    | eapply factory_call_coherent; [ | eassumption ]; coh_b
    | eapply add_record_coherent; [ | eassumption ]; coh_b
    | eapply add_records_coherent; [ | eassumption ]; coh_b
    | eapply Coherent_upd;
        [ coh_b | eassumption
        | first [ reflexivity
                | eapply add_attributes_done_rid; eassumption
                | eapply add_attributes_fail_rid; eassumption ] ]
    | eapply WCoh_get_cont; [ | eassumption ]; assumption ].

Ltac coh_w :=
  match goal with
  | |- WCoh (set_cont _ _ _) => apply WCoh_set_cont; [ coh_w | coh_b ]
  | |- WCoh (set_doc _ _ _) => apply WCoh_set_doc; [ coh_w | coh_d ]
  | |- WCoh (mkW (_ ++ [_])%list _) => apply WCoh_app; [ coh_w | coh_d ]
  | |- WCoh _ => assumption
  end
with coh_d :=
  first
    [ assumption
    | apply DCoh_main; coh_b
    | eapply doc_new_bundle_coh; [ | eassumption ]; coh_d
    | eapply merge_bundles_coh; [ | eassumption ]; coh_d
    | eapply unify_bundles_coh; [ | eassumption ]; coh_d
    | eapply doc_unified_coh; eassumption
    | eapply (fun ft g nd H => proj1 (graph_to_prov_coh ft g nd H)); eassumption
    | apply DCoh_attach; [ coh_d | coh_b ]
    | eapply (fun ft t nd H => proj1 (decode_doc_inv ft t nd H)); eassumption
    | eapply WCoh_get_doc; [ | eassumption ]; coh_w ].

Ltac coh_step :=
  repeat (match goal with
          | |- context [match ?x with _ => _ end] => destruct x eqn:?
          | |- context [if ?x then _ else _] => destruct x eqn:?
          end; cbn [fst snd]);
  try coh_w.

Theorem step_coherent : forall w o, WCoh w -> WCoh (fst (step w o)).
Proof.
  intros w o W.
  destruct o as [ |c p u|c u|c x|t x|c k i attrs|c f i args other|[c i] attrs|[c i] s e|[c i] v
                 |c r|c o|t src x order|t|t|c|c x|c cls|a b|a b|t|jt|t|t|t| ];
    cbn [step]; unfold with_cont; cbn [fst snd].
  all: coh_step.
Qed.

Definition wrun (ft : ftable) (ops : list op) : world :=
  fold_left (fun w o => fst (step w o)) ops (mkW [] ft).

Theorem reachable_coherent : forall ft ops, WCoh (wrun ft ops).
Proof.
  intros ft ops. unfold wrun.
  assert (G : forall w, WCoh w -> WCoh (fold_left (fun w o => fst (step w o)) ops w)).
  { induction ops as [|o ops IH]; intros w W; cbn [fold_left]; [exact W|].
    apply IH. apply step_coherent. exact W. }
  apply G. constructor.
Qed.

(* lookup through a coherent identifier map is a scan of the record list *)
Lemma positions_filter : forall l pre k,
  flat_map (fun i => match nth_error (pre ++ l)%list i with Some r => [r] | None => [] end)
           (positions_from (length pre) k l) = filter (has_uri k) l.
Proof.
  induction l as [|r l IH]; intros pre k; cbn [positions_from filter]; [reflexivity|].
  rewrite flat_map_app.
  assert (E : (pre ++ r :: l)%list = ((pre ++ [r]) ++ l)%list) by (rewrite <- app_assoc; reflexivity).
  rewrite E. replace (S (length pre)) with (length (pre ++ [r])%list) by (rewrite app_length; cbn; lia).
  rewrite IH. destruct (has_uri k r); cbn [flat_map app]; [|reflexivity].
  rewrite <- E. rewrite nth_error_app2 by lia. rewrite Nat.sub_diag. reflexivity.
Qed.

Theorem get_record_spec : forall w c b x m q,
  get_cont w c = Some b -> Coherent b ->
  resolve (parent_ns w c) (bns b) x = OK (m, Some q) ->
  snd (step w (OGetRecord c (Some x))) = RRecs (filter (has_uri (qn_uri q)) (brecs b)).
Proof.
  intros w c b x m q G C R. cbn [step]. unfold with_cont. rewrite G, R. cbn [snd]. f_equal.
  pose proof (C (qn_uri q)) as Ck. unfold idmap_get in Ck. rewrite Ck.
  apply (positions_filter (brecs b) [] (qn_uri q)).
Qed.

Theorem get_records_spec : forall w c b cls,
  get_cont w c = Some b ->
  snd (step w (OGetRecords c cls)) =
  RRecs (match cls with None => brecs b | Some cn => filter (instance_of cn) (brecs b) end).
Proof. intros w c b cls G. cbn [step]. unfold with_cont. rewrite G. reflexivity. Qed.

(* ------------------------------------------------------------------ C09 *)
(* add_bundle(document): whenever it raises — nested bundles, missing, invalid or
   duplicate identifier, a failing record — the world is exactly as before *)
Theorem add_bundle_refusal_unchanged : forall w d src x order e,
  snd (step w (OAddBundleDoc d src x order)) = RRaise e ->
  fst (step w (OAddBundleDoc d src x order)) = w.
Proof.
  intros w d src x order e. cbn [step].
  repeat (match goal with
          | |- context [match ?x with _ => _ end] => destruct x eqn:?
          | |- context [if ?x then _ else _] => destruct x eqn:?
          end; cbn [fst snd]);
  intros H; try reflexivity; try discriminate H.
Qed.

(* the documented refusals: a document with nested bundles, a missing identifier *)
Theorem add_bundle_refuses_nested : forall w d src x order dd sd,
  get_doc w d = Some dd -> get_doc w src = Some sd -> dbundles sd <> [] ->
  step w (OAddBundleDoc d src x order) = (w, RRaise EProv).
Proof.
  intros w d src x order dd sd G1 G2 NE. cbn [step]. rewrite G1, G2.
  destruct (dbundles sd); [contradiction | reflexivity].
Qed.

Theorem add_bundle_refuses_missing_id : forall w d src order,
  snd (step w (OAddBundleDoc d src None order)) <> RUnit.
Proof.
  intros w d src order. cbn [step].
  repeat (match goal with
          | |- context [match ?x with _ => _ end] => destruct x eqn:?
          | |- context [if ?x then _ else _] => destruct x eqn:?
          end; cbn [fst snd]); discriminate.
Qed.

(* flattened(): the new document has no bundles and as many records as the source
   and its bundles together *)
Lemma add_records_length : forall par ft rs b b',
  add_records par ft b rs = (b', OK tt) -> length (brecs b') = length (brecs b) + length rs.
Proof.
  induction rs as [|r rs IH]; intros b b' H; cbn [add_records] in H.
  - inversion H; subst. cbn. lia.
  - destruct (add_record par ft b r) as [b1 [y|e|]] eqn:E; try discriminate.
    apply IH in H. rewrite H. cbn [length].
    unfold add_record in E. destruct (negb (formal_single r)); [discriminate|].
    unfold new_record in E.
    destruct (match option_map NQn (rid r) with None => Done (bns b) None | Some x0 => resolve_o _ (bns b) x0 end)
      as [m1 idq|m1 e|]; try discriminate.
    destruct (new_prec _ m1 (rkind r) idq _) as [m2 r2|m2 e|]; inversion E; subst.
    unfold add_rec_to; cbn [brecs with_ns]. rewrite app_length. cbn. lia.
Qed.

Theorem flattened_count : forall w d dd h,
  get_doc w d = Some dd -> dbundles dd <> [] ->
  snd (step w (OFlattened d)) = RHandle h ->
  exists nd, get_doc (fst (step w (OFlattened d))) h = Some nd /\ dbundles nd = [] /\
    length (brecs (dmain nd)) =
    length (brecs (dmain dd)) + length (flat_map (fun kb => brecs (snd kb)) (dbundles dd)).
Proof.
  intros w d dd h G NE. cbn [step]. rewrite G.
  destruct (dbundles dd) as [|b0 bs] eqn:EB; [contradiction|].
  destruct (add_records None (wft w) (bundle_init None) _) as [nb [[]|e|]] eqn:EA; cbn [fst snd]; intros H;
    try discriminate.
  inversion H; subst. exists (mkD nb []). split; [|split; [reflexivity|]].
  - unfold get_doc; cbn [wdocs]. rewrite nth_error_app2 by lia. rewrite Nat.sub_diag. reflexivity.
  - apply add_records_length in EA. cbn [dmain brecs bundle_init] in *. rewrite EA, app_length. cbn. lia.
Qed.

(* ------------------------------------------------------------------ C04: the bundle dictionary
   of every reachable document has unique keys (the hypothesis of doc_eqb_iff) *)
From Prov Require Import StrProofs.

Definition WUniq (w : world) : Prop := Forall (fun dd => uniq (dbundles dd)) (wdocs w).

Lemma uniq_snoc {V} : forall (d : list (string * V)) k v, uniq d -> mem k d = false -> uniq (d ++ [(k, v)])%list.
Proof.
  intros d k v U M. unfold uniq in *. rewrite map_app. cbn. apply NoDup_snoc; [exact U|].
  intro H. apply in_map_iff in H. destruct H as [[k' v'] [E Hin]]. cbn in E. subst k'.
  destruct (In_lookup_some _ _ _ Hin) as [x L]. unfold mem in M. rewrite L in M. discriminate.
Qed.

Lemma map_fst_set_nth {V} : forall (l : list (string * V)) i k v k0 v0,
  nth_error l i = Some (k0, v0) -> k = k0 -> map fst (World.set_nth i (k, v) l) = map fst l.
Proof.
  induction l as [|x l IH]; intros [|i] k v k0 v0 H E; cbn in *; try discriminate.
  - inversion H; subst. reflexivity.
  - f_equal. eapply IH; eauto.
Qed.

Lemma uniq_set_nth {V} : forall (l : list (string * V)) i k v v0,
  uniq l -> nth_error l i = Some (k, v0) -> uniq (World.set_nth i (k, v) l).
Proof. intros. unfold uniq in *. erewrite map_fst_set_nth; eauto. Qed.

Lemma doc_new_bundle_uniq : forall dd x ft dd' r, uniq (dbundles dd) -> doc_new_bundle dd x ft = (dd', r) -> uniq (dbundles dd').
Proof.
  intros dd x ft dd' r U H. unfold doc_new_bundle in H.
  destruct x as [n|]; [|inversion H; subst; exact U].
  destruct (resolve None (bns (dmain dd)) n) as [[m [q|]]|e|]; try (inversion H; subst; exact U).
  cbn [dmain dbundles] in H.
  destruct (mem (qn_uri q) (dbundles dd)) eqn:M; inversion H; subst; cbn [dbundles]; [exact U|].
  apply uniq_snoc; assumption.
Qed.

Lemma merge_bundles_uniq : forall ft bs dd dd' r, uniq (dbundles dd) -> merge_bundles ft dd bs = (dd', r) -> uniq (dbundles dd').
Proof.
  induction bs as [|[k sb] bs IH]; intros dd dd' r U H; cbn [merge_bundles] in H.
  - inversion H; subst; exact U.
  - destruct sb as [[sid|] sns srecs smap]; [|inversion H; subst; exact U].
    cbv zeta in H.
    destruct (find _ (combine _ (dbundles dd))) as [[i ?]|].
    + destruct (nth_error (dbundles dd) i) as [[k1 tb]|] eqn:E1; [|inversion H; subst; exact U].
      destruct (add_records _ ft tb srecs) as [tb' [y|e|]] eqn:EA.
      * eapply IH; [|exact H]. cbn [dbundles]. eapply uniq_set_nth; eauto.
      * inversion H; subst. cbn [dbundles]. eapply uniq_set_nth; eauto.
      * inversion H; subst. exact U.
    + destruct (doc_new_bundle dd (Some (NQn sid)) ft) as [dd1 [y|e|]] eqn:EN;
        try (inversion H; subst; eapply doc_new_bundle_uniq; eauto; fail).
      pose proof (doc_new_bundle_uniq _ _ _ _ _ U EN) as U1.
      destruct (nth_error (dbundles dd1) (length (dbundles dd1) - 1)) as [[k1 tb]|] eqn:E1;
        [|inversion H; subst; exact U1].
      destruct (add_records _ ft tb srecs) as [tb' [y2|e|]] eqn:EA.
      * eapply IH; [|exact H]. cbn [dbundles]. eapply uniq_set_nth; eauto.
      * inversion H; subst. cbn [dbundles]. eapply uniq_set_nth; eauto.
      * inversion H; subst. exact U1.
Qed.

Lemma attach_bundle_uniq : forall dd b dd' r, uniq (dbundles dd) -> attach_bundle dd b = (dd', r) -> uniq (dbundles dd').
Proof.
  intros dd b dd' r U H. unfold attach_bundle in H.
  destruct (bid b) as [i|]; [|inversion H; subst; exact U].
  destruct (resolve _ (bns b) (NQn i)) as [[m [q|]]|e|]; try (inversion H; subst; exact U).
  destruct (mem (qn_uri q) (dbundles dd)) eqn:M; inversion H; subst; [exact U|].
  cbn [dbundles]. apply uniq_snoc; assumption.
Qed.

Lemma unify_bundles_uniq : forall ft bs nd nd', uniq (dbundles nd) -> unify_bundles ft bs nd = OK nd' -> uniq (dbundles nd').
Proof.
  induction bs as [|[k b] bs IH]; intros nd nd' U H; cbn [unify_bundles] in H.
  - inversion H; subst; exact U.
  - destruct (bundle_unified ft b) as [nb|e|]; try discriminate.
    destruct (attach_bundle nd nb) as [nd1 [y|e|]] eqn:EA; try discriminate.
    eapply IH; [|exact H]. eapply attach_bundle_uniq; eauto.
Qed.

Lemma doc_unified_uniq : forall ft dd nd, doc_unified ft dd = OK nd -> uniq (dbundles nd).
Proof.
  intros ft dd nd H. unfold doc_unified in H.
  destruct (add_namespaces nsm_init _) as [m0|]; [|discriminate].
  destruct (unified_records ft (dmain dd)) as [urecs|e|]; try discriminate.
  destruct (add_records None ft _ urecs) as [nmain [y|e|]] eqn:EA; try discriminate.
  eapply unify_bundles_uniq; [|exact H]. constructor.
Qed.

Lemma WUniq_get_doc : forall w d dd, WUniq w -> get_doc w d = Some dd -> uniq (dbundles dd).
Proof.
  intros w d dd W G. unfold WUniq in W. rewrite Forall_forall in W.
  apply (W dd). eapply nth_error_In; eauto.
Qed.
Lemma WUniq_set_doc : forall w d dd, WUniq w -> uniq (dbundles dd) -> WUniq (set_doc w d dd).
Proof. intros. unfold WUniq, set_doc; cbn. apply Forall_set_nth; assumption. Qed.
Lemma WUniq_set_cont : forall w c b, WUniq w -> WUniq (set_cont w c b).
Proof.
  intros w c b W. unfold set_cont. destruct c as [d|d i].
  - destruct (get_doc w d) as [dd|] eqn:E; [|exact W]. apply WUniq_set_doc; [exact W|].
    cbn [dbundles]. eapply WUniq_get_doc; eauto.
  - destruct (get_doc w d) as [dd|] eqn:E; [|exact W].
    destruct (nth_error (dbundles dd) i) as [[k bb]|] eqn:E2; [|exact W].
    apply WUniq_set_doc; [exact W|]. cbn [dbundles]. eapply uniq_set_nth; [eapply WUniq_get_doc; eauto | eauto].
Qed.
Lemma WUniq_app : forall w nd ft, WUniq w -> uniq (dbundles nd) -> WUniq (mkW (wdocs w ++ [nd])%list ft).
Proof. intros. unfold WUniq; cbn. apply Forall_app. split; [assumption | constructor; [assumption|constructor]]. Qed.
Lemma uniq_nil {V} : uniq (@nil (string * V)).
Proof. constructor. Qed.

Ltac uq_d :=
  first
    [ assumption
    | apply uniq_nil
    | eapply doc_new_bundle_uniq; [ | eassumption ]; uq_d
    | eapply merge_bundles_uniq; [ | eassumption ]; uq_d
    | eapply unify_bundles_uniq; [ | eassumption ]; uq_d
    | eapply doc_unified_uniq; eassumption
    | match goal with H : graph_to_prov _ _ = OK ?nd |- uniq (dbundles ?nd) =>
        rewrite (proj2 (graph_to_prov_coh _ _ _ H)); apply uniq_nil end
    | cbn [dbundles]; apply uniq_snoc; [ uq_d | assumption ]
    | eapply (fun ft t nd H => proj2 (decode_doc_inv ft t nd H)); eassumption
    | eapply WUniq_get_doc; [ | eassumption ]; uq_w ]
with uq_w :=
  match goal with
  | |- WUniq (set_cont _ _ _) => apply WUniq_set_cont; uq_w
  | |- WUniq (set_doc _ _ _) => apply WUniq_set_doc; [ uq_w | uq_d ]
  | |- WUniq (mkW (_ ++ [_])%list _) => apply WUniq_app; [ uq_w | uq_d ]
  | |- WUniq _ => assumption
  end.

Theorem step_uniq : forall w o, WUniq w -> WUniq (fst (step w o)).
Proof.
  intros w o W.
  destruct o as [ |c p u|c u|c x|t x|c k i attrs|c f i args other|[c i] attrs|[c i] s e|[c i] v
                 |c r|c o|t src x order|t|t|c|c x|c cls|a b|a b|t|jt|t|t|t| ];
    cbn [step]; unfold with_cont; cbn [fst snd].
  all: repeat (match goal with
          | |- context [match ?x with _ => _ end] => destruct x eqn:?
          | |- context [if ?x then _ else _] => destruct x eqn:?
          end; cbn [fst snd]); try uq_w.
Qed.

Theorem reachable_uniq : forall ft ops, WUniq (wrun ft ops).
Proof.
  intros ft ops. unfold wrun.
  assert (G : forall w, WUniq w -> WUniq (fold_left (fun w o => fst (step w o)) ops w)).
  { induction ops as [|o ops IH]; intros w W; cbn [fold_left]; [exact W|].
    apply IH. apply step_uniq. exact W. }
  apply G. constructor.
Qed.

(* ------------------------------------------------------------------ C13 *)
Definition exporter (o : op) : bool :=
  match o with
  | OExportJson _ | OExportProvn _ | OToGraph _ | OEq _ _ | OEqRec _ _ | OGetRecords _ _ | OObserveAll => true
  | _ => false
  end.

(* the pure exporters return the world they were given *)
Theorem exporter_pure : forall w o, exporter o = true -> fst (step w o) = w.
Proof.
  intros w o E. destruct o; try discriminate E; cbn [step]; unfold with_cont;
    repeat (match goal with
            | |- context [match ?x with _ => _ end] => destruct x eqn:?
            end; cbn [fst snd]); reflexivity.
Qed.

(* hence repeatable: the same export on the resulting world gives the same answer *)
Theorem exporter_repeatable : forall w o, exporter o = true -> step (fst (step w o)) o = step w o.
Proof. intros w o E. rewrite (exporter_pure w o E). reflexivity. Qed.

(* the composite exporters (unified, flattened, graph round trip, document from
   records) leave every existing document as it was *)
Definition deriving (o : op) : bool :=
  match o with
  | OUnified _ | OFlattened _ | OGraphRoundTrip _ | ODocFromRecords _ | OLoadJson _ => true
  | _ => false
  end.

Theorem deriving_frame : forall w o d, deriving o = true -> d < length (wdocs w) ->
  nth_error (wdocs (fst (step w o))) d = nth_error (wdocs w) d.
Proof.
  intros w o d E L. apply step_frame; [exact L|]. destruct o; try discriminate E; cbn [target]; discriminate.
Qed.

(* ---- export calls anywhere in a history change nothing that comes after: the world a history builds is the world the
   history builds with its export calls struck out *)
Definition strip_exports (ops : list op) : list op := filter (fun o => negb (exporter o)) ops.

Lemma fold_strip : forall ops w,
  fold_left (fun w o => fst (step w o)) ops w = fold_left (fun w o => fst (step w o)) (strip_exports ops) w.
Proof.
  induction ops as [|o ops IH]; intros w; [reflexivity|].
  cbn [fold_left strip_exports filter]. fold (strip_exports ops).
  destruct (exporter o) eqn:E; cbn [negb].
  - rewrite (exporter_pure w o E). apply IH.
  - cbn [fold_left]. apply IH.
Qed.

Theorem wrun_strip : forall ft ops, wrun ft ops = wrun ft (strip_exports ops).
Proof. intros ft ops. unfold wrun. apply fold_strip. Qed.

(* two histories that make the same calls once their export calls are struck out — one exported after every call, say,
   the other never — build the same world, so every later call (export or not) answers the same on both *)
Theorem same_calls_same_world : forall ft ops1 ops2,
  strip_exports ops1 = strip_exports ops2 -> wrun ft ops1 = wrun ft ops2.
Proof. intros ft ops1 ops2 H. rewrite (wrun_strip ft ops1), (wrun_strip ft ops2), H. reflexivity. Qed.

Theorem same_calls_same_exports : forall ft ops1 ops2 o,
  strip_exports ops1 = strip_exports ops2 -> step (wrun ft ops1) o = step (wrun ft ops2) o.
Proof. intros ft ops1 ops2 o H. rewrite (same_calls_same_world ft ops1 ops2 H). reflexivity. Qed.
