(* Jtree.v — the generic JSON tree (boundary between prov's code and the json
   library) and its wire format. *)
From Coq Require Import String Ascii List Bool Arith ZArith.
From Prov Require Import Str Sexp Nsm Values.
Import ListNotations.
Open Scope string_scope.

Inductive jv : Type :=
| JNull
| JBool (b : bool)
| JInt (z : Z)
| JFloat (r : string) (iv : option Z) (g : string)
| JStr (s : string)
| JArr (l : list jv)
| JObj (l : list (string * jv)).

(* ------------------------------------------------------------------ wire format *)
Fixpoint sx_jv (v : jv) : sexp :=
  match v with
  | JNull => L [A "null"]
  | JBool b => L [A (if b then "true" else "false")]
  | JInt z => L [A "int"; sx_Z z]
  | JFloat r iv g => L [A "float"; A r; sx_opt sx_Z iv; A g]
  | JStr s => L [A "str"; A s]
  | JArr l => L (A "arr" :: map sx_jv l)
  | JObj l => L (A "obj" :: map (fun kv => L [A (fst kv); sx_jv (snd kv)]) l)
  end.

Fixpoint px_jv (fuel : nat) (x : sexp) : option jv :=
  match fuel with
  | O => None
  | S f =>
      match x with
      | L [A "null"] => Some JNull
      | L [A "true"] => Some (JBool true)
      | L [A "false"] => Some (JBool false)
      | L [A "int"; z] => option_map JInt (px_Z z)
      | L [A "float"; A r; iv; A g] => match px_optZ iv with Some i => Some (JFloat r i g) | None => None end
      | L [A "str"; A s] => Some (JStr s)
      | L (A "arr" :: l) =>
          option_map JArr
            ((fix go (l : list sexp) : option (list jv) :=
                match l with
                | [] => Some []
                | y :: r => match px_jv f y, go r with
                            | Some a, Some b => Some (a :: b)
                            | _, _ => None
                            end
                end) l)
      | L (A "obj" :: l) =>
          option_map JObj
            ((fix go (l : list sexp) : option (list (string * jv)) :=
                match l with
                | [] => Some []
                | L [A k; y] :: r => match px_jv f y, go r with
                                     | Some a, Some b => Some ((k, a) :: b)
                                     | _, _ => None
                                     end
                | _ => None
                end) l)
      | _ => None
      end
  end.
