(* Str.v — byte-string helpers used by the model (Python str operations that the
   modelled code relies on: startswith, split(":",1), replace(x,""), "in", join,
   str(int)).  Strings are Coq [string]s holding UTF-8 bytes. *)
From Coq Require Import String Ascii List Bool Arith ZArith DecimalString DecimalZ Decimal.
Import ListNotations.
Open Scope string_scope.

(* s.startswith(p) *)
Fixpoint starts_with (p s : string) : bool :=
  match p with
  | EmptyString => true
  | String a p' =>
      match s with
      | EmptyString => false
      | String b s' => if Ascii.eqb a b then starts_with p' s' else false
      end
  end.

Definition colon : ascii := ":"%char.

(* s.split(":", 1) when ":" in s *)
Fixpoint split_colon (s : string) : option (string * string) :=
  match s with
  | EmptyString => None
  | String c s' =>
      if Ascii.eqb c colon then Some (EmptyString, s')
      else match split_colon s' with
           | Some (a, b) => Some (String c a, b)
           | None => None
           end
  end.

Definition has_colon (s : string) : bool :=
  match split_colon s with Some _ => true | None => false end.

(* s.replace(old, "") for non-empty old: drop every non-overlapping occurrence,
   scanning left to right.  [skip] counts characters of a matched occurrence that
   are still to be dropped. *)
Fixpoint repl (old s : string) (skip : nat) : string :=
  match s with
  | EmptyString => EmptyString
  | String c s' =>
      match skip with
      | S k => repl old s' k
      | O => if starts_with old s then repl old s' (String.length old - 1)
             else String c (repl old s' 0)
      end
  end.

Definition remove_all (old s : string) : string := repl old s 0.

Fixpoint drop (n : nat) (s : string) : string :=
  match n with
  | O => s
  | S k => match s with EmptyString => EmptyString | String _ s' => drop k s' end
  end.

(* str(n) for a natural number *)
Definition nat_to_str (n : nat) : string := NilEmpty.string_of_uint (Nat.to_uint n).
Definition str_of_nat (n : nat) : string :=
  match n with O => "0" | _ => nat_to_str n end.

(* str(z) for an int *)
Definition str_of_Z (z : Z) : string := NilZero.string_of_int (Z.to_int z).

Fixpoint concat_str (sep : string) (l : list string) : string :=
  match l with
  | [] => ""
  | [x] => x
  | x :: r => x ++ sep ++ concat_str sep r
  end.

(* Python str.isspace() restricted to ASCII: space, \t \n \v \f \r, 0x1c-0x1f *)
Definition is_space_ascii (c : ascii) : bool :=
  let n := nat_of_ascii c in
  (Nat.eqb n 32) || (Nat.leb 9 n && Nat.leb n 13) || (Nat.leb 28 n && Nat.leb n 31).

Fixpoint all_chars (f : ascii -> bool) (s : string) : bool :=
  match s with EmptyString => true | String c s' => f c && all_chars f s' end.

Fixpoint contains_char (c : ascii) (s : string) : bool :=
  match s with EmptyString => false | String d s' => Ascii.eqb c d || contains_char c s' end.

(* "sub in s" *)
Fixpoint contains_str (sub s : string) : bool :=
  starts_with sub s ||
  match s with EmptyString => false | String _ s' => contains_str sub s' end.

(* insertion-ordered dictionary with string keys (Python dict) *)
Section Dict.
  Context {V : Type}.
  Fixpoint lookup (k : string) (d : list (string * V)) : option V :=
    match d with
    | [] => None
    | (k', v) :: r => if String.eqb k k' then Some v else lookup k r
    end.
  (* d[k] = v : overwrite keeps the original position, a new key goes last *)
  Fixpoint dset (k : string) (v : V) (d : list (string * V)) : list (string * V) :=
    match d with
    | [] => [(k, v)]
    | (k', v') :: r => if String.eqb k k' then (k', v) :: r else (k', v') :: dset k v r
    end.
  Definition mem (k : string) (d : list (string * V)) : bool :=
    match lookup k d with Some _ => true | None => false end.
End Dict.
