(* UnifyIdemProofs.v — C08: unification is idempotent.  The records unified() returns hold no two
   identified records of the same kind and identifier, so unifying them again returns them as
   they are — same records, same order — whatever the namespaces of the container. *)
From Coq Require Import String List Arith ZArith Bool Lia.
From Prov Require Import Str Sexp Tables Nsm Values Record World UnifyProofs.
Import ListNotations.
Open Scope string_scope.

(* groups of one: records that share neither kind nor identifier with another record are emitted
   as they are, in order *)
Lemma unify_walk_singletons : forall fuel c m all todo seen,
  length todo < fuel ->
  (forall r, In r todo -> rid r <> None -> filter (same_group r) all = [r]) ->
  (forall r s, In r todo -> In s seen -> same_group r s = false) ->
  unify_walk fuel c m all todo seen = Done m todo.
Proof.
  induction fuel as [|f IH]; intros c m all todo seen L S1 S2; [inversion L|].
  destruct todo as [|r rest]; [reflexivity|]. cbn [unify_walk].
  assert (REST : unify_walk f c m all rest seen = Done m rest).
  { apply IH; [cbn in L; apply Nat.succ_lt_mono; exact L | |].
    - intros x Hx. apply S1. right; exact Hx.
    - intros x s Hx Hs. apply S2; [right; exact Hx | exact Hs]. }
  destruct (rid r) eqn:ER.
  - assert (NS : existsb (same_group r) seen = false).
    { destruct (existsb (same_group r) seen) eqn:E; [|reflexivity].
      apply existsb_exists in E. destruct E as [s [Hs Es]].
      rewrite (S2 r s (or_introl eq_refl) Hs) in Es. discriminate. }
    rewrite NS. rewrite (S1 r (or_introl eq_refl)) by (rewrite ER; discriminate).
    rewrite REST. reflexivity.
  - rewrite REST. reflexivity.
Qed.

Theorem no_reuse_identity : forall ft b,
  (forall r, In r (brecs b) -> rid r <> None -> filter (same_group r) (brecs b) = [r]) ->
  unified_records ft b = OK (brecs b).
Proof.
  intros ft b S. unfold unified_records.
  rewrite unify_walk_singletons; [reflexivity | auto | exact S | intros r s _ []].
Qed.

(* same_group only looks at the key (kind, identifier URI) *)
Definition grp (k k' : string * option string) : bool :=
  String.eqb (fst k) (fst k') &&
  match snd k, snd k' with Some x, Some y => String.eqb x y | _, _ => false end.

Lemma same_group_grp : forall a b, same_group a b = grp (rkey a) (rkey b).
Proof.
  intros a b. unfold same_group, grp, rkey. cbn [fst snd]. destruct (rid a), (rid b); reflexivity.
Qed.

Fixpoint distinct_ids (ks : list (string * option string)) : bool :=
  match ks with
  | [] => true
  | k :: rest => negb (existsb (grp k) rest) && distinct_ids rest
  end.

(* nothing in firsts todo seen groups with a member of seen *)
Lemma firsts_apart : forall todo seen x s, In x (firsts todo seen) -> In s seen -> same_group x s = false.
Proof.
  induction todo as [|r rest IH]; intros seen x s Hx Hs; [destruct Hx|]. cbn [firsts] in Hx.
  destruct (rid r) eqn:ER.
  - destruct (existsb (same_group r) seen) eqn:E.
    + exact (IH _ _ _ Hx Hs).
    + destruct Hx as [<-|Hx].
      * destruct (same_group r s) eqn:G; [|reflexivity]. exfalso.
        assert (X : existsb (same_group r) seen = true) by (apply existsb_exists; exists s; split; assumption).
        rewrite X in E. discriminate.
      * apply (IH (r :: seen) x s Hx). right. exact Hs.
  - destruct Hx as [<-|Hx]; [unfold same_group; rewrite ER; apply andb_false_r | exact (IH _ _ _ Hx Hs)].
Qed.

Lemma firsts_distinct : forall todo seen, distinct_ids (map rkey (firsts todo seen)) = true.
Proof.
  induction todo as [|r rest IH]; intros seen; [reflexivity|]. cbn [firsts].
  destruct (rid r) eqn:ER.
  - destruct (existsb (same_group r) seen); [apply IH|].
    cbn [map distinct_ids]. rewrite IH, andb_true_r. apply negb_true_iff.
    destruct (existsb (grp (rkey r)) (map rkey (firsts rest (r :: seen)))) eqn:E; [|reflexivity]. exfalso.
    apply existsb_exists in E. destruct E as [k [Hk G]]. apply in_map_iff in Hk. destruct Hk as [x [<- Hx]].
    rewrite <- same_group_grp, same_group_sym in G.
    rewrite (firsts_apart rest (r :: seen) x r Hx (or_introl eq_refl)) in G. discriminate.
  - cbn [map distinct_ids]. rewrite IH, andb_true_r. apply negb_true_iff.
    destruct (existsb (grp (rkey r)) (map rkey (firsts rest seen))) eqn:E; [|reflexivity]. exfalso.
    apply existsb_exists in E. destruct E as [k [_ G]]. unfold grp, rkey in G. cbn [fst snd] in G.
    rewrite ER in G. cbn in G. rewrite andb_false_r in G. discriminate.
Qed.

Lemma distinct_filter : forall l r q, distinct_ids (map rkey l) = true -> In r l -> rid r = Some q ->
  filter (same_group r) l = [r].
Proof.
  induction l as [|a l IH]; intros r q D I E; [destruct I|].
  cbn [map distinct_ids] in D. apply andb_true_iff in D. destruct D as [D1 D2]. apply negb_true_iff in D1.
  assert (HA : forall x, In x l -> same_group a x = false).
  { intros x Hx. destruct (same_group a x) eqn:G; [|reflexivity]. exfalso.
    assert (X : existsb (grp (rkey a)) (map rkey l) = true).
    { apply existsb_exists. exists (rkey x). split; [apply in_map; exact Hx | rewrite <- same_group_grp; exact G]. }
    rewrite X in D1. discriminate. }
  cbn [filter]. destruct I as [->|I].
  - rewrite (same_group_refl r q E). f_equal.
    assert (Z : forall l', (forall x, In x l' -> same_group r x = false) -> filter (same_group r) l' = []).
    { induction l' as [|y l' IH']; intros Hl; [reflexivity|]. cbn [filter].
      rewrite (Hl y (or_introl eq_refl)). apply IH'. intros x Hx. apply Hl. right; exact Hx. }
    apply Z. exact HA.
  - rewrite same_group_sym, (HA r I). exact (IH r q D2 I E).
Qed.

(* the records unified() returns are a fixed point: unifying a container that holds them, with any
   identifier, namespaces, identifier index and float table, returns them unchanged *)
Theorem unified_idempotent : forall ft b u, unified_records ft b = OK u ->
  forall ft' i m idx, unified_records ft' (mkB i m u idx) = OK u.
Proof.
  intros ft b u H ft' i m idx.
  pose proof (unified_keys ft b u H) as K.
  assert (D : distinct_ids (map rkey u) = true).
  { rewrite K. unfold first_fold. rewrite fold_firsts. cbn [app]. apply firsts_distinct. }
  apply (no_reuse_identity ft' (mkB i m u idx)). cbn [brecs]. intros r I N.
  destruct (rid r) as [q|] eqn:E; [|contradiction]. exact (distinct_filter u r q D I E).
Qed.
