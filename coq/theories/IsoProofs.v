(* IsoProofs.v — datetime.isoformat() followed by the ISO reader gives the datetime back:
   iso_parse (iso_print t) = Some t for every valid datetime.  Composition of the per-field
   facts of IsoDigits.v by rewriting. *)
From Coq Require Import String Ascii List Bool Arith ZArith Lia.
From Prov Require Import Str Values IsoDigits.
Import ListNotations.
Open Scope string_scope.

Lemma valid_dt_bounds : forall t, valid_dt t = true ->
  (1 <= dy t <= 9999 /\ 1 <= dmo t <= 12 /\ 1 <= dd t <= 31 /\ 0 <= dh t < 24 /\ 0 <= dmi t < 60 /\
   0 <= dsec t < 60 /\ 0 <= dus t < 1000000)%Z /\
  match dtz t with None => True | Some o => (-1440 < o < 1440)%Z end.
Proof.
  intros t H. unfold valid_dt in H.
  repeat (apply andb_prop in H; destruct H as [H ?]).
  assert (Hd : (days_in_month (dy t) (dmo t) <= 31)%Z).
  { unfold days_in_month. repeat match goal with |- context [if ?b then _ else _] => destruct b end; lia. }
  split.
  - repeat match goal with
           | H : Z.leb _ _ = true |- _ => apply Z.leb_le in H
           | H : Z.ltb _ _ = true |- _ => apply Z.ltb_lt in H
           end. lia.
  - destruct (dtz t) as [o|]; [|exact Logic.I].
    repeat match goal with
           | H : (_ && _)%bool = true |- _ => apply andb_prop in H; destruct H
           | H : Z.ltb _ _ = true |- _ => apply Z.ltb_lt in H
           end. lia.
Qed.

Theorem iso_roundtrip : forall t, valid_dt t = true -> iso_parse (iso_print t) = Some t.
Proof.
  intros t Hv. destruct (valid_dt_bounds t Hv) as [Hb Htz].
  rewrite iso_print_shape. unfold iso_parse.
  rewrite field4 by lia. rewrite expect_lit.
  rewrite field2 by lia. rewrite expect_lit.
  rewrite field2 by lia. rewrite expect_lit.
  rewrite field2 by lia. rewrite expect_lit.
  rewrite field2 by lia. rewrite expect_lit.
  rewrite field2 by lia.
  destruct (Z.eqb (dus t) 0) eqn:Eus.
  - change ("" ++ tz_text (dtz t)) with (tz_text (dtz t)).
    rewrite expect_dot_tz. rewrite (parse_tz_text _ Htz).
    apply Z.eqb_eq in Eus.
    assert (Et : mkDt (dy t) (dmo t) (dd t) (dh t) (dmi t) (dsec t) 0%Z (dtz t) = t)
      by (destruct t; simpl in Eus; subst; reflexivity).
    rewrite Et, Hv. reflexivity.
  - change (String "." (pad 6 (dus t)) ++ tz_text (dtz t)) with (String "." (pad 6 (dus t) ++ tz_text (dtz t))).
    rewrite expect_lit.
    rewrite (take_frac_digits 6 0%Z 0 _ (dus t) (tz_text (dtz t))) by (apply field6; lia).
    rewrite (parse_tz_text _ Htz).
    change (match (0 + 6)%nat with O => (-1)%Z | S _ => (dus t * pow10 (6 - (0 + 6)))%Z end) with (dus t * 1)%Z.
    rewrite Z.mul_1_r.
    assert (Et : mkDt (dy t) (dmo t) (dd t) (dh t) (dmi t) (dsec t) (dus t) (dtz t) = t)
      by (destruct t; reflexivity).
    rewrite Et, Hv. reflexivity.
Qed.

Example iso_roundtrip_witness :
  valid_dt (mkDt 2024 2 29 23 59 59 999999 (Some (-330)%Z)) = true /\
  iso_print (mkDt 2024 2 29 23 59 59 999999 (Some (-330)%Z)) = "2024-02-29T23:59:59.999999-05:30".
Proof. split; vm_compute; reflexivity. Qed.
