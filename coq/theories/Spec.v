(* Spec.v — tables written by hand from the W3C documents (PROV-DM, PROV-N,
   PROV-JSON member submission, PROV-XML note); nothing here is taken from /repo.
   TablesOK.v proves that the tables generated from /repo agree with them. *)
From Coq Require Import String List.
Import ListNotations.
Open Scope string_scope.

Definition spec_prov_uri : string := "http://www.w3.org/ns/prov#".
Definition spec_xsd_uri : string := "http://www.w3.org/2001/XMLSchema#".

(* PROV-DM kind, its PROV-N / PROV-JSON / PROV-XML name, its formal arguments in
   PROV-N order (names as used for prov:* keys), element? *)
Definition spec_kinds : list (string * string * list string * bool) :=
  [("Entity", "entity", [], true);
   ("Activity", "activity", ["startTime"; "endTime"], true);
   ("Generation", "wasGeneratedBy", ["entity"; "activity"; "time"], false);
   ("Usage", "used", ["activity"; "entity"; "time"], false);
   ("Communication", "wasInformedBy", ["informed"; "informant"], false);
   ("Start", "wasStartedBy", ["activity"; "trigger"; "starter"; "time"], false);
   ("End", "wasEndedBy", ["activity"; "trigger"; "ender"; "time"], false);
   ("Invalidation", "wasInvalidatedBy", ["entity"; "activity"; "time"], false);
   ("Derivation", "wasDerivedFrom", ["generatedEntity"; "usedEntity"; "activity"; "generation"; "usage"], false);
   ("Agent", "agent", [], true);
   ("Attribution", "wasAttributedTo", ["entity"; "agent"], false);
   ("Association", "wasAssociatedWith", ["activity"; "agent"; "plan"], false);
   ("Delegation", "actedOnBehalfOf", ["delegate"; "responsible"; "activity"], false);
   ("Influence", "wasInfluencedBy", ["influencee"; "influencer"], false);
   ("Specialization", "specializationOf", ["specificEntity"; "generalEntity"], false);
   ("Alternate", "alternateOf", ["alternate1"; "alternate2"], false);
   ("Mention", "mentionOf", ["specificEntity"; "generalEntity"; "bundle"], false);
   ("Membership", "hadMember", ["collection"; "entity"], false)].

(* formal arguments that are times; all others are references *)
Definition spec_time_args : list string := ["time"; "startTime"; "endTime"].

(* PROV-N / PROV-XML subtype names and the prov:type they stand for *)
Definition spec_subtypes : list (string * string * string) :=
  (* (name, prov:type local, base kind) *)
  [("wasRevisionOf", "Revision", "Derivation"); ("wasQuotedFrom", "Quotation", "Derivation");
   ("hadPrimarySource", "PrimarySource", "Derivation"); ("softwareAgent", "SoftwareAgent", "Agent");
   ("person", "Person", "Agent"); ("organization", "Organization", "Agent"); ("plan", "Plan", "Entity");
   ("collection", "Collection", "Entity"); ("emptyCollection", "EmptyCollection", "Entity");
   ("bundle", "Bundle", "Entity")].
