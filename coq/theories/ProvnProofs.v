(* ProvnProofs.v — C06: string contents, including quotes, newlines and backslashes,
   are recovered exactly: the reader's un-escaping inverts the printer's escaping for
   every byte string, in the "..." and in the """...""" form. *)
From Coq Require Import String Ascii List Bool Arith.
From Prov Require Import Str Provn ProvnSpec.
Import ListNotations.
Open Scope string_scope.

Lemma unesc_bsl : unesc bsl = bsl.
Proof. reflexivity. Qed.
Lemma unesc_dq : unesc dq = dq.
Proof. reflexivity. Qed.

Lemma append_cons : forall c a b, String c a ++ b = String c (a ++ b).
Proof. reflexivity. Qed.

(* "..." form *)
Theorem short_string_escape : forall s rest,
  short_string (escape_provn s ++ String dq rest) = Some (s, rest).
Proof.
  induction s as [|c s IH]; intros rest.
  - cbn [escape_provn append short_string]. change dqc with dq. rewrite Ascii.eqb_refl. reflexivity.
  - cbn [escape_provn].
    destruct (Ascii.eqb c bsl) eqn:EB.
    + apply Ascii.eqb_eq in EB. subst c. rewrite !append_cons. cbn [short_string].
      change dqc with dq. change bslc with bsl.
      replace (Ascii.eqb bsl dq) with false by reflexivity. rewrite Ascii.eqb_refl.
      rewrite IH. reflexivity.
    + destruct (Ascii.eqb c dq) eqn:ED.
      * apply Ascii.eqb_eq in ED. subst c. rewrite !append_cons. cbn [short_string].
        change dqc with dq. change bslc with bsl.
        replace (Ascii.eqb bsl dq) with false by reflexivity. rewrite Ascii.eqb_refl.
        rewrite IH. reflexivity.
      * rewrite append_cons. cbn [short_string]. change dqc with dq. change bslc with bsl.
        rewrite ED, EB, IH. reflexivity.
Qed.

(* """...""" form *)
Theorem long_string_escape : forall s rest,
  long_string (escape_provn s ++ String dq (String dq (String dq rest))) = Some (s, rest).
Proof.
  induction s as [|c s IH]; intros rest.
  - cbn [escape_provn append long_string]. change dqc with dq. change bslc with bsl.
    replace (Ascii.eqb dq bsl) with false by reflexivity. rewrite !Ascii.eqb_refl. reflexivity.
  - cbn [escape_provn].
    destruct (Ascii.eqb c bsl) eqn:EB.
    + apply Ascii.eqb_eq in EB. subst c. rewrite !append_cons. cbn [long_string].
      change bslc with bsl. rewrite Ascii.eqb_refl. rewrite IH. reflexivity.
    + destruct (Ascii.eqb c dq) eqn:ED.
      * apply Ascii.eqb_eq in ED. subst c. rewrite !append_cons. cbn [long_string].
        change bslc with bsl. rewrite Ascii.eqb_refl. rewrite IH. reflexivity.
      * rewrite append_cons. cbn [long_string]. change dqc with dq. change bslc with bsl.
        rewrite EB, ED, IH. reflexivity.
Qed.

(* the escaped text never starts with a raw quote: the lexer cannot mistake a short
   string for the start of a triple-quoted one *)
Lemma escape_no_leading_quote : forall s,
  match escape_provn s with String c _ => Ascii.eqb c dq = false | EmptyString => True end.
Proof.
  destruct s as [|c s]; cbn [escape_provn]; [exact I|].
  destruct (Ascii.eqb c bsl) eqn:EB; [reflexivity|].
  destruct (Ascii.eqb c dq) eqn:ED; [reflexivity | exact ED].
Qed.

(* the whole literal, as the lexer sees it *)
Lemma lex_dq : forall f r,
  lex (S f) (String dq r) =
  let cons t rest := match lex f rest with Some l => Some (t :: l) | None => None end in
  match r with
  | String c2 (String c3 r3) =>
      if (Ascii.eqb c2 dq && Ascii.eqb c3 dq)%bool then
        match long_string r3 with Some (b, rest) => cons (TStr b) rest | None => None end
      else match short_string r with Some (b, rest) => cons (TStr b) rest | None => None end
  | _ => match short_string r with Some (b, rest) => cons (TStr b) rest | None => None end
  end.
Proof. intros f r. reflexivity. Qed.

Theorem lex_quote_str : forall s f, lex (S (S f)) (quote_str s) = Some [TStr s].
Proof.
  intros s f. unfold quote_str.
  destruct (contains_char nl (escape_provn s)) eqn:EN.
  - unfold dq3. rewrite !append_cons. cbn [append]. rewrite lex_dq. cbv zeta.
    rewrite !Ascii.eqb_refl. cbn [andb]. rewrite long_string_escape. destruct f; reflexivity.
  - unfold dq1. rewrite !append_cons. cbn [append]. rewrite lex_dq. cbv zeta.
    pose proof (escape_no_leading_quote s) as NL.
    pose proof (short_string_escape s EmptyString) as SS.
    destruct (escape_provn s) as [|c2 e2] eqn:EE.
    + cbn [append]. cbn [append] in SS. rewrite SS. destruct f; reflexivity.
    + cbn [append]. destruct e2 as [|c3 e3].
      * cbn [append]. cbn [append] in SS. rewrite NL. cbn [andb]. rewrite SS. destruct f; reflexivity.
      * cbn [append]. rewrite NL. cbn [andb]. cbn [append] in SS. rewrite SS. destruct f; reflexivity.
Qed.
