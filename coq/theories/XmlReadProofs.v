(* XmlReadProofs.v — C02 at record level: the element the model of the PROV-XML writer builds for a record
   (XmlRec.xml_record), read by the model of the library's reader (XmlRead.xml_read_record: names resolved in the
   scope of the element that carries them, then normalised by new_record in the container's manager), gives back
   a record of the same class and identifier holding the same values. *)
From Coq Require Import String Ascii List Bool Arith ZArith Lia.
From Prov Require Import Str StrProofs Sexp Tables Nsm NsmProofs Values Record RecordProofs World Jtree Json JsonProofs
  Xml XmlProofs XmlSpec IsoProofs TimeProofs XmlLabel XmlLabelProofs XmlRec XmlRead IdemProofs ReaddProofs JsonRecProofs XmlRecProofs.
Import ListNotations.
Open Scope string_scope.

Definition XScope (scope : list (string * string)) : Prop := lookup "xsd" scope = Some XmlSpec.xsd_ns.

Lemma xml_qname_xsd : forall scope l, XScope scope -> xml_qname scope ("xsd:" ++ l) = Some (xsd_qn l).
Proof.
  intros scope l X. unfold xml_qname. change ("xsd:" ++ l) with ("xsd" ++ String colon l).
  rewrite (split_colon_app "xsd" l eq_refl), X. rewrite String.eqb_refl. reflexivity.
Qed.

(* a value the XML path carries for attribute a: the writer's child is read, in scope, as an argument that the
   insertion code normalises to the value in manager m without changing m *)
Definition xrt (fl : bool) (c : actx) (m : nsm) (scope : list (string * string)) (a : qname) (v : value) : Prop :=
  exists va, extract_value scope (xo_attrs (xml_emit fl a v)) (xo_text (xml_emit fl a v)) = Some va /\
             va <> ANone /\ insert_value c m a va = Done m (Some v).

Lemma xsd_not_qname_uri : forall l, l <> "QName" -> String.eqb (qn_uri (xsd_qn l)) (xsd_uri ++ "QName") = false.
Proof. exact xsd_not_qname. Qed.

Ltac xrt_typed scope X l :=
  unfold extract_value; cbn [xo_attrs xo_text x_text x_type x_lang x_ref app fold_left];
  cbn [String.eqb Ascii.eqb Bool.eqb andb XmlSpec.xsi_ns XmlSpec.xml_ns];
  change (String.eqb XmlSpec.xsi_ns XmlSpec.xsi_ns) with true; cbn [andb];
  rewrite (xml_qname_xsd scope l X); rewrite (xsd_not_qname_uri l) by discriminate.

Theorem xrt_int : forall fl c m scope a z, XScope scope -> plain_attr a -> xrt fl c m scope a (VInt z).
Proof.
  intros fl c m scope a z X [Q [T L]]. unfold xrt, xml_emit. norm_always. cbn [prov_str]. cbn [value_str]. rewrite Q, L. cbn [andb negb].
  cond_true fl a.
  eexists. split; [|split].
  - change "xsd:int" with ("xsd:" ++ "int"). xrt_typed scope X "int". reflexivity.
  - discriminate.
  - unfold insert_value. rewrite Q, T. apply (entry_path_int c m z "xsd" "int"). vm_compute. reflexivity.
Qed.

Theorem xrt_bool : forall fl c m scope a b, XScope scope -> plain_attr a -> xrt fl c m scope a (VBool b).
Proof.
  intros fl c m scope a b X [Q [T L]]. unfold xrt, xml_emit. norm_always. cbn [prov_str]. cbn [value_str]. rewrite Q, L. cbn [andb negb].
  cond_true fl a.
  eexists. split; [|split].
  - change "xsd:boolean" with ("xsd:" ++ "boolean"). xrt_typed scope X "boolean". reflexivity.
  - discriminate.
  - unfold insert_value. rewrite Q, T. destruct b; cbn [py_bool_str lower].
    + apply (entry_path_bool c m true "xsd" "boolean"). vm_compute. reflexivity.
    + apply (entry_path_bool c m false "xsd" "boolean"). vm_compute. reflexivity.
Qed.

Theorem xrt_float : forall fl c m scope a r iv g, XScope scope -> plain_attr a ->
  lookup r (cft c) = Some (Some (r, iv, g)) -> xrt fl c m scope a (VFloat r iv g).
Proof.
  intros fl c m scope a r iv g X [Q [T L]] F. unfold xrt, xml_emit. norm_always. cbn [prov_str]. cbn [value_str]. rewrite Q, L. cbn [andb negb].
  cond_true fl a.
  eexists. split; [|split].
  - change "xsd:double" with ("xsd:" ++ "double"). xrt_typed scope X "double". reflexivity.
  - discriminate.
  - unfold insert_value. rewrite Q, T. apply (entry_path_double c m r iv g "xsd" "double"); [vm_compute; reflexivity | exact F].
Qed.

Theorem xrt_id : forall fl c m scope a u, XScope scope -> plain_attr a -> xrt fl c m scope a (VId u).
Proof.
  intros fl c m scope a u X [Q [T L]]. unfold xrt, xml_emit. norm_always. cbn [prov_str]. cbn [value_str]. rewrite Q, L. cbn [andb negb].
  cond_true fl a.
  eexists. split; [|split].
  - change "xsd:anyURI" with ("xsd:" ++ "anyURI"). xrt_typed scope X "anyURI". reflexivity.
  - discriminate.
  - unfold insert_value. rewrite Q, T. apply (entry_path_anyuri c m u "xsd" "anyURI"). vm_compute. reflexivity.
Qed.

Theorem xrt_time : forall fl c m scope a t, XScope scope -> plain_attr a -> valid_dt t = true -> xrt fl c m scope a (VTime t).
Proof.
  intros fl c m scope a t X [Q [T L]] V. unfold xrt, xml_emit. norm_always. cbn [prov_str]. cbn [value_str]. rewrite Q, L, T. cbn [andb negb].
  cond_true fl a.
  eexists. split; [|split].
  - change "xsd:dateTime" with ("xsd:" ++ "dateTime"). xrt_typed scope X "dateTime". reflexivity.
  - discriminate.
  - unfold insert_value. rewrite Q, T.
    apply (entry_path_datetime c m (iso_print t) t "xsd" "dateTime" xsd_datetime_parser). apply parse_datetime_print. exact V.
Qed.

(* a time on prov:time / prov:startTime / prov:endTime: text only, parsed on insertion *)
Theorem xrt_formal_time : forall fl c m scope a t, is_qname_attr a = false -> is_time_attr a = true ->
  valid_dt t = true -> xrt fl c m scope a (VTime t).
Proof.
  intros fl c m scope a t Q T V. unfold xrt, xml_emit. norm_always. cbn [prov_str]. cbn [value_str]. rewrite Q, T. cbn [andb negb].
  match goal with |- context [if ?cnd then (None, iso_print t) else (None, iso_print t)] => destruct cnd end;
    (eexists; split; [unfold extract_value; cbn [xo_attrs xo_text x_text x_type x_lang x_ref app fold_left]; reflexivity|];
     split; [discriminate|]; unfold insert_value; rewrite Q, T; cbn [time_value]; rewrite (parse_datetime_print t V); reflexivity).
Qed.

(* strings: plain text, or typed xsd:string *)
Theorem xrt_str : forall fl c m scope a s, XScope scope -> is_qname_attr a = false -> is_time_attr a = false ->
  xrt fl c m scope a (VStr s).
Proof.
  intros fl c m scope a s X Q T. unfold xrt, xml_emit. norm_always. cbn [prov_str]. cbn [value_str]. rewrite Q. cbn [andb negb].
  match goal with |- context [if ?cnd then (Some "xsd:string", _) else _] => destruct cnd eqn:C end.
  - eexists. split; [|split].
    + change "xsd:string" with ("xsd:" ++ "string"). xrt_typed scope X "string". reflexivity.
    + discriminate.
    + unfold insert_value. rewrite Q, T. apply (entry_path_string c m s "xsd" "string"). vm_compute. reflexivity.
  - eexists. split; [|split].
    + unfold extract_value. cbn [xo_attrs xo_text x_text x_type x_lang x_ref app fold_left]. reflexivity.
    + discriminate.
    + unfold insert_value. rewrite Q, T. reflexivity.
Qed.

(* names: the scope of the element binds the name's prefix to its namespace (and that is neither the XML Schema
   nor the PROV namespace under a foreign prefix) *)
Definition scoped (scope : list (string * string)) (q : qname) : Prop := xml_qname scope (qn_str q) = Some q.

Lemma xml_qname_xsd_QName : forall l, String.eqb (qn_uri (xsd_qn l)) (xsd_uri ++ "QName") = String.eqb l "QName".
Proof.
  intros l. unfold qn_uri, xsd_qn, xsd_ns; cbn [qn_ns ns_uri qn_local].
  destruct (String.eqb l "QName") eqn:E.
  - apply String.eqb_eq in E. subst. apply String.eqb_refl.
  - apply String.eqb_neq. intro H. apply append_inj_l in H. subst. rewrite String.eqb_refl in E. discriminate.
Qed.

Theorem xrt_qn : forall fl c m scope a q, XScope scope -> is_qname_attr a = false -> is_time_attr a = false ->
  scoped scope q -> Bound m q -> xrt fl c m scope a (VQn q).
Proof.
  intros fl c m scope a q X Q T S Bd. unfold xrt, xml_emit. norm_always. cbn [prov_str]. rewrite Q.
  cbn [andb negb]. rewrite (andb_false_r (fl || false || is_tlv a)). cbn [andb].
  eexists. split; [|split].
  - unfold extract_value. cbn [xo_attrs xo_text x_text x_type x_lang x_ref app fold_left].
    change (String.eqb XmlSpec.xsi_ns XmlSpec.xsi_ns) with true. cbn [String.eqb Ascii.eqb Bool.eqb andb].
    change "xsd:QName" with ("xsd:" ++ "QName"). rewrite (xml_qname_xsd scope "QName" X).
    rewrite xml_qname_xsd_QName. cbn [String.eqb Ascii.eqb Bool.eqb]. unfold scoped in S. rewrite S. reflexivity.
  - discriminate.
  - unfold insert_value. rewrite Q, T. cbn [auto_conv]. rewrite (resolve_o_bound c m q Bd). reflexivity.
Qed.

Theorem xrt_ref : forall fl c m scope a q, is_qname_attr a = true -> qn_str q <> "" ->
  scoped scope q -> Bound m q -> xrt fl c m scope a (VQn q).
Proof.
  intros fl c m scope a q Q NE S Bd. unfold xrt, xml_emit. norm_always. cbn [prov_str]. rewrite Q.
  destruct (qn_str q) as [|ch s] eqn:ES; [contradiction|].
  repeat (first [ rewrite andb_false_r | progress cbv beta iota zeta
                | progress change (String.eqb (String ch s) "") with false | progress cbn [andb negb orb] ]).
  eexists. split; [|split].
  - unfold extract_value. cbn [xo_attrs xo_text x_text x_type x_lang x_ref app fold_left].
    change (String.eqb prov_uri XmlSpec.xsi_ns) with false. cbn [andb]. rewrite String.eqb_refl. cbn [String.eqb Ascii.eqb Bool.eqb andb].
    unfold scoped in S. rewrite ES in S. rewrite S. reflexivity.
  - discriminate.
  - unfold insert_value. rewrite Q. unfold qn_value. rewrite (resolve_o_bound c m q Bd). reflexivity.
Qed.

Theorem xrt_lang : forall fl c m scope a lex ch l, Builtins m -> is_qname_attr a = false -> is_time_attr a = false ->
  xrt fl c m scope a (VLit lex (Some (prov_qn "InternationalizedString")) (Some (String ch l))).
Proof.
  intros fl c m scope a lex ch l B Q T. unfold xrt, xml_emit. norm_always. cbn [prov_str].
  replace (intl_string (prov_qn "InternationalizedString")) with true by (vm_compute; reflexivity).
  rewrite Q. cbn [andb negb].
  assert (Bd : Bound m (prov_qn "InternationalizedString")) by (right; split; [discriminate | apply B]).
  match goal with |- context [if ?cnd then _ else _] => destruct cnd end;
    (eexists; split; [unfold extract_value; cbn [xo_attrs xo_text x_text x_type x_lang x_ref app fold_left];
                      change (String.eqb XmlSpec.xml_ns XmlSpec.xsi_ns) with false;
                      change (String.eqb XmlSpec.xml_ns prov_uri) with false; cbn [andb];
                      rewrite String.eqb_refl; cbn [String.eqb Ascii.eqb Bool.eqb andb]; reflexivity|];
     split; [discriminate|];
     unfold insert_value; rewrite Q, T; cbn [auto_conv]; unfold keep_literal; cbn [mk_literal]; unfold resolve_o; cbn [resolve];
     rewrite (resolve_qn_bound _ _ Bd); reflexivity).
Qed.

(* ---- the children as arguments *)
Definition tagged (prefix_of : string -> option string) (scope : list (string * string)) (a : qname) : Prop :=
  xml_qname scope (tag_name (prefix_of (ns_uri (qn_ns a))) (qn_local a)) = Some a.

Definition child_ok (fl : bool) (c : actx) (m : nsm) (prefix_of : string -> option string)
  (scope : list (string * string)) (kv : qname * value) : Prop :=
  tagged prefix_of scope (fst kv) /\ Bound m (fst kv) /\ xrt fl c m scope (fst kv) (snd kv).

Lemma stale_child_false : forall fl scope kv, stale_child (xml_child fl scope kv) = false.
Proof.
  intros fl scope kv. unfold xml_child, stale_child, xo_attrs.
  destruct (x_type (xml_emit fl (fst kv) (snd kv))) as [t|]; [reflexivity|].
  destruct (x_lang (xml_emit fl (fst kv) (snd kv))) as [l|].
  - cbn [app existsb known_attr]. change (String.eqb XmlSpec.xml_ns XmlSpec.xsi_ns) with false.
    change (String.eqb XmlSpec.xml_ns prov_uri) with false. rewrite String.eqb_refl. reflexivity.
  - destruct (x_ref (xml_emit fl (fst kv) (snd kv))) as [r|]; [|reflexivity].
    cbn [app existsb known_attr]. change (String.eqb prov_uri XmlSpec.xsi_ns) with false. rewrite String.eqb_refl. reflexivity.
Qed.

Lemma no_stale_children : forall fl scope l, existsb stale_child (map (xml_child fl scope) l) = false.
Proof.
  intros fl scope l. induction l as [|kv l IH]; [reflexivity|]. cbn [map existsb]. rewrite stale_child_false, IH. reflexivity.
Qed.

Lemma args_of_children : forall fl c m prefix_of scope l,
  Forall (child_ok fl c m prefix_of scope) l ->
  exists args, all_args prefix_of (map (xml_child fl scope) l) = Some args /\ Forall2 (arg_ok c m) args l /\
               map fst args = map (fun kv => NQn (fst kv)) l.
Proof.
  intros fl c m prefix_of scope l F. induction F as [|kv l [TG [Bd [va [EV [NN IV]]]]] F IH].
  - exists []. split; [reflexivity | split; [constructor | reflexivity]].
  - destruct IH as [args [EA [FA MA]]]. exists ((NQn (fst kv), va) :: args). split; [|split].
    + cbn [map all_args]. unfold child_arg, xml_child at 1. unfold tagged in TG. rewrite TG, EV, EA. reflexivity.
    + constructor; [|exact FA]. unfold arg_ok. cbn [fst snd]. split; [exact NN|]. split; [apply resolve_o_bound; exact Bd | exact IV].
    + cbn [map fst]. rewrite MA. reflexivity.
Qed.

Definition has_collection (l : list (qname * value)) : bool := existsb (fun kv => is_prov_name "collection" (fst kv)) l.

Lemma names_collection_args : forall (args : list (namearg * valarg)) (l : list (qname * value)),
  map fst args = map (fun kv => NQn (fst kv)) l -> names_collection args = has_collection l.
Proof.
  intros args. induction args as [|[n a] args IH]; intros [|kv l] H; try discriminate; [reflexivity|].
  cbn [map fst] in H. inversion H as [[E1 E2]]. unfold names_collection, has_collection. cbn [existsb fst].
  f_equal. exact (IH l E2).
Qed.

(* ---- what put_all builds, whatever the order of the pairs: nothing invented, nothing dropped *)
Lemma put_all_sound : forall ic pairs d d', put_all ic pairs d = Some d' ->
  forall x w, In w (attr_get x d') -> In w (attr_get x d) \/ exists kv, In kv pairs /\ qn_eqb x (fst kv) = true /\ w = snd kv.
Proof.
  intros ic pairs. induction pairs as [|[k v] pairs IH]; intros d d' H x w I; [inversion H; subst; left; exact I|].
  cbn [put_all] in H.
  assert (ADD : put_all ic pairs (attr_add k v d) = Some d' ->
                In w (attr_get x d) \/ exists kv, In kv ((k, v) :: pairs) /\ qn_eqb x (fst kv) = true /\ w = snd kv).
  { intros H2. destruct (IH _ _ H2 x w I) as [J|[kv [Hk X]]]; [|right; exists kv; split; [right; exact Hk | exact X]].
    rewrite attr_get_add in J. destruct (qn_eqb x k) eqn:E; [|left; exact J].
    apply ReaddProofs.in_set_add in J. destruct J as [J|[-> _]].
    - left. rewrite (ReaddProofs.attr_get_eqb d x k E). exact J.
    - right. exists (k, v). split; [left; reflexivity | split; [exact E | reflexivity]]. }
  assert (KEEP : put_all ic pairs d = Some d' ->
                 In w (attr_get x d) \/ exists kv, In kv ((k, v) :: pairs) /\ qn_eqb x (fst kv) = true /\ w = snd kv).
  { intros H2. destruct (IH _ _ H2 x w I) as [J|[kv [Hk X]]]; [left; exact J | right; exists kv; split; [right; exact Hk | exact X]]. }
  destruct (negb (ic && is_prov_name "entity" k) && is_formal_attr k)%bool.
  - destruct (attr_get k d) as [|e0 es]; [exact (ADD H)|]. destruct (py_eq v e0); [exact (KEEP H) | discriminate].
  - exact (ADD H).
Qed.

Lemma put_all_keeps : forall ic pairs d d', put_all ic pairs d = Some d' ->
  forall x w, In w (attr_get x d) -> In w (attr_get x d').
Proof.
  intros ic pairs. induction pairs as [|[k v] pairs IH]; intros d d' H x w I; [inversion H; subst; exact I|].
  cbn [put_all] in H.
  assert (ADD : In w (attr_get x (attr_add k v d))).
  { rewrite attr_get_add. destruct (qn_eqb x k) eqn:E; [|exact I].
    apply ReaddProofs.in_set_add. left. rewrite <- (ReaddProofs.attr_get_eqb d x k E). exact I. }
  destruct (negb (ic && is_prov_name "entity" k) && is_formal_attr k)%bool.
  - destruct (attr_get k d) as [|e0 es] eqn:G; [exact (IH _ _ H x w ADD)|].
    destruct (py_eq v e0); [exact (IH _ _ H x w I) | discriminate].
  - exact (IH _ _ H x w ADD).
Qed.

Lemma put_all_complete : forall ic pairs d d', put_all ic pairs d = Some d' ->
  forall kv, In kv pairs -> exists w, In w (attr_get (fst kv) d') /\ (w = snd kv \/ set_same (snd kv) w = true \/ py_eq (snd kv) w = true).
Proof.
  intros ic pairs. induction pairs as [|[k v] pairs IH]; intros d d' H kv I; [destruct I|].
  cbn [put_all] in H. destruct I as [<-|I].
  - cbn [fst snd].
    assert (ADDED : forall d2, put_all ic pairs (attr_add k v d) = Some d2 ->
              exists w, In w (attr_get k d2) /\ (w = v \/ set_same v w = true \/ py_eq v w = true)).
    { intros d2 H2.
      assert (J : exists w, In w (attr_get k (attr_add k v d)) /\ (w = v \/ set_same v w = true)).
      { rewrite attr_get_add, qn_eqb_refl. unfold set_add. destruct (set_mem v (attr_get k d)) eqn:M.
        - unfold set_mem in M. apply existsb_exists in M. destruct M as [w [Hw Sw]]. exists w. split; [exact Hw | right; exact Sw].
        - exists v. split; [apply in_or_app; right; left; reflexivity | left; reflexivity]. }
      destruct J as [w [Hw C]]. exists w. split; [exact (put_all_keeps _ _ _ _ H2 k w Hw)|].
      destruct C as [C|C]; [left; exact C | right; left; exact C]. }
    destruct (negb (ic && is_prov_name "entity" k) && is_formal_attr k)%bool.
    + destruct (attr_get k d) as [|e0 es] eqn:G; [exact (ADDED _ H)|].
      destruct (py_eq v e0) eqn:P; [|discriminate].
      exists e0. split; [apply (put_all_keeps _ _ _ _ H k e0); rewrite G; left; reflexivity | right; right; exact P].
    + exact (ADDED _ H).
  - destruct (negb (ic && is_prov_name "entity" k) && is_formal_attr k)%bool.
    + destruct (attr_get k d) as [|e0 es]; [exact (IH _ _ H kv I)|]. destruct (py_eq v e0); [exact (IH _ _ H kv I) | discriminate].
    + exact (IH _ _ H kv I).
Qed.

(* ---- the record *)
Lemma set_nth_last : forall (T : Type) (l : list T) (r r2 : T), World.set_nth (length (l ++ [r]) - 1) r2 (l ++ [r]) = (l ++ [r2])%list.
Proof.
  intros T l r r2. rewrite app_length. cbn [length]. replace (length l + 1 - 1) with (length l) by lia.
  induction l as [|x l IH]; [reflexivity|]. cbn [length app World.set_nth]. f_equal. exact IH.
Qed.

Definition final_attrs (sub : option string) (d : list (qname * list value)) : list (qname * list value) :=
  match sub with Some ty => attr_add (prov_qn "type") (VQn (prov_qn ty)) d | None => d end.

Theorem xml_record_roundtrip : forall par ft fl prefix_of b scope kind ident pairs label rest x d',
  let c := mkCtx par ft in
  let m := bns b in
  lookup kind prov_base_cls = Some kind -> kind <> "Membership" -> Builtins m ->
  record_label kind pairs = Some (label, rest) ->
  xml_record fl scope kind ident pairs = Some x ->
  Forall (child_ok fl c m prefix_of scope) (sorted_pairs kind rest) ->
  match ident with Some q => scoped scope q /\ Bound m q | None => is_element kind = false end ->
  put_all (has_collection (sorted_pairs kind rest)) (sorted_pairs kind rest) [] = Some d' ->
  exists sub b',
    read_label label = Some (kind, sub) /\
    xml_read_record par ft prefix_of b x = (b', OK tt) /\
    bns b' = m /\ bid b' = bid b /\
    brecs b' = (brecs b ++ [mkRec kind ident (final_attrs sub d')])%list.
Proof.
  intros par ft fl prefix_of b scope kind ident pairs label rest x d' c m K NM BI RL XR CH ID PA.
  (* the element name read back *)
  assert (RLB : exists sub, read_label label = Some (kind, sub)).
  { destruct (record_label_read kind pairs label rest K RL) as [[_ [_ R]]|[l [_ R]]]; eexists; exact R. }
  destruct RLB as [sub RLB]. 
  unfold xml_record in XR. rewrite RL in XR. inversion XR; subst x. clear XR.
  destruct (args_of_children fl c m prefix_of scope _ CH) as [args [EA [FA MA]]].
  assert (IC : names_collection args = has_collection (sorted_pairs kind rest)) by (apply names_collection_args; exact MA).
  (* new_record on the arguments *)
  set (r1 := mkRec kind ident d').
  assert (NR : new_record par ft b kind (option_map NQn ident) args = (add_rec_to (with_ns b m) r1, OK r1)).
  { unfold new_record. fold c. fold m.
    assert (IDR : match option_map NQn ident with None => Done m None | Some y => resolve_o c m y end = Done m ident).
    { destruct ident as [q|]; [destruct ID as [_ Bd]; cbn [option_map]; apply resolve_o_bound; exact Bd | reflexivity]. }
    rewrite IDR. unfold new_prec.
    assert (EB : (is_element kind && match ident with None => true | Some _ => false end)%bool = false).
    { destruct ident; [apply andb_false_r | rewrite ID; reflexivity]. }
    rewrite EB.
    assert (AA : add_attributes c m (mkRec kind ident []) args = ADone m r1).
    { unfold add_attributes. destruct args as [|a0 args'] eqn:EAr.
      - inversion FA as [E1 E2|]. rewrite <- E2 in PA. cbn in PA. inversion PA. unfold r1. subst d'. reflexivity.
      - rewrite <- EAr in *. cbn [rattrs rkind rid]. rewrite IC. rewrite (loop_fixed c _ m args _ [] _ FA PA). reflexivity. }
    rewrite AA. reflexivity. }
  exists sub.
  assert (WB : with_ns b m = b) by (unfold m; destruct b; reflexivity).
  destruct sub as [ty|].
  - (* subtype element: the asserted type is added to the record just made *)
    set (b1 := add_rec_to (with_ns b m) r1).
    assert (AT : add_attributes c (bns b1) r1 [(NQn (prov_qn "type"), AQn (prov_qn ty))]
                 = ADone m (mkRec kind ident (attr_add (prov_qn "type") (VQn (prov_qn ty)) d'))).
    { assert (Bt : Bound m (prov_qn "type")) by (right; split; [discriminate | apply BI]).
      assert (By : Bound m (prov_qn ty)) by (right; split; [discriminate | apply BI]).
      unfold add_attributes. change (bns b1) with m. cbn [rattrs rkind rid r1].
      assert (FA1 : Forall2 (arg_ok c m) [(NQn (prov_qn "type"), AQn (prov_qn ty))] [(prov_qn "type", VQn (prov_qn ty))]).
      { constructor; [|constructor]. unfold arg_ok. cbn [fst snd]. split; [discriminate|].
        split; [apply resolve_o_bound; exact Bt|]. unfold insert_value.
        replace (is_qname_attr (prov_qn "type")) with false by (vm_compute; reflexivity).
        replace (is_time_attr (prov_qn "type")) with false by (vm_compute; reflexivity).
        cbn [auto_conv]. rewrite (resolve_o_bound c m _ By). reflexivity. }
      assert (PA1 : put_all (names_collection [(NQn (prov_qn "type"), AQn (prov_qn ty))]) [(prov_qn "type", VQn (prov_qn ty))] d'
                    = Some (attr_add (prov_qn "type") (VQn (prov_qn ty)) d')).
      { cbn [put_all]. replace (is_formal_attr (prov_qn "type")) with false by (vm_compute; reflexivity).
        rewrite andb_false_r. reflexivity. }
      rewrite (loop_fixed c _ m _ _ d' _ FA1 PA1). reflexivity. }
    eexists. split; [exact RLB|]. split; [|split; [|split]].
    + unfold xml_read_record. change (String.eqb prov_uri prov_uri) with true. cbn [negb].
      rewrite no_stale_children, RLB.
      assert (IDX : match xattr prov_uri "id" (match ident with Some q => [(prov_uri, "id", qn_str q)] | None => [] end) with
                    | None => Some None
                    | Some s0 => match xml_qname scope s0 with Some q => Some (Some q) | None => None end
                    end = Some ident).
      { destruct ident as [q|]; [|reflexivity]. destruct ID as [S _]. unfold xattr. cbn [find fst snd].
        rewrite String.eqb_refl. cbn [String.eqb Ascii.eqb Bool.eqb andb]. unfold scoped in S. rewrite S. reflexivity. }
      rewrite IDX, EA.
      assert (XT : xattr XmlSpec.xsi_ns "type" (match ident with Some q => [(prov_uri, "id", qn_str q)] | None => [] end) = None).
      { destruct ident; [|reflexivity]. unfold xattr. cbn [find fst snd]. change (String.eqb prov_uri XmlSpec.xsi_ns) with false. reflexivity. }
      rewrite XT. rewrite app_nil_r.
      assert (KM : String.eqb kind "Membership" = false) by (apply String.eqb_neq; exact NM). rewrite KM. cbn [andb].
      rewrite NR. fold b1. fold c. rewrite AT. reflexivity.
    + reflexivity.
    + reflexivity.
    + cbn [brecs]. unfold b1. cbn [add_rec_to brecs with_ns]. rewrite set_nth_last. reflexivity.
  - eexists. split; [exact RLB|]. split; [|split; [|split]].
    + unfold xml_read_record. change (String.eqb prov_uri prov_uri) with true. cbn [negb].
      rewrite no_stale_children, RLB.
      assert (IDX : match xattr prov_uri "id" (match ident with Some q => [(prov_uri, "id", qn_str q)] | None => [] end) with
                    | None => Some None
                    | Some s0 => match xml_qname scope s0 with Some q => Some (Some q) | None => None end
                    end = Some ident).
      { destruct ident as [q|]; [|reflexivity]. destruct ID as [S _]. unfold xattr. cbn [find fst snd].
        rewrite String.eqb_refl. cbn [String.eqb Ascii.eqb Bool.eqb andb]. unfold scoped in S. rewrite S. reflexivity. }
      rewrite IDX, EA.
      assert (XT : xattr XmlSpec.xsi_ns "type" (match ident with Some q => [(prov_uri, "id", qn_str q)] | None => [] end) = None).
      { destruct ident; [|reflexivity]. unfold xattr. cbn [find fst snd]. change (String.eqb prov_uri XmlSpec.xsi_ns) with false. reflexivity. }
      rewrite XT. rewrite app_nil_r.
      assert (KM : String.eqb kind "Membership" = false) by (apply String.eqb_neq; exact NM). rewrite KM. cbn [andb].
      rewrite NR. reflexivity.
    + reflexivity.
    + cbn [add_rec_to bid with_ns]. reflexivity.
    + cbn [add_rec_to brecs with_ns final_attrs]. reflexivity.
Qed.

(* ---- nothing is lost by the ordering of the children *)
Lemma insert_by_in : forall key p l x, x = p \/ In x l -> In x (insert_by key p l).
Proof.
  intros key p l. induction l as [|y l IH]; intros x H; cbn [insert_by].
  - destruct H as [->|[]]. left. reflexivity.
  - destruct (str_leb (key y) (key p)).
    + destruct H as [->|[->|H]]; [right; apply IH; left; reflexivity | left; reflexivity | right; apply IH; right; exact H].
    + destruct H as [->|H]; [left; reflexivity | right; exact H].
Qed.

Lemma sort_by_in : forall key l x, In x l -> In x (sort_by key l).
Proof.
  intros key l x. unfold sort_by.
  assert (G : forall acc, In x acc \/ In x l -> In x (fold_left (fun acc p => insert_by key p acc) l acc)).
  { induction l as [|p l IH]; intros acc H; cbn [fold_left]; [destruct H as [H|[]]; exact H|].
    apply IH. destruct H as [H|[->|H]]; [left; apply insert_by_in; right; exact H | left; apply insert_by_in; left; reflexivity | right; exact H]. }
  intros H. apply G. right. exact H.
Qed.

Lemma sorted_pairs_in : forall kind pairs x, In x pairs -> In x (sorted_pairs kind pairs).
Proof.
  intros kind pairs x H. unfold sorted_pairs. apply in_or_app.
  destruct (in_order kind (fst x)) eqn:E.
  - left. unfold in_order in E. apply existsb_exists in E. destruct E as [l [Hl P]].
    apply in_flat_map. exists l. split; [exact Hl|]. apply filter_In. split; assumption.
  - right. apply sort_by_in. apply filter_In. split; [exact H | rewrite E; reflexivity].
Qed.

(* what the record read back holds: the values of the pairs the writer was given — the pair a subtype element
   stands for comes back as the asserted type — and nothing else *)
Theorem roundtrip_values_sound : forall kind rest sub d' x w,
  put_all (has_collection (sorted_pairs kind rest)) (sorted_pairs kind rest) [] = Some d' ->
  In w (attr_get x (final_attrs sub d')) ->
  (exists kv, In kv rest /\ qn_eqb x (fst kv) = true /\ w = snd kv) \/
  (exists ty, sub = Some ty /\ qn_eqb x (prov_qn "type") = true /\ w = VQn (prov_qn ty)).
Proof.
  intros kind rest sub d' x w PA I.
  assert (BASE : In w (attr_get x d') -> exists kv, In kv rest /\ qn_eqb x (fst kv) = true /\ w = snd kv).
  { intros J. destruct (put_all_sound _ _ _ _ PA x w J) as [[]|[kv [Hk X]]].
    exists kv. split; [exact (in_sorted_pairs _ _ _ Hk) | exact X]. }
  destruct sub as [ty|]; cbn [final_attrs] in I; [|left; exact (BASE I)].
  rewrite attr_get_add in I. destruct (qn_eqb x (prov_qn "type")) eqn:E; [|left; exact (BASE I)].
  apply in_set_add in I. destruct I as [I|[-> _]].
  - left. apply BASE. rewrite (attr_get_eqb d' x (prov_qn "type") E). exact I.
  - right. exists ty. split; [reflexivity | split; reflexivity].
Qed.

Theorem roundtrip_values_complete : forall kind rest sub d' kv,
  put_all (has_collection (sorted_pairs kind rest)) (sorted_pairs kind rest) [] = Some d' ->
  In kv rest ->
  exists w, In w (attr_get (fst kv) (final_attrs sub d')) /\
            (w = snd kv \/ set_same (snd kv) w = true \/ py_eq (snd kv) w = true).
Proof.
  intros kind rest sub d' kv PA I.
  destruct (put_all_complete _ _ _ _ PA kv (sorted_pairs_in kind rest kv I)) as [w [Hw C]].
  exists w. split; [|exact C]. destruct sub as [ty|]; cbn [final_attrs]; [|exact Hw].
  rewrite attr_get_add. destruct (qn_eqb (fst kv) (prov_qn "type")) eqn:E; [|exact Hw].
  apply in_set_add. left. rewrite <- (attr_get_eqb d' (fst kv) (prov_qn "type") E). exact Hw.
Qed.

(* ---- the premises are satisfiable: the agent of XmlRecProofs, written as <prov:person> and read back *)
Definition v_b : bundle := mkB None x_m [] [].
Definition v_prefix (ns : string) : option string :=
  if String.eqb ns "http://e/" then Some "ex" else if String.eqb ns prov_uri then Some "prov" else None.

Example xml_record_roundtrip_applies :
  exists x b', xml_record false w_scope "Agent" (Some (w_q "g")) w_pairs = Some x /\
    xml_read_record None [] v_prefix v_b x = (b', OK tt) /\
    brecs b' = [mkRec "Agent" (Some (w_q "g"))
                  [(prov_qn "label", [VStr "lab"]); (w_q "k", [VInt 5]); (prov_qn "type", [VQn (prov_qn "Person")])]].
Proof.
  assert (RL : record_label "Agent" w_pairs = Some ("person", [(w_q "k", VInt 5); (prov_qn "label", VStr "lab")]))
    by (vm_compute; reflexivity).
  assert (XR : exists x, xml_record false w_scope "Agent" (Some (w_q "g")) w_pairs = Some x)
    by (unfold xml_record; rewrite RL; eexists; reflexivity).
  destruct XR as [x XR]. exists x.
  destruct (xml_record_roundtrip None [] false v_prefix v_b w_scope "Agent" (Some (w_q "g")) w_pairs "person"
              [(w_q "k", VInt 5); (prov_qn "label", VStr "lab")] x
              [(prov_qn "label", [VStr "lab"]); (w_q "k", [VInt 5])]) as [sub [b' [RLB [RD [_ [_ BR]]]]]].
  - vm_compute. reflexivity.
  - discriminate.
  - split; vm_compute; reflexivity.
  - exact RL.
  - exact XR.
  - change (sorted_pairs "Agent" [(w_q "k", VInt 5); (prov_qn "label", VStr "lab")])
      with [(prov_qn "label", VStr "lab"); (w_q "k", VInt 5)].
    constructor; [|constructor; [|constructor]]; (split; [vm_compute; reflexivity|]); cbn [fst snd].
    + split; [right; split; [discriminate | vm_compute; reflexivity]|].
      apply xrt_str; [reflexivity | vm_compute; reflexivity | vm_compute; reflexivity].
    + split; [right; split; [discriminate | vm_compute; reflexivity]|].
      apply xrt_int; [reflexivity | repeat split; vm_compute; reflexivity].
  - split; [vm_compute; reflexivity | right; split; [discriminate | vm_compute; reflexivity]].
  - vm_compute. reflexivity.
  - exists b'. split; [exact XR|]. split; [exact RD|]. rewrite BR.
    vm_compute in RLB. inversion RLB; subst sub. vm_compute. reflexivity.
Qed.

(* ---- a literal of a datatype the library does not convert *)
Theorem xrt_foreign : forall fl c m scope a lex d, is_qname_attr a = false -> is_time_attr a = false ->
  String.eqb (qn_uri d) (xsd_uri ++ "QName") = false ->
  scoped scope d -> Bound m d -> parse_xsd (cft c) lex d = CKeep ->
  xrt fl c m scope a (VLit lex (Some d) None).
Proof.
  intros fl c m scope a lex d Q T NQ S Bd K. unfold xrt, xml_emit. norm_always. cbn [prov_str]. rewrite Q, (andb_false_r (intl_string d)).
  cbn [andb negb]. rewrite !andb_false_r. cbn [andb].
  eexists. split; [|split].
  - unfold extract_value. cbn [xo_attrs xo_text x_text x_type x_lang x_ref app fold_left].
    change (String.eqb XmlSpec.xsi_ns XmlSpec.xsi_ns) with true. cbn [String.eqb Ascii.eqb Bool.eqb andb].
    unfold scoped in S. rewrite S, NQ. reflexivity.
  - discriminate.
  - unfold insert_value. rewrite Q, T. cbn [auto_conv]. rewrite K. unfold keep_literal. cbn [mk_literal].
    rewrite (resolve_o_bound c m d Bd). reflexivity.
Qed.

(* ---- all value kinds at once, for an attribute that is neither a reference nor a time nor prov:label/prov:time *)
Definition xvalue_ok (c : actx) (m : nsm) (scope : list (string * string)) (v : value) : Prop :=
  match v with
  | VQn q => scoped scope q /\ Bound m q
  | VTime t => valid_dt t = true
  | VFloat r iv g => lookup r (cft c) = Some (Some (r, iv, g))
  | VLit lex d (Some (String _ _)) => d = Some (prov_qn "InternationalizedString")
  | VLit lex (Some d) None =>
      String.eqb (qn_uri d) (xsd_uri ++ "QName") = false /\ scoped scope d /\ Bound m d
  | VLit _ _ _ => False
  | _ => True
  end.

Theorem xrt_of_stored : forall fl c m scope a v, XScope scope -> Builtins m -> plain_attr a ->
  stored (cft c) v -> xvalue_ok c m scope v -> xrt fl c m scope a v.
Proof.
  intros fl c m scope a v X B PA S O. destruct PA as [Q [T L]].
  destruct v as [s|z|r iv g|b|t|u|q|lex d lg]; cbn [xvalue_ok] in O.
  - apply xrt_str; assumption.
  - apply xrt_int; [exact X | repeat split; assumption].
  - apply xrt_float; [exact X | repeat split; assumption | exact O].
  - apply xrt_bool; [exact X | repeat split; assumption].
  - apply xrt_time; [exact X | repeat split; assumption | exact O].
  - apply xrt_id; [exact X | repeat split; assumption].
  - destruct O as [Sc Bd]. apply xrt_qn; assumption.
  - destruct lg as [[|ch l]|].
    + destruct d; destruct O.
    + destruct d as [d|]; cbn in O; [|discriminate O]. inversion O; subst d. apply xrt_lang; assumption.
    + destruct d as [d|]; [|destruct O]. destruct O as [NQ [Sc Bd]]. cbn [stored] in S.
      apply xrt_foreign; assumption.
Qed.

(* ================================================================== a whole container *)
(* the record r, written in scope `scope`, is read back in manager m as r' *)
Definition rec_back (par : option nsm) (ft : ftable) (fl : bool) (prefix_of : string -> option string) (m : nsm)
  (scope : list (string * string)) (kind : string) (ident : option qname) (pairs : list (qname * value)) (x : xnode) (r' : prec) : Prop :=
  exists label rest d',
    lookup kind prov_base_cls = Some kind /\ kind <> "Membership" /\
    record_label kind pairs = Some (label, rest) /\
    xml_record fl scope kind ident pairs = Some x /\
    Forall (child_ok fl (mkCtx par ft) m prefix_of scope) (sorted_pairs kind rest) /\
    match ident with Some q => scoped scope q /\ Bound m q | None => is_element kind = false end /\
    put_all (has_collection (sorted_pairs kind rest)) (sorted_pairs kind rest) [] = Some d' /\
    exists sub, read_label label = Some (kind, sub) /\ r' = mkRec kind ident (final_attrs sub d').

Lemma rec_back_reads : forall par ft fl prefix_of b scope kind ident pairs x r',
  Builtins (bns b) -> rec_back par ft fl prefix_of (bns b) scope kind ident pairs x r' ->
  exists b', xml_read_record par ft prefix_of b x = (b', OK tt) /\ bns b' = bns b /\ bid b' = bid b /\
             brecs b' = (brecs b ++ [r'])%list.
Proof.
  intros par ft fl prefix_of b scope kind ident pairs x r' BI [label [rest [d' [K [NM [RL [XR [CH [ID [PA [sub [RB ->]]]]]]]]]]]].
  destruct (xml_record_roundtrip par ft fl prefix_of b scope kind ident pairs label rest x d' K NM BI RL XR CH ID PA)
    as [sub2 [b' [RB2 [RD [EN [EI ER]]]]]].
  rewrite RB in RB2. inversion RB2; subst sub2. exists b'. repeat split; assumption.
Qed.

Theorem xml_container_roundtrip : forall par ft fl prefix_of scope (items : list (string * option qname * list (qname * value) * xnode * prec)) b,
  Builtins (bns b) ->
  Forall (fun it => match it with (kind, ident, pairs, x, r') =>
                      rec_back par ft fl prefix_of (bns b) scope kind ident pairs x r' end) items ->
  exists b', xml_read_records par ft prefix_of b (map (fun it => snd (fst it)) items) = (b', OK tt) /\
             bns b' = bns b /\ bid b' = bid b /\
             brecs b' = (brecs b ++ map (fun it => snd it) items)%list.
Proof.
  intros par ft fl prefix_of scope items. induction items as [|[[[[kind ident] pairs] x] r'] items IH]; intros b BI F.
  - exists b. cbn [map xml_read_records]. rewrite app_nil_r. repeat split; reflexivity.
  - inversion F as [|it l H F']; subst.
    destruct (rec_back_reads par ft fl prefix_of b scope kind ident pairs x r' BI H) as [b1 [R1 [N1 [I1 B1]]]].
    assert (BI1 : Builtins (bns b1)) by (rewrite N1; exact BI).
    assert (F1 : Forall (fun it => match it with (kind, ident, pairs, x, r') =>
                      rec_back par ft fl prefix_of (bns b1) scope kind ident pairs x r' end) items) by (rewrite N1; exact F').
    destruct (IH b1 BI1 F1) as [b2 [R2 [N2 [I2 B2]]]].
    exists b2. cbn [map xml_read_records fst snd]. rewrite R1. split; [exact R2|].
    split; [rewrite N2; exact N1|]. split; [rewrite I2; exact I1|].
    rewrite B2, B1, <- app_assoc. reflexivity.
Qed.
