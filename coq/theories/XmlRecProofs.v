(* XmlRecProofs.v — C02/C10 at record level, PROV-XML: the element the model of the writer builds for a record
   (XmlRec.xml_record) is read by the reader written from the specification (XmlSpec.read_record) as the record:
   its children come in the order the schema demands, every child is read as its (attribute, value) pair, and a
   subtype element name stands for the prov:type pair that was taken out. *)
From Coq Require Import String Ascii List Bool Arith ZArith Lia Sorted.
From Prov Require Import Str StrProofs Sexp Tables Spec TablesOK Nsm NsmProofs Values Record RecordProofs World
  Xml XmlProofs XmlSpec IsoProofs TimeProofs SpecProofs XmlLabel XmlLabelProofs XmlRec.
Import ListNotations.
Open Scope string_scope.

(* ---- order of the children *)
Lemma nondec_sorted : forall l : list nat, StronglySorted le l -> nondecreasing l = true.
Proof.
  induction l as [|a l IH]; intros S; [reflexivity|]. destruct l as [|b r]; [reflexivity|].
  inversion S as [|x xs S' F]; subst. inversion F as [|y ys Hab _]; subst. apply Nat.leb_le in Hab.
  change (nondecreasing (a :: b :: r)) with ((a <=? b)%nat && nondecreasing (b :: r))%bool.
  rewrite Hab, (IH S'). reflexivity.
Qed.

Lemma ssorted_app : forall (l1 l2 : list nat),
  StronglySorted le l1 -> StronglySorted le l2 -> (forall x y, In x l1 -> In y l2 -> x <= y) ->
  StronglySorted le (l1 ++ l2).
Proof.
  induction l1 as [|a l1 IH]; intros l2 S1 S2 H; [exact S2|].
  inversion S1 as [|x xs S1' F1]; subst. cbn [app]. constructor.
  - apply IH; [exact S1' | exact S2 | intros x y Hx Hy; apply H; [right; exact Hx | exact Hy]].
  - apply Forall_app. split; [exact F1|]. apply Forall_forall. intros y Hy. apply H; [left; reflexivity | exact Hy].
Qed.

Lemma ssorted_const : forall n (l : list nat), (forall x, In x l -> x = n) -> StronglySorted le l.
Proof.
  intros n l. induction l as [|a l IH]; intros H; [constructor|]. constructor.
  - apply IH. intros x Hx. apply H. right. exact Hx.
  - apply Forall_forall. intros y Hy. rewrite (H a (or_introl eq_refl)), (H y (or_intror Hy)). apply le_n.
Qed.

(* groups listed by increasing rank *)
Lemma ssorted_groups : forall (T : Type) (rank : T -> nat) (groups : list (list T)) (base : nat),
  (forall i g x, nth_error groups i = Some g -> In x g -> rank x = base + i) ->
  StronglySorted le (map rank (concat groups)).
Proof.
  intros T rank groups. induction groups as [|g groups IH]; intros base H; [constructor|].
  cbn [concat]. rewrite map_app. apply ssorted_app.
  - apply (ssorted_const (base + 0)). intros x Hx. apply in_map_iff in Hx. destruct Hx as [y [<- Hy]].
    exact (H 0 g y eq_refl Hy).
  - apply (IH (S base)). intros i g' x N Hx. rewrite (H (S i) g' x N Hx). lia.
  - intros x y Hx Hy. apply in_map_iff in Hx. destruct Hx as [x0 [<- Hx0]].
    apply in_map_iff in Hy. destruct Hy as [y0 [<- Hy0]]. apply in_concat in Hy0. destruct Hy0 as [g' [Hg' Hy0]].
    destruct (In_nth_error _ _ Hg') as [i N]. rewrite (H 0 g x0 eq_refl Hx0), (H (S i) g' y0 N Hy0). lia.
Qed.

Lemma NoDup_app_remove_r_local : forall (T : Type) (a b : list T), NoDup (a ++ b) -> NoDup a.
Proof.
  intros T a b. induction a as [|x a IH]; intros N; [constructor|]. cbn [app] in N. inversion N as [|y ys Hn N']; subst.
  constructor; [intro I; apply Hn; apply in_or_app; left; exact I | exact (IH N')].
Qed.
Lemma NoDup_app_remove_l_local : forall (T : Type) (a b : list T), NoDup (a ++ b) -> NoDup b.
Proof. intros T a b. induction a as [|x a IH]; intros N; [exact N|]. cbn [app] in N. inversion N; subst. apply IH. assumption. Qed.
Lemma NoDup_app_disjoint : forall (T : Type) (a b : list T), NoDup (a ++ b) -> forall x, In x a -> In x b -> False.
Proof.
  intros T a b. induction a as [|y a IH]; intros N x Ia Ib; [destruct Ia|]. cbn [app] in N. inversion N as [|z zs Hn N']; subst.
  destruct Ia as [->|Ia]; [apply Hn; apply in_or_app; right; exact Ib | exact (IH N' x Ia Ib)].
Qed.

Lemma index_in_nth : forall l s i k, NoDup l -> nth_error l k = Some s -> index_in s l i = Some (i + k).
Proof.
  induction l as [|x l IH]; intros s i k U N; [destruct k; discriminate|].
  inversion U as [|y ys Hn U']; subst. cbn [index_in]. destruct k as [|k].
  - cbn in N. inversion N; subst. rewrite String.eqb_refl. f_equal. lia.
  - cbn in N. destruct (String.eqb x s) eqn:E.
    + apply String.eqb_eq in E. subst. exfalso. apply Hn. exact (nth_error_In _ _ N).
    + rewrite (IH s (S i) k U' N). f_equal. lia.
Qed.

Lemma index_in_none : forall l s i, ~ In s l -> index_in s l i = None.
Proof.
  induction l as [|x l IH]; intros s i N; [reflexivity|]. cbn [index_in].
  destruct (String.eqb x s) eqn:E; [apply String.eqb_eq in E; subst; exfalso; apply N; left; reflexivity|].
  apply IH. intro H. apply N. right. exact H.
Qed.

Definition five : list string := ["label"; "location"; "role"; "type"; "value"].

(* the rank of a child whose name is the k-th key of the order list *)
Lemma rank_of_key : forall formals l k attrs scope text kids,
  NoDup (formals ++ five) -> nth_error (formals ++ five) k = Some l ->
  child_rank formals (XE spec_prov_uri l attrs scope text kids) = k.
Proof.
  intros formals l k attrs scope text kids U N. unfold child_rank. rewrite String.eqb_refl.
  destruct (Nat.lt_ge_cases k (length formals)) as [LT|GE].
  - rewrite nth_error_app1 in N by exact LT.
    rewrite (index_in_nth formals l 0 k (NoDup_app_remove_r_local _ _ _ U) N). reflexivity.
  - rewrite nth_error_app2 in N by exact GE.
    assert (NI : ~ In l formals).
    { intro I. apply (NoDup_app_disjoint _ _ _ U l I). exact (nth_error_In _ _ N). }
    rewrite (index_in_none formals l 0 NI).
    fold five. rewrite (index_in_nth five l 0 (k - length formals) (NoDup_app_remove_l_local _ _ _ U) N). cbn [Nat.add]. lia.
Qed.

(* names of the PROV namespace are written with that namespace and their local name *)
Definition canon_prov (a : qname) : Prop :=
  forall l, is_prov_name l a = true -> ns_uri (qn_ns a) = prov_uri /\ qn_local a = l.

Lemma in_insert_by : forall key p l x, In x (insert_by key p l) -> x = p \/ In x l.
Proof.
  intros key p l. induction l as [|y l IH]; intros x H; cbn [insert_by] in H.
  - destruct H as [<-|[]]. left. reflexivity.
  - destruct (str_leb (key y) (key p)).
    + destruct H as [<-|H]; [right; left; reflexivity|]. destruct (IH x H) as [->|I]; [left; reflexivity | right; right; exact I].
    + destruct H as [<-|H]; [left; reflexivity | right; exact H].
Qed.

Lemma in_sort_by : forall key l x, In x (sort_by key l) -> In x l.
Proof.
  intros key l x. unfold sort_by.
  assert (G : forall acc, In x (fold_left (fun acc p => insert_by key p acc) l acc) -> In x acc \/ In x l).
  { induction l as [|p l IH]; intros acc H; [left; exact H|]. cbn [fold_left] in H.
    destruct (IH _ H) as [I|I]; [|right; right; exact I].
    destruct (in_insert_by _ _ _ _ I) as [->|I2]; [right; left; reflexivity | left; exact I2]. }
  intros H. destruct (G [] H) as [[]|I]. exact I.
Qed.

Lemma other_rank : forall fl scope kind kv, in_order kind (fst kv) = false ->
  child_rank (formal_attrs kind) (xml_child fl scope kv) = length (formal_attrs kind) + 5.
Proof.
  intros fl scope kind [a v] NO. cbn [fst] in NO. unfold xml_child. cbn [fst snd]. unfold child_rank.
  destruct (String.eqb (ns_uri (qn_ns a)) spec_prov_uri) eqn:E; [|reflexivity].
  apply String.eqb_eq in E.
  assert (P : is_prov_name (qn_local a) a = true).
  { unfold is_prov_name, qn_uri. rewrite E. apply String.eqb_refl. }
  assert (NI : ~ In (qn_local a) (order_keys kind)).
  { intro I. unfold in_order in NO.
    assert (X : existsb (fun l => is_prov_name l a) (order_keys kind) = true) by (apply existsb_exists; exists (qn_local a); split; assumption).
    rewrite X in NO. discriminate. }
  unfold order_keys in NI. fold five in NI.
  rewrite (index_in_none _ _ 0 (fun I => NI (in_or_app _ _ _ (or_introl I)))).
  fold five. rewrite (index_in_none five _ 0 (fun I => NI (in_or_app _ _ _ (or_intror I)))). reflexivity.
Qed.

Theorem children_ordered : forall fl scope kind pairs,
  NoDup (formal_attrs kind ++ five) -> Forall (fun kv => canon_prov (fst kv)) pairs ->
  schema_order (formal_attrs kind) (map (xml_child fl scope) (sorted_pairs kind pairs)) = true.
Proof.
  intros fl scope kind pairs U C. unfold schema_order. apply nondec_sorted.
  unfold sorted_pairs. rewrite !map_app. apply ssorted_app.
  - (* the ordered groups *)
    rewrite flat_map_concat_map, map_map.
    replace (map (fun x => child_rank (formal_attrs kind) (xml_child fl scope x))
                 (concat (map (fun l => filter (fun kv => is_prov_name l (fst kv)) pairs) (order_keys kind))))
      with (map (fun x => child_rank (formal_attrs kind) (xml_child fl scope x))
                (concat (map (fun l => filter (fun kv => is_prov_name l (fst kv)) pairs) (order_keys kind)))) by reflexivity.
    apply (ssorted_groups _ (fun x => child_rank (formal_attrs kind) (xml_child fl scope x)) _ 0).
    intros i g [a v] N Hx. cbn [Nat.add].
    rewrite nth_error_map in N. destruct (nth_error (order_keys kind) i) as [l|] eqn:NK; [|discriminate].
    cbn [option_map] in N. inversion N; subst g. apply filter_In in Hx. destruct Hx as [Hin P]. cbn [fst] in P.
    destruct (proj1 (Forall_forall _ _) C (a, v) Hin l P) as [EN EL]. cbn [fst] in EN, EL.
    unfold xml_child. cbn [fst snd]. rewrite EN, EL.
    apply (rank_of_key (formal_attrs kind) l i); [exact U | exact NK].
  - apply (ssorted_const (length (formal_attrs kind) + 5)). intros x Hx.
    rewrite map_map in Hx. apply in_map_iff in Hx. destruct Hx as [kv [<- Hk]].
    apply in_sort_by in Hk. apply filter_In in Hk. destruct Hk as [_ NO]. apply negb_true_iff in NO.
    apply other_rank. exact NO.
  - intros x y Hx Hy.
    rewrite map_map in Hy. apply in_map_iff in Hy. destruct Hy as [kv [<- Hk]].
    apply in_sort_by in Hk. apply filter_In in Hk. destruct Hk as [_ NO]. apply negb_true_iff in NO.
    rewrite (other_rank fl scope kind kv NO).
    rewrite map_map in Hx. apply in_map_iff in Hx. destruct Hx as [[a v] [<- Hk]].
    apply in_flat_map in Hk. destruct Hk as [l [Hl Hf]]. apply filter_In in Hf. destruct Hf as [Hin P]. cbn [fst] in P.
    destruct (proj1 (Forall_forall _ _) C (a, v) Hin l P) as [EN EL]. cbn [fst] in EN, EL.
    destruct (In_nth_error _ _ Hl) as [i NK].
    unfold xml_child. cbn [fst snd]. rewrite EN, EL.
    rewrite (rank_of_key (formal_attrs kind) l i _ _ _ _ U NK).
    assert (LT : i < length (order_keys kind)) by (apply nth_error_Some; rewrite NK; discriminate).
    unfold order_keys in LT. rewrite app_length in LT. cbn [length] in LT. lia.
Qed.

(* ---- reading the children *)
Definition pair_content (kv : qname * value) : sexp := L [A (qn_uri (fst kv)); content_value (snd kv)].

Definition PairXml (ft : ftable) (fl : bool) (scope : list (string * string)) (formals : list string) (kv : qname * value) : Prop :=
  read_child ft formals (xml_child fl scope kv) = Some (pair_content kv).

Lemma read_children : forall ft fl scope formals l, Forall (PairXml ft fl scope formals) l ->
  XmlSpec.all_some (map (read_child ft formals) (map (xml_child fl scope) l)) = Some (map pair_content l).
Proof.
  intros ft fl scope formals l F. induction F as [|kv l H F IH]; [reflexivity|].
  cbn [map XmlSpec.all_some]. unfold PairXml in H. rewrite H, IH. reflexivity.
Qed.

Lemma in_sorted_pairs : forall kind pairs x, In x (sorted_pairs kind pairs) -> In x pairs.
Proof.
  intros kind pairs x H. unfold sorted_pairs in H. apply in_app_or in H. destruct H as [H|H].
  - apply in_flat_map in H. destruct H as [l [_ H]]. apply filter_In in H. exact (proj1 H).
  - apply in_sort_by in H. apply filter_In in H. exact (proj1 H).
Qed.

Fixpoint strs_eqb (a b : list string) : bool :=
  match a, b with
  | [], [] => true
  | x :: r, y :: s => (String.eqb x y && strs_eqb r s)%bool
  | _, _ => false
  end.
Lemma strs_eqb_eq : forall a b, strs_eqb a b = true -> a = b.
Proof.
  induction a as [|x a IH]; intros [|y b] H; try discriminate; [reflexivity|].
  cbn in H. apply andb_true_iff in H. destruct H as [E H]. apply String.eqb_eq in E. subst. f_equal. exact (IH b H).
Qed.

(* the tables of the writer and of the specification agree on element names *)
Definition name_agrees (l : string) : bool :=
  match full_name l, lookup l prov_base_cls with
  | Some n, Some b =>
      match XmlSpec.kind_by_name n with
      | Some (k, fs, sub) =>
          (String.eqb k b && strs_eqb fs (formal_attrs b) &&
           match sub with
           | None => String.eqb b l
           | Some ty => (String.eqb ty l && negb (String.eqb b l))%bool
           end)%bool
      | None => false
      end
  | _, _ => false
  end.

Lemma all_names_agree : forallb name_agrees (map fst prov_base_cls) = true.
Proof. vm_compute. reflexivity. Qed.

Lemma name_agrees_spec : forall l b n, lookup l prov_base_cls = Some b -> full_name l = Some n ->
  XmlSpec.kind_by_name n = Some (b, formal_attrs b, if String.eqb b l then None else Some l).
Proof.
  intros l b n B F. pose proof (proj1 (forallb_forall _ _) all_names_agree l (lookup_key_in _ _ _ B)) as H.
  unfold name_agrees in H. rewrite F, B in H.
  destruct (XmlSpec.kind_by_name n) as [[[k fs] sub]|]; [|discriminate].
  apply andb_true_iff in H. destruct H as [H H3]. apply andb_true_iff in H. destruct H as [H1 H2].
  apply String.eqb_eq in H1. apply strs_eqb_eq in H2. subst k fs.
  destruct sub as [ty|].
  - apply andb_true_iff in H3. destruct H3 as [E N]. apply String.eqb_eq in E. subst ty.
    apply negb_true_iff in N. rewrite N. reflexivity.
  - rewrite H3. reflexivity.
Qed.

(* ---- the record *)
Definition sub_content (sub : option string) : list sexp :=
  match sub with Some ty => [L [A (spec_prov_uri ++ "type"); L [A "qn"; A (spec_prov_uri ++ ty)]]] | None => [] end.

Theorem xml_record_read : forall ft fl scope kind ident pairs label rest x ic,
  lookup kind prov_base_cls = Some kind -> kind <> "Membership" ->
  NoDup (formal_attrs kind ++ five) ->
  record_label kind pairs = Some (label, rest) ->
  xml_record fl scope kind ident pairs = Some x ->
  Forall (fun kv => canon_prov (fst kv)) rest ->
  Forall (PairXml ft fl scope (formal_attrs kind)) rest ->
  match ident with
  | Some q => resolve_uri scope (qn_str q) = Some (qn_uri q) /\ ic = A (qn_uri q)
  | None => ic = A "none"
  end ->
  exists sub,
    XmlSpec.kind_by_name label = Some (kind, formal_attrs kind, sub) /\
    (sub = None /\ rest = pairs \/ exists l, sub = Some l /\ derive_label kind pairs = Some (l, rest)) /\
    XmlSpec.read_record ft x
    = Some [L [A "rec"; A (spec_prov_uri ++ kind); ic;
               L (map pair_content (sorted_pairs kind rest) ++ sub_content sub)]].
Proof.
  intros ft fl scope kind ident pairs label rest x ic K NM U RL XR C P ID.
  (* the element name, on both sides *)
  assert (KN : exists sub, XmlSpec.kind_by_name label = Some (kind, formal_attrs kind, sub) /\
                 (sub = None /\ rest = pairs \/ exists l, sub = Some l /\ derive_label kind pairs = Some (l, rest))).
  { unfold record_label in RL. destruct (derive_label kind pairs) as [[l r0]|] eqn:D.
    - destruct (full_name l) as [n|] eqn:F; [|discriminate]. cbn in RL. inversion RL; subst n r0.
      destruct (derive_label_split _ _ _ _ D) as [pre [k [q [post [_ [_ [_ [_ [B N]]]]]]]]].
      pose proof (name_agrees_spec l kind label B F) as A.
      assert (E : String.eqb kind l = false) by (apply String.eqb_neq; intro X; apply N; symmetry; exact X).
      rewrite E in A. exists (Some l). split; [exact A|]. right. exists l. split; reflexivity.
    - destruct (full_name kind) as [n|] eqn:F; [|discriminate]. cbn in RL. inversion RL; subst n rest.
      pose proof (name_agrees_spec kind kind label K F) as A. rewrite String.eqb_refl in A.
      exists None. split; [exact A|]. left. split; reflexivity. }
  destruct KN as [sub [KN SUB]]. exists sub. split; [exact KN|]. split; [exact SUB|].
  unfold xml_record in XR. rewrite RL in XR. inversion XR; subst x. clear XR.
  unfold XmlSpec.read_record. change (String.eqb prov_uri spec_prov_uri) with true. cbn [negb]. rewrite KN.
  rewrite (children_ordered fl scope kind rest U C). cbn [negb].
  assert (PS : Forall (PairXml ft fl scope (formal_attrs kind)) (sorted_pairs kind rest)).
  { apply Forall_forall. intros kv I. exact (proj1 (Forall_forall _ _) P kv (in_sorted_pairs _ _ _ I)). }
  rewrite (read_children ft fl scope (formal_attrs kind) _ PS).
  assert (KM : String.eqb kind "Membership" = false) by (apply String.eqb_neq; exact NM).
  destruct ident as [q|].
  - destruct ID as [R ->]. unfold xattr. cbn [find fst snd]. change (String.eqb prov_uri spec_prov_uri) with true.
    cbn [String.eqb Ascii.eqb Bool.eqb andb]. rewrite R. cbn [option_map].
    change (String.eqb prov_uri xsi_ns) with false. cbn [andb]. rewrite KM. cbn [andb].
    unfold sub_content. destruct sub; rewrite ?app_nil_r; reflexivity.
  - subst ic. unfold xattr. cbn [find]. rewrite KM. cbn [andb].
    unfold sub_content. destruct sub; rewrite ?app_nil_r; reflexivity.
Qed.

(* ---- every pair the value-level theorems cover is read back by read_child *)
Lemma pairxml_value : forall ft fl scope formals a v,
  (String.eqb (ns_uri (qn_ns a)) spec_prov_uri && existsb (String.eqb (qn_local a)) formals)%bool = false ->
  spec_xml_value ft scope fl a v = Some (content_value v) ->
  PairXml ft fl scope formals (a, v).
Proof.
  intros ft fl scope formals a v NF S. unfold PairXml, xml_child, read_child. cbn [fst snd]. rewrite NF.
  unfold spec_xml_value in S. change (xo_attrs (xml_emit fl a v)) with (xout_attrs (xml_emit fl a v)).
  change (xo_text (xml_emit fl a v)) with (xout_text (xml_emit fl a v)). rewrite S. reflexivity.
Qed.

Lemma pairxml_ref : forall ft fl scope formals l q, XStd scope ->
  is_qname_attr (prov_qn l) = true -> existsb (String.eqb l) formals = true ->
  existsb (String.eqb l) spec_time_args = false ->
  ns_prefix (qn_ns q) <> "" -> contains_char colon (ns_prefix (qn_ns q)) = false ->
  lookup (ns_prefix (qn_ns q)) scope = Some (ns_uri (qn_ns q)) ->
  String.eqb (ns_uri (qn_ns q)) XmlSpec.xsd_ns = false ->
  PairXml ft fl scope formals (prov_qn l, VQn q).
Proof.
  intros ft fl scope formals l q Hx Q F NT NE C B NX.
  exact (spec_xml_ref ft scope fl l formals q Hx Q F NT NE C B NX).
Qed.

Lemma pairxml_time : forall ft fl scope formals l tm,
  is_qname_attr (prov_qn l) = false -> is_time_attr (prov_qn l) = true ->
  existsb (String.eqb l) formals = true -> existsb (String.eqb l) spec_time_args = true ->
  valid_dt tm = true ->
  PairXml ft fl scope formals (prov_qn l, VTime tm).
Proof.
  intros ft fl scope formals l tm Q T F TA V. exact (spec_xml_formal_time ft scope fl l formals tm Q T F TA V).
Qed.

(* ---- the premises are satisfiable: an agent typed prov:Person with an integer attribute and a label *)
Definition w_q (l : string) : qname := mkQn (mkNs "ex" "http://e/") l.
Definition w_scope : list (string * string) :=
  [("ex", "http://e/"); ("prov", prov_uri); ("xsd", XmlSpec.xsd_ns); ("xsi", XmlSpec.xsi_ns)].
Definition w_pairs : list (qname * value) :=
  [(w_q "k", VInt 5); (prov_qn "type", VQn (prov_qn "Person")); (prov_qn "label", VStr "lab")].

Lemma canon_ex : forall l, canon_prov (w_q l).
Proof.
  intros l l0 H. unfold is_prov_name, qn_uri, w_q in H. cbn [qn_ns ns_uri qn_local] in H.
  cbn [append String.eqb Ascii.eqb Bool.eqb] in H. cbn in H. discriminate.
Qed.

Lemma canon_prov_qn : forall l, canon_prov (prov_qn l).
Proof.
  intros l l0 H. unfold is_prov_name, qn_uri, prov_qn in H. cbn [qn_ns ns_uri qn_local prov_ns] in H.
  apply String.eqb_eq in H. apply append_inj_l in H. split; [reflexivity | exact H].
Qed.

Example xml_record_read_applies :
  exists x, xml_record false w_scope "Agent" (Some (w_q "g")) w_pairs = Some x /\
    XmlSpec.read_record [] x
    = Some [L [A "rec"; A (spec_prov_uri ++ "Agent"); A "http://e/g";
               L [L [A (spec_prov_uri ++ "label"); L [A "str"; A "lab"]];
                  L [A "http://e/k"; L [A "int"; sx_Z 5]];
                  L [A (spec_prov_uri ++ "type"); L [A "qn"; A (spec_prov_uri ++ "Person")]]]]].
Proof.
  assert (RL : record_label "Agent" w_pairs = Some ("person", [(w_q "k", VInt 5); (prov_qn "label", VStr "lab")]))
    by (vm_compute; reflexivity).
  assert (XR : exists x, xml_record false w_scope "Agent" (Some (w_q "g")) w_pairs = Some x)
    by (unfold xml_record; rewrite RL; eexists; reflexivity).
  destruct XR as [x XR]. exists x. split; [exact XR|].
  destruct (xml_record_read [] false w_scope "Agent" (Some (w_q "g")) w_pairs "person"
              [(w_q "k", VInt 5); (prov_qn "label", VStr "lab")] x (A "http://e/g")) as [sub [KN [SUB RR]]].
  - vm_compute. reflexivity.
  - discriminate.
  - vm_compute. repeat constructor; cbn; intuition discriminate.
  - exact RL.
  - exact XR.
  - constructor; [apply canon_ex | constructor; [apply canon_prov_qn | constructor]].
  - constructor; [|constructor; [|constructor]].
    + apply pairxml_value; [reflexivity|]. apply spec_xml_int; [reflexivity | repeat split; vm_compute; reflexivity].
    + apply pairxml_value; [reflexivity|]. apply spec_xml_str; [reflexivity | vm_compute; reflexivity].
  - split; [vm_compute; reflexivity | reflexivity].
  - rewrite RR. vm_compute in KN. inversion KN; subst sub. vm_compute. reflexivity.
Qed.
