(* Scope.v — the state machine C03 quantifies over: one document manager and the
   managers of bundles inheriting from it, driven by add_namespace,
   set_default_namespace and valid_qualified_name. *)
From Coq Require Import String List Bool Arith.
From Prov Require Import Str Sexp Tables Nsm.
Import ListNotations.
Open Scope string_scope.

Record scope : Type := mkScope { sdoc : nsm; sbuns : list nsm }.
Definition scope_init : scope := mkScope nsm_init [].

(* target: None = the document, Some i = the i-th bundle *)
Inductive nsop : Type :=
| OAddNs (t : option nat) (p u : string)
| OSetDefault (t : option nat) (u : string)
| OResolve (t : option nat) (x : namearg)
| ONewBundle.

Inductive nsobs : Type :=
| ObNs (n : ns)
| ObQn (q : option qname)
| ObUnit
| ObRaise (e : exc)
| ObBadTarget
| ObOutOfDomain.

Definition get_mgr (s : scope) (t : option nat) : option nsm :=
  match t with None => Some (sdoc s) | Some i => nth_error (sbuns s) i end.
Definition parent_of (s : scope) (t : option nat) : option nsm :=
  match t with None => None | Some _ => Some (sdoc s) end.

Fixpoint set_nth {T} (i : nat) (v : T) (l : list T) : list T :=
  match l with
  | [] => []
  | x :: r => match i with O => v :: r | S k => x :: set_nth k v r end
  end.
Definition set_mgr (s : scope) (t : option nat) (m : nsm) : scope :=
  match t with
  | None => mkScope m (sbuns s)
  | Some i => mkScope (sdoc s) (set_nth i m (sbuns s))
  end.

Definition sstep (s : scope) (o : nsop) : scope * nsobs :=
  match o with
  | ONewBundle => (mkScope (sdoc s) (sbuns s ++ [nsm_init]), ObUnit)
  | OAddNs t p u =>
      match get_mgr s t with
      | None => (s, ObBadTarget)
      | Some m =>
          if uri_ok u then
            match add_namespace m (mkNs p u) with
            | Some (m', n) => (set_mgr s t m', ObNs n)
            | None => (s, ObOutOfDomain)
            end
          else (s, ObRaise EValue)
      end
  | OSetDefault t u =>
      match get_mgr s t with
      | None => (s, ObBadTarget)
      | Some m =>
          if uri_ok u then (set_mgr s t (set_default m u), ObUnit)
          else (s, ObRaise EValue)
      end
  | OResolve t x =>
      match get_mgr s t with
      | None => (s, ObBadTarget)
      | Some m =>
          match resolve (parent_of s t) m x with
          | OK (m', r) => (set_mgr s t m', ObQn r)
          | Raise e => (s, ObRaise e)
          | OutOfDomain => (s, ObOutOfDomain)
          end
      end
  end.

Definition srun (ops : list nsop) : scope := fold_left (fun s o => fst (sstep s o)) ops scope_init.

(* ---- wire format ---- *)
Definition sx_dict (d : list (string * ns)) : sexp :=
  L (map (fun kv => L [A (fst kv); sx_ns (snd kv)]) d).
Definition sx_nsm (m : nsm) : sexp :=
  L [A "mgr";
     L [A "tbl"; sx_dict (tbl m)];
     L [A "regd"; sx_dict (regd m)];
     L [A "dflt"; match dflt m with Some d => sx_ns d | None => A "none" end];
     L [A "urimap"; sx_dict (urimap m)];
     L [A "renmap"; L (map (fun kv => L [sx_ns (fst kv); sx_ns (snd kv)]) (renmap m))];
     L [A "prenmap"; sx_dict (prenmap m)]].
Definition sx_scope (s : scope) : sexp := L (A "scope" :: sx_nsm (sdoc s) :: map sx_nsm (sbuns s)).
Definition sx_obs (o : nsobs) : sexp :=
  match o with
  | ObNs n => sx_ns n
  | ObQn (Some q) => sx_qn q
  | ObQn None => A "none"
  | ObUnit => A "unit"
  | ObRaise e => L [A "raise"; A (exc_name e)]
  | ObBadTarget => A "bad-target"
  | ObOutOfDomain => A "out-of-domain"
  end.

Fixpoint nat_of_digits (acc : nat) (s : string) : option nat :=
  match s with
  | EmptyString => Some acc
  | String c r =>
      let n := Ascii.nat_of_ascii c in
      if (Nat.leb 48 n && Nat.leb n 57)%bool then nat_of_digits (acc * 10 + (n - 48)) r else None
  end.
Definition parse_nat (s : string) : option nat :=
  match s with EmptyString => None | _ => nat_of_digits 0 s end.

Definition parse_target (x : sexp) : option (option nat) :=
  match x with
  | A "d" => Some None
  | A s => match parse_nat s with Some i => Some (Some i) | None => None end
  | _ => None
  end.
Definition parse_namearg (x : sexp) : option namearg :=
  match x with
  | L [A "Q"; A p; A u; A l] => Some (NQn (mkQn (mkNs p u) l))
  | L [A "S"; A s] => Some (NStr s)
  | L [A "I"; A u] => Some (NId u)
  | _ => None
  end.
Definition parse_nsop (x : sexp) : option nsop :=
  match x with
  | L [A "NewBundle"] => Some ONewBundle
  | L [A "AddNs"; t; A p; A u] =>
      match parse_target t with Some t' => Some (OAddNs t' p u) | None => None end
  | L [A "SetDefault"; t; A u] =>
      match parse_target t with Some t' => Some (OSetDefault t' u) | None => None end
  | L [A "Resolve"; t; x] =>
      match parse_target t, parse_namearg x with
      | Some t', Some x' => Some (OResolve t' x')
      | _, _ => None
      end
  | _ => None
  end.

(* run a namespace program: after every op emit (obs, full state) *)
Fixpoint run_nsprog (s : scope) (ops : list sexp) : list sexp :=
  match ops with
  | [] => []
  | o :: r =>
      match parse_nsop o with
      | None => [A "parse-error"]
      | Some op => let (s', ob) := sstep s op in
                   L [sx_obs ob; sx_scope s'] :: run_nsprog s' r
      end
  end.
