(* JsonValueProofs.v — one theorem for all value kinds: every value a record can hold after normalisation
   (stored) whose names are declared in the reading container survives the PROV-JSON value path.  With the
   reachable-world invariant of GoodProofs (every value of every reachable record is stored) this turns the
   hypotheses of the attribute-, record-, container- and document-level JSON theorems into conditions on names,
   datetimes and the float table only. *)
From Coq Require Import String Ascii List Bool Arith ZArith Lia.
From Prov Require Import Str StrProofs Sexp Tables Nsm NsmProofs Values Record RecordProofs World WorldProofs Jtree Json
  JsonProofs IsoProofs TimeProofs IdemProofs JsonRecProofs.
Import ListNotations.
Open Scope string_scope.

(* a literal of a datatype the library does not convert (the Literal stays a Literal) *)
Theorem json_value_roundtrip_foreign : forall c m lex d, Builtins m -> Bound m d -> printable d ->
  parse_xsd (cft c) lex d = CKeep ->
  String.eqb (qn_uri d) (xsd_uri ++ "anyURI") = false ->
  String.eqb (qn_uri d) (prov_uri ++ "QUALIFIED_NAME") = false ->
  reinsert c m (VLit lex (Some d) None) = Done m (Some (VLit lex (Some d) None)).
Proof.
  intros c m lex d B Bd P K NA NQ. unfold reinsert, encode_value.
  cbn [decode_value lookup String.eqb Ascii.eqb Bool.eqb opt_qn_str].
  pose proof (qn_str_nonempty _ P) as NE. pose proof (Bound_reresolve _ _ Bd P) as R.
  assert (V : vqn (cparent c) m (JStr (qn_str d)) = OK (Some d)).
  { unfold vqn. destruct (qn_str d) as [|ch s] eqn:ES; [contradiction|].
    cbn [resolve]. unfold bind, resolve_str. rewrite R. destruct d; reflexivity. }
  rewrite V, NA, NQ. cbn [jscalar_str auto_conv]. rewrite K.
  unfold keep_literal. cbn [mk_literal]. rewrite (resolve_o_bound c m d Bd). reflexivity.
Qed.

(* what must hold of the names, datetimes and floats of a value for the JSON path *)
Definition value_ok (c : actx) (m : nsm) (v : value) : Prop :=
  match v with
  | VQn q => Bound m q /\ printable q
  | VTime t => valid_dt t = true
  | VFloat r iv g => lookup r (cft c) = Some (Some (r, iv, g))
  | VLit lex d (Some (String _ _)) => d = Some (prov_qn "InternationalizedString")
  | VLit lex (Some d) None =>
      Bound m d /\ printable d /\
      String.eqb (qn_uri d) (xsd_uri ++ "anyURI") = false /\
      String.eqb (qn_uri d) (prov_uri ++ "QUALIFIED_NAME") = false
  | VLit _ _ _ => False              (* Literal(x, None) and the empty language tag never survive normalisation as such *)
  | _ => True
  end.

Theorem rt_of_stored : forall c m v, Builtins m -> stored (cft c) v -> value_ok c m v -> rt c m v.
Proof.
  intros c m v B S O. unfold rt. destruct v as [s|z|r iv g|b|t|u|q|lex d lg]; cbn [value_ok] in O.
  - apply json_value_roundtrip_str.
  - apply json_value_roundtrip_int. exact B.
  - apply json_value_roundtrip_float; assumption.
  - apply json_value_roundtrip_bool.
  - apply json_value_roundtrip_time; assumption.
  - apply json_value_roundtrip_id. exact B.
  - destruct O as [Bd P]. apply json_value_roundtrip_qn; assumption.
  - destruct lg as [[|ch l]|].
    + destruct d; destruct O.
    + destruct d as [d|]; cbn in O; [|discriminate O]. inversion O; subst d. apply json_value_roundtrip_lang. exact B.
    + destruct d as [d|]; [|destruct O]. destruct O as [Bd [P [NA NQ]]]. cbn [stored] in S.
      apply json_value_roundtrip_foreign; assumption.
Qed.

(* an attribute of a record whose values are stored and named in m is attr_good *)
Theorem attr_good_of_stored : forall c m a vs, Builtins m ->
  attr_key (cparent c) m (qn_str a) = OK (Some a) -> Bound m a -> is_formal_attr a = false ->
  Forall (fun v => stored (cft c) v /\ value_ok c m v) vs -> attr_good c m (a, vs).
Proof.
  intros c m a vs B K Bd NF F. destruct vs as [|v vs]; [apply ag_empty|].
  apply ag_other; try assumption. apply Forall_forall. intros x Hx.
  destruct (proj1 (Forall_forall _ _) F x Hx) as [S O]. apply rt_of_stored; assumption.
Qed.

(* ---- in every reachable world: a value held by any record of any container survives the JSON value path in any
   reading container that declares its names *)
From Prov Require Import Interp InterpProofs WInvUProofs GoodProofs.
Theorem reachable_value_roundtrip : forall ft ops cr b r k vs v c m,
  let w := wrun ft ops in
  get_cont w cr = Some b -> In r (brecs b) -> In (k, vs) (rattrs r) -> In v vs ->
  cft c = wft w -> Builtins m -> value_ok c m v -> rt c m v.
Proof.
  intros ft ops cr b r k vs v c m w G Ir Ik Iv CF B O.
  destruct (reachable_WGood ft ops) as [_ WG]. fold w in WG.
  pose proof (WGood_get_cont w cr b WG G) as BG. unfold BGood in BG. rewrite Forall_forall in BG.
  pose proof (BG r Ir) as GR. unfold GoodR, GoodD in GR. rewrite Forall_forall in GR.
  pose proof (GR (k, vs) Ik) as GV. cbn [fst snd] in GV. rewrite Forall_forall in GV.
  destruct (GV v Iv) as [S _]. apply rt_of_stored; [exact B | rewrite CF; exact S | exact O].
Qed.
