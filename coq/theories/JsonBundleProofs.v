(* JsonBundleProofs.v — C01 at document level with bundles: the "bundle" member the writer adds and the
   reader's loop over it.  Each bundle is read by decode_container in a fresh bundle whose parent scope is the
   document's manager, its key is resolved in the bundle's own scope, and the bundle is attached under the
   URI of that identifier. *)
From Coq Require Import String Ascii List Bool Arith ZArith Lia Permutation.
From Prov Require Import Str StrProofs Sexp Tables Nsm NsmProofs Values Record World Jtree Json JsonProofs
  JsonRecProofs JsonContProofs.
Import ListNotations.
Open Scope string_scope.

Definition bkey (b : bundle) : string := match bid b with Some q => qn_str q | None => "None" end.

(* what one bundle of the document becomes: read with parent manager pm, in the manager m its prefix block
   gives, attached under the identifier q its key resolves to (m2: the manager after homing q in it) *)
Record bundle_read : Type := mkBR { br_m : nsm; br_q : qname; br_m2 : nsm; br_q2 : qname }.

Definition bundle_ok (ft : ftable) (pm : nsm) (b : bundle) (x : bundle_read) : Prop :=
  match encode_prefixes (bns b) with
  | [] => br_m x = nsm_init
  | ps => decode_prefixes nsm_init ps = OK (br_m x)
  end /\
  Forall (rec_ok (Some pm) ft (br_m x)) (brecs b) /\
  resolve (Some pm) (br_m x) (NStr (bkey b)) = OK (br_m x, Some (br_q x)) /\
  resolve (Some pm) (br_m x) (NQn (br_q x)) = OK (br_m2 x, Some (br_q2 x)).

Definition read_bundle (b : bundle) (x : bundle_read) : string * bundle :=
  let nb := add_all (with_ns (bundle_init None) (br_m x)) (map renorm (grouped (brecs b))) in
  (qn_uri (br_q2 x), mkB (Some (br_q2 x)) (br_m2 x) (brecs nb) (bidmap nb)).

Lemma decode_one_bundle : forall ft dd b x rest,
  bundle_ok ft (bns (dmain dd)) b x ->
  mem (qn_uri (br_q2 x)) (dbundles dd) = false ->
  decode_bundles ft dd ((bkey b, JObj (encode_container b)) :: rest)
  = decode_bundles ft (mkD (dmain dd) (dbundles dd ++ [read_bundle b x])%list) rest.
Proof.
  intros ft dd b x rest [PF [F [R1 R2]]] M. cbn [decode_bundles]. cbv zeta.
  rewrite (json_container_roundtrip (Some (bns (dmain dd))) ft (bundle_init None) b (br_m x) PF F).
  set (nb := add_all (with_ns (bundle_init None) (br_m x)) (map renorm (grouped (brecs b)))).
  assert (EN : bns nb = br_m x) by (unfold nb; rewrite bns_add_all; reflexivity).
  rewrite EN, R1. unfold attach_decoded. cbn [with_ns bns]. rewrite R2, M. reflexivity.
Qed.

Lemma decode_all_bundles : forall ft pm bs xs,
  Forall2 (bundle_ok ft pm) bs xs ->
  forall dd, bns (dmain dd) = pm ->
  NoDup (map fst (dbundles dd) ++ map (fun x => qn_uri (br_q2 x)) xs) ->
  decode_bundles ft dd (map (fun b => (bkey b, JObj (encode_container b))) bs)
  = (mkD (dmain dd) (dbundles dd ++ map (fun bx => read_bundle (fst bx) (snd bx)) (combine bs xs))%list, OK tt).
Proof.
  intros ft pm bs xs F. induction F as [|b x bs xs H F IH]; intros dd EP U.
  - cbn [map combine decode_bundles]. rewrite app_nil_r. destruct dd; reflexivity.
  - cbn [map combine].
    assert (M : mem (qn_uri (br_q2 x)) (dbundles dd) = false).
    { unfold mem. destruct (lookup (qn_uri (br_q2 x)) (dbundles dd)) as [v|] eqn:L; [|reflexivity].
      exfalso. cbn [map] in U. apply NoDup_remove_2 in U. apply U. apply in_or_app. left. exact (lookup_key_in _ _ _ L). }
    rewrite <- EP in H.
    rewrite (decode_one_bundle ft dd b x _ H M).
    rewrite (IH (mkD (dmain dd) (dbundles dd ++ [read_bundle b x])%list)).
    + cbn [dmain dbundles fst snd]. rewrite <- app_assoc. reflexivity.
    + exact EP.
    + cbn [dbundles]. rewrite map_app. cbn [map read_bundle fst]. rewrite <- app_assoc. exact U.
Qed.

(* ---- the whole document *)
Lemma dset_append_l : forall (V : Type) (d : list (string * V)) k v, mem k d = false -> dset k v d = (d ++ [(k, v)])%list.
Proof.
  intros V d k v. induction d as [|[k0 v0] d IH]; intros M; [reflexivity|].
  unfold mem in M. cbn [lookup] in M. cbn [dset app]. destruct (String.eqb k k0) eqn:E; [discriminate M|].
  f_equal. apply IH. unfold mem. exact M.
Qed.

Lemma bundle_obj_flat : forall (bs : list (string * bundle)) acc,
  NoDup (map fst acc ++ map (fun kb => bkey (snd kb)) bs) ->
  fold_left (fun a kb => jset (match bid (snd kb) with Some q => qn_str q | None => "None" end)
                              (JObj (encode_container (snd kb))) a) bs acc
  = (acc ++ map (fun kb => (bkey (snd kb), JObj (encode_container (snd kb)))) bs)%list.
Proof.
  induction bs as [|kb bs IH]; intros acc U; cbn [fold_left map]; [rewrite app_nil_r; reflexivity|].
  cbn [map] in U. fold (bkey (snd kb)). unfold jset. rewrite dset_fresh.
  - rewrite IH; [rewrite <- app_assoc; reflexivity|]. rewrite map_app. cbn [map fst]. rewrite <- app_assoc. exact U.
  - apply NoDup_remove_2 in U. intro I. apply U. apply in_or_app. left. exact I.
Qed.

Theorem json_doc_roundtrip : forall ft d m xs,
  dbundles d <> [] ->
  match encode_prefixes (bns (dmain d)) with
  | [] => m = nsm_init
  | ps => decode_prefixes nsm_init ps = OK m
  end ->
  Forall (rec_ok None ft m) (brecs (dmain d)) ->
  NoDup (map (fun kb => bkey (snd kb)) (dbundles d)) ->
  Forall2 (bundle_ok ft m) (map snd (dbundles d)) xs ->
  NoDup (map (fun x => qn_uri (br_q2 x)) xs) ->
  decode_doc ft (encode_doc d)
  = OK (mkD (add_all (with_ns (bundle_init None) m) (map renorm (grouped (brecs (dmain d)))))
            (map (fun bx => read_bundle (fst bx) (snd bx)) (combine (map snd (dbundles d)) xs))).
Proof.
  intros ft d m xs NB PF F UK FB UU. unfold encode_doc.
  destruct (dbundles d) as [|kb0 bs0] eqn:EB; [contradiction|]. rewrite <- EB in *.
  rewrite (bundle_obj_flat (dbundles d) []) by (cbn [map app]; exact UK). cbn [app].
  destruct (agroup_good None ft m (brecs (dmain d)) F) as [E [OKG [LG _]]].
  destruct (lookup_key_none "bundle" _ (kinds_no_bundle None ft m _ LG)) as [LN FI].
  assert (ENC : encode_container (dmain d) =
                ((match encode_prefixes (bns (dmain d)) with [] => [] | _ => [("prefix", JObj (encode_prefixes (bns (dmain d))))] end)
                 ++ map (fun kv => (fst kv, JObj (snd kv))) (jlg (agroup (brecs (dmain d)) [] 0 [])))%list)
    by (unfold encode_container; rewrite E; reflexivity).
  assert (LB : lookup "bundle" (encode_container (dmain d)) = None).
  { rewrite ENC. destruct (encode_prefixes (bns (dmain d))); cbn [app lookup String.eqb Ascii.eqb Bool.eqb]; exact LN. }
  assert (FB2 : filter (fun kv : string * jv => negb (String.eqb (fst kv) "bundle")) (encode_container (dmain d))
               = encode_container (dmain d)).
  { rewrite ENC. destruct (encode_prefixes (bns (dmain d))); cbn [app filter fst String.eqb Ascii.eqb Bool.eqb negb]; rewrite FI; reflexivity. }
  set (bobj := map (fun kb => (bkey (snd kb), JObj (encode_container (snd kb)))) (dbundles d)).
  assert (MB : mem "bundle" (encode_container (dmain d)) = false) by (unfold mem; rewrite LB; reflexivity).
  unfold jset. rewrite (dset_append_l _ _ _ _ MB).
  unfold decode_doc.
  assert (L2 : lookup "bundle" (encode_container (dmain d) ++ [("bundle", JObj bobj)]) = Some (JObj bobj)).
  { clear -LB. induction (encode_container (dmain d)) as [|[k v] l IH]; cbn [app lookup]; [reflexivity|].
    cbn [lookup] in LB. destruct (String.eqb "bundle" k); [discriminate LB | exact (IH LB)]. }
  rewrite L2. rewrite filter_app, FB2. cbn [filter fst String.eqb Ascii.eqb Bool.eqb negb]. rewrite app_nil_r.
  rewrite (json_container_roundtrip None ft (bundle_init None) (dmain d) m PF F).
  unfold bobj. rewrite <- (map_map snd (fun b => (bkey b, JObj (encode_container b)))).
  set (main := add_all (with_ns (bundle_init None) m) (map renorm (grouped (brecs (dmain d))))).
  assert (EM : bns (dmain (mkD main [])) = m) by (cbn [dmain]; unfold main; rewrite bns_add_all; reflexivity).
  rewrite (decode_all_bundles ft m _ xs FB (mkD main []) EM); [reflexivity|]. cbn [dbundles map app]. exact UU.
Qed.

(* ---- the premises are satisfiable: a document with the container of JsonContProofs at the top and a bundle ex:b1
   holding an entity *)
Definition z_bundle : bundle := mkB (Some (x_q "b1")) x_m [y_e2] [("http://e/e", [0])].
Definition z_doc : doc := mkD y_b [("http://e/b1", z_bundle)].
Definition z_read : bundle_read := mkBR x_m (x_q "b1") x_m (x_q "b1").

Lemma z_bundle_ok : bundle_ok [] x_m z_bundle z_read.
Proof.
  unfold bundle_ok. cbn [br_m br_q br_m2 br_q2 z_read].
  split; [vm_compute; reflexivity|]. split; [|split; vm_compute; reflexivity].
  cbn [brecs z_bundle]. apply Forall_cons; [|apply Forall_nil].
  unfold rec_ok. cbn [rkind rid rattrs y_e2].
  split; [vm_compute; reflexivity|]. split; [reflexivity|].
  split; [constructor|]. split; [constructor|]. split; [constructor|]. split; [constructor|].
  split; [apply x_bound | apply x_printable].
Qed.

Example json_doc_roundtrip_applies :
  decode_doc [] (encode_doc z_doc)
  = OK (mkD (add_all (with_ns (bundle_init None) x_m) (map renorm (grouped (brecs y_b))))
            [read_bundle z_bundle z_read]).
Proof.
  apply (json_doc_roundtrip [] z_doc x_m [z_read]).
  - discriminate.
  - vm_compute. reflexivity.
  - exact y_rec_ok.
  - repeat constructor. intros [].
  - cbn [map dbundles z_doc snd]. apply Forall2_cons; [exact z_bundle_ok | apply Forall2_nil].
  - repeat constructor. intros [].
Qed.
