(* StrProofs.v — lemmas about the string and dictionary helpers of Str.v *)
From Coq Require Import String Ascii List Bool Arith Lia DecimalString DecimalNat Decimal.
From Prov Require Import Str.
Import ListNotations.
Open Scope string_scope.

Lemma append_inj_l : forall p a b, p ++ a = p ++ b -> a = b.
Proof. induction p as [|c p IH]; simpl; intros a b H; [exact H|]. inversion H; auto. Qed.

Lemma str_of_nat_inj : forall a b, str_of_nat a = str_of_nat b -> a = b.
Proof.
  assert (H : forall n, nat_to_str n = str_of_nat n).
  { intros [|n]; reflexivity. }
  intros a b E. rewrite <- !H in E. unfold nat_to_str in E.
  assert (E' : Some (Nat.to_uint a) = Some (Nat.to_uint b)).
  { rewrite <- !NilEmpty.usu. rewrite E. reflexivity. }
  inversion E' as [E2].
  rewrite <- (Unsigned.of_to a), <- (Unsigned.of_to b), E2. reflexivity.
Qed.

Lemma starts_with_app : forall p s, starts_with p (p ++ s) = true.
Proof. induction p as [|c p IH]; simpl; intros; [reflexivity|]. rewrite Ascii.eqb_refl. apply IH. Qed.

Lemma split_colon_app : forall p l,
  contains_char colon p = false -> split_colon (p ++ String colon l) = Some (p, l).
Proof.
  induction p as [|c p IH]; intros l H.
  - cbn [append split_colon]. rewrite Ascii.eqb_refl. reflexivity.
  - cbn [contains_char] in H. apply orb_false_iff in H. destruct H as [H1 H2].
    cbn [append split_colon]. rewrite (Ascii.eqb_sym c colon), H1.
    rewrite IH by exact H2. reflexivity.
Qed.

Lemma split_colon_none : forall s, contains_char colon s = false -> split_colon s = None.
Proof.
  induction s as [|c s IH]; intros H; [reflexivity|].
  cbn [contains_char] in H. apply orb_false_iff in H. destruct H as [H1 H2].
  cbn [split_colon]. rewrite (Ascii.eqb_sym c colon), H1, IH by exact H2. reflexivity.
Qed.

Lemma NoDup_snoc : forall {A} (l : list A) a, NoDup l -> ~ In a l -> NoDup (l ++ [a])%list.
Proof.
  induction l as [|x l IH]; simpl; intros a U N.
  - constructor; [intros []|constructor].
  - inversion U as [|y l' Hx U']; subst. constructor.
    + intro H. apply in_app_or in H. destruct H as [H|[H|[]]]; [contradiction|].
      subst. apply N. left; reflexivity.
    + apply IH; [exact U'|]. intro H. apply N. right; exact H.
Qed.

Section DictLemmas.
  Context {V : Type}.
  Implicit Types d : list (string * V).

  Definition uniq d : Prop := NoDup (map fst d).

  Lemma lookup_dset_same : forall d k v, lookup k (dset k v d) = Some v.
  Proof.
    induction d as [|[k' v'] d IH]; simpl; intros k v.
    - rewrite String.eqb_refl. reflexivity.
    - destruct (String.eqb k k') eqn:E; simpl.
      + rewrite E. reflexivity.
      + rewrite E. apply IH.
  Qed.

  Lemma lookup_dset_other : forall d k k' v, k <> k' -> lookup k' (dset k v d) = lookup k' d.
  Proof.
    induction d as [|[k0 v0] d IH]; simpl; intros k k' v N.
    - destruct (String.eqb k' k) eqn:E; [apply String.eqb_eq in E; congruence | reflexivity].
    - destruct (String.eqb k k0) eqn:E; simpl.
      + apply String.eqb_eq in E. subst k0.
        destruct (String.eqb k' k) eqn:E2; [apply String.eqb_eq in E2; congruence | reflexivity].
      + destruct (String.eqb k' k0); [reflexivity | apply IH; exact N].
  Qed.

  Lemma mem_false_lookup : forall d k, mem k d = false -> lookup k d = None.
  Proof. unfold mem. intros d k. destruct (lookup k d); [discriminate | reflexivity]. Qed.

  Lemma mem_true_lookup : forall d k, mem k d = true -> exists v, lookup k d = Some v.
  Proof. unfold mem. intros d k. destruct (lookup k d) as [v|]; [eauto | discriminate]. Qed.

  Lemma lookup_In : forall d k v, lookup k d = Some v -> In (k, v) d.
  Proof.
    induction d as [|[k' v'] d IH]; simpl; intros k v H; [discriminate|].
    destruct (String.eqb k k') eqn:E.
    - apply String.eqb_eq in E. inversion H; subst. left; reflexivity.
    - right. apply IH. exact H.
  Qed.

  Lemma lookup_key_in : forall d k v, lookup k d = Some v -> In k (map fst d).
  Proof. intros d k v H. apply lookup_In in H. apply (in_map fst) in H. exact H. Qed.

  Lemma In_lookup_some : forall d k v, In (k, v) d -> exists v', lookup k d = Some v'.
  Proof.
    induction d as [|[k' v'] d IH]; simpl; intros k v H; [contradiction|].
    destruct (String.eqb k k') eqn:E; [eauto|].
    destruct H as [H|H]; [inversion H; subst; rewrite String.eqb_refl in E; discriminate|].
    eapply IH; eauto.
  Qed.

  Lemma find_some_lookup : forall (f : string * V -> bool) d k v,
    find f d = Some (k, v) -> exists v', lookup k d = Some v'.
  Proof. intros f d k v H. apply find_some in H. destruct H as [H _]. eapply In_lookup_some; eauto. Qed.

  (* first-match: the entry found by [find] for its own key is reachable by lookup
     when keys are unique *)
  Lemma uniq_In_lookup : forall d k v, uniq d -> In (k, v) d -> lookup k d = Some v.
  Proof.
    unfold uniq. induction d as [|[k' v'] d IH]; simpl; intros k v U H; [contradiction|].
    inversion U as [|x l Hn U']; subst.
    destruct H as [H|H].
    - inversion H; subst. rewrite String.eqb_refl. reflexivity.
    - destruct (String.eqb k k') eqn:E.
      + apply String.eqb_eq in E. subst. exfalso. apply Hn.
        apply (in_map fst) in H. exact H.
      + apply IH; assumption.
  Qed.

  Lemma map_fst_dset_in : forall d k v, In k (map fst d) -> map fst (dset k v d) = map fst d.
  Proof.
    induction d as [|[k' v'] d IH]; simpl; intros k v H; [contradiction|].
    destruct (String.eqb k k') eqn:E; simpl; [reflexivity|].
    f_equal. apply IH. destruct H as [H|H]; [subst; rewrite String.eqb_refl in E; discriminate | exact H].
  Qed.

  Lemma map_fst_dset_notin : forall d k v, ~ In k (map fst d) -> map fst (dset k v d) = (map fst d ++ [k])%list.
  Proof.
    induction d as [|[k' v'] d IH]; simpl; intros k v H; [reflexivity|].
    destruct (String.eqb k k') eqn:E.
    - apply String.eqb_eq in E. subst. exfalso. apply H. left; reflexivity.
    - simpl. f_equal. apply IH. intro; apply H; right; assumption.
  Qed.

  Lemma uniq_dset : forall d k v, uniq d -> uniq (dset k v d).
  Proof.
    unfold uniq. intros d k v U.
    destruct (in_dec string_dec k (map fst d)) as [I|N].
    - rewrite map_fst_dset_in by exact I. exact U.
    - rewrite map_fst_dset_notin by exact N.
      apply NoDup_snoc; assumption.
  Qed.
End DictLemmas.
