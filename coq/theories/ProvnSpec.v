(* ProvnSpec.v — a PROV-N reader written from the W3C PROV-N grammar (document /
   bundle framing, default / prefix declarations with bundle scoping, the expression
   productions with positional arguments, optional identifier + ';', '-' markers,
   [attr = literal, ...], literal forms "...", """...""" with escapes, @lang,
   %% datatype, 'qualified name', integer literals, <IRI>) over the tables of Spec.v.
   It shares nothing with Provn.v.  Result: the same content tree as JsonSpec.read,
   with formal arguments taken positionally. *)
From Coq Require Import String Ascii List Bool Arith ZArith.
From Prov Require Import Str Sexp Values Spec.
Import ListNotations.
Open Scope string_scope.

Inductive tok : Type :=
| TWord (s : string)       (* names, qualified names, numbers, date-times, '-' *)
| TStr (s : string)        (* string literal, unescaped *)
| TQn (s : string)         (* 'qualified name' *)
| TIri (s : string)        (* <iri> *)
| TLang (s : string)       (* @lang *)
| TPct                     (* %% *)
| TLpar | TRpar | TLbr | TRbr | TComma | TSemi | TEq.

Definition is_word_char (c : ascii) : bool :=
  let n := nat_of_ascii c in
  (Nat.leb 48 n && Nat.leb n 58)        (* 0-9 and ':' *)
  || (Nat.leb 65 n && Nat.leb n 90) || (Nat.leb 97 n && Nat.leb n 122)
  || Nat.eqb n 95 || Nat.eqb n 45 || Nat.eqb n 46 || Nat.eqb n 47 || Nat.eqb n 43   (* _ - . / + *)
  || Nat.leb 128 n.

Definition is_ws (c : ascii) : bool :=
  let n := nat_of_ascii c in Nat.eqb n 32 || Nat.eqb n 10 || Nat.eqb n 9 || Nat.eqb n 13.

Fixpoint take_while (f : ascii -> bool) (s : string) : string * string :=
  match s with
  | String c r => if f c then let '(a, b) := take_while f r in (String c a, b) else (EmptyString, s)
  | EmptyString => (EmptyString, EmptyString)
  end.

Fixpoint take_until (c0 : ascii) (s : string) : option (string * string) :=
  match s with
  | String c r => if Ascii.eqb c c0 then Some (EmptyString, r)
                  else match take_until c0 r with Some (a, b) => Some (String c a, b) | None => None end
  | EmptyString => None
  end.

Definition dqc : ascii := """"%char.
Definition bslc : ascii := "\"%char.

Definition unesc (c : ascii) : ascii :=
  match c with
  | "n"%char => "010"%char | "t"%char => "009"%char | "r"%char => "013"%char
  | "b"%char => "008"%char | "f"%char => "012"%char
  | other => other
  end.

(* body of a "..." literal: up to the first unescaped quote *)
Fixpoint short_string (s : string) : option (string * string) :=
  match s with
  | EmptyString => None
  | String c r =>
      if Ascii.eqb c dqc then Some (EmptyString, r)
      else if Ascii.eqb c bslc then
        match r with
        | String e r' => match short_string r' with
                         | Some (a, b) => Some (String (unesc e) a, b)
                         | None => None
                         end
        | EmptyString => None
        end
      else match short_string r with Some (a, b) => Some (String c a, b) | None => None end
  end.

(* body of a """...""" literal: up to the first unescaped triple quote *)
Fixpoint long_string (s : string) : option (string * string) :=
  match s with
  | EmptyString => None
  | String c r =>
      if Ascii.eqb c bslc then
        match r with
        | String e r' => match long_string r' with
                         | Some (a, b) => Some (String (unesc e) a, b)
                         | None => None
                         end
        | EmptyString => None
        end
      else if Ascii.eqb c dqc then
        match r with
        | String c2 (String c3 r3) =>
            if (Ascii.eqb c2 dqc && Ascii.eqb c3 dqc)%bool then Some (EmptyString, r3)
            else match long_string r with Some (a, b) => Some (String c a, b) | None => None end
        | _ => match long_string r with Some (a, b) => Some (String c a, b) | None => None end
        end
      else match long_string r with Some (a, b) => Some (String c a, b) | None => None end
  end.

Fixpoint lex (fuel : nat) (s : string) : option (list tok) :=
  match fuel with
  | O => match s with EmptyString => Some [] | _ => None end
  | S f =>
    match s with
    | EmptyString => Some []
    | String c r =>
        let cons t rest := match lex f rest with Some l => Some (t :: l) | None => None end in
        if is_ws c then lex f r
        else if Ascii.eqb c "("%char then cons TLpar r
        else if Ascii.eqb c ")"%char then cons TRpar r
        else if Ascii.eqb c "["%char then cons TLbr r
        else if Ascii.eqb c "]"%char then cons TRbr r
        else if Ascii.eqb c ","%char then cons TComma r
        else if Ascii.eqb c ";"%char then cons TSemi r
        else if Ascii.eqb c "="%char then cons TEq r
        else if Ascii.eqb c "%"%char then
          match r with String "%"%char r' => cons TPct r' | _ => None end
        else if Ascii.eqb c "@"%char then
          let '(w, rest) := take_while is_word_char r in cons (TLang w) rest
        else if Ascii.eqb c "<"%char then
          match take_until ">"%char r with Some (u, rest) => cons (TIri u) rest | None => None end
        else if Ascii.eqb c "'"%char then
          match take_until "'"%char r with Some (q, rest) => cons (TQn q) rest | None => None end
        else if Ascii.eqb c dqc then
          match r with
          | String c2 (String c3 r3) =>
              if (Ascii.eqb c2 dqc && Ascii.eqb c3 dqc)%bool then
                match long_string r3 with Some (b, rest) => cons (TStr b) rest | None => None end
              else match short_string r with Some (b, rest) => cons (TStr b) rest | None => None end
          | _ => match short_string r with Some (b, rest) => cons (TStr b) rest | None => None end
          end
        else if is_word_char c then
          let '(w, rest) := take_while is_word_char s in cons (TWord w) rest
        else None
    end
  end.

(* ------------------------------------------------------------------ parsing *)
Definition ptable : Type := list (string * string).
Definition builtin_ptable : ptable := [("prov", spec_prov_uri); ("xsd", spec_xsd_uri)].

Definition nresolve (t : ptable) (s : string) : option string :=
  match split_colon s with
  | Some (p, l) => match lookup p t with Some u => Some (u ++ l) | None => None end
  | None => match lookup "" t with Some u => Some (u ++ s) | None => None end
  end.

Fixpoint read_decls (t : ptable) (ts : list tok) (fuel : nat) : ptable * list tok :=
  match fuel with
  | O => (t, ts)
  | S f =>
      match ts with
      | TWord "default" :: TIri u :: rest => read_decls (dset "" u t) rest f
      | TWord "prefix" :: TWord p :: TIri u :: rest => read_decls (dset p u t) rest f
      | _ => (t, ts)
      end
  end.

Definition time_content (tm : dtime) : sexp :=
  L [A "time"; A (iso_print (mkDt (dy tm) (dmo tm) (dd tm) (dh tm) (dmi tm) (dsec tm) (dus tm) None));
     sx_opt sx_Z (dtz tm)].

(* a literal; returns the value content and the remaining tokens *)
Definition read_literal (t : ptable) (ts : list tok) : option (sexp * list tok) :=
  match ts with
  | TStr s :: TLang lang :: rest =>
      Some (L [A "lit"; A s; A (spec_prov_uri ++ "InternationalizedString"); L [A "some"; A lang]], rest)
  | TStr s :: TPct :: TWord ty :: rest =>
      match nresolve t ty with
      | None => None
      | Some dt =>
          let v :=
            if String.eqb dt (spec_xsd_uri ++ "string") then Some (L [A "str"; A s])
            else if (String.eqb dt (spec_xsd_uri ++ "int") || String.eqb dt (spec_xsd_uri ++ "long"))%bool then
              match parse_int s with Some z => Some (L [A "int"; sx_Z z]) | None => None end
            else if String.eqb dt (spec_xsd_uri ++ "double") then Some (L [A "float"; A s])
            else if String.eqb dt (spec_xsd_uri ++ "boolean") then
              match xsd_boolean s with
              | Some b => Some (L [A "bool"; A (if b then "true" else "false")])
              | None => Some (L [A "lit"; A s; A dt; A "none"])
              end
            else if String.eqb dt (spec_xsd_uri ++ "dateTime") then
              match iso_parse s with
              | Some tm => Some (time_content tm)
              | None => Some (L [A "lit"; A s; A dt; A "none"])
              end
            else if String.eqb dt (spec_xsd_uri ++ "anyURI") then Some (L [A "id"; A s])
            else Some (L [A "lit"; A s; A dt; A "none"]) in
          match v with Some c => Some (c, rest) | None => None end
      end
  | TStr s :: rest => Some (L [A "str"; A s], rest)
  | TQn q :: rest => match nresolve t q with Some u => Some (L [A "qn"; A u], rest) | None => None end
  | TWord w :: rest => match parse_int w with Some z => Some (L [A "int"; sx_Z z], rest) | None => None end
  | _ => None
  end.

Fixpoint read_attrs (fuel : nat) (t : ptable) (ts : list tok) : option (list sexp * list tok) :=
  match fuel with
  | O => None
  | S f =>
      match ts with
      | TWord name :: TEq :: rest =>
          match nresolve t name, read_literal t rest with
          | Some au, Some (v, rest') =>
              match rest' with
              | TComma :: more =>
                  match read_attrs f t more with
                  | Some (l, r) => Some (L [A au; v] :: l, r)
                  | None => None
                  end
              | TRbr :: more => Some ([L [A au; v]], more)
              | _ => None
              end
          | _, _ => None
          end
      | _ => None
      end
  end.

(* positional terms up to ')' or '[' *)
Fixpoint read_terms (fuel : nat) (ts : list tok) : option (list string * list tok) :=
  match fuel with
  | O => None
  | S f =>
      match ts with
      | TWord w :: TComma :: TLbr :: rest => Some ([w], TLbr :: rest)
      | TWord w :: TComma :: rest =>
          match read_terms f rest with Some (l, r) => Some (w :: l, r) | None => None end
      | TWord w :: TRpar :: rest => Some ([w], TRpar :: rest)
      | TLbr :: rest => Some ([], TLbr :: rest)
      | TRpar :: rest => Some ([], TRpar :: rest)
      | _ => None
      end
  end.

Definition kind_by_name (n : string) : option (string * list string * bool) :=
  match find (fun e => String.eqb (snd (fst (fst e))) n) spec_kinds with
  | Some (kind, _, formals, el) => Some (kind, formals, el)
  | None => None
  end.

Fixpoint formal_pairs (t : ptable) (formals : list string) (terms : list string) : option (list sexp) :=
  match formals, terms with
  | [], [] => Some []
  | f :: fr, w :: wr =>
      match formal_pairs t fr wr with
      | None => None
      | Some rest =>
          if String.eqb w "-" then Some rest
          else if existsb (String.eqb f) spec_time_args then
            match iso_parse w with
            | Some tm => Some (L [A (spec_prov_uri ++ f); time_content tm] :: rest)
            | None => None
            end
          else match nresolve t w with
               | Some u => Some (L [A (spec_prov_uri ++ f); L [A "qn"; A u]] :: rest)
               | None => None
               end
      end
  | _, _ => None
  end.

(* one expression: name ( [id ;] terms [, [attrs]] ) *)
Definition read_expr (fuel : nat) (t : ptable) (name : string) (ts : list tok) : option (sexp * list tok) :=
  match kind_by_name name with
  | None => None
  | Some (kind, formals, el) =>
      let '(idopt, ts1) :=
        match ts with
        | TWord i :: TSemi :: rest => (if String.eqb i "-" then None else Some i, rest)
        | _ => (None, ts)
        end in
      match read_terms fuel ts1 with
      | None => None
      | Some (terms, ts2) =>
          let '(ident, positional) :=
            if el then match terms with i :: r => (Some i, r) | [] => (None, []) end
            else (idopt, terms) in
          let after_attrs :=
            match ts2 with
            | TLbr :: TRbr :: TRpar :: rest => Some ([], rest)
            | TLbr :: rest => match read_attrs fuel t rest with
                              | Some (l, TRpar :: r) => Some (l, r)
                              | _ => None
                              end
            | TRpar :: rest => Some ([], rest)
            | _ => None
            end in
          match after_attrs, formal_pairs t formals positional with
          | Some (attrs, rest), Some fps =>
              let idc := match ident with
                         | Some i => match nresolve t i with Some u => Some (A u) | None => None end
                         | None => if el then None else Some (A "none")
                         end in
              match idc with
              | Some ic => Some (L [A "rec"; A (spec_prov_uri ++ kind); ic; L (fps ++ attrs)%list], rest)
              | None => None
              end
          | _, _ => None
          end
      end
  end.

Fixpoint read_exprs (fuel : nat) (t : ptable) (ts : list tok) : option (list sexp * list tok) :=
  match fuel with
  | O => None
  | S f =>
      match ts with
      | TWord name :: TLpar :: rest =>
          match read_expr fuel t name rest with
          | Some (r, rest') =>
              match read_exprs f t rest' with
              | Some (l, r2) => Some (r :: l, r2)
              | None => None
              end
          | None => None
          end
      | _ => Some ([], ts)
      end
  end.

Fixpoint read_bundles (fuel : nat) (t : ptable) (ts : list tok) : option (list sexp * list tok) :=
  match fuel with
  | O => None
  | S f =>
      match ts with
      | TWord "bundle" :: TWord bid :: rest =>
          let '(bt, rest1) := read_decls t rest fuel in
          match read_exprs fuel bt rest1 with
          | Some (recs, TWord "endBundle" :: rest2) =>
              (* the bundle identifier is resolved with the bundle's declarations in scope *)
              match nresolve bt bid, read_bundles f t rest2 with
              | Some u, Some (l, r) => Some (L (A "bundle" :: A u :: recs) :: l, r)
              | _, _ => None
              end
          | _ => None
          end
      | _ => Some ([], ts)
      end
  end.

Definition read (text : string) : option sexp :=
  let n := String.length text in
  match lex (S n) text with
  | Some (TWord "document" :: ts) =>
      let '(t, ts1) := read_decls builtin_ptable ts n in
      match read_exprs (S n) t ts1 with
      | Some (recs, ts2) =>
          match read_bundles (S n) t ts2 with
          | Some (bl, [TWord "endDocument"]) => Some (L (A "content" :: L (A "bundle" :: A "" :: recs) :: bl))
          | _ => None
          end
      | None => None
      end
  | _ => None
  end.
