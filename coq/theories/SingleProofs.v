(* SingleProofs.v — single-valuedness of formal attributes, for every call.
   RecordProofs.add_attributes_normal needs the premise that the call does not name prov:collection as a QualifiedName
   (which used to switch the single-value guard off for every formal attribute of the call: finding C05-F1).  With the
   repair in /repo (the exemption covers prov:entity only — the members of a collection) the premise goes: whatever
   the call, every formal attribute other than prov:entity keeps at most one value, of the kind it demands, and
   every value under prov:entity is a qualified name. *)
From Coq Require Import String List Bool.
From Prov Require Import Str Sexp Tables Nsm NsmProofs Scope Values Record RecordProofs.
Import ListNotations.
Open Scope string_scope.

Definition NormalE_D (d : list (qname * list value)) : Prop :=
  forall a, is_formal_attr a = true ->
    if is_prov_name "entity" a then Forall (typed a) (attr_get a d)
    else match attr_get a d with
         | [] => True
         | [v] => typed a v
         | _ => False
         end.
Definition NormalE (r : prec) : Prop := NormalE_D (rattrs r).

Lemma NormalE_nil : NormalE_D [].
Proof. intros a _. destruct (is_prov_name "entity" a); [constructor | exact I]. Qed.

Lemma is_entity_eqb : forall a k, qn_eqb a k = true -> is_prov_name "entity" a = is_prov_name "entity" k.
Proof.
  intros a k H. unfold qn_eqb in H. apply String.eqb_eq in H. unfold is_prov_name. rewrite H. reflexivity.
Qed.

Lemma Forall_set_add : forall (P : value -> Prop) v l, Forall P l -> P v -> Forall P (set_add v l).
Proof.
  intros P v l F Pv. unfold set_add. destruct (set_mem v l); [exact F|].
  apply Forall_app. split; [exact F | constructor; [exact Pv | constructor]].
Qed.

Lemma typed_forall_transfer : forall a k l, qn_eqb a k = true -> Forall (typed k) l -> Forall (typed a) l.
Proof. intros a k l E F. eapply Forall_impl; [|exact F]. intros v T. eapply typed_transfer; eauto. Qed.

(* the value the loop computes for a formal attribute is of the kind the attribute demands *)
Lemma computed_typed : forall c m1 a attr m2 v,
  is_formal_attr attr = true ->
  (if is_qname_attr attr then qn_value c m1 a
   else if is_time_attr attr then time_value m1 a else auto_conv c m1 a) = Done m2 (Some v) ->
  typed attr v.
Proof.
  intros c m1 a attr m2 v EF EV. unfold is_formal_attr in EF.
  destruct (is_qname_attr attr) eqn:EQ.
  - split; intro X; [eapply qn_value_is_qn; eauto|].
    rewrite (qname_time_disjoint _ EQ) in X. discriminate.
  - destruct (is_time_attr attr) eqn:ET; [|cbn in EF; discriminate].
    split; intro X; [congruence | eapply time_value_is_time; eauto].
Qed.

Lemma NormalE_add_other : forall d k v, NormalE_D d -> is_formal_attr k = false -> NormalE_D (attr_add k v d).
Proof.
  intros d k v N NF a Fa. rewrite attr_get_add.
  destruct (qn_eqb a k) eqn:EQ.
  - rewrite (is_formal_attr_eqb _ _ EQ) in Fa. congruence.
  - apply N. exact Fa.
Qed.

Lemma NormalE_add_first : forall d k v,
  NormalE_D d -> attr_get k d = [] -> typed k v -> NormalE_D (attr_add k v d).
Proof.
  intros d k v N E T a Fa. rewrite attr_get_add.
  destruct (qn_eqb a k) eqn:EQ.
  - rewrite E. cbn. destruct (is_prov_name "entity" a).
    + constructor; [eapply typed_transfer; eauto | constructor].
    + eapply typed_transfer; eauto.
  - apply N. exact Fa.
Qed.

Lemma NormalE_add_member : forall d k v,
  NormalE_D d -> is_formal_attr k = true -> is_prov_name "entity" k = true -> typed k v -> NormalE_D (attr_add k v d).
Proof.
  intros d k v N Fk Ek T a Fa. rewrite attr_get_add.
  destruct (qn_eqb a k) eqn:EQ.
  - rewrite (is_entity_eqb _ _ EQ), Ek.
    apply Forall_set_add; [|eapply typed_transfer; eauto].
    pose proof (N k Fk) as Nk. rewrite Ek in Nk. eapply typed_forall_transfer; eauto.
  - apply N. exact Fa.
Qed.

Lemma loop_body_normalE : forall c ic m d n a rest m' d' res,
  (forall m0 d0 m1 d1 r1, NormalE_D d0 -> add_attrs_loop c ic m0 d0 rest = (m1, d1, r1) -> NormalE_D d1) ->
  NormalE_D d -> loop_body c ic m d n a rest = (m', d', res) -> NormalE_D d'.
Proof.
  intros c ic m d n a rest m' d' res IH N H. unfold loop_body in H.
  destruct (resolve_o c m n) as [m1 [attr|]|m1 e|] eqn:ER;
    try (inversion H; subst; exact N).
  destruct (if is_qname_attr attr then qn_value c m1 a
            else if is_time_attr attr then time_value m1 a else auto_conv c m1 a)
    as [m2 [v|]|m2 e2|] eqn:EV; try (inversion H; subst; exact N).
  destruct (is_formal_attr attr) eqn:EF.
  - pose proof (computed_typed _ _ _ _ _ _ EF EV) as T.
    destruct (ic && is_prov_name "entity" attr)%bool eqn:EM; cbn [negb andb] in H.
    + apply andb_true_iff in EM. destruct EM as [_ EE].
      eapply IH; [|exact H]. apply NormalE_add_member; assumption.
    + destruct (attr_get attr d) as [|e0 rest0] eqn:EG.
      * eapply IH; [|exact H]. apply NormalE_add_first; assumption.
      * destruct (py_eq v e0); [eapply IH; eauto | inversion H; subst; exact N].
  - rewrite andb_false_r in H. eapply IH; [|exact H]. apply NormalE_add_other; assumption.
Qed.

Theorem add_attrs_loop_normalE : forall c ic l m d m' d' res,
  NormalE_D d -> add_attrs_loop c ic m d l = (m', d', res) -> NormalE_D d'.
Proof.
  intros c ic l. induction l as [|[n a] l IH]; intros m d m' d' res N H.
  - cbn in H. inversion H; subst. exact N.
  - destruct (valarg_is_none a) as [->|NN].
    + rewrite add_attrs_loop_none in H. eapply IH; eauto.
    + rewrite add_attrs_loop_cons in H by exact NN.
      eapply loop_body_normalE; eauto.
Qed.

(* add_attributes, whatever names the call uses and however it ends *)
Theorem add_attributes_normalE : forall c m r l,
  NormalE r ->
  match add_attributes c m r l with
  | ADone _ r' => NormalE r'
  | AFail _ r' _ => NormalE r'
  | AOOD => True
  end.
Proof.
  intros c m r l N. unfold add_attributes. destruct l as [|x l]; [exact N|].
  destruct (add_attrs_loop c (names_collection (x :: l)) m (rattrs r) (x :: l)) as [[m' d'] res] eqn:E.
  pose proof (add_attrs_loop_normalE _ _ _ _ _ _ _ _ N E) as N'.
  destruct res; exact N' || exact I.
Qed.

(* every record the constructors build *)
Theorem new_prec_normalE : forall c m k i l m' r, new_prec c m k i l = Done m' r -> NormalE r.
Proof.
  intros c m k i l m' r H. unfold new_prec in H.
  destruct (is_element k && match i with None => true | Some _ => false end)%bool; [discriminate|].
  pose proof (add_attributes_normalE c m (mkRec k i []) l NormalE_nil) as X.
  destruct (add_attributes c m (mkRec k i []) l) as [m1 r1|m1 r1 e|]; inversion H; subst. exact X.
Qed.

(* a second, different value for a formal attribute other than prov:entity is refused whatever else the call names *)
Theorem second_value_any_call : forall c ic m d n a rest attr v m1 m2 e0 tl,
  a <> ANone ->
  resolve_o c m n = Done m1 (Some attr) -> is_formal_attr attr = true -> is_prov_name "entity" attr = false ->
  (if is_qname_attr attr then qn_value c m1 a
   else if is_time_attr attr then time_value m1 a else auto_conv c m1 a) = Done m2 (Some v) ->
  attr_get attr d = e0 :: tl -> py_eq v e0 = false ->
  add_attrs_loop c ic m d ((n, a) :: rest) = (m2, d, LFail EProv).
Proof.
  intros c ic m d n a rest attr v m1 m2 e0 tl NN ER EF EE EV EG NE.
  rewrite add_attrs_loop_cons by exact NN. unfold loop_body.
  rewrite ER, EV, EE, andb_false_r. cbn [negb andb]. rewrite EF, EG, NE. reflexivity.
Qed.
