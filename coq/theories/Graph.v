(* Graph.v — model of prov/graph.py: prov_to_graph and graph_to_prov over an
   abstract multigraph.  networkx is a trusted container: node identity is the
   record's __hash__/__eq__, parallel edges are kept. *)
From Coq Require Import String Ascii List Bool Arith.
From Prov Require Import Str Sexp Tables Nsm Values Record World Derive.
Import ListNotations.
Open Scope string_scope.

(* a node: a record of the unified document (declared) or an element inferred for a
   referenced-but-undeclared endpoint (its bundle is None) *)
Record gnode : Type := mkNode { nrec : prec; ndeclared : bool }.
Record graph : Type := mkGraph {
  gnodes : list gnode;
  gedges : list (gnode * gnode * prec)
}.

Definition node_eqb (a b : gnode) : bool :=
  Bool.eqb (ndeclared a) (ndeclared b) && rec_eqb (nrec a) (nrec b).

Definition add_node (n : gnode) (l : list gnode) : list gnode :=
  if existsb (node_eqb n) l then l else (l ++ [n])%list.

(* first two formal attributes of a relation: (attribute local name, value) *)
Definition first_two (r : prec) : option ((string * option value) * (string * option value)) :=
  match formal_attrs (rkind r) with
  | a1 :: a2 :: _ =>
      Some ((a1, hd_opt (attr_get (prov_qn a1) (rattrs r))), (a2, hd_opt (attr_get (prov_qn a2) (rattrs r))))
  | _ => None
  end.

(* INFERRED_ELEMENT_CLASS[attr](None, qn); None = KeyError *)
Definition infer (attr : string) (q : qname) : option gnode :=
  match lookup attr inferred_element_class with
  | Some k => Some (mkNode (mkRec k (Some q) []) false)
  | None => None
  end.

(* node_map: identifier URI -> node (dict assignment: last writer wins) *)
Definition nmap : Type := list (string * gnode).

Definition endpoint (nm : nmap) (attr : string) (q : qname) : option (nmap * gnode) :=
  match lookup (qn_uri q) nm with
  | Some n => Some (nm, n)
  | None => match infer attr q with
            | Some n => Some (dset (qn_uri q) n nm, n)
            | None => None
            end
  end.

Fixpoint add_relations (rels : list prec) (nm : nmap) (g : graph) : graph :=
  match rels with
  | [] => g
  | r :: rest =>
      match first_two r with
      | Some ((a1, Some (VQn q1)), (a2, Some (VQn q2))) =>
          match endpoint nm a1 q1 with
          | None => add_relations rest nm g                   (* KeyError: relation skipped *)
          | Some (nm1, n1) =>
              match endpoint nm1 a2 q2 with
              | None => add_relations rest nm1 g              (* first endpoint stays in node_map *)
              | Some (nm2, n2) =>
                  add_relations rest nm2
                    (mkGraph (add_node n2 (add_node n1 (gnodes g))) (gedges g ++ [(n1, n2, r)])%list)
              end
          end
      | _ => add_relations rest nm g
      end
  end.

Definition graph_of_unified (u : doc) : graph :=
  let recs := brecs (dmain u) in
  let els := filter (fun r => is_element (rkind r)) recs in
  let rels := filter (fun r => negb (is_element (rkind r))) recs in
  let nodes := fold_left (fun l r => add_node (mkNode r true) l) els [] in
  let nm := fold_left (fun m r => match rid r with
                                  | Some q => dset (qn_uri q) (mkNode r true) m
                                  | None => m end) els [] in
  add_relations rels nm (mkGraph nodes []).

Definition prov_to_graph (ft : ftable) (d : doc) : result graph :=
  match doc_unified ft d with
  | OK u => OK (graph_of_unified u)
  | Raise e => Raise e
  | OutOfDomain => OutOfDomain
  end.

(* g.edges(): networkx iterates the adjacency structure — by source node in node
   order, then by target in order of first connection, then by insertion *)
Fixpoint dedup_nodes (l : list gnode) : list gnode :=
  match l with
  | [] => []
  | n :: r => n :: filter (fun x => negb (node_eqb n x)) (dedup_nodes r)
  end.
Definition edges_in_order (g : graph) : list (gnode * gnode * prec) :=
  flat_map (fun u =>
              let es := filter (fun e => node_eqb u (fst (fst e))) (gedges g) in
              let vs := dedup_nodes (map (fun e => snd (fst e)) es) in
              flat_map (fun v => filter (fun e => node_eqb v (snd (fst e))) es) vs)
           (gnodes g).

(* graph_to_prov: declared nodes, then the relations on the edges *)
Definition graph_to_prov (ft : ftable) (g : graph) : result doc :=
  let recs := (map nrec (filter ndeclared (gnodes g)) ++ map (fun e => snd e) (edges_in_order g))%list in
  match add_records None ft (bundle_init None) recs with
  | (b, OK _) => OK (mkD b [])
  | (_, Raise e) => Raise e
  | (_, OutOfDomain) => OutOfDomain
  end.

(* ---- wire format ---- *)
Definition sx_node (n : gnode) : sexp :=
  L [A "node"; A (if ndeclared n then "declared" else "inferred"); sx_rec (nrec n)].
Definition sx_graph (g : graph) : sexp :=
  L [A "graph"; L (map sx_node (gnodes g));
     L (map (fun e => L [A "edge"; sx_node (fst (fst e)); sx_node (snd (fst e)); sx_rec (snd e)]) (gedges g))].
