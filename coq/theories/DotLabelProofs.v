(* DotLabelProofs.v — every HTML-like label prov_to_dot builds is accepted by the acceptor of DotLabel.v, for every
   list of attribute rows and every text (XML characters only: the exclusion is finding C15-F1). *)
From Coq Require Import String Ascii List Bool Arith Lia.
From Prov Require Import Str Dot DotLabel.
Import ListNotations.
Open Scope string_scope.

Lemma run_app : forall a b st, hrun st (a ++ b) = hrun (hrun st a) b.
Proof. induction a as [|c a IH]; intros b st; cbn [append hrun]; [reflexivity | apply IH]. Qed.

(* ---- escaped text in a place where text may stand *)
Definition text_flag (stk : list (string * nat)) (s : string) (tt : bool) : bool :=
  match stk with [] => if all_chars is_ws s then tt else true | _ => tt end.

Lemma text_char_ok : forall m stk tt tb, text_place (top stk) = true ->
  text_char (mkH m stk tt tb) = mkH MText stk (match stk with [] => true | _ => tt end) tb.
Proof. intros m stk tt tb H. unfold text_char. cbn [h_stk h_text h_table]. rewrite H. reflexivity. Qed.

Lemma run_entity_text : forall e stk tt tb,
  In e ["&amp;"; "&lt;"; "&gt;"; "&quot;"; "&#x27;"] -> text_place (top stk) = true ->
  hrun (mkH MText stk tt tb) e = mkH MText stk (match stk with [] => true | _ => tt end) tb.
Proof.
  intros e stk tt tb I H.
  cbn [In] in I. destruct I as [I|[I|[I|[I|[I|[]]]]]]; subst e.
  - change (text_char (mkH (MEnt None "amp") stk tt tb) = mkH MText stk (match stk with [] => true | _ => tt end) tb). apply text_char_ok; exact H.
  - change (text_char (mkH (MEnt None "lt") stk tt tb) = mkH MText stk (match stk with [] => true | _ => tt end) tb). apply text_char_ok; exact H.
  - change (text_char (mkH (MEnt None "gt") stk tt tb) = mkH MText stk (match stk with [] => true | _ => tt end) tb). apply text_char_ok; exact H.
  - change (text_char (mkH (MEnt None "quot") stk tt tb) = mkH MText stk (match stk with [] => true | _ => tt end) tb). apply text_char_ok; exact H.
  - change (text_char (mkH (MEnt None "#x27") stk tt tb) = mkH MText stk (match stk with [] => true | _ => tt end) tb). apply text_char_ok; exact H.
Qed.

Lemma text_flag_ws : forall stk c r tt, is_ws c = true -> text_flag stk (String c r) tt = text_flag stk r tt.
Proof. intros stk c r tt W. unfold text_flag. cbn [all_chars]. rewrite W. reflexivity. Qed.

Lemma text_flag_nonws : forall stk c r tt, is_ws c = false ->
  text_flag stk (String c r) tt = text_flag stk r (match stk with [] => true | _ => tt end).
Proof.
  intros stk c r tt W. unfold text_flag. cbn [all_chars]. rewrite W. cbn [andb].
  destruct stk; [destruct (all_chars is_ws r); reflexivity | reflexivity].
Qed.

Lemma special_not_ws : forall c, In c ["&"; "<"; ">"; dq; "'"]%char -> is_ws c = false.
Proof. intros c I. cbn [In] in I. destruct I as [I|[I|[I|[I|[I|[]]]]]]; subst c; reflexivity. Qed.

Theorem run_text : forall s stk tt tb, xml_safe s = true -> text_place (top stk) = true ->
  hrun (mkH MText stk tt tb) (html_escape s) = mkH MText stk (text_flag stk s tt) tb.
Proof.
  induction s as [|c s IH]; intros stk tt tb X P.
  - cbn [html_escape hrun]. unfold text_flag. cbn [all_chars]. destruct stk; reflexivity.
  - unfold xml_safe in X. cbn [all_chars] in X. apply andb_true_iff in X. destruct X as [Xc Xs].
    cbn [html_escape]. rewrite run_app.
    destruct (Ascii.eqb c "&") eqn:E1.
    { apply Ascii.eqb_eq in E1. subst c. rewrite run_entity_text; [|cbn; tauto|exact P].
      rewrite IH; [|exact Xs|exact P]. rewrite text_flag_nonws; reflexivity. }
    destruct (Ascii.eqb c "<") eqn:E2.
    { apply Ascii.eqb_eq in E2. subst c. rewrite run_entity_text; [|cbn; tauto|exact P].
      rewrite IH; [|exact Xs|exact P]. rewrite text_flag_nonws; reflexivity. }
    destruct (Ascii.eqb c ">") eqn:E3.
    { apply Ascii.eqb_eq in E3. subst c. rewrite run_entity_text; [|cbn; tauto|exact P].
      rewrite IH; [|exact Xs|exact P]. rewrite text_flag_nonws; reflexivity. }
    destruct (Ascii.eqb c dq) eqn:E4.
    { apply Ascii.eqb_eq in E4. subst c. rewrite run_entity_text; [|cbn; tauto|exact P].
      rewrite IH; [|exact Xs|exact P]. rewrite text_flag_nonws; reflexivity. }
    destruct (Ascii.eqb c "'") eqn:E5.
    { apply Ascii.eqb_eq in E5. subst c. rewrite run_entity_text; [|cbn; tauto|exact P].
      rewrite IH; [|exact Xs|exact P]. rewrite text_flag_nonws; reflexivity. }
    cbn [hrun]. unfold hstep at 1. cbn [h_mode]. rewrite E2, E1, E3, Xc. cbn [negb].
    destruct (is_ws c) eqn:W.
    + rewrite IH; [|exact Xs|exact P]. rewrite text_flag_ws; [reflexivity|exact W].
    + rewrite text_char_ok; [|exact P]. rewrite IH; [|exact Xs|exact P]. rewrite text_flag_nonws; [reflexivity|exact W].
Qed.

(* ---- escaped text inside a double-quoted attribute value *)
Lemma run_entity_attr : forall e n stk tt tb,
  In e ["&amp;"; "&lt;"; "&gt;"; "&quot;"; "&#x27;"] ->
  hrun (mkH (MAttrVal n) stk tt tb) e = mkH (MAttrVal n) stk tt tb.
Proof.
  intros e n stk tt tb I.
  cbn [In] in I. destruct I as [I|[I|[I|[I|[I|[]]]]]]; subst e; reflexivity.
Qed.

Theorem run_attr_value : forall s n stk tt tb, xml_safe s = true ->
  hrun (mkH (MAttrVal n) stk tt tb) (html_escape s) = mkH (MAttrVal n) stk tt tb.
Proof.
  induction s as [|c s IH]; intros n stk tt tb X; [reflexivity|].
  unfold xml_safe in X. cbn [all_chars] in X. apply andb_true_iff in X. destruct X as [Xc Xs].
  cbn [html_escape]. rewrite run_app.
  destruct (Ascii.eqb c "&") eqn:E1; [rewrite run_entity_attr by (cbn; tauto); apply IH; exact Xs|].
  destruct (Ascii.eqb c "<") eqn:E2; [rewrite run_entity_attr by (cbn; tauto); apply IH; exact Xs|].
  destruct (Ascii.eqb c ">") eqn:E3; [rewrite run_entity_attr by (cbn; tauto); apply IH; exact Xs|].
  destruct (Ascii.eqb c dq) eqn:E4; [rewrite run_entity_attr by (cbn; tauto); apply IH; exact Xs|].
  destruct (Ascii.eqb c "'") eqn:E5; [rewrite run_entity_attr by (cbn; tauto); apply IH; exact Xs|].
  cbn [hrun]. unfold hstep at 1. cbn [h_mode]. rewrite E4, E2, E1, Xc. cbn [negb]. apply IH. exact Xs.
Qed.

(* ---- the annotation table *)
Definition row_safe (r : ann_row_data) : Prop :=
  xml_safe (ar_uri r) = true /\ xml_safe (ar_name r) = true /\ xml_safe (ar_text r) = true /\
  match ar_href r with Some u => xml_safe u = true | None => True end.

Definition in_table (k : nat) (stk : list (string * nat)) (tt tb : bool) : hstate := mkH MText (("TABLE", k) :: stk) tt tb.

(* the fixed pieces of a row, each hrun from the state the piece before leaves *)
Lemma piece1 : forall k stk tt tb,
  hrun (in_table k stk tt tb) (nl ++ "    <TR>" ++ nl ++ "        <TD align=""left"" href=""")
  = mkH (MAttrVal "TD") (("TR", 0) :: ("TABLE", S k) :: stk) tt tb.
Proof. reflexivity. Qed.
Lemma piece2 : forall k stk tt tb,
  hrun (mkH (MAttrVal "TD") (("TR", 0) :: ("TABLE", S k) :: stk) tt tb) """>"
  = mkH MText (("TD", 0) :: ("TR", 1) :: ("TABLE", S k) :: stk) tt tb.
Proof. reflexivity. Qed.
Lemma piece3 : forall k stk tt tb,
  hrun (mkH MText (("TD", 0) :: ("TR", 1) :: ("TABLE", S k) :: stk) tt tb) ("</TD>" ++ nl ++ "        <TD align=""left""")
  = mkH (MAfterVal "TD") (("TR", 1) :: ("TABLE", S k) :: stk) tt tb.
Proof. reflexivity. Qed.
Lemma piece4_href : forall k stk tt tb,
  hrun (mkH (MAfterVal "TD") (("TR", 1) :: ("TABLE", S k) :: stk) tt tb) " href="""
  = mkH (MAttrVal "TD") (("TR", 1) :: ("TABLE", S k) :: stk) tt tb.
Proof. reflexivity. Qed.
Lemma piece4_quote : forall k stk tt tb,
  hrun (mkH (MAttrVal "TD") (("TR", 1) :: ("TABLE", S k) :: stk) tt tb) """"
  = mkH (MAfterVal "TD") (("TR", 1) :: ("TABLE", S k) :: stk) tt tb.
Proof. reflexivity. Qed.
Lemma piece5 : forall k stk tt tb,
  hrun (mkH (MAfterVal "TD") (("TR", 1) :: ("TABLE", S k) :: stk) tt tb) ">"
  = mkH MText (("TD", 0) :: ("TR", 2) :: ("TABLE", S k) :: stk) tt tb.
Proof. reflexivity. Qed.
Lemma piece6 : forall k stk tt tb,
  hrun (mkH MText (("TD", 0) :: ("TR", 2) :: ("TABLE", S k) :: stk) tt tb) ("</TD>" ++ nl ++ "    </TR>")
  = in_table (S k) stk tt tb.
Proof. reflexivity. Qed.

Lemma app_assoc_s : forall a b c : string, (a ++ b) ++ c = a ++ (b ++ c).
Proof. induction a as [|x a IH]; intros b c; cbn [append]; [reflexivity | rewrite IH; reflexivity]. Qed.

(* one row takes the table state to the table state with one more row *)
Theorem run_row : forall r k stk tt tb, row_safe r ->
  hrun (in_table k stk tt tb) (nl ++ ann_row r) = in_table (S k) stk tt tb.
Proof.
  intros r k stk tt tb [Xu [Xn [Xt Xh]]].
  assert (E : nl ++ ann_row r =
              (nl ++ "    <TR>" ++ nl ++ "        <TD align=""left"" href=""") ++ html_escape (ar_uri r) ++ """>" ++
              html_escape (ar_name r) ++ ("</TD>" ++ nl ++ "        <TD align=""left""") ++
              (match ar_href r with Some u => " href=""" ++ html_escape u ++ """" | None => "" end) ++
              ">" ++ html_escape (ar_text r) ++ ("</TD>" ++ nl ++ "    </TR>")).
  { unfold ann_row. repeat rewrite app_assoc_s. reflexivity. }
  rewrite E. clear E.
  rewrite run_app, piece1. rewrite run_app, run_attr_value by exact Xu.
  rewrite run_app, piece2. rewrite run_app, run_text by (exact Xn || reflexivity). cbn [text_flag].
  rewrite run_app, piece3.
  rewrite run_app.
  assert (H4 : hrun (mkH (MAfterVal "TD") (("TR", 1) :: ("TABLE", S k) :: stk) tt tb)
                   (match ar_href r with Some u => " href=""" ++ html_escape u ++ """" | None => "" end)
               = mkH (MAfterVal "TD") (("TR", 1) :: ("TABLE", S k) :: stk) tt tb).
  { destruct (ar_href r) as [u|]; [|reflexivity].
    rewrite run_app, piece4_href. rewrite run_app, run_attr_value by exact Xh. apply piece4_quote. }
  rewrite H4. rewrite run_app, piece5. rewrite run_app, run_text by (exact Xt || reflexivity). cbn [text_flag].
  apply piece6.
Qed.

Theorem run_rows : forall rs k stk tt tb, Forall row_safe rs ->
  hrun (in_table k stk tt tb) (ann_rows rs) = in_table (length rs + k) stk tt tb.
Proof.
  induction rs as [|r rs IH]; intros k stk tt tb F; [reflexivity|].
  inversion F as [|? ? Fr Frs]; subst.
  cbn [ann_rows]. rewrite <- app_assoc_s, run_app, run_row by exact Fr.
  rewrite IH by exact Frs. cbn [length]. rewrite <- plus_n_Sm. reflexivity.
Qed.

Lemma run_start : hrun h_init ann_start = in_table 0 [] false true.
Proof. reflexivity. Qed.

Lemma run_end : forall k, hrun (in_table (S k) [] false true) (nl ++ ann_end) = mkH MText [] false true.
Proof. reflexivity. Qed.

Theorem ann_body_accepted : forall rs, rs <> [] -> Forall row_safe rs -> html_body_ok (ann_body rs) = true.
Proof.
  intros rs NE F. unfold html_body_ok, ann_body.
  rewrite run_app, run_start. rewrite run_app, run_rows by exact F.
  destruct rs as [|r rs]; [contradiction|]. cbn [length plus]. rewrite run_end. reflexivity.
Qed.

(* the DOT HTML string: "<" body ">" *)
Lemma drop_last_gt_app : forall b, drop_last_gt (b ++ ">") = Some b.
Proof.
  induction b as [|c b IH]; [reflexivity|].
  cbn [append]. cbn [drop_last_gt]. rewrite IH.
  destruct (b ++ ">") eqn:E; [destruct b; discriminate E | reflexivity].
Qed.

Lemma label_ok_body : forall b, html_label_ok ("<" ++ b ++ ">") = html_body_ok b.
Proof. intros b. cbn [append html_label_ok]. cbn [Ascii.eqb Bool.eqb]. rewrite drop_last_gt_app. reflexivity. Qed.

Theorem ann_label_accepted : forall rs, rs <> [] -> Forall row_safe rs -> html_label_ok (ann_label rs) = true.
Proof. intros rs NE F. unfold ann_label. rewrite label_ok_body. apply ann_body_accepted; assumption. Qed.

(* ---- the two-line label of an element drawn under its prov:label *)
Lemma fancy_mid : forall tt,
  hrun (mkH MText [] tt false) ("<br />" ++ "<font color=""#333333"" point-size=""10"">") = mkH MText [("FONT", 0)] true false.
Proof. reflexivity. Qed.
Lemma fancy_close : hrun (mkH MText [("FONT", 0)] true false) "</font>" = mkH MText [] true false.
Proof. reflexivity. Qed.

Theorem fancy_label_accepted : forall label ident, xml_safe label = true -> xml_safe ident = true ->
  html_label_ok (fancy_label label ident) = true.
Proof.
  intros label ident Xl Xi. unfold fancy_label. rewrite label_ok_body. unfold html_body_ok, fancy_body, h_init.
  rewrite run_app, run_text by (exact Xl || reflexivity).
  rewrite <- app_assoc_s, run_app, fancy_mid.
  rewrite run_app, run_text by (exact Xi || reflexivity). cbn [text_flag].
  rewrite fancy_close. reflexivity.
Qed.

(* without the premise: a control character that is not an XML character makes the table ill-formed (finding C15-F1) *)
Lemma control_char_refuted :
  html_label_ok (ann_label [mkRow "http://e/k" "ex:k" None ("a" ++ String (ascii_of_nat 11) "b")]) = false.
Proof. vm_compute. reflexivity. Qed.

Example ann_label_applies :
  html_label_ok (ann_label [mkRow "http://e/k" "ex:k" None "a<b & ""c"" 'd'";
                            mkRow "http://e/k2" "ex:k2" (Some "http://x/?a=1&b=2") "http://x/?a=1&b=2"]) = true.
Proof. vm_compute. reflexivity. Qed.
