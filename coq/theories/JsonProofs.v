(* JsonProofs.v — the PROV-JSON decoder only builds coherent documents with unique
   bundle keys (it is a program of add_namespace / new_record / membership calls). *)
From Coq Require Import String Ascii List Bool Arith ZArith Lia.
From Prov Require Import Str StrProofs Sexp Tables Nsm NsmProofs Values Record RecordProofs World Interp WorldProofs Jtree Json.
Import ListNotations.
Open Scope string_scope.

Lemma add_members_coh : forall par ft ms b coll b' r,
  Coherent b -> add_members par ft b coll ms = (b', r) -> Coherent b'.
Proof.
  induction ms as [|mv ms IH]; intros b coll b' r C H; cbn [add_members] in H.
  - inversion H; subst; exact C.
  - destruct (vqn par (bns b) mv) as [q|e|]; try (inversion H; subst; exact C).
    destruct (factory_call par ft b "membership" None _ []) as [b1 [y|e|]] eqn:E.
    + eapply IH; [|exact H]. eapply factory_call_coherent; eauto.
    + inversion H; subst. eapply factory_call_coherent; eauto.
    + inversion H; subst. eapply factory_call_coherent; eauto.
Qed.

Lemma decode_elements_coh : forall par ft kind rec_id els b b' r,
  Coherent b -> decode_elements par ft b kind rec_id els = (b', r) -> Coherent b'.
Proof.
  induction els as [|e els IH]; intros b b' r C H; cbn [decode_elements] in H.
  - inversion H; subst; exact C.
  - destruct e as [ | | | | | |members]; try (inversion H; subst; exact C).
    destruct (decode_element par (bns b) kind members _) as [acc|e|]; try (inversion H; subst; exact C).
    destruct (new_record par ft b kind _ _) as [b1 [y|e|]] eqn:EN;
      try (inversion H; subst; eapply new_record_coherent; eauto; fail).
    pose proof (new_record_coherent _ _ _ _ _ _ _ _ C EN) as C1.
    destruct (acc_members acc) as [|m0 ms]; [eapply IH; eauto|].
    destruct (find _ (acc_formal acc)) as [[k v]|]; [|inversion H; subst; exact C1].
    destruct (add_members par ft b1 v (m0 :: ms)) as [b2 [y2|e|]] eqn:EM.
    + eapply IH; [|exact H]. eapply add_members_coh; eauto.
    + inversion H; subst. eapply add_members_coh; eauto.
    + inversion H; subst. eapply add_members_coh; eauto.
Qed.

Lemma decode_records_coh : forall par ft kind entries b b' r,
  Coherent b -> decode_records par ft b kind entries = (b', r) -> Coherent b'.
Proof.
  induction entries as [|[rid content] entries IH]; intros b b' r C H; cbn [decode_records] in H.
  - inversion H; subst; exact C.
  - destruct (match content with JObj _ => Some [content] | JArr l => Some l | _ => None end) as [l|];
      [|inversion H; subst; exact C].
    destruct (decode_elements par ft b kind rid l) as [b1 [y|e|]] eqn:E.
    + eapply IH; [|exact H]. eapply decode_elements_coh; eauto.
    + inversion H; subst. eapply decode_elements_coh; eauto.
    + inversion H; subst. eapply decode_elements_coh; eauto.
Qed.

Lemma decode_kinds_coh : forall par ft jc b b' r,
  Coherent b -> decode_kinds par ft b jc = (b', r) -> Coherent b'.
Proof.
  induction jc as [|[lbl content] jc IH]; intros b b' r C H; cbn [decode_kinds] in H.
  - inversion H; subst; exact C.
  - destruct (kind_of_label lbl) as [kind|]; [|inversion H; subst; exact C].
    destruct (String.eqb kind "Bundle"); [inversion H; subst; exact C|].
    destruct content as [ | | | | | |entries]; try (inversion H; subst; exact C).
    destruct (decode_records par ft b kind entries) as [b1 [y|e|]] eqn:E.
    + eapply IH; [|exact H]. eapply decode_records_coh; eauto.
    + inversion H; subst. eapply decode_records_coh; eauto.
    + inversion H; subst. eapply decode_records_coh; eauto.
Qed.

Lemma decode_container_coh : forall par ft b jc b' r,
  Coherent b -> decode_container par ft b jc = (b', r) -> Coherent b'.
Proof.
  intros par ft b jc b' r C H. unfold decode_container in H.
  destruct (lookup "prefix" jc) as [[ | | | | | |ps]|]; try (inversion H; subst; exact C).
  - destruct (decode_prefixes (bns b) ps) as [m|e|]; try (inversion H; subst; exact C).
    eapply decode_kinds_coh; [|exact H]. apply Coherent_with_ns. exact C.
  - eapply decode_kinds_coh; eauto.
Qed.

Lemma attach_decoded_coh : forall dd b i dd' r,
  DCoh dd -> Coherent b -> attach_decoded dd b i = (dd', r) -> DCoh dd'.
Proof.
  intros dd b i dd' r D C H. unfold attach_decoded in H.
  destruct i as [q0|]; [|inversion H; subst; exact D].
  destruct (resolve _ (bns b) (NQn q0)) as [[m [q|]]|e|]; try (inversion H; subst; exact D).
  destruct (mem (qn_uri q) (dbundles dd)); inversion H; subst; [exact D|].
  apply DCoh_attach; assumption.
Qed.

Lemma attach_decoded_uniq : forall dd b i dd' r,
  uniq (dbundles dd) -> attach_decoded dd b i = (dd', r) -> uniq (dbundles dd').
Proof.
  intros dd b i dd' r U H. unfold attach_decoded in H.
  destruct i as [q0|]; [|inversion H; subst; exact U].
  destruct (resolve _ (bns b) (NQn q0)) as [[m [q|]]|e|]; try (inversion H; subst; exact U).
  destruct (mem (qn_uri q) (dbundles dd)) eqn:M; inversion H; subst; [exact U|].
  cbn [dbundles]. unfold uniq in *. rewrite map_app. cbn. apply NoDup_snoc; [exact U|].
  intro Hin. apply in_map_iff in Hin. destruct Hin as [[k' v'] [E Hin]]. cbn in E. subst k'.
  destruct (In_lookup_some _ _ _ Hin) as [x L]. unfold mem in M. rewrite L in M. discriminate.
Qed.

Lemma decode_bundles_inv : forall ft bs dd dd' r,
  DCoh dd -> uniq (dbundles dd) -> decode_bundles ft dd bs = (dd', r) -> DCoh dd' /\ uniq (dbundles dd').
Proof.
  induction bs as [|[bid_str content] bs IH]; intros dd dd' r D U H; cbn [decode_bundles] in H.
  - inversion H; subst; split; assumption.
  - destruct content as [ | | | | | |jc]; try (inversion H; subst; split; assumption).
    cbv zeta in H.
    destruct (decode_container _ ft (bundle_init None) jc) as [b [y|e|]] eqn:EC;
      try (inversion H; subst; split; assumption).
    pose proof (decode_container_coh _ _ _ _ _ _ (Coherent_init None) EC) as Cb.
    destruct (resolve _ (bns b) (NStr bid_str)) as [[m i]|e|]; try (inversion H; subst; split; assumption).
    destruct (attach_decoded dd (with_ns b m) i) as [dd1 [y1|e|]] eqn:EA.
    + eapply IH; [| |exact H].
      * eapply attach_decoded_coh; [exact D | apply Coherent_with_ns; exact Cb | exact EA].
      * eapply attach_decoded_uniq; eauto.
    + inversion H; subst. split.
      * eapply attach_decoded_coh; [exact D | apply Coherent_with_ns; exact Cb | exact EA].
      * eapply attach_decoded_uniq; eauto.
    + inversion H; subst. split.
      * eapply attach_decoded_coh; [exact D | apply Coherent_with_ns; exact Cb | exact EA].
      * eapply attach_decoded_uniq; eauto.
Qed.

Theorem decode_doc_inv : forall ft t nd, decode_doc ft t = OK nd -> DCoh nd /\ uniq (dbundles nd).
Proof.
  intros ft t nd H. unfold decode_doc in H.
  destruct t as [ | | | | | |content]; try discriminate.
  destruct (match lookup "bundle" content with
            | Some (JObj bs) => Some bs | None => Some [] | _ => None end) as [bs|]; [|discriminate].
  destruct (decode_container None ft (bundle_init None) _) as [b [y|e|]] eqn:EC; try discriminate.
  pose proof (decode_container_coh _ _ _ _ _ _ (Coherent_init None) EC) as Cb.
  destruct (decode_bundles ft (mkD b []) bs) as [dd [y2|e|]] eqn:EB; inversion H; subst.
  eapply decode_bundles_inv; [apply DCoh_main; exact Cb | constructor | exact EB].
Qed.

(* ------------------------------------------------------------------ C01: value-level round trip *)
(* the built-in prefixes are never re-pointed *)
Definition Builtins (m : nsm) : Prop :=
  lookup "xsd" (tbl m) = Some xsd_ns /\ lookup "prov" (tbl m) = Some prov_ns.

Lemma Builtins_init : Builtins nsm_init.
Proof. split; vm_compute; reflexivity. Qed.

Lemma resolve_str_tbl : forall par m p l n,
  lookup p (tbl m) = Some n -> contains_char colon p = false -> p <> "_" -> p <> "" ->
  resolve par m (NStr (p ++ String colon l)) = OK (m, Some (mkQn n l)).
Proof.
  intros par m p l n L NC NU NE.
  destruct p as [|c p]; [contradiction|]. cbn [append resolve].
  change (String c (p ++ String colon l)) with (String c p ++ String colon l).
  unfold bind, resolve_str, resolve_str1.
  rewrite (blank_false_prefixed _ _ NU NC), (split_colon_app _ _ NC), L. reflexivity.
Qed.

Lemma vqn_builtin_xsd : forall par m l, Builtins m ->
  vqn par m (JStr ("xsd:" ++ l)) = OK (Some (xsd_qn l)).
Proof.
  intros par m l [X _]. unfold vqn.
  change ("xsd:" ++ l) with ("xsd" ++ String colon l).
  rewrite (resolve_str_tbl par m "xsd" l xsd_ns X); [reflexivity | reflexivity | discriminate | discriminate].
Qed.

Lemma vqn_builtin_prov : forall par m l, Builtins m ->
  vqn par m (JStr ("prov:" ++ l)) = OK (Some (prov_qn l)).
Proof.
  intros par m l [_ P]. unfold vqn.
  change ("prov:" ++ l) with ("prov" ++ String colon l).
  rewrite (resolve_str_tbl par m "prov" l prov_ns P); [reflexivity | reflexivity | discriminate | discriminate].
Qed.

(* what a stored value looks like after encode -> decode -> normalisation on insertion *)
Definition reinsert (c : actx) (m : nsm) (v : value) : outcome (option value) :=
  match decode_value (cparent c) m (encode_value v) with
  | OK a => auto_conv c m a
  | Raise e => Fail m e
  | OutOfDomain => OOD
  end.

Theorem json_value_roundtrip_str : forall c m s, reinsert c m (VStr s) = Done m (Some (VStr s)).
Proof. reflexivity. Qed.
Theorem json_value_roundtrip_bool : forall c m b, reinsert c m (VBool b) = Done m (Some (VBool b)).
Proof. reflexivity. Qed.

Lemma json_int_type : lookup "int" json_literal_xsdtype_map = Some "xsd:int".
Proof. vm_compute. reflexivity. Qed.
Lemma json_float_type : lookup "float" json_literal_xsdtype_map = Some "xsd:double".
Proof. vm_compute. reflexivity. Qed.
Lemma xsd_int_parser : lookup "int" xsd_parsers = Some "int".
Proof. vm_compute. reflexivity. Qed.
Lemma xsd_double_parser : lookup "double" xsd_parsers = Some "float".
Proof. vm_compute. reflexivity. Qed.
Lemma xsd_anyuri_is : forall l, String.eqb (qn_uri (xsd_qn l)) (xsd_uri ++ "anyURI") = String.eqb l "anyURI".
Proof.
  intros l. unfold qn_uri, xsd_qn, xsd_ns; cbn [qn_ns ns_uri qn_local].
  destruct (String.eqb l "anyURI") eqn:E.
  - apply String.eqb_eq in E. subst. apply String.eqb_refl.
  - apply String.eqb_neq. intro H. apply append_inj_l in H. subst. rewrite String.eqb_refl in E. discriminate.
Qed.
Lemma xsd_not_provqn : forall l, String.eqb (qn_uri (xsd_qn l)) (prov_uri ++ "QUALIFIED_NAME") = false.
Proof.
  intros l. apply String.eqb_neq. unfold qn_uri, xsd_qn, xsd_ns; cbn [qn_ns ns_uri qn_local].
  intro H. assert (X : String.length (xsd_uri ++ l) >= 0) by lia.
  assert (P : prefix "http://www.w3.org/2" (xsd_uri ++ l) = true) by reflexivity.
  rewrite H in P. vm_compute in P. discriminate.
Qed.

Theorem json_value_roundtrip_int : forall c m z, Builtins m ->
  reinsert c m (VInt z) = Done m (Some (VInt z)).
Proof.
  intros c m z B. unfold reinsert, encode_value. rewrite json_int_type.
  cbn [decode_value lookup String.eqb Ascii.eqb Bool.eqb].
  change "xsd:int" with ("xsd:" ++ "int"). rewrite (vqn_builtin_xsd _ _ _ B).
  rewrite xsd_anyuri_is, xsd_not_provqn. cbn [String.eqb Ascii.eqb Bool.eqb jscalar_str].
  apply (entry_path_int c m z "xsd" "int" xsd_int_parser).
Qed.

Theorem json_value_roundtrip_float : forall c m r iv g, Builtins m ->
  lookup r (cft c) = Some (Some (r, iv, g)) ->
  reinsert c m (VFloat r iv g) = Done m (Some (VFloat r iv g)).
Proof.
  intros c m r iv g B F. unfold reinsert, encode_value. rewrite json_float_type.
  cbn [decode_value lookup String.eqb Ascii.eqb Bool.eqb].
  change "xsd:double" with ("xsd:" ++ "double"). rewrite (vqn_builtin_xsd _ _ _ B).
  rewrite xsd_anyuri_is, xsd_not_provqn. cbn [String.eqb Ascii.eqb Bool.eqb jscalar_str].
  apply (entry_path_double c m r iv g "xsd" "double" xsd_double_parser F).
Qed.

Theorem json_value_roundtrip_id : forall c m u, Builtins m ->
  reinsert c m (VId u) = Done m (Some (VId u)).
Proof.
  intros c m u B. unfold reinsert, encode_value.
  cbn [decode_value lookup String.eqb Ascii.eqb Bool.eqb].
  change "xsd:anyURI" with ("xsd:" ++ "anyURI"). rewrite (vqn_builtin_xsd _ _ _ B).
  rewrite xsd_anyuri_is. cbn [String.eqb Ascii.eqb Bool.eqb jscalar_str auto_conv]. reflexivity.
Qed.

Lemma resolve_qn_bound : forall m q, Bound m q -> resolve_qn m q = Some (m, mkQn (qn_ns q) (qn_local q)).
Proof.
  intros m [n l] [[E D]|[N L]]; unfold resolve_qn; cbn [qn_ns qn_local] in *.
  - rewrite E, D, ns_eqb_refl. reflexivity.
  - destruct (ns_prefix n) as [|c p] eqn:EP; [contradiction|]. rewrite L, ns_eqb_refl. reflexivity.
Qed.

Lemma prov_not_anyuri : forall l, String.eqb (qn_uri (prov_qn l)) (xsd_uri ++ "anyURI") = false.
Proof.
  intros l. apply String.eqb_neq. unfold qn_uri, prov_qn, prov_ns; cbn [qn_ns ns_uri qn_local]. intro H.
  assert (P : prefix "http://www.w3.org/n" (prov_uri ++ l) = true) by reflexivity.
  rewrite H in P. vm_compute in P. discriminate.
Qed.

Theorem json_value_roundtrip_qn : forall c m q, Builtins m -> Bound m q -> printable q ->
  reinsert c m (VQn q) = Done m (Some (VQn q)).
Proof.
  intros c m q B Bd P. unfold reinsert, encode_value.
  cbn [decode_value lookup String.eqb Ascii.eqb Bool.eqb].
  change "prov:QUALIFIED_NAME" with ("prov:" ++ "QUALIFIED_NAME"). rewrite (vqn_builtin_prov _ _ _ B).
  rewrite prov_not_anyuri.
  assert (Q : String.eqb (qn_uri (prov_qn "QUALIFIED_NAME")) (prov_uri ++ "QUALIFIED_NAME") = true)
    by apply String.eqb_refl.
  rewrite Q. unfold vqn.
  pose proof (qn_str_nonempty _ P) as NE. pose proof (Bound_reresolve _ _ Bd P) as R.
  destruct (qn_str q) as [|ch s] eqn:ES; [contradiction|].
  cbn [resolve]. unfold bind, resolve_str. rewrite R.
  cbn [auto_conv]. unfold resolve_o. cbn [resolve].
  assert (Bd' : Bound m (mkQn (qn_ns q) (qn_local q))) by (destruct q; exact Bd).
  rewrite (resolve_qn_bound _ _ Bd'). destruct q; reflexivity.
Qed.

Theorem json_value_roundtrip_lang : forall c m lex ch l, Builtins m ->
  reinsert c m (VLit lex (Some (prov_qn "InternationalizedString")) (Some (String ch l)))
  = Done m (Some (VLit lex (Some (prov_qn "InternationalizedString")) (Some (String ch l)))).
Proof.
  intros c m lex ch l [X P]. unfold reinsert, encode_value.
  cbn [decode_value lookup String.eqb Ascii.eqb Bool.eqb vqn jscalar_str auto_conv].
  unfold keep_literal. cbn [mk_literal]. unfold resolve_o. cbn [resolve].
  assert (Bd : Bound m (prov_qn "InternationalizedString")).
  { right. split; [discriminate | exact P]. }
  rewrite (resolve_qn_bound _ _ Bd). reflexivity.
Qed.
