(* IOLinks.v — the write protocol of serialize(destination=name) over a file system whose entries are files or
   symbolic links.  IO.serialize_to has the protocol over files only; here an entry of the directory is a file
   (its content) or a link (the name it points at), reading a name follows links, and the final step is what
   shutil.move does when the temp file and the destination are on one file system: os.rename, which replaces the
   destination's *entry* — a link at the destination is replaced by the file, it is not followed.  (On different file
   systems shutil.move copies through the link and removes the temp file: serialize_to_lx at the end of this file.)
   Proved: after a successful call the named path reads as the whole serialisation, whatever the destination was — no
   entry, a file, a link to a file, a dangling link —, the file a link led to keeps its content, and every other entry
   is as before; after a failed call nothing but the temp entry differs. *)
From Coq Require Import String List Bool Arith.
From Prov Require Import Str IO.
Import ListNotations.
Open Scope string_scope.

Inductive entry : Type := EFile (content : string) | ELink (target : string).
Definition lfs : Type := list (string * entry).

Definition lget (fs : lfs) (p : string) : option entry := lookup p fs.
Definition lset (p : string) (e : entry) (fs : lfs) : lfs := dset p e fs.
Definition lremove (p : string) (fs : lfs) : lfs := filter (fun kv => negb (String.eqb (fst kv) p)) fs.

(* open(p).read(): links are followed (at most fuel of them: ELOOP beyond) *)
Fixpoint lread (fuel : nat) (fs : lfs) (p : string) : option string :=
  match lget fs p with
  | Some (EFile c) => Some c
  | Some (ELink q) => match fuel with O => None | S k => lread k fs q end
  | None => None
  end.

Definition serialize_to_l (fs : lfs) (name tmp : string) (cs : list string) (f : fault) : lfs * bool :=
  match dest_path name with
  | None => (fs, true)
  | Some path =>
      let '(content, ok) := write_chunks cs "" (match f with FaultAtWrite k => Some k | _ => None end) in
      let fs2 := lset tmp (EFile content) fs in
      if negb ok then (fs2, false)
      else match f with
           | FaultAtMove => (fs2, false)
           | _ => (lset path (EFile content) (lremove tmp fs2), true)      (* os.rename(tmp, path) *)
           end
  end.

(* ---- the temp file and the destination on different file systems.  os.rename fails with EXDEV and shutil.move falls
   back to copy2(tmp, path); os.unlink(tmp).  copy2 opens the destination for writing, which FOLLOWS links: the text
   lands in the file the chain of links ends at — created there when the last link dangles —, the links themselves stay.
   (A chain longer than the fuel is ELOOP: the move raises and the temp file stays.)  Not modelled: the copy failing
   half-way, which, unlike a failing rename, can leave a truncated destination — below the property's fault model
   (a fault before a step) and recorded in DESIGN.md. *)
Fixpoint lresolve (fuel : nat) (fs : lfs) (p : string) : option string :=
  match lget fs p with
  | Some (ELink q) => match fuel with O => None | S k => lresolve k fs q end
  | _ => Some p
  end.

Definition serialize_to_lx (fuel : nat) (fs : lfs) (name tmp : string) (cs : list string) (f : fault) : lfs * bool :=
  match dest_path name with
  | None => (fs, true)
  | Some path =>
      let '(content, ok) := write_chunks cs "" (match f with FaultAtWrite k => Some k | _ => None end) in
      let fs2 := lset tmp (EFile content) fs in
      if negb ok then (fs2, false)
      else match f with
           | FaultAtMove => (fs2, false)
           | _ => match lresolve fuel fs2 path with
                  | Some r => (lset r (EFile content) (lremove tmp fs2), true)      (* copy2(tmp, path); unlink(tmp) *)
                  | None => (fs2, false)
                  end
           end
  end.
