(* Dot.v — the two quoting layers of prov/dot.py (as repaired): DOT double-quoted
   strings (_quoted) and HTML-like label text / attribute values (html.escape), with
   the acceptors written from the Graphviz grammar: a double-quoted ID ends at the
   first unescaped quote; HTML-like text may not contain angle brackets or a double
   quote and every ampersand must start an entity reference. *)
From Coq Require Import String Ascii List Bool Arith.
From Prov Require Import Str.
Import ListNotations.
Open Scope string_scope.

Definition dq : ascii := """"%char.
Definition bsl : ascii := "\"%char.

(* _quoted: backslash and double quote are escaped with a backslash, between quotes *)
Fixpoint dot_escape (s : string) : string :=
  match s with
  | EmptyString => EmptyString
  | String c r =>
      if Ascii.eqb c bsl then String bsl (String bsl (dot_escape r))
      else if Ascii.eqb c dq then String bsl (String dq (dot_escape r))
      else String c (dot_escape r)
  end.
Definition dot_quote (s : string) : string := String dq (dot_escape s ++ String dq EmptyString).

(* Graphviz lexer for a double-quoted ID: after the opening quote, read up to the
   first quote that is not preceded by a backslash escape; returns the text with the
   two escapes undone (as escString attributes such as label and URL do) and the rest *)
Fixpoint scan_quoted (s : string) : option (string * string) :=
  match s with
  | EmptyString => None
  | String c r =>
      if Ascii.eqb c dq then Some (EmptyString, r)
      else if Ascii.eqb c bsl then
        match r with
        | String e r' => match scan_quoted r' with
                         | Some (a, b) => Some (String e a, b)
                         | None => None
                         end
        | EmptyString => None
        end
      else match scan_quoted r with Some (a, b) => Some (String c a, b) | None => None end
  end.
Definition read_quoted_id (s : string) : option (string * string) :=
  match s with
  | String c r => if Ascii.eqb c dq then scan_quoted r else None
  | EmptyString => None
  end.

(* html.escape(s, quote=True) *)
Fixpoint html_escape (s : string) : string :=
  match s with
  | EmptyString => EmptyString
  | String c r =>
      (if Ascii.eqb c "&" then "&amp;"
       else if Ascii.eqb c "<" then "&lt;"
       else if Ascii.eqb c ">" then "&gt;"
       else if Ascii.eqb c dq then "&quot;"
       else if Ascii.eqb c "'" then "&#x27;"
       else String c EmptyString) ++ html_escape r
  end.

(* acceptor for HTML-like text and for a double-quoted attribute value: no markup
   character, every ampersand starts one of the entity references; returns the text *)
Definition entity (s : string) : option (ascii * string) :=
  if starts_with "&amp;" s then Some ("&"%char, drop 5 s)
  else if starts_with "&lt;" s then Some ("<"%char, drop 4 s)
  else if starts_with "&gt;" s then Some (">"%char, drop 4 s)
  else if starts_with "&quot;" s then Some (dq, drop 6 s)
  else if starts_with "&#x27;" s then Some ("'"%char, drop 6 s)
  else None.

Fixpoint html_text (fuel : nat) (s : string) : option string :=
  match fuel with
  | O => match s with EmptyString => Some EmptyString | _ => None end
  | S f =>
      match s with
      | EmptyString => Some EmptyString
      | String c r =>
          if (Ascii.eqb c "<" || Ascii.eqb c ">" || Ascii.eqb c dq)%bool then None
          else if Ascii.eqb c "&" then
            match entity s with
            | Some (ch, rest) => match html_text f rest with Some t => Some (String ch t) | None => None end
            | None => None
            end
          else match html_text f r with Some t => Some (String c t) | None => None end
      end
  end.
