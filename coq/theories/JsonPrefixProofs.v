(* JsonPrefixProofs.v — the prefix block of a PROV-JSON container.  For a manager that holds, besides the
   built-in namespaces, registered namespaces under pairwise different prefixes (none of them a built-in
   prefix or the word "default") and pairwise different URIs, and possibly a default namespace, reading the
   prefix block the writer emits re-creates a manager with exactly those bindings: every registered
   namespace is bound under its prefix, the default namespace is the default. *)
From Coq Require Import String Ascii List Bool Arith ZArith Lia.
From Prov Require Import Str StrProofs Sexp Tables Nsm NsmProofs Values Record World Jtree Json JsonProofs.
Import ListNotations.
Open Scope string_scope.

Definition reg_entry (n : ns) : string * ns := (ns_prefix n, n).

Definition plain_regs (l : list ns) : Prop :=
  NoDup (map ns_prefix l) /\ NoDup (map ns_uri l) /\
  forall n, In n l ->
    mem (ns_prefix n) builtin_tbl = false /\ String.eqb (ns_prefix n) "default" = false /\
    uri_ok (ns_uri n) = true /\ in_values n builtin_tbl = false.

(* the reader's manager after the namespaces l: built-ins, then l in order *)
Definition after (l : list ns) : nsm :=
  mkNsm (builtin_tbl ++ map reg_entry l)%list (map reg_entry l) None
        (map (fun n => (ns_uri n, n)) l) [] [].

Lemma after_nil : after [] = nsm_init.
Proof. unfold after, nsm_init. cbn [map]. rewrite app_nil_r. reflexivity. Qed.

Lemma mem_app : forall (V : Type) (a b : list (string * V)) k, mem k (a ++ b) = (mem k a || mem k b)%bool.
Proof.
  intros V a b k. unfold mem. induction a as [|[k0 v0] a IH]; cbn [app lookup]; [destruct (lookup k b); reflexivity|].
  destruct (String.eqb k k0); [reflexivity | exact IH].
Qed.

Lemma mem_notin : forall (V : Type) (d : list (string * V)) k, ~ In k (map fst d) -> mem k d = false.
Proof.
  intros V d k N. unfold mem. destruct (lookup k d) as [v|] eqn:L; [|reflexivity].
  exfalso. apply N. exact (lookup_key_in _ _ _ L).
Qed.

Lemma dset_append : forall (V : Type) (d : list (string * V)) k v, mem k d = false -> dset k v d = (d ++ [(k, v)])%list.
Proof.
  intros V d k v. induction d as [|[k0 v0] d IH]; intros M; [reflexivity|].
  unfold mem in M. cbn [lookup] in M. cbn [dset app]. destruct (String.eqb k k0) eqn:E; [discriminate M|].
  f_equal. apply IH. unfold mem. exact M.
Qed.

Lemma in_values_notin : forall n t, (forall k x, In (k, x) t -> x <> n) -> in_values n t = false.
Proof.
  intros n t H. unfold in_values. destruct (existsb (fun kv => ns_eqb n (snd kv)) t) eqn:E; [|reflexivity].
  apply existsb_exists in E. destruct E as [[k x] [I Q]]. cbn [snd] in Q. apply ns_eqb_eq in Q. subst x.
  exfalso. exact (H k n I eq_refl).
Qed.

Lemma in_values_app : forall n a b, in_values n (a ++ b) = (in_values n a || in_values n b)%bool.
Proof. intros n a b. unfold in_values. apply existsb_app. Qed.

(* one more namespace *)
Lemma add_after : forall done n, plain_regs (done ++ [n]) ->
  add_namespace (after done) n = Some (after (done ++ [n]), n).
Proof.
  intros done n [UP [UU H]]. destruct (H n (in_or_app done [n] n (or_intror (or_introl eq_refl)))) as [MB [ND [UO IV]]].
  rewrite map_app in UP, UU. cbn [map] in UP, UU. apply NoDup_remove_2 in UP. apply NoDup_remove_2 in UU.
  rewrite app_nil_r in UP, UU.
  unfold add_namespace. cbn [after tbl renmap urimap regd dflt prenmap ren_lookup].
  assert (IV2 : in_values n (builtin_tbl ++ map reg_entry done) = false).
  { rewrite in_values_app, IV. cbn [orb]. apply in_values_notin. intros k x I E. subst x.
    apply in_map_iff in I. destruct I as [y [EY IY]]. unfold reg_entry in EY. inversion EY; subst y.
    apply UP. apply in_map. exact IY. }
  rewrite IV2.
  assert (LU : lookup (ns_uri n) (map (fun x => (ns_uri x, x)) done) = None).
  { apply mem_false_lookup. apply mem_notin. rewrite map_map. cbn [fst]. exact UU. }
  rewrite LU.
  assert (MP : mem (ns_prefix n) (builtin_tbl ++ map reg_entry done) = false).
  { rewrite mem_app, MB. cbn [orb]. apply mem_notin. rewrite map_map. cbn [reg_entry fst]. exact UP. }
  rewrite MP. f_equal. f_equal. unfold after. rewrite !map_app. cbn [map].
  rewrite (dset_append _ _ _ _ MP), app_assoc.
  rewrite (dset_append _ (map reg_entry done)) by (apply mem_notin; rewrite map_map; cbn [reg_entry fst]; exact UP).
  rewrite (dset_append _ (map (fun x => (ns_uri x, x)) done)) by (apply mem_notin; rewrite map_map; cbn [fst]; exact UU).
  reflexivity.
Qed.

Lemma NoDup_app_l : forall (T : Type) (a b : list T), NoDup (a ++ b) -> NoDup a.
Proof.
  intros T a b. induction a as [|x a IH]; intros N; [constructor|]. cbn [app] in N. inversion N as [|y ys Hn N']; subst.
  constructor; [intro I; apply Hn; apply in_or_app; left; exact I | exact (IH N')].
Qed.

Lemma plain_prefix : forall l1 l2, plain_regs (l1 ++ l2) -> plain_regs l1.
Proof.
  intros l1 l2 [UP [UU H]]. rewrite map_app in UP, UU. split; [|split].
  - apply (NoDup_app_l _ _ _ UP).
  - apply (NoDup_app_l _ _ _ UU).
  - intros n I. apply H. apply in_or_app. left. exact I.
Qed.

Definition enc_ns (n : ns) : string * jv := (ns_prefix n, JStr (ns_uri n)).

Lemma decode_regs : forall todo done tail,
  plain_regs (done ++ todo) ->
  decode_prefixes (after done) (map enc_ns todo ++ tail) = decode_prefixes (after (done ++ todo)) tail.
Proof.
  induction todo as [|n todo IH]; intros done tail P; [rewrite app_nil_r; reflexivity|].
  assert (P1 : plain_regs (done ++ [n])).
  { apply (plain_prefix _ todo). rewrite <- app_assoc. exact P. }
  destruct P1 as [_ [_ H1]]. destruct (H1 n (in_or_app done [n] n (or_intror (or_introl eq_refl)))) as [_ [ND [UO _]]].
  cbn [map app decode_prefixes enc_ns]. rewrite UO. cbn [negb]. rewrite ND.
  assert (E : mkNs (ns_prefix n) (ns_uri n) = n) by (destruct n; reflexivity). rewrite E.
  rewrite (add_after done n); [|apply (plain_prefix _ todo); rewrite <- app_assoc; exact P].
  rewrite (IH (done ++ [n])%list tail); [rewrite <- app_assoc; reflexivity | rewrite <- app_assoc; exact P].
Qed.

(* the member list of the prefix block *)
Lemma encode_regs : forall l acc,
  NoDup (map fst acc ++ map ns_prefix l) ->
  fold_left (fun a e => jset (fst e) (snd e) a) (map enc_ns l) acc = (acc ++ map enc_ns l)%list.
Proof.
  induction l as [|n l IH]; intros acc U; cbn [map fold_left]; [rewrite app_nil_r; reflexivity|].
  cbn [map] in U. cbn [enc_ns fst snd]. unfold jset. rewrite dset_append.
  - rewrite IH; [rewrite <- app_assoc; reflexivity|]. rewrite map_app. cbn [map fst]. rewrite <- app_assoc. exact U.
  - apply mem_notin. apply NoDup_remove_2 in U. intro I. apply U. apply in_or_app. left. exact I.
Qed.

Definition with_default (m : nsm) (d : option ns) : nsm :=
  match d with Some x => set_default m (ns_uri x) | None => m end.

Definition plain_manager (m : nsm) : Prop :=
  exists l, regd m = map reg_entry l /\ plain_regs l /\
            match dflt m with Some d => uri_ok (ns_uri d) = true | None => True end.

(* the prefix block, written and read *)
Theorem decode_encode_prefixes : forall m l,
  regd m = map reg_entry l -> plain_regs l ->
  match dflt m with Some d => uri_ok (ns_uri d) = true | None => True end ->
  decode_prefixes nsm_init (encode_prefixes m) = OK (with_default (after l) (dflt m)).
Proof.
  intros m l R P D. unfold encode_prefixes. rewrite R, map_map.
  change (map (fun x : ns => (ns_prefix (snd (reg_entry x)), JStr (ns_uri (snd (reg_entry x))))) l) with (map enc_ns l).
  rewrite (encode_regs l []) by (cbn [map app]; exact (proj1 P)). cbn [app].
  rewrite <- after_nil.
  destruct (dflt m) as [d|]; cbn [with_default].
  - unfold jset. rewrite dset_append.
    + rewrite (decode_regs l [] _ P). cbn [app decode_prefixes String.eqb Ascii.eqb Bool.eqb]. rewrite D. reflexivity.
    + apply mem_notin. rewrite map_map. cbn [enc_ns fst]. intro I. apply in_map_iff in I. destruct I as [n [E I]].
      destruct P as [_ [_ H]]. destruct (H n I) as [_ [ND _]]. rewrite <- E, String.eqb_refl in ND. discriminate.
  - rewrite <- (app_nil_r (map enc_ns l)). rewrite (decode_regs l [] [] P). reflexivity.
Qed.

(* every registered namespace is bound in the manager the reader has built *)
Theorem after_bound : forall l d n, plain_regs l -> In n l -> ns_prefix n <> "" ->
  tbound (with_default (after l) d) n.
Proof.
  intros l d n [UP [_ H]] I NE. split; [exact NE|].
  assert (L : lookup (ns_prefix n) (builtin_tbl ++ map reg_entry l) = Some n).
  { destruct (H n I) as [MB _].
    assert (G : forall a b : list (string * ns), mem (ns_prefix n) a = false -> lookup (ns_prefix n) (a ++ b) = lookup (ns_prefix n) b).
    { intros a b. induction a as [|[k0 v0] a IH]; intros M; [reflexivity|]. unfold mem in M. cbn [lookup] in M. cbn [app lookup].
      destruct (String.eqb (ns_prefix n) k0); [discriminate M | apply IH; exact M]. }
    rewrite (G _ _ MB). apply uniq_In_lookup.
    - unfold uniq. rewrite map_map. cbn [reg_entry fst]. exact UP.
    - apply in_map_iff. exists n. split; [reflexivity | exact I]. }
  destruct d as [x|]; cbn [with_default]; [|exact L].
  unfold set_default. cbn [tbl after]. rewrite lookup_dset.
  destruct (String.eqb (ns_prefix n) "") eqn:E; [apply String.eqb_eq in E; contradiction | exact L].
Qed.
