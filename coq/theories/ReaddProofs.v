(* ReaddProofs.v — re-creating a record from the attributes it holds (what add_record, update,
   flattened, unified and ProvRecord.copy do: add_attributes on (name, value) pairs taken from a
   record) neither invents nor drops anything: every value of the result is the re-homed image of
   a value of the source under an attribute name with the same URI, and every value of the source
   has its image in the result, or coincides as a Python value with one that is kept. *)
From Coq Require Import String List Arith ZArith Bool.
From Prov Require Import Str Sexp Tables Nsm NsmProofs Values Record RecordProofs World WorldProofs IdemProofs.
Import ListNotations.
Open Scope string_scope.

Definition sp_arg (p : qname * value) : namearg * valarg := (NQn (fst p), value_to_arg (snd p)).
Definition good_pair (ft : ftable) (p : qname * value) : Prop := stored ft (snd p) /\ typed (fst p) (snd p).

Lemma value_to_arg_not_none : forall v, value_to_arg v <> ANone.
Proof. destruct v; discriminate. Qed.

Lemma qn_eqb_of_uri : forall a b, qn_uri a = qn_uri b -> qn_eqb a b = true.
Proof. intros a b H. unfold qn_eqb. rewrite H. apply String.eqb_refl. Qed.

Lemma attr_get_eqb : forall d a b, qn_eqb a b = true -> attr_get a d = attr_get b d.
Proof.
  induction d as [|[k vs] d IH]; intros a b H; cbn [attr_get]; [reflexivity|].
  assert (E : qn_eqb a k = qn_eqb b k).
  { unfold qn_eqb in *. apply String.eqb_eq in H. rewrite H. reflexivity. }
  rewrite E. destruct (qn_eqb b k); [reflexivity | apply IH; exact H].
Qed.

Lemma in_set_add : forall v l w, In w (set_add v l) <-> (In w l \/ (w = v /\ set_mem v l = false)).
Proof.
  intros v l w. unfold set_add. destruct (set_mem v l) eqn:E; split; intro H.
  - left; exact H.
  - destruct H as [H|[_ H]]; [exact H | discriminate].
  - apply in_app_or in H. destruct H as [H|[H|[]]]; [left; exact H | right; split; [symmetry; exact H | reflexivity]].
  - apply in_or_app. destruct H as [H|[H _]]; [left; exact H | right; left; symmetry; exact H].
Qed.

(* what the normalisation of one stored pair yields *)
Lemma pair_value : forall c m1 k' k v,
  InvU m1 -> qn_eqb k' k = true -> good_pair (cft c) (k, v) ->
  match (if is_qname_attr k' then qn_value c m1 (value_to_arg v)
         else if is_time_attr k' then time_value m1 (value_to_arg v) else auto_conv c m1 (value_to_arg v)) with
  | Done m2 (Some v') => same_value v v' /\ InvU m2
  | Done _ None => False
  | Fail _ _ => False
  | OOD => True
  end.
Proof.
  intros c m1 k' k v I E [S [TQ TT]]. cbn [fst snd] in *.
  rewrite (is_qname_attr_eqb _ _ E), (is_time_attr_eqb _ _ E).
  destruct (is_qname_attr k) eqn:EQ.
  - specialize (TQ eq_refl). destruct v; try contradiction. apply qn_value_stored. exact I.
  - destruct (is_time_attr k) eqn:ET.
    + specialize (TT eq_refl). destruct v; try contradiction. cbn [value_to_arg time_value]. split; [reflexivity | exact I].
    + apply auto_conv_stored; assumption.
Qed.

(* nothing is invented: whatever the loop leaves in the dictionary — also when it stops on an
   exception — was there before or is the image of a supplied pair *)
Theorem loop_sound : forall c ic pairs m d m' d' res,
  InvU m -> (forall p, In p pairs -> good_pair (cft c) p) ->
  add_attrs_loop c ic m d (map sp_arg pairs) = (m', d', res) ->
  forall x v', In v' (attr_get x d') ->
    In v' (attr_get x d) \/ exists p, In p pairs /\ qn_eqb x (fst p) = true /\ same_value (snd p) v'.
Proof.
  intros c ic pairs. induction pairs as [|[k v] pairs IH]; intros m d m' d' res I G H x v' Hin.
  - cbn in H. inversion H; subst. left; exact Hin.
  - cbn [map] in H. unfold sp_arg at 1 in H. cbn [fst snd] in H.
    rewrite add_attrs_loop_cons in H by apply value_to_arg_not_none. unfold loop_body in H.
    pose proof (resolve_o_qn c m k I) as R.
    destruct (resolve_o c m (NQn k)) as [m1 [k'|]|m1 e|]; try contradiction;
      try (inversion H; subst; left; exact Hin).
    destruct R as [U I1]. pose proof (qn_eqb_of_uri _ _ U) as E.
    pose proof (pair_value c m1 k' k v I1 E (G _ (or_introl eq_refl))) as PV.
    destruct (if is_qname_attr k' then qn_value c m1 (value_to_arg v)
              else if is_time_attr k' then time_value m1 (value_to_arg v) else auto_conv c m1 (value_to_arg v))
      as [m2 [v2|]|m2 e2|]; try contradiction; try (inversion H; subst; left; exact Hin).
    destruct PV as [SV I2].
    assert (G' : forall p, In p pairs -> good_pair (cft c) p) by (intros p Hp; apply G; right; exact Hp).
    assert (ADDED : forall m3 d3 r3, add_attrs_loop c ic m2 (attr_add k' v2 d) (map sp_arg pairs) = (m3, d3, r3) ->
              m3 = m' -> d3 = d' -> 
              In v' (attr_get x d) \/ exists p, In p ((k, v) :: pairs) /\ qn_eqb x (fst p) = true /\ same_value (snd p) v').
    { intros m3 d3 r3 H3 -> ->. destruct (IH _ _ _ _ _ I2 G' H3 x v' Hin) as [Hd|[p [Hp [Ex Sp]]]].
      - rewrite attr_get_add in Hd. destruct (qn_eqb x k') eqn:EX.
        + apply in_set_add in Hd. destruct Hd as [Hd|[-> _]].
          * left. rewrite (attr_get_eqb d x k' EX). exact Hd.
          * right. exists (k, v). split; [left; reflexivity|]. split; [|exact SV].
            cbn [fst]. unfold qn_eqb in *. apply String.eqb_eq in EX, E. rewrite EX, E. apply String.eqb_refl.
        + left; exact Hd.
      - right. exists p. split; [right; exact Hp | split; assumption]. }
    assert (KEPT : forall m3 d3 r3, add_attrs_loop c ic m2 d (map sp_arg pairs) = (m3, d3, r3) -> m3 = m' -> d3 = d' ->
              In v' (attr_get x d) \/ exists p, In p ((k, v) :: pairs) /\ qn_eqb x (fst p) = true /\ same_value (snd p) v').
    { intros m3 d3 r3 H3 -> ->. destruct (IH _ _ _ _ _ I2 G' H3 x v' Hin) as [Hd|[p [Hp [Ex Sp]]]].
      - left; exact Hd.
      - right. exists p. split; [right; exact Hp | split; assumption]. }
    destruct ((negb (ic && is_prov_name "entity" k') && is_formal_attr k')%bool).
    + destruct (attr_get k' d) as [|e0 rest0].
      * destruct (add_attrs_loop c ic m2 (attr_add k' v2 d) (map sp_arg pairs)) as [[m3 d3] r3] eqn:H3.
        inversion H; subst. eapply ADDED; eauto.
      * destruct (py_eq v2 e0).
        -- destruct (add_attrs_loop c ic m2 d (map sp_arg pairs)) as [[m3 d3] r3] eqn:H3.
           inversion H; subst. eapply KEPT; eauto.
        -- inversion H; subst. left; exact Hin.
    + destruct (add_attrs_loop c ic m2 (attr_add k' v2 d) (map sp_arg pairs)) as [[m3 d3] r3] eqn:H3.
      inversion H; subst. eapply ADDED; eauto.
Qed.

(* what a dictionary holds is never removed by the loop *)
Lemma loop_keeps : forall c ic l m d m' d' res,
  add_attrs_loop c ic m d l = (m', d', res) -> forall x w, In w (attr_get x d) -> In w (attr_get x d').
Proof.
  intros c ic l. induction l as [|[n a] l IH]; intros m d m' d' res H x w Hw.
  - cbn in H. inversion H; subst. exact Hw.
  - destruct (valarg_is_none a) as [->|NN].
    + rewrite add_attrs_loop_none in H. eapply IH; eauto.
    + rewrite add_attrs_loop_cons in H by exact NN. unfold loop_body in H.
      destruct (resolve_o c m n) as [m1 [attr|]|m1 e|]; try (inversion H; subst; exact Hw).
      destruct (if is_qname_attr attr then qn_value c m1 a
                else if is_time_attr attr then time_value m1 a else auto_conv c m1 a)
        as [m2 [v|]|m2 e2|]; try (inversion H; subst; exact Hw).
      assert (ADD : In w (attr_get x (attr_add attr v d))).
      { rewrite attr_get_add. destruct (qn_eqb x attr) eqn:EX; [|exact Hw].
        apply in_set_add. left. rewrite <- (attr_get_eqb d x attr EX). exact Hw. }
      destruct ((negb (ic && is_prov_name "entity" attr) && is_formal_attr attr)%bool).
      * destruct (attr_get attr d) as [|e0 rest0].
        -- eapply IH; [exact H | exact ADD].
        -- destruct (py_eq v e0); [eapply IH; eauto | inversion H; subst; exact Hw].
      * eapply IH; [exact H | exact ADD].
Qed.

(* nothing is dropped: when the loop ends normally, every supplied pair has its image in the
   dictionary, or an element that is the same Python value (the same element of the set, or — for
   the single-valued formal attributes — an equal value that was there already) *)
Theorem loop_carries : forall c ic pairs m d m' d',
  InvU m -> (forall p, In p pairs -> good_pair (cft c) p) ->
  add_attrs_loop c ic m d (map sp_arg pairs) = (m', d', LDone) ->
  forall p, In p pairs ->
    exists v2 w, same_value (snd p) v2 /\ In w (attr_get (fst p) d') /\
                 (w = v2 \/ set_same v2 w = true \/ py_eq v2 w = true).
Proof.
  intros c ic pairs. induction pairs as [|[k v] pairs IH]; intros m d m' d' I G H p Hp; [contradiction|].
  cbn [map] in H. unfold sp_arg at 1 in H. cbn [fst snd] in H.
  rewrite add_attrs_loop_cons in H by apply value_to_arg_not_none. unfold loop_body in H.
  pose proof (resolve_o_qn c m k I) as R.
  destruct (resolve_o c m (NQn k)) as [m1 [k'|]|m1 e|]; try contradiction; try discriminate.
  destruct R as [U I1]. pose proof (qn_eqb_of_uri _ _ U) as E.
  pose proof (pair_value c m1 k' k v I1 E (G _ (or_introl eq_refl))) as PV.
  destruct (if is_qname_attr k' then qn_value c m1 (value_to_arg v)
            else if is_time_attr k' then time_value m1 (value_to_arg v) else auto_conv c m1 (value_to_arg v))
    as [m2 [v2|]|m2 e2|]; try contradiction; try discriminate.
  destruct PV as [SV I2].
  assert (G' : forall q, In q pairs -> good_pair (cft c) q) by (intros q Hq; apply G; right; exact Hq).
  assert (EK : qn_eqb k k' = true) by (unfold qn_eqb in *; apply String.eqb_eq in E; rewrite E; apply String.eqb_refl).
  (* the head pair, once its value (or an equal one) is in the dictionary, stays there *)
  assert (HEAD_ADDED : forall m3 d3, add_attrs_loop c ic m2 (attr_add k' v2 d) (map sp_arg pairs) = (m3, d3, LDone) ->
            exists w, In w (attr_get k d3) /\ (w = v2 \/ set_same v2 w = true \/ py_eq v2 w = true)).
  { intros m3 d3 H3.
    assert (X : exists w, In w (attr_get k (attr_add k' v2 d)) /\ (w = v2 \/ set_same v2 w = true)).
    { rewrite attr_get_add, EK. destruct (set_mem v2 (attr_get k' d)) eqn:EM.
      - unfold set_mem in EM. apply existsb_exists in EM. destruct EM as [w [Hw Sw]].
        exists w. split; [apply in_set_add; left; exact Hw | right; exact Sw].
      - exists v2. split; [apply in_set_add; right; split; [reflexivity | exact EM] | left; reflexivity]. }
    destruct X as [w [Hw Cw]]. exists w. split; [eapply loop_keeps; eauto|].
    destruct Cw as [->|Cw]; [left; reflexivity | right; left; exact Cw]. }
  destruct Hp as [<-|Hp]; cbn [fst snd].
  - (* the head pair *)
    exists v2.
    destruct ((negb (ic && is_prov_name "entity" k') && is_formal_attr k')%bool).
    + destruct (attr_get k' d) as [|e0 rest0] eqn:EG.
      * destruct (HEAD_ADDED _ _ H) as [w [Hw Cw]]. exists w. split; [exact SV | split; assumption].
      * destruct (py_eq v2 e0) eqn:EP; [|discriminate].
        exists e0. split; [exact SV|]. split.
        -- eapply loop_keeps; [exact H|]. rewrite (attr_get_eqb d k k' EK), EG. left; reflexivity.
        -- right; right; exact EP.
    + destruct (HEAD_ADDED _ _ H) as [w [Hw Cw]]. exists w. split; [exact SV | split; assumption].
  - (* a later pair *)
    destruct ((negb (ic && is_prov_name "entity" k') && is_formal_attr k')%bool).
    + destruct (attr_get k' d) as [|e0 rest0].
      * exact (IH _ _ _ _ I2 G' H p Hp).
      * destruct (py_eq v2 e0); [exact (IH _ _ _ _ I2 G' H p Hp) | discriminate].
    + exact (IH _ _ _ _ I2 G' H p Hp).
Qed.

(* ---- record level: a record rebuilt from all its (name, value) pairs — ProvRecord.copy(), the
   first step of merging in unified(), and each further member of a group added to the merged record *)
Lemma all_attr_args_sp : forall r, all_attr_args r = map sp_arg (attributes r).
Proof. reflexivity. Qed.

Theorem readd_all_conserves : forall c m r r0 m' r',
  InvU m -> (forall p, In p (attributes r0) -> good_pair (cft c) p) ->
  add_attributes c m r (all_attr_args r0) = ADone m' r' ->
  rkind r' = rkind r /\ rid r' = rid r /\
  (* nothing invented *)
  (forall x v', In v' (attr_get x (rattrs r')) ->
     In v' (attr_get x (rattrs r)) \/
     exists p, In p (attributes r0) /\ qn_eqb x (fst p) = true /\ same_value (snd p) v') /\
  (* nothing dropped *)
  (forall x w, In w (attr_get x (rattrs r)) -> In w (attr_get x (rattrs r'))) /\
  (forall p, In p (attributes r0) ->
     exists v2 w, same_value (snd p) v2 /\ In w (attr_get (fst p) (rattrs r')) /\
                  (w = v2 \/ set_same v2 w = true \/ py_eq v2 w = true)).
Proof.
  intros c m r r0 m' r' I G H. unfold add_attributes in H. rewrite all_attr_args_sp in *.
  destruct (map sp_arg (attributes r0)) as [|x l] eqn:EL.
  - injection H as <- <-. destruct (attributes r0); [|discriminate].
    repeat split; try reflexivity; try (intros; auto); contradiction.
  - rewrite <- EL in H.
    destruct (add_attrs_loop c (names_collection (map sp_arg (attributes r0))) m (rattrs r) (map sp_arg (attributes r0)))
      as [[m1 d1] res] eqn:EA.
    destruct res; try discriminate. injection H as <- <-. cbn [rkind rid rattrs].
    split; [reflexivity|]. split; [reflexivity|]. split; [|split].
    + exact (loop_sound _ _ _ _ _ _ _ _ I G EA).
    + exact (loop_keeps _ _ _ _ _ _ _ _ EA).
    + exact (loop_carries _ _ _ _ _ _ _ I G EA).
Qed.

(* non-vacuity: a record with a reference, a time, an int, a qualified-name value and a kept literal *)
Example good_pairs_example :
  let exq l := mkQn (mkNs "ex" "http://e/") l in
  let r0 := mkRec "Generation" (Some (exq "g"))
              [(prov_qn "entity", [VQn (exq "e")]); (prov_qn "time", [VTime (mkDt 2012 3 31 9 21 0 0 None)]);
               (exq "k", [VInt 5%Z; VQn (exq "v"); VLit "abc" (Some (xsd_qn "dateTime")) None])] in
  forall p, In p (attributes r0) -> good_pair [] p.
Proof.
  cbv zeta. intros p Hp. cbn in Hp.
  repeat (destruct Hp as [<-|Hp]; [split; [vm_compute; auto | split; vm_compute; intro X; try discriminate X; exact Logic.I]|]).
  contradiction.
Qed.

(* ---- the attribute half of unified(): the merged record of a group holds the images of the
   attribute values of every member and nothing else *)
Definition good_rec (ft : ftable) (r : prec) : Prop := forall p, In p (attributes r) -> good_pair ft p.

Lemma add_attributes_InvU_done : forall c m r l m' r', InvU m -> add_attributes c m r l = ADone m' r' -> InvU m'.
Proof.
  intros c m r l m' r' I H. pose proof (add_attributes_InvU c m r l I) as X. rewrite H in X. exact X.
Qed.

Theorem merge_group_conserves : forall c rs m acc m' r',
  InvU m -> (forall r, In r rs -> good_rec (cft c) r) ->
  merge_group c m acc rs = Done m' r' ->
  rkind r' = rkind acc /\ rid r' = rid acc /\ InvU m' /\
  (forall x v', In v' (attr_get x (rattrs r')) ->
     In v' (attr_get x (rattrs acc)) \/
     exists r p, In r rs /\ In p (attributes r) /\ qn_eqb x (fst p) = true /\ same_value (snd p) v') /\
  (forall x w, In w (attr_get x (rattrs acc)) -> In w (attr_get x (rattrs r'))) /\
  (forall r p, In r rs -> In p (attributes r) ->
     exists v2 w, same_value (snd p) v2 /\ In w (attr_get (fst p) (rattrs r')) /\
                  (w = v2 \/ set_same v2 w = true \/ py_eq v2 w = true)).
Proof.
  intros c rs. induction rs as [|r rest IH]; intros m acc m' r' I G H; cbn [merge_group] in H.
  - inversion H; subst. split; [reflexivity|]. split; [reflexivity|]. split; [exact I|]. split; [|split].
    + intros x v' Hv. left; exact Hv.
    + intros x w Hw. exact Hw.
    + intros r p [].
  - destruct (add_attributes c m acc (all_attr_args r)) as [m1 acc1| |] eqn:EA; try discriminate.
    pose proof (add_attributes_InvU_done _ _ _ _ _ _ I EA) as I1.
    destruct (readd_all_conserves c m acc r m1 acc1 I (G r (or_introl eq_refl)) EA) as [K1 [D1 [S1 [P1 C1]]]].
    destruct (IH m1 acc1 m' r' I1 (fun q Hq => G q (or_intror Hq)) H) as [K2 [D2 [I2 [S2 [P2 C2]]]]].
    split; [congruence|]. split; [congruence|]. split; [exact I2|]. split; [|split].
    + intros x v' Hv. destruct (S2 x v' Hv) as [Ha|[q [p [Hq [Hp [Ex Sp]]]]]].
      * destruct (S1 x v' Ha) as [Hb|[p [Hp [Ex Sp]]]]; [left; exact Hb|].
        right. exists r, p. split; [left; reflexivity | split; [exact Hp | split; assumption]].
      * right. exists q, p. split; [right; exact Hq | split; [exact Hp | split; assumption]].
    + intros x w Hw. apply P2. apply P1. exact Hw.
    + intros q p [<-|Hq] Hp.
      * destruct (C1 p Hp) as [v2 [w [Sv [Hw Cw]]]]. exists v2, w. split; [exact Sv|]. split; [apply P2; exact Hw | exact Cw].
      * exact (C2 q p Hq Hp).
Qed.

(* ---- unified(): every record of the result is a record of the source as it was, or the merge of its
   group: the images of the attribute values of the group's first record and of the other members *)
From Prov Require Import UnifyProofs.

Definition merged_of (r : prec) (others : list prec) (o : prec) : Prop :=
  rkind o = rkind r /\ rid o = rid r /\
  (forall x v', In v' (attr_get x (rattrs o)) ->
     exists q p, In q (r :: others) /\ In p (attributes q) /\ qn_eqb x (fst p) = true /\ same_value (snd p) v') /\
  (forall q p, In q (r :: others) -> In p (attributes q) ->
     exists v2 w, same_value (snd p) v2 /\ In w (attr_get (fst p) (rattrs o)) /\
                  (w = v2 \/ set_same v2 w = true \/ py_eq v2 w = true)).

Lemma walk_attrs : forall fuel c m all pre todo seen m' l,
  all = (pre ++ todo)%list -> length todo < fuel -> InvU m ->
  (forall r, In r all -> good_rec (cft c) r) ->
  unify_walk fuel c m all todo seen = Done m' l ->
  Forall2 (fun r o => o = r \/ merged_of r (tl (filter (same_group r) all)) o) (firsts todo seen) l.
Proof.
  induction fuel as [|f IH]; intros c m all pre todo seen m' l A L I G H; [inversion L|].
  destruct todo as [|r rest]; cbn [unify_walk] in H.
  - inversion H; subst. constructor.
  - assert (L' : length rest < f) by (cbn in L; Lia.lia).
    assert (A' : all = ((pre ++ [r]) ++ rest)%list) by (rewrite <- app_assoc; exact A).
    cbn [firsts]. destruct (rid r) as [q|] eqn:ER.
    + destruct (existsb (same_group r) seen) eqn:ES.
      * exact (IH _ _ _ _ _ _ _ _ A' L' I G H).
      * assert (SINGLE : length (filter (same_group r) all) <= 1 ->
                forall m1 l1, unify_walk f c m all rest seen = Done m1 l1 ->
                Forall2 (fun r0 o => o = r0 \/ merged_of r0 (tl (filter (same_group r0) all)) o)
                        (r :: firsts rest (r :: seen)) (r :: l1)).
        { intros LE m1 l1 EW. constructor; [left; reflexivity|].
          replace (firsts rest (r :: seen)) with (firsts rest seen); [exact (IH _ _ _ _ _ _ _ _ A' L' I G EW)|].
          apply firsts_seen_ext. intros x Hx. cbn [existsb].
          destruct (same_group x r) eqn:E; [|reflexivity]. exfalso.
          pose proof (filter_two (same_group r) pre r rest x (same_group_refl r q ER) Hx) as T.
          rewrite same_group_sym in E. specialize (T E). rewrite <- A in T. Lia.lia. }
        destruct (filter (same_group r) all) as [|g0 [|g1 grest]] eqn:EG; cbv iota beta in H.
        -- destruct (unify_walk f c m all rest seen) as [m1 l1| |] eqn:EW; cbv iota beta in H; try discriminate.
           inversion H; subst. apply (SINGLE (Nat.le_0_l 1) _ _ eq_refl).
        -- destruct (unify_walk f c m all rest seen) as [m1 l1| |] eqn:EW; cbv iota beta in H; try discriminate.
           inversion H; subst. apply (SINGLE (le_n 1) _ _ eq_refl).
        -- destruct (add_attributes c m (mkRec (rkind r) (Some q) []) (all_attr_args r)) as [m1 cp| |] eqn:EA;
             cbv iota beta in H; try discriminate.
           destruct (merge_group c m1 cp (tl (g0 :: g1 :: grest))) as [m2 merged| |] eqn:EM; cbv iota beta in H; try discriminate.
           destruct (unify_walk f c m2 all rest (r :: seen)) as [m3 l3| |] eqn:EW; cbv iota beta in H; try discriminate.
           assert (Rall : In r all) by (rewrite A; apply in_or_app; right; left; reflexivity).
           pose proof (add_attributes_InvU_done _ _ _ _ _ _ I EA) as I1.
           destruct (readd_all_conserves c m _ r m1 cp I (G r Rall) EA) as [K1 [D1 [S1 [_ C1]]]].
           assert (GT : forall x, In x (tl (g0 :: g1 :: grest)) -> good_rec (cft c) x).
           { intros x Hx. apply G. assert (In x (filter (same_group r) all)) by (rewrite EG; right; exact Hx).
             apply filter_In in H0. tauto. }
           destruct (merge_group_conserves c _ m1 cp m2 merged I1 GT EM) as [K2 [D2 [I2 [S2 [P2 C2]]]]].
           inversion H; subst. constructor; [|exact (IH _ _ _ _ _ _ _ _ A' L' I2 G EW)].
           right. rewrite EG. cbn [rkind rid rattrs] in *. split; [congruence|]. split; [congruence|]. split.
           ++ intros x v' Hv. destruct (S2 x v' Hv) as [Ha|[g [p [Hg [Hp [Ex Sp]]]]]].
              ** destruct (S1 x v' Ha) as [Hb|[p [Hp [Ex Sp]]]]; [cbn in Hb; contradiction|].
                 exists r, p. split; [left; reflexivity | split; [exact Hp | split; assumption]].
              ** exists g, p. split; [right; exact Hg | split; [exact Hp | split; assumption]].
           ++ intros g p [<-|Hg] Hp.
              ** destruct (C1 p Hp) as [v2 [w [Sv [Hw Cw]]]]. exists v2, w. split; [exact Sv|]. split; [apply P2; exact Hw | exact Cw].
              ** exact (C2 g p Hg Hp).
    + destruct (unify_walk f c m all rest seen) as [m1 l1| |] eqn:EW; cbv iota beta in H; try discriminate.
      inversion H; subst. constructor; [left; reflexivity | exact (IH _ _ _ _ _ _ _ _ A' L' I G EW)].
Qed.

Theorem unified_attributes : forall ft b u,
  (forall r, In r (brecs b) -> good_rec ft r) ->
  unified_records ft b = OK u ->
  Forall2 (fun r o => o = r \/ merged_of r (tl (filter (same_group r) (brecs b))) o) (fst (first_fold (brecs b))) u.
Proof.
  intros ft b u G H. unfold unified_records in H.
  destruct (unify_walk (S (length (brecs b))) (mkCtx (Some (bns b)) ft) nsm_init (brecs b) (brecs b) []) as [m' l| |] eqn:E;
    try discriminate.
  injection H as <-. unfold first_fold. rewrite fold_firsts. cbn [app].
  exact (walk_attrs _ (mkCtx (Some (bns b)) ft) _ (brecs b) [] _ _ _ _ eq_refl (Nat.lt_succ_diag_r _) InvU_init G E).
Qed.

(* ---- add_record (flattened, update, add_bundle of a document, the constructor's records argument):
   new_record on the record's formal arguments (None for the missing ones) followed by its other attributes *)
Definition is_none_arg (a : valarg) : bool := match a with ANone => true | _ => false end.

Lemma loop_skip_none : forall c ic l m d,
  add_attrs_loop c ic m d l = add_attrs_loop c ic m d (filter (fun na => negb (is_none_arg (snd na))) l).
Proof.
  intros c ic l. induction l as [|[n a] l IH]; intros m d; [reflexivity|].
  destruct (valarg_is_none a) as [->|NN].
  - rewrite add_attrs_loop_none. cbn [filter snd is_none_arg negb]. apply IH.
  - assert (F : negb (is_none_arg a) = true) by (destruct a; try reflexivity; contradiction).
    cbn [filter snd]. rewrite F. rewrite !add_attrs_loop_cons by exact NN. unfold loop_body.
    destruct (resolve_o c m n) as [m1 [attr|]|m1 e|]; try reflexivity.
    destruct (if is_qname_attr attr then qn_value c m1 a else if is_time_attr attr then time_value m1 a else auto_conv c m1 a)
      as [m2 [v|]|m2 e2|]; try reflexivity.
    destruct ((negb (ic && is_prov_name "entity" attr) && is_formal_attr attr)%bool).
    + destruct (attr_get attr d); [apply IH|]. destruct (py_eq v v0); [apply IH | reflexivity].
    + apply IH.
Qed.

Definition formal_pairs (r : prec) : list (qname * value) :=
  flat_map (fun l => match hd_opt (attr_get (prov_qn l) (rattrs r)) with
                     | Some v => [(prov_qn l, v)]
                     | None => []
                     end) (formal_attrs (rkind r)).
Definition extra_pairs (r : prec) : list (qname * value) :=
  flat_map (fun kv => if is_formal_of (rkind r) (fst kv) then [] else map (fun v => (fst kv, v)) (snd kv)) (rattrs r).
Definition record_pairs (r : prec) : list (qname * value) := (formal_pairs r ++ extra_pairs r)%list.

Lemma record_args_pairs : forall r,
  filter (fun na => negb (is_none_arg (snd na))) (formal_attr_args r ++ extra_attr_args r)%list
  = map sp_arg (record_pairs r).
Proof.
  intros r. unfold record_pairs. rewrite filter_app, map_app. f_equal.
  - unfold formal_attr_args, formal_pairs. induction (formal_attrs (rkind r)) as [|l ls IH]; [reflexivity|].
    cbn [map filter flat_map snd]. destruct (hd_opt (attr_get (prov_qn l) (rattrs r))) as [v|].
    + assert (F : negb (is_none_arg (value_to_arg v)) = true) by (destruct v; reflexivity).
      rewrite F. cbn [app map]. rewrite IH. reflexivity.
    + cbn [is_none_arg negb app]. exact IH.
  - unfold extra_attr_args, extra_pairs. induction (rattrs r) as [|[k vs] d IH]; [reflexivity|].
    cbn [flat_map fst snd]. rewrite filter_app, map_app, IH. f_equal.
    destruct (is_formal_of (rkind r) k); [reflexivity|].
    induction vs as [|v vs IHv]; [reflexivity|]. cbn [map filter snd].
    assert (F : negb (is_none_arg (value_to_arg v)) = true) by (destruct v; reflexivity).
    rewrite F. cbn [map sp_arg fst snd]. unfold sp_arg at 1. cbn [fst snd]. f_equal. exact IHv.
Qed.

(* the pairs handed over are values the source record holds under those names *)
Lemma record_pairs_held : forall r p, In p (record_pairs r) -> In (snd p) (attr_get (fst p) (rattrs r)) \/
  exists k vs, In (k, vs) (rattrs r) /\ fst p = k /\ In (snd p) vs.
Proof.
  intros r p H. unfold record_pairs in H. apply in_app_or in H. destruct H as [H|H].
  - left. unfold formal_pairs in H. apply in_flat_map in H. destruct H as [l [_ H]].
    destruct (attr_get (prov_qn l) (rattrs r)) as [|v vs] eqn:E; cbn [hd_opt] in H; [contradiction|].
    destruct H as [<-|[]]. cbn [fst snd]. rewrite E. left; reflexivity.
  - right. unfold extra_pairs in H. apply in_flat_map in H. destruct H as [[k vs] [Hk H]]. cbn [fst snd] in H.
    destruct (is_formal_of (rkind r) k); [contradiction|]. apply in_map_iff in H. destruct H as [v [<- Hv]].
    exists k, vs. split; [exact Hk | split; [reflexivity | exact Hv]].
Qed.

Lemma add_attributes_done_loop : forall c m r l m' r',
  add_attributes c m r l = ADone m' r' ->
  (l = [] /\ m' = m /\ r' = r) \/
  exists d, add_attrs_loop c (names_collection l) m (rattrs r) l = (m', d, LDone) /\ r' = mkRec (rkind r) (rid r) d.
Proof.
  intros c m r l m' r' H. unfold add_attributes in H. destruct l as [|x l].
  - left. inversion H; subst. repeat split.
  - right. destruct (add_attrs_loop c (names_collection (x :: l)) m (rattrs r) (x :: l)) as [[m1 d] res].
    destruct res; try discriminate. inversion H; subst. exists d. split; reflexivity.
Qed.

Theorem add_record_conserves : forall par ft b r0 b' r,
  InvU (bns b) -> (forall p, In p (record_pairs r0) -> good_pair ft p) ->
  add_record par ft b r0 = (b', OK r) ->
  (forall x v', In v' (attr_get x (rattrs r)) ->
     exists p, In p (record_pairs r0) /\ qn_eqb x (fst p) = true /\ same_value (snd p) v') /\
  (forall p, In p (record_pairs r0) ->
     exists v2 w, same_value (snd p) v2 /\ In w (attr_get (fst p) (rattrs r)) /\
                  (w = v2 \/ set_same v2 w = true \/ py_eq v2 w = true)).
Proof.
  intros par ft b r0 b' r I G H. unfold add_record in H.
  destruct (negb (formal_single r0)); [discriminate|]. unfold new_record in H.
  set (c := mkCtx par ft) in *.
  assert (IDRES : forall idres, idres = match option_map NQn (rid r0) with
                                        | None => Done (bns b) None
                                        | Some x => resolve_o c (bns b) x end ->
            match idres with Done m1 _ => InvU m1 | _ => True end).
  { intros idres ->. destruct (rid r0) as [q|]; cbn [option_map]; [|exact I].
    pose proof (resolve_o_qn c (bns b) q I) as R. destruct (resolve_o c (bns b) (NQn q)) as [m1 [q'|]| |]; try exact Logic.I; tauto. }
  destruct (match option_map NQn (rid r0) with
            | None => Done (bns b) None
            | Some x => resolve_o c (bns b) x end) as [m1 idq|m1 e|] eqn:EI; try discriminate.
  specialize (IDRES _ eq_refl). cbv iota beta in IDRES.
  unfold new_prec in H.
  destruct ((is_element (rkind r0) && match idq with None => true | Some _ => false end)%bool); [discriminate|].
  destruct (add_attributes c m1 (mkRec (rkind r0) idq []) (formal_attr_args r0 ++ extra_attr_args r0)%list) as [m2 rr| |] eqn:EA; try discriminate.
  inversion H; subst. clear H.
  destruct (add_attributes_done_loop _ _ _ _ _ _ EA) as [[EL [-> ->]]|[d [ELoop ->]]]; cbn [rattrs].
  - split; [intros x v' []|]. intros p Hp. exfalso.
    pose proof (record_args_pairs r0) as RP. rewrite EL in RP. cbn in RP.
    destruct (record_pairs r0); [contradiction | discriminate].
  - rewrite loop_skip_none in ELoop. rewrite (record_args_pairs r0) in ELoop. cbn [rattrs] in ELoop.
    split.
    + intros x v' Hv. destruct (loop_sound c _ _ _ _ _ _ _ IDRES G ELoop x v' Hv) as [[]|X]. exact X.
    + exact (loop_carries c _ _ _ _ _ _ IDRES G ELoop).
Qed.

(* ---- lists of records: flattened(), update(), the constructor's records argument *)
Definition image_of (ft : ftable) (r0 r : prec) : Prop :=
  rkind r = rkind r0 /\ option_map qn_uri (rid r) = option_map qn_uri (rid r0) /\
  (forall x v', In v' (attr_get x (rattrs r)) ->
     exists p, In p (record_pairs r0) /\ qn_eqb x (fst p) = true /\ same_value (snd p) v') /\
  (forall p, In p (record_pairs r0) ->
     exists v2 w, same_value (snd p) v2 /\ In w (attr_get (fst p) (rattrs r)) /\
                  (w = v2 \/ set_same v2 w = true \/ py_eq v2 w = true)).

Lemma add_record_anon : forall par ft b r0 b' r,
  InvU (bns b) -> rid r0 = None -> add_record par ft b r0 = (b', OK r) ->
  rkind r = rkind r0 /\ rid r = None /\ brecs b' = (brecs b ++ [r])%list /\ InvU (bns b').
Proof.
  intros par ft b r0 b' r I E H. unfold add_record in H.
  destruct (negb (formal_single r0)); [inversion H|]. rewrite E in H. cbn [option_map] in H.
  unfold new_record in H. unfold new_prec in H.
  destruct ((is_element (rkind r0) && true)%bool); [discriminate|].
  pose proof (add_attributes_InvU (mkCtx par ft) (bns b) (mkRec (rkind r0) None [])
                (formal_attr_args r0 ++ extra_attr_args r0)%list I) as IA.
  destruct (add_attributes (mkCtx par ft) (bns b) (mkRec (rkind r0) None []) (formal_attr_args r0 ++ extra_attr_args r0)%list)
    as [m2 r2|m2 r2 e|] eqn:EA; inversion H; subst.
  destruct (add_attributes_key _ _ _ _ _ _ EA) as [K D]. cbn [rkind rid] in K, D.
  split; [exact K|]. split; [exact D|]. unfold add_rec_to, with_ns. rewrite D. cbn [brecs bns]. split; [reflexivity | exact IA].
Qed.

Theorem add_record_image : forall par ft b r0 b' r,
  InvU (bns b) -> (forall p, In p (record_pairs r0) -> good_pair ft p) ->
  add_record par ft b r0 = (b', OK r) ->
  image_of ft r0 r /\ brecs b' = (brecs b ++ [r])%list /\ InvU (bns b').
Proof.
  intros par ft b r0 b' r I G H.
  destruct (add_record_conserves par ft b r0 b' r I G H) as [S C].
  destruct (rid r0) as [q|] eqn:E.
  - destruct (add_record_spec par ft b r0 q b' r I E H) as [K [U [A I']]].
    split; [|split; assumption]. unfold image_of. rewrite E, U. cbn [option_map]. repeat split; assumption.
  - destruct (add_record_anon par ft b r0 b' r I E H) as [K [U [A I']]].
    split; [|split; assumption]. unfold image_of. rewrite E, U. cbn [option_map]. repeat split; assumption.
Qed.

Theorem add_records_images : forall par ft rs b b',
  InvU (bns b) -> (forall r0, In r0 rs -> forall p, In p (record_pairs r0) -> good_pair ft p) ->
  add_records par ft b rs = (b', OK tt) ->
  exists rs', brecs b' = (brecs b ++ rs')%list /\ Forall2 (image_of ft) rs rs' /\ InvU (bns b').
Proof.
  induction rs as [|r0 rs IH]; intros b b' I G H; cbn [add_records] in H.
  - inversion H; subst. exists []. rewrite app_nil_r. split; [reflexivity|]. split; [apply Forall2_nil | exact I].
  - destruct (add_record par ft b r0) as [b1 [r|e|]] eqn:E; try discriminate.
    destruct (add_record_image par ft b r0 b1 r I (G r0 (or_introl eq_refl)) E) as [IM [A I1]].
    destruct (IH b1 b' I1 (fun x Hx => G x (or_intror Hx)) H) as [rs' [A' [F I']]].
    exists (r :: rs'). split; [rewrite A', A, <- app_assoc; reflexivity|]. split; [constructor; assumption | exact I'].
Qed.

(* ---- flattened(): the records of the result are, in order, the images of the document's own records
   followed by the records of its bundles *)
From Prov Require Import Interp InterpProofs.

Theorem flattened_images : forall w d dd h,
  get_doc w d = Some dd -> dbundles dd <> [] ->
  (forall r0, In r0 (brecs (dmain dd) ++ flat_map (fun kb => brecs (snd kb)) (dbundles dd))%list ->
     forall p, In p (record_pairs r0) -> good_pair (wft w) p) ->
  snd (step w (OFlattened d)) = RHandle h ->
  exists nd, get_doc (fst (step w (OFlattened d))) h = Some nd /\ dbundles nd = [] /\
    Forall2 (image_of (wft w))
            (brecs (dmain dd) ++ flat_map (fun kb => brecs (snd kb)) (dbundles dd))%list
            (brecs (dmain nd)).
Proof.
  intros w d dd h G NE GOOD. cbn [step]. rewrite G.
  destruct (dbundles dd) as [|b0 bs] eqn:EB; [contradiction|].
  destruct (add_records None (wft w) (bundle_init None) _) as [nb [[]|e|]] eqn:EA; cbn [fst snd]; intros H;
    try discriminate.
  inversion H; subst. exists (mkD nb []). split; [|split; [reflexivity|]].
  - unfold get_doc; cbn [wdocs]. rewrite nth_error_app2 by Lia.lia. rewrite Nat.sub_diag. reflexivity.
  - destruct (add_records_images None (wft w) _ (bundle_init None) nb InvU_init GOOD EA) as [rs' [A [F _]]].
    cbn [dmain brecs bundle_init app] in *. rewrite A. exact F.
Qed.
