(* TablesOK.v — the tables generated from /repo satisfy the interface the generic
   proofs assume.  Every fact here is decided by computation over the finite
   generated tables (the whole domain), lifted through a reflection lemma; a
   renamed key, swapped pair or dropped entry in /repo breaks this file. *)
From Coq Require Import String List Bool.
From Prov Require Import Str StrProofs Tables.
Import ListNotations.
Open Scope string_scope.

Fixpoint nodupb (l : list string) : bool :=
  match l with
  | [] => true
  | x :: r => negb (existsb (String.eqb x) r) && nodupb r
  end.

Lemma nodupb_NoDup : forall l, nodupb l = true -> NoDup l.
Proof.
  induction l as [|x r IH]; simpl; intros H; [constructor|].
  apply andb_true_iff in H. destruct H as [H1 H2]. constructor; [|apply IH; exact H2].
  intro Hin. apply negb_true_iff in H1.
  assert (E : existsb (String.eqb x) r = true).
  { apply existsb_exists. exists x. split; [exact Hin | apply String.eqb_refl]. }
  congruence.
Qed.

Lemma default_ns_nodup : NoDup (map fst default_namespaces).
Proof. apply nodupb_NoDup. vm_compute. reflexivity. Qed.

Lemma default_ns_nonempty : forallb (fun pu => negb (String.eqb (fst pu) "")) default_namespaces = true.
Proof. vm_compute. reflexivity. Qed.

(* the three built-ins the rest of the model refers to by name are present *)
Lemma default_ns_prov : lookup "prov" default_namespaces = Some prov_uri.
Proof. vm_compute. reflexivity. Qed.
Lemma default_ns_xsd : lookup "xsd" default_namespaces = Some xsd_uri.
Proof. vm_compute. reflexivity. Qed.

(* reference-valued and time-valued formal attribute names are disjoint *)
Lemma attr_tables_disjoint :
  forallb (fun l => negb (existsb (String.eqb l) attribute_literals)) attribute_qnames = true.
Proof. vm_compute. reflexivity. Qed.

(* ---- the generated class tables agree with the hand-written W3C tables ---- *)
From Prov Require Import Spec.

Definition list_str_eqb (a b : list string) : bool :=
  Nat.eqb (length a) (length b) && forallb (fun p => String.eqb (fst p) (snd p)) (combine a b).

Definition kind_entry_eqb (a b : string * string * list string * bool) : bool :=
  let '(k1, n1, f1, e1) := a in let '(k2, n2, f2, e2) := b in
  String.eqb k1 k2 && String.eqb n1 n2 && list_str_eqb f1 f2 && Bool.eqb e1 e2.

(* every generated record class is the spec's, with the same PROV-N/JSON name, the
   same formal arguments in the same order, and the same element/relation status;
   and no spec kind is missing *)
Lemma rec_classes_agree_with_spec :
  forallb (fun g => existsb (kind_entry_eqb g) spec_kinds) rec_classes = true /\
  forallb (fun s => existsb (kind_entry_eqb s) rec_classes) spec_kinds = true /\
  length rec_classes = length spec_kinds.
Proof. vm_compute. repeat split. Qed.

Lemma uris_agree_with_spec : prov_uri = spec_prov_uri /\ xsd_uri = spec_xsd_uri.
Proof. split; reflexivity. Qed.

(* PROV-JSON keys of formal attributes are prov:<argument name> *)
Lemma json_attribute_keys :
  forallb (fun kv => String.eqb (fst kv) ("prov:" ++ snd kv)) attributes_id_map = true /\
  forallb (fun k => existsb (fun kv => String.eqb (snd kv) k) attributes_id_map)
          (flat_map (fun e => snd (fst e)) spec_kinds) = true.
Proof. vm_compute. split; reflexivity. Qed.

(* record-kind keys used by the reader *)
Lemma json_record_keys :
  forallb (fun e => match lookup (snd (fst (fst e))) record_ids_map with
                    | Some k => String.eqb k (fst (fst (fst e)))
                    | None => false end) spec_kinds = true.
Proof. vm_compute. reflexivity. Qed.

(* time-valued formal attributes *)
Lemma time_attrs_agree :
  list_str_eqb attribute_literals ["endTime"; "startTime"; "time"] = true /\
  forallb (fun t => existsb (String.eqb t) attribute_literals) spec_time_args = true.
Proof. vm_compute. split; reflexivity. Qed.

(* subtype names *)
Lemma subtypes_agree :
  forallb (fun s => let '(n, ty, base) := s in
             match lookup ty prov_base_cls with
             | Some b => String.eqb b base
             | None => false end &&
             match lookup ty (additional_n_map ++ [("Bundle", "bundle")]) with
             | Some nm => String.eqb nm n
             | None => false end) spec_subtypes = true.
Proof. vm_compute. reflexivity. Qed.
