(* TablesOK.v — the tables generated from /repo satisfy the interface the generic
   proofs assume.  Every fact here is decided by computation over the finite
   generated tables (the whole domain), lifted through a reflection lemma; a
   renamed key, swapped pair or dropped entry in /repo breaks this file. *)
From Coq Require Import String List Bool.
From Prov Require Import Str StrProofs Tables.
Import ListNotations.
Open Scope string_scope.

Fixpoint nodupb (l : list string) : bool :=
  match l with
  | [] => true
  | x :: r => negb (existsb (String.eqb x) r) && nodupb r
  end.

Lemma nodupb_NoDup : forall l, nodupb l = true -> NoDup l.
Proof.
  induction l as [|x r IH]; simpl; intros H; [constructor|].
  apply andb_true_iff in H. destruct H as [H1 H2]. constructor; [|apply IH; exact H2].
  intro Hin. apply negb_true_iff in H1.
  assert (E : existsb (String.eqb x) r = true).
  { apply existsb_exists. exists x. split; [exact Hin | apply String.eqb_refl]. }
  congruence.
Qed.

Lemma default_ns_nodup : NoDup (map fst default_namespaces).
Proof. apply nodupb_NoDup. vm_compute. reflexivity. Qed.

Lemma default_ns_nonempty : forallb (fun pu => negb (String.eqb (fst pu) "")) default_namespaces = true.
Proof. vm_compute. reflexivity. Qed.

(* the three built-ins the rest of the model refers to by name are present *)
Lemma default_ns_prov : lookup "prov" default_namespaces = Some prov_uri.
Proof. vm_compute. reflexivity. Qed.
Lemma default_ns_xsd : lookup "xsd" default_namespaces = Some xsd_uri.
Proof. vm_compute. reflexivity. Qed.

(* reference-valued and time-valued formal attribute names are disjoint *)
Lemma attr_tables_disjoint :
  forallb (fun l => negb (existsb (String.eqb l) attribute_literals)) attribute_qnames = true.
Proof. vm_compute. reflexivity. Qed.
