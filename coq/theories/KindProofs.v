(* KindProofs.v — the kinds of the records the PROV-JSON reader builds: each is the kind its record-map key stands for (never
   Bundle), a multi-entity membership expands into Membership records; threaded through new_record, the factory call and the
   whole reader for an arbitrary predicate on kinds.  Instantiated: every record of a loaded document has a kind whose PROV-N
   name is a key of the record maps that stands for that kind again — the first two conjuncts of rec_ok. *)
From Coq Require Import String List Arith ZArith Bool.
From Prov Require Import Str StrProofs Sexp Tables Nsm NsmProofs Values Record RecordProofs World WorldProofs Derive Jtree Json ShapeProofs.
Import ListNotations.
Open Scope string_scope.

Lemma add_attributes_kind : forall c m r l,
  match add_attributes c m r l with
  | ADone _ r' => rkind r' = rkind r
  | AFail _ r' _ => rkind r' = rkind r
  | AOOD => True
  end.
Proof.
  intros c m r l. unfold add_attributes. destruct l as [|x l]; [reflexivity|].
  destruct (add_attrs_loop c (names_collection (x :: l)) m (rattrs r) (x :: l)) as [[m' d'] res].
  destruct res; reflexivity || exact I.
Qed.

Section Thread.
  Variable P : string -> Prop.
  Definition BKind (b : bundle) : Prop := Forall (fun r => P (rkind r)) (brecs b).
  Definition DKind (dd : doc) : Prop := BKind (dmain dd) /\ Forall (fun kb => BKind (snd kb)) (dbundles dd).

  Lemma new_record_BKind : forall par ft b k i attrs b' x,
    P k -> BKind b -> new_record par ft b k i attrs = (b', x) -> BKind b'.
  Proof.
    intros par ft b k i attrs b' x Pk G H. unfold new_record in H.
    destruct (match i with None => Done (bns b) None | Some y => resolve_o (mkCtx par ft) (bns b) y end) as [m1 idq|m1 e|];
      try (inversion H; subst; exact G).
    unfold new_prec in H.
    destruct ((is_element k && match idq with None => true | Some _ => false end)%bool).
    - inversion H; subst. exact G.
    - pose proof (add_attributes_kind (mkCtx par ft) m1 (mkRec k idq []) attrs) as K.
      destruct (add_attributes (mkCtx par ft) m1 (mkRec k idq []) attrs) as [m2 r2|m2 r2 e|]; inversion H; subst; try exact G.
      unfold BKind, add_rec_to, with_ns. cbn [brecs]. apply Forall_app. split; [exact G|].
      constructor; [|constructor]. rewrite K. exact Pk.
  Qed.

  Lemma new_record_ok_kind : forall par ft b k i attrs b' r,
    new_record par ft b k i attrs = (b', OK r) -> rkind r = k.
  Proof.
    intros par ft b k i attrs b' r H. unfold new_record in H.
    destruct (match i with None => Done (bns b) None | Some y => resolve_o (mkCtx par ft) (bns b) y end) as [m1 idq|m1 e|];
      try discriminate.
    unfold new_prec in H.
    destruct ((is_element k && match idq with None => true | Some _ => false end)%bool); [discriminate|].
    pose proof (add_attributes_kind (mkCtx par ft) m1 (mkRec k idq []) attrs) as K.
    destruct (add_attributes (mkCtx par ft) m1 (mkRec k idq []) attrs) as [m2 r2|m2 r2 e|]; inversion H; subst. exact K.
  Qed.

  Lemma factory_call_BKind : forall par ft b f i args other b' x,
    (forall e, factory_entry f = Some e -> P (snd (fst (fst e)))) ->
    BKind b -> factory_call par ft b f i args other = (b', x) -> BKind b'.
  Proof.
    intros par ft b f i args other b' x HP G H. unfold factory_call in H.
    destruct (factory_entry f) as [[[[f0 k] params] asserted]|] eqn:EF; [|inversion H; subst; exact G].
    assert (Pk : P k) by (exact (HP _ eq_refl)).
    destruct (factory_args (bns b) params args) as [m0 fa|m0 e|]; try (inversion H; subst; exact G).
    destruct (new_record par ft b k i (fa ++ other)%list) as [b1 [r|e|]] eqn:EN;
      pose proof (new_record_BKind _ _ _ _ _ _ _ _ Pk G EN) as G1; try (inversion H; subst; exact G1).
    destruct asserted as [ty|]; [|inversion H; subst; exact G1].
    pose proof (new_record_ok_kind _ _ _ _ _ _ _ _ EN) as Kr.
    pose proof (add_attributes_kind (mkCtx par ft) (bns b1) r [(NQn (prov_qn "type"), AQn (prov_qn ty))]) as K.
    destruct (add_attributes (mkCtx par ft) (bns b1) r [(NQn (prov_qn "type"), AQn (prov_qn ty))]) as [m2 r2|m2 r2 e|];
      inversion H; subst; try exact G1; unfold BKind; cbn [brecs]; apply Forall_set_nth; try exact G1; rewrite K; exact Pk.
  Qed.

  Hypothesis P_label : forall lbl k, kind_of_label lbl = Some k -> String.eqb k "Bundle" = false -> P k.
  Hypothesis P_membership : forall e, factory_entry "membership" = Some e -> P (snd (fst (fst e))).

  Lemma add_members_BKind : forall par ft ms b coll b' r,
    BKind b -> add_members par ft b coll ms = (b', r) -> BKind b'.
  Proof.
    induction ms as [|mv ms IH]; intros b coll b' r C H; cbn [add_members] in H.
    - inversion H; subst; exact C.
    - destruct (vqn par (bns b) mv) as [q|e|]; try (inversion H; subst; exact C).
      destruct (factory_call par ft b "membership" None _ []) as [b1 [y|e|]] eqn:E;
        pose proof (factory_call_BKind _ _ _ _ _ _ _ _ _ P_membership C E) as C1.
      + eapply IH; eauto.
      + inversion H; subst. exact C1.
      + inversion H; subst. exact C1.
  Qed.

  Lemma decode_elements_BKind : forall par ft kind rec_id els b b' r,
    P kind -> BKind b -> decode_elements par ft b kind rec_id els = (b', r) -> BKind b'.
  Proof.
    induction els as [|e els IH]; intros b b' r Pk C H; cbn [decode_elements] in H.
    - inversion H; subst; exact C.
    - destruct e as [ | | | | | |members]; try (inversion H; subst; exact C).
      destruct (decode_element par (bns b) kind members _) as [acc|e|]; try (inversion H; subst; exact C).
      destruct (new_record par ft b kind _ _) as [b1 [y|e|]] eqn:EN;
        pose proof (new_record_BKind _ _ _ _ _ _ _ _ Pk C EN) as C1;
        try (inversion H; subst; exact C1).
      destruct (acc_members acc) as [|m0 ms]; [eapply IH; eauto|].
      destruct (find _ (acc_formal acc)) as [[k v]|]; [|inversion H; subst; exact C1].
      destruct (add_members par ft b1 v (m0 :: ms)) as [b2 [y2|e|]] eqn:EM;
        pose proof (add_members_BKind _ _ _ _ _ _ _ C1 EM) as C2.
      + eapply IH; eauto.
      + inversion H; subst. exact C2.
      + inversion H; subst. exact C2.
  Qed.

  Lemma decode_records_BKind : forall par ft kind entries b b' r,
    P kind -> BKind b -> decode_records par ft b kind entries = (b', r) -> BKind b'.
  Proof.
    induction entries as [|[rid content] entries IH]; intros b b' r Pk C H; cbn [decode_records] in H.
    - inversion H; subst; exact C.
    - destruct (match content with JObj _ => Some [content] | JArr l => Some l | _ => None end) as [l|];
        [|inversion H; subst; exact C].
      destruct (decode_elements par ft b kind rid l) as [b1 [y|e|]] eqn:E;
        pose proof (decode_elements_BKind _ _ _ _ _ _ _ _ Pk C E) as C1.
      + eapply IH; eauto.
      + inversion H; subst. exact C1.
      + inversion H; subst. exact C1.
  Qed.

  Lemma decode_kinds_BKind : forall par ft jc b b' r,
    BKind b -> decode_kinds par ft b jc = (b', r) -> BKind b'.
  Proof.
    induction jc as [|[lbl content] jc IH]; intros b b' r C H; cbn [decode_kinds] in H.
    - inversion H; subst; exact C.
    - destruct (kind_of_label lbl) as [kind|] eqn:EK; [|inversion H; subst; exact C].
      destruct (String.eqb kind "Bundle") eqn:EB; [inversion H; subst; exact C|].
      pose proof (P_label _ _ EK EB) as Pk.
      destruct content as [ | | | | | |entries]; try (inversion H; subst; exact C).
      destruct (decode_records par ft b kind entries) as [b1 [y|e|]] eqn:E;
        pose proof (decode_records_BKind _ _ _ _ _ _ _ Pk C E) as C1.
      + eapply IH; eauto.
      + inversion H; subst. exact C1.
      + inversion H; subst. exact C1.
  Qed.

  Lemma decode_container_BKind : forall par ft b jc b' r,
    BKind b -> decode_container par ft b jc = (b', r) -> BKind b'.
  Proof.
    intros par ft b jc b' r C H. unfold decode_container in H.
    destruct (lookup "prefix" jc) as [[ | | | | | |ps]|]; try (inversion H; subst; exact C).
    - destruct (decode_prefixes (bns b) ps) as [m|e|] eqn:EP; try (inversion H; subst; exact C).
      eapply decode_kinds_BKind; [|exact H]. exact C.
    - eapply decode_kinds_BKind; eauto.
  Qed.

  Lemma attach_decoded_DKind : forall dd b i dd' r,
    DKind dd -> BKind b -> attach_decoded dd b i = (dd', r) -> DKind dd'.
  Proof.
    intros dd b i dd' r [M B] C H. unfold attach_decoded in H.
    destruct i as [q0|]; [|inversion H; subst; split; assumption].
    destruct (resolve _ (bns b) (NQn q0)) as [[m [q|]]|e|]; try (inversion H; subst; split; assumption).
    destruct (mem (qn_uri q) (dbundles dd)); inversion H; subst; split; cbn; try assumption.
    apply Forall_app. split; [exact B|]. constructor; [exact C | constructor].
  Qed.

  Lemma decode_bundles_DKind : forall ft bs dd dd' r,
    DKind dd -> decode_bundles ft dd bs = (dd', r) -> DKind dd'.
  Proof.
    induction bs as [|[bid_str content] bs IH]; intros dd dd' r D H; cbn [decode_bundles] in H.
    - inversion H; subst; exact D.
    - destruct content as [ | | | | | |jc]; try (inversion H; subst; exact D).
      cbv zeta in H.
      destruct (decode_container _ ft (bundle_init None) jc) as [b [y|e|]] eqn:EC;
        try (inversion H; subst; exact D).
      assert (B0 : BKind (bundle_init None)) by constructor.
      pose proof (decode_container_BKind _ _ _ _ _ _ B0 EC) as Cb.
      destruct (resolve _ (bns b) (NStr bid_str)) as [[m i]|e|]; try (inversion H; subst; exact D).
      destruct (attach_decoded dd (with_ns b m) i) as [dd1 [y1|e|]] eqn:EA;
        pose proof (attach_decoded_DKind dd (with_ns b m) i dd1 _ D Cb EA) as D1.
      + eapply IH; eauto.
      + inversion H; subst. exact D1.
      + inversion H; subst. exact D1.
  Qed.

  Theorem decode_doc_DKind : forall ft t nd, decode_doc ft t = OK nd -> DKind nd.
  Proof.
    intros ft t nd H. unfold decode_doc in H.
    destruct t as [ | | | | | |content]; try discriminate.
    destruct (match lookup "bundle" content with
              | Some (JObj bs) => Some bs | None => Some [] | _ => None end) as [bs|]; [|discriminate].
    destruct (decode_container None ft (bundle_init None) _) as [b [y|e|]] eqn:EC; try discriminate.
    assert (B0 : BKind (bundle_init None)) by constructor.
    pose proof (decode_container_BKind _ _ _ _ _ _ B0 EC) as Cb.
    destruct (decode_bundles ft (mkD b []) bs) as [dd [y2|e|]] eqn:EB; inversion H; subst.
    eapply decode_bundles_DKind; [|exact EB]. split; [exact Cb | constructor].
  Qed.
End Thread.

(* ---- the instance: the kind of a loaded record is one the writer can name *)
Definition kind_ok (k : string) : Prop :=
  kind_of_label (prov_n_name k) = Some k /\ String.eqb k "Bundle" = false.

Lemma label_kind_ok : forall lbl k, kind_of_label lbl = Some k -> String.eqb k "Bundle" = false -> kind_ok k.
Proof.
  intros lbl k H NB. split; [|exact NB].
  unfold kind_of_label in H. apply lookup_In in H.
  assert (F : Forall (fun e => kind_of_label (prov_n_name (snd e)) = Some (snd e)) record_ids_map) by (repeat constructor).
  rewrite Forall_forall in F. exact (F _ H).
Qed.

Lemma membership_kind_ok : forall e, factory_entry "membership" = Some e -> kind_ok (snd (fst (fst e))).
Proof. intros e H. vm_compute in H. inversion H; subst. split; reflexivity. Qed.

Theorem decoded_records_kind : forall ft t nd, decode_doc ft t = OK nd ->
  forall b r, In b (doc_containers nd) -> In r (brecs b) -> kind_ok (rkind r).
Proof.
  intros ft t nd H b r Hb Hr.
  destruct (decode_doc_DKind kind_ok label_kind_ok membership_kind_ok _ _ _ H) as [KM KB].
  assert (Kb : BKind kind_ok b).
  { destruct Hb as [<-|Hb]; [exact KM|]. apply in_map_iff in Hb. destruct Hb as [[k b0] [<- Hk]].
    rewrite Forall_forall in KB. exact (KB _ Hk). }
  unfold BKind in Kb. rewrite Forall_forall in Kb. exact (Kb r Hr).
Qed.
