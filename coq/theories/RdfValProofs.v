(* RdfValProofs.v — C07 at value and attribute level: a value of the claimed kinds written as an RDF term
   (RdfVal.rdf_encode) and read back (rdf_decode, then the insertion code of the record) is the value again —
   the same string, integer, boolean, instant with its offset, URI; a qualified name and the datatype of a
   foreign literal come back as names of the same URI.  The hypotheses on the reader's manager are the ones
   the reader of full URIs needs: the scheme of the URI is not a declared prefix (finding C07-F3) and some
   declared namespace is a prefix of the URI (the property's "every name lives in a declared namespace"). *)
From Coq Require Import String Ascii List Bool Arith ZArith Lia.
From Prov Require Import Str StrProofs Sexp Tables Nsm NsmProofs Values Record RecordProofs World Jtree Json JsonProofs
  IsoProofs TimeProofs JsonRecProofs Rdf RdfVal.
Import ListNotations.
Open Scope string_scope.

(* ---- a full URI resolves, in manager m, to a name of that URI *)
Definition UriRes (par : option nsm) (m : nsm) (u : string) (q : qname) : Prop :=
  resolve_str par m u false = OK (Some q) /\ qn_uri q = u /\ Bound m q.

(* the scheme of u is no prefix of m and a namespace of m's table starts u *)
Definition compactable (m : nsm) (u : string) : Prop :=
  starts_with "_:" u = false /\
  (exists p l, split_colon u = Some (p, l) /\ lookup p (tbl m) = None /\ lookup p (prenmap m) = None) /\
  (exists k n, In (k, n) (tbl m) /\ starts_with (ns_uri n) u = true).

Lemma compactable_res : forall par m u, InvB m -> compactable m u -> exists q, UriRes par m u q.
Proof.
  intros par m u I [NB [[p [l [SC [L1 L2]]]] [k [n [IN SW]]]]].
  assert (F : exists kn, find (fun kv : string * ns => starts_with (ns_uri (snd kv)) u) (tbl m) = Some kn).
  { destruct (find (fun kv : string * ns => starts_with (ns_uri (snd kv)) u) (tbl m)) as [kn|] eqn:EF; [exists kn; reflexivity|].
    exfalso. pose proof (find_none _ _ EF (k, n) IN) as X. cbn [snd] in X. rewrite SW in X. discriminate. }
  destruct F as [[k2 n2] EF].
  assert (R1 : resolve_str1 m u false = SFound (mkQn n2 (drop (String.length (ns_uri n2)) u))).
  { unfold resolve_str1. rewrite NB, SC, L1, L2, EF. reflexivity. }
  exists (mkQn n2 (drop (String.length (ns_uri n2)) u)). split; [|split].
  - unfold resolve_str. rewrite R1. reflexivity.
  - exact (compaction_preserves_uri m u false p l _ SC L1 L2 R1).
  - exact (resolve_str1_Bound m u false _ I R1).
Qed.

(* ---- conversion on insertion looks at the datatype's URI only *)
Lemma xsd_local_uri : forall q q', qn_uri q = qn_uri q' -> xsd_local q = xsd_local q'.
Proof. intros q q' E. unfold xsd_local. rewrite E. reflexivity. Qed.

Lemma parse_xsd_uri : forall ft lex q q', qn_uri q = qn_uri q' -> parse_xsd ft lex q = parse_xsd ft lex q'.
Proof. intros ft lex q q' E. unfold parse_xsd. rewrite (xsd_local_uri q q' E). reflexivity. Qed.

Lemma auto_conv_typed : forall c m lex q l v,
  qn_uri q = xsd_uri ++ l -> parse_xsd (cft c) lex (xsd_qn l) = CVal v ->
  auto_conv c m (ALit lex (Some q) None) = Done m (Some v).
Proof.
  intros c m lex q l v E P. cbn [auto_conv].
  rewrite (parse_xsd_uri (cft c) lex q (xsd_qn l) E), P. reflexivity.
Qed.

(* ---- what the value path gives back *)
Definition value_same (v v' : value) : Prop :=
  match v, v' with
  | VQn q, VQn q' => qn_uri q = qn_uri q'
  | VLit l (Some d) g, VLit l' (Some d') g' => l = l' /\ qn_uri d = qn_uri d' /\ g = g'
  | _, _ => v = v'
  end.

Definition rdf_rt (c : actx) (m : nsm) (v v' : value) : Prop :=
  exists t va, rdf_encode v = Some t /\ rdf_decode (cparent c) m t = OK va /\ va <> ANone /\
               auto_conv c m va = Done m (Some v') /\ value_same v v'.

Definition XsdRes (par : option nsm) (m : nsm) : Prop := forall l, exists q, UriRes par m (xsd_uri ++ l) q.

Lemma xsdu_neq : forall a b, a <> b -> String.eqb (xsdu a) (xsdu b) = false.
Proof.
  intros a b N. apply String.eqb_neq. intro E. apply N. unfold xsdu in E. exact (append_inj_l _ _ _ E).
Qed.

Ltac xsd_tests := repeat (rewrite xsdu_neq by discriminate); repeat rewrite String.eqb_refl; cbn [orb andb].

Theorem rdf_rt_str : forall c m s, XsdRes (cparent c) m -> rdf_rt c m (VStr s) (VStr s).
Proof.
  intros c m s X. destruct (X "string") as [q [R [U _]]].
  exists (RLit s (Some (xsdu "string")) None), (ALit s (Some q) None).
  split; [reflexivity|]. split; [|split; [discriminate|split; [|reflexivity]]].
  - unfold rdf_decode. xsd_tests. unfold rdflib_str. xsd_tests. fold (xsdu "string") in R. rewrite R. reflexivity.
  - apply (auto_conv_typed c m s q "string" (VStr s) U). reflexivity.
Qed.

Theorem rdf_rt_int : forall c m z, XsdRes (cparent c) m -> rdf_rt c m (VInt z) (VInt z).
Proof.
  intros c m z X. destruct (X "int") as [q [R [U _]]].
  exists (RLit (str_of_Z z) (Some (xsdu "int")) None), (ALit (str_of_Z z) (Some q) None).
  split; [reflexivity|]. split; [|split; [discriminate|split; [|reflexivity]]].
  - unfold rdf_decode. xsd_tests. unfold rdflib_str. xsd_tests. rewrite parse_int_str_of_Z.
    fold (xsdu "int") in R. rewrite R. reflexivity.
  - apply (auto_conv_typed c m _ q "int" (VInt z) U). unfold parse_xsd, xsd_qn, xsd_ns.
    rewrite (xsd_kind "int" "int" eq_refl "xsd"). cbn [lookup String.eqb Ascii.eqb Bool.eqb xsd_parsers].
    rewrite parse_int_str_of_Z. reflexivity.
Qed.

Theorem rdf_rt_bool : forall c m b, XsdRes (cparent c) m -> rdf_rt c m (VBool b) (VBool b).
Proof.
  intros c m b X. destruct (X "boolean") as [q [R [U _]]].
  exists (RLit (if b then "true" else "false") (Some (xsdu "boolean")) None), (ALit (if b then "True" else "False") (Some q) None).
  split; [reflexivity|]. split; [|split; [discriminate|split; [|reflexivity]]].
  - unfold rdf_decode. xsd_tests. unfold rdflib_str. xsd_tests. fold (xsdu "boolean") in R.
    destruct b; cbn [parse_boolean lower lower_ascii]; rewrite R; reflexivity.
  - apply (auto_conv_typed c m _ q "boolean" (VBool b) U). destruct b; reflexivity.
Qed.

Theorem rdf_rt_id : forall c m u, XsdRes (cparent c) m -> rdf_rt c m (VId u) (VId u).
Proof.
  intros c m u X. destruct (X "anyURI") as [q [R [U _]]].
  exists (RLit u (Some (xsdu "anyURI")) None), (ALit u (Some q) None).
  split; [reflexivity|]. split; [|split; [discriminate|split; [|reflexivity]]].
  - unfold rdf_decode. xsd_tests. unfold rdflib_str. xsd_tests. fold (xsdu "anyURI") in R. rewrite R. reflexivity.
  - apply (auto_conv_typed c m u q "anyURI" (VId u) U). reflexivity.
Qed.

Theorem rdf_rt_time : forall c m t, valid_dt t = true -> rdf_rt c m (VTime t) (VTime t).
Proof.
  intros c m t V.
  exists (RLit (iso_print t) (Some (xsdu "dateTime")) None), (ATime t).
  split; [reflexivity|]. split; [|split; [discriminate|split; reflexivity]].
  unfold rdf_decode. xsd_tests. rewrite (parse_datetime_print t V). reflexivity.
Qed.

(* a language-tagged string (stored form: datatype prov:InternationalizedString) *)
Theorem rdf_rt_lang : forall c m lex d ch l, lex <> "" -> Bound m (prov_qn "InternationalizedString") ->
  d = Some (prov_qn "InternationalizedString") ->
  rdf_rt c m (VLit lex d (Some (String ch l))) (VLit lex d (Some (String ch l))).
Proof.
  intros c m lex d ch l NE Bd ->. destruct lex as [|c0 lex]; [contradiction|].
  exists (RLit (String c0 lex) None (Some (String ch l))), (ALit (String c0 lex) None (Some (String ch l))).
  split; [reflexivity|]. split; [reflexivity|]. split; [discriminate|]. split.
  - cbn [auto_conv]. unfold keep_literal. cbn [mk_literal]. rewrite (resolve_o_bound c m _ Bd). reflexivity.
  - cbn [value_same]. auto.
Qed.

(* a qualified name: back as a name of the same URI *)
Theorem rdf_rt_qn : forall c m q q', UriRes (cparent c) m (qn_uri q) q' -> rdf_rt c m (VQn q) (VQn q').
Proof.
  intros c m q q' [R [U Bd]].
  exists (RUri (qn_uri q)), (AQn q'). split; [reflexivity|]. split; [|split; [discriminate|split]].
  - unfold rdf_decode. rewrite R. reflexivity.
  - cbn [auto_conv]. rewrite (resolve_o_bound c m q' Bd). reflexivity.
  - cbn [value_same]. symmetry. exact U.
Qed.

(* a literal of a datatype neither the library nor rdflib converts *)
Theorem rdf_rt_foreign : forall c m lex d d', lex <> "" ->
  starts_with xsd_uri (qn_uri d) = false -> starts_with rdf_syntax_ns (qn_uri d) = false ->
  contains_str "base64Binary" (qn_uri d) = false ->
  UriRes (cparent c) m (qn_uri d) d' ->
  rdf_rt c m (VLit lex (Some d) None) (VLit lex (Some d') None).
Proof.
  intros c m lex d d' NE NX NR NB [R [U Bd]]. destruct lex as [|c0 lex]; [contradiction|].
  exists (RLit (String c0 lex) (Some (qn_uri d)) None), (ALit (String c0 lex) (Some d') None).
  assert (NXE : forall l, String.eqb (qn_uri d) (xsdu l) = false).
  { intros l. apply String.eqb_neq. intro E. unfold xsdu in E. rewrite E in NX.
    rewrite starts_with_app in NX. discriminate. }
  split; [cbn [rdf_encode]; rewrite NB; reflexivity|]. split; [|split; [discriminate|split]].
  - unfold rdf_decode. rewrite !NXE. unfold rdflib_str. rewrite !NXE, NX, NR. cbn [orb]. rewrite R. reflexivity.
  - cbn [auto_conv].
    assert (K : parse_xsd (cft c) (String c0 lex) d' = CKeep).
    { unfold parse_xsd, xsd_local. rewrite U.
      assert (F : find (fun l : string => String.eqb (qn_uri d) (xsd_uri ++ l)) (map fst xsd_parsers) = None).
      { induction (map fst xsd_parsers) as [|x xs IH]; [reflexivity|]. cbn [find]. fold (xsdu x). rewrite NXE. exact IH. }
      rewrite F. reflexivity. }
    rewrite K. unfold keep_literal. cbn [mk_literal]. rewrite (resolve_o_bound c m d' Bd). reflexivity.
  - cbn [value_same]. split; [reflexivity|]. split; [symmetry; exact U | reflexivity].
Qed.

(* ---- the datatype URIs of the XSD namespace resolve in every consistent manager that knows xsd and has no
   namespace declared under the prefix "http" *)
Definition NoScheme (m : nsm) (p : string) : Prop := lookup p (tbl m) = None /\ lookup p (prenmap m) = None.

Lemma lookup_In_tbl : forall (V : Type) k (v : V) l, lookup k l = Some v -> In (k, v) l.
Proof.
  intros V k v l. induction l as [|[k0 v0] l IH]; cbn [lookup]; [discriminate|].
  destruct (String.eqb k k0) eqn:E; intros H.
  - apply String.eqb_eq in E. inversion H; subst. left; reflexivity.
  - right. apply IH. exact H.
Qed.

Theorem XsdRes_of : forall par m, InvB m -> Builtins m -> NoScheme m "http" -> XsdRes par m.
Proof.
  intros par m I [BX _] [N1 N2] l. apply (compactable_res par m _ I). split; [reflexivity|]. split.
  - exists "http", ("//www.w3.org/2001/XMLSchema#" ++ l). split; [reflexivity | split; assumption].
  - exists "xsd", xsd_ns. split; [apply lookup_In_tbl; exact BX | apply (starts_with_app xsd_uri l)].
Qed.

(* ---- one attribute of an element *)
Definition NameRes (c : actx) (m : nsm) (a a' : qname) : Prop :=
  resolve_o c m (dec_elem_name (enc_elem_pred a)) = Done m (Some a') /\ qn_uri a' = qn_uri a.

Theorem rdf_attr_roundtrip : forall c m a a' v v',
  NameRes c m a a' -> is_formal_attr a' = false -> rdf_rt c m v v' ->
  exists t, rdf_encode v = Some t /\ rdf_attr_back c m (enc_elem_pred a) t = BOk a' v' /\ value_same v v'.
Proof.
  intros c m a a' v v' [NR _] NF [t [va [E [D [_ [AC S]]]]]].
  exists t. split; [exact E|]. split; [|exact S].
  unfold rdf_attr_back. rewrite NR, D. unfold ins_value.
  destruct (formal_split a' NF) as [Q T]. rewrite Q, T, AC. reflexivity.
Qed.

(* the name: prov:type travels as rdf:type and is filed under the QualifiedName prov:type *)
Theorem name_res_type : forall c m a, qn_uri a = P "type" -> Bound m (prov_qn "type") -> NameRes c m a (prov_qn "type").
Proof.
  intros c m a U Bd. split; [|symmetry; exact U].
  unfold enc_elem_pred. rewrite U. cbn [P]. 
  change (String.eqb (prov_uri ++ "type") (prov_uri ++ "location")) with false.
  change (String.eqb (prov_uri ++ "type") (prov_uri ++ "type")) with true. cbn iota.
  unfold dec_elem_name. rewrite String.eqb_refl. apply resolve_o_bound. exact Bd.
Qed.

(* prov:label travels as rdfs:label, prov:location as prov:atLocation; both come back as the string "prov:<name>" *)
Theorem name_res_label : forall c m a, qn_uri a = P "label" -> Builtins m -> NameRes c m a (prov_qn "label").
Proof.
  intros c m a U [_ BP]. split; [|symmetry; exact U].
  unfold enc_elem_pred. rewrite U.
  change (String.eqb (P "label") (P "location")) with false.
  change (String.eqb (P "label") (P "type")) with false.
  change (String.eqb (P "label") (P "label")) with true. cbn iota.
  change (dec_elem_name rdfs_label) with (NStr ("prov" ++ String colon "label")).
  unfold resolve_o. rewrite (resolve_str_tbl (cparent c) m "prov" "label" prov_ns BP eq_refl); [reflexivity | discriminate | discriminate].
Qed.

Theorem name_res_location : forall c m a, qn_uri a = P "location" -> Builtins m -> NameRes c m a (prov_qn "location").
Proof.
  intros c m a U [_ BP]. split; [|symmetry; exact U].
  unfold enc_elem_pred. rewrite U.
  change (String.eqb (P "location") (P "location")) with true. cbn iota.
  change (dec_elem_name (P "atLocation")) with (NStr ("prov" ++ String colon "location")).
  unfold resolve_o. rewrite (resolve_str_tbl (cparent c) m "prov" "location" prov_ns BP eq_refl); [reflexivity | discriminate | discriminate].
Qed.

(* any other name travels as its own URI *)
Definition special_pred (u : string) : bool :=
  (String.eqb u (P "location") || String.eqb u (P "type") || String.eqb u (P "label")
   || String.eqb u (P "startTime") || String.eqb u (P "endTime") || String.eqb u rdf_type
   || match lookup u rdf_predicate_mapper with Some _ => true | None => false end)%bool.

Theorem name_res_plain : forall c m a a', special_pred (qn_uri a) = false -> qn_uri a <> "" ->
  UriRes (cparent c) m (qn_uri a) a' -> NameRes c m a a'.
Proof.
  intros c m a a' SP NE [R [U _]]. split; [|exact U].
  unfold special_pred in SP. repeat (apply orb_false_iff in SP; destruct SP as [SP ?]).
  unfold enc_elem_pred.
  repeat match goal with H : String.eqb (qn_uri a) _ = false |- _ => rewrite H; clear H end.
  unfold dec_elem_name.
  match goal with H : String.eqb (qn_uri a) rdf_type = false |- _ => rewrite H end.
  destruct (lookup (qn_uri a) rdf_predicate_mapper); [discriminate|].
  unfold resolve_o. destruct (qn_uri a) as [|ch s] eqn:EU.
  - contradiction.
  - cbn [resolve]. rewrite R. reflexivity.
Qed.

(* ---- the premises are satisfiable: the manager of JsonRecProofs (built-ins and ex) *)
Lemma x_InvB : InvB x_m.
Proof.
  destruct (add_namespace nsm_init x_ns) as [[m r]|] eqn:E; [|vm_compute in E; discriminate].
  assert (x_m = m) by (unfold x_m; rewrite E; reflexivity). subst m.
  exact (proj1 (add_namespace_InvB nsm_init x_ns x_m r InvB_init ltac:(discriminate) E)).
Qed.

Lemma x_xsdres : XsdRes None x_m.
Proof. apply XsdRes_of; [exact x_InvB | exact x_builtins | split; vm_compute; reflexivity]. Qed.

Lemma x_compactable : forall l, compactable x_m ("http://e/" ++ l).
Proof.
  intros l. split; [reflexivity|]. split.
  - exists "http", ("//e/" ++ l). split; [reflexivity | split; vm_compute; reflexivity].
  - exists "ex", x_ns. split; [vm_compute; tauto | apply (starts_with_app "http://e/" l)].
Qed.

Example rdf_attr_applies :
  exists a' q', qn_uri a' = "http://e/k" /\ qn_uri q' = "http://e/v" /\
    rdf_attr_back (mkCtx None []) x_m (enc_elem_pred (x_q "k")) (RUri "http://e/v") = BOk a' (VQn q') /\
    rdf_attr_back (mkCtx None []) x_m (enc_elem_pred (x_q "k")) (RLit "5" (Some (xsdu "int")) None) = BOk a' (VInt 5).
Proof.
  set (c := mkCtx None []).
  destruct (compactable_res None x_m _ x_InvB (x_compactable "k")) as [a' RA].
  destruct (compactable_res None x_m _ x_InvB (x_compactable "v")) as [q' RQ].
  assert (NR : NameRes c x_m (x_q "k") a').
  { apply name_res_plain; [vm_compute; reflexivity | discriminate | exact RA]. }
  assert (NF : is_formal_attr a' = false).
  { unfold is_formal_attr, is_qname_attr, is_time_attr, in_prov_set, is_prov_name.
    rewrite (proj1 (proj2 RA)). vm_compute. reflexivity. }
  exists a', q'. split; [exact (proj1 (proj2 RA))|]. split; [exact (proj1 (proj2 RQ))|]. split.
  - destruct (rdf_attr_roundtrip c x_m (x_q "k") a' (VQn (x_q "v")) (VQn q') NR NF (rdf_rt_qn c x_m (x_q "v") q' RQ))
      as [t [E [B _]]]. inversion E; subst t. exact B.
  - destruct (rdf_attr_roundtrip c x_m (x_q "k") a' (VInt 5) (VInt 5) NR NF (rdf_rt_int c x_m 5 x_xsdres))
      as [t [E [B _]]]. inversion E; subst t. exact B.
Qed.

(* ================================================================== a whole element *)
(* what one pair becomes: its name and value as read back *)
Definition pair_back (c : actx) (m : nsm) (kv kv' : qname * value) : Prop :=
  NameRes c m (fst kv) (fst kv') /\ is_formal_attr (fst kv') = false /\ rdf_rt c m (snd kv) (snd kv').

Definition add_pairs (pairs : list (qname * value)) (d : list (qname * list value)) : list (qname * list value) :=
  fold_left (fun d kv => attr_add (fst kv) (snd kv) d) pairs d.

Lemma put_all_plain : forall pairs d, Forall (fun kv : qname * value => is_formal_attr (fst kv) = false) pairs ->
  put_all false pairs d = Some (add_pairs pairs d).
Proof.
  induction pairs as [|[k v] pairs IH]; intros d F; [reflexivity|].
  inversion F as [|x l NF F']; subst. cbn [fst] in NF. cbn [put_all negb andb]. rewrite NF.
  unfold add_pairs. cbn [fold_left fst snd]. apply IH. exact F'.
Qed.

Lemma names_collection_decoded : forall l : list (namearg * valarg),
  Forall (fun na => match fst na with NStr _ => True | NQn q => is_prov_name "collection" q = false | NId _ => False end) l ->
  names_collection l = false.
Proof.
  induction l as [|[n a] l IH]; intros F; [reflexivity|].
  inversion F as [|x y H F']; subst. unfold names_collection. cbn [existsb fst].
  destruct n as [q|s|u]; cbn [fst] in H; [rewrite H | | contradiction]; cbn [orb]; apply IH; exact F'.
Qed.

Lemma dec_elem_name_shape : forall p,
  match dec_elem_name p with NStr _ => True | NQn q => is_prov_name "collection" q = false | NId _ => False end.
Proof.
  intros p. unfold dec_elem_name. destruct (String.eqb p rdf_type); [vm_compute; reflexivity|].
  destruct (lookup p rdf_predicate_mapper); exact Logic.I.
Qed.

Theorem rdf_element_roundtrip : forall par ft b kind q q' pairs pairs',
  let c := mkCtx par ft in
  let m := bns b in
  UriRes par m (qn_uri q) q' -> qn_uri q <> "" ->
  Forall2 (pair_back c m) pairs pairs' ->
  exists ts,
    rdf_element_triples pairs = Some ts /\
    rdf_read_element par ft b kind (qn_uri q) ts
    = (add_rec_to b (mkRec kind (Some q') (add_pairs pairs' [])), OK (mkRec kind (Some q') (add_pairs pairs' []))).
Proof.
  intros par ft b kind q q' pairs pairs' c m [RQ [UQ BQ]] NEQ F.
  assert (D : exists ts args, rdf_element_triples pairs = Some ts /\ rdf_decode_args par m ts = OK args /\
                              Forall2 (arg_ok c m) args pairs' /\
                              Forall (fun na => match fst na with NStr _ => True | NQn q0 => is_prov_name "collection" q0 = false | NId _ => False end) args).
  { induction F as [|[a v] [a' v'] pairs pairs' [NR [NF [t [va [E [DC [NN [AC _]]]]]]]] F IH].
    - exists [], []. repeat split; constructor.
    - destruct IH as [ts [args [E1 [D1 [A1 S1]]]]]. cbn [fst snd] in *.
      exists ((enc_elem_pred a, t) :: ts), ((dec_elem_name (enc_elem_pred a), va) :: args).
      split; [cbn [rdf_element_triples]; rewrite E, E1; reflexivity|].
      split; [cbn [rdf_decode_args]; change (cparent c) with par in DC; rewrite DC, D1; reflexivity|].
      split; [|constructor; [apply dec_elem_name_shape | exact S1]].
      constructor; [|exact A1]. unfold arg_ok. cbn [fst snd]. split; [exact NN|]. split; [exact (proj1 NR)|].
      unfold insert_value. destruct (formal_split a' NF) as [Q T]. rewrite Q, T. exact AC. }
  destruct D as [ts [args [E [DA [FA SH]]]]]. exists ts. split; [exact E|].
  unfold rdf_read_element. fold m. rewrite DA. unfold new_record. fold c. fold m.
  assert (IDR : resolve_o c m (NStr (qn_uri q)) = Done m (Some q')).
  { unfold resolve_o. destruct (qn_uri q) as [|ch s] eqn:EU; [contradiction|]. cbn [resolve].
    change (cparent c) with par. rewrite RQ. reflexivity. }
  rewrite IDR. unfold new_prec. rewrite andb_false_r.
  assert (NFs : Forall (fun kv : qname * value => is_formal_attr (fst kv) = false) pairs').
  { clear -F. induction F as [|kv kv' l l' [_ [NF _]] F IH]; constructor; assumption. }
  assert (AA : add_attributes c m (mkRec kind (Some q') []) args = ADone m (mkRec kind (Some q') (add_pairs pairs' []))).
  { unfold add_attributes. destruct args as [|a0 args'] eqn:EAr.
    - inversion FA; subst. reflexivity.
    - rewrite <- EAr in *. cbn [rattrs rkind rid]. rewrite (names_collection_decoded args SH).
      rewrite (loop_fixed c false m args pairs' [] _ FA (put_all_plain pairs' [] NFs)). reflexivity. }
  rewrite AA. assert (WB : with_ns b m = b) by (unfold m; destruct b; reflexivity). rewrite WB. reflexivity.
Qed.

(* the premises of the element theorem are satisfiable: ex:s with ex:k = 5 and ex:k = ex:v *)
Example rdf_element_applies :
  exists q' a' v', qn_uri q' = "http://e/s" /\ qn_uri a' = "http://e/k" /\ qn_uri v' = "http://e/v" /\
    exists ts, rdf_element_triples [(x_q "k", VInt 5); (x_q "k", VQn (x_q "v"))] = Some ts /\
      rdf_read_element None [] x_b "Entity" "http://e/s" ts
      = (add_rec_to x_b (mkRec "Entity" (Some q') (add_pairs [(a', VInt 5); (a', VQn v')] [])),
         OK (mkRec "Entity" (Some q') (add_pairs [(a', VInt 5); (a', VQn v')] []))).
Proof.
  set (c := mkCtx None []).
  destruct (compactable_res None x_m _ x_InvB (x_compactable "s")) as [q' RS].
  destruct (compactable_res None x_m _ x_InvB (x_compactable "k")) as [a' RA].
  destruct (compactable_res None x_m _ x_InvB (x_compactable "v")) as [v' RV].
  assert (NR : NameRes c x_m (x_q "k") a') by (apply name_res_plain; [vm_compute; reflexivity | discriminate | exact RA]).
  assert (NF : is_formal_attr a' = false).
  { unfold is_formal_attr, is_qname_attr, is_time_attr, in_prov_set, is_prov_name.
    rewrite (proj1 (proj2 RA)). vm_compute. reflexivity. }
  exists q', a', v'. split; [exact (proj1 (proj2 RS))|]. split; [exact (proj1 (proj2 RA))|]. split; [exact (proj1 (proj2 RV))|].
  apply (rdf_element_roundtrip None [] x_b "Entity" (x_q "s") q' _ _ RS ltac:(discriminate)).
  constructor; [|constructor; [|constructor]].
  - split; [exact NR|]. split; [exact NF|]. apply rdf_rt_int. exact x_xsdres.
  - split; [exact NR|]. split; [exact NF|]. apply rdf_rt_qn. exact RV.
Qed.

(* ---- the endpoints and the time of a relation: the reader hands a subject or object URI as a plain string to the
   factory (and a qualified node's reference as the decoded name), a time as the decoded datetime; the insertion
   code of a reference-valued formal attribute stores a name of exactly that URI, of a time-valued one the instant *)
Theorem rdf_endpoint_string : forall c m u q', UriRes (cparent c) m u q' -> u <> "" ->
  qn_value c m (AStr u) = Done m (Some (VQn q')).
Proof.
  intros c m u q' [R _] NE. unfold qn_value, resolve_o. destruct u as [|ch s]; [contradiction|].
  cbn [resolve]. rewrite R. reflexivity.
Qed.

Theorem rdf_endpoint_term : forall c m u q', UriRes (cparent c) m u q' ->
  exists va, rdf_decode (cparent c) m (RUri u) = OK va /\ qn_value c m va = Done m (Some (VQn q')).
Proof.
  intros c m u q' [R [_ Bd]]. exists (AQn q'). split; [unfold rdf_decode; rewrite R; reflexivity|].
  unfold qn_value. rewrite (resolve_o_bound c m q' Bd). reflexivity.
Qed.

Theorem rdf_relation_time : forall c m t, valid_dt t = true ->
  exists va, rdf_encode (VTime t) = Some (RLit (iso_print t) (Some (xsdu "dateTime")) None) /\
             rdf_decode (cparent c) m (RLit (iso_print t) (Some (xsdu "dateTime")) None) = OK va /\
             time_value m va = Done m (Some (VTime t)).
Proof.
  intros c m t V. exists (ATime t). split; [reflexivity|]. split; [|reflexivity].
  unfold rdf_decode. xsd_tests. rewrite (parse_datetime_print t V). reflexivity.
Qed.
