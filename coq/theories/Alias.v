(* Alias.v — the object graph of the library: which Python objects a call allocates and which it links, as model.py has
   it (ProvRecord.__init__ / copy, ProvBundle.__init__ / new_record / add_record / update / unified,
   ProvDocument.__init__ / bundle / add_bundle / update / unified / flattened, NamespaceManager.__init__).
   The value model (World.v, Interp.v) cannot express sharing; this one can: the store is a list of objects addressed by
   location, objects point at each other, a call allocates at the end of the store and overwrites objects in place.
   What an object *holds* (attribute values, declarations) is reduced to a write counter — every call that changes the
   content of an object bumps it — because C12 is about which objects a change can reach, not about what is written.
   Three sorts of mutable object:
     - a namespace manager (with its tables), pointing at its parent manager;
     - a record (with its attribute dictionary and value sets), pointing at the bundle it was made for (_bundle);
     - a bundle or document, pointing at its manager, its records and (a document) its bundles.
   The field `aown` is ghost state: for every location, the document that location was allocated for.  No call reads it;
   it is there so that "everything a document reaches was allocated for it" can be stated as an invariant
   (AliasProofs.v).  The counts a call needs and that depend on content (how many records unified() keeps, which bundle
   identifiers of the two documents of update() coincide) are arguments of the call; the harness reads them off the
   implementation and the object-graph correspondence (harness/props/c12.py: alias_correspondence) compares the whole
   shape after every call. *)
From Coq Require Import List Arith Bool.
Import ListNotations.

Definition loc := nat.

Inductive aobj : Type :=
| OMgr (parent : option loc) (ver : nat)
| ORec (owner : loc) (ver : nat)
| OBun (isdoc : bool) (ns : loc) (recs subs : list loc).

Record aworld : Type := mkAW { aheap : list aobj; aown : list loc; adocs : list loc }.

Definition aget (w : aworld) (l : loc) : option aobj := nth_error (aheap w) l.
Definition owner_of (w : aworld) (l : loc) : option loc := nth_error (aown w) l.
Definition anext (w : aworld) : loc := length (aheap w).

Fixpoint set_nth {A : Type} (l : list A) (n : nat) (x : A) : list A :=
  match l, n with
  | [], _ => []
  | _ :: r, 0 => x :: r
  | y :: r, S k => y :: set_nth r k x
  end.

(* the two primitives: allocation at the end of the store (for document t), overwriting in place *)
Definition alloc (w : aworld) (os : list aobj) (t : loc) : aworld :=
  mkAW (aheap w ++ os) (aown w ++ repeat t (length os)) (adocs w).
Definition awrite (w : aworld) (l : loc) (o : aobj) : aworld := mkAW (set_nth (aheap w) l o) (aown w) (adocs w).

Definition bump_obj (o : aobj) : aobj :=
  match o with OMgr p v => OMgr p (S v) | ORec b v => ORec b (S v) | OBun _ _ _ _ => o end.
Definition bump (l : loc) (w : aworld) : aworld :=
  match aget w l with Some o => awrite w l (bump_obj o) | None => w end.

Definition ns_of (w : aworld) (b : loc) : option loc := match aget w b with Some (OBun _ ns _ _) => Some ns | _ => None end.
Definition recs_of (w : aworld) (b : loc) : list loc := match aget w b with Some (OBun _ _ rs _) => rs | _ => [] end.
Definition subs_of (w : aworld) (b : loc) : list loc := match aget w b with Some (OBun _ _ _ ss) => ss | _ => [] end.

(* ProvBundle.new_record: a new record object made for bundle b, appended to b._records; validating its names goes
   through b's manager and may register namespaces there *)
Definition add_rec (d b : loc) (w : aworld) : aworld :=
  match aget w b with
  | Some (OBun k ns rs ss) =>
      let r := anext w in
      bump ns (awrite (alloc w [ORec b 0] d) b (OBun k ns (rs ++ [r]) ss))
  | _ => w
  end.
Fixpoint add_recs (d b : loc) (k : nat) (w : aworld) : aworld :=
  match k with 0 => w | S k' => add_recs d b k' (add_rec d b w) end.

(* ProvDocument.bundle(id), and ProvBundle(...) followed by add_bundle: a manager whose parent is the document's
   manager, a bundle made with it, the bundle entered in the document's table; then k records made in it *)
Definition add_sub (d : loc) (k : nat) (w : aworld) : aworld :=
  match aget w d with
  | Some (OBun isd ns rs ss) =>
      let m := anext w in
      let b := S m in
      add_recs d b k (awrite (alloc w [OMgr (Some ns) 0; OBun false m [] []] d) d (OBun isd ns rs (ss ++ [b])))
  | _ => w
  end.

(* ProvDocument(): the document object and its manager; then k0 records, then one bundle per entry of ks *)
Definition new_doc_with (k0 : nat) (ks : list nat) (w : aworld) : aworld :=
  let d := anext w in
  let w1 := alloc w [OBun true (S d) [] []; OMgr None 0] d in
  let w2 := mkAW (aheap w1) (aown w1) (adocs w1 ++ [d]) in
  fold_left (fun w k => add_sub d k w) ks (add_recs d d k0 w2).

(* ------------------------------------------------------------------ the calls *)
Inductive aop : Type :=
| ANewDoc                                             (* ProvDocument() *)
| ANewBundle (i : nat)                                (* doc.bundle(id) *)
| AAddRecs (i : nat) (s : option nat) (k : nat)       (* new_record / a factory / an element method / add_record, in the document or its s-th bundle *)
| ATouchRec (i : nat) (s : option nat) (r : nat)      (* add_attributes / set_time / add_asserted_type on a record *)
| ATouchNs (i : nat) (s : option nat)                 (* add_namespace / set_default_namespace / valid_qualified_name *)
| ABuild (k0 : nat) (ks : list nat)                   (* deserialize, graph_to_prov: a document built from scratch *)
| AUnified (i : nat) (k0 : nat) (ks : list nat)       (* doc.unified(): k0 records kept at the top, ks in the bundles *)
| AFlattened (i : nat)                                (* doc.flattened() *)
| ADocFromRecs (i : nat) (s : option nat)             (* ProvDocument(records=container.get_records()) *)
| AUpdateBundle (i : nat) (s : option nat) (j : nat) (t : option nat)  (* ProvBundle.update, or ProvDocument.update with a bundle-free argument *)
| AUpdate (i j : nat) (ms : list (option nat))        (* ProvDocument.update(other): ms says, per bundle of other, which bundle of doc has its identifier *)
| AAddBundleDoc (i j : nat)                           (* doc.add_bundle(other document, id) *)
| ACopyTouch (i : nat) (s : option nat) (r : nat).    (* c = record.copy(); c.add_attributes(...): the copy is made for the same bundle and is listed nowhere *)

Definition hdl (w : aworld) (i : nat) : option loc := nth_error (adocs w) i.
Definition cont (w : aworld) (d : loc) (s : option nat) : option loc :=
  match s with None => Some d | Some j => nth_error (subs_of w d) j end.

Definition total_recs (w : aworld) (d : loc) : nat :=
  length (recs_of w d) + fold_right (fun s n => length (recs_of w s) + n) 0 (subs_of w d).

(* ProvDocument.update, the bundles: counts are taken from the argument before anything is written *)
Fixpoint update_subs (d : loc) (cs : list (nat * option nat)) (w : aworld) : aworld :=
  match cs with
  | [] => w
  | (k, Some t) :: rest =>
      update_subs d rest (match nth_error (subs_of w d) t with Some b => add_recs d b k w | None => w end)
  | (k, None) :: rest => update_subs d rest (add_sub d k w)
  end.

Definition astep (w : aworld) (o : aop) : aworld :=
  match o with
  | ANewDoc => new_doc_with 0 [] w
  | ANewBundle i => match hdl w i with Some d => add_sub d 0 w | None => w end
  | AAddRecs i s k =>
      match hdl w i with
      | Some d => match cont w d s with Some b => add_recs d b k w | None => w end
      | None => w
      end
  | ATouchRec i s r =>
      match hdl w i with
      | Some d =>
          match cont w d s with
          | Some b =>
              match nth_error (recs_of w b) r with
              | Some x =>
                  (* the record's own bundle pointer decides whose manager validates the names *)
                  match aget w x with
                  | Some (ORec ob _) => match ns_of w ob with Some m => bump m (bump x w) | None => bump x w end
                  | _ => w
                  end
              | None => w
              end
          | None => w
          end
      | None => w
      end
  | ATouchNs i s =>
      match hdl w i with
      | Some d => match cont w d s with
                  | Some b => match ns_of w b with Some m => bump m w | None => w end
                  | None => w end
      | None => w
      end
  | ABuild k0 ks => new_doc_with k0 ks w
  | AUnified i k0 ks => match hdl w i with Some _ => new_doc_with k0 ks w | None => w end
  | AFlattened i =>
      match hdl w i with
      | Some d => match subs_of w d with
                  | [] => w                                   (* "returning the same document" *)
                  | _ :: _ => new_doc_with (total_recs w d) [] w
                  end
      | None => w
      end
  | ADocFromRecs i s =>
      match hdl w i with
      | Some d => match cont w d s with Some b => new_doc_with (length (recs_of w b)) [] w | None => w end
      | None => w
      end
  | AUpdateBundle i s j t =>
      match hdl w i, hdl w j with
      | Some d, Some e =>
          match cont w d s, cont w e t with
          | Some b, Some c => add_recs d b (length (recs_of w c)) w
          | _, _ => w
          end
      | _, _ => w
      end
  | AUpdate i j ms =>
      match hdl w i, hdl w j with
      | Some d, Some e =>
          let cs := combine (map (fun s => length (recs_of w s)) (subs_of w e)) ms in
          update_subs d cs (add_recs d d (length (recs_of w e)) w)
      | _, _ => w
      end
  | AAddBundleDoc i j =>
      match hdl w i, hdl w j with
      | Some d, Some e =>
          match subs_of w e with
          | [] => add_sub d (length (recs_of w e)) w
          | _ :: _ => w                                        (* refused *)
          end
      | _, _ => w
      end
  | ACopyTouch i s r =>
      match hdl w i with
      | Some d =>
          match cont w d s with
          | Some b =>
              match nth_error (recs_of w b) r with
              | Some x =>
                  match aget w x with
                  | Some (ORec ob _) =>
                      (* PROV_REC_CLS[...](self._bundle, self.identifier, self.attributes): a new record object for the
                         same bundle; its names are validated by that bundle's manager — at construction and on every
                         later add_attributes *)
                      let c := anext w in
                      let w1 := bump c (alloc w [ORec ob 0] d) in
                      match ns_of w ob with Some m => bump m w1 | None => w1 end
                  | _ => w
                  end
              | None => w
              end
          | None => w
          end
      | None => w
      end
  end.

Definition aempty : aworld := mkAW [] [] [].
Definition arun (ops : list aop) : aworld := fold_left astep ops aempty.

(* which document a call may write to (None: it only allocates) *)
Definition atarget (o : aop) : option nat :=
  match o with
  | ANewDoc | ABuild _ _ | AUnified _ _ _ | AFlattened _ | ADocFromRecs _ _ => None
  | ANewBundle i | AAddRecs i _ _ | ATouchRec i _ _ | ATouchNs i _ | AUpdateBundle i _ _ _ | AUpdate i _ _ | AAddBundleDoc i _
  | ACopyTouch i _ _ => Some i
  end.

(* ------------------------------------------------------------------ what a document reaches, what is observed *)
Definition reach_sub (w : aworld) (s : loc) : list loc :=
  s :: match aget w s with Some (OBun _ ns rs _) => ns :: rs | _ => [] end.
Definition reach (w : aworld) (d : loc) : list loc :=
  d :: match aget w d with
       | Some (OBun _ ns rs ss) => ns :: rs ++ flat_map (reach_sub w) ss
       | _ => []
       end.
Definition observe (w : aworld) (d : loc) : list (loc * option aobj) := map (fun l => (l, aget w l)) (reach w d).

(* ------------------------------------------------------------------ the shape compared with the implementation *)
Definition is_mgr (w : aworld) (l : loc) : bool := match aget w l with Some (OMgr _ _) => true | _ => false end.
Definition is_rec (w : aworld) (l : loc) : bool := match aget w l with Some (ORec _ _) => true | _ => false end.
Definition is_bun (w : aworld) (l : loc) : bool := match aget w l with Some (OBun _ _ _ _) => true | _ => false end.
Definition count (f : loc -> bool) (ls : list loc) : nat := length (filter f ls).
Definition shared (a b : list loc) : nat := count (fun l => existsb (Nat.eqb l) b) a.

(* records whose _bundle is not the bundle that lists them; bundles whose manager's parent is not the document's manager *)
Definition stray_recs (w : aworld) (b : loc) : nat :=
  count (fun r => match aget w r with Some (ORec ob _) => negb (Nat.eqb ob b) | _ => true end) (recs_of w b).
Definition stray_parents (w : aworld) (d : loc) : nat :=
  count (fun s => match ns_of w s, ns_of w d with
                  | Some m, Some dm => match aget w m with Some (OMgr (Some p) _) => negb (Nat.eqb p dm) | _ => true end
                  | _, _ => true
                  end) (subs_of w d).

Record shape : Type := mkShape {
  sh_same : nat;            (* index of the first handle that is this very object *)
  sh_mgrs : nat; sh_recs : nat; sh_buns : nat;
  sh_per_bundle : list nat; (* records at the top, then per bundle *)
  sh_stray : nat;
  sh_shared : list nat      (* objects shared with each earlier handle that is another object *)
}.

Fixpoint index_of (x : loc) (ls : list loc) : nat :=
  match ls with [] => 0 | y :: r => if Nat.eqb x y then 0 else S (index_of x r) end.

Definition shape_of (w : aworld) (i : nat) (d : loc) : shape :=
  let rs := reach w d in
  mkShape (index_of d (adocs w))
          (count (is_mgr w) rs) (count (is_rec w) rs) (count (is_bun w) rs)
          (length (recs_of w d) :: map (fun s => length (recs_of w s)) (subs_of w d))
          (stray_recs w d + fold_right (fun s n => stray_recs w s + n) 0 (subs_of w d) + stray_parents w d)
          (map (fun e => if Nat.eqb e d then 0 else shared rs (reach w e)) (firstn i (adocs w))).

Fixpoint shapes_from (w : aworld) (i : nat) (ds : list loc) : list shape :=
  match ds with [] => [] | d :: r => shape_of w i d :: shapes_from w (S i) r end.
Definition shapes (w : aworld) : list shape := shapes_from w 0 (adocs w).

(* the shapes after every call *)
Fixpoint atrace (w : aworld) (ops : list aop) : list (list shape) :=
  match ops with [] => [] | o :: r => let w' := astep w o in shapes w' :: atrace w' r end.
