(* DotgProofs.v — C15 over the structure model (Dotg.v): every element record of a container is drawn as exactly one
   element node of its kind carrying its URI, in order; a relation with two endpoints is drawn as one path from a node
   of the first endpoint's URI to a node of the second's — one edge carrying the relation's label, or two edges through
   one blank node when it is n-ary or annotated; every name a relation refers to has a node. *)
From Coq Require Import String Ascii List Bool Arith Lia.
From Prov Require Import Str StrProofs Sexp Tables Nsm Values Record World Derive Dotg.
Import ListNotations.
Open Scope string_scope.

(* ---- element nodes *)
Definition elem_nodes (l : list stmt) : list (string * string) :=
  flat_map (fun st => match st with
                      | SNode _ cls (Some u) => if starts_with "elem:" cls then [(cls, u)] else []
                      | _ => []
                      end) l.

Lemma elem_nodes_app : forall a b, elem_nodes (a ++ b) = (elem_nodes a ++ elem_nodes b)%list.
Proof. intros a b. unfold elem_nodes. apply flat_map_app. Qed.

Lemma elem_nodes_cons : forall x l, elem_nodes (x :: l) = (elem_nodes [x] ++ elem_nodes l)%list.
Proof. intros x l. exact (elem_nodes_app [x] l). Qed.

Lemma annotate_no_elem : forall s node r s' st, annotate s node r = (s', st) -> elem_nodes st = [].
Proof.
  intros s node r s' st H. unfold annotate in H. destruct (nonref r); inversion H; subst; reflexivity.
Qed.

Definition elem_key (r : prec) : list (string * string) :=
  match rid r with Some q => [("elem:" ++ rkind r, qn_uri q)] | None => [] end.

Lemma add_elem_nodes : forall o s r s' st, add_elem o s r = (s', st) -> elem_nodes st = elem_key r.
Proof.
  intros o s r s' st H. unfold add_elem, elem_key in *. destruct (rid r) as [q|]; [|inversion H; reflexivity].
  destruct (o_ea o).
  - destruct (annotate _ _ r) as [s2 an] eqn:EA. inversion H; subst.
    rewrite elem_nodes_cons, (annotate_no_elem _ _ _ _ _ EA). reflexivity.
  - inversion H; subst. reflexivity.
Qed.

Lemma fold_elem_nodes : forall o els s s' st, fold_stmts (add_elem o) s els = (s', st) ->
  elem_nodes st = flat_map elem_key els.
Proof.
  induction els as [|r els IH]; intros s s' st H; cbn [fold_stmts] in H; [inversion H; reflexivity|].
  destruct (add_elem o s r) as [s1 a] eqn:E1. destruct (fold_stmts (add_elem o) s1 els) as [s2 b] eqn:E2.
  inversion H; subst. rewrite elem_nodes_app, (add_elem_nodes _ _ _ _ _ E1), (IH _ _ _ E2). reflexivity.
Qed.

(* every element record of a container: exactly one element node, of its kind, with its URI, in record order *)
Theorem elements_one_node_each : forall o s recs s' a rels, container_stmts o s recs = (s', a, rels) ->
  elem_nodes a = flat_map elem_key (filter (fun r => is_element (rkind r)) recs) /\
  rels = filter (fun r => negb (is_element (rkind r))) recs.
Proof.
  intros o s recs s' a rels H. unfold container_stmts in H.
  destruct (fold_stmts (add_elem o) s (filter (fun r => is_element (rkind r)) recs)) as [s1 x] eqn:E.
  inversion H; subst. split; [exact (fold_elem_nodes _ _ _ _ _ E) | reflexivity].
Qed.

(* ---- nodes for referenced names *)
Definition has_node (st : list stmt) (id uri : string) : Prop := exists cls, In (SNode id cls (Some uri)) st.

Lemma get_node_spec : forall s q pt s' st id, get_node s (Some q) pt = (s', st, id) ->
  lookup (qn_uri q) (nmap s') = Some id /\
  ((lookup (qn_uri q) (nmap s) = Some id /\ st = [] /\ s' = s) \/
   (lookup (qn_uri q) (nmap s) = None /\ has_node st id (qn_uri q))) /\
  (forall u x, u <> qn_uri q -> lookup u (nmap s) = Some x -> lookup u (nmap s') = Some x) /\
  (forall u x, lookup u (nmap s) = Some x -> exists y, lookup u (nmap s') = Some y).
Proof.
  intros s q pt s' st id H. unfold get_node in H. destruct (lookup (qn_uri q) (nmap s)) as [i|] eqn:L.
  - inversion H; subst. split; [exact L|]. split; [left; repeat split; reflexivity|]. split; [intros; assumption | intros u x Hx; exists x; exact Hx].
  - inversion H; subst. cbn [nmap]. split; [apply lookup_dset_same|]. split.
    + right. split; [reflexivity|]. eexists. left. reflexivity.
    + split.
      * intros u x NE Hx. rewrite lookup_dset_other by (intro E; apply NE; symmetry; exact E). exact Hx.
      * intros u x Hx. destruct (string_dec u (qn_uri q)) as [->|NE]; [rewrite L in Hx; discriminate|].
        exists x. rewrite lookup_dset_other by (intro E; apply NE; symmetry; exact E). exact Hx.
Qed.

Lemma get_node_back : forall s q pt s' st id, get_node s (Some q) pt = (s', st, id) ->
  forall u x, u <> qn_uri q -> lookup u (nmap s') = Some x -> lookup u (nmap s) = Some x.
Proof.
  intros s q pt s' st id H u x NE L. unfold get_node in H. destruct (lookup (qn_uri q) (nmap s)) as [i|] eqn:E.
  - inversion H; subst. exact L.
  - inversion H; subst. cbn [nmap] in L. rewrite lookup_dset_other in L by (intro X; apply NE; symmetry; exact X). exact L.
Qed.

(* ---- a relation with two endpoints: one path *)
Definition path (st : list stmt) (id0 id1 : string) (lab : option string) : Prop :=
  In (SEdge id0 id1 lab false) st \/
  exists b, In (SNode b "blank" None) st /\ In (SEdge id0 b lab false) st /\ In (SEdge b id1 None false) st.

Definition drawn (s : dst) (st : list stmt) (id uri : string) : Prop :=
  lookup uri (nmap s) = Some id \/ has_node st id uri.

Lemma has_node_app_l : forall a b id u, has_node a id u -> has_node (a ++ b) id u.
Proof. intros a b id u [c H]. exists c. apply in_or_app. left. exact H. Qed.
Lemma has_node_app_r : forall a b id u, has_node b id u -> has_node (a ++ b) id u.
Proof. intros a b id u [c H]. exists c. apply in_or_app. right. exact H. Qed.
Lemma has_node_cons : forall x b id u, has_node b id u -> has_node (x :: b) id u.
Proof. intros x b id u [c H]. exists c. right. exact H. Qed.

(* the two endpoint lookups of add_relation, from state s *)
Lemma two_ends : forall s x0 p0 x1 p1 s1 st0 id0 s2 st1 id1,
  get_node s (Some x0) p0 = (s1, st0, id0) -> get_node s1 (Some x1) p1 = (s2, st1, id1) ->
  drawn s (st0 ++ st1) id0 (qn_uri x0) /\ drawn s (st0 ++ st1) id1 (qn_uri x1).
Proof.
  intros s x0 p0 x1 p1 s1 st0 id0 s2 st1 id1 G0 G1.
  destruct (get_node_spec _ _ _ _ _ _ G0) as [L0 [[[A0 [E0 ES]]|[N0 H0]] _]];
  destruct (get_node_spec _ _ _ _ _ _ G1) as [L1 [[[A1 [E1 ES1]]|[N1 H1]] _]].
  - subst. split; [left; exact A0 | left; exact A1].
  - subst. split; [left; exact A0 | right; exact H1].
  - split; [right; apply has_node_app_l; exact H0|].
    destruct (string_dec (qn_uri x1) (qn_uri x0)) as [E|NE].
    + rewrite E in A1. rewrite L0 in A1. inversion A1; subst id1. rewrite E. right. apply has_node_app_l. exact H0.
    + left. exact (get_node_back _ _ _ _ _ _ G0 _ _ NE A1).
  - split; [right; apply has_node_app_l; exact H0 | right; apply has_node_app_r; exact H1].
Qed.

Theorem relation_path : forall o s r l0 x0 l1 x1 more s' st,
  ref_args r = (l0, Some x0) :: (l1, Some x1) :: more -> add_relation o s r = (s', st) ->
  exists id0 id1, path st id0 id1 (edge_label (rkind r)) /\
                  drawn s st id0 (qn_uri x0) /\ drawn s st id1 (qn_uri x1).
Proof.
  intros o s r l0 x0 l1 x1 more s' st RA H. unfold add_relation in H. rewrite RA in H.
  destruct ((match more with [] => false | _ => true end && o_nary o) || (o_ra o && match nonref r with [] => false | _ => true end))%bool.
  - unfold get_bnode in H.
    set (sb := mkDS (cn s) (S (cb s)) (cc s) (ca s) (nmap s)) in *.
    destruct (get_node sb (Some x0) (lookup l0 inferred_element_class)) as [[s2 st0] id0] eqn:G0.
    destruct (get_node s2 (Some x1) (lookup l1 inferred_element_class)) as [[s3 st1] id1] eqn:G1.
    destruct (if (match more with [] => false | _ => true end && o_nary o)%bool then nary_edges s3 (nid "b" (S (cb s))) more else (s3, [])) as [s4 stn].
    destruct (if (o_ra o && match nonref r with [] => false | _ => true end)%bool then annotate s4 (nid "b" (S (cb s))) r else (s4, [])) as [s5 sta].
    inversion H; subst s' st. clear H.
    destruct (two_ends sb x0 _ x1 _ s2 st0 id0 s3 st1 id1 G0 G1) as [D0 D1].
    exists id0, id1. split; [|split].
    + right. exists (nid "b" (S (cb s))). split; [left; reflexivity|]. split.
      * right. apply in_or_app. right. left. reflexivity.
      * right. apply in_or_app. right. right. apply in_or_app. right. left. reflexivity.
    + destruct D0 as [A|Hn]; [left; exact A|]. right. apply has_node_cons.
      destruct Hn as [c Hc]. exists c. apply in_app_or in Hc. destruct Hc as [Hc|Hc].
      * apply in_or_app. left. exact Hc.
      * apply in_or_app. right. right. apply in_or_app. left. exact Hc.
    + destruct D1 as [A|Hn]; [left; exact A|]. right. apply has_node_cons.
      destruct Hn as [c Hc]. exists c. apply in_app_or in Hc. destruct Hc as [Hc|Hc].
      * apply in_or_app. left. exact Hc.
      * apply in_or_app. right. right. apply in_or_app. left. exact Hc.
  - destruct (get_node s (Some x0) (lookup l0 inferred_element_class)) as [[s1 st0] id0] eqn:G0.
    destruct (get_node s1 (Some x1) (lookup l1 inferred_element_class)) as [[s2 st1] id1] eqn:G1.
    inversion H; subst s' st. clear H.
    destruct (two_ends s x0 _ x1 _ s1 st0 id0 s2 st1 id1 G0 G1) as [D0 D1].
    exists id0, id1. split; [|split].
    + left. apply in_or_app. right. apply in_or_app. right. left. reflexivity.
    + destruct D0 as [A|[c Hc]]; [left; exact A|]. right. exists c. rewrite app_assoc. apply in_or_app. left. exact Hc.
    + destruct D1 as [A|[c Hc]]; [left; exact A|]. right. exists c. rewrite app_assoc. apply in_or_app. left. exact Hc.
Qed.

(* ---- the further ends of an n-ary relation *)
Lemma get_node_keeps : forall s q pt s' st id, get_node s (Some q) pt = (s', st, id) ->
  forall u x, lookup u (nmap s) = Some x -> lookup u (nmap s') = Some x.
Proof.
  intros s q pt s' st id H u x L. unfold get_node in H. destruct (lookup (qn_uri q) (nmap s)) as [i|] eqn:E.
  - inversion H; subst. exact L.
  - inversion H; subst. cbn [nmap]. destruct (string_dec u (qn_uri q)) as [->|NE]; [rewrite E in L; discriminate|].
    rewrite lookup_dset_other by (intro X; apply NE; symmetry; exact X). exact L.
Qed.

Theorem nary_further_ends : forall rest s b s' st, nary_edges s b rest = (s', st) ->
  (forall u x, lookup u (nmap s) = Some x -> lookup u (nmap s') = Some x) /\
  forall l q, In (l, Some q) rest ->
    exists id, In (SEdge b id (Some l) false) st /\ lookup (qn_uri q) (nmap s') = Some id.
Proof.
  induction rest as [|[l [q|]] rest IH]; intros s b s' st H; cbn [nary_edges] in H.
  - inversion H; subst. split; [intros; assumption | intros l q []].
  - destruct (get_node s (Some q) (lookup l inferred_element_class)) as [[s1 st1] id] eqn:G.
    destruct (nary_edges s1 b rest) as [s2 st2] eqn:N. inversion H; subst s' st. clear H.
    destruct (IH _ _ _ _ N) as [K2 E2].
    pose proof (get_node_keeps _ _ _ _ _ _ G) as K1.
    split; [intros u x L; apply K2; apply K1; exact L|].
    intros l' q' [X|X].
    + inversion X; subst l' q'. exists id. split.
      * apply in_or_app. right. left. reflexivity.
      * apply K2. exact (proj1 (get_node_spec _ _ _ _ _ _ G)).
    + destruct (E2 l' q' X) as [i [I1 I2]]. exists i. split; [|exact I2].
      apply in_or_app. right. right. exact I1.
  - destruct (IH _ _ _ _ H) as [K2 E2]. split; [exact K2|].
    intros l' q' [X|X]; [discriminate X | exact (E2 l' q' X)].
Qed.

(* ---- the premises are satisfiable: a usage with a time-less third... a derivation with all five references *)
Example relation_path_applies :
  let ex l := mkQn (mkNs "ex" "http://e/") l in
  let r := mkRec "Derivation" None [(prov_qn "generatedEntity", [VQn (ex "e2")]); (prov_qn "usedEntity", [VQn (ex "e1")]);
                                    (prov_qn "activity", [VQn (ex "a")]); (prov_qn "generation", [VQn (ex "g")]);
                                    (prov_qn "usage", [VQn (ex "u")])] in
  snd (add_relation (mkDO true true true) (mkDS 0 0 0 0 []) r)
  = [SNode "b1" "blank" None; SNode "n1" "gen:Entity" (Some "http://e/e2"); SEdge "n1" "b1" (Some "wasDerivedFrom") false;
     SNode "n2" "gen:Entity" (Some "http://e/e1"); SEdge "b1" "n2" None false;
     SNode "n3" "gen:Activity" (Some "http://e/a"); SEdge "b1" "n3" (Some "activity") false;
     SNode "n4" "gen:-" (Some "http://e/g"); SEdge "b1" "n4" (Some "generation") false;
     SNode "n5" "gen:-" (Some "http://e/u"); SEdge "b1" "n5" (Some "usage") false].
Proof. vm_compute. reflexivity. Qed.

(* ---- relations add no element nodes; a bundle's elements are drawn inside its cluster *)
Definition nonelem (x : stmt) : Prop :=
  match x with SNode _ cls (Some _) => starts_with "elem:" cls = false | _ => True end.

Lemma nonelem_nodes : forall st, Forall nonelem st -> elem_nodes st = [].
Proof.
  induction st as [|x st IH]; intros F; [reflexivity|]. inversion F as [|y l H F']; subst.
  rewrite elem_nodes_cons, (IH F'), app_nil_r. destruct x as [id cls [u|]|t h lab link|name url]; try reflexivity.
  cbn [nonelem] in H. cbn [elem_nodes flat_map]. rewrite H. reflexivity.
Qed.

Ltac nonelems :=
  repeat first [ apply Forall_nil
               | apply Forall_app; split
               | apply Forall_cons; [first [exact Logic.I | reflexivity]|]
               | eassumption ].

Lemma get_node_nonelem : forall s q pt s' st id, get_node s q pt = (s', st, id) -> Forall nonelem st.
Proof.
  intros s q pt s' st id H. destruct q as [x|]; unfold get_node, get_bnode in H.
  - destruct (lookup (qn_uri x) (nmap s)); inversion H; subst; nonelems.
  - inversion H; subst. nonelems.
Qed.

Lemma annotate_nonelem : forall s node r s' st, annotate s node r = (s', st) -> Forall nonelem st.
Proof. intros s node r s' st H. unfold annotate in H. destruct (nonref r); inversion H; subst; nonelems. Qed.

Lemma nary_nonelem : forall rest s b s' st, nary_edges s b rest = (s', st) -> Forall nonelem st.
Proof.
  induction rest as [|[l [q|]] rest IH]; intros s b s' st H; cbn [nary_edges] in H.
  - inversion H; subst. nonelems.
  - destruct (get_node s (Some q) (lookup l inferred_element_class)) as [[s1 st1] id] eqn:G.
    destruct (nary_edges s1 b rest) as [s2 st2] eqn:N. inversion H; subst.
    pose proof (get_node_nonelem _ _ _ _ _ _ G). pose proof (IH _ _ _ _ N). nonelems.
  - exact (IH _ _ _ _ H).
Qed.

Lemma add_relation_nonelem : forall o s r s' st, add_relation o s r = (s', st) -> Forall nonelem st.
Proof.
  intros o s r s' st H. unfold add_relation in H.
  destruct (ref_args r) as [|[l0 q0] [|[l1 q1] more]]; try (inversion H; subst; nonelems).
  destruct ((match more with [] => false | _ => true end && o_nary o) || (o_ra o && match nonref r with [] => false | _ => true end))%bool.
  - unfold get_bnode in H.
    destruct (get_node _ q0 (lookup l0 inferred_element_class)) as [[s2 st0] id0] eqn:G0.
    destruct (get_node s2 q1 (lookup l1 inferred_element_class)) as [[s3 st1] id1] eqn:G1.
    pose proof (get_node_nonelem _ _ _ _ _ _ G0). pose proof (get_node_nonelem _ _ _ _ _ _ G1).
    destruct ((match more with [] => false | _ => true end && o_nary o)%bool);
    destruct ((o_ra o && match nonref r with [] => false | _ => true end)%bool).
    + destruct (nary_edges s3 _ more) as [s4 stn] eqn:N. destruct (annotate s4 _ r) as [s5 sta] eqn:A. inversion H; subst.
      pose proof (nary_nonelem _ _ _ _ _ N). pose proof (annotate_nonelem _ _ _ _ _ A). nonelems.
    + destruct (nary_edges s3 _ more) as [s4 stn] eqn:N. inversion H; subst.
      pose proof (nary_nonelem _ _ _ _ _ N). nonelems.
    + destruct (annotate s3 _ r) as [s5 sta] eqn:A. inversion H; subst.
      pose proof (annotate_nonelem _ _ _ _ _ A). nonelems.
    + inversion H; subst. nonelems.
  - destruct (get_node s q0 (lookup l0 inferred_element_class)) as [[s1 st0] id0] eqn:G0.
    destruct (get_node s1 q1 (lookup l1 inferred_element_class)) as [[s2 st1] id1] eqn:G1.
    pose proof (get_node_nonelem _ _ _ _ _ _ G0). pose proof (get_node_nonelem _ _ _ _ _ _ G1).
    inversion H; subst. nonelems.
Qed.

Lemma fold_relations_no_elem : forall o rels s s' st, fold_stmts (add_relation o) s rels = (s', st) -> elem_nodes st = [].
Proof.
  induction rels as [|r rels IH]; intros s s' st H; cbn [fold_stmts] in H; [inversion H; reflexivity|].
  destruct (add_relation o s r) as [s1 a] eqn:E1. destruct (fold_stmts (add_relation o) s1 rels) as [s2 b] eqn:E2.
  inversion H; subst. rewrite elem_nodes_app, (nonelem_nodes _ (add_relation_nonelem _ _ _ _ _ E1)), (IH _ _ _ E2). reflexivity.
Qed.

(* the cluster of a bundle carries the bundle's URI and holds exactly one element node per element record of the bundle *)
Theorem cluster_elements : forall o s kb s' sub body, bundle_cluster o s kb = (s', (sub, body)) ->
  (exists name, sub = SSub name (match bid (snd kb) with Some q => qn_uri q | None => "" end)) /\
  elem_nodes body = flat_map elem_key (filter (fun r => is_element (rkind r)) (brecs (snd kb))).
Proof.
  intros o s kb s' sub body H. unfold bundle_cluster in H.
  destruct (container_stmts o _ (brecs (snd kb))) as [[s1 a] rels] eqn:C.
  destruct (fold_stmts (add_relation o) s1 rels) as [s2 c] eqn:R. inversion H; subst.
  split; [eexists; reflexivity|].
  rewrite elem_nodes_app, (fold_relations_no_elem _ _ _ _ _ R), app_nil_r.
  exact (proj1 (elements_one_node_each _ _ _ _ _ _ C)).
Qed.

(* ---- node_map is sound: every name it binds has a node statement with that identifier and that URL among the
   statements emitted so far (so "drawn earlier" in relation_path means: a node of that URI exists) *)
Definition MapOK (s : dst) (out : list stmt) : Prop :=
  forall u id, lookup u (nmap s) = Some id -> has_node out id u.

Lemma MapOK_more : forall s out st, MapOK s out -> MapOK s (out ++ st).
Proof. intros s out st M u id L. apply has_node_app_l. exact (M u id L). Qed.

Lemma MapOK_same_map : forall s s' out, nmap s' = nmap s -> MapOK s out -> MapOK s' out.
Proof. intros s s' out E M u id L. rewrite E in L. exact (M u id L). Qed.

Lemma annotate_map : forall s node r s' st, annotate s node r = (s', st) -> nmap s' = nmap s.
Proof. intros s node r s' st H. unfold annotate in H. destruct (nonref r); inversion H; reflexivity. Qed.

Lemma add_elem_MapOK : forall o s r s' st out, add_elem o s r = (s', st) -> MapOK s out -> MapOK s' (out ++ st).
Proof.
  intros o s r s' st out H M. unfold add_elem in H. destruct (rid r) as [q|]; [|inversion H; subst; apply MapOK_more; exact M].
  set (s1 := mkDS (S (cn s)) (cb s) (cc s) (ca s) (dset (qn_uri q) (nid "n" (S (cn s))) (nmap s))) in *.
  assert (M1 : forall tl, MapOK s1 (out ++ SNode (nid "n" (S (cn s))) ("elem:" ++ rkind r) (Some (qn_uri q)) :: tl)).
  { intros tl u id L. cbn [nmap s1] in L. destruct (string_dec u (qn_uri q)) as [->|NE].
    - rewrite lookup_dset_same in L. inversion L; subst. apply has_node_app_r. eexists. left. reflexivity.
    - rewrite lookup_dset_other in L by (intro X; apply NE; symmetry; exact X). apply has_node_app_l. exact (M u id L). }
  destruct (o_ea o).
  - destruct (annotate s1 _ r) as [s2 an] eqn:EA. inversion H; subst.
    apply (MapOK_same_map s1 _ _ (annotate_map _ _ _ _ _ EA)). apply M1.
  - inversion H; subst. apply M1.
Qed.

Lemma get_node_MapOK : forall s q pt s' st id out, get_node s q pt = (s', st, id) -> MapOK s out -> MapOK s' (out ++ st).
Proof.
  intros s q pt s' st id out H M. destruct q as [x|]; unfold get_node, get_bnode in H.
  - destruct (lookup (qn_uri x) (nmap s)) as [i|] eqn:E; inversion H; subst; [apply MapOK_more; exact M|].
    intros u j L. cbn [nmap] in L. destruct (string_dec u (qn_uri x)) as [->|NE].
    + rewrite lookup_dset_same in L. inversion L; subst. apply has_node_app_r. eexists. left. reflexivity.
    + rewrite lookup_dset_other in L by (intro X; apply NE; symmetry; exact X). apply has_node_app_l. exact (M u j L).
  - inversion H; subst. apply MapOK_more. exact M.
Qed.

Lemma nary_MapOK : forall rest s b s' st out, nary_edges s b rest = (s', st) -> MapOK s out -> MapOK s' (out ++ st).
Proof.
  induction rest as [|[l [q|]] rest IH]; intros s b s' st out H M; cbn [nary_edges] in H.
  - inversion H; subst. apply MapOK_more. exact M.
  - destruct (get_node s (Some q) (lookup l inferred_element_class)) as [[s1 st1] id] eqn:G.
    destruct (nary_edges s1 b rest) as [s2 st2] eqn:N. inversion H; subst.
    pose proof (get_node_MapOK _ _ _ _ _ _ out G M) as M1.
    assert (M2 : MapOK s1 ((out ++ st1) ++ [SEdge b id (Some l) false])) by (apply MapOK_more; exact M1).
    pose proof (IH _ _ _ _ _ N M2) as M3.
    replace (out ++ st1 ++ SEdge b id (Some l) false :: st2)%list with (((out ++ st1) ++ [SEdge b id (Some l) false]) ++ st2)%list
      by (rewrite <- !app_assoc; reflexivity).
    exact M3.
  - exact (IH _ _ _ _ _ H M).
Qed.

Lemma add_relation_MapOK : forall o s r s' st out, add_relation o s r = (s', st) -> MapOK s out -> MapOK s' (out ++ st).
Proof.
  intros o s r s' st out H M. unfold add_relation in H.
  destruct (ref_args r) as [|[l0 q0] [|[l1 q1] more]]; try (inversion H; subst; apply MapOK_more; exact M).
  destruct ((match more with [] => false | _ => true end && o_nary o) || (o_ra o && match nonref r with [] => false | _ => true end))%bool.
  - unfold get_bnode in H.
    set (sb := mkDS (cn s) (S (cb s)) (cc s) (ca s) (nmap s)) in *. set (b := nid "b" (S (cb s))) in *.
    destruct (get_node sb q0 (lookup l0 inferred_element_class)) as [[s2 st0] id0] eqn:G0.
    destruct (get_node s2 q1 (lookup l1 inferred_element_class)) as [[s3 st1] id1] eqn:G1.
    assert (Mb : MapOK sb (out ++ [SNode b "blank" None])) by (apply MapOK_more; exact M).
    pose proof (get_node_MapOK _ _ _ _ _ _ _ G0 Mb) as M2.
    assert (M2' : MapOK s2 (((out ++ [SNode b "blank" None]) ++ st0) ++ [SEdge id0 b (edge_label (rkind r)) false])) by (apply MapOK_more; exact M2).
    pose proof (get_node_MapOK _ _ _ _ _ _ _ G1 M2') as M3.
    assert (M3' : MapOK s3 (((((out ++ [SNode b "blank" None]) ++ st0) ++ [SEdge id0 b (edge_label (rkind r)) false]) ++ st1) ++ [SEdge b id1 None false]))
      by (apply MapOK_more; exact M3).
    destruct ((match more with [] => false | _ => true end && o_nary o)%bool).
    + destruct (nary_edges s3 b more) as [s4 stn] eqn:N. pose proof (nary_MapOK _ _ _ _ _ _ N M3') as M4.
      destruct ((o_ra o && match nonref r with [] => false | _ => true end)%bool).
      * destruct (annotate s4 b r) as [s5 sta] eqn:A. inversion H; subst.
        apply (MapOK_same_map s4 _ _ (annotate_map _ _ _ _ _ A)).
        match goal with |- MapOK _ ?LL => replace LL with (((((((out ++ [SNode b "blank" None]) ++ st0) ++ [SEdge id0 b (edge_label (rkind r)) false]) ++ st1) ++ [SEdge b id1 None false]) ++ stn) ++ sta)%list by (cbn [app]; rewrite <- ?app_assoc; cbn [app]; rewrite ?app_nil_r; reflexivity) end.
        apply MapOK_more. exact M4.
      * inversion H; subst.
        match goal with |- MapOK _ ?LL => replace LL with ((((((out ++ [SNode b "blank" None]) ++ st0) ++ [SEdge id0 b (edge_label (rkind r)) false]) ++ st1) ++ [SEdge b id1 None false]) ++ stn)%list by (cbn [app]; rewrite <- ?app_assoc; cbn [app]; rewrite ?app_nil_r; reflexivity) end.
        exact M4.
    + destruct ((o_ra o && match nonref r with [] => false | _ => true end)%bool).
      * destruct (annotate s3 b r) as [s5 sta] eqn:A. inversion H; subst.
        apply (MapOK_same_map s3 _ _ (annotate_map _ _ _ _ _ A)).
        match goal with |- MapOK _ ?LL => replace LL with ((((((out ++ [SNode b "blank" None]) ++ st0) ++ [SEdge id0 b (edge_label (rkind r)) false]) ++ st1) ++ [SEdge b id1 None false]) ++ sta)%list by (cbn [app]; rewrite <- ?app_assoc; cbn [app]; rewrite ?app_nil_r; reflexivity) end.
        apply MapOK_more. exact M3'.
      * inversion H; subst.
        match goal with |- MapOK _ ?LL => replace LL with (((((out ++ [SNode b "blank" None]) ++ st0) ++ [SEdge id0 b (edge_label (rkind r)) false]) ++ st1) ++ [SEdge b id1 None false])%list by (cbn [app]; rewrite <- ?app_assoc; cbn [app]; rewrite ?app_nil_r; reflexivity) end.
        exact M3'.
  - destruct (get_node s q0 (lookup l0 inferred_element_class)) as [[s1 st0] id0] eqn:G0.
    destruct (get_node s1 q1 (lookup l1 inferred_element_class)) as [[s2 st1] id1] eqn:G1.
    inversion H; subst.
    pose proof (get_node_MapOK _ _ _ _ _ _ _ G0 M) as M1. pose proof (get_node_MapOK _ _ _ _ _ _ _ G1 M1) as M2.
    match goal with |- MapOK _ ?LL => replace LL with (((out ++ st0) ++ st1) ++ [SEdge id0 id1 (edge_label (rkind r)) false])%list by (cbn [app]; rewrite <- ?app_assoc; cbn [app]; rewrite ?app_nil_r; reflexivity) end.
    apply MapOK_more. exact M2.
Qed.

Lemma fold_MapOK : forall T (f : dst -> T -> dst * list stmt),
  (forall s x s' st out, f s x = (s', st) -> MapOK s out -> MapOK s' (out ++ st)) ->
  forall l s s' st out, fold_stmts f s l = (s', st) -> MapOK s out -> MapOK s' (out ++ st).
Proof.
  intros T f STEP. induction l as [|x l IH]; intros s s' st out H M; cbn [fold_stmts] in H.
  - inversion H; subst. rewrite app_nil_r. exact M.
  - destruct (f s x) as [s1 a] eqn:E1. destruct (fold_stmts f s1 l) as [s2 b] eqn:E2. inversion H; subst.
    rewrite app_assoc. apply (IH _ _ _ _ E2). exact (STEP _ _ _ _ _ E1 M).
Qed.

(* the whole drawing of a unified document: at the end every binding of node_map has its node *)
Theorem node_map_sound : forall o u,
  let '(main, cls) := dot_of_unified o u in
  forall s1 a rels s2 cs s3 c,
    container_stmts o (mkDS 0 0 0 0 []) (brecs (dmain u)) = (s1, a, rels) ->
    clusters o s1 (dbundles u) = (s2, cs) ->
    fold_stmts (add_relation o) s2 rels = (s3, c) ->
    MapOK s3 (a ++ concat (map snd cs) ++ c).
Proof.
  intros o u. destruct (dot_of_unified o u) as [main cls]. intros s1 a rels s2 cs s3 c C K R.
  assert (M0 : MapOK (mkDS 0 0 0 0 []) []) by (intros x id L; discriminate L).
  assert (M1 : MapOK s1 a).
  { unfold container_stmts in C.
    destruct (fold_stmts (add_elem o) (mkDS 0 0 0 0 []) (filter (fun r => is_element (rkind r)) (brecs (dmain u)))) as [sx ax] eqn:E.
    inversion C; subst. exact (fold_MapOK _ _ (add_elem_MapOK o) _ _ _ _ [] E M0). }
  assert (M2 : MapOK s2 (a ++ concat (map snd cs))).
  { clear R M0 C. revert s1 a s2 cs K M1. induction (dbundles u) as [|kb bs IH]; intros s1 a s2 cs K M1; cbn [clusters] in K.
    - inversion K; subst. cbn [map concat]. rewrite app_nil_r. exact M1.
    - destruct (bundle_cluster o s1 kb) as [sa [sub body]] eqn:B. destruct (clusters o sa bs) as [sb cs'] eqn:K'.
      inversion K; subst. cbn [map concat snd]. rewrite app_assoc. apply (IH _ _ _ _ K').
      unfold bundle_cluster in B.
      set (s0 := mkDS (cn s1) (cb s1) (S (cc s1)) (ca s1) (nmap s1)) in *.
      destruct (container_stmts o s0 (brecs (snd kb))) as [[sc ac] relsc] eqn:CC.
      destruct (fold_stmts (add_relation o) sc relsc) as [sd cd] eqn:RR. inversion B; subst.
      assert (Ms0 : MapOK s0 a) by (apply (MapOK_same_map s1 s0 a eq_refl M1)).
      unfold container_stmts in CC.
      destruct (fold_stmts (add_elem o) s0 (filter (fun r => is_element (rkind r)) (brecs (snd kb)))) as [sx ax] eqn:E.
      inversion CC; subst.
      pose proof (fold_MapOK _ _ (add_elem_MapOK o) _ _ _ _ a E Ms0) as Mc.
      pose proof (fold_MapOK _ _ (add_relation_MapOK o) _ _ _ _ _ RR Mc) as Md.
      rewrite <- app_assoc in Md. exact Md. }
  rewrite app_assoc. exact (fold_MapOK _ _ (add_relation_MapOK o) _ _ _ _ _ R M2).
Qed.

(* ---- node identifiers are pairwise different: "exactly one node" is about distinct nodes *)
Definition node_ids (st : list stmt) : list string :=
  flat_map (fun x => match x with SNode id _ _ => [id] | _ => [] end) st.

Lemma node_ids_app : forall a b, node_ids (a ++ b) = (node_ids a ++ node_ids b)%list.
Proof. intros. unfold node_ids. apply flat_map_app. Qed.

(* an identifier made by one of the three counters, at most the counter's value *)
Definition id_le (s : dst) (id : string) : Prop :=
  exists k, (id = nid "n" k /\ k <= cn s) \/ (id = nid "b" k /\ k <= cb s) \/ (id = nid "ann" k /\ k <= ca s).
(* ... and above the values the counters had in s0 *)
Definition id_new (s0 s : dst) (id : string) : Prop :=
  exists k, (id = nid "n" k /\ cn s0 < k <= cn s) \/ (id = nid "b" k /\ cb s0 < k <= cb s) \/ (id = nid "ann" k /\ ca s0 < k <= ca s).

Definition le_st (a b : dst) : Prop := cn a <= cn b /\ cb a <= cb b /\ ca a <= ca b.

Lemma nid_inj : forall p a b, nid p a = nid p b -> a = b.
Proof. intros p a b H. unfold nid in H. apply append_inj_l in H. apply str_of_nat_inj. exact H. Qed.

Lemma nid_classes : forall a b, nid "n" a <> nid "b" b /\ nid "n" a <> nid "ann" b /\ nid "b" a <> nid "ann" b.
Proof. intros a b. unfold nid. cbn [append]. repeat split; discriminate. Qed.

Lemma new_not_le : forall s0 s id, id_new s0 s id -> id_le s0 id -> False.
Proof.
  intros s0 s id [k N] [j L].
  destruct N as [[E1 B1]|[[E1 B1]|[E1 B1]]]; destruct L as [[E2 B2]|[[E2 B2]|[E2 B2]]]; subst id;
    try (apply nid_inj in E2; lia);
    first [ exfalso; exact (proj1 (nid_classes _ _) E2) | exfalso; exact (proj1 (nid_classes _ _) (eq_sym E2))
          | exfalso; exact (proj1 (proj2 (nid_classes _ _)) E2) | exfalso; exact (proj1 (proj2 (nid_classes _ _)) (eq_sym E2))
          | exfalso; exact (proj2 (proj2 (nid_classes _ _)) E2) | exfalso; exact (proj2 (proj2 (nid_classes _ _)) (eq_sym E2)) ].
Qed.

Lemma NoDup_app_disj : forall (A : Type) (a b : list A), NoDup a -> NoDup b -> (forall x, In x a -> In x b -> False) -> NoDup (a ++ b).
Proof.
  intros A a b Na Nb D. induction a as [|x a IH]; [exact Nb|].
  inversion Na as [|y l NI Na']; subst. cbn [app]. constructor.
  - intro H. apply in_app_or in H. destruct H as [H|H]; [exact (NI H) | exact (D x (or_introl eq_refl) H)].
  - apply IH; [exact Na' | intros z Hz Hb; exact (D z (or_intror Hz) Hb)].
Qed.

(* a step: counters grow, the identifiers of the new nodes are new and pairwise different *)
Definition step_ok (s s' : dst) (st : list stmt) : Prop :=
  le_st s s' /\ NoDup (node_ids st) /\ forall id, In id (node_ids st) -> id_new s s' id.

Lemma step_refl : forall s, step_ok s s [].
Proof. intros s. split; [repeat split; apply le_n|]. split; [constructor | intros id []]. Qed.

Lemma id_new_widen : forall a b c d id, le_st a b -> le_st c d -> id_new b c id -> id_new a d id.
Proof.
  intros a b c d id [A1 [A2 A3]] [C1 [C2 C3]] [k H]. exists k.
  destruct H as [[E B]|[[E B]|[E B]]]; [left | right; left | right; right]; split; try exact E; lia.
Qed.

Lemma step_trans : forall s1 s2 s3 a b, step_ok s1 s2 a -> step_ok s2 s3 b -> step_ok s1 s3 (a ++ b).
Proof.
  intros s1 s2 s3 a b [L1 [N1 I1]] [L2 [N2 I2]].
  assert (L13 : le_st s1 s3) by (destruct L1 as [? [? ?]], L2 as [? [? ?]]; repeat split; lia).
  split; [exact L13|]. rewrite node_ids_app. split.
  - apply NoDup_app_disj; [exact N1 | exact N2|].
    intros id Ha Hb. destruct (I1 id Ha) as [k Hk]. apply (new_not_le s2 s3 id (I2 id Hb)).
    exists k. destruct L1 as [? [? ?]]. destruct Hk as [[E B]|[[E B]|[E B]]]; [left | right; left | right; right]; split; try exact E; lia.
  - intros id H. apply in_app_or in H. destruct H as [H|H].
    + apply (id_new_widen s1 s1 s2 s3 id); [repeat split; apply le_n | exact L2 | exact (I1 id H)].
    + apply (id_new_widen s1 s2 s3 s3 id); [exact L1 | repeat split; apply le_n | exact (I2 id H)].
Qed.

Lemma step_one_n : forall s cls url nm, 
  step_ok s (mkDS (S (cn s)) (cb s) (cc s) (ca s) nm) [SNode (nid "n" (S (cn s))) cls url].
Proof.
  intros s cls url nm. split; [unfold le_st; cbn [cn cb ca]; repeat split; lia|]. split; [cbn; constructor; [intros [] | constructor]|].
  intros id [<-|[]]. exists (S (cn s)). left. split; [reflexivity | cbn; lia].
Qed.

Lemma step_counters_only : forall s s', cn s' = cn s -> cb s' = cb s -> ca s' = ca s -> step_ok s s' [].
Proof. intros s s' A B C. split; [repeat split; lia|]. split; [constructor | intros id []]. Qed.

Lemma annotate_step : forall s node r s' st, annotate s node r = (s', st) -> step_ok s s' st.
Proof.
  intros s node r s' st H. unfold annotate in H. destruct (nonref r); inversion H; subst; [apply step_refl|].
  split; [unfold le_st; cbn [cn cb ca]; repeat split; lia|]. split; [cbn; constructor; [intros [] | constructor]|].
  intros id [<-|[]]. exists (S (ca s)). right. right. split; [reflexivity | cbn; lia].
Qed.

Lemma add_elem_step : forall o s r s' st, add_elem o s r = (s', st) -> step_ok s s' st.
Proof.
  intros o s r s' st H. unfold add_elem in H. destruct (rid r) as [q|]; [|inversion H; subst; apply step_refl].
  destruct (o_ea o).
  - destruct (annotate _ _ r) as [s2 an] eqn:EA. inversion H; subst.
    apply (step_trans s _ s' [SNode (nid "n" (S (cn s))) ("elem:" ++ rkind r) (Some (qn_uri q))] an (step_one_n s _ _ _) (annotate_step _ _ _ _ _ EA)).
  - inversion H; subst. apply step_one_n.
Qed.

Lemma get_bnode_step : forall s s' st id, get_bnode s = (s', st, id) -> step_ok s s' st.
Proof.
  intros s s' st id H. unfold get_bnode in H. inversion H; subst.
  split; [unfold le_st; cbn [cn cb ca]; repeat split; lia|]. split; [cbn; constructor; [intros [] | constructor]|].
  intros x [<-|[]]. exists (S (cb s)). right. left. split; [reflexivity | cbn; lia].
Qed.

Lemma get_node_step : forall s q pt s' st id, get_node s q pt = (s', st, id) -> step_ok s s' st.
Proof.
  intros s q pt s' st id H. destruct q as [x|]; [|exact (get_bnode_step _ _ _ _ H)].
  unfold get_node in H. destruct (lookup (qn_uri x) (nmap s)); inversion H; subst; [apply step_refl | apply step_one_n].
Qed.

Lemma step_edge : forall s s' a e b, (match e with SNode _ _ _ => False | _ => True end) ->
  step_ok s s' (a ++ b) -> step_ok s s' (a ++ e :: b).
Proof.
  intros s s' a e b NE [L [N I]]. split; [exact L|].
  assert (E : node_ids (a ++ e :: b) = node_ids (a ++ b)).
  { rewrite !node_ids_app. f_equal. destruct e; [destruct NE | reflexivity | reflexivity]. }
  rewrite E. split; assumption.
Qed.

Lemma nary_step : forall rest s b s' st, nary_edges s b rest = (s', st) -> step_ok s s' st.
Proof.
  induction rest as [|[l [q|]] rest IH]; intros s b s' st H; cbn [nary_edges] in H.
  - inversion H; subst. apply step_refl.
  - destruct (get_node s (Some q) (lookup l inferred_element_class)) as [[s1 st1] id] eqn:G.
    destruct (nary_edges s1 b rest) as [s2 st2] eqn:N. inversion H; subst.
    apply step_edge; [exact Logic.I|]. eapply step_trans; [exact (get_node_step _ _ _ _ _ _ G) | exact (IH _ _ _ _ N)].
  - exact (IH _ _ _ _ H).
Qed.

Lemma add_relation_step : forall o s r s' st, add_relation o s r = (s', st) -> step_ok s s' st.
Proof.
  intros o s r s' st H. unfold add_relation in H.
  destruct (ref_args r) as [|[l0 q0] [|[l1 q1] more]]; try (inversion H; subst; apply step_refl).
  destruct ((match more with [] => false | _ => true end && o_nary o) || (o_ra o && match nonref r with [] => false | _ => true end))%bool.
  - destruct (get_bnode s) as [[sb stb] b] eqn:GB.
    destruct (get_node sb q0 (lookup l0 inferred_element_class)) as [[s2 st0] id0] eqn:G0.
    destruct (get_node s2 q1 (lookup l1 inferred_element_class)) as [[s3 st1] id1] eqn:G1.
    destruct (if (match more with [] => false | _ => true end && o_nary o)%bool then nary_edges s3 b more else (s3, [])) as [s4 stn] eqn:EN.
    destruct (if (o_ra o && match nonref r with [] => false | _ => true end)%bool then annotate s4 b r else (s4, [])) as [s5 sta] eqn:EA.
    inversion H; subst.
    assert (SN : step_ok s3 s4 stn).
    { destruct ((match more with [] => false | _ => true end && o_nary o)%bool); [exact (nary_step _ _ _ _ _ EN) | inversion EN; subst; apply step_refl]. }
    assert (SA : step_ok s4 s' sta).
    { destruct ((o_ra o && match nonref r with [] => false | _ => true end)%bool); [exact (annotate_step _ _ _ _ _ EA) | inversion EA; subst; apply step_refl]. }
    eapply step_trans; [exact (get_bnode_step _ _ _ _ GB)|].
    eapply step_trans; [exact (get_node_step _ _ _ _ _ _ G0)|].
    change (SEdge id0 b (edge_label (rkind r)) false :: st1 ++ SEdge b id1 None false :: stn ++ sta)%list
      with ([] ++ SEdge id0 b (edge_label (rkind r)) false :: (st1 ++ SEdge b id1 None false :: stn ++ sta))%list.
    apply step_edge; [exact Logic.I|]. cbn [app].
    apply step_edge; [exact Logic.I|]. eapply step_trans; [exact (get_node_step _ _ _ _ _ _ G1)|].
    eapply step_trans; [exact SN | exact SA].
  - destruct (get_node s q0 (lookup l0 inferred_element_class)) as [[s1 st0] id0] eqn:G0.
    destruct (get_node s1 q1 (lookup l1 inferred_element_class)) as [[s2 st1] id1] eqn:G1.
    inversion H; subst.
    eapply step_trans; [exact (get_node_step _ _ _ _ _ _ G0)|].
    replace (st1 ++ [SEdge id0 id1 (edge_label (rkind r)) false])%list with (st1 ++ SEdge id0 id1 (edge_label (rkind r)) false :: [])%list by reflexivity.
    apply step_edge; [exact Logic.I|]. rewrite app_nil_r. exact (get_node_step _ _ _ _ _ _ G1).
Qed.

Lemma fold_step : forall T (f : dst -> T -> dst * list stmt),
  (forall s x s' st, f s x = (s', st) -> step_ok s s' st) ->
  forall l s s' st, fold_stmts f s l = (s', st) -> step_ok s s' st.
Proof.
  intros T f STEP. induction l as [|x l IH]; intros s s' st H; cbn [fold_stmts] in H.
  - inversion H; subst. apply step_refl.
  - destruct (f s x) as [s1 a] eqn:E1. destruct (fold_stmts f s1 l) as [s2 b] eqn:E2. inversion H; subst.
    eapply step_trans; [exact (STEP _ _ _ _ E1) | exact (IH _ _ _ E2)].
Qed.

(* all node statements of the drawing of a unified document — main graph and clusters — carry pairwise different identifiers *)
Theorem node_ids_distinct : forall o u s1 a rels s2 cs s3 c,
  container_stmts o (mkDS 0 0 0 0 []) (brecs (dmain u)) = (s1, a, rels) ->
  clusters o s1 (dbundles u) = (s2, cs) ->
  fold_stmts (add_relation o) s2 rels = (s3, c) ->
  NoDup (node_ids (a ++ concat (map snd cs) ++ c)).
Proof.
  intros o u s1 a rels s2 cs s3 c C K R.
  assert (S1 : step_ok (mkDS 0 0 0 0 []) s1 a).
  { unfold container_stmts in C.
    destruct (fold_stmts (add_elem o) (mkDS 0 0 0 0 []) (filter (fun r => is_element (rkind r)) (brecs (dmain u)))) as [sx ax] eqn:E.
    inversion C; subst. exact (fold_step _ _ (add_elem_step o) _ _ _ _ E). }
  assert (S2 : step_ok s1 s2 (concat (map snd cs))).
  { clear R C S1. revert s1 s2 cs K. induction (dbundles u) as [|kb bs IH]; intros s1 s2 cs K; cbn [clusters] in K.
    - inversion K; subst. apply step_refl.
    - destruct (bundle_cluster o s1 kb) as [sa [sub body]] eqn:B. destruct (clusters o sa bs) as [sb cs'] eqn:K'.
      inversion K; subst. cbn [map concat snd]. eapply step_trans; [|exact (IH _ _ _ K')].
      unfold bundle_cluster in B.
      set (s0 := mkDS (cn s1) (cb s1) (S (cc s1)) (ca s1) (nmap s1)) in *.
      destruct (container_stmts o s0 (brecs (snd kb))) as [[sc ac] relsc] eqn:CC.
      destruct (fold_stmts (add_relation o) sc relsc) as [sd cd] eqn:RR. inversion B; subst.
      unfold container_stmts in CC.
      destruct (fold_stmts (add_elem o) s0 (filter (fun r => is_element (rkind r)) (brecs (snd kb)))) as [sx ax] eqn:E.
      inversion CC; subst.
      pose proof (step_counters_only s1 s0 eq_refl eq_refl eq_refl) as S0.
      eapply (step_trans s1 s0 sa []); [exact S0|].
      eapply step_trans; [exact (fold_step _ _ (add_elem_step o) _ _ _ _ E) | exact (fold_step _ _ (add_relation_step o) _ _ _ _ RR)]. }
  pose proof (fold_step _ _ (add_relation_step o) _ _ _ _ R) as S3.
  exact (proj1 (proj2 (step_trans _ _ _ _ _ S1 (step_trans _ _ _ _ _ S2 S3)))).
Qed.
