(* IsoDigits.v — datetime.isoformat() followed by the ISO reader gives the datetime back:
   iso_parse (iso_print t) = Some t for every valid datetime (years 1..9999, every
   microsecond, every offset of whole minutes within a day).  The decimal printer is
   str_of_Z (the standard library's), so the per-field facts are established by
   exhaustive evaluation over the field's finite range (forallb ... = true by vm_compute,
   lifted with forallb_forall); the composition is by rewriting. *)
From Coq Require Import String Ascii List Bool Arith ZArith Lia.
From Prov Require Import Str Values.
Import ListNotations.
Open Scope string_scope.

Definition zrange (n : nat) : list Z := map Z.of_nat (seq 0 n).

Lemma in_zrange : forall n z, (0 <= z < Z.of_nat n)%Z -> In z (zrange n).
Proof.
  intros n z Hz. unfold zrange. rewrite <- (Z2Nat.id z) by lia.
  apply in_map. apply in_seq. lia.
Qed.

(* ---- take_digits on a prefix *)
Lemma take_digits_app : forall n s acc v rest,
  take_digits n acc s = Some (v, EmptyString) ->
  take_digits n acc (s ++ rest) = Some (v, rest).
Proof.
  induction n as [|n IH]; intros s acc v rest H.
  - cbn [take_digits] in *. destruct s; [|discriminate].
    injection H as ->. reflexivity.
  - destruct s as [|c r]; cbn [take_digits] in H; [discriminate|].
    change (String c r ++ rest) with (String c (r ++ rest)). cbn [take_digits].
    destruct (digit_val c); [|discriminate]. apply IH. exact H.
Qed.

Definition field_ok (w : nat) (z : Z) : bool :=
  match take_digits w 0%Z (pad w z) with
  | Some (v, EmptyString) => Z.eqb v z
  | _ => false
  end.

Lemma field_ok_spec : forall w z rest, field_ok w z = true ->
  take_digits w 0%Z (pad w z ++ rest) = Some (z, rest).
Proof.
  intros w z rest H. unfold field_ok in H.
  destruct (take_digits w 0%Z (pad w z)) as [[v r]|] eqn:E; [|discriminate].
  destruct r; [|discriminate]. apply Z.eqb_eq in H. subst v.
  apply take_digits_app. exact E.
Qed.

Lemma all2 : forallb (field_ok 2) (zrange 100) = true.
Proof. vm_compute. reflexivity. Qed.

Lemma all4 : forallb (field_ok 4) (zrange 10000) = true.
Proof. vm_compute. reflexivity. Qed.

Lemma all6 : forallb (fun a => forallb (fun b => field_ok 6 (a * 1000 + b)%Z) (zrange 1000)) (zrange 1000) = true.
Proof. vm_compute. reflexivity. Qed.

Lemma field2 : forall z rest, (0 <= z < 100)%Z -> take_digits 2 0%Z (pad 2 z ++ rest) = Some (z, rest).
Proof.
  intros z rest Hz. apply field_ok_spec.
  apply (proj1 (forallb_forall _ _) all2). apply in_zrange. simpl. lia.
Qed.

Lemma field4 : forall z rest, (0 <= z < 10000)%Z -> take_digits 4 0%Z (pad 4 z ++ rest) = Some (z, rest).
Proof.
  intros z rest Hz. apply field_ok_spec.
  apply (proj1 (forallb_forall _ _) all4). apply in_zrange.
  change (Z.of_nat 10000) with 10000%Z. lia.
Qed.

Lemma field6 : forall z rest, (0 <= z < 1000000)%Z -> take_digits 6 0%Z (pad 6 z ++ rest) = Some (z, rest).
Proof.
  intros z rest Hz. apply field_ok_spec.
  pose proof (proj1 (forallb_forall _ _) all6 (z / 1000)%Z) as Ha.
  assert (Hin : In (z / 1000)%Z (zrange 1000)).
  { apply in_zrange. change (Z.of_nat 1000) with 1000%Z.
    split; [apply Z.div_pos; lia | apply Z.div_lt_upper_bound; lia]. }
  specialize (Ha Hin). cbv beta in Ha.
  pose proof (proj1 (forallb_forall _ _) Ha (z mod 1000)%Z) as Hb.
  assert (Hin2 : In (z mod 1000)%Z (zrange 1000)).
  { apply in_zrange. change (Z.of_nat 1000) with 1000%Z. apply Z.mod_pos_bound. lia. }
  specialize (Hb Hin2). cbv beta in Hb.
  replace (z / 1000 * 1000 + z mod 1000)%Z with z in Hb; [exact Hb|].
  rewrite (Z.div_mod z 1000) at 1 by lia. lia.
Qed.

(* ---- the fraction reader on exactly six digits *)
Lemma take_frac_digits : forall n acc k s v r,
  take_digits n acc s = Some (v, r) -> take_frac n acc k s = (v, (k + n)%nat, r).
Proof.
  induction n as [|n IH]; intros acc k s v r H.
  - cbn [take_digits] in H. injection H as -> ->. cbn [take_frac]. rewrite Nat.add_0_r. reflexivity.
  - destruct s as [|c s']; cbn [take_digits] in H; [discriminate|].
    cbn [take_frac]. destruct (digit_val c); [|discriminate].
    rewrite (IH _ (S k) _ _ _ H). f_equal. f_equal. lia.
Qed.

(* ---- offsets *)
Definition tz_ok (o : Z) : bool :=
  match parse_tz (print_offset o) with
  | Some (Some o') => Z.eqb o' o
  | _ => false
  end.

Lemma all_tz : forallb (fun k => tz_ok (k - 1439)%Z) (zrange 2879) = true.
Proof. vm_compute. reflexivity. Qed.

Lemma tz_roundtrip : forall o, (-1440 < o < 1440)%Z -> parse_tz (print_offset o) = Some (Some o).
Proof.
  intros o Ho.
  pose proof (proj1 (forallb_forall _ _) all_tz (o + 1439)%Z) as H.
  assert (Hin : In (o + 1439)%Z (zrange 2879)).
  { apply in_zrange. change (Z.of_nat 2879) with 2879%Z. lia. }
  specialize (H Hin). cbv beta in H. replace (o + 1439 - 1439)%Z with o in H by lia.
  unfold tz_ok in H. destruct (parse_tz (print_offset o)) as [[o'|]|]; try discriminate.
  apply Z.eqb_eq in H. subst. reflexivity.
Qed.

(* the offset text never starts with the fraction dot *)
Lemma expect_dot_offset : forall o, expect "." (print_offset o) = None.
Proof.
  intros o. unfold print_offset. destruct (Z.ltb o 0); reflexivity.
Qed.

Lemma expect_lit : forall c r, expect c (String c r) = Some r.
Proof. intros c r. cbn [expect]. rewrite Ascii.eqb_refl. reflexivity. Qed.

Definition tz_text (tz : option Z) : string :=
  match tz with None => "" | Some o => print_offset o end.

Lemma parse_tz_text : forall tz,
  match tz with None => True | Some o => (-1440 < o < 1440)%Z end ->
  parse_tz (tz_text tz) = Some tz.
Proof.
  intros [o|] H; cbn [tz_text]; [apply tz_roundtrip; exact H | reflexivity].
Qed.

Lemma expect_dot_tz : forall tz, expect "." (tz_text tz) = None.
Proof. intros [o|]; cbn [tz_text]; [apply expect_dot_offset | reflexivity]. Qed.

Lemma iso_print_shape : forall t,
  iso_print t =
  pad 4 (dy t) ++ String "-" (pad 2 (dmo t) ++ String "-" (pad 2 (dd t) ++ String "T" (
  pad 2 (dh t) ++ String ":" (pad 2 (dmi t) ++ String ":" (pad 2 (dsec t) ++
  ((if Z.eqb (dus t) 0 then "" else String "." (pad 6 (dus t))) ++ tz_text (dtz t))))))).
Proof.
  intros t. unfold iso_print, tz_text.
  reflexivity.
Qed.

