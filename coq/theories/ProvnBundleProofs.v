(* ProvnBundleProofs.v — C06 at document level with bundles: the text get_provn() prints for a document whose
   bundles follow its records — each bundle its own frame (bundle <id> ... endBundle), declarations, blank line and
   record lines, indented one level deeper — is read by the specification's reader as the document's records
   followed by the bundles, each under the URI its identifier denotes with the bundle's declarations in scope. *)
From Coq Require Import String Ascii List Bool Arith ZArith Lia.
From Prov Require Import Str StrProofs Sexp Tables Nsm NsmProofs Values Record RecordProofs World Spec Provn ProvnSpec
  ProvnProofs IsoDigits IsoProofs SpecProofs ProvnSpecProofs ProvnRecProofs ProvnDocProofs.
Import ListNotations.
Open Scope string_scope.

(* ---- white space costs one unit of fuel a character *)
Fixpoint all_ws (s : string) : bool :=
  match s with EmptyString => true | String c r => (is_ws c && all_ws r)%bool end.

Lemma lex_ws : forall w, all_ws w = true -> Lexes any_rest w (String.length w) [].
Proof.
  induction w as [|c w IH]; intros H rest f toks _ L; [exact L|].
  cbn [all_ws] in H. apply andb_true_iff in H. destruct H as [Hc Hw].
  cbn [String.length append Nat.add lex]. rewrite Hc. exact (IH Hw rest f toks Logic.I L).
Qed.

Definition indent (n : nat) : string := String nlc (spaces n).

Lemma spaces_ws : forall n, all_ws (spaces n) = true.
Proof. induction n as [|n IH]; [reflexivity|]. cbn [spaces append all_ws]. exact IH. Qed.

Lemma lex_indent : forall n, Lexes any_rest (indent n) (String.length (indent n)) [].
Proof. intros n. apply lex_ws. cbn [indent all_ws]. exact (spaces_ws n). Qed.

(* ---- the blocks of ProvnDocProofs for any separator that is white space *)
Section Sep.
Variable sep : string.
Hypothesis SEP : Lexes any_rest sep (String.length sep) [].
Let sl := String.length sep.

Lemma records_block_s : forall t rs css, Forall2 (rec_spec_ok t) rs css -> rs <> [] ->
  exists k T, (exists nm T', T = TWord nm :: TLpar :: T') /\ forall rest f toks, lex f rest = Some toks -> stops toks ->
    lex (k + f) (concat_str sep (map record_provn rs) ++ rest) = Some (T ++ toks)%list /\
    forall fuel, total rs + 1 < fuel -> read_exprs fuel t (T ++ toks) = Some (conts rs css, toks).
Proof.
  intros t rs css F. induction F as [|r cs rs css [WN [KN [ID [NE [FO FE]]]]] F IH]; intros NEr; [contradiction|].
  destruct (provn_record t r cs WN KN ID NE FO FE) as [k1 [body I1]].
  destruct rs as [|r2 rs'].
  - inversion F; subst css.
    exists k1, (TWord (rec_name r) :: TLpar :: body)%list. split; [eexists; eexists; reflexivity|]. intros rest f toks L ST.
    destruct (I1 rest f toks L) as [LX RE]. cbn [map concat_str]. split; [exact LX|].
    intros fuel LE. unfold total in LE. cbn [length map list_sum fold_right] in LE.
    destruct fuel as [|f0]; [lia|]. cbn [app read_exprs].
    rewrite (RE (S f0)) by (unfold rbound in LE; lia).
    destruct f0 as [|f1]; [lia|]. rewrite (read_exprs_stop f1 t toks ST). reflexivity.
  - destruct (IH ltac:(discriminate)) as [k2 [T2 [_ I2]]].
    destruct css as [|cs2 css']; [inversion F|].
    exists (k1 + (sl + k2)), (TWord (rec_name r) :: TLpar :: body ++ T2)%list. split; [eexists; eexists; reflexivity|]. intros rest f toks L ST.
    destruct (I2 rest f toks L ST) as [LX2 RE2].
    set (tail := concat_str sep (map record_provn (r2 :: rs')) ++ rest) in *.
    assert (TXT : concat_str sep (map record_provn (r :: r2 :: rs')) ++ rest = record_provn r ++ sep ++ tail).
    { unfold tail. cbn [map concat_str]. rewrite !app_assoc_s. reflexivity. }
    rewrite TXT.
    assert (L1 : lex (sl + (k2 + f)) (sep ++ tail) = Some (T2 ++ toks)%list).
    { apply (SEP tail (k2 + f) (T2 ++ toks)%list Logic.I). exact LX2. }
    destruct (I1 (sep ++ tail) (sl + (k2 + f)) (T2 ++ toks)%list L1) as [LX RE].
    split.
    + rewrite <- !Nat.add_assoc. cbn [app]. rewrite <- app_assoc. exact LX.
    + intros fuel LE. unfold total in LE. cbn [length map list_sum fold_right] in LE.
      destruct fuel as [|f0]; [lia|]. cbn [app read_exprs]. rewrite <- app_assoc.
      rewrite (RE (S f0)) by (unfold rbound in LE; lia).
      rewrite (RE2 f0); [reflexivity|]. unfold total. cbn [length map list_sum fold_right]. lia.
Qed.

Lemma total_le_text_s : forall t rs css, Forall2 (rec_spec_ok t) rs css ->
  total rs + length rs <= String.length (concat_str sep (map record_provn rs)).
Proof.
  intros t rs css F. pose proof (concat_str_len sep (map record_provn rs)) as CL.
  assert (S : list_sum (map rbound rs) + 2 * length rs <= list_sum (map String.length (map record_provn rs))).
  { clear CL. induction F as [|r cs rs css H F IH]; [apply le_n|].
    unfold list_sum in *. cbn [map fold_right length]. pose proof (record_len t r cs H). lia. }
  unfold total. unfold list_sum in *. lia.
Qed.

Fixpoint decls_text_s (ds : list decl) : string :=
  match ds with [] => "" | d :: r => decl_line d ++ sep ++ decls_text_s r end.

Lemma decls_lex_s : forall ds, Forall decl_good ds ->
  exists k, forall rest f toks, lex f rest = Some toks ->
    lex (k + f) (decls_text_s ds ++ rest) = Some (flat_map decl_toks ds ++ toks)%list.
Proof.
  intros ds F. induction F as [|d ds G F IH].
  - exists 0. intros rest f toks L. exact L.
  - destruct IH as [k2 I2].
    destruct d as [u|p u]; cbn [decl_good] in G.
    + exists (3 + (sl + k2)). intros rest f toks L. cbn [decls_text_s decl_line flat_map decl_toks]. rewrite !app_assoc_s.
      rewrite <- !Nat.add_assoc. rewrite <- app_assoc.
      apply (lex_default_line u G _ _ _ Logic.I). apply (SEP _ _ _ Logic.I). apply I2. exact L.
    + exists (5 + (sl + k2)). intros rest f toks L. cbn [decls_text_s decl_line flat_map decl_toks]. rewrite !app_assoc_s.
      rewrite <- !Nat.add_assoc. rewrite <- app_assoc.
      apply (lex_prefix_line (p, u) G _ _ _ Logic.I). apply (SEP _ _ _ Logic.I). apply I2. exact L.
Qed.

Lemma decls_len_s : forall ds, length ds <= String.length (decls_text_s ds).
Proof.
  induction ds as [|d ds IH]; [apply le_n|]. cbn [decls_text_s length]. rewrite !len_app.
  assert (1 <= String.length (decl_line d)) by (destruct d; cbn; lia). lia.
Qed.

(* one container body: declarations, blank line, record lines; what follows does not start a record or a declaration *)
Definition body_text (ds : list decl) (rs : list prec) : string :=
  decls_text_s ds ++ sep ++ concat_str sep (map record_provn rs).

Lemma body_block : forall t0 ds rs css,
  Forall decl_good ds -> Forall2 (rec_spec_ok (fold_left decl_apply ds t0)) rs css -> rs <> [] ->
  exists k T, forall rest f toks, lex f rest = Some toks -> stops toks ->
    lex (k + f) (body_text ds rs ++ rest) = Some (T ++ toks)%list /\
    forall fd fe, length ds <= fd -> total rs + 1 < fe ->
      read_decls t0 (T ++ toks) fd = (fold_left decl_apply ds t0, skipn (length (flat_map decl_toks ds)) (T ++ toks)) /\
      read_exprs fe (fold_left decl_apply ds t0) (skipn (length (flat_map decl_toks ds)) (T ++ toks)) = Some (conts rs css, toks).
Proof.
  intros t0 ds rs css DG F NE. set (t := fold_left decl_apply ds t0) in *.
  destruct (records_block_s t rs css F NE) as [kr [T [[nm [T' ET]] IR]]].
  destruct (decls_lex_s ds DG) as [kd ID].
  exists (kd + (sl + kr)), (flat_map decl_toks ds ++ T)%list. intros rest f toks L ST.
  destruct (IR rest f toks L ST) as [LR RE].
  assert (SK : skipn (length (flat_map decl_toks ds)) ((flat_map decl_toks ds ++ T) ++ toks) = (T ++ toks)%list).
  { rewrite <- app_assoc. rewrite skipn_app, skipn_all, Nat.sub_diag. reflexivity. }
  split.
  - unfold body_text. rewrite !app_assoc_s. rewrite <- !Nat.add_assoc. rewrite <- app_assoc.
    apply ID. apply (SEP _ _ _ Logic.I). exact LR.
  - intros fd fe LD LE. rewrite SK. split.
    + rewrite <- app_assoc. apply read_decls_decls; [exact LD|]. rewrite ET. cbn [app]. apply not_decl_lpar.
    + apply RE. exact LE.
Qed.

Lemma body_len : forall t ds rs css, Forall2 (rec_spec_ok t) rs css ->
  length ds + total rs + length rs <= String.length (body_text ds rs).
Proof.
  intros t ds rs css F. unfold body_text. rewrite !len_app.
  pose proof (decls_len_s ds). pose proof (total_le_text_s t rs css F). lia.
Qed.
End Sep.

(* ---- a container body with or without declarations (the printer writes the blank line only after declarations) *)
Section Body.
Variable sep : string.
Hypothesis SEP : Lexes any_rest sep (String.length sep) [].

Definition cbody (ds : list decl) (rs : list prec) : string :=
  match ds with [] => concat_str sep (map record_provn rs) | _ => body_text sep ds rs end.

Lemma cbody_block : forall t0 ds rs css,
  Forall decl_good ds -> Forall2 (rec_spec_ok (fold_left decl_apply ds t0)) rs css -> rs <> [] ->
  exists k T, forall rest f toks, lex f rest = Some toks -> stops toks ->
    lex (k + f) (cbody ds rs ++ rest) = Some (T ++ toks)%list /\
    forall fd fe, length ds <= fd -> total rs + 1 < fe ->
      exists mid, read_decls t0 (T ++ toks) fd = (fold_left decl_apply ds t0, mid) /\
                  read_exprs fe (fold_left decl_apply ds t0) mid = Some (conts rs css, toks).
Proof.
  intros t0 ds rs css DG F NE. destruct ds as [|d ds].
  - cbn [fold_left] in *. destruct (records_block_s sep SEP t0 rs css F NE) as [kr [T [[nm [T' ET]] IR]]].
    exists kr, T. intros rest f toks L ST. destruct (IR rest f toks L ST) as [LR RE]. split; [exact LR|].
    intros fd fe _ LE. exists (T ++ toks)%list. split; [|apply RE; exact LE].
    apply read_decls_stop. rewrite ET. cbn [app]. apply not_decl_lpar.
  - destruct (body_block sep SEP t0 (d :: ds) rs css DG F NE) as [k [T I]].
    exists k, T. intros rest f toks L ST. destruct (I rest f toks L ST) as [LX RD]. split; [exact LX|].
    intros fd fe LD LE. destruct (RD fd fe LD LE) as [R1 R2]. eexists. split; [exact R1 | exact R2].
Qed.

Lemma cbody_len : forall t ds rs css, Forall2 (rec_spec_ok t) rs css ->
  length ds + total rs + length rs <= String.length (cbody ds rs).
Proof.
  intros t ds rs css F. destruct ds as [|d ds].
  - cbn [cbody length]. pose proof (total_le_text_s sep t rs css F). lia.
  - apply (body_len sep t (d :: ds) rs css F).
Qed.
(* the lines of a container after its head line, each preceded by the separator: nothing when it has neither
   declarations nor records; the declarations and the blank line when it has no records *)
Definition cblock (ds : list decl) (rs : list prec) : string :=
  match rs with
  | [] => match ds with [] => "" | _ => sep ++ decls_text_s sep ds end
  | _ => sep ++ cbody ds rs
  end.

Lemma cblock_block : forall t0 ds rs css,
  Forall decl_good ds -> Forall2 (rec_spec_ok (fold_left decl_apply ds t0)) rs css ->
  exists k T, forall rest f toks, lex f rest = Some toks -> stops toks -> not_decl toks ->
    lex (k + f) (cblock ds rs ++ rest) = Some (T ++ toks)%list /\
    forall fd fe, length ds <= fd -> total rs + 1 < fe ->
      exists mid, read_decls t0 (T ++ toks) fd = (fold_left decl_apply ds t0, mid) /\
                  read_exprs fe (fold_left decl_apply ds t0) mid = Some (conts rs css, toks).
Proof.
  intros t0 ds rs css DG F. destruct rs as [|r rs].
  - inversion F; subst css. destruct ds as [|d ds].
    + exists 0, []. intros rest f toks L ST ND. split; [exact L|].
      intros fd fe _ LE. exists toks. cbn [app fold_left conts]. split; [apply read_decls_stop; exact ND|].
      destruct fe as [|fe]; [cbn in LE; lia|]. apply read_exprs_stop. exact ST.
    + destruct (decls_lex_s sep SEP (d :: ds) DG) as [kd ID].
      exists (String.length sep + kd), (flat_map decl_toks (d :: ds)). intros rest f toks L ST ND. split.
      * unfold cblock. rewrite app_assoc_s, <- Nat.add_assoc. apply (SEP _ _ _ Logic.I). apply ID. exact L.
      * intros fd fe LD LE. exists toks. split; [apply read_decls_decls; [exact LD | exact ND]|].
        cbn [conts]. destruct fe as [|fe]; [cbn in LE; lia|]. apply read_exprs_stop. exact ST.
  - destruct (cbody_block t0 ds (r :: rs) css DG F ltac:(discriminate)) as [k [T I]].
    exists (String.length sep + k), T. intros rest f toks L ST _. destruct (I rest f toks L ST) as [LX RD]. split.
    + unfold cblock. rewrite app_assoc_s, <- Nat.add_assoc. apply (SEP _ _ _ Logic.I). exact LX.
    + exact RD.
Qed.

Lemma cblock_len : forall t ds rs css, Forall2 (rec_spec_ok t) rs css ->
  length ds + total rs + length rs <= String.length (cblock ds rs).
Proof.
  intros t ds rs css F. destruct rs as [|r rs].
  - inversion F; subst. unfold total. cbn [length map list_sum fold_right cblock]. destruct ds as [|d ds]; [apply le_n|].
    rewrite len_app. pose proof (decls_len_s sep (d :: ds)). lia.
  - unfold cblock. rewrite len_app. pose proof (cbody_len t ds (r :: rs) css F). lia.
Qed.
End Body.

Lemma cblock_nonword : forall k ds rs j r, nonword_start (cblock (indent k) ds rs ++ indent j ++ r).
Proof. intros k ds rs j r. unfold cblock. destruct rs; [destruct ds|]; reflexivity. Qed.

(* ---- bundles *)
Record pbundle : Type := mkPB {
  pb_id : string;                         (* the identifier as printed *)
  pb_uri : string;                        (* what it denotes with the bundle's declarations in scope *)
  pb_ds : list decl;
  pb_rs : list prec;
  pb_css : list (list (list sexp))
}.

Definition pb_table (t : ptable) (b : pbundle) : ptable := fold_left decl_apply (pb_ds b) t.

Definition bundle_ok (t : ptable) (b : pbundle) : Prop :=
  word_ok (pb_id b) /\ Forall decl_good (pb_ds b) /\
  Forall2 (rec_spec_ok (pb_table t b)) (pb_rs b) (pb_css b) /\
  nresolve (pb_table t b) (pb_id b) = Some (pb_uri b).

Definition bundle_text (b : pbundle) : string :=
  "bundle " ++ pb_id b ++ cblock (indent 2) (pb_ds b) (pb_rs b) ++ indent 1 ++ "endBundle".

Definition bundle_cont (b : pbundle) : sexp := L (A "bundle" :: A (pb_uri b) :: conts (pb_rs b) (pb_css b)).

Definition need (b : pbundle) : nat := length (pb_ds b) + total (pb_rs b) + 2.

Fixpoint bundles_text (bs : list pbundle) : string :=
  match bs with [] => "" | b :: r => indent 1 ++ bundle_text b ++ bundles_text r end.

Definition no_bundle (toks : list tok) : Prop :=
  match toks with TWord "bundle" :: TWord _ :: _ => False | _ => True end.
Definition no_lpar (toks : list tok) : Prop :=
  match toks with TLpar :: _ => False | _ => True end.

Lemma read_bundles_stop : forall f t toks, no_bundle toks -> read_bundles (S f) t toks = Some ([], toks).
Proof.
  intros f t toks N. cbn [read_bundles]. destruct toks as [|x r]; [reflexivity|].
  destruct x as [w| | | | | | | | | | | |]; try reflexivity.
  revert N. unfold no_bundle.
  repeat (destruct w as [|[[] [] [] [] [] [] [] []] w]; try reflexivity);
    destruct r as [|y r2]; try reflexivity; destruct y; try reflexivity; intros [].
Qed.

Lemma stops_word_word : forall a b r, stops (TWord a :: TWord b :: r).
Proof. intros. exact Logic.I. Qed.

Lemma indent_nonword : forall n r, nonword_start (indent n ++ r).
Proof. intros n r. reflexivity. Qed.

Lemma bundles_block : forall t bs, Forall (bundle_ok t) bs ->
  exists k T, (T = [] \/ exists bid T', T = TWord "bundle" :: TWord bid :: T') /\
    forall rest f toks, nonword_start rest -> lex f rest = Some toks -> no_bundle toks -> no_lpar toks ->
      lex (k + f) (bundles_text bs ++ rest) = Some (T ++ toks)%list /\
      forall fuel, list_sum (map need bs) < fuel -> read_bundles fuel t (T ++ toks) = Some (map bundle_cont bs, toks).
Proof.
  intros t bs F. induction F as [|b bs [WI [DG [FR NR]]] F IH].
  - exists 0, []. split; [left; reflexivity|]. intros rest f toks _ L NB NL. split; [exact L|].
    intros fuel LE. destruct fuel as [|f0]; [cbn in LE; lia|]. apply read_bundles_stop. exact NB.
  - destruct IH as [k2 [T2 [SH2 I2]]].
    destruct (cblock_block (indent 2) (lex_indent 2) t (pb_ds b) (pb_rs b) (pb_css b) DG FR) as [kb [Tb IB]].
    set (l1 := String.length (indent 1)).
    exists (l1 + (1 + (1 + (1 + (kb + (l1 + (1 + k2))))))),
           (TWord "bundle" :: TWord (pb_id b) :: Tb ++ TWord "endBundle" :: T2)%list.
    split; [right; eexists; eexists; reflexivity|]. intros rest f toks NWR L NB NL.
    destruct (I2 rest f toks NWR L NB NL) as [LX2 RB2].
    set (tail2 := bundles_text bs ++ rest) in *.
    assert (NW : nonword_start tail2).
    { unfold tail2. destruct bs as [|b2 bs2]; [exact NWR | reflexivity]. }
    set (toks1 := (TWord "endBundle" :: T2 ++ toks)%list).
    assert (LE1 : lex (l1 + (1 + (k2 + f))) (indent 1 ++ "endBundle" ++ tail2) = Some toks1).
    { apply (lex_indent 1 _ _ _ Logic.I).
      apply (lex_a_word "endBundle" ltac:(discriminate) eq_refl tail2 (k2 + f) (T2 ++ toks)%list NW LX2). }
    assert (ST1 : stops toks1).
    { unfold toks1. destruct SH2 as [->|[bid [T' ->]]]; [|exact Logic.I].
      cbn [app]. destruct toks as [|[| | | | | | | | | | | |] r]; try exact Logic.I. destruct NL. }
    destruct (IB (indent 1 ++ "endBundle" ++ tail2) (l1 + (1 + (k2 + f))) toks1 LE1 ST1 Logic.I) as [LXB RDB].
    assert (TOK : ((TWord "bundle" :: TWord (pb_id b) :: Tb ++ TWord "endBundle" :: T2) ++ toks
                   = TWord "bundle" :: TWord (pb_id b) :: Tb ++ toks1)%list).
    { unfold toks1. cbn [app]. rewrite <- app_assoc. reflexivity. }
    rewrite TOK. split.
    + assert (TXT : bundles_text (b :: bs) ++ rest
                    = indent 1 ++ "bundle" ++ " " ++ pb_id b ++ cblock (indent 2) (pb_ds b) (pb_rs b)
                      ++ (indent 1 ++ "endBundle" ++ tail2)).
      { unfold tail2. cbn [bundles_text]. unfold bundle_text. rewrite !app_assoc_s. reflexivity. }
      rewrite TXT. rewrite <- !Nat.add_assoc.
      apply (lex_indent 1 _ _ _ Logic.I).
      apply (lex_a_word "bundle" ltac:(discriminate) eq_refl _ _ _ (nonword_space _)).
      apply (lex_space _ _ _ Logic.I).
      apply (lex_a_word (pb_id b) (proj1 WI) (proj2 WI) _ _ _ (cblock_nonword 2 _ _ 1 _)).
      exact LXB.
    + intros fuel LE. cbn [map list_sum fold_right] in LE. unfold need in LE at 1.
      destruct fuel as [|f0]; [lia|].
      destruct (RDB (S f0) (S f0) ltac:(lia) ltac:(lia)) as [mid [R1 R2]].
      cbn [read_bundles]. rewrite R1. rewrite R2. unfold toks1. fold (pb_table t b). rewrite NR.
      rewrite (RB2 f0) by (unfold list_sum; lia). reflexivity.
Qed.

(* ---- lengths *)
Lemma need_le_text : forall t b, bundle_ok t b -> need b + 2 <= String.length (bundle_text b).
Proof.
  intros t b [_ [_ [FR _]]]. unfold need, bundle_text. rewrite !len_app.
  pose proof (cblock_len (indent 2) (pb_table t b) (pb_ds b) (pb_rs b) (pb_css b) FR).
  change (String.length "bundle ") with 7. lia.
Qed.

Lemma needs_le_text : forall t bs, Forall (bundle_ok t) bs -> list_sum (map need bs) <= String.length (bundles_text bs).
Proof.
  intros t bs F. induction F as [|b bs H F IH]; [apply le_n|].
  cbn [map bundles_text]. unfold list_sum in *. cbn [fold_right]. rewrite !len_app. pose proof (need_le_text t b H). lia.
Qed.

(* ---- the document *)
Definition doc_text_b (ds : list decl) (rs : list prec) (bs : list pbundle) : string :=
  "document" ++ cblock (indent 1) ds rs ++ bundles_text bs ++ indent 0 ++ "endDocument".

Theorem provn_document_bundles : forall ds rs css bs,
  let t := fold_left decl_apply ds builtin_ptable in
  Forall decl_good ds -> Forall2 (rec_spec_ok t) rs css -> Forall (bundle_ok t) bs ->
  ProvnSpec.read (doc_text_b ds rs bs)
  = Some (L (A "content" :: L (A "bundle" :: A "" :: conts rs css) :: map bundle_cont bs)).
Proof.
  intros ds rs css bs t DG F FB.
  destruct (cblock_block (indent 1) (lex_indent 1) builtin_ptable ds rs css DG F) as [kb [Tb IB]].
  destruct (bundles_block t bs FB) as [k2 [T2 [SH2 I2]]].
  set (tail := indent 0 ++ "endDocument").
  assert (LT : lex (1 + (1 + 0)) tail = Some [TWord "endDocument"]).
  { apply (lex_indent 0 "endDocument" (1 + 0) [TWord "endDocument"] Logic.I).
    change "endDocument" with ("endDocument" ++ "") at 1.
    apply (lex_a_word "endDocument" ltac:(discriminate) eq_refl "" 0 [] Logic.I). reflexivity. }
  destruct (I2 tail (1 + (1 + 0)) [TWord "endDocument"] ltac:(reflexivity) LT Logic.I Logic.I) as [LX2 RB2].
  set (toks1 := (T2 ++ [TWord "endDocument"])%list) in *.
  assert (ST1 : stops toks1).
  { unfold toks1. destruct SH2 as [->|[bid [T' ->]]]; exact Logic.I. }
  assert (ND1 : not_decl toks1).
  { unfold toks1. destruct SH2 as [->|[bid [T' ->]]]; exact Logic.I. }
  destruct (IB (bundles_text bs ++ tail) (k2 + (1 + (1 + 0))) toks1 LX2 ST1 ND1) as [LXB RDB].
  assert (NWB : nonword_start (cblock (indent 1) ds rs ++ bundles_text bs ++ tail)).
  { unfold cblock, tail. destruct rs; [destruct ds; [destruct bs|]|]; reflexivity. }
  assert (LX : lex (1 + (kb + (k2 + (1 + (1 + 0))))) (doc_text_b ds rs bs) = Some (TWord "document" :: Tb ++ toks1)%list).
  { unfold doc_text_b. fold tail.
    apply (lex_a_word "document" ltac:(discriminate) eq_refl _ _ _ NWB). exact LXB. }
  set (n := String.length (doc_text_b ds rs bs)).
  assert (LN : lex (S n) (doc_text_b ds rs bs) = Some (TWord "document" :: Tb ++ toks1)%list).
  { apply lex_step. apply (lex_enough _ _ _ LX). }
  assert (BD : length ds <= n /\ total rs + 1 < S n /\ list_sum (map need bs) < S n).
  { unfold n, doc_text_b. rewrite !len_app.
    pose proof (cblock_len (indent 1) t ds rs css F). pose proof (needs_le_text t bs FB).
    change (String.length "document") with 8. lia. }
  destruct BD as [BD1 [BD2 BD3]].
  destruct (RDB n (S n) BD1 BD2) as [mid [R1 R2]].
  unfold ProvnSpec.read. fold n. rewrite LN, R1. cbv beta iota zeta. unfold t in *. rewrite R2. rewrite (RB2 (S n) BD3). reflexivity.
Qed.

(* ---- the printer's text is doc_text_b *)
Section Join.
Variable sep : string.

Lemma concat_decls_s : forall ds rs, rs <> [] ->
  concat_str sep (map decl_line ds ++ "" :: rs)%list = decls_text_s sep ds ++ sep ++ concat_str sep rs.
Proof.
  induction ds as [|d ds IH]; intros rs NE.
  - cbn [map app decls_text_s]. rewrite (concat_cons _ _ _ NE). reflexivity.
  - cbn [map app decls_text_s]. rewrite concat_cons by (destruct (map decl_line ds); discriminate).
    rewrite (IH rs NE). rewrite !app_str_assoc. reflexivity.
Qed.

Fixpoint tail_text (subs : list string) : string :=
  match subs with [] => "" | x :: r => sep ++ x ++ tail_text r end.

Lemma app_nil_s : forall x : string, x ++ "" = x.
Proof. induction x as [|c x IH]; [reflexivity|]. cbn [append]. rewrite IH. reflexivity. Qed.

Lemma concat_single : forall subs x, concat_str sep (x :: subs) = x ++ tail_text subs.
Proof.
  induction subs as [|y r IH]; intros x.
  - cbn [concat_str tail_text]. rewrite app_nil_s. reflexivity.
  - rewrite concat_cons by discriminate. rewrite (IH y). reflexivity.
Qed.

Lemma concat_tail : forall l subs, l <> [] ->
  concat_str sep (l ++ subs)%list = concat_str sep l ++ tail_text subs.
Proof.
  induction l as [|x l IH]; intros subs NE; [contradiction|].
  destruct l as [|y l'].
  - cbn [app]. apply concat_single.
  - change ((x :: y :: l') ++ subs)%list with (x :: ((y :: l') ++ subs))%list.
    rewrite concat_cons by discriminate. rewrite (IH subs ltac:(discriminate)).
    rewrite (concat_cons sep x (y :: l')) by discriminate. rewrite !app_str_assoc. reflexivity.
Qed.
End Join.

(* the lines of one container: head, declarations, blank line if any declaration, records *)
Definition blank_of (m : nsm) : list string := match decls_of m with [] => [] | _ => [""] end.

Lemma body_lines : forall sep ds (recs : list prec), recs <> [] ->
  concat_str sep (map decl_line ds ++ (match ds with [] => [] | _ => [""] end) ++ map record_provn recs)%list
  = cbody sep ds recs.
Proof.
  intros sep ds recs NE. destruct ds as [|d ds].
  - reflexivity.
  - change ([""] ++ map record_provn recs)%list with ("" :: map record_provn recs).
    rewrite (concat_decls_s sep (d :: ds) (map record_provn recs)) by (destruct recs; [contradiction | discriminate]).
    reflexivity.
Qed.

Lemma concat_decls_blank : forall sep ds, ds <> [] ->
  concat_str sep (map decl_line ds ++ [""])%list = decls_text_s sep ds.
Proof.
  intros sep ds. induction ds as [|d ds IH]; intros NE; [contradiction|].
  cbn [map app decls_text_s]. rewrite concat_cons by (destruct (map decl_line ds); discriminate).
  destruct ds as [|d2 ds2]; [reflexivity|]. rewrite (IH ltac:(discriminate)). reflexivity.
Qed.

(* head line, declarations, blank line if any declaration, record lines — joined: the head followed by cblock *)
Lemma head_lines : forall sep head ds (recs : list prec),
  concat_str sep (head :: map decl_line ds ++ (match ds with [] => [] | _ => [""] end) ++ map record_provn recs)%list
  = head ++ cblock sep ds recs.
Proof.
  intros sep head ds recs. destruct recs as [|r recs].
  - cbn [map]. rewrite app_nil_r. destruct ds as [|d ds].
    + cbn [map app concat_str cblock]. rewrite app_nil_s. reflexivity.
    + rewrite concat_cons by (destruct (map decl_line (d :: ds)); discriminate).
      rewrite (concat_decls_blank sep (d :: ds) ltac:(discriminate)). reflexivity.
  - rewrite concat_cons by (destruct (map decl_line ds); [destruct ds; discriminate | discriminate]).
    rewrite (body_lines sep ds (r :: recs) ltac:(discriminate)). reflexivity.
Qed.

Lemma blank_same : forall m,
  match (match dflt m with Some d0 => [("default <" ++ ns_uri d0 ++ ">")%string] | None => [] end),
        (map (fun kv => ("prefix " ++ ns_prefix (snd kv) ++ " <" ++ ns_uri (snd kv) ++ ">")%string) (regd m)) with
  | [], [] => [] | _, _ => [""] end
  = match decls_of m with [] => [] | _ => [""] end.
Proof. intros m. unfold decls_of. destruct (dflt m); [reflexivity|]. destruct (regd m); reflexivity. Qed.

Definition pb_matches (b : bundle) (pb : pbundle) : Prop :=
  pb_id pb = match bid b with Some q => qn_str q | None => "None" end /\
  pb_ds pb = decls_of (bns b) /\ pb_rs pb = brecs b.

Lemma bundle_provn_text : forall b pb, pb_matches b pb -> container_provn false 1 b [] = bundle_text pb.
Proof.
  intros b pb [EI [ED ER]]. unfold container_provn, bundle_text. rewrite EI, ED, ER. rewrite app_nil_r.
  rewrite blank_same.
  set (head := "bundle " ++ match bid b with Some q => qn_str q | None => "None" end).
  replace (head :: (match dflt (bns b) with Some d0 => [("default <" ++ ns_uri d0 ++ ">")%string] | None => [] end)
           ++ map (fun kv => ("prefix " ++ ns_prefix (snd kv) ++ " <" ++ ns_uri (snd kv) ++ ">")%string) (regd (bns b))
           ++ (match decls_of (bns b) with [] => [] | _ => [""] end) ++ map record_provn (brecs b))%list
    with (head :: (map decl_line (decls_of (bns b)) ++ (match decls_of (bns b) with [] => [] | _ => [""] end) ++ map record_provn (brecs b)))%list
    by (rewrite <- decl_lines_of, <- List.app_assoc; reflexivity).
  change (String nl (spaces 2)) with (indent 2). change (String nl (spaces 1)) with (indent 1).
  rewrite (head_lines (indent 2) head (decls_of (bns b)) (brecs b)).
  unfold head. rewrite !app_str_assoc. reflexivity.
Qed.

Lemma bundles_tail_text : forall kbs pbs, Forall2 (fun kb pb => pb_matches (snd kb) pb) kbs pbs ->
  tail_text (indent 1) (map (fun kb : string * bundle => container_provn false 1 (snd kb) []) kbs) = bundles_text pbs.
Proof.
  intros kbs pbs F. induction F as [|kb pb kbs pbs M F IH]; [reflexivity|].
  cbn [map tail_text bundles_text]. rewrite IH, (bundle_provn_text _ _ M). reflexivity.
Qed.

Theorem doc_provn_text_b : forall d pbs,
  Forall2 (fun kb pb => pb_matches (snd kb) pb) (dbundles d) pbs ->
  doc_provn d = doc_text_b (decls_of (bns (dmain d))) (brecs (dmain d)) pbs.
Proof.
  intros d pbs FB. unfold doc_provn.
  set (subs := map (fun kb : string * bundle => container_provn false 1 (snd kb) []) (dbundles d)).
  unfold container_provn. rewrite blank_same. set (m := bns (dmain d)).
  replace ("document" :: (match dflt m with Some d0 => [("default <" ++ ns_uri d0 ++ ">")%string] | None => [] end)
           ++ map (fun kv => ("prefix " ++ ns_prefix (snd kv) ++ " <" ++ ns_uri (snd kv) ++ ">")%string) (regd m)
           ++ (match decls_of m with [] => [] | _ => [""] end) ++ map record_provn (brecs (dmain d)) ++ subs)%list
    with (("document" :: (map decl_line (decls_of m) ++ (match decls_of m with [] => [] | _ => [""] end) ++ map record_provn (brecs (dmain d)))) ++ subs)%list
    by (rewrite <- decl_lines_of; cbn [app]; rewrite <- !List.app_assoc; reflexivity).
  change (String nl (spaces 1)) with (indent 1). change (String nl (spaces 0)) with (indent 0).
  rewrite (concat_tail (indent 1)) by discriminate.
  rewrite (head_lines (indent 1) "document" (decls_of m) (brecs (dmain d))).
  unfold subs. rewrite (bundles_tail_text _ _ FB).
  unfold doc_text_b. rewrite !app_str_assoc. reflexivity.
Qed.

(* the reader reads back what the printer wrote, bundles included *)
Corollary provn_doc_provn_bundles : forall d css pbs,
  let ds := decls_of (bns (dmain d)) in
  let t := fold_left decl_apply ds builtin_ptable in
  Forall2 (fun kb pb => pb_matches (snd kb) pb) (dbundles d) pbs ->
  Forall decl_good ds -> Forall2 (rec_spec_ok t) (brecs (dmain d)) css -> Forall (bundle_ok t) pbs ->
  ProvnSpec.read (doc_provn d)
  = Some (L (A "content" :: L (A "bundle" :: A "" :: conts (brecs (dmain d)) css) :: map bundle_cont pbs)).
Proof.
  intros d css pbs ds t FM DG F FB. rewrite (doc_provn_text_b d pbs FM).
  exact (provn_document_bundles ds (brecs (dmain d)) css pbs DG F FB).
Qed.

(* ---- the premises are satisfiable: the document of ProvnDocProofs followed by a bundle ex:b, which declares ex
   itself and holds an agent *)
Definition pdb_doc : doc :=
  mkD (mkB None pd_m [mkRec "Entity" (Some (p_q "e")) []; p_r] [])
      [("http://e/b", mkB (Some (p_q "b")) pd_m [mkRec "Agent" (Some (p_q "ag")) []] [])].
Definition pdb_pb : pbundle := mkPB "ex:b" "http://e/b" (decls_of pd_m) [mkRec "Agent" (Some (p_q "ag")) []] [ [] ].

Example provn_document_bundles_applies :
  ProvnSpec.read (doc_provn pdb_doc)
  = Some (L [A "content";
             L [A "bundle"; A "";
                L [A "rec"; A (spec_prov_uri ++ "Entity"); A "http://e/e"; L []];
                L [A "rec"; A (spec_prov_uri ++ "Usage"); A "http://e/u";
                   L [L [A (spec_prov_uri ++ "activity"); L [A "qn"; A "http://e/a"]];
                      L [A "http://e/k"; L [A "int"; sx_Z 5]]; L [A "http://e/k"; L [A "str"; A "x"]];
                      L [A (spec_prov_uri ++ "type"); L [A "qn"; A "http://e/T"]]]]];
             L [A "bundle"; A "http://e/b"; L [A "rec"; A (spec_prov_uri ++ "Agent"); A "http://e/ag"; L []]]]).
Proof.
  refine (eq_trans (provn_doc_provn_bundles pdb_doc
            [ [] ; [[L [A (spec_prov_uri ++ "activity"); L [A "qn"; A (qn_uri (p_q "a"))]]]; []; []] ] [pdb_pb] _ _ _ _) _).
  - constructor; [|constructor]. split; [reflexivity|]. split; reflexivity.
  - vm_compute. constructor; [|constructor]. split; [discriminate | split; reflexivity].
  - change (brecs (dmain pdb_doc)) with [mkRec "Entity" (Some (p_q "e")) []; p_r]. fold pd_t.
    constructor; [|constructor; [|constructor]].
    + split; [split; [discriminate | reflexivity]|]. split; [vm_compute; reflexivity|].
      split; [cbn [rid]; split; [split; [discriminate | reflexivity]|]; split; [reflexivity | discriminate]|].
      split; [left; reflexivity|]. split; [vm_compute; constructor | constructor].
    + split; [split; [discriminate | reflexivity]|]. split; [vm_compute; reflexivity|].
      split; [cbn [rid p_r]; split; [split; [discriminate | reflexivity]|]; split; [reflexivity | discriminate]|].
      split; [right; vm_compute; discriminate|]. split.
      * change (combine (formal_attrs (rkind p_r)) (rec_fvals p_r))
          with [("activity", Some (VQn (p_q "a"))); ("entity", None); ("time", None)].
        constructor; [|constructor; [|constructor; [|constructor]]]; cbn [fst snd].
        -- apply fo_ref; [reflexivity | split; [discriminate | reflexivity] | discriminate | reflexivity].
        -- apply fo_absent.
        -- apply fo_absent.
      * change (rec_extras p_r) with [(p_q "k", VInt 5); (p_q "k", VStr "x"); (prov_qn "type", VQn (p_q "T"))].
        constructor; [|constructor; [|constructor; [|constructor]]]; (split; [split; [discriminate | split; reflexivity]|]); cbn [snd].
        -- apply vspec_int.
        -- apply vspec_str.
        -- apply vspec_qn; [exact pd_std | discriminate | reflexivity | reflexivity | reflexivity].
  - constructor; [|constructor]. unfold bundle_ok.
    split; [split; [discriminate | reflexivity]|].
    split; [vm_compute; constructor; [|constructor]; split; [discriminate | split; reflexivity]|].
    split; [|vm_compute; reflexivity].
    change (pb_rs pdb_pb) with [mkRec "Agent" (Some (p_q "ag")) []]. change (pb_css pdb_pb) with [ @nil (list sexp) ].
    constructor; [|constructor].
    split; [split; [discriminate | reflexivity]|]. split; [vm_compute; reflexivity|].
    split; [cbn [rid]; split; [split; [discriminate | reflexivity]|]; split; [vm_compute; reflexivity | discriminate]|].
    split; [left; reflexivity|]. split; [vm_compute; constructor | constructor].
  - vm_compute. reflexivity.
Qed.

(* a document without records, with a bundle without records: every container may be empty *)
Example provn_empty_containers :
  ProvnSpec.read (doc_provn (mkD (mkB None pd_m [] []) [("http://e/b", mkB (Some (p_q "b")) nsm_init [] [])]))
  = Some (L [A "content"; L [A "bundle"; A ""]; L [A "bundle"; A "http://e/b"]]).
Proof.
  refine (eq_trans (provn_doc_provn_bundles _ [] [mkPB "ex:b" "http://e/b" [] [] []] _ _ _ _) _).
  - constructor; [|constructor]. split; [reflexivity|]. split; reflexivity.
  - vm_compute. constructor; [|constructor]. split; [discriminate | split; reflexivity].
  - constructor.
  - constructor; [|constructor]. unfold bundle_ok. cbn [pb_id pb_ds pb_rs pb_css pb_uri pb_table fold_left].
    split; [split; [discriminate | reflexivity]|]. split; [constructor|]. split; [constructor | vm_compute; reflexivity].
  - reflexivity.
Qed.
