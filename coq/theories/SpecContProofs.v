(* SpecContProofs.v — C10 at container level, PROV-JSON: the specification reader applied to the record maps
   the library writes for a container recovers, in the grouped order, exactly the container's records: kind,
   identifier URI (none for the anonymous ones), every value of every attribute. *)
From Coq Require Import String Ascii List Bool Arith ZArith Lia Permutation.
From Prov Require Import Str StrProofs Sexp Tables Nsm NsmProofs Values Record RecordProofs World Jtree Json JsonProofs
  Spec JsonSpec IsoDigits IsoProofs TimeProofs SpecProofs JsonRecProofs SpecRecProofs JsonContProofs.
Import ListNotations.
Open Scope string_scope.

Definition spec_kind (label : string) : string * list string :=
  match kind_by_key label with Some kf => kf | None => ("", []) end.
Definition spec_idc (t : ptable) (ident : string) : sexp :=
  match id_content t ident with Some c => c | None => A "none" end.
Definition content_of (t : ptable) (label ident : string) (r : prec) : sexp :=
  record_content (fst (spec_kind label)) (spec_idc t ident) r.

(* a record the specification reader reads under this label and identifier string *)
Definition rec_spec (ft : ftable) (t : ptable) (label ident : string) (r : prec) : Prop :=
  kind_by_key label <> None /\ fst (spec_kind label) <> "Membership" /\
  NoDup (member_names (rattrs r)) /\ Forall (attr_spec ft t (snd (spec_kind label))) (rattrs r) /\
  id_content t ident <> None.

Lemma read_record_ok : forall ft t label ident r, rec_spec ft t label ident r ->
  read_record ft t (fst (spec_kind label)) (snd (spec_kind label)) ident (encode_record_obj r)
  = Some [content_of t label ident r].
Proof.
  intros ft t label ident r [K [NM [UN [G I]]]]. unfold content_of, spec_idc.
  destruct (id_content t ident) as [ic|] eqn:E; [|contradiction].
  apply spec_json_record; assumption.
Qed.

Lemma read_entry_ok : forall ft t label ident l, l <> [] -> Forall (rec_spec ft t label ident) l ->
  match jrecs l with
  | JArr objs => option_map (@concat sexp)
                   (all_some (map (read_record ft t (fst (spec_kind label)) (snd (spec_kind label)) ident) objs))
  | o => read_record ft t (fst (spec_kind label)) (snd (spec_kind label)) ident o
  end = Some (map (content_of t label ident) l).
Proof.
  intros ft t label ident l NE F. destruct l as [|r1 [|r2 l]]; [contradiction| |].
  - cbn [jrecs map]. inversion F as [|x y H1 _]; subst.
    destruct (encode_record_obj_is_obj r1) as [ms E].
    pose proof (read_record_ok ft t label ident r1 H1) as R. rewrite E in *. exact R.
  - cbn [jrecs]. rewrite map_map.
    rewrite (all_some_map_ok _ _ _ (fun r => [content_of t label ident r])).
    + cbn [option_map]. f_equal. clear. generalize (r1 :: r2 :: l). intros xs.
      induction xs as [|x xs IH]; [reflexivity|]. cbn [map concat app]. f_equal. exact IH.
    + intros x Hx. apply read_record_ok. exact (proj1 (Forall_forall _ _) F x Hx).
Qed.

Definition content_ig (t : ptable) (label : string) (g : igroups) : list sexp :=
  flat_map (fun kv => map (content_of t label (fst kv)) (snd kv)) g.
Definition content_lg (t : ptable) (G : lgroups) : list sexp :=
  flat_map (fun kv => content_ig t (fst kv) (snd kv)) G.

Lemma concat_map_flat : forall (T U : Type) (f : T -> list U) l, concat (map f l) = flat_map f l.
Proof. intros T U f l. induction l as [|x l IH]; [reflexivity|]. cbn [map concat flat_map]. rewrite IH. reflexivity. Qed.

Lemma read_entries_ok : forall ft t label g, ig_ok g ->
  (forall ident l, In (ident, l) g -> Forall (rec_spec ft t label ident) l) ->
  all_some (map (fun e : string * jv =>
                   match snd e with
                   | JArr objs => option_map (@concat sexp)
                                    (all_some (map (read_record ft t (fst (spec_kind label)) (snd (spec_kind label)) (fst e)) objs))
                   | o => read_record ft t (fst (spec_kind label)) (snd (spec_kind label)) (fst e) o
                   end) (jig g))
  = Some (map (fun kv => map (content_of t label (fst kv)) (snd kv)) g).
Proof.
  intros ft t label g OK H. unfold jig. rewrite map_map.
  apply all_some_map_ok. intros [ident l] I. cbn [fst snd].
  apply read_entry_ok; [exact (OK ident l I) | exact (H ident l I)].
Qed.

Definition lg_spec (ft : ftable) (t : ptable) (G : lgroups) : Prop :=
  forall label g ident l, In (label, g) G -> In (ident, l) g -> Forall (rec_spec ft t label ident) l.

Lemma read_kinds_ok : forall ft t G, lg_ok G -> (forall label g, In (label, g) G -> g <> []) -> lg_spec ft t G ->
  all_some (map (fun kv : string * jv =>
       match kind_by_key (fst kv), snd kv with
       | Some (kind, formals), JObj entries =>
           match all_some (map (fun e : string * jv =>
                    match snd e with
                    | JArr objs => option_map (@concat sexp) (all_some (map (read_record ft t kind formals (fst e)) objs))
                    | o => read_record ft t kind formals (fst e) o
                    end) entries) with
           | Some l => Some (concat l)
           | None => None
           end
       | _, _ => None
       end) (map (fun kv => (fst kv, JObj (snd kv))) (jlg G)))
  = Some (map (fun kv => content_ig t (fst kv) (snd kv)) G).
Proof.
  intros ft t G OK NE H. unfold jlg. rewrite !map_map. apply all_some_map_ok. intros [label g] I. cbn [fst snd].
  (* the label's kind: known because the group is not empty *)
  assert (K : kind_by_key label <> None).
  { pose proof (NE label g I) as N. destruct g as [|[ident l] g']; [contradiction|].
    pose proof (H label _ ident l I (or_introl eq_refl)) as F.
    pose proof (OK label _ I ident l (or_introl eq_refl)) as NL. destruct l as [|r l]; [contradiction|].
    inversion F as [|x y [KK _] _]; subst. exact KK. }
  destruct (kind_by_key label) as [[kind formals]|] eqn:EK; [|contradiction].
  assert (SK : spec_kind label = (kind, formals)) by (unfold spec_kind; rewrite EK; reflexivity).
  pose proof (read_entries_ok ft t label g (OK label g I) (fun ident l Hi => H label g ident l I Hi)) as R.
  rewrite SK in R. cbn [fst snd] in R. rewrite R. unfold content_ig. rewrite concat_map_flat. reflexivity.
Qed.

(* ---- the container *)
Definition content_rec (r : prec) : sexp :=
  record_content (fst (spec_kind (prov_n_name (rkind r))))
                 (match rid r with Some q => A (qn_uri q) | None => A "none" end) r.

Definition spec_ok (ft : ftable) (t : ptable) (r : prec) : Prop :=
  let label := prov_n_name (rkind r) in
  kind_by_key label <> None /\ fst (spec_kind label) <> "Membership" /\
  NoDup (member_names (rattrs r)) /\ Forall (attr_spec ft t (snd (spec_kind label))) (rattrs r) /\
  match rid r with
  | Some q => is_blank (qn_str q) = false /\ spec_resolve t (qn_str q) = Some (qn_uri q)
  | None => True
  end /\
  String.eqb label "prefix" = false /\ String.eqb label "bundle" = false.

Lemma place_spec : forall ft t label ident r, spec_ok ft t r -> place_ok label ident r ->
  rec_spec ft t label ident r /\ content_of t label ident r = content_rec r /\
  String.eqb label "prefix" = false /\ String.eqb label "bundle" = false.
Proof.
  intros ft t label ident r [K [NM [UN [G [ID [NP NB]]]]]] [PL PI]. subst label.
  assert (IC : id_content t ident = Some (match rid r with Some q => A (qn_uri q) | None => A "none" end)).
  { unfold id_content. destruct (rid r) as [q|].
    - destruct ID as [B R]. subst ident. rewrite B, R. reflexivity.
    - unfold is_blank. rewrite PI. reflexivity. }
  split; [|split; [|split; assumption]].
  - unfold rec_spec. repeat (split; [assumption|]). rewrite IC. discriminate.
  - unfold content_of, content_rec, spec_idc. rewrite IC. reflexivity.
Qed.

Lemma content_lg_recs : forall t G,
  (forall label g ident l r, In (label, g) G -> In (ident, l) g -> In r l -> content_of t label ident r = content_rec r) ->
  content_lg t G = map content_rec (recs_lg G).
Proof.
  intros t G. induction G as [|[label g] G IH]; intros H; [reflexivity|].
  unfold content_lg, recs_lg. cbn [flat_map fst snd]. fold (content_lg t G). fold (recs_lg G).
  rewrite map_app. f_equal; [|apply IH; intros l0 g0 i0 l1 r0 I; apply H; right; exact I].
  assert (HG : forall ident l r, In (ident, l) g -> In r l -> content_of t label ident r = content_rec r)
    by (intros ident l r; apply H; left; reflexivity).
  clear H IH. induction g as [|[ident l] g IHg]; [reflexivity|].
  unfold content_ig, recs_ig. cbn [flat_map fst snd]. fold (content_ig t label g). fold (recs_ig g).
  rewrite map_app. f_equal; [|apply IHg; intros i0 l0 r0 I; apply HG; right; exact I].
  apply map_ext_in. intros r Hr. exact (HG ident l r (or_introl eq_refl) Hr).
Qed.

Lemma filter_kinds : forall (G : lgroups),
  (forall label g, In (label, g) G -> String.eqb label "prefix" = false /\ String.eqb label "bundle" = false) ->
  lookup "prefix" (map (fun kv => (fst kv, JObj (snd kv))) (jlg G)) = None /\
  filter (fun kv : string * jv => negb (String.eqb (fst kv) "prefix" || String.eqb (fst kv) "bundle")%bool)
         (map (fun kv => (fst kv, JObj (snd kv))) (jlg G))
  = map (fun kv => (fst kv, JObj (snd kv))) (jlg G).
Proof.
  intros G. induction G as [|[label g] G IH]; intros H; [split; reflexivity|].
  cbn [jlg map lookup filter fst snd]. fold (jlg G).
  destruct (H label g (or_introl eq_refl)) as [E1 E2]. rewrite E1, E2. cbn [orb negb].
  rewrite String.eqb_sym in E1. rewrite E1.
  destruct (IH (fun l0 g0 I0 => H l0 g0 (or_intror I0))) as [L F]. rewrite L, F. split; reflexivity.
Qed.

Theorem spec_json_container : forall ft base b t,
  read_prefixes base (match encode_prefixes (bns b) with [] => None | ps => Some (JObj ps) end) = Some t ->
  Forall (spec_ok ft t) (brecs b) ->
  read_container ft base (encode_container b) = Some (t, map content_rec (grouped (brecs b))).
Proof.
  intros ft base b t PF F.
  assert (OK0 : lg_ok []) by (intros k g []).
  destruct (encode_records_agroup (brecs b) [] 0 [] OK0) as [E OKG].
  change (jlg []) with (@nil (string * list (string * jv))) in E.
  set (G := agroup (brecs b) [] 0 []) in *.
  assert (PL : placed place_ok G) by (apply agroup_placed; [intros r s [] | intros l g i l0 r []]).
  assert (PM : Permutation (recs_lg G) (brecs b)) by (apply (agroup_perm (brecs b) [] 0 [])).
  assert (NEG : forall label g, In (label, g) G -> g <> [])
    by (apply (agroup_nonempty (brecs b) [] 0 []); intros l0 g0 []).
  assert (ALL : forall label g ident l r, In (label, g) G -> In (ident, l) g -> In r l ->
            rec_spec ft t label ident r /\ content_of t label ident r = content_rec r /\
            String.eqb label "prefix" = false /\ String.eqb label "bundle" = false).
  { intros label g ident l r Hg Hi Hr. apply place_spec; [|exact (PL label g ident l r Hg Hi Hr)].
    apply (proj1 (Forall_forall _ _) F). apply (Permutation_in _ PM). unfold recs_lg. apply in_flat_map.
    exists (label, g). split; [exact Hg|]. unfold recs_ig. apply in_flat_map. exists (ident, l). split; assumption. }
  assert (LAB : forall label g, In (label, g) G -> String.eqb label "prefix" = false /\ String.eqb label "bundle" = false).
  { intros label g Hg. pose proof (NEG label g Hg) as N. destruct g as [|[ident l] g']; [contradiction|].
    pose proof (OKG label _ Hg ident l (or_introl eq_refl)) as NL. destruct l as [|r l]; [contradiction|].
    destruct (ALL label _ ident (r :: l) r Hg (or_introl eq_refl) (or_introl eq_refl)) as [_ [_ X]]. exact X. }
  destruct (filter_kinds G LAB) as [LN FI].
  unfold read_container, encode_container. rewrite E.
  assert (LP : lookup "prefix" ((match encode_prefixes (bns b) with [] => [] | _ => [("prefix", JObj (encode_prefixes (bns b)))] end)
                                ++ map (fun kv => (fst kv, JObj (snd kv))) (jlg G))
               = match encode_prefixes (bns b) with [] => None | ps => Some (JObj ps) end).
  { destruct (encode_prefixes (bns b)); cbn [app lookup String.eqb Ascii.eqb Bool.eqb]; [exact LN | reflexivity]. }
  assert (FK : filter (fun kv : string * jv => negb (String.eqb (fst kv) "prefix" || String.eqb (fst kv) "bundle")%bool)
                 ((match encode_prefixes (bns b) with [] => [] | _ => [("prefix", JObj (encode_prefixes (bns b)))] end)
                  ++ map (fun kv => (fst kv, JObj (snd kv))) (jlg G))
               = map (fun kv => (fst kv, JObj (snd kv))) (jlg G)).
  { destruct (encode_prefixes (bns b)); cbn [app filter fst String.eqb Ascii.eqb Bool.eqb orb negb]; exact FI. }
  rewrite LP, PF, FK.
  rewrite (read_kinds_ok ft t G OKG NEG).
  - rewrite concat_map_flat. fold (content_lg t G). rewrite (content_lg_recs t G); [reflexivity|].
    intros label g ident l r Hg Hi Hr. exact (proj1 (proj2 (ALL label g ident l r Hg Hi Hr))).
  - intros label g ident l Hg Hi. apply Forall_forall. intros r Hr. exact (proj1 (ALL label g ident l r Hg Hi Hr)).
Qed.

(* ---- the premises are satisfiable: the container of JsonContProofs *)
Lemma y_spec_ok : Forall (spec_ok [] x_t) (brecs y_b).
Proof.
  cbn [brecs y_b]. apply Forall_cons; [|apply Forall_cons; [|apply Forall_cons; [|apply Forall_cons; [|apply Forall_nil]]]].
  - unfold spec_ok. cbn [rkind rid rattrs y_e1].
    split; [vm_compute; discriminate|]. split; [vm_compute; discriminate|].
    split; [vm_compute; repeat constructor; cbn; intuition discriminate|].
    split; [|split; [split; vm_compute; reflexivity | split; vm_compute; reflexivity]].
    apply Forall_cons; [|apply Forall_nil]. apply as_other; try (vm_compute; reflexivity).
    apply Forall_cons; [apply spec_json_int; exact x_std | apply Forall_nil].
  - unfold spec_ok. cbn [rkind rid rattrs x_r].
    split; [vm_compute; discriminate|]. split; [vm_compute; discriminate|].
    split; [vm_compute; repeat constructor; cbn; intuition discriminate|].
    split; [|split; [split; vm_compute; reflexivity | split; vm_compute; reflexivity]].
    apply Forall_cons; [|apply Forall_cons; [|apply Forall_cons; [|apply Forall_cons; [|apply Forall_nil]]]].
    + apply as_other; try (vm_compute; reflexivity).
      apply Forall_cons; [apply spec_json_int; exact x_std|]. apply Forall_cons; [apply spec_json_str | apply Forall_nil].
    + apply (as_ref [] x_t _ "activity" (x_q "a")); try (vm_compute; reflexivity). left. reflexivity.
    + apply as_other; try (vm_compute; reflexivity).
      apply Forall_cons; [|apply Forall_nil].
      apply spec_json_qn; [exact x_std | discriminate | reflexivity | reflexivity].
    + apply as_empty.
  - unfold spec_ok. cbn [rkind rid rattrs y_e2].
    split; [vm_compute; discriminate|]. split; [vm_compute; discriminate|].
    split; [constructor|]. split; [constructor|].
    split; [split; vm_compute; reflexivity | split; vm_compute; reflexivity].
  - unfold spec_ok. cbn [rkind rid rattrs y_u].
    split; [vm_compute; discriminate|]. split; [vm_compute; discriminate|].
    split; [vm_compute; repeat constructor; cbn; intuition discriminate|].
    split; [|split; [exact Logic.I | split; vm_compute; reflexivity]].
    apply Forall_cons; [|apply Forall_nil].
    apply (as_ref [] x_t _ "activity" (x_q "a")); try (vm_compute; reflexivity). left. reflexivity.
Qed.

Example spec_json_container_applies :
  read_container [] builtin_ptable (encode_container y_b) = Some (x_t, map content_rec (grouped (brecs y_b))).
Proof. apply spec_json_container; [vm_compute; reflexivity | exact y_spec_ok]. Qed.
