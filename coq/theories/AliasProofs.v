(* AliasProofs.v — ownership in the object graph of Alias.v.
   Inv: every pointer stored in an object leads to an object allocated for the same document, and every handle is a
   document allocated for itself.  Every call keeps Inv (astep_inv); a call writes only into objects allocated for its
   target (Step); hence two different documents never reach a common object (separation), a call leaves what every
   other document reaches exactly as it was (frame), and the result of a deriving call is a document no earlier handle
   denotes (derived_is_new). *)
From Coq Require Import List Arith Bool Lia.
From Prov Require Import Alias.
Import ListNotations.

(* ------------------------------------------------------------------ lists *)
Lemma nth_error_set_nth : forall (A : Type) (l : list A) n m x,
  nth_error (set_nth l n x) m =
  if Nat.eqb n m then match nth_error l n with Some _ => Some x | None => None end else nth_error l m.
Proof.
  intros A l; induction l as [|y r IH]; intros n m x.
  - cbn. destruct (Nat.eqb n m); destruct n, m; reflexivity.
  - destruct n as [|n], m as [|m]; cbn; try reflexivity. apply IH.
Qed.

Lemma length_set_nth : forall (A : Type) (l : list A) n x, length (set_nth l n x) = length l.
Proof. intros A l; induction l as [|y r IH]; intros [|n] x; cbn; auto. Qed.

Lemma nth_error_repeat' : forall (A : Type) (a : A) m n, n < m -> nth_error (repeat a m) n = Some a.
Proof. intros A a m; induction m as [|m IH]; intros [|n] L; cbn; try lia; auto. apply IH; lia. Qed.

Lemma flat_map_ext_in' : forall (A B : Type) (f g : A -> list B) l,
  (forall a, In a l -> f a = g a) -> flat_map f l = flat_map g l.
Proof.
  intros A B f g l; induction l as [|a r IH]; intros H; cbn; [reflexivity|].
  rewrite H by (left; reflexivity). rewrite IH; [reflexivity|]. intros; apply H; right; assumption.
Qed.

(* ------------------------------------------------------------------ the invariant *)
Definition ptrs (o : aobj) : list loc :=
  match o with
  | OMgr (Some p) _ => [p]
  | OMgr None _ => []
  | ORec b _ => [b]
  | OBun _ ns rs ss => ns :: rs ++ ss
  end.

Record Inv (w : aworld) : Prop := mkInv {
  inv_len : length (aown w) = length (aheap w);
  inv_ptr : forall l o p, aget w l = Some o -> In p (ptrs o) -> owner_of w p = owner_of w l;
  inv_rng : forall l t, owner_of w l = Some t -> t < length (aheap w);
  inv_docs : forall d, In d (adocs w) -> owner_of w d = Some d }.

(* w' comes from w by writing only into objects allocated for d *)
Record Step (d : loc) (w w' : aworld) : Prop := mkStep {
  st_inv : Inv w';
  st_own : forall l t, owner_of w l = Some t -> owner_of w' l = Some t;
  st_keep : forall l t, owner_of w l = Some t -> t <> d -> aget w' l = aget w l;
  st_docs : exists extra, adocs w' = adocs w ++ extra }.

Lemma step_refl : forall d w, Inv w -> Step d w w.
Proof. intros d w I; split; auto. exists []; rewrite app_nil_r; reflexivity. Qed.

Lemma step_trans : forall d w1 w2 w3, Step d w1 w2 -> Step d w2 w3 -> Step d w1 w3.
Proof.
  intros d w1 w2 w3 A B; split.
  - apply B.
  - intros l t H. apply B, A, H.
  - intros l t H N. rewrite (st_keep _ _ _ B l t); [apply (st_keep _ _ _ A l t); assumption | apply A; assumption | assumption].
  - destruct (st_docs _ _ _ A) as [e1 E1]. destruct (st_docs _ _ _ B) as [e2 E2]. exists (e1 ++ e2). rewrite E2, E1, app_assoc. reflexivity.
Qed.

Lemma owner_lt : forall w l t, Inv w -> owner_of w l = Some t -> l < length (aheap w).
Proof. intros w l t I H. rewrite <- (inv_len _ I). apply nth_error_Some. unfold owner_of in H. congruence. Qed.

Lemma aget_lt : forall w l o, aget w l = Some o -> l < length (aheap w).
Proof. intros w l o H. apply nth_error_Some. unfold aget in H. congruence. Qed.

Lemma aget_owner : forall w l o, Inv w -> aget w l = Some o -> exists t, owner_of w l = Some t.
Proof.
  intros w l o I H. pose proof (aget_lt _ _ _ H) as L. rewrite <- (inv_len _ I) in L.
  apply nth_error_Some in L. unfold owner_of. destruct (nth_error (aown w) l) as [t|]; [exists t; reflexivity | congruence].
Qed.

(* ------------------------------------------------------------------ the primitives *)
Lemma owner_alloc_old : forall w os t' l t, owner_of w l = Some t -> owner_of (alloc w os t') l = Some t.
Proof.
  intros w os t' l t H. unfold owner_of, alloc in *; cbn. rewrite nth_error_app1; [assumption|].
  apply nth_error_Some. congruence.
Qed.

Lemma owner_alloc_new : forall w os t i, Inv w -> i < length os -> owner_of (alloc w os t) (anext w + i) = Some t.
Proof.
  intros w os t i I L. unfold owner_of, alloc, anext; cbn. rewrite nth_error_app2 by (rewrite (inv_len _ I); lia).
  rewrite (inv_len _ I). replace (length (aheap w) + i - length (aheap w)) with i by lia. apply nth_error_repeat'; assumption.
Qed.

Lemma aget_alloc_old : forall w os t l, l < length (aheap w) -> aget (alloc w os t) l = aget w l.
Proof. intros w os t l L. unfold aget, alloc; cbn. apply nth_error_app1; assumption. Qed.

Lemma aget_alloc_new : forall w os t i, aget (alloc w os t) (anext w + i) = nth_error os i.
Proof.
  intros w os t i. unfold aget, alloc, anext; cbn. rewrite nth_error_app2 by lia.
  replace (length (aheap w) + i - length (aheap w)) with i by lia. reflexivity.
Qed.

Lemma owner_alloc_inv : forall w os t l x, Inv w -> owner_of (alloc w os t) l = Some x ->
  owner_of w l = Some x \/ (length (aheap w) <= l /\ x = t).
Proof.
  intros w os t l x I H. unfold owner_of, alloc in H; cbn in H.
  destruct (Nat.lt_ge_cases l (length (aown w))) as [L|L].
  - rewrite nth_error_app1 in H by assumption. left; exact H.
  - rewrite nth_error_app2 in H by assumption. right. split; [rewrite <- (inv_len _ I); assumption|].
    apply nth_error_In, repeat_spec in H. assumption.
Qed.

Lemma alloc_step : forall d w os t, Inv w ->
  (forall o p, In o os -> In p (ptrs o) -> owner_of (alloc w os t) p = Some t) ->
  t < length (aheap w) + length os ->
  Step d w (alloc w os t).
Proof.
  intros d w os t I P R. split.
  - split.
    + unfold alloc; cbn. rewrite !app_length, repeat_length, (inv_len _ I). reflexivity.
    + intros l o p G Hp.
      destruct (Nat.lt_ge_cases l (length (aheap w))) as [L|L].
      * rewrite aget_alloc_old in G by assumption.
        destruct (aget_owner _ _ _ I G) as [x Hx].
        rewrite (owner_alloc_old _ _ _ _ _ Hx).
        apply owner_alloc_old. rewrite (inv_ptr _ I _ _ _ G Hp). assumption.
      * replace l with (anext w + (l - length (aheap w))) in G |- * by (unfold anext; lia).
        rewrite aget_alloc_new in G.
        rewrite (P o p (nth_error_In _ _ G) Hp).
        symmetry. apply owner_alloc_new; [assumption|]. apply nth_error_Some. congruence.
    + intros l x H. unfold alloc; cbn. rewrite app_length.
      destruct (owner_alloc_inv _ _ _ _ _ I H) as [H1|[_ ->]]; [pose proof (inv_rng _ I _ _ H1); lia | assumption].
    + intros x Hx. apply owner_alloc_old. apply (inv_docs _ I). exact Hx.
  - intros l x H. apply owner_alloc_old; assumption.
  - intros l x H _. apply aget_alloc_old. eapply owner_lt; eassumption.
  - exists []. cbn. rewrite app_nil_r. reflexivity.
Qed.

Lemma aget_write : forall w l o m,
  aget (awrite w l o) m = if Nat.eqb l m then match aget w l with Some _ => Some o | None => None end else aget w m.
Proof. intros; unfold aget, awrite; cbn. apply nth_error_set_nth. Qed.

Lemma awrite_step : forall d w l o, Inv w -> owner_of w l = Some d ->
  (forall p, In p (ptrs o) -> owner_of w p = Some d) -> Step d w (awrite w l o).
Proof.
  intros d w l o I Hl P. split.
  - split.
    + unfold awrite; cbn. rewrite length_set_nth. apply I.
    + intros m o' p G Hp. change (owner_of (awrite w l o) p) with (owner_of w p). change (owner_of (awrite w l o) m) with (owner_of w m).
      rewrite aget_write in G. destruct (Nat.eqb_spec l m) as [->|N].
      * destruct (aget w m); [|discriminate]. injection G as <-. rewrite Hl. apply P; assumption.
      * eapply inv_ptr; eassumption.
    + intros m x H. unfold awrite; cbn. rewrite length_set_nth. eapply inv_rng; eassumption.
    + intros x Hx. apply (inv_docs _ I). exact Hx.
  - intros m x H; exact H.
  - intros m x H N. rewrite aget_write. destruct (Nat.eqb_spec l m) as [->|_]; [congruence | reflexivity].
  - exists []. cbn. rewrite app_nil_r. reflexivity.
Qed.

Lemma ptrs_bump : forall o, ptrs (bump_obj o) = ptrs o.
Proof. intros [[p|] v|b v|k ns rs ss]; reflexivity. Qed.

Lemma bump_step : forall d w l, Inv w -> owner_of w l = Some d -> Step d w (bump l w).
Proof.
  intros d w l I Hl. unfold bump. destruct (aget w l) as [o|] eqn:G; [|apply step_refl; assumption].
  apply awrite_step; [assumption | assumption |]. intros p Hp. rewrite ptrs_bump in Hp.
  rewrite (inv_ptr _ I _ _ _ G Hp). assumption.
Qed.

(* ------------------------------------------------------------------ the building blocks *)
Lemma add_rec_step : forall d b w, Inv w -> owner_of w b = Some d -> Step d w (add_rec d b w).
Proof.
  intros d b w I Hb. unfold add_rec. destruct (aget w b) as [[| |k ns rs ss]|] eqn:G; try (apply step_refl; assumption).
  assert (S1 : Step d w (alloc w [ORec b 0] d)).
  { apply alloc_step; [assumption | | pose proof (inv_rng _ I _ _ Hb); cbn; lia].
    intros o p [<-|[]] [<-|[]]. apply owner_alloc_old; assumption. }
  eapply step_trans; [exact S1|].
  set (w1 := alloc w [ORec b 0] d) in *.
  assert (Hb1 : owner_of w1 b = Some d) by (apply (st_own _ _ _ S1); assumption).
  assert (G1 : aget w1 b = Some (OBun k ns rs ss)).
  { unfold w1. rewrite aget_alloc_old; [assumption | eapply aget_lt; eassumption]. }
  assert (S2 : Step d w1 (awrite w1 b (OBun k ns (rs ++ [anext w]) ss))).
  { apply awrite_step; [apply (st_inv _ _ _ S1) | assumption |].
    intros p Hp. cbn in Hp. rewrite <- app_assoc in Hp.
    destruct Hp as [<-|Hp].
    - rewrite (inv_ptr _ (st_inv _ _ _ S1) _ _ _ G1); [assumption | left; reflexivity].
    - apply in_app_or in Hp. destruct Hp as [Hp|Hp].
      + rewrite (inv_ptr _ (st_inv _ _ _ S1) _ _ _ G1); [assumption | right; apply in_or_app; left; assumption].
      + destruct Hp as [<-|Hp].
        * unfold w1. replace (anext w) with (anext w + 0) by lia. apply owner_alloc_new; [assumption | cbn; lia].
        * rewrite (inv_ptr _ (st_inv _ _ _ S1) _ _ _ G1); [assumption | right; apply in_or_app; right; assumption]. }
  eapply step_trans; [exact S2|].
  apply bump_step; [apply (st_inv _ _ _ S2)|]. apply (st_own _ _ _ S2).
  rewrite (inv_ptr _ (st_inv _ _ _ S1) _ _ _ G1); [assumption | left; reflexivity].
Qed.

Lemma add_recs_step : forall d b k w, Inv w -> owner_of w b = Some d -> Step d w (add_recs d b k w).
Proof.
  intros d b k; induction k as [|k IH]; intros w I Hb; cbn [add_recs]; [apply step_refl; assumption|].
  pose proof (add_rec_step d b w I Hb) as S1.
  eapply step_trans; [exact S1|]. apply IH; [apply (st_inv _ _ _ S1) | apply (st_own _ _ _ S1); assumption].
Qed.

Lemma add_sub_step : forall d k w, Inv w -> owner_of w d = Some d -> Step d w (add_sub d k w).
Proof.
  intros d k w I Hd. unfold add_sub. destruct (aget w d) as [[| |isd ns rs ss]|] eqn:G; try (apply step_refl; assumption).
  set (os := [OMgr (Some ns) 0; OBun false (anext w) [] []]).
  assert (S1 : Step d w (alloc w os d)).
  { apply alloc_step; [assumption | | pose proof (inv_rng _ I _ _ Hd); cbn; lia].
    intros o p [<-|[<-|[]]] Hp; cbn in Hp.
    - destruct Hp as [<-|[]]. apply owner_alloc_old. rewrite (inv_ptr _ I _ _ _ G); [assumption | left; reflexivity].
    - destruct Hp as [<-|[]]. replace (anext w) with (anext w + 0) by lia. apply owner_alloc_new; [assumption | cbn; lia]. }
  eapply step_trans; [exact S1|].
  set (w1 := alloc w os d) in *.
  assert (G1 : aget w1 d = Some (OBun isd ns rs ss)).
  { unfold w1. rewrite aget_alloc_old; [assumption | eapply aget_lt; eassumption]. }
  assert (Hb : owner_of w1 (S (anext w)) = Some d).
  { unfold w1. replace (S (anext w)) with (anext w + 1) by lia. apply owner_alloc_new; [assumption | cbn; lia]. }
  assert (S2 : Step d w1 (awrite w1 d (OBun isd ns rs (ss ++ [S (anext w)])))).
  { apply awrite_step; [apply (st_inv _ _ _ S1) | apply (st_own _ _ _ S1); assumption |].
    intros p Hp. cbn in Hp. rewrite app_assoc in Hp.
    destruct Hp as [<-|Hp].
    - rewrite (inv_ptr _ (st_inv _ _ _ S1) _ _ _ G1); [apply (st_own _ _ _ S1); assumption | left; reflexivity].
    - apply in_app_or in Hp. destruct Hp as [Hp|[<-|[]]].
      + rewrite (inv_ptr _ (st_inv _ _ _ S1) _ _ _ G1); [apply (st_own _ _ _ S1); assumption | right; assumption].
      + assumption. }
  eapply step_trans; [exact S2|].
  apply add_recs_step; [apply (st_inv _ _ _ S2) | apply (st_own _ _ _ S2); assumption].
Qed.

Lemma fold_add_sub_step : forall d ks w, Inv w -> owner_of w d = Some d ->
  Step d w (fold_left (fun w k => add_sub d k w) ks w).
Proof.
  intros d ks; induction ks as [|k ks IH]; intros w I Hd; cbn [fold_left]; [apply step_refl; assumption|].
  pose proof (add_sub_step d k w I Hd) as S1.
  eapply step_trans; [exact S1|]. apply IH; [apply (st_inv _ _ _ S1) | apply (st_own _ _ _ S1); assumption].
Qed.

(* a new document: nothing that existed is written to, whatever document one asks about *)
Lemma new_doc_with_step : forall x k0 ks w, Inv w ->
  Step x w (new_doc_with k0 ks w) /\ adocs (new_doc_with k0 ks w) = adocs w ++ [anext w].
Proof.
  intros x k0 ks w I. unfold new_doc_with.
  set (d := anext w). set (os := [OBun true (S d) [] []; OMgr None 0]).
  assert (S1 : Step d w (alloc w os d)).
  { apply alloc_step; [assumption | | unfold d, anext; cbn; lia].
    intros o p [<-|[<-|[]]] Hp; cbn in Hp; [|contradiction].
    destruct Hp as [<-|[]]. replace (S d) with (anext w + 1) by (unfold d; lia). apply owner_alloc_new; [assumption | cbn; lia]. }
  set (w1 := alloc w os d) in *.
  assert (Hd : owner_of w1 d = Some d).
  { unfold w1, d. replace (anext w) with (anext w + 0) at 2 by lia. apply owner_alloc_new; [assumption | cbn; lia]. }
  set (w2 := mkAW (aheap w1) (aown w1) (adocs w1 ++ [d])).
  assert (S2 : Step d w1 w2).
  { split.
    - split; try apply (st_inv _ _ _ S1).
      intros y Hy. apply in_app_or in Hy. destruct Hy as [Hy|[<-|[]]]; [apply (inv_docs _ (st_inv _ _ _ S1)); assumption | assumption].
    - intros l t H; exact H.
    - intros l t H _; reflexivity.
    - exists [d]. reflexivity. }
  assert (Hd2 : owner_of w2 d = Some d) by exact Hd.
  pose proof (add_recs_step d d k0 w2 (st_inv _ _ _ S2) Hd2) as S3.
  pose proof (fold_add_sub_step d ks _ (st_inv _ _ _ S3) (st_own _ _ _ S3 _ _ Hd2)) as S4.
  pose proof (step_trans _ _ _ _ S1 (step_trans _ _ _ _ S2 (step_trans _ _ _ _ S3 S4))) as S.
  split.
  - split; [apply (st_inv _ _ _ S) | apply (st_own _ _ _ S) | | apply (st_docs _ _ _ S)].
    intros l t H _. apply (st_keep _ _ _ S l t H). pose proof (inv_rng _ I _ _ H). unfold d, anext. lia.
  - (* the handles: add_recs and add_sub do not touch them *)
    assert (D : forall b k w0, adocs (add_recs d b k w0) = adocs w0).
    { intros b k; induction k as [|k IHk]; intros w0; cbn [add_recs]; [reflexivity|].
      rewrite IHk. unfold add_rec. destruct (aget w0 b) as [[| |? ? ? ?]|]; try reflexivity.
      unfold bump. destruct (aget _ _); reflexivity. }
    assert (E : forall k w0, adocs (add_sub d k w0) = adocs w0).
    { intros k w0. unfold add_sub. destruct (aget w0 d) as [[| |? ? ? ?]|]; try reflexivity. rewrite D. reflexivity. }
    assert (F : forall ks0 w0, adocs (fold_left (fun w k => add_sub d k w) ks0 w0) = adocs w0).
    { intros ks0; induction ks0 as [|k ks0 IHk]; intros w0; cbn [fold_left]; [reflexivity|]. rewrite IHk. apply E. }
    rewrite F, D. reflexivity.
Qed.

(* ------------------------------------------------------------------ pointers out of an owned object *)
Lemma hdl_owner : forall w i d, Inv w -> hdl w i = Some d -> owner_of w d = Some d.
Proof. intros w i d I H. apply (inv_docs _ I). eapply nth_error_In; exact H. Qed.

Lemma sub_owner : forall w d s, Inv w -> In s (subs_of w d) -> owner_of w s = owner_of w d.
Proof.
  intros w d s I H. unfold subs_of in H. destruct (aget w d) as [[| |k ns rs ss]|] eqn:G; try contradiction.
  apply (inv_ptr _ I _ _ _ G). right; apply in_or_app; right; assumption.
Qed.

Lemma rec_owner : forall w b r, Inv w -> In r (recs_of w b) -> owner_of w r = owner_of w b.
Proof.
  intros w b r I H. unfold recs_of in H. destruct (aget w b) as [[| |k ns rs ss]|] eqn:G; try contradiction.
  apply (inv_ptr _ I _ _ _ G). right; apply in_or_app; left; assumption.
Qed.

Lemma ns_owner : forall w b m, Inv w -> ns_of w b = Some m -> owner_of w m = owner_of w b.
Proof.
  intros w b m I H. unfold ns_of in H. destruct (aget w b) as [[| |k ns rs ss]|] eqn:G; try discriminate.
  injection H as <-. apply (inv_ptr _ I _ _ _ G). left; reflexivity.
Qed.

Lemma cont_owner : forall w d s b, Inv w -> owner_of w d = Some d -> cont w d s = Some b -> owner_of w b = Some d.
Proof.
  intros w d [j|] b I Hd H; cbn in H.
  - rewrite (sub_owner w d b I); [assumption | eapply nth_error_In; exact H].
  - injection H as <-. assumption.
Qed.

Lemma update_subs_step : forall d cs w, Inv w -> owner_of w d = Some d -> Step d w (update_subs d cs w).
Proof.
  intros d cs; induction cs as [|[k [t|]] cs IH]; intros w I Hd; cbn [update_subs]; [apply step_refl; assumption| |].
  - destruct (nth_error (subs_of w d) t) as [b|] eqn:N; [|apply IH; assumption].
    assert (S1 : Step d w (add_recs d b k w)).
    { apply add_recs_step; [assumption|]. rewrite (sub_owner w d b I); [assumption | eapply nth_error_In; exact N]. }
    eapply step_trans; [exact S1|]. apply IH; [apply (st_inv _ _ _ S1) | apply (st_own _ _ _ S1); assumption].
  - pose proof (add_sub_step d k w I Hd) as S1.
    eapply step_trans; [exact S1|]. apply IH; [apply (st_inv _ _ _ S1) | apply (st_own _ _ _ S1); assumption].
Qed.

(* ------------------------------------------------------------------ every call *)
Definition wtarget (w : aworld) (o : aop) : option loc :=
  match atarget o with Some i => hdl w i | None => None end.

Theorem astep_step : forall w o, Inv w ->
  match wtarget w o with
  | Some d => Step d w (astep w o)
  | None => forall x, Step x w (astep w o)
  end.
Proof.
  intros w o I. unfold wtarget.
  destruct o as [|i|i s k|i s r|i s|k0 ks|i k0 ks|i|i s|i s j t|i j ms|i j|i s r]; cbn [atarget astep].
  - intros x. apply new_doc_with_step; assumption.
  - destruct (hdl w i) as [d|] eqn:H; [|intros x; apply step_refl; assumption].
    apply add_sub_step; [assumption | eapply hdl_owner; eassumption].
  - destruct (hdl w i) as [d|] eqn:H; [|intros x; apply step_refl; assumption].
    destruct (cont w d s) as [b|] eqn:C; [|apply step_refl; assumption].
    apply add_recs_step; [assumption|]. eapply cont_owner; try eassumption. eapply hdl_owner; eassumption.
  - destruct (hdl w i) as [d|] eqn:H; [|intros x; apply step_refl; assumption].
    pose proof (hdl_owner _ _ _ I H) as Hd.
    destruct (cont w d s) as [b|] eqn:C; [|apply step_refl; assumption].
    pose proof (cont_owner _ _ _ _ I Hd C) as Hb.
    destruct (nth_error (recs_of w b) r) as [x|] eqn:N; [|apply step_refl; assumption].
    assert (Hx : owner_of w x = Some d) by (rewrite (rec_owner w b x I); [assumption | eapply nth_error_In; exact N]).
    destruct (aget w x) as [[|ob v|]|] eqn:G; try (apply step_refl; assumption).
    assert (Hob : owner_of w ob = Some d) by (rewrite (inv_ptr _ I _ _ _ G); [assumption | left; reflexivity]).
    pose proof (bump_step d w x I Hx) as S1.
    destruct (ns_of w ob) as [m|] eqn:M; [|exact S1].
    eapply step_trans; [exact S1|]. apply bump_step; [apply (st_inv _ _ _ S1)|]. apply (st_own _ _ _ S1).
    rewrite (ns_owner w ob m I M). assumption.
  - destruct (hdl w i) as [d|] eqn:H; [|intros x; apply step_refl; assumption].
    pose proof (hdl_owner _ _ _ I H) as Hd.
    destruct (cont w d s) as [b|] eqn:C; [|apply step_refl; assumption].
    destruct (ns_of w b) as [m|] eqn:M; [|apply step_refl; assumption].
    apply bump_step; [assumption|]. rewrite (ns_owner w b m I M). eapply cont_owner; eassumption.
  - intros x. apply new_doc_with_step; assumption.
  - intros x. destruct (hdl w i); [apply new_doc_with_step; assumption | apply step_refl; assumption].
  - intros x. destruct (hdl w i) as [d|]; [|apply step_refl; assumption].
    destruct (subs_of w d); [apply step_refl; assumption | apply new_doc_with_step; assumption].
  - intros x. destruct (hdl w i) as [d|]; [|apply step_refl; assumption].
    destruct (cont w d s); [apply new_doc_with_step; assumption | apply step_refl; assumption].
  - destruct (hdl w i) as [d|] eqn:H; [|intros x; apply step_refl; assumption].
    destruct (hdl w j) as [e|]; [|apply step_refl; assumption].
    destruct (cont w d s) as [b|] eqn:C; [|apply step_refl; assumption].
    destruct (cont w e t) as [c|]; [|apply step_refl; assumption].
    apply add_recs_step; [assumption|]. eapply cont_owner; try eassumption. eapply hdl_owner; eassumption.
  - destruct (hdl w i) as [d|] eqn:H; [|intros x; apply step_refl; assumption].
    destruct (hdl w j) as [e|]; [|apply step_refl; assumption].
    pose proof (hdl_owner _ _ _ I H) as Hd.
    pose proof (add_recs_step d d (length (recs_of w e)) w I Hd) as S1.
    eapply step_trans; [exact S1|]. apply update_subs_step; [apply (st_inv _ _ _ S1) | apply (st_own _ _ _ S1); assumption].
  - destruct (hdl w i) as [d|] eqn:H; [|intros x; apply step_refl; assumption].
    destruct (hdl w j) as [e|]; [|apply step_refl; assumption].
    destruct (subs_of w e); [|apply step_refl; assumption].
    apply add_sub_step; [assumption | eapply hdl_owner; eassumption].
  - destruct (hdl w i) as [d|] eqn:H; [|intros x; apply step_refl; assumption].
    pose proof (hdl_owner _ _ _ I H) as Hd.
    destruct (cont w d s) as [b|] eqn:C; [|apply step_refl; assumption].
    pose proof (cont_owner _ _ _ _ I Hd C) as Hb.
    destruct (nth_error (recs_of w b) r) as [x|] eqn:N; [|apply step_refl; assumption].
    assert (Hx : owner_of w x = Some d) by (rewrite (rec_owner w b x I); [assumption | eapply nth_error_In; exact N]).
    destruct (aget w x) as [[|ob v|]|] eqn:G; try (apply step_refl; assumption).
    assert (Hob : owner_of w ob = Some d) by (rewrite (inv_ptr _ I _ _ _ G); [assumption | left; reflexivity]).
    assert (S1 : Step d w (alloc w [ORec ob 0] d)).
    { apply alloc_step; [assumption | | pose proof (inv_rng _ I _ _ Hd); cbn; lia].
      intros o p [<-|[]] [<-|[]]. apply owner_alloc_old; assumption. }
    assert (S2 : Step d (alloc w [ORec ob 0] d) (bump (anext w) (alloc w [ORec ob 0] d))).
    { apply bump_step; [apply (st_inv _ _ _ S1)|]. replace (anext w) with (anext w + 0) by lia. apply owner_alloc_new; [assumption | cbn; lia]. }
    pose proof (step_trans _ _ _ _ S1 S2) as S12.
    destruct (ns_of w ob) as [m|] eqn:M; [|exact S12].
    eapply step_trans; [exact S12|]. apply bump_step; [apply (st_inv _ _ _ S12)|]. apply (st_own _ _ _ S12).
    rewrite (ns_owner w ob m I M). assumption.
Qed.

Theorem astep_inv : forall w o, Inv w -> Inv (astep w o).
Proof.
  intros w o I. pose proof (astep_step w o I) as S. destruct (wtarget w o); [apply (st_inv _ _ _ S) | apply (st_inv _ _ _ (S 0))].
Qed.

Lemma inv_empty : Inv aempty.
Proof.
  split; cbn; auto.
  - intros l o p H. unfold aget in H; cbn in H. destruct l; discriminate.
  - intros l t H. unfold owner_of in H; cbn in H. destruct l; discriminate.
  - intros d [].
Qed.

Lemma fold_inv : forall ops w, Inv w -> Inv (fold_left astep ops w).
Proof. induction ops as [|o ops IH]; intros w I; cbn [fold_left]; [assumption | apply IH, astep_inv, I]. Qed.

Theorem arun_inv : forall ops, Inv (arun ops).
Proof. intros ops. apply fold_inv, inv_empty. Qed.

(* ------------------------------------------------------------------ reach, separation, frame *)
Theorem reach_owned : forall w d l, Inv w -> owner_of w d = Some d -> In l (reach w d) -> owner_of w l = Some d.
Proof.
  intros w d l I Hd H. unfold reach in H. destruct H as [<-|H]; [assumption|].
  destruct (aget w d) as [[| |k ns rs ss]|] eqn:G; try contradiction.
  destruct H as [<-|H]; [rewrite (inv_ptr _ I _ _ _ G); [assumption | left; reflexivity]|].
  apply in_app_or in H. destruct H as [H|H].
  - rewrite (inv_ptr _ I _ _ _ G); [assumption | right; apply in_or_app; left; assumption].
  - apply in_flat_map in H. destruct H as [s [Hs H]].
    assert (Os : owner_of w s = Some d) by (rewrite (inv_ptr _ I _ _ _ G); [assumption | right; apply in_or_app; right; assumption]).
    unfold reach_sub in H. destruct H as [<-|H]; [assumption|].
    destruct (aget w s) as [[| |k' ns' rs' ss']|] eqn:G'; try contradiction.
    destruct H as [<-|H].
    + rewrite (inv_ptr _ I _ _ _ G'); [assumption | left; reflexivity].
    + rewrite (inv_ptr _ I _ _ _ G'); [assumption | right; apply in_or_app; left; assumption].
Qed.

Theorem separation : forall w d1 d2 l, Inv w -> In d1 (adocs w) -> In d2 (adocs w) -> d1 <> d2 ->
  In l (reach w d1) -> ~ In l (reach w d2).
Proof.
  intros w d1 d2 l I H1 H2 N R1 R2.
  pose proof (reach_owned w d1 l I (inv_docs _ I _ H1) R1) as O1.
  pose proof (reach_owned w d2 l I (inv_docs _ I _ H2) R2) as O2.
  congruence.
Qed.

Theorem frame : forall x w w' b, Inv w -> Step x w w' -> In b (adocs w) -> b <> x -> observe w' b = observe w b.
Proof.
  intros x w w' b I S Hb N.
  pose proof (inv_docs _ I _ Hb) as Ob.
  assert (K : forall l, owner_of w l = Some b -> aget w' l = aget w l) by (intros l H; eapply (st_keep _ _ _ S); eassumption).
  assert (R : reach w' b = reach w b).
  { unfold reach. rewrite (K b Ob). destruct (aget w b) as [[| |k ns rs ss]|] eqn:G; try reflexivity.
    f_equal. f_equal. f_equal. apply flat_map_ext_in'. intros s Hs. unfold reach_sub. rewrite K; [reflexivity|].
    rewrite (inv_ptr _ I _ _ _ G); [assumption | right; apply in_or_app; right; assumption]. }
  unfold observe. rewrite R. apply map_ext_in. intros l Hl. rewrite K; [reflexivity|].
  apply reach_owned; assumption.
Qed.

(* the statement for a call: whatever the call is, every document that is not its target is observed exactly as before,
   and under the same handle *)
Theorem call_frame : forall w o h b, Inv w -> hdl w h = Some b -> wtarget w o <> Some b ->
  observe (astep w o) b = observe w b /\ hdl (astep w o) h = Some b.
Proof.
  intros w o h b I H T. pose proof (astep_step w o I) as S.
  assert (Hb : In b (adocs w)) by (eapply nth_error_In; exact H).
  destruct (wtarget w o) as [d|].
  - split; [eapply frame; try eassumption; congruence|].
    destruct (st_docs _ _ _ S) as [e E]. unfold hdl. rewrite E. rewrite nth_error_app1; [assumption|]. apply nth_error_Some. unfold hdl in H. congruence.
  - split; [eapply frame; [assumption | apply (S (Datatypes.S b)) | assumption | lia]|].
    destruct (st_docs _ _ _ (S 0)) as [e E]. unfold hdl. rewrite E. rewrite nth_error_app1; [assumption|]. apply nth_error_Some. unfold hdl in H. congruence.
Qed.

Fixpoint avoids (w : aworld) (ops : list aop) (b : loc) : Prop :=
  match ops with
  | [] => True
  | o :: r => wtarget w o <> Some b /\ avoids (astep w o) r b
  end.

Theorem independent : forall ops w h b, Inv w -> hdl w h = Some b -> avoids w ops b ->
  observe (fold_left astep ops w) b = observe w b /\ hdl (fold_left astep ops w) h = Some b.
Proof.
  induction ops as [|o ops IH]; intros w h b I H A; cbn [fold_left]; [split; [reflexivity | assumption]|].
  destruct A as [A1 A2]. destruct (call_frame w o h b I H A1) as [F1 F2].
  destruct (IH (astep w o) h b (astep_inv _ _ I) F2 A2) as [G1 G2]. split; [congruence | assumption].
Qed.

(* the calls documented as returning a new object *)
Definition deriving (o : aop) : bool :=
  match o with ABuild _ _ | AUnified _ _ _ | AFlattened _ | ADocFromRecs _ _ => true | _ => false end.

Theorem derived_is_new : forall w o, Inv w -> deriving o = true ->
  astep w o = w \/ (adocs (astep w o) = adocs w ++ [anext w] /\ ~ In (anext w) (adocs w)).
Proof.
  intros w o I D.
  assert (Fresh : ~ In (anext w) (adocs w)).
  { intros H. pose proof (owner_lt _ _ _ I (inv_docs _ I _ H)). unfold anext in *. lia. }
  destruct o; try discriminate; cbn [astep].
  - right. split; [apply (new_doc_with_step 0); assumption | assumption].
  - destruct (hdl w i); [right; split; [apply (new_doc_with_step 0); assumption | assumption] | left; reflexivity].
  - destruct (hdl w i) as [d|]; [|left; reflexivity].
    destruct (subs_of w d); [left; reflexivity | right; split; [apply (new_doc_with_step 0); assumption | assumption]].
  - destruct (hdl w i) as [d|]; [|left; reflexivity].
    destruct (cont w d s); [right; split; [apply (new_doc_with_step 0); assumption | assumption] | left; reflexivity].
Qed.

(* flattened() of a document that has bundles is such a call; of a bundle-free document it is the document itself *)
Lemma flattened_with_bundles_is_new : forall w i d s ss, Inv w -> hdl w i = Some d -> subs_of w d = s :: ss ->
  adocs (astep w (AFlattened i)) = adocs w ++ [anext w].
Proof. intros w i d s ss I H E. cbn [astep]. rewrite H, E. apply (new_doc_with_step 0); assumption. Qed.

(* ------------------------------------------------------------------ record.copy(), then changing the copy *)
Lemma aget_bump_other : forall w l m, l <> m -> aget (bump l w) m = aget w m.
Proof.
  intros w l m N. unfold bump. destruct (aget w l); [|reflexivity]. rewrite aget_write.
  destruct (Nat.eqb_spec l m); [contradiction | reflexivity].
Qed.

(* the copy is a new object; changing it writes the copy itself and the manager of the bundle the source record was
   made for — every object that existed is otherwise as it was, and no container lists the copy *)
Theorem copy_touch_footprint : forall w i s r d b x ob v,
  Inv w -> hdl w i = Some d -> cont w d s = Some b -> nth_error (recs_of w b) r = Some x -> aget w x = Some (ORec ob v) ->
  let w' := astep w (ACopyTouch i s r) in
  (forall l, l < anext w -> ns_of w ob <> Some l -> aget w' l = aget w l) /\ adocs w' = adocs w.
Proof.
  intros w i s r d b x ob v I H C N G w'. subst w'. cbn [astep]. rewrite H, C, N, G.
  assert (K : forall l, l < anext w -> aget (bump (anext w) (alloc w [ORec ob 0] d)) l = aget w l).
  { intros l L. rewrite aget_bump_other by lia. apply aget_alloc_old. exact L. }
  assert (D : adocs (bump (anext w) (alloc w [ORec ob 0] d)) = adocs w).
  { unfold bump. destruct (aget (alloc w [ORec ob 0] d) (anext w)); reflexivity. }
  destruct (ns_of w ob) as [m|] eqn:M.
  - split.
    + intros l L Nl. assert (Nm : m <> l) by (intros E; apply Nl; rewrite E; reflexivity). rewrite (aget_bump_other _ m l Nm). apply K; assumption.
    + unfold bump at 1. destruct (aget (bump (anext w) (alloc w [ORec ob 0] d)) m); [cbn; exact D | exact D].
  - split; [intros l L _; apply K; assumption | exact D].
Qed.
