(* ProvnDocProofs.v — C06 at document level (bundle-free documents): the text get_provn() prints — the
   document / endDocument frame, the default and prefix declarations, one line per record — is read by the
   specification's reader (ProvnSpec.read, whose fuel is the length of the text) as the document's content. *)
From Coq Require Import String Ascii List Bool Arith ZArith Lia.
From Prov Require Import Str StrProofs Sexp Tables Nsm NsmProofs Values Record RecordProofs World Spec Provn ProvnSpec
  ProvnProofs IsoDigits IsoProofs SpecProofs ProvnSpecProofs ProvnRecProofs.
Import ListNotations.
Open Scope string_scope.

(* ---- the fuel read gives the lexer always suffices: every token consumes at least one character *)
Lemma take_while_len : forall f s a b, take_while f s = (a, b) -> String.length b <= String.length s.
Proof.
  intros f s. induction s as [|c s IH]; intros a b H; cbn [take_while] in H.
  - inversion H; subst. apply le_n.
  - destruct (f c).
    + destruct (take_while f s) as [a0 b0] eqn:E. inversion H; subst. cbn [String.length]. specialize (IH a0 b eq_refl). lia.
    + inversion H; subst. apply le_n.
Qed.

Lemma take_until_len : forall c0 s a b, take_until c0 s = Some (a, b) -> String.length b < String.length s.
Proof.
  intros c0 s. induction s as [|c s IH]; intros a b H; cbn [take_until] in H; [discriminate|].
  destruct (Ascii.eqb c c0).
  - inversion H; subst. cbn [String.length]. lia.
  - destruct (take_until c0 s) as [[a0 b0]|] eqn:E; [|discriminate]. inversion H; subst. cbn [String.length].
    specialize (IH a0 b eq_refl). lia.
Qed.

Lemma short_string_len : forall s a b, short_string s = Some (a, b) -> String.length b < String.length s.
Proof.
  intros s. remember (String.length s) as n eqn:EN. revert s EN.
  induction n as [n IH] using lt_wf_ind. intros s EN a b H. destruct s as [|c r]; [discriminate|].
  cbn [short_string] in H. cbn [String.length] in EN. destruct (Ascii.eqb c dqc).
  - inversion H; subst. cbn [String.length]. lia.
  - destruct (Ascii.eqb c bslc).
    + destruct r as [|e r']; [discriminate|]. destruct (short_string r') as [[a0 b0]|] eqn:E; [|discriminate].
      inversion H; subst. cbn [String.length] in *.
      assert (X : String.length b < String.length r') by (apply (IH (String.length r') ltac:(lia) r' eq_refl a0 b E)). lia.
    + destruct (short_string r) as [[a0 b0]|] eqn:E; [|discriminate]. inversion H; subst. cbn [String.length].
      assert (X : String.length b < String.length r) by (apply (IH (String.length r) ltac:(lia) r eq_refl a0 b E)). lia.
Qed.

Lemma long_string_len : forall s a b, long_string s = Some (a, b) -> String.length b < String.length s.
Proof.
  intros s. remember (String.length s) as n eqn:EN. revert s EN.
  induction n as [n IH] using lt_wf_ind. intros s EN a b H. destruct s as [|c r]; [discriminate|].
  cbn [long_string] in H. cbn [String.length] in EN.
  assert (REC : forall a0 b0, long_string r = Some (a0, b0) -> String.length b0 < String.length r).
  { intros a0 b0 E. apply (IH (String.length r) ltac:(lia) r eq_refl a0 b0 E). }
  destruct (Ascii.eqb c bslc).
  - destruct r as [|e r']; [discriminate|]. destruct (long_string r') as [[a0 b0]|] eqn:E; [|discriminate].
    inversion H; subst. cbn [String.length] in *.
    assert (X : String.length b < String.length r') by (apply (IH (String.length r') ltac:(lia) r' eq_refl a0 b E)). lia.
  - destruct (Ascii.eqb c dqc).
    + destruct r as [|c2 [|c3 r3]].
      * destruct (long_string "") as [[a0 b0]|] eqn:E; [|discriminate]. cbn in E. discriminate.
      * destruct (long_string (String c2 "")) as [[a0 b0]|] eqn:E; [|discriminate]. inversion H; subst.
        specialize (REC a0 b eq_refl). cbn [String.length] in *. lia.
      * destruct (Ascii.eqb c2 dqc && Ascii.eqb c3 dqc)%bool.
        -- inversion H; subst. cbn [String.length]. lia.
        -- destruct (long_string (String c2 (String c3 r3))) as [[a0 b0]|] eqn:E; [|discriminate]. inversion H; subst.
           specialize (REC a0 b eq_refl). cbn [String.length] in *. lia.
    + destruct (long_string r) as [[a0 b0]|] eqn:E; [|discriminate]. inversion H; subst.
      specialize (REC a0 b eq_refl). cbn [String.length]. lia.
Qed.

Ltac len_facts :=
  repeat match goal with
         | E : take_while _ _ = (_, _) |- _ => apply take_while_len in E
         | E : take_until _ _ = Some (_, _) |- _ => apply take_until_len in E
         | E : short_string _ = Some (_, _) |- _ => apply short_string_len in E
         | E : long_string _ = Some (_, _) |- _ => apply long_string_len in E
         end.

Lemma lex1_len : forall (r1 r2 : string -> option (list tok)) n s l,
  (forall x y, String.length x <= n -> r1 x = Some y -> r2 x = Some y) ->
  String.length s <= S n -> lex1 r1 s = Some l -> lex1 r2 s = Some l.
Proof.
  intros r1 r2 n s l M LE H. unfold lex1 in *. destruct s as [|c r]; [exact H|]. cbv zeta in *.
  cbn [String.length] in LE.
  destruct (is_word_char c) eqn:WC.
  - (* a word character: none of the punctuation tests fires except possibly none; the word branch *)
    destruct (word_char_plain c WC) as [H0 [H1 [H2 [H3 [H4 [H5 [H6 [H7 [H8 [H9 [H10 [H11 H12]]]]]]]]]]]].
    rewrite H0, H1, H2, H3, H4, H5, H6, H7, H8, H9, H10, H11, H12 in *.
    cbn [take_while] in *. rewrite WC in *.
    destruct (take_while is_word_char r) as [a b] eqn:E.
    destruct (r1 b) as [l0|] eqn:EL; [|discriminate].
    rewrite (M b l0); [exact H | apply take_while_len in E; lia | exact EL].
  - repeat match goal with
           | H : context [if ?b then _ else _] |- _ => destruct b
           end;
    repeat match goal with
           | H : context [match ?x with _ => _ end] |- _ =>
               match x with
               | r1 _ => fail 1
               | _ => destruct x eqn:?
               end
           end; try discriminate;
    try (apply M; [len_facts; cbn [String.length] in *; lia | exact H]);
    repeat match goal with
           | H : match r1 ?x with Some _ => _ | None => _ end = Some _ |- _ =>
               destruct (r1 x) as [l0|] eqn:EL; [|discriminate];
               rewrite (M x l0); [exact H | len_facts; cbn [String.length] in *; lia | exact EL]
           end.
Qed.

Theorem lex_enough : forall f s l, lex f s = Some l -> lex (String.length s) s = Some l.
Proof.
  intros f. induction f as [|f IH]; intros s l H.
  - cbn [lex] in H. destruct s; [|discriminate]. exact H.
  - destruct s as [|c r]; [cbn in H |- *; exact H|].
    cbn [String.length]. rewrite lex_unfold in *.
    apply (lex1_len (lex f) (lex (String.length r)) (String.length r) (String c r) l); [| cbn [String.length]; lia | exact H].
    intros x y LE E. pose proof (IH x y E) as X.
    replace (String.length r) with ((String.length r - String.length x) + String.length x) by lia.
    apply lex_more. exact X.
Qed.

(* ---- lines *)
Definition nlc : ascii := "010"%char.
Definition sep_line : string := String nlc "  ".
Definition nl_start (rest : string) : Prop := exists r, rest = String nlc r.

Lemma nl_nonword : forall rest, nl_start rest -> nonword_start rest.
Proof. intros rest [r ->]. reflexivity. Qed.

Lemma lex_sep_line : Lexes any_rest sep_line 3 [].
Proof. intros rest f toks _ L. cbn [sep_line append Nat.add lex]. cbn. exact L. Qed.

Lemma lex_space : Lexes any_rest " " 1 [].
Proof. intros rest f toks _ L. cbn [append Nat.add lex]. cbn. exact L. Qed.

Lemma lex_nl : Lexes any_rest (String nlc "") 1 [].
Proof. intros rest f toks _ L. cbn [append Nat.add lex]. cbn. exact L. Qed.

Lemma lex_iri : forall u, contains_char ">"%char u = false -> Lexes any_rest ("<" ++ u ++ ">") 1 [TIri u].
Proof.
  intros u NC rest f toks _ L. change (("<" ++ u ++ ">") ++ rest) with (String "<" ((u ++ ">") ++ rest)).
  cbn [Nat.add lex]. change (is_ws "<"%char) with false. cbn [Ascii.eqb Bool.eqb]. cbv iota.
  rewrite app_assoc_s. change (">" ++ rest) with (String ">" rest).
  rewrite (take_until_app ">"%char u rest NC), L. reflexivity.
Qed.

(* a declaration line *)
Definition decl_ok (pu : string * string) : Prop :=
  fst pu <> "" /\ wordy (fst pu) = true /\ contains_char ">"%char (snd pu) = false.

Definition prefix_line (pu : string * string) : string := "prefix " ++ fst pu ++ " <" ++ snd pu ++ ">".
Definition default_line (u : string) : string := "default <" ++ u ++ ">".

Lemma nonword_space : forall r, nonword_start (" " ++ r).
Proof. intros r. reflexivity. Qed.

Lemma lex_prefix_line : forall pu, decl_ok pu ->
  Lexes any_rest (prefix_line pu) 5 [TWord "prefix"; TWord (fst pu); TIri (snd pu)].
Proof.
  intros [p u] [NE [W NC]] rest f toks _ L. cbn [fst snd] in *. unfold prefix_line. cbn [fst snd].
  change ("prefix " ++ p ++ " <" ++ u ++ ">") with ("prefix" ++ " " ++ p ++ " " ++ ("<" ++ u ++ ">")).
  rewrite !app_assoc_s.
  change (5 + f) with (1 + (1 + (1 + (1 + (1 + f))))).
  apply (lex_a_word "prefix" ltac:(discriminate) eq_refl _ _ _ (nonword_space _)).
  apply (lex_space _ _ _ Logic.I).
  apply (lex_a_word p NE W _ _ _ (nonword_space _)).
  apply (lex_space _ _ _ Logic.I).
  rewrite <- !app_assoc_s.
  apply (lex_iri u NC rest f toks Logic.I L).
Qed.

Lemma lex_default_line : forall u, contains_char ">"%char u = false ->
  Lexes any_rest (default_line u) 3 [TWord "default"; TIri u].
Proof.
  intros u NC rest f toks _ L. unfold default_line.
  change ("default <" ++ u ++ ">") with ("default" ++ " " ++ ("<" ++ u ++ ">")). rewrite !app_assoc_s.
  change (3 + f) with (1 + (1 + (1 + f))).
  apply (lex_a_word "default" ltac:(discriminate) eq_refl _ _ _ (nonword_space _)).
  apply (lex_space _ _ _ Logic.I).
  rewrite <- !app_assoc_s. apply (lex_iri u NC rest f toks Logic.I L).
Qed.

(* ---- the block of record lines *)
Definition rec_spec_ok (t : ptable) (r : prec) (cs : list (list sexp)) : Prop :=
  word_ok (rec_name r) /\
  kind_by_name (rec_name r) = Some (rkind r, formal_attrs (rkind r), is_element (rkind r)) /\
  match rid r with
  | Some q => word_ok (qn_str q) /\ nresolve t (qn_str q) = Some (qn_uri q) /\ qn_str q <> "-"
  | None => is_element (rkind r) = false
  end /\
  (is_element (rkind r) = true \/ formal_attrs (rkind r) <> []) /\
  Forall2 (fun lv c => formal_ok t (fst lv) (snd lv) c) (combine (formal_attrs (rkind r)) (rec_fvals r)) cs /\
  Forall (pair_ok t) (rec_extras r).

Definition rec_cont (r : prec) (cs : list (list sexp)) : sexp :=
  L [A "rec"; A (spec_prov_uri ++ rkind r); rec_idc r; L (concat cs ++ map content_pair (rec_extras r))].

Definition rbound (r : prec) : nat := length (rec_items0 r) + length (rec_fvals r) + length (rec_extras r).
Definition total (rs : list prec) : nat := length rs + list_sum (map rbound rs).

Definition stops (toks : list tok) : Prop :=
  match toks with TWord _ :: TLpar :: _ => False | _ => True end.

Lemma read_exprs_stop : forall f t toks, stops toks -> read_exprs (S f) t toks = Some ([], toks).
Proof.
  intros f t toks S. cbn [read_exprs]. destruct toks as [|[w| | | | | | | | | | | |] [|[| | | | | | | | | | | |] r]]; try reflexivity.
  destruct S.
Qed.

Fixpoint conts (rs : list prec) (css : list (list (list sexp))) : list sexp :=
  match rs, css with
  | r :: rs', cs :: css' => rec_cont r cs :: conts rs' css'
  | _, _ => []
  end.

Lemma records_block : forall t rs css, Forall2 (rec_spec_ok t) rs css -> rs <> [] ->
  exists k T, (exists nm T', T = TWord nm :: TLpar :: T') /\ forall rest f toks, lex f rest = Some toks -> stops toks ->
    lex (k + f) (concat_str sep_line (map record_provn rs) ++ rest) = Some (T ++ toks)%list /\
    forall fuel, total rs + 1 < fuel -> read_exprs fuel t (T ++ toks) = Some (conts rs css, toks).
Proof.
  intros t rs css F. induction F as [|r cs rs css [WN [KN [ID [NE [FO FE]]]]] F IH]; intros NEr; [contradiction|].
  destruct (provn_record t r cs WN KN ID NE FO FE) as [k1 [body I1]].
  destruct rs as [|r2 rs'].
  - (* the last record *)
    inversion F; subst css.
    exists k1, (TWord (rec_name r) :: TLpar :: body)%list. split; [eexists; eexists; reflexivity|]. intros rest f toks L ST.
    destruct (I1 rest f toks L) as [LX RE]. cbn [map concat_str]. split; [exact LX|].
    intros fuel LE. unfold total in LE. cbn [length map list_sum fold_right] in LE.
    destruct fuel as [|f0]; [lia|]. cbn [app read_exprs].
    rewrite (RE (S f0)) by (unfold rbound in LE; lia).
    destruct f0 as [|f1]; [lia|]. rewrite (read_exprs_stop f1 t toks ST). reflexivity.
  - destruct (IH ltac:(discriminate)) as [k2 [T2 [_ I2]]].
    destruct css as [|cs2 css']; [inversion F|].
    exists (k1 + (3 + k2)), (TWord (rec_name r) :: TLpar :: body ++ T2)%list. split; [eexists; eexists; reflexivity|]. intros rest f toks L ST.
    destruct (I2 rest f toks L ST) as [LX2 RE2].
    set (tail := concat_str sep_line (map record_provn (r2 :: rs')) ++ rest) in *.
    assert (TXT : concat_str sep_line (map record_provn (r :: r2 :: rs')) ++ rest = record_provn r ++ sep_line ++ tail).
    { unfold tail. cbn [map concat_str]. rewrite !app_assoc_s. reflexivity. }
    rewrite TXT.
    assert (L1 : lex (3 + (k2 + f)) (sep_line ++ tail) = Some (T2 ++ toks)%list).
    { apply (lex_sep_line tail (k2 + f) (T2 ++ toks)%list Logic.I). exact LX2. }
    destruct (I1 (sep_line ++ tail) (3 + (k2 + f)) (T2 ++ toks)%list L1) as [LX RE].
    split.
    + rewrite <- !Nat.add_assoc. cbn [app]. rewrite <- app_assoc. exact LX.
    + intros fuel LE. unfold total in LE. cbn [length map list_sum fold_right] in LE.
      destruct fuel as [|f0]; [lia|]. cbn [app read_exprs]. rewrite <- app_assoc.
      rewrite (RE (S f0)) by (unfold rbound in LE; lia).
      rewrite (RE2 f0); [reflexivity|]. unfold total. cbn [length map list_sum fold_right]. lia.
Qed.

(* ---- lengths: the fuel of read (the length of the text) covers the parser's needs *)
Lemma len_app : forall a b, String.length (a ++ b) = String.length a + String.length b.
Proof. induction a as [|c a IH]; intros b; [reflexivity|]. cbn [append String.length]. rewrite IH. reflexivity. Qed.

Lemma concat_str_len : forall sep l, list_sum (map String.length l) <= String.length (concat_str sep l).
Proof.
  intros sep l. induction l as [|x l IH]; [apply le_n|]. destruct l as [|y l'].
  - cbn. lia.
  - change (concat_str sep (x :: y :: l')) with (x ++ sep ++ concat_str sep (y :: l')).
    rewrite !len_app. cbn [map list_sum fold_right] in *.
    apply Nat.add_le_mono_l. eapply Nat.le_trans; [exact IH|]. apply Nat.le_add_l.
Qed.

Lemma word_len : forall w, word_ok w -> 1 <= String.length w.
Proof. intros [|c w] [NE _]; [contradiction | cbn; lia]. Qed.

Lemma sum_ge_count : forall l, Forall (fun w => 1 <= String.length w) l -> length l <= list_sum (map String.length l).
Proof.
  intros l F. induction F as [|x l H F IH]; [apply le_n|]. unfold list_sum in *. cbn [length map fold_right] in *. lia.
Qed.

Lemma item_text_len : forall kv, 1 <= String.length (item_text kv).
Proof. intros kv. unfold item_text. rewrite !len_app. cbn [String.length]. lia. Qed.

Lemma record_len : forall t r cs, rec_spec_ok t r cs -> rbound r + 2 <= String.length (record_provn r).
Proof.
  intros t r cs [WN [KN [ID [NE [FO FE]]]]]. rewrite record_provn_shape. unfold body_text. rewrite !len_app.
  cbn [String.length].
  set (ws := (rec_items0 r ++ map fword (rec_fvals r))%list).
  assert (W : Forall (fun w => 1 <= String.length w) ws).
  { unfold ws. apply Forall_app. split.
    - unfold rec_items0. destruct (rid r) as [q|]; [|constructor]. destruct (is_element (rkind r)); [|constructor].
      constructor; [apply word_len; exact (proj1 ID) | constructor].
    - assert (LEN : length (formal_attrs (rkind r)) = length (rec_fvals r)) by (unfold rec_fvals; rewrite map_length; reflexivity).
      clear -FO LEN. revert cs FO LEN. generalize (formal_attrs (rkind r)) as ls. generalize (rec_fvals r) as vs.
      induction vs as [|v vs IH]; intros ls cs FO LEN; [constructor|].
      destruct ls as [|l ls]; [discriminate|]. cbn [combine] in FO. inversion FO as [|x c xs cs' H F']; subst.
      cbn [map]. constructor; [apply word_len; exact (formal_word_ok t l v c H) | apply (IH ls cs' F'); cbn in LEN; lia]. }
  pose proof (concat_str_len ", " (ws ++ attrs_item (rec_extras r))) as CL. rewrite map_app, list_sum_app in CL.
  pose proof (sum_ge_count ws W) as SW.
  assert (EX : length (rec_extras r) <= list_sum (map String.length (attrs_item (rec_extras r)))).
  { unfold attrs_item. destruct (rec_extras r) as [|e es] eqn:EE; [apply le_0_n|].
    unfold list_sum. cbn [map fold_right]. rewrite !len_app. cbn [String.length].
    change (item_text e :: map item_text es) with (map item_text (e :: es)).
    pose proof (concat_str_len ", " (map item_text (e :: es))) as C2. unfold list_sum in C2.
    assert (S2 : length (e :: es) <= list_sum (map String.length (map item_text (e :: es)))).
    { rewrite <- (map_length item_text (e :: es)). apply sum_ge_count. apply Forall_forall. intros x Hx.
      apply in_map_iff in Hx. destruct Hx as [kv [<- _]]. apply item_text_len. }
    unfold list_sum in S2. lia. }
  assert (LW : length ws = length (rec_items0 r) + length (rec_fvals r)) by (unfold ws; rewrite app_length, map_length; reflexivity).
  unfold rbound. unfold list_sum in *. lia.
Qed.

Lemma total_le_text : forall t rs css, Forall2 (rec_spec_ok t) rs css ->
  total rs + length rs <= String.length (concat_str sep_line (map record_provn rs)).
Proof.
  intros t rs css F. pose proof (concat_str_len sep_line (map record_provn rs)) as CL.
  assert (S : list_sum (map rbound rs) + 2 * length rs <= list_sum (map String.length (map record_provn rs))).
  { clear CL. induction F as [|r cs rs css H F IH]; [apply le_n|].
    unfold list_sum in *. cbn [map fold_right length]. pose proof (record_len t r cs H). lia. }
  unfold total. unfold list_sum in *. lia.
Qed.

(* ---- declarations *)
Inductive decl : Type := DDefault (u : string) | DPrefix (p u : string).
Definition decl_line (d : decl) : string :=
  match d with DDefault u => default_line u | DPrefix p u => prefix_line (p, u) end.
Definition decl_toks (d : decl) : list tok :=
  match d with DDefault u => [TWord "default"; TIri u] | DPrefix p u => [TWord "prefix"; TWord p; TIri u] end.
Definition decl_good (d : decl) : Prop :=
  match d with DDefault u => contains_char ">"%char u = false | DPrefix p u => decl_ok (p, u) end.
Definition decl_apply (t : ptable) (d : decl) : ptable :=
  match d with DDefault u => dset "" u t | DPrefix p u => dset p u t end.

Fixpoint decls_text (ds : list decl) : string :=
  match ds with [] => "" | d :: r => decl_line d ++ sep_line ++ decls_text r end.

Lemma decls_lex : forall ds, Forall decl_good ds ->
  exists k, forall rest f toks, lex f rest = Some toks ->
    lex (k + f) (decls_text ds ++ rest) = Some (flat_map decl_toks ds ++ toks)%list.
Proof.
  intros ds F. induction F as [|d ds G F IH].
  - exists 0. intros rest f toks L. exact L.
  - destruct IH as [k2 I2].
    destruct d as [u|p u]; cbn [decl_good] in G.
    + exists (3 + (3 + k2)). intros rest f toks L. cbn [decls_text decl_line flat_map decl_toks]. rewrite !app_assoc_s.
      rewrite <- !Nat.add_assoc. rewrite <- app_assoc.
      apply (lex_default_line u G _ _ _ Logic.I). apply (lex_sep_line _ _ _ Logic.I). apply I2. exact L.
    + exists (5 + (3 + k2)). intros rest f toks L. cbn [decls_text decl_line flat_map decl_toks]. rewrite !app_assoc_s.
      rewrite <- !Nat.add_assoc. rewrite <- app_assoc.
      apply (lex_prefix_line (p, u) G _ _ _ Logic.I). apply (lex_sep_line _ _ _ Logic.I). apply I2. exact L.
Qed.

(* read_decls consumes exactly the declaration tokens when what follows is not a declaration *)
Definition not_decl (toks : list tok) : Prop :=
  match toks with
  | TWord "default" :: TIri _ :: _ => False
  | TWord "prefix" :: TWord _ :: TIri _ :: _ => False
  | _ => True
  end.

Lemma read_decls_stop : forall fuel t toks, not_decl toks -> read_decls t toks fuel = (t, toks).
Proof.
  intros fuel t toks N. destruct fuel as [|f]; [destruct toks; reflexivity|].
  destruct toks as [|x r]; [reflexivity|].
  destruct x as [w| | | | | | | | | | | |]; try reflexivity.
  revert N. unfold not_decl.
  (* walk down w only as far as it still matches one of the two keywords *)
  repeat (destruct w as [|[[] [] [] [] [] [] [] []] w]; try reflexivity);
    destruct r as [|y r2]; try reflexivity; destruct y; try reflexivity; try (intros []);
    destruct r2 as [|z r3]; try reflexivity; destruct z; try reflexivity; intros [].
Qed.

Lemma not_decl_lpar : forall nm r, not_decl (TWord nm :: TLpar :: r).
Proof.
  intros nm r. unfold not_decl.
  repeat (destruct nm as [|[[] [] [] [] [] [] [] []] nm]; try exact Logic.I).
Qed.

Lemma read_decls_decls : forall ds t toks fuel, length ds <= fuel -> not_decl toks ->
  read_decls t (flat_map decl_toks ds ++ toks) fuel = (fold_left decl_apply ds t, toks).
Proof.
  induction ds as [|d ds IH]; intros t toks fuel LE N.
  - cbn [flat_map app fold_left]. apply read_decls_stop. exact N.
  - destruct fuel as [|f]; [cbn in LE; lia|]. cbn [length] in LE.
    destruct d as [u|p u]; cbn [flat_map decl_toks app fold_left decl_apply].
    + change (read_decls t (TWord "default" :: TIri u :: (flat_map decl_toks ds ++ toks)) (S f))
        with (read_decls (dset "" u t) (flat_map decl_toks ds ++ toks) f).
      apply IH; [lia | exact N].
    + change (read_decls t (TWord "prefix" :: TWord p :: TIri u :: (flat_map decl_toks ds ++ toks)) (S f))
        with (read_decls (dset p u t) (flat_map decl_toks ds ++ toks) f).
      apply IH; [lia | exact N].
Qed.

Lemma decls_len : forall ds, length ds <= String.length (decls_text ds).
Proof.
  induction ds as [|d ds IH]; [apply le_n|]. cbn [decls_text length]. rewrite !len_app.
  assert (1 <= String.length (decl_line d)) by (destruct d; cbn; lia). lia.
Qed.

(* ---- the document *)
Definition doc_text (ds : list decl) (rs : list prec) : string :=
  "document" ++ sep_line ++ decls_text ds ++ sep_line ++ concat_str sep_line (map record_provn rs)
  ++ String nlc "" ++ "endDocument".

Theorem provn_document : forall ds rs css,
  Forall decl_good ds ->
  Forall2 (rec_spec_ok (fold_left decl_apply ds builtin_ptable)) rs css -> rs <> [] ->
  ProvnSpec.read (doc_text ds rs) = Some (L (A "content" :: L (A "bundle" :: A "" :: conts rs css) :: [])).
Proof.
  intros ds rs css DG F NE. set (t := fold_left decl_apply ds builtin_ptable) in *.
  destruct (records_block t rs css F NE) as [kr [T [[nm [T' ET]] IR]]].
  destruct (decls_lex ds DG) as [kd ID].
  set (tail := String nlc "" ++ "endDocument").
  assert (LT : lex (1 + (1 + 0)) tail = Some [TWord "endDocument"]).
  { apply (lex_nl "endDocument" (1 + 0) [TWord "endDocument"] Logic.I).
    change "endDocument" with ("endDocument" ++ "") at 1.
    apply (lex_a_word "endDocument" ltac:(discriminate) eq_refl "" 0 [] Logic.I). reflexivity. }
  destruct (IR tail (1 + (1 + 0)) [TWord "endDocument"] LT Logic.I) as [LR RE].
  set (recs := concat_str sep_line (map record_provn rs)) in *.
  assert (LX : lex (1 + (3 + (kd + (3 + (kr + (1 + (1 + 0))))))) (doc_text ds rs)
               = Some (TWord "document" :: flat_map decl_toks ds ++ T ++ [TWord "endDocument"])%list).
  { unfold doc_text. fold recs. fold tail.
    apply (lex_a_word "document" ltac:(discriminate) eq_refl _ _ _ (nl_nonword _ (ex_intro _ _ eq_refl))).
    apply (lex_sep_line _ _ _ Logic.I). apply ID. apply (lex_sep_line _ _ _ Logic.I). exact LR. }
  set (n := String.length (doc_text ds rs)).
  assert (LN : lex (S n) (doc_text ds rs) = Some (TWord "document" :: flat_map decl_toks ds ++ T ++ [TWord "endDocument"])%list).
  { apply lex_step. apply (lex_enough _ _ _ LX). }
  assert (ND : not_decl (T ++ [TWord "endDocument"])) by (rewrite ET; apply not_decl_lpar).
  assert (BD : length ds <= n /\ total rs + 1 < S n).
  { unfold n, doc_text. fold recs. rewrite !len_app. pose proof (decls_len ds). pose proof (total_le_text t rs css F).
    fold recs in H0. assert (1 <= length rs) by (destruct rs; [contradiction | cbn; lia]). cbn [String.length]. lia. }
  destruct BD as [BD1 BD2].
  unfold ProvnSpec.read. fold n. rewrite LN.
  rewrite (read_decls_decls ds builtin_ptable _ n BD1 ND). fold t.
  rewrite (RE (S n) BD2). reflexivity.
Qed.

(* ---- the printer's document text is doc_text: a document without bundles, with at least one declaration
   (the printer leaves the blank line out when there is none) and at least one record *)
Definition decls_of (m : nsm) : list decl :=
  ((match dflt m with Some d => [DDefault (ns_uri d)] | None => [] end)
   ++ map (fun kv => DPrefix (ns_prefix (snd kv)) (ns_uri (snd kv))) (regd m))%list.

Lemma app_str_assoc : forall a b c : string, (a ++ b) ++ c = a ++ (b ++ c).
Proof. induction a as [|x a IH]; intros b c; cbn; [reflexivity | rewrite IH; reflexivity]. Qed.

Lemma concat_cons : forall sep x r, r <> [] -> concat_str sep (x :: r) = x ++ sep ++ concat_str sep r.
Proof. intros sep x [|y r] NE; [contradiction | reflexivity]. Qed.

Lemma concat_decls : forall ds rs, rs <> [] ->
  concat_str sep_line (map decl_line ds ++ "" :: rs)%list = decls_text ds ++ sep_line ++ concat_str sep_line rs.
Proof.
  induction ds as [|d ds IH]; intros rs NE.
  - cbn [map app decls_text]. rewrite (concat_cons _ _ _ NE). reflexivity.
  - cbn [map app decls_text]. rewrite concat_cons by (destruct (map decl_line ds); discriminate).
    rewrite (IH rs NE). rewrite !app_str_assoc. reflexivity.
Qed.

Lemma decl_lines_of : forall m,
  ((match dflt m with Some d => [("default <" ++ ns_uri d ++ ">")%string] | None => [] end)
   ++ map (fun kv => ("prefix " ++ ns_prefix (snd kv) ++ " <" ++ ns_uri (snd kv) ++ ">")%string) (regd m))%list
  = map decl_line (decls_of m).
Proof.
  intros m. unfold decls_of. rewrite map_app, map_map. f_equal. destruct (dflt m); reflexivity.
Qed.

Theorem doc_provn_text : forall d,
  dbundles d = [] -> decls_of (bns (dmain d)) <> [] -> brecs (dmain d) <> [] ->
  doc_provn d = doc_text (decls_of (bns (dmain d))) (brecs (dmain d)).
Proof.
  intros d NB ND NR. unfold doc_provn, container_provn. rewrite NB. cbn [map]. rewrite app_nil_r.
  set (m := bns (dmain d)) in *.
  assert (BL : match (match dflt m with Some d0 => [("default <" ++ ns_uri d0 ++ ">")%string] | None => [] end),
                     (map (fun kv => ("prefix " ++ ns_prefix (snd kv) ++ " <" ++ ns_uri (snd kv) ++ ">")%string) (regd m)) with
               | [], [] => [] | _, _ => [""] end = [""]).
  { unfold decls_of in ND. destruct (dflt m); [reflexivity|]. destruct (regd m); [contradiction | reflexivity]. }
  rewrite BL. clear BL.
  replace ("document" :: (match dflt m with Some d0 => [("default <" ++ ns_uri d0 ++ ">")%string] | None => [] end)
           ++ map (fun kv => ("prefix " ++ ns_prefix (snd kv) ++ " <" ++ ns_uri (snd kv) ++ ">")%string) (regd m)
           ++ [""] ++ map record_provn (brecs (dmain d)))%list
    with ("document" :: map decl_line (decls_of m) ++ "" :: map record_provn (brecs (dmain d)))%list
    by (rewrite <- decl_lines_of, <- List.app_assoc; reflexivity).
  change (String nl (spaces 1)) with sep_line.
  rewrite concat_cons by (destruct (map decl_line (decls_of m)); discriminate).
  rewrite concat_decls by (destruct (brecs (dmain d)); [contradiction | discriminate]).
  unfold doc_text. rewrite !app_str_assoc. reflexivity.
Qed.

(* the reader reads back what the printer wrote: any document without bundles whose declarations and
   records meet the premises *)
Corollary provn_doc_provn : forall d css,
  dbundles d = [] -> decls_of (bns (dmain d)) <> [] -> brecs (dmain d) <> [] ->
  Forall decl_good (decls_of (bns (dmain d))) ->
  Forall2 (rec_spec_ok (fold_left decl_apply (decls_of (bns (dmain d))) builtin_ptable)) (brecs (dmain d)) css ->
  ProvnSpec.read (doc_provn d)
  = Some (L (A "content" :: L (A "bundle" :: A "" :: conts (brecs (dmain d)) css) :: [])).
Proof.
  intros d css NB ND NR DG F. rewrite (doc_provn_text d NB ND NR). exact (provn_document _ _ _ DG F NR).
Qed.

(* ---- the premises are satisfiable: a document declaring ex, with an entity and the usage of ProvnRecProofs *)
Definition pd_m : nsm := match add_namespace nsm_init (mkNs "ex" "http://e/") with Some (m, _) => m | None => nsm_init end.
Definition pd_doc : doc := mkD (mkB None pd_m [mkRec "Entity" (Some (p_q "e")) []; p_r] []) [].
Definition pd_t : ptable := fold_left decl_apply (decls_of pd_m) builtin_ptable.

Lemma pd_std : PStd pd_t.
Proof. split; reflexivity. Qed.

Example provn_document_applies :
  ProvnSpec.read (doc_provn pd_doc)
  = Some (L [A "content";
             L [A "bundle"; A "";
                L [A "rec"; A (spec_prov_uri ++ "Entity"); A "http://e/e"; L []];
                L [A "rec"; A (spec_prov_uri ++ "Usage"); A "http://e/u";
                   L [L [A (spec_prov_uri ++ "activity"); L [A "qn"; A "http://e/a"]];
                      L [A "http://e/k"; L [A "int"; sx_Z 5]]; L [A "http://e/k"; L [A "str"; A "x"]];
                      L [A (spec_prov_uri ++ "type"); L [A "qn"; A "http://e/T"]]]]]]).
Proof.
  refine (eq_trans (provn_doc_provn pd_doc
            [ [] ; [[L [A (spec_prov_uri ++ "activity"); L [A "qn"; A (qn_uri (p_q "a"))]]]; []; []] ] eq_refl _ _ _ _) _).
  - vm_compute. discriminate.
  - vm_compute. discriminate.
  - vm_compute. constructor; [|constructor]. split; [discriminate | split; reflexivity].
  - change (brecs (dmain pd_doc)) with [mkRec "Entity" (Some (p_q "e")) []; p_r]. fold pd_t.
    constructor; [|constructor; [|constructor]].
    + split; [split; [discriminate | reflexivity]|]. split; [vm_compute; reflexivity|].
      split; [cbn [rid]; split; [split; [discriminate | reflexivity]|]; split; [reflexivity | discriminate]|].
      split; [left; reflexivity|]. split; [vm_compute; constructor | constructor].
    + split; [split; [discriminate | reflexivity]|]. split; [vm_compute; reflexivity|].
      split; [cbn [rid p_r]; split; [split; [discriminate | reflexivity]|]; split; [reflexivity | discriminate]|].
      split; [right; vm_compute; discriminate|]. split.
      * change (combine (formal_attrs (rkind p_r)) (rec_fvals p_r))
          with [("activity", Some (VQn (p_q "a"))); ("entity", None); ("time", None)].
        constructor; [|constructor; [|constructor; [|constructor]]]; cbn [fst snd].
        -- apply fo_ref; [reflexivity | split; [discriminate | reflexivity] | discriminate | reflexivity].
        -- apply fo_absent.
        -- apply fo_absent.
      * change (rec_extras p_r) with [(p_q "k", VInt 5); (p_q "k", VStr "x"); (prov_qn "type", VQn (p_q "T"))].
        constructor; [|constructor; [|constructor; [|constructor]]]; (split; [split; [discriminate | split; reflexivity]|]); cbn [snd].
        -- apply vspec_int.
        -- apply vspec_str.
        -- apply vspec_qn; [exact pd_std | discriminate | reflexivity | reflexivity | reflexivity].
  - vm_compute. reflexivity.
Qed.
