(* Extract.v — extraction of the executable model.  Only the two standard
   directive files are used; Z / positive / nat stay inductive. *)
From Coq Require Extraction.
From Coq Require Import ExtrOcamlBasic ExtrOcamlString.
From Prov Require Import Main.
Extraction "model.ml" Main.run.
