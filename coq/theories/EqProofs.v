(* EqProofs.v — C04: record equality is an equivalence; the greedy matching of
   ProvBundle.__eq__ decides mutual inclusion of the record lists. *)
From Coq Require Import String Ascii List Bool Arith ZArith Lia.
From Prov Require Import Str StrProofs Sexp Tables Nsm NsmProofs Values Record RecordProofs World.
Import ListNotations.
Open Scope string_scope.

(* ------------------------------------------------------------------ values *)
Lemma qn_eqb_sym : forall a b, qn_eqb a b = qn_eqb b a.
Proof. intros. unfold qn_eqb. apply String.eqb_sym. Qed.
Lemma qn_eqb_trans : forall a b c, qn_eqb a b = true -> qn_eqb b c = true -> qn_eqb a c = true.
Proof. unfold qn_eqb. intros a b c H1 H2. apply String.eqb_eq in H1, H2. rewrite H1, H2. apply String.eqb_refl. Qed.

Lemma opt_eqb_refl {T} (f : T -> T -> bool) : (forall x, f x x = true) -> forall o, opt_eqb f o o = true.
Proof. intros R [x|]; simpl; auto. Qed.
Lemma opt_eqb_sym {T} (f : T -> T -> bool) : (forall x y, f x y = f y x) -> forall a b, opt_eqb f a b = opt_eqb f b a.
Proof. intros S [x|] [y|]; simpl; auto. Qed.
Lemma opt_eqb_trans {T} (f : T -> T -> bool) :
  (forall x y z, f x y = true -> f y z = true -> f x z = true) ->
  forall a b c, opt_eqb f a b = true -> opt_eqb f b c = true -> opt_eqb f a c = true.
Proof. intros Tr [x|] [y|] [z|]; simpl; intros; try discriminate; eauto. Qed.

Lemma time_eqb_refl : forall t, time_eqb t t = true.
Proof. intros t. unfold time_eqb. destruct (dtz t); apply Z.eqb_refl. Qed.
Lemma time_eqb_sym : forall a b, time_eqb a b = time_eqb b a.
Proof. intros a b. unfold time_eqb. destruct (dtz a), (dtz b); try reflexivity; apply Z.eqb_sym. Qed.
Lemma time_eqb_trans : forall a b c, time_eqb a b = true -> time_eqb b c = true -> time_eqb a c = true.
Proof.
  intros a b c. unfold time_eqb. destruct (dtz a), (dtz b), (dtz c); intros H1 H2; try discriminate;
    apply Z.eqb_eq in H1, H2; apply Z.eqb_eq; congruence.
Qed.

Lemma str_eqb_trans : forall a b c, String.eqb a b = true -> String.eqb b c = true -> String.eqb a c = true.
Proof. intros a b c H1 H2. apply String.eqb_eq in H1, H2. subst. apply String.eqb_refl. Qed.

Lemma py_eq_refl : forall v, py_eq v v = true.
Proof.
  intros v. destruct v as [s|z|r iv g|b|t|u|q|l d g]; cbn.
  - apply String.eqb_refl.
  - apply Z.eqb_refl.
  - destruct iv; [apply Z.eqb_refl | apply String.eqb_refl].
  - apply Z.eqb_refl.
  - apply time_eqb_refl.
  - apply String.eqb_refl.
  - apply qn_eqb_refl.
  - rewrite String.eqb_refl, (opt_eqb_refl qn_eqb qn_eqb_refl), (opt_eqb_refl String.eqb String.eqb_refl). reflexivity.
Qed.

Lemma py_eq_sym : forall a b, py_eq a b = py_eq b a.
Proof.
  intros a b.
  destruct a as [s|z|r iv g|b0|t|u|q|l d g]; destruct b as [s'|z'|r' iv' g'|b1|t'|u'|q'|l' d' g'];
    cbn; try reflexivity;
    try (destruct iv); try (destruct iv'); try reflexivity;
    try apply String.eqb_sym; try apply Z.eqb_sym; try apply time_eqb_sym; try apply qn_eqb_sym.
  rewrite (String.eqb_sym l l'), (opt_eqb_sym qn_eqb qn_eqb_sym d d'), (opt_eqb_sym String.eqb String.eqb_sym g g').
  reflexivity.
Qed.

Lemma set_same_refl : forall v, set_same v v = true.
Proof. intros v. destruct v; cbn [set_same]; apply py_eq_refl. Qed.
Lemma set_same_sym : forall a b, set_same a b = set_same b a.
Proof. intros a b. destruct a, b; cbn [set_same]; try reflexivity; apply py_eq_sym. Qed.

Lemma set_same_trans : forall a b c, set_same a b = true -> set_same b c = true -> set_same a c = true.
Proof.
  intros a b c.
  destruct a as [s|z|r iv g|b0|t|u|q|l d g]; destruct b as [s'|z'|r' iv' g'|b1|t'|u'|q'|l' d' g'];
    destruct c as [s2|z2|r2 iv2 g2|b2|t2|u2|q2|l2 d2 g2];
    cbn; try (intros; discriminate);
    try (destruct iv); try (destruct iv'); try (destruct iv2); cbn; try (intros; discriminate);
    intros H1 H2;
    try (apply Z.eqb_eq in H1, H2; apply Z.eqb_eq; congruence);
    try (eapply str_eqb_trans; eassumption);
    try (eapply time_eqb_trans; eassumption);
    try (eapply qn_eqb_trans; eassumption).
  apply andb_true_iff in H1, H2. destruct H1 as [H1 G1], H2 as [H2 G2].
  apply andb_true_iff in H1, H2. destruct H1 as [L1 D1], H2 as [L2 D2].
  rewrite (str_eqb_trans _ _ _ L1 L2), (opt_eqb_trans qn_eqb qn_eqb_trans _ _ _ D1 D2),
    (opt_eqb_trans String.eqb str_eqb_trans _ _ _ G1 G2). reflexivity.
Qed.

(* ------------------------------------------------------------------ records *)
Lemma pair_same_refl : forall p, pair_same p p = true.
Proof. intros [a v]. unfold pair_same; cbn. rewrite qn_eqb_refl, set_same_refl. reflexivity. Qed.
Lemma pair_same_sym : forall p q, pair_same p q = pair_same q p.
Proof. intros [a v] [b w]. unfold pair_same; cbn. rewrite qn_eqb_sym, set_same_sym. reflexivity. Qed.
Lemma pair_same_trans : forall p q r, pair_same p q = true -> pair_same q r = true -> pair_same p r = true.
Proof.
  intros [a v] [b w] [c x]. unfold pair_same; cbn. intros H1 H2.
  apply andb_true_iff in H1, H2. destruct H1 as [A1 B1], H2 as [A2 B2].
  rewrite (qn_eqb_trans _ _ _ A1 A2), (set_same_trans _ _ _ B1 B2). reflexivity.
Qed.

Lemma subset_pairs_refl : forall x, subset_pairs x x = true.
Proof.
  intros x. unfold subset_pairs. apply forallb_forall. intros a Ha.
  apply existsb_exists. exists a. split; [exact Ha | apply pair_same_refl].
Qed.
Lemma subset_pairs_trans : forall x y z, subset_pairs x y = true -> subset_pairs y z = true -> subset_pairs x z = true.
Proof.
  unfold subset_pairs. intros x y z H1 H2. rewrite forallb_forall in *. intros a Ha.
  specialize (H1 a Ha). apply existsb_exists in H1. destruct H1 as [b [Hb E1]].
  specialize (H2 b Hb). apply existsb_exists in H2. destruct H2 as [c [Hc E2]].
  apply existsb_exists. exists c. split; [exact Hc | eapply pair_same_trans; eauto].
Qed.

Theorem rec_eqb_refl : forall r, rec_eqb r r = true.
Proof.
  intros r. unfold rec_eqb. rewrite String.eqb_refl, (opt_eqb_refl qn_eqb qn_eqb_refl), subset_pairs_refl. reflexivity.
Qed.

Theorem rec_eqb_sym : forall a b, rec_eqb a b = rec_eqb b a.
Proof.
  intros a b. unfold rec_eqb.
  rewrite (String.eqb_sym (rkind a)), (opt_eqb_sym qn_eqb qn_eqb_sym (rid a)).
  destruct (String.eqb (rkind b) (rkind a)), (opt_eqb qn_eqb (rid b) (rid a)); cbn; try reflexivity.
  apply andb_comm.
Qed.

Theorem rec_eqb_trans : forall a b c, rec_eqb a b = true -> rec_eqb b c = true -> rec_eqb a c = true.
Proof.
  intros a b c. unfold rec_eqb. intros H1 H2.
  apply andb_true_iff in H1. destruct H1 as [H1 S1b]. apply andb_true_iff in H1. destruct H1 as [H1 S1a].
  apply andb_true_iff in H1. destruct H1 as [K1 I1].
  apply andb_true_iff in H2. destruct H2 as [H2 S2b]. apply andb_true_iff in H2. destruct H2 as [H2 S2a].
  apply andb_true_iff in H2. destruct H2 as [K2 I2].
  rewrite (str_eqb_trans _ _ _ K1 K2).
  rewrite (opt_eqb_trans qn_eqb qn_eqb_trans _ _ _ I1 I2).
  rewrite (subset_pairs_trans _ _ _ S1a S2a), (subset_pairs_trans _ _ _ S2b S1b). reflexivity.
Qed.

(* ------------------------------------------------------------------ greedy matching *)
Definition incl_eq (a b : list prec) : Prop := forall x, In x a -> exists y, In y b /\ rec_eqb x y = true.
(* no two positions hold equal records *)
Inductive NoDupE : list prec -> Prop :=
| NDE_nil : NoDupE []
| NDE_cons : forall x l, (forall y, In y l -> rec_eqb x y = false) -> NoDupE l -> NoDupE (x :: l).

Lemma remove_first_spec : forall f l l',
  remove_first f l = Some l' ->
  exists y, f y = true /\ (forall z, In z l <-> z = y \/ In z l') /\ length l = S (length l') /\
            (forall z, In z l' -> In z l).
Proof.
  intros f. induction l as [|x l IH]; intros l' H; cbn in H; [discriminate|].
  destruct (f x) eqn:E.
  - inversion H; subst. exists x. repeat split; auto; intros; cbn in *; intuition.
  - destruct (remove_first f l) as [r'|] eqn:ER; [|discriminate]. inversion H; subst.
    destruct (IH r' eq_refl) as [y [Fy [M [L S]]]]. exists y. repeat split; auto.
    + intros [->|Hz]; [right; left; reflexivity|]. apply M in Hz. destruct Hz; [left|right; right]; assumption.
    + intros [->|[->|Hz]]; [right; apply M; left; reflexivity | left; reflexivity | right; apply M; right; assumption].
    + cbn. rewrite L. reflexivity.
    + intros z [->|Hz]; [left; reflexivity | right; apply S; exact Hz].
Qed.

Lemma remove_first_none : forall f l, remove_first f l = None -> forall y, In y l -> f y = false.
Proof.
  intros f. induction l as [|x l IH]; intros H y Hy; cbn in *; [contradiction|].
  destruct (f x) eqn:E; [discriminate|].
  destruct (remove_first f l) eqn:ER; [discriminate|].
  destruct Hy as [->|Hy]; [exact E | apply IH; auto].
Qed.

Lemma greedy_sound : forall a b, greedy_match a b = true -> incl_eq a b.
Proof.
  induction a as [|x a IH]; intros b H; [intros y []|].
  cbn in H. destruct (remove_first (rec_eqb x) b) as [b'|] eqn:E; [|discriminate].
  destruct (remove_first_spec _ _ _ E) as [y [Fy [M [L S]]]].
  intros z [->|Hz].
  - exists y. split; [apply M; left; reflexivity | exact Fy].
  - destruct (IH _ H z Hz) as [w [Hw Ew]]. exists w. split; [apply S; exact Hw | exact Ew].
Qed.

Lemma greedy_length : forall a b, greedy_match a b = true -> length a <= length b.
Proof.
  induction a as [|x a IH]; intros b H; cbn; [lia|].
  cbn in H. destruct (remove_first (rec_eqb x) b) as [b'|] eqn:E; [|discriminate].
  destruct (remove_first_spec _ _ _ E) as [y [_ [_ [L _]]]]. apply IH in H. lia.
Qed.

(* when the lengths agree, the matching is onto *)
Lemma greedy_onto : forall a b, greedy_match a b = true -> length a = length b -> incl_eq b a.
Proof.
  induction a as [|x a IH]; intros b H L.
  - destruct b; [intros y []|discriminate].
  - cbn in H. destruct (remove_first (rec_eqb x) b) as [b'|] eqn:E; [|discriminate].
    destruct (remove_first_spec _ _ _ E) as [y [Fy [M [Lb S]]]].
    assert (L' : length a = length b') by (cbn in L; lia).
    intros z Hz. apply M in Hz. destruct Hz as [->|Hz].
    + exists x. split; [left; reflexivity | rewrite rec_eqb_sym; exact Fy].
    + destruct (IH _ H L' z Hz) as [w [Hw Ew]]. exists w. split; [right; exact Hw | exact Ew].
Qed.

Lemma greedy_complete : forall a b, NoDupE a -> incl_eq a b -> greedy_match a b = true.
Proof.
  induction a as [|x a IH]; intros b N I; [reflexivity|]. cbn.
  inversion N as [|? ? Nx Na]; subst.
  destruct (remove_first (rec_eqb x) b) as [b'|] eqn:E.
  - destruct (remove_first_spec _ _ _ E) as [y [Fy [M [Lb S]]]].
    apply IH; [exact Na|]. intros z Hz.
    destruct (I z (or_intror Hz)) as [w [Hw Ew]].
    apply M in Hw. destruct Hw as [->|Hw]; [|exists w; split; assumption].
    (* z ~ y ~ x contradicts NoDupE *)
    exfalso. assert (X : rec_eqb x z = true).
    { eapply rec_eqb_trans; [exact Fy|]. rewrite rec_eqb_sym. exact Ew. }
    rewrite (Nx z Hz) in X. discriminate.
  - exfalso. destruct (I x (or_introl eq_refl)) as [w [Hw Ew]].
    rewrite (remove_first_none _ _ E w Hw) in Ew. discriminate.
Qed.

(* dedup = set(records) *)
Lemma dedup_In : forall l x, In x (dedup l) -> In x l.
Proof.
  induction l as [|r l IH]; intros x H; cbn in *; [contradiction|].
  destruct (existsb (rec_eqb r) l); [right; apply IH; exact H|].
  destruct H as [->|H]; [left; reflexivity | right; apply IH; exact H].
Qed.

Lemma dedup_covers : forall l x, In x l -> exists y, In y (dedup l) /\ rec_eqb x y = true.
Proof.
  induction l as [|r l IH]; intros x H; cbn in *; [contradiction|].
  destruct (existsb (rec_eqb r) l) eqn:E.
  - destruct H as [->|H]; [|apply IH; exact H].
    apply existsb_exists in E. destruct E as [z [Hz Ez]].
    destruct (IH z Hz) as [y [Hy Ey]]. exists y. split; [exact Hy | eapply rec_eqb_trans; eauto].
  - destruct H as [->|H].
    + exists x. split; [left; reflexivity | apply rec_eqb_refl].
    + destruct (IH x H) as [y [Hy Ey]]. exists y. split; [right; exact Hy | exact Ey].
Qed.

Lemma dedup_NoDupE : forall l, NoDupE (dedup l).
Proof.
  induction l as [|r l IH]; cbn; [constructor|].
  destruct (existsb (rec_eqb r) l) eqn:E; [exact IH|].
  constructor; [|exact IH]. intros y Hy. apply dedup_In in Hy.
  destruct (rec_eqb r y) eqn:Ey; [|reflexivity].
  assert (X : existsb (rec_eqb r) l = true) by (apply existsb_exists; eauto). congruence.
Qed.

Lemma incl_eq_trans : forall a b c, incl_eq a b -> incl_eq b c -> incl_eq a c.
Proof.
  intros a b c H1 H2 x Hx. destruct (H1 x Hx) as [y [Hy Ey]]. destruct (H2 y Hy) as [z [Hz Ez]].
  exists z. split; [exact Hz | eapply rec_eqb_trans; eauto].
Qed.

Lemma incl_eq_dedup_l : forall l, incl_eq (dedup l) l.
Proof. intros l x Hx. exists x. split; [apply dedup_In; exact Hx | apply rec_eqb_refl]. Qed.
Lemma incl_eq_dedup_r : forall l, incl_eq l (dedup l).
Proof. intros l x Hx. apply dedup_covers. exact Hx. Qed.

(* ProvBundle.__eq__ decides: same set of records (up to record equality) *)
Theorem bundle_eqb_iff : forall a b,
  bundle_eqb a b = true <-> (incl_eq (brecs a) (brecs b) /\ incl_eq (brecs b) (brecs a)).
Proof.
  intros a b. unfold bundle_eqb. split.
  - intros H. apply andb_true_iff in H. destruct H as [L G]. apply Nat.eqb_eq in L. split.
    + eapply incl_eq_trans; [apply incl_eq_dedup_r|].
      eapply incl_eq_trans; [apply greedy_sound; exact G | apply incl_eq_dedup_l].
    + eapply incl_eq_trans; [apply incl_eq_dedup_r|].
      eapply incl_eq_trans; [apply greedy_onto; [exact G | exact L] | apply incl_eq_dedup_l].
  - intros [I1 I2].
    assert (G1 : greedy_match (dedup (brecs a)) (dedup (brecs b)) = true).
    { apply greedy_complete; [apply dedup_NoDupE|].
      eapply incl_eq_trans; [apply incl_eq_dedup_l|]. eapply incl_eq_trans; [exact I1 | apply incl_eq_dedup_r]. }
    assert (G2 : greedy_match (dedup (brecs b)) (dedup (brecs a)) = true).
    { apply greedy_complete; [apply dedup_NoDupE|].
      eapply incl_eq_trans; [apply incl_eq_dedup_l|]. eapply incl_eq_trans; [exact I2 | apply incl_eq_dedup_r]. }
    apply greedy_length in G1 as L1. apply greedy_length in G2 as L2.
    apply andb_true_iff. split; [apply Nat.eqb_eq; lia | exact G1].
Qed.

Corollary bundle_eqb_refl : forall a, bundle_eqb a a = true.
Proof.
  intros a. apply bundle_eqb_iff. split; intros x Hx; exists x; (split; [exact Hx | apply rec_eqb_refl]).
Qed.
Corollary bundle_eqb_sym : forall a b, bundle_eqb a b = bundle_eqb b a.
Proof.
  intros a b. destruct (bundle_eqb a b) eqn:E1, (bundle_eqb b a) eqn:E2; try reflexivity.
  - apply bundle_eqb_iff in E1. destruct E1 as [A B].
    assert (X : bundle_eqb b a = true) by (apply bundle_eqb_iff; split; assumption). congruence.
  - apply bundle_eqb_iff in E2. destruct E2 as [A B].
    assert (X : bundle_eqb a b = true) by (apply bundle_eqb_iff; split; assumption). congruence.
Qed.
Corollary bundle_eqb_trans : forall a b c, bundle_eqb a b = true -> bundle_eqb b c = true -> bundle_eqb a c = true.
Proof.
  intros a b c H1 H2. apply bundle_eqb_iff in H1, H2. destruct H1 as [A1 B1], H2 as [A2 B2].
  apply bundle_eqb_iff. split; eapply incl_eq_trans; eauto.
Qed.

(* ------------------------------------------------------------------ documents *)
Definition bundles_sub (a b : doc) : Prop :=
  forall k ba, lookup k (dbundles a) = Some ba ->
    exists bb, lookup k (dbundles b) = Some bb /\ bundle_eqb ba bb = true.

Definition doc_equiv (a b : doc) : Prop :=
  bundle_eqb (dmain a) (dmain b) = true /\ bundles_sub a b /\ bundles_sub b a.

Lemma forallb_bundles_sub : forall a b, uniq (dbundles a) ->
  (forallb (fun kb => match lookup (fst kb) (dbundles b) with
                      | Some ob => bundle_eqb (snd kb) ob | None => false end) (dbundles a) = true
   <-> bundles_sub a b).
Proof.
  intros a b U. rewrite forallb_forall. split.
  - intros H k ba L. apply lookup_In in L. specialize (H _ L). cbn in H.
    destruct (lookup k (dbundles b)) as [ob|]; [eauto | discriminate].
  - intros H [k ba] Hin. cbn. apply (uniq_In_lookup _ _ _ U) in Hin.
    destruct (H _ _ Hin) as [bb [L E]]. rewrite L. exact E.
Qed.

Lemma keys_incl : forall a b, bundles_sub a b -> incl (map fst (dbundles a)) (map fst (dbundles b)).
Proof.
  intros a b S k Hk. apply in_map_iff in Hk. destruct Hk as [[k' ba] [<- Hin]]. cbn.
  destruct (In_lookup_some _ _ _ Hin) as [v L]. destruct (S _ _ L) as [bb [Lb _]].
  eapply lookup_key_in; eauto.
Qed.

(* ProvDocument.__eq__ (as repaired) decides: equal own records and the same bundles
   (same identifiers, equal bundles) *)
Theorem doc_eqb_iff : forall a b, uniq (dbundles a) -> uniq (dbundles b) ->
  (doc_eqb a b = true <-> doc_equiv a b).
Proof.
  intros a b Ua Ub. unfold doc_eqb, doc_equiv. split.
  - intros H. apply andb_true_iff in H. destruct H as [H F]. apply andb_true_iff in H. destruct H as [M L].
    apply Nat.eqb_eq in L. apply (forallb_bundles_sub a b Ua) in F. split; [exact M|]. split; [exact F|].
    (* equal number of bundles + inclusion of keys => the other inclusion *)
    intros k bb Lb.
    assert (KI : incl (map fst (dbundles b)) (map fst (dbundles a))).
    { apply NoDup_length_incl; [exact Ua | rewrite !map_length; lia | apply keys_incl; exact F]. }
    assert (Hk : In k (map fst (dbundles a))) by (apply KI; eapply lookup_key_in; eauto).
    apply in_map_iff in Hk. destruct Hk as [[k' ba] [E Hin]]. cbn in E. subst k'.
    apply (uniq_In_lookup _ _ _ Ua) in Hin. destruct (F _ _ Hin) as [bb' [Lb' Eb]].
    rewrite Lb in Lb'. inversion Lb'; subst. exists ba. split; [exact Hin | rewrite bundle_eqb_sym; exact Eb].
  - intros [M [S1 S2]]. rewrite M. cbn [andb].
    assert (L : length (dbundles a) = length (dbundles b)).
    { apply Nat.le_antisymm.
      - rewrite <- (map_length fst (dbundles a)), <- (map_length fst (dbundles b)).
        apply NoDup_incl_length; [exact Ua | apply keys_incl; exact S1].
      - rewrite <- (map_length fst (dbundles a)), <- (map_length fst (dbundles b)).
        apply NoDup_incl_length; [exact Ub | apply keys_incl; exact S2]. }
    rewrite L, Nat.eqb_refl. cbn [andb]. apply (forallb_bundles_sub a b Ua). exact S1.
Qed.

Corollary doc_eqb_sym : forall a b, uniq (dbundles a) -> uniq (dbundles b) -> doc_eqb a b = doc_eqb b a.
Proof.
  intros a b Ua Ub.
  assert (X : forall x y, uniq (dbundles x) -> uniq (dbundles y) -> doc_eqb x y = true -> doc_eqb y x = true).
  { intros x y Ux Uy H. apply (doc_eqb_iff x y Ux Uy) in H. destruct H as [M [S1 S2]].
    apply (doc_eqb_iff y x Uy Ux). split; [rewrite bundle_eqb_sym; exact M | split; assumption]. }
  destruct (doc_eqb a b) eqn:E1, (doc_eqb b a) eqn:E2; try reflexivity.
  - rewrite (X a b Ua Ub E1) in E2. discriminate.
  - rewrite (X b a Ub Ua E2) in E1. discriminate.
Qed.

Corollary doc_eqb_refl : forall a, uniq (dbundles a) -> doc_eqb a a = true.
Proof.
  intros a U. apply (doc_eqb_iff a a U U). split; [apply bundle_eqb_refl|].
  split; intros k ba L; exists ba; (split; [exact L | apply bundle_eqb_refl]).
Qed.

Corollary doc_eqb_trans : forall a b c, uniq (dbundles a) -> uniq (dbundles b) -> uniq (dbundles c) ->
  doc_eqb a b = true -> doc_eqb b c = true -> doc_eqb a c = true.
Proof.
  intros a b c Ua Ub Uc H1 H2.
  apply (doc_eqb_iff a b Ua Ub) in H1. apply (doc_eqb_iff b c Ub Uc) in H2.
  destruct H1 as [M1 [S1 T1]], H2 as [M2 [S2 T2]]. apply (doc_eqb_iff a c Ua Uc).
  split; [eapply bundle_eqb_trans; eauto|]. split.
  - intros k ba L. destruct (S1 _ _ L) as [bb [Lb Eb]]. destruct (S2 _ _ Lb) as [bc [Lc Ec]].
    exists bc. split; [exact Lc | eapply bundle_eqb_trans; eauto].
  - intros k bc L. destruct (T2 _ _ L) as [bb [Lb Eb]]. destruct (T1 _ _ Lb) as [ba [La Ea]].
    exists ba. split; [exact La | eapply bundle_eqb_trans; eauto].
Qed.
