(* ConflictProofs.v — C08: unified() raises only on a genuine conflict.  When unifying the records
   of a container raises, the exception is ProvException and two records of one (kind, identifier)
   group hold, for the same single-valued formal attribute, values that are not equal. *)
From Coq Require Import String List Arith ZArith Bool Lia.
From Prov Require Import Str StrProofs Sexp Tables Nsm NsmProofs Values Record RecordProofs World EqProofs
  IdemProofs ReaddProofs UnifyProofs.
Import ListNotations.
Open Scope string_scope.

(* equality sees through re-homing: images compare as their originals do *)
Lemma py_eq_sv_l : forall v v' w, same_value v v' -> py_eq v' w = py_eq v w.
Proof.
  intros v v' w S. destruct v as [s|z|r iv g|b|t|u|q|l d lg]; cbn [same_value] in S; try (subst; reflexivity).
  - destruct S as [q' [-> U]].
    destruct w; try reflexivity; unfold py_eq; cbn [num_of]; unfold qn_eqb; rewrite U; reflexivity.
  - destruct d as [d|]; [|subst; reflexivity]. destruct S as [d' [-> U]].
    destruct w as [s2|z2|r2 iv2 g2|b2|t2|u2|q2|l2 d2 lg2]; try reflexivity.
    unfold py_eq; cbn [num_of]. destruct d2 as [d2|]; cbn [opt_eqb]; [|reflexivity].
    unfold qn_eqb. rewrite U. reflexivity.
Qed.

Lemma py_eq_same_value : forall v v' w w', same_value v v' -> same_value w w' -> py_eq v' w' = py_eq v w.
Proof.
  intros v v' w w' SV SW. rewrite (py_eq_sv_l _ _ _ SV), py_eq_sym, (py_eq_sv_l _ _ _ SW). apply py_eq_sym.
Qed.

(* ---- the loop stops only on a second, different value for a single-valued attribute *)
Theorem loop_fail : forall c ic pairs m d m' d' e,
  InvU m -> (forall p, In p pairs -> good_pair (cft c) p) ->
  add_attrs_loop c ic m d (map sp_arg pairs) = (m', d', LFail e) ->
  e = EProv /\
  exists p v' e0, In p pairs /\ is_formal_attr (fst p) = true /\ same_value (snd p) v' /\
                  In e0 (attr_get (fst p) d') /\ py_eq v' e0 = false.
Proof.
  intros c ic pairs. induction pairs as [|[k v] pairs IH]; intros m d m' d' e I G H.
  - cbn in H. discriminate.
  - cbn [map] in H. unfold sp_arg at 1 in H. cbn [fst snd] in H.
    rewrite add_attrs_loop_cons in H by apply value_to_arg_not_none. unfold loop_body in H.
    pose proof (resolve_o_qn c m k I) as R.
    destruct (resolve_o c m (NQn k)) as [m1 [k'|]|m1 e1|]; try contradiction; try discriminate.
    destruct R as [U I1]. pose proof (qn_eqb_of_uri _ _ U) as E.
    pose proof (pair_value c m1 k' k v I1 E (G _ (or_introl eq_refl))) as PV.
    destruct (if is_qname_attr k' then qn_value c m1 (value_to_arg v)
              else if is_time_attr k' then time_value m1 (value_to_arg v) else auto_conv c m1 (value_to_arg v))
      as [m2 [v2|]|m2 e2|]; try contradiction; try discriminate.
    destruct PV as [SV I2].
    assert (G' : forall p, In p pairs -> good_pair (cft c) p) by (intros p Hp; apply G; right; exact Hp).
    assert (REST : forall d0, add_attrs_loop c ic m2 d0 (map sp_arg pairs) = (m', d', LFail e) ->
              e = EProv /\
              exists p v' e0, In p ((k, v) :: pairs) /\ is_formal_attr (fst p) = true /\ same_value (snd p) v' /\
                              In e0 (attr_get (fst p) d') /\ py_eq v' e0 = false).
    { intros d0 H0. destruct (IH _ _ _ _ _ I2 G' H0) as [EE [p [v' [e0 [Hp X]]]]].
      split; [exact EE|]. exists p, v', e0. split; [right; exact Hp | exact X]. }
    destruct ((negb (ic && is_prov_name "entity" k') && is_formal_attr k')%bool) eqn:FB.
    + destruct (attr_get k' d) as [|e0 rest0] eqn:AG.
      * exact (REST _ H).
      * destruct (py_eq v2 e0) eqn:PE; [exact (REST _ H)|].
        inversion H; subst m' d' e. split; [reflexivity|].
        exists (k, v), v2, e0. cbn [fst snd]. split; [left; reflexivity|].
        apply andb_true_iff in FB. destruct FB as [_ FK]. rewrite (is_formal_attr_eqb _ _ E) in FK.
        split; [exact FK|]. split; [exact SV|]. split; [|exact PE].
        rewrite <- (attr_get_eqb d k' k E), AG. left. reflexivity.
    + exact (REST _ H).
Qed.

Lemma add_attributes_fail : forall c m r r0 m' r' e,
  InvU m -> (forall p, In p (attributes r0) -> good_pair (cft c) p) ->
  add_attributes c m r (all_attr_args r0) = AFail m' r' e ->
  e = EProv /\
  exists p v' e0, In p (attributes r0) /\ is_formal_attr (fst p) = true /\ same_value (snd p) v' /\
                  In e0 (attr_get (fst p) (rattrs r')) /\ py_eq v' e0 = false /\
                  (* e0 was in r already or is the image of an earlier pair of r0 *)
                  (In e0 (attr_get (fst p) (rattrs r)) \/
                   exists p2, In p2 (attributes r0) /\ qn_eqb (fst p) (fst p2) = true /\ same_value (snd p2) e0).
Proof.
  intros c m r r0 m' r' e I G H. unfold add_attributes in H. rewrite all_attr_args_sp in H.
  destruct (map sp_arg (attributes r0)) as [|x l] eqn:EL; [discriminate|]. rewrite <- EL in H.
  destruct (add_attrs_loop c (names_collection (map sp_arg (attributes r0))) m (rattrs r) (map sp_arg (attributes r0)))
    as [[m1 d1] res] eqn:L.
  destruct res; try discriminate. inversion H; subst m1 r' e0. cbn [rattrs].
  destruct (loop_fail _ _ _ _ _ _ _ _ I G L) as [EE [p [v' [e0 [Hp [F [S [Hin PE]]]]]]]].
  split; [exact EE|]. exists p, v', e0. repeat (split; [assumption|]).
  exact (loop_sound _ _ _ _ _ _ _ _ I G L (fst p) e0 Hin).
Qed.

(* ---- merging a group *)
Definition conflict (q1 q2 : prec) : Prop :=
  exists p1 p2, In p1 (attributes q1) /\ In p2 (attributes q2) /\ qn_eqb (fst p1) (fst p2) = true /\
                is_formal_attr (fst p2) = true /\ py_eq (snd p1) (snd p2) = false.

Theorem merge_group_fail : forall c rs m acc srcs m' e,
  InvU m -> (forall r, In r rs -> good_rec (cft c) r) ->
  (forall x v', In v' (attr_get x (rattrs acc)) ->
     exists q p, In q srcs /\ In p (attributes q) /\ qn_eqb x (fst p) = true /\ same_value (snd p) v') ->
  merge_group c m acc rs = Fail m' e ->
  e = EProv /\ exists q1 q2, In q1 (srcs ++ rs)%list /\ In q2 rs /\ conflict q1 q2.
Proof.
  intros c rs. induction rs as [|r rest IH]; intros m acc srcs m' e I G INV H; cbn [merge_group] in H; [discriminate|].
  destruct (add_attributes c m acc (all_attr_args r)) as [m1 acc1|m1 acc1 e1|] eqn:EA; try discriminate.
  - (* this member went in: the accumulated record holds images of srcs ++ [r] *)
    pose proof (add_attributes_InvU_done _ _ _ _ _ _ I EA) as I1.
    destruct (readd_all_conserves c m acc r m1 acc1 I (G r (or_introl eq_refl)) EA) as [_ [_ [S1 _]]].
    assert (INV1 : forall x v', In v' (attr_get x (rattrs acc1)) ->
              exists q p, In q (srcs ++ [r])%list /\ In p (attributes q) /\ qn_eqb x (fst p) = true /\ same_value (snd p) v').
    { intros x v' Hv. destruct (S1 x v' Hv) as [Ha|[p [Hp [Ex Sp]]]].
      - destruct (INV x v' Ha) as [q [p [Hq X]]]. exists q, p. split; [apply in_or_app; left; exact Hq | exact X].
      - exists r, p. split; [apply in_or_app; right; left; reflexivity | split; [exact Hp | split; assumption]]. }
    destruct (IH m1 acc1 (srcs ++ [r])%list m' e I1 (fun q Hq => G q (or_intror Hq)) INV1 H) as [EE [q1 [q2 [H1 [H2 C]]]]].
    split; [exact EE|]. exists q1, q2. split; [rewrite <- app_assoc in H1; exact H1|]. split; [right; exact H2 | exact C].
  - (* this member clashes with what is there *)
    inversion H; subst m1 e1.
    destruct (add_attributes_fail c m acc r m' acc1 e I (G r (or_introl eq_refl)) EA)
      as [EE [p [v' [e0 [Hp [F [S [_ [PE ORG]]]]]]]]].
    split; [exact EE|].
    destruct ORG as [Hacc|[p2 [Hp2 [Ex2 S2]]]].
    + destruct (INV (fst p) e0 Hacc) as [q [p1 [Hq [Hp1 [Ex1 S1]]]]].
      exists q, r. split; [apply in_or_app; left; exact Hq|]. split; [left; reflexivity|].
      exists p1, p. split; [exact Hp1|]. split; [exact Hp|]. split; [rewrite qn_eqb_sym; exact Ex1|]. split; [exact F|].
      rewrite <- (py_eq_same_value _ _ _ _ S1 S), py_eq_sym. exact PE.
    + exists r, r. split; [apply in_or_app; right; left; reflexivity|]. split; [left; reflexivity|].
      exists p2, p. split; [exact Hp2|]. split; [exact Hp|]. split; [rewrite qn_eqb_sym; exact Ex2|]. split; [exact F|].
      rewrite <- (py_eq_same_value _ _ _ _ S2 S), py_eq_sym. exact PE.
Qed.

(* ---- the walk over the records *)
Definition group_conflict (all : list prec) : Prop :=
  exists r q1 q2, In r all /\ In q1 all /\ In q2 all /\
                  same_group r q1 = true /\ same_group r q2 = true /\ conflict q1 q2.

Lemma walk_fail : forall fuel c m all pre todo seen m' e,
  all = (pre ++ todo)%list -> length todo < fuel -> InvU m ->
  (forall r, In r all -> good_rec (cft c) r) ->
  unify_walk fuel c m all todo seen = Fail m' e ->
  e = EProv /\ group_conflict all.
Proof.
  induction fuel as [|f IH]; intros c m all pre todo seen m' e A L I G H; [inversion L|].
  destruct todo as [|r rest]; cbn [unify_walk] in H; [discriminate|].
  assert (L' : length rest < f) by (cbn in L; lia).
  assert (A' : all = ((pre ++ [r]) ++ rest)%list) by (rewrite <- app_assoc; exact A).
  assert (Rall : In r all) by (rewrite A; apply in_or_app; right; left; reflexivity).
  destruct (rid r) as [q|] eqn:ER.
  - destruct (existsb (same_group r) seen).
    + exact (IH _ _ _ _ _ _ _ _ A' L' I G H).
    + destruct (filter (same_group r) all) as [|g0 [|g1 grest]] eqn:EG; cbv iota beta in H.
      * destruct (unify_walk f c m all rest seen) as [m1 l1|m1 e1|] eqn:EW; cbv iota beta in H; try discriminate.
        inversion H; subst. exact (IH _ _ _ _ _ _ _ _ A' L' I G EW).
      * destruct (unify_walk f c m all rest seen) as [m1 l1|m1 e1|] eqn:EW; cbv iota beta in H; try discriminate.
        inversion H; subst. exact (IH _ _ _ _ _ _ _ _ A' L' I G EW).
      * assert (GRP : forall x, In x (tl (g0 :: g1 :: grest)) -> In x all /\ same_group r x = true).
        { intros x Hx. assert (X : In x (filter (same_group r) all)) by (rewrite EG; right; exact Hx).
          apply filter_In in X. exact X. }
        assert (RR : same_group r r = true) by exact (same_group_refl r q ER).
        destruct (add_attributes c m (mkRec (rkind r) (Some q) []) (all_attr_args r)) as [m1 cp|m1 cp e1|] eqn:EA;
          cbv iota beta in H; try discriminate.
        -- pose proof (add_attributes_InvU_done _ _ _ _ _ _ I EA) as I1.
           destruct (readd_all_conserves c m _ r m1 cp I (G r Rall) EA) as [_ [_ [S1 _]]].
           assert (GT : forall x, In x (tl (g0 :: g1 :: grest)) -> good_rec (cft c) x)
             by (intros x Hx; apply G; exact (proj1 (GRP x Hx))).
           destruct (merge_group c m1 cp (tl (g0 :: g1 :: grest))) as [m2 merged|m2 e2|] eqn:EM; cbv iota beta in H; try discriminate.
           ++ destruct (merge_group_conserves c _ m1 cp m2 merged I1 GT EM) as [_ [_ [I2 _]]].
              destruct (unify_walk f c m2 all rest (r :: seen)) as [m3 l3|m3 e3|] eqn:EW; cbv iota beta in H; try discriminate.
              inversion H; subst. exact (IH _ _ _ _ _ _ _ _ A' L' I2 G EW).
           ++ inversion H; subst m2 e2.
              assert (INV : forall x v', In v' (attr_get x (rattrs cp)) ->
                        exists q0 p, In q0 [r] /\ In p (attributes q0) /\ qn_eqb x (fst p) = true /\ same_value (snd p) v').
              { intros x v' Hv. destruct (S1 x v' Hv) as [Hb|[p [Hp X]]]; [cbn in Hb; contradiction|].
                exists r, p. split; [left; reflexivity | split; [exact Hp | exact X]]. }
              destruct (merge_group_fail c _ m1 cp [r] m' e I1 GT INV EM) as [EE [q1 [q2 [H1 [H2 C]]]]].
              split; [exact EE|]. exists r, q1, q2. split; [exact Rall|].
              destruct (GRP q2 H2) as [A2 S2].
              cbn [app] in H1. destruct H1 as [<-|H1].
              ** repeat split; assumption.
              ** destruct (GRP q1 H1) as [A1 S1']. repeat split; assumption.
        -- inversion H; subst m1 e1.
           destruct (add_attributes_fail c m _ r m' cp e I (G r Rall) EA) as [EE [p [v' [e0 [Hp [F [S [_ [PE ORG]]]]]]]]].
           split; [exact EE|]. destruct ORG as [Hacc|[p2 [Hp2 [Ex2 S2]]]]; [cbn in Hacc; contradiction|].
           exists r, r, r. repeat (split; [assumption|]).
           exists p2, p. split; [exact Hp2|]. split; [exact Hp|]. split; [rewrite qn_eqb_sym; exact Ex2|]. split; [exact F|].
           rewrite <- (py_eq_same_value _ _ _ _ S2 S), py_eq_sym. exact PE.
  - destruct (unify_walk f c m all rest seen) as [m1 l1|m1 e1|] eqn:EW; cbv iota beta in H; try discriminate.
    inversion H; subst. exact (IH _ _ _ _ _ _ _ _ A' L' I G EW).
Qed.

(* unified() of the records of a container raises only ProvException, and only when two records of
   one (kind, identifier) group disagree on a single-valued formal attribute *)
Theorem unified_raises_on_conflict_only : forall ft b e,
  (forall r, In r (brecs b) -> good_rec ft r) ->
  unified_records ft b = Raise e ->
  e = EProv /\ group_conflict (brecs b).
Proof.
  intros ft b e G H. unfold unified_records in H.
  destruct (unify_walk (S (length (brecs b))) (mkCtx (Some (bns b)) ft) nsm_init (brecs b) (brecs b) []) as [m' l|m' e'|] eqn:E;
    try discriminate.
  inversion H; subst e'.
  exact (walk_fail _ (mkCtx (Some (bns b)) ft) _ (brecs b) [] _ _ _ _ eq_refl (Nat.lt_succ_diag_r _) InvU_init G E).
Qed.

(* in every reachable world *)
From Prov Require Import Interp InterpProofs WInvUProofs GoodProofs.
Theorem reachable_unified_raises : forall ft ops c b e,
  let w := wrun ft ops in
  get_cont w c = Some b -> unified_records (wft w) b = Raise e ->
  e = EProv /\ group_conflict (brecs b).
Proof.
  intros ft ops c b e w G H. apply (unified_raises_on_conflict_only (wft w) b e); [|exact H].
  destruct (reachable_WGood ft ops) as [_ WG]. fold w in WG.
  pose proof (WGood_get_cont w c b WG G) as B. unfold BGood in B. rewrite Forall_forall in B.
  intros r Hr. apply GoodR_good_rec. exact (B r Hr).
Qed.
