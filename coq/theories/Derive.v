(* Derive.v — the operations that derive containers from containers: bundle(),
   update with bundle merge, unified(), attaching bundles. *)
From Coq Require Import String Ascii List Bool Arith ZArith.
From Prov Require Import Str Sexp Tables Nsm Values Record World.
Import ListNotations.
Open Scope string_scope.

(* records of a container and, for a document, whether it has bundles *)
Definition has_bundles (w : world) (c : cref) : bool :=
  match c with
  | CDoc d => match get_doc w d with
              | Some dd => match dbundles dd with [] => false | _ => true end
              | None => false
              end
  | CBun _ _ => false
  end.

(* ProvDocument.bundle(identifier) on document d *)
Definition doc_new_bundle (dd : doc) (x : option namearg) (ft : ftable) : doc * result unit :=
  match x with
  | None => (dd, Raise EProv)
  | Some n =>
      match resolve None (bns (dmain dd)) n with
      | OutOfDomain => (dd, OutOfDomain)
      | Raise e => (dd, Raise e)
      | OK (m, None) => (mkD (with_ns (dmain dd) m) (dbundles dd), Raise EProv)
      | OK (m, Some q) =>
          let dd1 := mkD (with_ns (dmain dd) m) (dbundles dd) in
          if mem (qn_uri q) (dbundles dd) then (dd1, Raise EProv)
          else (mkD (dmain dd1) (dbundles dd1 ++ [(qn_uri q, bundle_init (Some q))])%list, OK tt)
      end
  end.

(* ProvBundle.update / ProvDocument.update: target container c of document value
   [dd] receives the records (and bundles) of source document/bundle *)
Fixpoint merge_bundles (ft : ftable) (dd : doc) (bs : list (string * bundle)) : doc * result unit :=
  match bs with
  | [] => (dd, OK tt)
  | (k, sb) :: rest =>
      let par := Some (bns (dmain dd)) in
      (* "bundle.identifier in self._bundles" *)
      match sb with
      | mkB None _ _ _ => (dd, OutOfDomain)
      | mkB (Some sid) _ srecs _ =>
          let key := qn_uri sid in
          let step1 : doc * result nat :=
            match find (fun ib => String.eqb (fst (snd ib)) key)
                       (combine (seq 0 (length (dbundles dd))) (dbundles dd)) with
            | Some (i, _) => (dd, OK i)
            | None =>
                match doc_new_bundle dd (Some (NQn sid)) ft with
                | (dd1, OK _) => (dd1, OK (length (dbundles dd1) - 1))
                | (dd1, Raise e) => (dd1, Raise e)
                | (dd1, OutOfDomain) => (dd1, OutOfDomain)
                end
            end in
          match step1 with
          | (dd1, OK i) =>
              match nth_error (dbundles dd1) i with
              | Some (k1, tb) =>
                  let par1 := Some (bns (dmain dd1)) in
                  match add_records par1 ft tb srecs with
                  | (tb', OK _) =>
                      merge_bundles ft (mkD (dmain dd1) (set_nth i (k1, tb') (dbundles dd1))) rest
                  | (tb', Raise e) => (mkD (dmain dd1) (set_nth i (k1, tb') (dbundles dd1)), Raise e)
                  | (tb', OutOfDomain) => (dd1, OutOfDomain)
                  end
              | None => (dd1, OutOfDomain)
              end
          | (dd1, Raise e) => (dd1, Raise e)
          | (dd1, OutOfDomain) => (dd1, OutOfDomain)
          end
      end
  end.

(* ProvBundle.unified() for a bundle of a document: the new (loose) bundle *)
Definition bundle_unified (ft : ftable) (b : bundle) : result bundle :=
  match unified_records ft b with
  | OutOfDomain => OutOfDomain
  | Raise e => Raise e
  | OK urecs =>
      match add_records None ft (bundle_init (bid b)) urecs with
      | (nb, OK _) => OK nb
      | (_, Raise e) => Raise e
      | (_, OutOfDomain) => OutOfDomain
      end
  end.

(* ProvDocument.add_bundle(bundle) for a loose bundle, identifier taken from it *)
Definition attach_bundle (dd : doc) (b : bundle) : doc * result unit :=
  match bid b with
  | None => (dd, Raise EProv)
  | Some i =>
      match resolve (Some (bns (dmain dd))) (bns b) (NQn i) with
      | OK (m, Some q) =>
          if mem (qn_uri q) (dbundles dd) then (dd, Raise EProv)
          else (mkD (dmain dd) (dbundles dd ++ [(qn_uri q, mkB (Some q) m (brecs b) (bidmap b))])%list, OK tt)
      | OK (_, None) => (dd, OutOfDomain)
      | Raise e => (dd, Raise e)
      | OutOfDomain => (dd, OutOfDomain)
      end
  end.

(* the bundles of a document, unified one after the other and attached to [nd] *)
Fixpoint unify_bundles (ft : ftable) (bs : list (string * bundle)) (nd : doc) : result doc :=
  match bs with
  | [] => OK nd
  | (k, b) :: rest =>
      match bundle_unified ft b with
      | OK nb =>
          match attach_bundle nd nb with
          | (nd', OK _) => unify_bundles ft rest nd'
          | (_, Raise e) => Raise e
          | (_, OutOfDomain) => OutOfDomain
          end
      | Raise e => Raise e
      | OutOfDomain => OutOfDomain
      end
  end.

(* ProvDocument.unified() (as repaired): a new document with the same declarations,
   the unified records re-added, every bundle unified and attached *)
Definition doc_unified (ft : ftable) (dd : doc) : result doc :=
  let src := dmain dd in
  match add_namespaces nsm_init (map snd (regd (bns src))) with
  | None => OutOfDomain
  | Some m0 =>
      let m1 := match dflt (bns src) with
                | Some dn => set_default m0 (ns_uri dn)
                | None => m0
                end in
      match unified_records ft src with
      | OutOfDomain => OutOfDomain
      | Raise e => Raise e
      | OK urecs =>
          match add_records None ft (mkB None m1 [] []) urecs with
          | (nmain, OK _) => unify_bundles ft (dbundles dd) (mkD nmain [])
          | (_, Raise e) => Raise e
          | (_, OutOfDomain) => OutOfDomain
          end
      end
  end.

