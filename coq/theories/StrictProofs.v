(* StrictProofs.v — the documents the PROV-JSON reader builds are in strict normal form: every formal attribute,
   prov:entity of a membership included, holds at most one value of the kind it demands.
   NormalWorld.v gives NormalE (every formal attribute but prov:entity) for every record of every world; what is
   added here is a bound on the number of prov:entity values a call of add_attributes can leave (one more per
   argument whose name can denote prov:entity), and the observation that the reader never hands new_record two such
   arguments: it collects formal attributes in a dictionary keyed by name, takes the first member of a multi-member
   membership for the record itself and makes one further membership record per further member. *)
From Coq Require Import String List Arith Bool Lia.
From Prov Require Import Str Sexp Tables Nsm NsmProofs Scope Values Record RecordProofs SingleProofs World WorldProofs
  WInvUProofs IdemProofs ReaddProofs GoodProofs Derive Jtree Json Interp InterpProofs NormalWorld.
Import ListNotations.
Open Scope string_scope.

Definition E : qname := prov_qn "entity".

(* an argument whose name can denote prov:entity *)
Definition ent_arg (nv : namearg * valarg) : bool :=
  match fst nv with
  | NQn q => is_prov_name "entity" q
  | NStr EmptyString => false
  | _ => true
  end.
Definition ent_count (l : list (namearg * valarg)) : nat := length (filter ent_arg l).

Lemma ent_count_cons : forall x l, ent_count (x :: l) = (if ent_arg x then 1 else 0) + ent_count l.
Proof. intros x l. unfold ent_count. cbn [filter]. destruct (ent_arg x); reflexivity. Qed.

Lemma ent_count_app : forall a b, ent_count (a ++ b) = ent_count a + ent_count b.
Proof. intros a b. unfold ent_count. rewrite filter_app, app_length. reflexivity. Qed.

Lemma set_add_length : forall v l, length (set_add v l) <= S (length l).
Proof. intros v l. unfold set_add. destruct (set_mem v l); [lia|]. rewrite app_length. cbn. lia. Qed.

(* a name that resolves to an attribute of prov:entity's URI is an ent_arg *)
Lemma resolve_ent : forall c m n a m1 attr,
  InvU m -> resolve_o c m n = Done m1 (Some attr) -> qn_eqb E attr = true -> ent_arg (n, a) = true.
Proof.
  intros c m n a m1 attr I H Q. unfold ent_arg. cbn [fst]. destruct n as [q|s|u]; try reflexivity.
  - unfold resolve_o in H. cbn [resolve] in H. destruct (resolve_qn m q) as [[m' q']|] eqn:R; [|discriminate].
    inversion H; subst. destruct (resolve_qn_uri _ _ _ _ I R) as [U _].
    unfold is_prov_name. unfold qn_eqb in Q. apply String.eqb_eq in Q. rewrite <- U, <- Q. apply String.eqb_refl.
  - destruct s; [|reflexivity]. unfold resolve_o in H. cbn [resolve] in H. discriminate.
Qed.

Lemma attr_get_E_add : forall attr v d,
  length (attr_get E (attr_add attr v d)) <= length (attr_get E d) + (if qn_eqb E attr then 1 else 0).
Proof.
  intros attr v d. rewrite attr_get_add. destruct (qn_eqb E attr) eqn:Q; [|lia].
  assert (U : qn_uri attr = qn_uri E) by (unfold qn_eqb in Q; apply String.eqb_eq in Q; auto).
  rewrite (attr_get_same_uri attr E d U). pose proof (set_add_length v (attr_get E d)). lia.
Qed.

Theorem loop_ent_bound : forall c ic l m d m' d' res,
  InvU m -> add_attrs_loop c ic m d l = (m', d', res) ->
  length (attr_get E d') <= length (attr_get E d) + ent_count l.
Proof.
  intros c ic l. induction l as [|[n a] l IH]; intros m d m' d' res I H.
  - cbn in H. inversion H; subst. lia.
  - rewrite ent_count_cons. destruct (valarg_is_none a) as [->|NN].
    + rewrite add_attrs_loop_none in H. pose proof (IH _ _ _ _ _ I H). lia.
    + rewrite add_attrs_loop_cons in H by exact NN. unfold loop_body in H.
      pose proof (resolve_o_InvU c m n I) as R.
      destruct (resolve_o c m n) as [m1 [attr|]|m1 e|] eqn:ER; try (inversion H; subst; lia).
      pose proof (value_step_InvU c m1 attr a R) as V.
      destruct (if is_qname_attr attr then qn_value c m1 a
                else if is_time_attr attr then time_value m1 a else auto_conv c m1 a)
        as [m2 [v|]|m2 e2|] eqn:EV; try (inversion H; subst; lia).
      cbn [out_InvU] in V.
      assert (A : length (attr_get E (attr_add attr v d)) <= length (attr_get E d) + (if ent_arg (n, a) then 1 else 0)).
      { pose proof (attr_get_E_add attr v d) as X. destruct (qn_eqb E attr) eqn:Q; [|lia].
        rewrite (resolve_ent c m n a m1 attr I ER Q). exact X. }
      destruct ((negb (ic && is_prov_name "entity" attr) && is_formal_attr attr)%bool).
      * destruct (attr_get attr d) as [|e0 rest0].
        -- pose proof (IH _ _ _ _ _ V H). lia.
        -- destruct (py_eq v e0); [pose proof (IH _ _ _ _ _ V H); lia | inversion H; subst; lia].
      * pose proof (IH _ _ _ _ _ V H). lia.
Qed.

Definition ent_len (r : prec) : nat := length (attr_get E (rattrs r)).

Lemma add_attributes_ent_bound : forall c m r l,
  InvU m ->
  match add_attributes c m r l with
  | ADone _ r' => ent_len r' <= ent_len r + ent_count l
  | AFail _ r' _ => ent_len r' <= ent_len r + ent_count l
  | AOOD => True
  end.
Proof.
  intros c m r l I. unfold add_attributes. destruct l as [|x l]; [unfold ent_len; lia|].
  destruct (add_attrs_loop c (names_collection (x :: l)) m (rattrs r) (x :: l)) as [[m' d'] res] eqn:EL.
  pose proof (loop_ent_bound _ _ _ _ _ _ _ _ I EL) as B.
  destruct res; unfold ent_len; cbn [rattrs]; exact B || exact Logic.I.
Qed.

Lemma new_prec_strict : forall c m k i l m' r,
  InvU m -> ent_count l <= 1 -> new_prec c m k i l = Done m' r -> Normal r.
Proof.
  intros c m k i l m' r I L H. pose proof (new_prec_normalE _ _ _ _ _ _ _ H) as N.
  apply NormalE_single_member_Normal; [exact N|].
  unfold new_prec in H.
  destruct (is_element k && match i with None => true | Some _ => false end)%bool; [discriminate|].
  pose proof (add_attributes_ent_bound c m (mkRec k i []) l I) as B.
  destruct (add_attributes c m (mkRec k i []) l) as [m1 r1|m1 r1 e|]; inversion H; subst.
  unfold ent_len in B. cbn [rattrs attr_get length] in B. fold E. lia.
Qed.

Definition BStrict (b : bundle) : Prop := Forall Normal (brecs b).
Definition DStrict (dd : doc) : Prop := BStrict (dmain dd) /\ Forall (fun kb => BStrict (snd kb)) (dbundles dd).

Lemma BStrict_init : forall i, BStrict (bundle_init i).
Proof. intros. constructor. Qed.

Lemma new_record_BStrict : forall par ft b k i attrs b' x,
  BInv b -> BStrict b -> ent_count attrs <= 1 -> new_record par ft b k i attrs = (b', x) -> BStrict b'.
Proof.
  intros par ft b k i attrs b' x I G L H. unfold new_record in H. unfold BInv in I.
  assert (ID : out_InvU (match i with None => Done (bns b) None | Some y => resolve_o (mkCtx par ft) (bns b) y end)).
  { destruct i as [y|]; [apply resolve_o_InvU; exact I | exact I]. }
  destruct (match i with None => Done (bns b) None | Some y => resolve_o (mkCtx par ft) (bns b) y end) as [m1 idq|m1 e|];
    cbn [out_InvU] in ID; try (inversion H; subst; exact G).
  destruct (new_prec (mkCtx par ft) m1 k idq attrs) as [m2 r2|m2 e|] eqn:EN; inversion H; subst; try exact G.
  unfold BStrict, add_rec_to, with_ns. cbn [brecs]. apply Forall_app. split; [exact G|].
  constructor; [|constructor]. eapply new_prec_strict; [exact ID | exact L | exact EN].
Qed.

(* ---- the typed factories *)
Definition pcount (params : list (string * string * bool)) : nat :=
  length (filter (fun p => is_prov_name "entity" (prov_qn (snd (fst p)))) params).

Lemma factory_args_ent : forall m params args m' fa,
  factory_args m params args = Done m' fa -> ent_count fa <= pcount params.
Proof.
  intros m params. induction params as [|[[p attr] is_time] rest IH]; intros args m' fa H; cbn [factory_args] in H.
  - inversion H; subst. cbn. lia.
  - cbv zeta in H.
    destruct (if is_time then
                match ensure_datetime m (match lookup p args with Some x => x | None => ANone end) with
                | Done _ (Some (VTime t)) => Done m (ATime t)
                | Done _ _ => Done m ANone
                | Fail m'0 e => Fail m'0 e
                | OOD => OOD
                end
              else Done m (match lookup p args with Some x => x | None => ANone end)) as [m1 v|m1 e|]; try discriminate.
    destruct (factory_args m rest args) as [m2 l|m2 e|] eqn:ER; try discriminate.
    inversion H; subst. rewrite ent_count_cons. specialize (IH _ _ _ ER).
    unfold pcount in *. cbn [filter fst snd ent_arg]. destruct (is_prov_name "entity" (prov_qn attr)); cbn [length]; lia.
Qed.

Lemma factory_call_BStrict : forall par ft b f i args other b' x,
  BInv b -> BStrict b ->
  (forall f0 k params asserted, factory_entry f = Some (f0, k, params, asserted) -> pcount params + ent_count other <= 1) ->
  factory_call par ft b f i args other = (b', x) -> BStrict b'.
Proof.
  intros par ft b f i args other b' x I G L H. unfold factory_call in H.
  destruct (factory_entry f) as [[[[f0 k] params] asserted]|] eqn:EF; [|inversion H; subst; exact G].
  specialize (L _ _ _ _ eq_refl).
  destruct (factory_args (bns b) params args) as [m0 fa|m0 e|] eqn:EA; try (inversion H; subst; exact G).
  pose proof (factory_args_ent _ _ _ _ _ EA) as FA.
  assert (LC : ent_count (fa ++ other) <= 1) by (rewrite ent_count_app; lia).
  destruct (new_record par ft b k i (fa ++ other)%list) as [b1 [r|e|]] eqn:EN;
    pose proof (new_record_BInv _ _ _ _ _ _ _ _ I EN) as I1;
    pose proof (new_record_BStrict _ _ _ _ _ _ _ _ I G LC EN) as G1; try (inversion H; subst; exact G1).
  destruct asserted as [ty|]; [|inversion H; subst; exact G1].
  assert (Gr : Normal r).
  { unfold BStrict in G1. rewrite Forall_forall in G1. apply G1. exact (new_record_ok_in' _ _ _ _ _ _ _ _ EN). }
  pose proof (add_attributes_normal (mkCtx par ft) (bns b1) r [(NQn (prov_qn "type"), AQn (prov_qn ty))] Gr eq_refl) as X.
  destruct (add_attributes (mkCtx par ft) (bns b1) r [(NQn (prov_qn "type"), AQn (prov_qn ty))]) as [m2 r2|m2 r2 e|];
    inversion H; subst; try exact G1; unfold BStrict; cbn [brecs]; apply Forall_set_nth; try exact G1; exact X.
Qed.

Lemma membership_params : forall f0 k params asserted,
  factory_entry "membership" = Some (f0, k, params, asserted) -> pcount params + ent_count [] <= 1.
Proof. intros f0 k params asserted H. vm_compute in H. inversion H; subst. vm_compute. lia. Qed.

(* ---- the reader's accumulator *)
Lemma not_formal_not_entity : forall a, is_formal_attr a = false -> is_prov_name "entity" a = false.
Proof.
  intros a H. destruct (is_prov_name "entity" a) eqn:X; [|reflexivity].
  unfold is_formal_attr in H. apply orb_false_iff in H. destruct H as [H _].
  unfold is_qname_attr, in_prov_set in H.
  assert (I : In "entity" attribute_qnames) by (vm_compute; tauto).
  assert (T : existsb (fun l => is_prov_name l a) attribute_qnames = true) by (apply existsb_exists; exists "entity"; split; assumption).
  congruence.
Qed.

Definition AccOK (acc : elem_acc) : Prop :=
  NoDup (map (fun kv => qn_uri (fst kv)) (acc_formal acc)) /\ Forall (fun nv => ent_arg nv = false) (acc_other acc).

Lemma fset_keys_in : forall k v d u,
  In u (map (fun kv => qn_uri (fst kv)) (fset k v d)) -> In u (map (fun kv => qn_uri (fst kv)) d) \/ u = qn_uri k.
Proof.
  intros k v d. induction d as [|[k0 v0] r IH]; intros u H; cbn [fset] in H.
  - cbn in H. destruct H as [<-|[]]. right. reflexivity.
  - destruct (qn_eqb k k0) eqn:Q; cbn [map fst] in H |- *.
    + left. exact H.
    + destruct H as [<-|H]; [left; left; reflexivity|]. destruct (IH u H) as [X|X]; [left; right; exact X | right; exact X].
Qed.

Lemma fset_keys_nodup : forall k v d,
  NoDup (map (fun kv => qn_uri (fst kv)) d) -> NoDup (map (fun kv => qn_uri (fst kv)) (fset k v d)).
Proof.
  intros k v d. induction d as [|[k0 v0] r IH]; intros N; cbn [fset].
  - cbn. constructor; [intros [] | constructor].
  - inversion N as [|x l NI N']; subst. destruct (qn_eqb k k0) eqn:Q; cbn [map fst].
    + constructor; assumption.
    + constructor; [|apply IH; exact N'].
      intros H. destruct (fset_keys_in _ _ _ _ H) as [X|X]; [exact (NI X)|].
      unfold qn_eqb in Q. rewrite X in Q. rewrite String.eqb_refl in Q. discriminate.
Qed.

Lemma decode_values_names : forall par m attr vs l,
  decode_values par m attr vs = OK l -> Forall (fun nv => fst nv = attr) l.
Proof.
  intros par m attr vs. induction vs as [|v rest IH]; intros l H; cbn [decode_values] in H.
  - inversion H; subst. constructor.
  - destruct (decode_value par m v) as [a|e|]; destruct (decode_values par m attr rest) as [l0|e0|]; try discriminate.
    inversion H; subst. constructor; [reflexivity | apply IH; reflexivity].
Qed.

Lemma Forall_names_ent : forall attr l, ent_arg (attr, ANone) = false -> Forall (fun nv => fst nv = attr) l ->
  Forall (fun nv : namearg * valarg => ent_arg nv = false) l.
Proof.
  intros attr l H F. eapply Forall_impl; [|exact F]. intros [n v] X. cbn in X. subst n. unfold ent_arg in *. cbn [fst] in *. exact H.
Qed.

Lemma decode_element_AccOK : forall par m kind members acc acc',
  AccOK acc -> decode_element par m kind members acc = OK acc' -> AccOK acc'.
Proof.
  intros par m kind members. induction members as [|[name values] rest IH]; intros acc acc' A H; cbn [decode_element] in H.
  - inversion H; subst. exact A.
  - destruct (attr_key par m name) as [[a|]|e|]; try discriminate.
    + destruct (is_formal_attr a) eqn:FA.
      * match type of H with context [match ?p with OK _ => _ | Raise _ => _ | OutOfDomain => _ end] =>
          destruct p as [[v more]|e|] end; try discriminate.
        match type of H with context [match ?p with OK _ => _ | Raise _ => _ | OutOfDomain => _ end] =>
          destruct p as [va|e|] end; try discriminate.
        eapply IH; [|exact H]. destruct A as [A1 A2]. split; cbn [acc_formal acc_other]; [apply fset_keys_nodup; exact A1 | exact A2].
      * destruct (decode_values par m (NQn a) (match values with JArr l => l | _ => [values] end)) as [l|e|] eqn:DV; try discriminate.
        eapply IH; [|exact H]. destruct A as [A1 A2]. split; cbn [acc_formal acc_other]; [exact A1|].
        apply Forall_app. split; [exact A2|].
        eapply Forall_names_ent; [|exact (decode_values_names _ _ _ _ _ DV)].
        unfold ent_arg. cbn [fst]. apply not_formal_not_entity. exact FA.
    + destruct (decode_values par m (NStr "") (match values with JArr l => l | _ => [values] end)) as [l|e|] eqn:DV; try discriminate.
      eapply IH; [|exact H]. destruct A as [A1 A2]. split; cbn [acc_formal acc_other]; [exact A1|].
      apply Forall_app. split; [exact A2|].
      eapply Forall_names_ent; [|exact (decode_values_names _ _ _ _ _ DV)]. reflexivity.
Qed.

(* at most one argument of the list the reader hands to new_record can denote prov:entity *)
Lemma formal_ent_count : forall (f : list (qname * valarg)),
  NoDup (map (fun kv => qn_uri (fst kv)) f) -> ent_count (map (fun kv => (NQn (fst kv), snd kv)) f) <= 1.
Proof.
  intros f. induction f as [|[k v] r IH]; intros N; [cbn; lia|].
  inversion N as [|x l NI N']; subst. cbn [map fst snd]. rewrite ent_count_cons. specialize (IH N').
  unfold ent_arg at 1. cbn [fst]. destruct (is_prov_name "entity" k) eqn:EK; [|lia].
  assert (Z : ent_count (map (fun kv => (NQn (fst kv), snd kv)) r) = 0).
  { clear IH N N'. induction r as [|[k2 v2] r2 IH2]; [reflexivity|].
    cbn [map fst snd]. rewrite ent_count_cons. unfold ent_arg at 1. cbn [fst].
    destruct (is_prov_name "entity" k2) eqn:E2.
    - exfalso. apply NI. left. unfold is_prov_name in *. apply String.eqb_eq in EK, E2. cbn. congruence.
    - rewrite IH2; [reflexivity|]. intros X. apply NI. right. exact X. }
  lia.
Qed.

Lemma other_ent_count : forall l, Forall (fun nv : namearg * valarg => ent_arg nv = false) l -> ent_count l = 0.
Proof.
  intros l F. induction F as [|x l Hx F IH]; [reflexivity|]. rewrite ent_count_cons, Hx, IH. reflexivity.
Qed.

Lemma acc_attrs_ent_count : forall acc, AccOK acc ->
  ent_count (map (fun kv => (NQn (fst kv), snd kv)) (acc_formal acc) ++ acc_other acc) <= 1.
Proof.
  intros acc [A1 A2]. rewrite ent_count_app, (other_ent_count _ A2). pose proof (formal_ent_count _ A1). lia.
Qed.

(* ---- the reader, container by container *)
Lemma add_members_BStrict : forall par ft ms b coll b' r,
  BInv b -> BStrict b -> add_members par ft b coll ms = (b', r) -> BStrict b'.
Proof.
  induction ms as [|mv ms IH]; intros b coll b' r I C H; cbn [add_members] in H.
  - inversion H; subst; exact C.
  - destruct (vqn par (bns b) mv) as [q|e|]; try (inversion H; subst; exact C).
    destruct (factory_call par ft b "membership" None _ []) as [b1 [y|e|]] eqn:EF;
      pose proof (factory_call_BInv _ _ _ _ _ _ _ _ _ I EF) as I1;
      pose proof (factory_call_BStrict _ _ _ _ _ _ _ _ _ I C membership_params EF) as C1.
    + eapply IH; eauto.
    + inversion H; subst. exact C1.
    + inversion H; subst. exact C1.
Qed.

Lemma decode_elements_BStrict : forall par ft kind rec_id els b b' r,
  BInv b -> BStrict b -> decode_elements par ft b kind rec_id els = (b', r) -> BStrict b'.
Proof.
  induction els as [|e els IH]; intros b b' r I C H; cbn [decode_elements] in H.
  - inversion H; subst; exact C.
  - destruct e as [ | | | | | |members]; try (inversion H; subst; exact C).
    destruct (decode_element par (bns b) kind members _) as [acc|e|] eqn:ED; try (inversion H; subst; exact C).
    assert (A : AccOK acc).
    { eapply decode_element_AccOK; [|exact ED]. split; cbn; constructor. }
    destruct (new_record par ft b kind _ _) as [b1 [y|e|]] eqn:EN;
      pose proof (new_record_BInv _ _ _ _ _ _ _ _ I EN) as I1;
      pose proof (new_record_BStrict _ _ _ _ _ _ _ _ I C (acc_attrs_ent_count acc A) EN) as C1;
      try (inversion H; subst; exact C1).
    destruct (acc_members acc) as [|m0 ms]; [eapply IH; eauto|].
    destruct (find _ (acc_formal acc)) as [[k v]|]; [|inversion H; subst; exact C1].
    destruct (add_members par ft b1 v (m0 :: ms)) as [b2 [y2|e|]] eqn:EM;
      pose proof (add_members_BInv _ _ _ _ _ _ _ I1 EM) as I2;
      pose proof (add_members_BStrict _ _ _ _ _ _ _ I1 C1 EM) as C2.
    + eapply IH; eauto.
    + inversion H; subst. exact C2.
    + inversion H; subst. exact C2.
Qed.

Lemma decode_records_BStrict : forall par ft kind entries b b' r,
  BInv b -> BStrict b -> decode_records par ft b kind entries = (b', r) -> BStrict b'.
Proof.
  induction entries as [|[rid content] entries IH]; intros b b' r I C H; cbn [decode_records] in H.
  - inversion H; subst; exact C.
  - destruct (match content with JObj _ => Some [content] | JArr l => Some l | _ => None end) as [l|];
      [|inversion H; subst; exact C].
    destruct (decode_elements par ft b kind rid l) as [b1 [y|e|]] eqn:ED;
      pose proof (decode_elements_BInv _ _ _ _ _ _ _ _ I ED) as I1;
      pose proof (decode_elements_BStrict _ _ _ _ _ _ _ _ I C ED) as C1.
    + eapply IH; eauto.
    + inversion H; subst. exact C1.
    + inversion H; subst. exact C1.
Qed.

Lemma decode_kinds_BStrict : forall par ft jc b b' r,
  BInv b -> BStrict b -> decode_kinds par ft b jc = (b', r) -> BStrict b'.
Proof.
  induction jc as [|[lbl content] jc IH]; intros b b' r I C H; cbn [decode_kinds] in H.
  - inversion H; subst; exact C.
  - destruct (kind_of_label lbl) as [kind|]; [|inversion H; subst; exact C].
    destruct (String.eqb kind "Bundle"); [inversion H; subst; exact C|].
    destruct content as [ | | | | | |entries]; try (inversion H; subst; exact C).
    destruct (decode_records par ft b kind entries) as [b1 [y|e|]] eqn:ED;
      pose proof (decode_records_BInv _ _ _ _ _ _ _ I ED) as I1;
      pose proof (decode_records_BStrict _ _ _ _ _ _ _ I C ED) as C1.
    + eapply IH; eauto.
    + inversion H; subst. exact C1.
    + inversion H; subst. exact C1.
Qed.

Lemma decode_container_BStrict : forall par ft b jc b' r,
  BInv b -> BStrict b -> decode_container par ft b jc = (b', r) -> BStrict b'.
Proof.
  intros par ft b jc b' r I C H. unfold decode_container in H.
  destruct (lookup "prefix" jc) as [[ | | | | | |ps]|]; try (inversion H; subst; exact C).
  - destruct (decode_prefixes (bns b) ps) as [m|e|] eqn:EP; try (inversion H; subst; exact C).
    eapply decode_kinds_BStrict; [| |exact H]; [exact (decode_prefixes_InvU _ _ _ I EP) | exact C].
  - eapply decode_kinds_BStrict; eauto.
Qed.

Lemma attach_decoded_DStrict : forall dd b i dd' r,
  DStrict dd -> BStrict b -> attach_decoded dd b i = (dd', r) -> DStrict dd'.
Proof.
  intros dd b i dd' r [M B] C H. unfold attach_decoded in H.
  destruct i as [q0|]; [|inversion H; subst; split; assumption].
  destruct (resolve _ (bns b) (NQn q0)) as [[m [q|]]|e|]; try (inversion H; subst; split; assumption).
  destruct (mem (qn_uri q) (dbundles dd)); inversion H; subst; split; cbn; try assumption.
  apply Forall_app. split; [exact B|]. constructor; [exact C | constructor].
Qed.

Lemma decode_bundles_DStrict : forall ft bs dd dd' r,
  DStrict dd -> decode_bundles ft dd bs = (dd', r) -> DStrict dd'.
Proof.
  induction bs as [|[bid_str content] bs IH]; intros dd dd' r D H; cbn [decode_bundles] in H.
  - inversion H; subst; exact D.
  - destruct content as [ | | | | | |jc]; try (inversion H; subst; exact D).
    cbv zeta in H.
    destruct (decode_container _ ft (bundle_init None) jc) as [b [y|e|]] eqn:EC;
      try (inversion H; subst; exact D).
    pose proof (decode_container_BStrict _ _ _ _ _ _ (BInv_init None) (BStrict_init None) EC) as Cb.
    destruct (resolve _ (bns b) (NStr bid_str)) as [[m i]|e|]; try (inversion H; subst; exact D).
    destruct (attach_decoded dd (with_ns b m) i) as [dd1 [y1|e|]] eqn:EA;
      pose proof (attach_decoded_DStrict dd (with_ns b m) i dd1 _ D Cb EA) as D1.
    + eapply IH; eauto.
    + inversion H; subst. exact D1.
    + inversion H; subst. exact D1.
Qed.

(* every document the PROV-JSON reader builds *)
Theorem decode_doc_DStrict : forall ft t nd, decode_doc ft t = OK nd -> DStrict nd.
Proof.
  intros ft t nd H. unfold decode_doc in H.
  destruct t as [ | | | | | |content]; try discriminate.
  destruct (match lookup "bundle" content with
            | Some (JObj bs) => Some bs | None => Some [] | _ => None end) as [bs|]; [|discriminate].
  destruct (decode_container None ft (bundle_init None) _) as [b [y|e|]] eqn:EC; try discriminate.
  pose proof (decode_container_BStrict _ _ _ _ _ _ (BInv_init None) (BStrict_init None) EC) as Cb.
  destruct (decode_bundles ft (mkD b []) bs) as [dd [y2|e|]] eqn:EB; inversion H; subst.
  eapply decode_bundles_DStrict; [|exact EB]. split; [exact Cb | constructor].
Qed.

Theorem decoded_records_normal : forall ft t d b r,
  decode_doc ft t = OK d -> In b (dmain d :: map snd (dbundles d)) -> In r (brecs b) -> Normal r.
Proof.
  intros ft t d b r H Hb Hr. destruct (decode_doc_DStrict _ _ _ H) as [M B].
  destruct Hb as [<-|Hb].
  - unfold BStrict in M. rewrite Forall_forall in M. exact (M r Hr).
  - apply in_map_iff in Hb. destruct Hb as [[k b0] [EQ Hk]]. cbn in EQ. subst b0.
    rewrite Forall_forall in B. specialize (B (k, b) Hk). cbn in B. unfold BStrict in B. rewrite Forall_forall in B. exact (B r Hr).
Qed.
