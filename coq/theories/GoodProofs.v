(* GoodProofs.v — what normalisation on insertion stores is in stored form and of the kind the
   attribute demands (qualified names under reference attributes, datetimes under time attributes):
   an invariant of attribute dictionaries under add_attributes, whichever way it ends. *)
From Coq Require Import String List Arith ZArith Bool.
From Prov Require Import Str Sexp Tables Nsm NsmProofs Values Record RecordProofs World WorldProofs IdemProofs ReaddProofs.
Import ListNotations.
Open Scope string_scope.

Definition good_value (ft : ftable) (k : qname) (v : value) : Prop := stored ft v /\ typed k v.
Definition GoodD (ft : ftable) (d : list (qname * list value)) : Prop :=
  Forall (fun kv => Forall (good_value ft (fst kv)) (snd kv)) d.

Lemma parse_xsd_uri : forall ft lex d d', qn_uri d = qn_uri d' -> parse_xsd ft lex d = parse_xsd ft lex d'.
Proof. intros ft lex d d' H. unfold parse_xsd, xsd_local. rewrite H. reflexivity. Qed.

Lemma parse_xsd_native : forall ft lex d v, parse_xsd ft lex d = CVal v -> stored ft v.
Proof.
  intros ft lex d v H. unfold parse_xsd in H. destruct (xsd_local d) as [l|]; [|discriminate].
  destruct (lookup l xsd_parsers) as [p|]; [|discriminate].
  repeat match type of H with
         | (if ?b then _ else _) = _ => destruct b
         | match ?x with _ => _ end = _ => destruct x eqn:?
         end; try discriminate; inversion H; subst; try exact Logic.I.
  all: try (unfold parse_float in *; repeat match goal with
         | H0 : match ?x with _ => _ end = _ |- _ => destruct x eqn:?; try discriminate
         end).
  all: try match goal with H0 : FOk _ = FOk _ |- _ => inversion H0; subst; exact Logic.I end.
Qed.

(* the output of _auto_literal_conversion is stored *)
Theorem auto_conv_out_stored : forall c m a m' v,
  InvU m -> auto_conv c m a = Done m' (Some v) -> stored (cft c) v.
Proof.
  intros c m a m' v I H. destruct a as [s|z|r iv g|b|t|u|q|lex dt lang|i|]; cbn [auto_conv] in H;
    try (inversion H; subst; exact Logic.I).
  - (* qualified name *)
    destruct (resolve_o c m (NQn q)) as [m1 [q'|]|m1 e|]; try discriminate; inversion H; subst; exact Logic.I.
  - (* literal *)
    destruct lang as [g|].
    + unfold keep_literal in H. destruct g as [|gc gs]; cbn [mk_literal] in H.
      * destruct dt as [d|]; [|inversion H; subst; exact Logic.I].
        destruct (resolve_o c m (NQn d)) as [m1 [d'|]|m1 e|]; try discriminate; inversion H; subst; exact Logic.I.
      * pose proof (resolve_o_qn c m (prov_qn "InternationalizedString") I) as R.
        destruct (resolve_o c m (NQn (prov_qn "InternationalizedString"))) as [m1 [d'|]|m1 e|]; try discriminate;
          try (exfalso; exact R).
        inversion H; subst. destruct R as [U _]. exists d'. split; [reflexivity | exact U].
    + destruct dt as [d|]; [|inversion H; subst; exact Logic.I].
      destruct (parse_xsd (cft c) lex d) as [v0| |e|] eqn:EP; try discriminate.
      * inversion H; subst. exact (parse_xsd_native _ _ _ _ EP).
      * unfold keep_literal in H. cbn [mk_literal] in H.
        pose proof (resolve_o_qn c m d I) as R.
        destruct (resolve_o c m (NQn d)) as [m1 [d'|]|m1 e|]; try discriminate; try (exfalso; exact R).
        inversion H; subst. destruct R as [U _]. cbn [stored]. rewrite (parse_xsd_uri _ lex d' d U). exact EP.
  - (* a record object: its identifier *)
    destruct i as [q|]; [|discriminate].
    destruct (resolve_o c m (NQn q)) as [m1 [q'|]|m1 e|]; try discriminate; inversion H; subst; exact Logic.I.
Qed.

(* ---- the dictionary invariant *)
Lemma GoodD_get : forall ft d a v, GoodD ft d -> In v (attr_get a d) -> good_value ft a v.
Proof.
  induction d as [|[k vs] d IH]; intros a v G H; cbn [attr_get] in H; [contradiction|].
  inversion G as [|x l Gk Gd]; subst. cbn [fst snd] in Gk.
  destruct (qn_eqb a k) eqn:E.
  - rewrite Forall_forall in Gk. destruct (Gk v H) as [S T]. split; [exact S|].
    exact (typed_transfer a k v E T).
  - exact (IH a v Gd H).
Qed.

Lemma GoodD_put : forall ft d k vs, GoodD ft d -> Forall (good_value ft k) vs -> GoodD ft (attr_put k vs d).
Proof.
  induction d as [|[k0 old] d IH]; intros k vs G F; cbn [attr_put].
  - constructor; [exact F | constructor].
  - inversion G as [|x l Gk Gd]; subst. destruct (qn_eqb k k0) eqn:E.
    + constructor; [|exact Gd]. cbn [fst snd]. rewrite Forall_forall in *. intros v Hv.
      destruct (F v Hv) as [S T]. split; [exact S|].
      assert (E' : qn_eqb k0 k = true) by (unfold qn_eqb in *; rewrite String.eqb_sym; exact E).
      exact (typed_transfer k0 k v E' T).
    + constructor; [exact Gk | apply IH; assumption].
Qed.

Lemma GoodD_add : forall ft d k v, GoodD ft d -> good_value ft k v -> GoodD ft (attr_add k v d).
Proof.
  intros ft d k v G Gv. unfold attr_add. apply GoodD_put; [exact G|].
  rewrite Forall_forall. intros w Hw. apply in_set_add in Hw. destruct Hw as [Hw|[-> _]]; [|exact Gv].
  exact (GoodD_get ft d k w G Hw).
Qed.

(* the value computed for an attribute is good for it *)
Lemma step_value_good : forall c m1 attr a m2 v,
  InvU m1 ->
  (if is_qname_attr attr then qn_value c m1 a
   else if is_time_attr attr then time_value m1 a else auto_conv c m1 a) = Done m2 (Some v) ->
  good_value (cft c) attr v.
Proof.
  intros c m1 attr a m2 v I H. destruct (is_qname_attr attr) eqn:EQ.
  - pose proof (qn_value_is_qn _ _ _ _ _ H) as Q. destruct v; try contradiction.
    split; [exact Logic.I|]. split; intro X; [exact Logic.I|]. rewrite (qname_time_disjoint _ EQ) in X. discriminate.
  - destruct (is_time_attr attr) eqn:ET.
    + pose proof (time_value_is_time _ _ _ _ H) as Q. destruct v; try contradiction.
      split; [exact Logic.I|]. split; intro X; [congruence | exact Logic.I].
    + split; [exact (auto_conv_out_stored _ _ _ _ _ I H)|]. split; intro X; congruence.
Qed.

Lemma value_step_InvU : forall c m1 attr a,
  InvU m1 ->
  out_InvU (if is_qname_attr attr then qn_value c m1 a
            else if is_time_attr attr then time_value m1 a else auto_conv c m1 a).
Proof.
  intros c m1 attr a I. destruct (is_qname_attr attr); [apply qn_value_InvU; exact I|].
  destruct (is_time_attr attr); [apply time_value_InvU; exact I | apply auto_conv_InvU; exact I].
Qed.

Theorem loop_good : forall c ic l m d m' d' res,
  InvU m -> GoodD (cft c) d -> add_attrs_loop c ic m d l = (m', d', res) -> GoodD (cft c) d'.
Proof.
  intros c ic l. induction l as [|[n a] l IH]; intros m d m' d' res I G H.
  - cbn in H. inversion H; subst. exact G.
  - destruct (valarg_is_none a) as [->|NN].
    + rewrite add_attrs_loop_none in H. eapply IH; eauto.
    + rewrite add_attrs_loop_cons in H by exact NN. unfold loop_body in H.
      pose proof (resolve_o_InvU c m n I) as R.
      destruct (resolve_o c m n) as [m1 [attr|]|m1 e|]; try (inversion H; subst; exact G).
      pose proof (value_step_InvU c m1 attr a R) as V.
      destruct (if is_qname_attr attr then qn_value c m1 a
                else if is_time_attr attr then time_value m1 a else auto_conv c m1 a)
        as [m2 [v|]|m2 e2|] eqn:EV; try (inversion H; subst; exact G).
      cbn [out_InvU] in V.
      pose proof (step_value_good c m1 attr a m2 v R EV) as GV.
      pose proof (GoodD_add _ d attr v G GV) as GA.
      destruct ((negb (ic && is_prov_name "entity" attr) && is_formal_attr attr)%bool).
      * destruct (attr_get attr d) as [|e0 rest0].
        -- eapply IH; [exact V | exact GA | exact H].
        -- destruct (py_eq v e0); [eapply IH; [exact V | exact G | exact H] | inversion H; subst; exact G].
      * eapply IH; [exact V | exact GA | exact H].
Qed.

Definition GoodR (ft : ftable) (r : prec) : Prop := GoodD ft (rattrs r).

Theorem add_attributes_good : forall c m r l,
  InvU m -> GoodR (cft c) r ->
  match add_attributes c m r l with
  | ADone _ r' => GoodR (cft c) r'
  | AFail _ r' _ => GoodR (cft c) r'
  | AOOD => True
  end.
Proof.
  intros c m r l I G. unfold add_attributes. destruct l as [|x l]; [exact G|].
  destruct (add_attrs_loop c (names_collection (x :: l)) m (rattrs r) (x :: l)) as [[m' d'] res] eqn:E.
  pose proof (loop_good _ _ _ _ _ _ _ _ I G E) as G'.
  destruct res; exact G' || exact Logic.I.
Qed.

(* GoodR is what the conservation theorems ask of a source record *)
Lemma GoodR_good_rec : forall ft r, GoodR ft r -> good_rec ft r.
Proof.
  intros ft r G p Hp. unfold attributes in Hp. apply in_flat_map in Hp. destruct Hp as [[k vs] [Hk Hp]].
  apply in_map_iff in Hp. destruct Hp as [v [<- Hv]]. cbn [fst snd] in *.
  unfold GoodR, GoodD in G. rewrite Forall_forall in G. specialize (G (k, vs) Hk). cbn [fst snd] in G.
  rewrite Forall_forall in G. exact (G v Hv).
Qed.

(* ---- containers *)
From Prov Require Import WInvUProofs.

Definition BGood (ft : ftable) (b : bundle) : Prop := Forall (GoodR ft) (brecs b).

Lemma GoodR_empty : forall ft k i, GoodR ft (mkRec k i []).
Proof. intros. constructor. Qed.

Lemma BGood_init : forall ft i, BGood ft (bundle_init i).
Proof. intros. constructor. Qed.

Lemma add_attributes_good_done : forall c m r l m' r', InvU m -> GoodR (cft c) r ->
  add_attributes c m r l = ADone m' r' -> GoodR (cft c) r'.
Proof. intros c m r l m' r' I G H. pose proof (add_attributes_good c m r l I G) as X. rewrite H in X. exact X. Qed.

Lemma add_attributes_good_fail : forall c m r l m' r' e, InvU m -> GoodR (cft c) r ->
  add_attributes c m r l = AFail m' r' e -> GoodR (cft c) r'.
Proof. intros c m r l m' r' e I G H. pose proof (add_attributes_good c m r l I G) as X. rewrite H in X. exact X. Qed.

Lemma new_record_BGood : forall par ft b k i attrs b' x,
  BInv b -> BGood ft b -> new_record par ft b k i attrs = (b', x) -> BGood ft b'.
Proof.
  intros par ft b k i attrs b' x I G H. unfold new_record in H. unfold BInv in I.
  assert (ID : out_InvU (match i with None => Done (bns b) None | Some y => resolve_o (mkCtx par ft) (bns b) y end)).
  { destruct i as [y|]; [apply resolve_o_InvU; exact I | exact I]. }
  destruct (match i with None => Done (bns b) None | Some y => resolve_o (mkCtx par ft) (bns b) y end) as [m1 idq|m1 e|];
    cbn [out_InvU] in ID; try (inversion H; subst; exact G).
  unfold new_prec in H.
  destruct ((is_element k && match idq with None => true | Some _ => false end)%bool).
  - inversion H; subst. exact G.
  - destruct (add_attributes (mkCtx par ft) m1 (mkRec k idq []) attrs) as [m2 r2|m2 r2 e|] eqn:EA; inversion H; subst;
      try exact G.
    unfold BGood, add_rec_to, with_ns. cbn [brecs]. apply Forall_app. split; [exact G|].
    constructor; [|constructor].
    exact (add_attributes_good_done (mkCtx par ft) m1 _ attrs m2 r2 ID (GoodR_empty ft k idq) EA).
Qed.

Lemma add_record_BGood : forall par ft b r b' x, BInv b -> BGood ft b -> add_record par ft b r = (b', x) -> BGood ft b'.
Proof.
  intros par ft b r b' x I G H. unfold add_record in H. destruct (negb (formal_single r)).
  - inversion H; subst. exact G.
  - eapply new_record_BGood; eauto.
Qed.

Lemma add_records_BGood : forall par ft rs b b' x, BInv b -> BGood ft b -> add_records par ft b rs = (b', x) -> BGood ft b'.
Proof.
  induction rs as [|r rs IH]; intros b b' x I G H; cbn [add_records] in H.
  - inversion H; subst. exact G.
  - destruct (add_record par ft b r) as [b1 [y|e|]] eqn:E;
      pose proof (add_record_BInv _ _ _ _ _ _ I E) as I1;
      pose proof (add_record_BGood _ _ _ _ _ _ I G E) as G1.
    + eapply IH; eauto.
    + inversion H; subst. exact G1.
    + inversion H; subst. exact G1.
Qed.

Lemma Forall_set_nth_r : forall ft (l : list prec) i r, Forall (GoodR ft) l -> GoodR ft r -> Forall (GoodR ft) (set_nth i r l).
Proof. intros. apply Forall_set_nth; assumption. Qed.

Lemma new_record_ok_in : forall par ft b k i attrs b' r,
  new_record par ft b k i attrs = (b', OK r) -> In r (brecs b').
Proof.
  intros par ft b k i attrs b' r H. unfold new_record in H.
  destruct (match i with None => Done (bns b) None | Some y => resolve_o (mkCtx par ft) (bns b) y end) as [m1 idq|m1 e|];
    try discriminate.
  destruct (new_prec (mkCtx par ft) m1 k idq attrs) as [m2 r2|m2 e|]; inversion H; subst.
  unfold add_rec_to. cbn [brecs]. apply in_or_app. right. left. reflexivity.
Qed.

Lemma factory_call_BGood : forall par ft b f i args other b' x,
  BInv b -> BGood ft b -> factory_call par ft b f i args other = (b', x) -> BGood ft b'.
Proof.
  intros par ft b f i args other b' x I G H. unfold factory_call in H.
  destruct (factory_entry f) as [[[[f0 k] params] asserted]|]; [|inversion H; subst; exact G].
  destruct (factory_args (bns b) params args) as [m0 fa|m0 e|]; try (inversion H; subst; exact G).
  destruct (new_record par ft b k i (fa ++ other)%list) as [b1 [r|e|]] eqn:EN;
    pose proof (new_record_BInv _ _ _ _ _ _ _ _ I EN) as I1;
    pose proof (new_record_BGood _ _ _ _ _ _ _ _ I G EN) as G1; try (inversion H; subst; exact G1).
  destruct asserted as [ty|]; [|inversion H; subst; exact G1].
  assert (Gr : GoodR ft r).
  { unfold BGood in G1. rewrite Forall_forall in G1. apply G1. exact (new_record_ok_in _ _ _ _ _ _ _ _ EN). }
  destruct (add_attributes (mkCtx par ft) (bns b1) r [(NQn (prov_qn "type"), AQn (prov_qn ty))]) as [m2 r2|m2 r2 e|] eqn:EA;
    inversion H; subst; try exact G1; unfold BGood; cbn [brecs]; apply Forall_set_nth_r; try exact G1.
  - exact (add_attributes_good_done (mkCtx par ft) _ _ _ _ _ I1 Gr EA).
  - exact (add_attributes_good_fail (mkCtx par ft) _ _ _ _ _ _ I1 Gr EA).
Qed.

(* ---- documents *)
From Prov Require Import Derive Jtree Json.

Definition DGood (ft : ftable) (dd : doc) : Prop :=
  BGood ft (dmain dd) /\ Forall (fun kb => BGood ft (snd kb)) (dbundles dd).

Lemma DGood_init : forall ft, DGood ft doc_init.
Proof. intros ft. split; constructor. Qed.

Lemma doc_new_bundle_DGood : forall ft0 dd x ft dd' r, DGood ft0 dd -> doc_new_bundle dd x ft = (dd', r) -> DGood ft0 dd'.
Proof.
  intros ft0 dd x ft dd' r [M B] H. unfold doc_new_bundle in H. destruct x as [n|]; [|inversion H; subst; split; assumption].
  destruct (resolve None (bns (dmain dd)) n) as [[m [q|]]|e|]; try (inversion H; subst; split; assumption).
  destruct (mem (qn_uri q) (dbundles dd)); inversion H; subst; split; cbn; try exact M; try exact B.
  apply Forall_app. split; [exact B|]. constructor; [apply BGood_init | constructor].
Qed.

Lemma nth_error_Forall_g : forall ft (l : list (string * bundle)) i k b,
  Forall (fun kb => BGood ft (snd kb)) l -> nth_error l i = Some (k, b) -> BGood ft b.
Proof. intros ft l i k b F H. rewrite Forall_forall in F. exact (F (k, b) (nth_error_In _ _ H)). Qed.

Lemma merge_bundles_DGood : forall ft bs dd dd' r,
  DInv dd -> DGood ft dd -> merge_bundles ft dd bs = (dd', r) -> DGood ft dd'.
Proof.
  induction bs as [|[k sb] bs IH]; intros dd dd' r DI D H; cbn [merge_bundles] in H.
  - inversion H; subst. exact D.
  - destruct sb as [[sid|] sm srecs sidmap]; [|inversion H; subst; exact D].
    cbv zeta in H.
    set (step1 := match find (fun ib => String.eqb (fst (snd ib)) (qn_uri sid))
                             (combine (seq 0 (length (dbundles dd))) (dbundles dd)) with
                  | Some (i, _) => (dd, OK i)
                  | None => match doc_new_bundle dd (Some (NQn sid)) ft with
                            | (dd1, OK _) => (dd1, OK (length (dbundles dd1) - 1))
                            | (dd1, Raise e) => (dd1, Raise e)
                            | (dd1, OutOfDomain) => (dd1, OutOfDomain)
                            end
                  end) in *.
    assert (S1 : DInv (fst step1) /\ DGood ft (fst step1)).
    { unfold step1. destruct (find _ _) as [[i x]|]; [split; assumption|].
      destruct (doc_new_bundle dd (Some (NQn sid)) ft) as [dd1 [y|e|]] eqn:EN; cbn [fst];
        (split; [exact (doc_new_bundle_DInv _ _ _ _ _ DI EN) | exact (doc_new_bundle_DGood _ _ _ _ _ _ D EN)]). }
    destruct step1 as [dd1 [i|e|]]; cbn [fst] in S1; destruct S1 as [DI1 D1]; try (inversion H; subst; exact D1).
    destruct (nth_error (dbundles dd1) i) as [[k1 tb]|] eqn:EN; [|inversion H; subst; exact D1].
    destruct DI1 as [MI1 BI1]. destruct D1 as [M1 B1].
    pose proof (nth_error_Forall _ _ _ _ BI1 EN) as ITB.
    pose proof (nth_error_Forall_g _ _ _ _ _ B1 EN) as GTB.
    destruct (add_records (Some (bns (dmain dd1))) ft tb srecs) as [tb' [y|e|]] eqn:EA;
      pose proof (add_records_BInv _ _ _ _ _ _ ITB EA) as IT;
      pose proof (add_records_BGood _ _ _ _ _ _ ITB GTB EA) as GT.
    + eapply IH; [| |exact H].
      * split; cbn; [exact MI1 | apply Forall_set_nth; assumption].
      * split; cbn; [exact M1 | apply Forall_set_nth; assumption].
    + inversion H; subst. split; cbn; [exact M1 | apply Forall_set_nth; assumption].
    + inversion H; subst. split; assumption.
Qed.

Lemma bundle_unified_BGood : forall ft b nb, bundle_unified ft b = OK nb -> BGood ft nb.
Proof.
  intros ft b nb H. unfold bundle_unified in H. destruct (unified_records ft b) as [u|e|]; try discriminate.
  destruct (add_records None ft (bundle_init (bid b)) u) as [nb' [y|e|]] eqn:EA; try discriminate.
  inversion H; subst. exact (add_records_BGood _ _ _ _ _ _ (BInv_init _) (BGood_init ft _) EA).
Qed.

Lemma attach_bundle_DGood : forall ft dd b dd' r, DGood ft dd -> BGood ft b -> attach_bundle dd b = (dd', r) -> DGood ft dd'.
Proof.
  intros ft dd b dd' r [M B] Gb H. unfold attach_bundle in H. destruct (bid b) as [i|]; [|inversion H; subst; split; assumption].
  destruct (resolve (Some (bns (dmain dd))) (bns b) (NQn i)) as [[m [q|]]|e|]; try (inversion H; subst; split; assumption).
  destruct (mem (qn_uri q) (dbundles dd)); inversion H; subst; split; cbn; try assumption.
  apply Forall_app. split; [exact B|]. constructor; [exact Gb | constructor].
Qed.

Lemma unify_bundles_DGood : forall ft bs nd nd', DGood ft nd -> unify_bundles ft bs nd = OK nd' -> DGood ft nd'.
Proof.
  induction bs as [|[k b] bs IH]; intros nd nd' D H; cbn [unify_bundles] in H.
  - inversion H; subst. exact D.
  - destruct (bundle_unified ft b) as [nb|e|] eqn:EU; try discriminate.
    destruct (attach_bundle nd nb) as [nd1 [y|e|]] eqn:EA; try discriminate.
    eapply IH; [|exact H]. exact (attach_bundle_DGood _ _ _ _ _ D (bundle_unified_BGood _ _ _ EU) EA).
Qed.

Lemma doc_unified_DGood : forall ft dd nd, doc_unified ft dd = OK nd -> DGood ft nd.
Proof.
  intros ft dd nd H. unfold doc_unified in H.
  destruct (add_namespaces nsm_init (map snd (regd (bns (dmain dd))))) as [m0|] eqn:EN; [|discriminate].
  pose proof (add_namespaces_InvU _ _ _ InvU_init EN) as I0.
  destruct (unified_records ft (dmain dd)) as [u|e|]; try discriminate.
  set (m1 := match dflt (bns (dmain dd)) with Some dn => set_default m0 (ns_uri dn) | None => m0 end) in *.
  assert (I1 : InvU m1) by (unfold m1; destruct (dflt (bns (dmain dd))); [apply set_default_InvU|]; exact I0).
  destruct (add_records None ft (mkB None m1 [] []) u) as [nmain [y|e|]] eqn:EA; try discriminate.
  eapply unify_bundles_DGood; [|exact H]. split; [|constructor].
  refine (add_records_BGood None ft u (mkB None m1 [] []) nmain (OK y) I1 _ EA). constructor.
Qed.

(* ---- the PROV-JSON decoder *)
Lemma add_members_BGood : forall par ft ms b coll b' r,
  BInv b -> BGood ft b -> add_members par ft b coll ms = (b', r) -> BGood ft b'.
Proof.
  induction ms as [|mv ms IH]; intros b coll b' r I C H; cbn [add_members] in H.
  - inversion H; subst; exact C.
  - destruct (vqn par (bns b) mv) as [q|e|]; try (inversion H; subst; exact C).
    destruct (factory_call par ft b "membership" None _ []) as [b1 [y|e|]] eqn:E;
      pose proof (factory_call_BInv _ _ _ _ _ _ _ _ _ I E) as I1;
      pose proof (factory_call_BGood _ _ _ _ _ _ _ _ _ I C E) as C1.
    + eapply IH; eauto.
    + inversion H; subst. exact C1.
    + inversion H; subst. exact C1.
Qed.

Lemma decode_elements_BGood : forall par ft kind rec_id els b b' r,
  BInv b -> BGood ft b -> decode_elements par ft b kind rec_id els = (b', r) -> BGood ft b'.
Proof.
  induction els as [|e els IH]; intros b b' r I C H; cbn [decode_elements] in H.
  - inversion H; subst; exact C.
  - destruct e as [ | | | | | |members]; try (inversion H; subst; exact C).
    destruct (decode_element par (bns b) kind members _) as [acc|e|]; try (inversion H; subst; exact C).
    destruct (new_record par ft b kind _ _) as [b1 [y|e|]] eqn:EN;
      pose proof (new_record_BInv _ _ _ _ _ _ _ _ I EN) as I1;
      pose proof (new_record_BGood _ _ _ _ _ _ _ _ I C EN) as C1;
      try (inversion H; subst; exact C1).
    destruct (acc_members acc) as [|m0 ms]; [eapply IH; eauto|].
    destruct (find _ (acc_formal acc)) as [[k v]|]; [|inversion H; subst; exact C1].
    destruct (add_members par ft b1 v (m0 :: ms)) as [b2 [y2|e|]] eqn:EM;
      pose proof (add_members_BInv _ _ _ _ _ _ _ I1 EM) as I2;
      pose proof (add_members_BGood _ _ _ _ _ _ _ I1 C1 EM) as C2.
    + eapply IH; eauto.
    + inversion H; subst. exact C2.
    + inversion H; subst. exact C2.
Qed.

Lemma decode_records_BGood : forall par ft kind entries b b' r,
  BInv b -> BGood ft b -> decode_records par ft b kind entries = (b', r) -> BGood ft b'.
Proof.
  induction entries as [|[rid content] entries IH]; intros b b' r I C H; cbn [decode_records] in H.
  - inversion H; subst; exact C.
  - destruct (match content with JObj _ => Some [content] | JArr l => Some l | _ => None end) as [l|];
      [|inversion H; subst; exact C].
    destruct (decode_elements par ft b kind rid l) as [b1 [y|e|]] eqn:E;
      pose proof (decode_elements_BInv _ _ _ _ _ _ _ _ I E) as I1;
      pose proof (decode_elements_BGood _ _ _ _ _ _ _ _ I C E) as C1.
    + eapply IH; eauto.
    + inversion H; subst. exact C1.
    + inversion H; subst. exact C1.
Qed.

Lemma decode_kinds_BGood : forall par ft jc b b' r,
  BInv b -> BGood ft b -> decode_kinds par ft b jc = (b', r) -> BGood ft b'.
Proof.
  induction jc as [|[lbl content] jc IH]; intros b b' r I C H; cbn [decode_kinds] in H.
  - inversion H; subst; exact C.
  - destruct (kind_of_label lbl) as [kind|]; [|inversion H; subst; exact C].
    destruct (String.eqb kind "Bundle"); [inversion H; subst; exact C|].
    destruct content as [ | | | | | |entries]; try (inversion H; subst; exact C).
    destruct (decode_records par ft b kind entries) as [b1 [y|e|]] eqn:E;
      pose proof (decode_records_BInv _ _ _ _ _ _ _ I E) as I1;
      pose proof (decode_records_BGood _ _ _ _ _ _ _ I C E) as C1.
    + eapply IH; eauto.
    + inversion H; subst. exact C1.
    + inversion H; subst. exact C1.
Qed.

Lemma decode_container_BGood : forall par ft b jc b' r,
  BInv b -> BGood ft b -> decode_container par ft b jc = (b', r) -> BGood ft b'.
Proof.
  intros par ft b jc b' r I C H. unfold decode_container in H.
  destruct (lookup "prefix" jc) as [[ | | | | | |ps]|]; try (inversion H; subst; exact C).
  - destruct (decode_prefixes (bns b) ps) as [m|e|] eqn:EP; try (inversion H; subst; exact C).
    eapply decode_kinds_BGood; [| |exact H]; [exact (decode_prefixes_InvU _ _ _ I EP) | exact C].
  - eapply decode_kinds_BGood; eauto.
Qed.

Lemma attach_decoded_DGood : forall ft dd b i dd' r,
  DGood ft dd -> BGood ft b -> attach_decoded dd b i = (dd', r) -> DGood ft dd'.
Proof.
  intros ft dd b i dd' r [M B] C H. unfold attach_decoded in H.
  destruct i as [q0|]; [|inversion H; subst; split; assumption].
  destruct (resolve _ (bns b) (NQn q0)) as [[m [q|]]|e|]; try (inversion H; subst; split; assumption).
  destruct (mem (qn_uri q) (dbundles dd)); inversion H; subst; split; cbn; try assumption.
  apply Forall_app. split; [exact B|]. constructor; [exact C | constructor].
Qed.

Lemma decode_bundles_DGood : forall ft bs dd dd' r,
  DGood ft dd -> decode_bundles ft dd bs = (dd', r) -> DGood ft dd'.
Proof.
  induction bs as [|[bid_str content] bs IH]; intros dd dd' r D H; cbn [decode_bundles] in H.
  - inversion H; subst; exact D.
  - destruct content as [ | | | | | |jc]; try (inversion H; subst; exact D).
    cbv zeta in H.
    destruct (decode_container _ ft (bundle_init None) jc) as [b [y|e|]] eqn:EC;
      try (inversion H; subst; exact D).
    pose proof (decode_container_BGood _ _ _ _ _ _ (BInv_init None) (BGood_init ft None) EC) as Cb.
    destruct (resolve _ (bns b) (NStr bid_str)) as [[m i]|e|]; try (inversion H; subst; exact D).
    destruct (attach_decoded dd (with_ns b m) i) as [dd1 [y1|e|]] eqn:EA;
      pose proof (attach_decoded_DGood ft dd (with_ns b m) i dd1 _ D Cb EA) as D1.
    + eapply IH; eauto.
    + inversion H; subst. exact D1.
    + inversion H; subst. exact D1.
Qed.

Lemma decode_doc_DGood : forall ft t nd, decode_doc ft t = OK nd -> DGood ft nd.
Proof.
  intros ft t nd H. unfold decode_doc in H.
  destruct t as [ | | | | | |content]; try discriminate.
  destruct (match lookup "bundle" content with
            | Some (JObj bs) => Some bs | None => Some [] | _ => None end) as [bs|]; [|discriminate].
  destruct (decode_container None ft (bundle_init None) _) as [b [y|e|]] eqn:EC; try discriminate.
  pose proof (decode_container_BGood _ _ _ _ _ _ (BInv_init None) (BGood_init ft None) EC) as Cb.
  destruct (decode_bundles ft (mkD b []) bs) as [dd [y2|e|]] eqn:EB; inversion H; subst.
  eapply decode_bundles_DGood; [|exact EB]. split; [exact Cb | constructor].
Qed.

(* ---- worlds *)
From Prov Require Import Provn Graph Interp InterpProofs GraphProofs.

Definition WGood (w : world) : Prop := Forall (DGood (wft w)) (wdocs w).

Lemma WGood_get_doc : forall w d dd, WGood w -> get_doc w d = Some dd -> DGood (wft w) dd.
Proof. intros w d dd W G. unfold WGood in W. rewrite Forall_forall in W. apply W. eapply nth_error_In; eauto. Qed.

Lemma WGood_get_cont : forall w c b, WGood w -> get_cont w c = Some b -> BGood (wft w) b.
Proof.
  intros w c b W G. destruct c as [d|d i]; cbn [get_cont] in G.
  - destruct (get_doc w d) as [dd|] eqn:E; [|discriminate]. inversion G; subst.
    apply (WGood_get_doc _ _ _ W E).
  - destruct (get_doc w d) as [dd|] eqn:E; [|discriminate].
    destruct (nth_error (dbundles dd) i) as [[k bb]|] eqn:E2; [|discriminate]. inversion G; subst.
    destruct (WGood_get_doc _ _ _ W E) as [_ F]. rewrite Forall_forall in F.
    apply (F (k, b)). eapply nth_error_In; eauto.
Qed.

Lemma WGood_get_rec : forall w r p, WGood w -> get_rec w r = Some p -> GoodR (wft w) p.
Proof.
  intros w [c i] p W G. unfold get_rec in G. destruct (get_cont w c) as [b|] eqn:E; [|discriminate].
  pose proof (WGood_get_cont _ _ _ W E) as B. unfold BGood in B. rewrite Forall_forall in B.
  apply B. eapply nth_error_In; eauto.
Qed.

Lemma WGood_set_doc : forall w d dd, WGood w -> DGood (wft w) dd -> WGood (set_doc w d dd).
Proof. intros. unfold WGood, set_doc; cbn. apply Forall_set_nth; assumption. Qed.

Lemma WGood_set_cont : forall w c b, WGood w -> BGood (wft w) b -> WGood (set_cont w c b).
Proof.
  intros w c b W C. unfold set_cont. destruct c as [d|d i].
  - destruct (get_doc w d) as [dd|] eqn:E; [|exact W].
    apply WGood_set_doc; [exact W|]. destruct (WGood_get_doc _ _ _ W E) as [_ F]. split; assumption.
  - destruct (get_doc w d) as [dd|] eqn:E; [|exact W].
    destruct (nth_error (dbundles dd) i) as [[k bb]|] eqn:E2; [|exact W].
    apply WGood_set_doc; [exact W|]. destruct (WGood_get_doc _ _ _ W E) as [M F].
    split; [exact M|]. apply Forall_set_nth; [exact F | exact C].
Qed.

Lemma WGood_app : forall w nd, WGood w -> DGood (wft w) nd -> WGood (mkW (wdocs w ++ [nd])%list (wft w)).
Proof. intros. unfold WGood; cbn. apply Forall_app. split; [assumption | constructor; [assumption|constructor]]. Qed.

Lemma DGood_main : forall ft b, BGood ft b -> DGood ft (mkD b []).
Proof. intros ft b B. split; [exact B | constructor]. Qed.

Lemma graph_to_prov_DGood : forall ft g nd, graph_to_prov ft g = OK nd -> DGood ft nd.
Proof.
  intros ft g nd H. unfold graph_to_prov in H.
  destruct (add_records None ft (bundle_init None) _) as [b [y|e|]] eqn:EA; try discriminate.
  inversion H; subst. apply DGood_main. exact (add_records_BGood _ _ _ _ _ _ (BInv_init None) (BGood_init ft None) EA).
Qed.

Lemma DGood_attach : forall ft dd q m b, DGood ft dd -> BGood ft b ->
  DGood ft (mkD (dmain dd) (dbundles dd ++ [(qn_uri q, mkB (Some q) m (brecs b) (bidmap b))])%list).
Proof.
  intros ft dd q m b [M B] G. split; [exact M|]. cbn. apply Forall_app. split; [exact B|].
  constructor; [exact G | constructor].
Qed.

Lemma BGood_upd : forall ft b i m r, BGood ft b -> GoodR ft r -> BGood ft (upd_rec b i m r).
Proof. intros ft b i m r B G. unfold BGood, upd_rec. cbn [brecs]. apply Forall_set_nth; assumption. Qed.

Lemma BGood_with_ns : forall ft b m, BGood ft b -> BGood ft (with_ns b m).
Proof. intros ft b m B. exact B. Qed.

Lemma BGood_nth : forall ft b i r, BGood ft b -> nth_error (brecs b) i = Some r -> GoodR ft r.
Proof. intros ft b i r B H. unfold BGood in B. rewrite Forall_forall in B. apply B. eapply nth_error_In; eauto. Qed.

Lemma ensure_datetime_time : forall m a m' v, ensure_datetime m a = Done m' (Some v) -> is_time v.
Proof.
  intros m a m' v H. destruct a; cbn [ensure_datetime] in H; try discriminate.
  - destruct (parse_datetime s); try discriminate. inversion H; subst. exact Logic.I.
  - inversion H; subst. exact Logic.I.
Qed.

Lemma time_attr_good : forall ft l v, In l ["startTime"; "endTime"] -> is_time v -> good_value ft (prov_qn l) v.
Proof.
  intros ft l v Hl T. destruct v; try contradiction. split; [exact Logic.I|].
  destruct Hl as [<-|[<-|[]]]; split; intro X; try exact Logic.I; vm_compute in X; discriminate.
Qed.

Lemma GoodR_set_time : forall ft r l v, GoodR ft r -> In l ["startTime"; "endTime"] -> is_time v ->
  GoodD ft (attr_put (prov_qn l) [v] (rattrs r)).
Proof.
  intros ft r l v G Hl T. apply GoodD_put; [exact G|]. constructor; [apply time_attr_good; assumption | constructor].
Qed.

Lemma add_attributes_good_done' : forall par ft m r l m' r', InvU m -> GoodR ft r ->
  add_attributes (mkCtx par ft) m r l = ADone m' r' -> GoodR ft r'.
Proof. intros par ft m r l m' r' I G H. exact (add_attributes_good_done (mkCtx par ft) m r l m' r' I G H). Qed.

Lemma add_attributes_good_fail' : forall par ft m r l m' r' e, InvU m -> GoodR ft r ->
  add_attributes (mkCtx par ft) m r l = AFail m' r' e -> GoodR ft r'.
Proof. intros par ft m r l m' r' e I G H. exact (add_attributes_good_fail (mkCtx par ft) m r l m' r' e I G H). Qed.

Lemma GoodD_set_time : forall ft d l v, GoodD ft d -> In l ["startTime"; "endTime"] -> is_time v ->
  GoodD ft (attr_put (prov_qn l) [v] d).
Proof.
  intros ft d l v G Hl T. apply GoodD_put; [exact G|]. constructor; [apply time_attr_good; assumption | constructor].
Qed.

Lemma wft_set_cont : forall w c b, wft (set_cont w c b) = wft w.
Proof.
  intros w c b. unfold set_cont. destruct c as [d|d i]; destruct (get_doc w d) as [dd|]; try reflexivity.
  destruct (nth_error (dbundles dd) i) as [[k x]|]; reflexivity.
Qed.

Ltac good_dict :=
  first
    [ assumption
    | match goal with
      | |- GoodD ?ft0 (rattrs ?r) => change (GoodR ft0 r); good_r
      | |- GoodD _ (attr_put (prov_qn "startTime") [?v] _) =>
          apply GoodD_set_time; [ good_dict | left; reflexivity | eapply ensure_datetime_time; eassumption ]
      | |- GoodD _ (attr_put (prov_qn "endTime") [?v] _) =>
          apply GoodD_set_time; [ good_dict | right; left; reflexivity | eapply ensure_datetime_time; eassumption ]
      end ]
with good_r :=
  first
    [ assumption
    | eapply add_attributes_good_done'; [ | | eassumption ]; [ inv_m | good_r ]
    | eapply add_attributes_good_fail'; [ | | eassumption ]; [ inv_m | good_r ]
    | eapply BGood_nth; [ | eassumption ]; good_b
    | eapply WGood_get_rec; [ | eassumption ]; assumption
    | (unfold GoodR; cbn [rattrs]; good_dict) ]
with good_b :=
  first
    [ assumption
    | apply BGood_init
    | apply BGood_with_ns; good_b
    | apply BGood_upd; [ good_b | good_r ]
    | eapply new_record_BGood; [ | | eassumption ]; [ inv_b | good_b ]
    | eapply factory_call_BGood; [ | | eassumption ]; [ inv_b | good_b ]
    | eapply add_record_BGood; [ | | eassumption ]; [ inv_b | good_b ]
    | eapply add_records_BGood; [ | | eassumption ]; [ inv_b | good_b ]
    | eapply WGood_get_cont; [ | eassumption ]; assumption
    | (unfold BGood; cbn [brecs]; constructor) ].

Ltac good_w :=
  rewrite ?wft_set_cont;
  match goal with
  | |- WGood (set_cont _ _ _) => apply WGood_set_cont; [ good_w | rewrite ?wft_set_cont; good_b ]
  | |- WGood (set_doc _ _ _) => apply WGood_set_doc; [ good_w | rewrite ?wft_set_cont; good_d ]
  | |- WGood (mkW (wdocs ?w ++ [_])%list (wft ?w)) => apply WGood_app; [ good_w | good_d ]
  | |- WGood _ => assumption
  end
with good_d :=
  first
    [ assumption
    | apply DGood_init
    | apply DGood_main; good_b
    | eapply doc_new_bundle_DGood; [ | eassumption ]; good_d
    | eapply merge_bundles_DGood; [ | | eassumption ]; [ inv_d | good_d ]
    | eapply doc_unified_DGood; eassumption
    | eapply graph_to_prov_DGood; eassumption
    | eapply decode_doc_DGood; eassumption
    | apply DGood_attach; [ good_d | good_b ]
    | (rewrite <- (wft_set_cont _ _ _); eapply WGood_get_doc; [ | eassumption ]; good_w)
    | eapply WGood_get_doc; [ | eassumption ]; good_w ].

Ltac good_step :=
  repeat (match goal with
          | |- context [match ?x with _ => _ end] => destruct x eqn:?
          | |- context [if ?x then _ else _] => destruct x eqn:?
          end; cbn [fst snd]);
  try good_w.

Theorem step_WGood : forall w o, WInv w -> WGood w -> WGood (fst (step w o)).
Proof.
  intros w o WI W.
  destruct o as [ |c p u|c u|c x|t x|c k i attrs|c f i args other|[c i] attrs|[c i] s e|[c i] v
                 |c r|c o|t src x order|t|t|c|c x|c cls|a b|a b|t|jt|t|t|t| ];
    cbn [step]; unfold with_cont; cbn [fst snd].
  all: good_step.
  assert (IB : BInv b) by (eapply WInv_get_cont; eassumption).
  assert (GB : BGood (wft w) b) by (eapply WGood_get_cont; eassumption).
  assert (IB1 : BInv b1) by exact (add_records_BInv _ _ _ _ _ _ IB Heqp).
  assert (GB1 : BGood (wft w) b1) by exact (add_records_BGood _ _ _ _ _ _ IB GB Heqp).
  assert (W1 : WGood (set_cont w (CDoc d) b1)) by (apply WGood_set_cont; assumption).
  assert (WI1 : WInv (set_cont w (CDoc d) b1)) by (apply WInv_set_cont; assumption).
  apply WGood_set_doc; [exact W1|]. rewrite wft_set_cont.
  pose proof (WGood_get_doc _ _ _ W1 Heqo2) as G1. rewrite wft_set_cont in G1.
  exact (merge_bundles_DGood _ _ _ _ _ (WInv_get_doc _ _ _ WI1 Heqo2) G1 Heqp0).
Qed.

(* both invariants together, in every reachable world *)
Theorem reachable_WGood : forall ft ops, WInv (wrun ft ops) /\ WGood (wrun ft ops).
Proof.
  intros ft ops. unfold wrun.
  assert (G : forall w, WInv w /\ WGood w ->
                        WInv (fold_left (fun w o => fst (step w o)) ops w) /\ WGood (fold_left (fun w o => fst (step w o)) ops w)).
  { induction ops as [|o ops IH]; intros w W; [exact W|]. cbn [fold_left]. apply IH. destruct W as [WI WG].
    split; [apply step_WInv; exact WI | apply step_WGood; assumption]. }
  apply G. split; constructor.
Qed.

(* every record of every reachable world is in the stored form the conservation theorems ask for *)
Corollary reachable_record_good : forall ft ops r p,
  get_rec (wrun ft ops) r = Some p -> good_rec (wft (wrun ft ops)) p.
Proof.
  intros ft ops r p H. apply GoodR_good_rec. exact (WGood_get_rec _ _ _ (proj2 (reachable_WGood ft ops)) H).
Qed.


(* ---- the conservation theorems without hypotheses, for reachable worlds *)
From Prov Require Import UnifyProofs.
Lemma GoodR_record_pairs : forall ft r, GoodR ft r -> forall p, In p (record_pairs r) -> good_pair ft p.
Proof.
  intros ft r G p H. unfold record_pairs in H. apply in_app_or in H. destruct H as [H|H].
  - unfold formal_pairs in H. apply in_flat_map in H. destruct H as [l [_ H]].
    destruct (attr_get (prov_qn l) (rattrs r)) as [|v vs] eqn:E; cbn [hd_opt] in H; [contradiction|].
    destruct H as [<-|[]]. apply (GoodD_get ft (rattrs r) (prov_qn l) v G). rewrite E. left; reflexivity.
  - unfold extra_pairs in H. apply in_flat_map in H. destruct H as [[k vs] [Hk H]]. cbn [fst snd] in H.
    destruct (is_formal_of (rkind r) k); [contradiction|]. apply in_map_iff in H. destruct H as [v [<- Hv]].
    unfold GoodR, GoodD in G. rewrite Forall_forall in G. specialize (G (k, vs) Hk). cbn [fst snd] in G.
    rewrite Forall_forall in G. exact (G v Hv).
Qed.

Theorem reachable_flattened_images : forall ft ops d dd h,
  let w := wrun ft ops in
  get_doc w d = Some dd -> dbundles dd <> [] ->
  snd (step w (OFlattened d)) = RHandle h ->
  exists nd, get_doc (fst (step w (OFlattened d))) h = Some nd /\ dbundles nd = [] /\
    Forall2 (image_of (wft w))
            (brecs (dmain dd) ++ flat_map (fun kb => brecs (snd kb)) (dbundles dd))%list
            (brecs (dmain nd)).
Proof.
  intros ft ops d dd h w G NE H. apply (flattened_images w d dd h G NE); [|exact H].
  destruct (reachable_WGood ft ops) as [_ WG]. fold w in WG.
  destruct (WGood_get_doc w d dd WG G) as [M B].
  intros r0 Hr. apply GoodR_record_pairs. apply in_app_or in Hr. destruct Hr as [Hr|Hr].
  - unfold BGood in M. rewrite Forall_forall in M. exact (M r0 Hr).
  - apply in_flat_map in Hr. destruct Hr as [[k b] [Hb Hr]]. rewrite Forall_forall in B.
    specialize (B (k, b) Hb). cbn [snd] in *. unfold BGood in B. rewrite Forall_forall in B. exact (B r0 Hr).
Qed.

Theorem reachable_unified_attributes : forall ft ops c b u,
  let w := wrun ft ops in
  get_cont w c = Some b -> unified_records (wft w) b = OK u ->
  Forall2 (fun r o => o = r \/ merged_of r (tl (filter (same_group r) (brecs b))) o) (fst (first_fold (brecs b))) u.
Proof.
  intros ft ops c b u w G H. apply (unified_attributes (wft w) b u); [|exact H].
  destruct (reachable_WGood ft ops) as [_ WG]. fold w in WG.
  pose proof (WGood_get_cont w c b WG G) as B. unfold BGood in B. rewrite Forall_forall in B.
  intros r Hr. apply GoodR_good_rec. exact (B r Hr).
Qed.
