(* Rdfq.v — the quad-level structure of prov/serializers/provrdf.py for relation records:
   which triples encode_container emits for one relation (binary triple, qualified node,
   what is written on the node) and how decode_container rebuilds relations from a graph
   (typed nodes, the link from the subject, the fold of binary association / delegation
   triples into a qualified node that names no agent — as repaired).  Values are abstract
   objects (URI references or literal tokens); literal mapping is rdflib's.  Kind lists and
   the predicate cascade come from the generated tables (Rdf.v). *)
From Coq Require Import String Ascii List Bool Arith.
From Prov Require Import Str Tables Rdf.
Import ListNotations.
Open Scope string_scope.

Inductive node : Type := NU (u : string) | NB (n : nat).
Inductive obj : Type := ON (n : node) | OL (tok : string).
Record triple : Type := T3 { ts : node; tp : string; tobj : obj }.

Definition node_eqb (a b : node) : bool :=
  match a, b with
  | NU x, NU y => String.eqb x y
  | NB x, NB y => Nat.eqb x y
  | _, _ => false
  end.
Definition obj_eqb (a b : obj) : bool :=
  match a, b with
  | ON x, ON y => node_eqb x y
  | OL x, OL y => String.eqb x y
  | _, _ => false
  end.
Definition triple_eqb (a b : triple) : bool :=
  (node_eqb (ts a) (ts b) && String.eqb (tp a) (tp b) && obj_eqb (tobj a) (tobj b))%bool.

(* a relation record: kind, identifier URI, formal argument values by position, extra attributes (URI, value) *)
Record rrec : Type := mkR { rk : string; rid : option string; rf : list (option obj); rx : list (string * obj) }.

Definition formals_of (k : string) : list string :=
  match find (fun e => String.eqb (fst (fst (fst e))) k) rec_classes with
  | Some (_, _, fs, _) => fs
  | None => []
  end.
Definition provn_of (k : string) : string :=
  match lookup k prov_n_map with Some n => n | None => k end.

Definition suppress_set : list string := enc_kinds 0.     (* kinds whose binary triple is not written next to a qualified node *)
Definition no_qualified : list string := enc_kinds 1.     (* [Alternate] *)
Definition derivation_subtypes : list string := ["Revision"; "Quotation"; "PrimarySource"].

Definition is_some {A} (o : option A) : bool := match o with Some _ => true | None => false end.

Fixpoint add_triple (t : triple) (g : list triple) : list triple :=
  match g with
  | [] => [t]
  | x :: r => if triple_eqb x t then g else x :: add_triple t r
  end.
Definition add_all (ts : list triple) (g : list triple) : list triple := fold_left (fun acc t => add_triple t acc) ts g.
Definition remove_triple (t : triple) (g : list triple) : list triple := filter (fun x => negb (triple_eqb x t)) g.

(* ---- writer: one relation record; [fresh] numbers the blank node if one is needed *)
Definition enc_rel (fresh : nat) (r : rrec) (g0 : list triple) : list triple :=
  let k := rk r in
  let fs := formals_of k in
  let nth_val (i : nat) : option obj := nth i (rf r) None in
  let identified := is_some (rid r) in
  let g1 := match rid r with Some u => add_triple (T3 (NU u) rdf_type (ON (NU (P k)))) g0 | None => g0 end in
  let idxs := seq 0 (length fs) in
  let formal_qualifiers :=
    existsb (fun i => (is_some (nth_val i) && (identified || Nat.ltb 1 i))%bool) idxs in
  let has_qualifiers := (negb (Nat.eqb (length (rx r)) 0) || formal_qualifiers)%bool in
  let valid_is_01 :=
    forallb (fun i => Bool.eqb (is_some (nth_val i)) (Nat.ltb i 2)) idxs in
  match nth_val 0 with
  | Some (ON subj) =>
      (* the binary triple *)
      let '(g2, used) :=
        if identified then (g1, [0%nat])
        else match nth_val 1 with
             | Some ov =>
                 if (negb (is_kind k suppress_set) || (valid_is_01 && Nat.eqb (length (rx r)) 0))%bool then
                   (if String.eqb k "Alternate"
                    then match ov with ON o' => add_triple (T3 o' (P (provn_of k)) (ON subj)) g1 | OL _ => g1 end
                    else add_triple (T3 subj (P (provn_of k)) ov) g1, [0%nat; 1%nat])
                 else (g1, [0%nat])
             | None => (g1, [0%nat])
             end in
      if is_kind k no_qualified then g2 else
      if (has_qualifiers || identified)%bool then
        (* the qualified node *)
        let sub := find (fun a => (String.eqb (fst a) (P "type") &&
                                   existsb (fun s => obj_eqb (snd a) (ON (NU (P s)))) derivation_subtypes)%bool) (rx r) in
        let qualifier := match sub with
                         | Some (_, ON (NU u)) => drop (String.length prov_uri) u
                         | _ => k
                         end in
        let nd := match rid r with Some u => NU u | None => NB fresh end in
        let g3 := match rid r, sub with
                  | Some u, Some _ => remove_triple (T3 (NU u) rdf_type (ON (NU (P k)))) g2
                  | _, _ => g2
                  end in
        let g4 := add_triple (T3 subj (P ("qualified" ++ qualifier)) (ON nd)) g3 in
        let g5 := match rid r with
                  | Some _ => g4
                  | None => add_triple (T3 nd rdf_type (ON (NU (P qualifier)))) g4
                  end in
        (* the attributes that are not carried by the binary triple or the link *)
        let formal_ts :=
          flat_map (fun i => if existsb (Nat.eqb i) used then [] else
                             match nth_val i with
                             | Some v => [T3 nd (enc_pred k (P (nth i fs ""))) v]
                             | None => []
                             end) idxs in
        let extra_ts := map (fun a => T3 nd (enc_pred k (fst a)) (snd a)) (rx r) in
        add_all (formal_ts ++ extra_ts)%list g5
      else g2
  | _ => g1
  end.

Fixpoint enc_all (fresh : nat) (rs : list rrec) (g : list triple) : list triple :=
  match rs with
  | [] => g
  | r :: rest => enc_all (S fresh) rest (enc_rel fresh r g)
  end.

(* ---- reader *)
Definition class_of (o : obj) : option (string * string) :=      (* (base kind, class named) *)
  match o with
  | ON (NU u) =>
      if starts_with prov_uri u then
        let c := drop (String.length prov_uri) u in
        match lookup c prov_base_cls with Some b => Some (b, c) | None => None end
      else None
  | _ => None
  end.

Definition is_bnode (n : node) : bool := match n with NB _ => true | NU _ => false end.

(* phase 1: typed nodes and the prov:type attributes kept from rdf:type triples *)
Definition phase1 (g : list triple) : list (node * string) * list (node * (string * obj)) :=
  fold_left (fun acc t =>
    let '(ids, others) := acc in
    if negb (String.eqb (tp t) rdf_type) then acc else
    match class_of (tobj t) with
    | Some (base, c) =>
        let exact := String.eqb base c in
        let isder := existsb (String.eqb c) derivation_subtypes in
        let known := existsb (fun e => node_eqb (fst e) (ts t)) ids in
        if (negb known && (exact || isder || is_bnode (ts t)))%bool then
          ((ids ++ [(ts t, base)])%list,
           if ((is_bnode (ts t) || isder) && negb exact)%bool
           then (others ++ [(ts t, (P "type", tobj t))])%list else others)
        else (ids, (others ++ [(ts t, (P "type", tobj t))])%list)
    | None => (ids, (others ++ [(ts t, (P "type", tobj t))])%list)
    end) g ([], []).

Definition kind_of_pred (p : string) : option string :=
  if starts_with prov_uri p then
    let n := drop (String.length prov_uri) p in
    match lookup n rdf_relation_mapper with
    | Some _ => option_map fst (find (fun e => String.eqb (snd e) n) prov_n_map)
    | None => None
    end
  else None.

Definition set_formal (i : nat) (v : obj) (l : list (option obj)) : list (option obj) :=
  map (fun iv => if Nat.eqb (fst iv) i then Some v else snd iv) (combine (seq 0 (length l)) l).

Fixpoint index_of (s : string) (l : list string) : option nat :=
  match l with
  | [] => None
  | x :: r => if String.eqb x s then Some 0%nat else option_map S (index_of s r)
  end.

(* the qualified node of subject s for kind k that names no agent (the fold target) *)
Definition fold_target (g : list triple) (s : node) (k : string) : option node :=
  let links := filter (fun t => (node_eqb (ts t) s && String.eqb (tp t) (P ("qualified" ++ k)))%bool) g in
  let cands := flat_map (fun t => match tobj t with
                                  | ON n => if existsb (fun x => (node_eqb (ts x) n && String.eqb (tp x) (P "agent"))%bool) g
                                            then [] else [n]
                                  | OL _ => []
                                  end) links in
  last (map Some cands) None.

Record nstate : Type := mkN { n_node : node; n_kind : string; n_formals : list (option obj); n_others : list (string * obj) }.

Definition upd_node (n : node) (f : nstate -> nstate) (l : list nstate) : list nstate :=
  map (fun st => if node_eqb (n_node st) n then f st else st) l.

Definition dec (g : list triple) : list rrec :=
  let '(ids, others0) := phase1 g in
  let init := map (fun e => mkN (fst e) (snd e) (map (fun _ => None) (formals_of (snd e)))
                               (map snd (filter (fun o => node_eqb (fst o) (fst e)) others0))) ids in
  let step (acc : list nstate * list rrec) (t : triple) : list nstate * list rrec :=
    let '(nodes, plains) := acc in
    if String.eqb (tp t) rdf_type then acc else
    let acc1 :=
      match kind_of_pred (tp t) with
      | Some k =>
          if String.eqb k "Alternate" then
            match tobj t with
            | ON o' => (nodes, (plains ++ [mkR k None [Some (ON o'); Some (ON (ts t))] []])%list)
            | OL _ => acc
            end
          else if (String.eqb k "Delegation" || String.eqb k "Association")%bool then
            match fold_target g (ts t) k with
            | Some n => (upd_node n (fun st => mkN (n_node st) (n_kind st)
                                                  (set_formal 1 (tobj t) (set_formal 0 (ON (ts t)) (n_formals st)))
                                                  (n_others st)) nodes, plains)
            | None => (nodes, (plains ++ [mkR k None (Some (ON (ts t)) :: Some (tobj t) :: map (fun _ => None) (tl (tl (formals_of k)))) []])%list)
            end
          else (nodes, (plains ++ [mkR k None (Some (ON (ts t)) :: Some (tobj t) :: map (fun _ => None) (tl (tl (formals_of k)))) []])%list)
      | None =>
          match find (fun st => node_eqb (n_node st) (ts t)) nodes with
          | Some st =>
              let a := dec_pred (n_kind st) (tp t) in
              match (if starts_with prov_uri a then index_of (drop (String.length prov_uri) a) (formals_of (n_kind st)) else None) with
              | Some i => (upd_node (ts t) (fun s' => mkN (n_node s') (n_kind s') (set_formal i (tobj t) (n_formals s')) (n_others s')) nodes, plains)
              | None =>
                  if (contains_str "qualified" (tp t) || contains_str "asInBundle" (tp t))%bool then acc
                  else (upd_node (ts t) (fun s' => mkN (n_node s') (n_kind s') (n_formals s') (n_others s' ++ [(a, tobj t)])%list) nodes, plains)
              end
          | None => acc
          end
      end in
    (* the link from the subject gives the node its first formal argument *)
    match tobj t with
    | ON o' =>
        if (contains_str "qualified" (tp t) && existsb (fun st => node_eqb (n_node st) o') (fst acc1))%bool then
          (upd_node o' (fun s' => mkN (n_node s') (n_kind s') (set_formal 0 (ON (ts t)) (n_formals s')) (n_others s')) (fst acc1), snd acc1)
        else acc1
    | OL _ => acc1
    end in
  let '(nodes, plains) := fold_left step g (init, []) in
  (plains ++ map (fun st => mkR (n_kind st) (match n_node st with NU u => Some u | NB _ => None end)
                                 (n_formals st) (n_others st))
                 (filter (fun st => negb (existsb (String.eqb (n_kind st)) ["Entity"; "Activity"; "Agent"; "Bundle"])) nodes))%list.

(* ---- comparison of relation lists as sets of records with sets of extra attributes *)
Definition opt_obj_eqb (a b : option obj) : bool :=
  match a, b with Some x, Some y => obj_eqb x y | None, None => true | _, _ => false end.
Fixpoint list_eqb {A} (e : A -> A -> bool) (a b : list A) : bool :=
  match a, b with
  | [], [] => true
  | x :: r, y :: s => (e x y && list_eqb e r s)%bool
  | _, _ => false
  end.
Definition attr_eqb (a b : string * obj) : bool := (String.eqb (fst a) (fst b) && obj_eqb (snd a) (snd b))%bool.
Definition subset {A} (e : A -> A -> bool) (a b : list A) : bool := forallb (fun x => existsb (e x) b) a.
Definition rrec_eqb (a b : rrec) : bool :=
  (String.eqb (rk a) (rk b)
   && match rid a, rid b with Some x, Some y => String.eqb x y | None, None => true | _, _ => false end
   && list_eqb opt_obj_eqb (rf a) (rf b)
   && subset attr_eqb (rx a) (rx b) && subset attr_eqb (rx b) (rx a))%bool.
Definition same_relations (a b : list rrec) : bool := (subset rrec_eqb a b && subset rrec_eqb b a)%bool.

Definition roundtrips (rs : list rrec) : bool := same_relations (dec (enc_all 0 rs [])) rs.
