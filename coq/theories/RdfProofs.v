(* RdfProofs.v — C07: the writer's predicate cascade and the reader's inverse mapping
   agree on every attribute that a qualified relation of every kind can carry.  The
   domain (relation kinds x their formal attributes, from the generated class table) is
   finite and is the whole domain, so the proof is a computation. *)
From Coq Require Import String List Bool.
From Prov Require Import Str Tables Rdf.
Import ListNotations.
Open Scope string_scope.

Theorem pred_roundtrip_all :
  forallb (fun ka => forallb (pred_roundtrips (fst ka)) (qualified_attrs (fst ka))) relation_kinds = true.
Proof. vm_compute. reflexivity. Qed.

Corollary pred_roundtrip : forall k fs attr,
  In (k, fs) relation_kinds -> In attr (qualified_attrs k) -> dec_pred k (enc_pred k attr) = attr.
Proof.
  intros k fs attr Hk Ha. pose proof pred_roundtrip_all as H.
  rewrite forallb_forall in H. specialize (H (k, fs) Hk). cbn [fst] in H.
  rewrite forallb_forall in H. specialize (H attr Ha). unfold pred_roundtrips in H.
  apply String.eqb_eq in H. exact H.
Qed.

(* a custom attribute is written under its own URI ... *)
Lemma enc_custom_identity :
  forallb (fun ka => String.eqb (enc_pred (fst ka) "http://example.org/k") "http://example.org/k") relation_kinds = true.
Proof. vm_compute. reflexivity. Qed.

(* the open finding C07-F1 in the model: the reader's substring tests also fire on
   custom attribute names *)
Lemma custom_name_refuted :
  dec_pred "Communication" (enc_pred "Communication" "http://example.org/activityLevel") = P "informant" /\
  dec_pred "Delegation" (enc_pred "Delegation" "http://example.org/agentRole") = P "responsible" /\
  dec_pred "Derivation" (enc_pred "Derivation" "http://example.org/entityCount") = P "usedEntity".
Proof. repeat split; vm_compute; reflexivity. Qed.
