(* XmlLabelProofs.v — choosing a subtype element name takes exactly one pair out of the
   record's attributes — a prov:type whose value names that subtype — and the reader's
   treatment of the element name puts exactly that type back: nothing else is dropped,
   nothing is invented, for every attribute list. *)
From Coq Require Import String Ascii List Bool Arith ZArith.
From Prov Require Import Str StrProofs Sexp Tables Nsm Values XmlLabel.
Import ListNotations.
Open Scope string_scope.

Lemma find_sound : forall (A : Type) (f : A -> bool) l x, find f l = Some x -> In x l /\ f x = true.
Proof. intros A f l x H. apply find_some in H. exact H. Qed.

Lemma subtype_local_spec : forall kind v l, subtype_local kind v = Some l ->
  exists q, v = VQn q /\ qn_uri q = prov_uri ++ l /\ lookup l prov_base_cls = Some kind /\ l <> kind.
Proof.
  intros kind v l H. destruct v as [s|z|r iv g|b|t|u|q|lex dt lg]; try discriminate.
  cbn [subtype_local] in H.
  destruct (find (fun l0 => is_prov_name l0 q) (map fst prov_base_cls)) as [l0|] eqn:F; [|discriminate].
  destruct (lookup l0 prov_base_cls) as [b|] eqn:B; [|discriminate].
  destruct (negb (String.eqb b l0) && String.eqb b kind)%bool eqn:C; [|discriminate].
  inversion H; subst l0. apply andb_true_iff in C. destruct C as [C1 C2].
  apply String.eqb_eq in C2. subst b. apply negb_true_iff in C1. apply String.eqb_neq in C1.
  destruct (find_sound _ _ _ _ F) as [_ E]. unfold is_prov_name in E. apply String.eqb_eq in E.
  exists q. repeat split; [exact E | exact B | intro X; apply C1; symmetry; exact X].
Qed.

(* exactly one pair goes, it is a prov:type naming the subtype, everything else stays in place *)
Theorem derive_label_split : forall kind attrs l r, derive_label kind attrs = Some (l, r) ->
  exists pre k q post,
    attrs = (pre ++ (k, VQn q) :: post)%list /\ r = (pre ++ post)%list /\
    is_prov_name "type" k = true /\ qn_uri q = prov_uri ++ l /\
    lookup l prov_base_cls = Some kind /\ l <> kind.
Proof.
  intros kind attrs. induction attrs as [|[k v] rest IH]; intros l r H; cbn [derive_label] in H; [discriminate|].
  destruct (if is_prov_name "type" k then subtype_local kind v else None) as [l0|] eqn:S.
  - inversion H; subst l0 r. destruct (is_prov_name "type" k) eqn:T; [|discriminate].
    destruct (subtype_local_spec _ _ _ S) as [q [-> [U [B N]]]].
    exists [], k, q, rest. repeat split; assumption.
  - destruct (derive_label kind rest) as [[l1 r1]|] eqn:D; [|discriminate].
    inversion H; subst l1 r. destruct (IH _ _ eq_refl) as [pre [k0 [q [post [E1 [E2 X]]]]]].
    exists ((k, v) :: pre), k0, q, post. split; [rewrite E1; reflexivity|]. split; [rewrite E2; reflexivity | exact X].
Qed.

(* when no prov:type names a subtype, no pair of the list does *)
Theorem derive_label_none : forall kind attrs, derive_label kind attrs = None ->
  forall k v, In (k, v) attrs -> is_prov_name "type" k = true -> subtype_local kind v = None.
Proof.
  intros kind attrs. induction attrs as [|[k0 v0] rest IH]; intros H k v I T; [destruct I|].
  cbn [derive_label] in H.
  destruct (if is_prov_name "type" k0 then subtype_local kind v0 else None) as [l0|] eqn:S; [discriminate|].
  destruct (derive_label kind rest) as [[l1 r1]|] eqn:D; [discriminate|].
  destruct I as [E|I].
  - inversion E; subst. rewrite T in S. exact S.
  - exact (IH eq_refl k v I T).
Qed.

(* ---- the element names and the reader's table are inverse to each other: decided on the
   generated tables, all of them *)
Definition names_roundtrip (l : string) : bool :=
  match full_name l, lookup l prov_base_cls with
  | Some n, Some b =>
      match read_label n with
      | Some (b', sub) =>
          (String.eqb b b' && match sub with
                              | None => String.eqb b l
                              | Some l' => (String.eqb l l' && negb (String.eqb b l))%bool
                              end)%bool
      | None => false
      end
  | _, _ => false
  end.

Lemma all_names_roundtrip : forallb names_roundtrip (map fst prov_base_cls) = true.
Proof. vm_compute. reflexivity. Qed.

Lemma names_roundtrip_in : forall l b, lookup l prov_base_cls = Some b -> names_roundtrip l = true.
Proof.
  intros l b H. apply (proj1 (forallb_forall _ _) all_names_roundtrip).
  exact (lookup_key_in _ _ _ H).
Qed.

(* the element name written for a record of class kind with these attributes is read back as
   that class, plus — exactly when a pair was taken out — the subtype as an asserted type *)
Theorem record_label_read : forall kind attrs n r,
  lookup kind prov_base_cls = Some kind ->
  record_label kind attrs = Some (n, r) ->
  (derive_label kind attrs = None /\ r = attrs /\ read_label n = Some (kind, None)) \/
  (exists l, derive_label kind attrs = Some (l, r) /\ read_label n = Some (kind, Some l)).
Proof.
  intros kind attrs n r K H. unfold record_label in H.
  destruct (derive_label kind attrs) as [[l r0]|] eqn:D.
  - right. exists l. destruct (full_name l) as [n0|] eqn:F; [|discriminate]. cbn in H. inversion H; subst n0 r0.
    split; [reflexivity|].
    destruct (derive_label_split _ _ _ _ D) as [pre [k [q [post [_ [_ [_ [_ [B N]]]]]]]]].
    pose proof (names_roundtrip_in _ _ B) as R. unfold names_roundtrip in R. rewrite F, B in R.
    destruct (read_label n) as [[b' sub]|]; [|discriminate].
    apply andb_true_iff in R. destruct R as [R1 R2]. apply String.eqb_eq in R1. subst b'.
    destruct sub as [l'|].
    + apply andb_true_iff in R2. destruct R2 as [R2 _]. apply String.eqb_eq in R2. subst l'. reflexivity.
    + apply String.eqb_eq in R2. exfalso. apply N. symmetry. exact R2.
  - left. destruct (full_name kind) as [n0|] eqn:F; [|discriminate]. cbn in H. inversion H; subst n0 r.
    split; [reflexivity|]. split; [reflexivity|].
    pose proof (names_roundtrip_in _ _ K) as R. unfold names_roundtrip in R. rewrite F, K in R.
    destruct (read_label n) as [[b' sub]|]; [|discriminate].
    apply andb_true_iff in R. destruct R as [R1 R2]. apply String.eqb_eq in R1. subst b'.
    destruct sub as [l'|]; [|reflexivity].
    apply andb_true_iff in R2. destruct R2 as [_ R2]. rewrite String.eqb_refl in R2. discriminate.
Qed.

(* conservation, stated on the attribute lists: what the writer emits (r) together with what the
   reader adds for the element name is the original list with one prov:type pair moved — same
   attribute URI, same value URI *)
Theorem record_label_conserves : forall kind attrs n r,
  lookup kind prov_base_cls = Some kind ->
  record_label kind attrs = Some (n, r) ->
  (r = attrs /\ read_label n = Some (kind, None)) \/
  (exists l pre k q post,
     read_label n = Some (kind, Some l) /\
     attrs = (pre ++ (k, VQn q) :: post)%list /\ r = (pre ++ post)%list /\
     qn_uri k = qn_uri (prov_qn "type") /\ qn_uri q = qn_uri (prov_qn l)).
Proof.
  intros kind attrs n r K H. destruct (record_label_read _ _ _ _ K H) as [[_ [E R]]|[l [D R]]].
  - left. split; assumption.
  - right. destruct (derive_label_split _ _ _ _ D) as [pre [k [q [post [E1 [E2 [T [U _]]]]]]]].
    exists l, pre, k, q, post. repeat split; try assumption.
    unfold is_prov_name in T. apply String.eqb_eq in T. exact T.
Qed.

(* every record class has an element name (record_label is total on the classes of the table) *)
Lemma record_label_total : forall kind attrs, lookup kind prov_base_cls = Some kind ->
  record_label kind attrs <> None.
Proof.
  intros kind attrs K. unfold record_label.
  destruct (derive_label kind attrs) as [[l r]|] eqn:D.
  - destruct (derive_label_split _ _ _ _ D) as [pre [k [q [post [_ [_ [_ [_ [B _]]]]]]]]].
    pose proof (names_roundtrip_in _ _ B) as R. unfold names_roundtrip in R.
    destruct (full_name l); [discriminate | discriminate].
  - pose proof (names_roundtrip_in _ _ K) as R. unfold names_roundtrip in R.
    destruct (full_name kind); [discriminate | discriminate].
Qed.

(* non-vacuity: an agent typed prov:Person (under another prefix) and, with the same URI, as a plain
   URI value: the qualified name goes, the URI value stays, whichever comes first *)
Definition foaf_person : value := VQn (mkQn (mkNs "p2" prov_uri) "Person").
Definition uri_person : value := VId (prov_uri ++ "Person").
Example label_person_1 :
  record_label "Agent" [(prov_qn "type", uri_person); (prov_qn "type", foaf_person)]
  = Some ("person", [(prov_qn "type", uri_person)]).
Proof. vm_compute. reflexivity. Qed.
Example label_person_2 :
  record_label "Agent" [(prov_qn "type", foaf_person); (prov_qn "type", uri_person)]
  = Some ("person", [(prov_qn "type", uri_person)]).
Proof. vm_compute. reflexivity. Qed.
Example label_plain : record_label "Agent" [(prov_qn "type", VStr "prov:Person")] = Some ("agent", [(prov_qn "type", VStr "prov:Person")]).
Proof. vm_compute. reflexivity. Qed.
Example label_wrong_class : record_label "Entity" [(prov_qn "type", VQn (prov_qn "Person"))]
  = Some ("entity", [(prov_qn "type", VQn (prov_qn "Person"))]).
Proof. vm_compute. reflexivity. Qed.
