(* IODispatchProofs.v — all destination kinds and all source kinds hand the parser the same payload. *)
From Coq Require Import String List Bool.
From Prov Require Import Str Tables IO IODispatch.
Import ListNotations.

Section Proofs.
  Variable text bytes : Type.
  Variable enc : text -> bytes.
  Variable dec ldec : bytes -> option text.
  Hypothesis dec_enc : forall t, dec (enc t) = Some t.       (* the UTF-8 codec round trip of the runtime *)
  Hypothesis ldec_enc : forall t, ldec (enc t) = Some t.     (* the locale's encoding is UTF-8 (open(path) in text mode) *)

  Notation artefact := (artefact text bytes enc dec).
  Notation to_source := (to_source text bytes enc dec).
  Notation deserialize_input := (deserialize_input text bytes enc dec ldec).
  Notation carries := (carries text bytes enc).

  (* what is written is the payload: as text for a returned string and a text stream, as its UTF-8 bytes for a binary
     stream and a file — the same for the four formats *)
  Theorem artefact_is_payload : forall f d p,
    artefact f d p = Some (match d with DString | DTextStream => DText text bytes p | DBinaryStream | DPath => DBytes text bytes (enc p) end).
  Proof. intros f d p. destruct f, d; unfold IODispatch.artefact, ser_write, dest_kind; rewrite ?dec_enc; reflexivity. Qed.

  (* any destination kind, any source kind: the parser of the format is handed the payload *)
  Theorem same_parser_input : forall f d s p, f <> FProvn ->
    exists a c x, artefact f d p = Some a /\ to_source s a = Some c /\ deserialize_input f c = Some x /\ carries x p.
  Proof.
    intros f d s p NP.
    destruct f; [| | |contradiction NP; reflexivity]; destruct d, s;
      (eexists; eexists; eexists; rewrite artefact_is_payload;
       split; [reflexivity|];
       split; [cbn; rewrite ?dec_enc; reflexivity|];
       split; [unfold IODispatch.deserialize_input, open_source; rewrite ?dec_enc, ?ldec_enc; cbn; rewrite ?dec_enc; reflexivity|];
       reflexivity).
  Qed.

  (* more precisely, per format: PROV-JSON's parser always gets the text, PROV-XML's always the UTF-8 bytes *)
  Theorem json_parser_gets_text : forall d s p a c, artefact FJson d p = Some a -> to_source s a = Some c ->
    deserialize_input FJson c = Some (PText text bytes p).
  Proof.
    intros d s p a c A C. rewrite artefact_is_payload in A. injection A as <-.
    destruct d, s; cbn in C; rewrite ?dec_enc in C; injection C as <-;
      unfold IODispatch.deserialize_input, open_source; rewrite ?dec_enc, ?ldec_enc; cbn; rewrite ?dec_enc; reflexivity.
  Qed.

  Theorem xml_parser_gets_bytes : forall d s p a c, artefact FXml d p = Some a -> to_source s a = Some c ->
    deserialize_input FXml c = Some (PBytes text bytes (enc p)).
  Proof.
    intros d s p a c A C. rewrite artefact_is_payload in A. injection A as <-.
    destruct d, s; cbn in C; rewrite ?dec_enc in C; injection C as <-;
      unfold IODispatch.deserialize_input, open_source; rewrite ?dec_enc, ?ldec_enc; cbn; rewrite ?dec_enc; reflexivity.
  Qed.

  (* ---- prov.read without a format *)
  Variable fmt_of : text -> fmt.
  Notation parser_accepts := (parser_accepts text bytes dec fmt_of).
  Notation read_detect := (read_detect text bytes enc dec ldec fmt_of).

  Lemma accepts_iff : forall g x p, carries x p -> parser_accepts g x = fmt_eqb g (fmt_of p).
  Proof. intros g [t|b] p C; cbn in C; subst; cbn; rewrite ?dec_enc; reflexivity. Qed.

  (* prov.read on a stream or a file holding a serialisation p in a readable format: the serializers of the registry (in
     the order generated from /repo) are tried, the one whose format p is in accepts, and it is handed p *)
  Theorem read_detects : forall f d s p, fmt_of p = f -> f <> FProvn ->
    In s [STextStream; SBinaryStream; SPath] ->
    exists a c x, artefact f d p = Some a /\ to_source s a = Some c /\
                  read_detect serializer_order c = Some (f, x) /\ carries x p.
  Proof.
    intros f d s p F NP I.
    cbn [In] in I.
    destruct f; [| | |contradiction NP; reflexivity]; destruct d; destruct I as [<-|[<-|[<-|[]]]];
      (eexists; eexists; eexists; rewrite artefact_is_payload;
       split; [reflexivity|];
       split; [cbn; rewrite ?dec_enc; reflexivity|];
       split; [unfold IODispatch.read_detect, read_content; cbn;
               unfold IODispatch.deserialize_input, open_source;
               repeat (rewrite ?dec_enc, ?ldec_enc; cbn; rewrite ?F; cbn); reflexivity|];
       reflexivity).
  Qed.
End Proofs.
