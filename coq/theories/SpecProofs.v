(* SpecProofs.v — writer model composed with the independent specification readers, at
   value level: what JsonSpec.read_literal / XmlSpec.read_value recover from what the
   model of the library's writers (Json.encode_value, Xml.xml_emit) emits is the strict
   content of the value.  This is the end-to-end statement of C10 for attribute values;
   the container level is run (extracted readers on the implementation's real output). *)
From Coq Require Import String Ascii List Bool Arith ZArith Lia.
From Prov Require Import Str StrProofs Sexp Tables Nsm NsmProofs Values Record RecordProofs Jtree Json JsonProofs
  Xml XmlProofs Spec JsonSpec XmlSpec IsoDigits IsoProofs TimeProofs.
Import ListNotations.
Open Scope string_scope.

(* the strict content of a value (harness/content.py: content_value) *)
Definition content_time (tm : dtime) : sexp :=
  L [A "time"; A (iso_print (mkDt (dy tm) (dmo tm) (dd tm) (dh tm) (dmi tm) (dsec tm) (dus tm) None));
     sx_opt sx_Z (dtz tm)].

Definition content_value (v : value) : sexp :=
  match v with
  | VStr s => L [A "str"; A s]
  | VInt z => L [A "int"; sx_Z z]
  | VFloat r _ _ => L [A "float"; A r]
  | VBool b => L [A "bool"; A (if b then "true" else "false")]
  | VTime t => content_time t
  | VQn q => L [A "qn"; A (qn_uri q)]
  | VId u => L [A "id"; A u]
  | VLit l d g => L [A "lit"; A l; match d with Some q => A (qn_uri q) | None => A "none" end;
                     match g with Some x => L [A "some"; A x] | None => A "none" end]
  end.

(* a prefix table that binds what the document's namespace manager binds *)
Definition Std (t : JsonSpec.ptable) : Prop :=
  lookup "xsd" t = Some spec_xsd_uri /\ lookup "prov" t = Some spec_prov_uri.

Lemma spec_uris : spec_xsd_uri = xsd_uri /\ spec_prov_uri = prov_uri.
Proof. split; reflexivity. Qed.

(* ------------------------------------------------------------------ PROV-JSON *)
Theorem spec_json_str : forall ft t s, JsonSpec.read_literal ft t (encode_value (VStr s)) = Some (content_value (VStr s)).
Proof. reflexivity. Qed.

Theorem spec_json_bool : forall ft t b, JsonSpec.read_literal ft t (encode_value (VBool b)) = Some (content_value (VBool b)).
Proof. reflexivity. Qed.

Lemma spec_resolve_pref : forall t p l u, contains_char colon p = false -> lookup p t = Some u ->
  JsonSpec.spec_resolve t (p ++ String colon l) = Some (u ++ l).
Proof. intros t p l u C H. unfold JsonSpec.spec_resolve. rewrite (split_colon_app p l C), H. reflexivity. Qed.

Ltac json_typed t Hx l :=
  unfold JsonSpec.read_literal; cbn [lookup String.eqb Ascii.eqb Bool.eqb JsonSpec.lex_of];
  change (JsonSpec.spec_resolve t ("xsd:" ++ l)) with (JsonSpec.spec_resolve t ("xsd" ++ String colon l));
  rewrite (spec_resolve_pref t "xsd" l _ eq_refl Hx);
  cbn [String.eqb Ascii.eqb Bool.eqb append spec_xsd_uri spec_prov_uri orb].

Theorem spec_json_int : forall ft t z, Std t ->
  JsonSpec.read_literal ft t (encode_value (VInt z)) = Some (content_value (VInt z)).
Proof.
  intros ft t z [Hx _]. unfold encode_value. rewrite json_int_type.
  change "xsd:int" with ("xsd:" ++ "int"). json_typed t Hx "int".
  rewrite parse_int_str_of_Z. reflexivity.
Qed.

Theorem spec_json_float : forall ft t r iv g, Std t -> lookup r ft = Some (Some (r, iv, g)) ->
  JsonSpec.read_literal ft t (encode_value (VFloat r iv g)) = Some (content_value (VFloat r iv g)).
Proof.
  intros ft t r iv g [Hx _] F. unfold encode_value. rewrite json_float_type.
  change "xsd:double" with ("xsd:" ++ "double"). json_typed t Hx "double".
  unfold parse_float. rewrite F. reflexivity.
Qed.

Theorem spec_json_time : forall ft t tm, Std t -> valid_dt tm = true ->
  JsonSpec.read_literal ft t (encode_value (VTime tm)) = Some (content_value (VTime tm)).
Proof.
  intros ft t tm [Hx _] V. unfold encode_value.
  change "xsd:dateTime" with ("xsd:" ++ "dateTime"). json_typed t Hx "dateTime".
  rewrite (iso_roundtrip tm V). reflexivity.
Qed.

Theorem spec_json_id : forall ft t u, Std t ->
  JsonSpec.read_literal ft t (encode_value (VId u)) = Some (content_value (VId u)).
Proof.
  intros ft t u [Hx _]. unfold encode_value.
  change "xsd:anyURI" with ("xsd:" ++ "anyURI"). json_typed t Hx "anyURI". reflexivity.
Qed.

(* a qualified name whose prefix the table binds to its namespace *)
Theorem spec_json_qn : forall ft t q, Std t ->
  ns_prefix (qn_ns q) <> "" -> contains_char colon (ns_prefix (qn_ns q)) = false ->
  lookup (ns_prefix (qn_ns q)) t = Some (ns_uri (qn_ns q)) ->
  JsonSpec.read_literal ft t (encode_value (VQn q)) = Some (content_value (VQn q)).
Proof.
  intros ft t q [_ Hp] NE C B. unfold encode_value.
  unfold JsonSpec.read_literal; cbn [lookup String.eqb Ascii.eqb Bool.eqb JsonSpec.lex_of].
  change (JsonSpec.spec_resolve t "prov:QUALIFIED_NAME") with (JsonSpec.spec_resolve t ("prov" ++ String colon "QUALIFIED_NAME")).
  rewrite (spec_resolve_pref t "prov" "QUALIFIED_NAME" _ eq_refl Hp).
  cbn [String.eqb Ascii.eqb Bool.eqb append spec_xsd_uri spec_prov_uri orb].
  assert (E : qn_str q = ns_prefix (qn_ns q) ++ String colon (qn_local q)).
  { unfold qn_str. destruct (ns_prefix (qn_ns q)); [contradiction | reflexivity]. }
  rewrite E, (spec_resolve_pref t _ _ _ C B). reflexivity.
Qed.

(* a language-tagged string *)
Theorem spec_json_lang : forall ft t lex c l,
  JsonSpec.read_literal ft t (encode_value (VLit lex (Some (prov_qn "InternationalizedString")) (Some (String c l))))
  = Some (content_value (VLit lex (Some (prov_qn "InternationalizedString")) (Some (String c l)))).
Proof. reflexivity. Qed.

(* a literal of a foreign datatype whose prefix the table binds *)
Theorem spec_json_foreign : forall ft t lex d, Std t ->
  ns_prefix (qn_ns d) <> "" -> contains_char colon (ns_prefix (qn_ns d)) = false ->
  lookup (ns_prefix (qn_ns d)) t = Some (ns_uri (qn_ns d)) ->
  starts_with spec_xsd_uri (qn_uri d) = false -> starts_with spec_prov_uri (qn_uri d) = false ->
  JsonSpec.read_literal ft t (encode_value (VLit lex (Some d) None)) = Some (content_value (VLit lex (Some d) None)).
Proof.
  intros ft t lex d _ NE C B NX NP. unfold encode_value, opt_qn_str.
  unfold JsonSpec.read_literal; cbn [lookup String.eqb Ascii.eqb Bool.eqb JsonSpec.lex_of].
  assert (E : qn_str d = ns_prefix (qn_ns d) ++ String colon (qn_local d)).
  { unfold qn_str. destruct (ns_prefix (qn_ns d)); [contradiction | reflexivity]. }
  rewrite E, (spec_resolve_pref t _ _ _ C B). fold (qn_uri d).
  assert (X : forall l, String.eqb (qn_uri d) (spec_xsd_uri ++ l) = false).
  { intros l. apply String.eqb_neq. intro H. rewrite H, starts_with_app in NX. discriminate. }
  assert (P : forall l, String.eqb (qn_uri d) (spec_prov_uri ++ l) = false).
  { intros l. apply String.eqb_neq. intro H. rewrite H, starts_with_app in NP. discriminate. }
  rewrite !X, !P. reflexivity.
Qed.

(* ------------------------------------------------------------------ PROV-XML *)
(* how one xout is attached to its child element (subelem.attrib[...] = ..., subelem.text = ...) *)
Definition xout_attrs (x : xout) : list (string * string * string) :=
  ((match x_type x with Some t => [(xsi_ns, "type", t)] | None => [] end) ++
   (match x_lang x with Some l => [(xml_ns, "lang", l)] | None => [] end) ++
   (match x_ref x with Some r => [(spec_prov_uri, "ref", r)] | None => [] end))%list.
Definition xout_text (x : xout) : string := match x_text x with Some t => t | None => "" end.

Definition spec_xml_value (ft : ftable) (scope : list (string * string)) (fl : bool) (a : qname) (v : value) : option sexp :=
  XmlSpec.read_value ft scope (xout_attrs (xml_emit fl a v)) (xout_text (xml_emit fl a v)).

(* the writer binds xsd to the XML Schema namespace without the hash *)
Definition XStd (scope : list (string * string)) : Prop := lookup "xsd" scope = Some XmlSpec.xsd_ns.

Lemma resolve_pair_pref : forall scope p l u, contains_char colon p = false -> lookup p scope = Some u ->
  resolve_pair scope (p ++ String colon l) = Some (u, l).
Proof. intros scope p l u C H. unfold resolve_pair. rewrite (split_colon_app p l C), H. reflexivity. Qed.

Ltac xml_typed scope Hx l :=
  unfold XmlSpec.read_value, xattr; cbn [find fst snd String.eqb Ascii.eqb Bool.eqb andb xsi_ns xml_ns spec_prov_uri];
  change (resolve_pair scope ("xsd:" ++ l)) with (resolve_pair scope ("xsd" ++ String colon l));
  rewrite (resolve_pair_pref scope "xsd" l _ eq_refl Hx);
  cbn [String.eqb Ascii.eqb Bool.eqb XmlSpec.xsd_ns negb orb].

Theorem spec_xml_str : forall ft scope fl a s, XStd scope ->
  is_qname_attr a = false ->
  spec_xml_value ft scope fl a (VStr s) = Some (content_value (VStr s)).
Proof.
  intros ft scope fl a s Hx Q. unfold spec_xml_value, xml_emit. norm_always. cbn [prov_str]. cbn [value_str]. rewrite Q. cbn [andb negb].
  match goal with |- context [if ?cnd then (Some "xsd:string", _) else _] => destruct cnd end;
    cbn [xout_attrs xout_text x_text x_type x_lang x_ref app].
  - change "xsd:string" with ("xsd:" ++ "string"). xml_typed scope Hx "string". reflexivity.
  - reflexivity.
Qed.

Lemma int_not_prov : forall z, starts_with "prov:" (str_of_Z z) = false.
Proof.
  intros z. unfold str_of_Z. destruct (Z.to_int z) as [d|d];
    unfold DecimalString.NilZero.string_of_int, DecimalString.NilZero.string_of_uint; destruct d; reflexivity.
Qed.

Ltac always_typed ft a :=
  cond_true ft a.

Theorem spec_xml_int : forall ft scope fl a z, XStd scope -> plain_attr a ->
  spec_xml_value ft scope fl a (VInt z) = Some (content_value (VInt z)).
Proof.
  intros ft scope fl a z Hx [Q [T L]]. unfold spec_xml_value, xml_emit. norm_always. cbn [prov_str]. cbn [value_str].
  rewrite Q, L. cbn [andb negb]. cond_true fl a.
  cbn [xout_attrs xout_text x_text x_type x_lang x_ref app].
  change "xsd:int" with ("xsd:" ++ "int"). xml_typed scope Hx "int".
  rewrite parse_int_str_of_Z. reflexivity.
Qed.

Theorem spec_xml_bool : forall ft scope fl a b, XStd scope -> plain_attr a ->
  spec_xml_value ft scope fl a (VBool b) = Some (content_value (VBool b)).
Proof.
  intros ft scope fl a b Hx [Q [T L]]. unfold spec_xml_value, xml_emit. norm_always. cbn [prov_str]. cbn [value_str].
  rewrite Q, L. cbn [andb negb]. cond_true fl a.
  cbn [xout_attrs xout_text x_text x_type x_lang x_ref app].
  change "xsd:boolean" with ("xsd:" ++ "boolean"). xml_typed scope Hx "boolean".
  destruct b; reflexivity.
Qed.

Theorem spec_xml_float : forall ft scope fl a r iv g, XStd scope -> plain_attr a ->
  lookup r ft = Some (Some (r, iv, g)) ->
  spec_xml_value ft scope fl a (VFloat r iv g) = Some (content_value (VFloat r iv g)).
Proof.
  intros ft scope fl a r iv g Hx [Q [T L]] F. unfold spec_xml_value, xml_emit. norm_always. cbn [prov_str]. cbn [value_str].
  rewrite Q, L. cbn [andb negb]. cond_true fl a.
  cbn [xout_attrs xout_text x_text x_type x_lang x_ref app].
  change "xsd:double" with ("xsd:" ++ "double"). xml_typed scope Hx "double".
  unfold parse_float. rewrite F. reflexivity.
Qed.

Theorem spec_xml_time : forall ft scope fl a tm, XStd scope -> plain_attr a -> valid_dt tm = true ->
  spec_xml_value ft scope fl a (VTime tm) = Some (content_value (VTime tm)).
Proof.
  intros ft scope fl a tm Hx [Q [T L]] V. unfold spec_xml_value, xml_emit. norm_always. cbn [prov_str]. cbn [value_str].
  rewrite Q, L, T. cbn [andb negb]. cond_true fl a.
  cbn [xout_attrs xout_text x_text x_type x_lang x_ref app].
  change "xsd:dateTime" with ("xsd:" ++ "dateTime"). xml_typed scope Hx "dateTime".
  rewrite (iso_roundtrip tm V). reflexivity.
Qed.

Theorem spec_xml_id : forall ft scope fl a u, XStd scope -> plain_attr a ->
  spec_xml_value ft scope fl a (VId u) = Some (content_value (VId u)).
Proof.
  intros ft scope fl a u Hx [Q [T L]]. unfold spec_xml_value, xml_emit. norm_always. cbn [prov_str]. cbn [value_str].
  rewrite Q, L. cbn [andb negb]. cond_true fl a.
  cbn [xout_attrs xout_text x_text x_type x_lang x_ref app].
  change "xsd:anyURI" with ("xsd:" ++ "anyURI"). xml_typed scope Hx "anyURI". reflexivity.
Qed.

(* a qualified-name value on an attribute that is not a reference: xsd:QName, resolved in scope *)
Theorem spec_xml_qn : forall ft scope fl a q, XStd scope -> is_qname_attr a = false ->
  ns_prefix (qn_ns q) <> "" -> contains_char colon (ns_prefix (qn_ns q)) = false ->
  lookup (ns_prefix (qn_ns q)) scope = Some (ns_uri (qn_ns q)) ->
  String.eqb (ns_uri (qn_ns q)) XmlSpec.xsd_ns = false ->
  spec_xml_value ft scope fl a (VQn q) = Some (content_value (VQn q)).
Proof.
  intros ft scope fl a q Hx Q NE C B NX. unfold spec_xml_value, xml_emit. norm_always. cbn [prov_str]. rewrite Q.
  assert (E : qn_str q = ns_prefix (qn_ns q) ++ String colon (qn_local q)).
  { unfold qn_str. destruct (ns_prefix (qn_ns q)); [contradiction | reflexivity]. }
  cbn [andb negb]. rewrite (andb_false_r (fl || false || is_tlv a)). cbn [andb].
  cbn [xout_attrs xout_text x_text x_type x_lang x_ref app].
  change "xsd:QName" with ("xsd:" ++ "QName"). xml_typed scope Hx "QName".
  unfold resolve_uri. rewrite E, (resolve_pair_pref scope _ _ _ C B). cbn [option_map].
  unfold pair_uri. cbn [fst snd]. rewrite NX. reflexivity.
Qed.

(* a language-tagged string (prov:label included) *)
Theorem spec_xml_lang : forall ft scope fl a lex c l, is_qname_attr a = false ->
  spec_xml_value ft scope fl a (VLit lex (Some (prov_qn "InternationalizedString")) (Some (String c l)))
  = Some (content_value (VLit lex (Some (prov_qn "InternationalizedString")) (Some (String c l)))).
Proof.
  intros ft scope fl a lex c l Q. unfold spec_xml_value, xml_emit. norm_always. cbn [prov_str]. rewrite Q.
  replace (intl_string (prov_qn "InternationalizedString")) with true by reflexivity.
  cbn [andb negb].
  match goal with |- context [if ?cnd then _ else (None, lex)] => destruct cnd end;
    cbn [xout_attrs xout_text x_text x_type x_lang x_ref app]; reflexivity.
Qed.

(* ---- formal arguments as child elements: references (prov:ref) and times *)
Definition child_of (scope : list (string * string)) (a : qname) (x : xout) : xnode :=
  XE (ns_uri (qn_ns a)) (qn_local a) (xout_attrs x) scope (xout_text x) [].

Theorem spec_xml_ref : forall ft scope fl l formals q, XStd scope ->
  is_qname_attr (prov_qn l) = true -> existsb (String.eqb l) formals = true ->
  existsb (String.eqb l) spec_time_args = false ->
  ns_prefix (qn_ns q) <> "" -> contains_char colon (ns_prefix (qn_ns q)) = false ->
  lookup (ns_prefix (qn_ns q)) scope = Some (ns_uri (qn_ns q)) ->
  String.eqb (ns_uri (qn_ns q)) XmlSpec.xsd_ns = false ->
  read_child ft formals (child_of scope (prov_qn l) (xml_emit fl (prov_qn l) (VQn q)))
  = Some (L [A (spec_prov_uri ++ l); content_value (VQn q)]).
Proof.
  intros ft scope fl l formals q Hx Q F NT NE C B NX.
  assert (E : qn_str q = ns_prefix (qn_ns q) ++ String colon (qn_local q)).
  { unfold qn_str. destruct (ns_prefix (qn_ns q)); [contradiction | reflexivity]. }
  assert (N : String.eqb (qn_str q) "" = false).
  { rewrite E. destruct (ns_prefix (qn_ns q)); [contradiction | reflexivity]. }
  unfold child_of, xml_emit. norm_always. cbn [prov_str]. rewrite Q, N. cbn [andb negb]. rewrite !andb_false_r. cbn [andb].
  cbn [xout_attrs xout_text x_text x_type x_lang x_ref app read_child prov_qn qn_ns qn_local prov_ns ns_uri].
  change (String.eqb prov_uri spec_prov_uri) with true. cbn [andb]. rewrite F, NT.
  rewrite ?N. cbn [negb xout_attrs x_text x_type x_lang x_ref app].
  unfold xattr. cbn [find fst snd String.eqb Ascii.eqb Bool.eqb andb spec_prov_uri].
  unfold resolve_uri. rewrite E, (resolve_pair_pref scope _ _ _ C B). cbn [option_map].
  unfold pair_uri. cbn [fst snd]. rewrite NX. reflexivity.
Qed.

Theorem spec_xml_formal_time : forall ft scope fl l formals tm,
  is_qname_attr (prov_qn l) = false -> is_time_attr (prov_qn l) = true ->
  existsb (String.eqb l) formals = true -> existsb (String.eqb l) spec_time_args = true ->
  valid_dt tm = true ->
  read_child ft formals (child_of scope (prov_qn l) (xml_emit fl (prov_qn l) (VTime tm)))
  = Some (L [A (spec_prov_uri ++ l); content_value (VTime tm)]).
Proof.
  intros ft scope fl l formals tm Q T F TA V.
  unfold child_of, xml_emit. norm_always. cbn [prov_str]. cbn [value_str]. rewrite Q, T. cbn [andb negb].
  match goal with |- context [if ?cnd then (None, iso_print tm) else (None, iso_print tm)] => destruct cnd end;
    cbn [xout_attrs xout_text x_text x_type x_lang x_ref app read_child prov_qn qn_ns qn_local prov_ns ns_uri];
    change (String.eqb prov_uri spec_prov_uri) with true; cbn [andb]; rewrite F, TA, (iso_roundtrip tm V); reflexivity.
Qed.

Example spec_formals_covered :
  forallb (fun k => forallb (fun l =>
      if existsb (String.eqb l) spec_time_args
      then negb (is_qname_attr (prov_qn l)) && is_time_attr (prov_qn l)
      else is_qname_attr (prov_qn l)) (snd (fst k))) spec_kinds = true.
Proof. vm_compute. reflexivity. Qed.

(* a literal of a foreign datatype (not in the XML Schema namespace) whose prefix the scope binds *)
Theorem spec_xml_foreign : forall ft scope fl a lex d, is_qname_attr a = false ->
  ns_prefix (qn_ns d) <> "" -> contains_char colon (ns_prefix (qn_ns d)) = false ->
  lookup (ns_prefix (qn_ns d)) scope = Some (ns_uri (qn_ns d)) ->
  String.eqb (ns_uri (qn_ns d)) XmlSpec.xsd_ns = false ->
  spec_xml_value ft scope fl a (VLit lex (Some d) None) = Some (content_value (VLit lex (Some d) None)).
Proof.
  intros ft scope fl a lex d Q NE C B NX. unfold spec_xml_value, xml_emit. norm_always. cbn [prov_str]. rewrite Q, (andb_false_r (intl_string d)).
  assert (E : qn_str d = ns_prefix (qn_ns d) ++ String colon (qn_local d)).
  { unfold qn_str. destruct (ns_prefix (qn_ns d)); [contradiction | reflexivity]. }
  cbn [andb negb]. rewrite !andb_false_r. cbn [andb].
  cbn [xout_attrs xout_text x_text x_type x_lang x_ref app].
  unfold XmlSpec.read_value, xattr. cbn [find fst snd String.eqb Ascii.eqb Bool.eqb andb xsi_ns xml_ns spec_prov_uri].
  rewrite E, (resolve_pair_pref scope _ _ _ C B). rewrite NX. cbn [negb].
  unfold pair_uri. cbn [fst snd]. rewrite NX. reflexivity.
Qed.
