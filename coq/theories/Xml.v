(* Xml.v — the value-level logic of prov/serializers/provxml.py: what serialize_bundle
   emits for one attribute value (text, xsi:type, xml:lang, prov:ref — the
   ALWAYS_CHECK / force_types / prov:type-location-value / label-time rules) and what
   _extract_attributes rebuilds from it.  Element tree assembly is not modelled. *)
From Coq Require Import String Ascii List Bool Arith ZArith.
From Prov Require Import Str Sexp Tables Nsm Values Record.
Import ListNotations.
Open Scope string_scope.

Record xout : Type := mkX {
  x_text : option string;
  x_type : option string;     (* xsi:type, as written *)
  x_lang : option string;     (* xml:lang *)
  x_ref : option string       (* prov:ref *)
}.

(* the three inline collections of serialize_bundle come from the generated tables
   (xml_typed_attrs, xml_untyped_attrs, xml_always_check): the model follows the source *)
Definition is_tlv (a : qname) : bool :=          (* attr in [PROV_TYPE, PROV_LOCATION, PROV_VALUE] *)
  existsb (fun l => is_prov_name l a) xml_typed_attrs.
Definition is_time_or_label (a : qname) : bool := (* attr in [PROV_ATTR_TIME, PROV_LABEL] *)
  existsb (fun l => is_prov_name l a) xml_untyped_attrs.
Definition always_of (v : value) : bool :=        (* type(value) in ALWAYS_CHECK *)
  let has n := existsb (String.eqb n) xml_always_check in
  match v with
  | VBool _ => has "bool" | VTime _ => has "datetime" | VFloat _ _ _ => has "float" | VInt _ => has "int"
  | VId _ => has "identifier" | _ => false
  end.

Definition py_bool_str (b : bool) : string := if b then "True" else "False".

(* str(value) *)
Definition value_str (v : value) : string :=
  match v with
  | VStr s => s
  | VInt z => str_of_Z z
  | VFloat r _ _ => r
  | VBool b => py_bool_str b
  | VTime t => iso_print t
  | VId u => u
  | VQn q => qn_str q
  | VLit l _ _ => l
  end.

(* isinstance(value, str) and value.startswith("prov:") — as repaired: strings only *)
Definition prov_str (v : value) : bool := match v with VStr s => starts_with "prov:" s | _ => false end.

Definition intl_string (d : qname) : bool := is_prov_name "InternationalizedString" d.

Definition xml_emit (ft : bool) (a : qname) (v : value) : xout :=
  (* first stage: type / lang from the value itself *)
  let '(ty0, lang, txt0) :=
    match v with
    | VLit lex dt lg =>
        (match dt with
         | Some d => if (intl_string d && match lg with Some _ => true | None => false end)%bool then None
                     else Some (qn_str d)          (* str(value.datatype), as repaired; xml:lang stands for
                                                      prov:InternationalizedString only when there is a tag *)
         | None => None
         end, lg, lex)
    | VQn q => (if is_qname_attr a then None else Some "xsd:QName", None, qn_str q)
    | other => (None, None, value_str other)
    end in
  (* second stage: inferred xsi:type *)
  let always := always_of v in
  let cond := (ft || always || is_tlv a)
              && match ty0 with None => true | Some _ => false end
              && negb (prov_str v)
              && negb (is_qname_attr a && negb (String.eqb txt0 ""))
              && negb (is_time_or_label a) in
  let '(ty1, txt1) :=
    if cond then
      match v with
      | VBool b => (Some "xsd:boolean", lower txt0)
      | VStr _ => (Some "xsd:string", txt0)
      | VFloat _ _ _ => (Some "xsd:double", txt0)
      | VInt _ => (Some "xsd:int", txt0)
      | VTime _ => (if is_time_attr a then None else Some "xsd:dateTime", txt0)   (* attr in PROV_ATTRIBUTE_LITERALS *)
      | VId _ => (Some "xsd:anyURI", txt0)
      | _ => (None, txt0)
      end
    else (ty0, txt0) in
  let ty := match ty1 with Some t => Some t | None => ty0 end in
  if (is_qname_attr a && negb (String.eqb txt1 ""))%bool
  then mkX None ty lang (Some txt1)
  else mkX (Some txt1) ty lang None.

(* _extract_attributes for one child element: attributes are visited in document
   order xsi:type, xml:lang, prov:ref as the writer sets them; a later one overrides *)
Definition xml_name (par : option nsm) (m : nsm) (s : string) : result (option qname) :=
  match resolve par m (NStr s) with
  | OK (_, r) => OK r
  | Raise e => Raise e
  | OutOfDomain => OutOfDomain
  end.

Definition xml_read (par : option nsm) (m : nsm) (x : xout) : result valarg :=
  let text := match x_text x with Some t => t | None => "" end in
  let from_type : result (option valarg) :=
    match x_type x with
    | None => OK None
    | Some ty =>
        match xml_name par m ty with
        | OK (Some dt) =>
            if String.eqb (qn_uri dt) (xsd_uri ++ "QName") then
              match xml_name par m text with
              | OK (Some q) => OK (Some (AQn q))
              | OK None => Raise EXml
              | Raise e => Raise e
              | OutOfDomain => OutOfDomain
              end
            else OK (Some (ALit text (Some dt) None))
        | OK None => Raise EXml
        | Raise e => Raise e
        | OutOfDomain => OutOfDomain
        end
    end in
  match from_type with
  | Raise e => Raise e
  | OutOfDomain => OutOfDomain
  | OK v1 =>
      let v2 := match x_lang x with Some lg => Some (ALit text None (Some lg)) | None => v1 end in
      match x_ref x with
      | Some r =>
          match xml_name par m r with
          | OK (Some q) => OK (AQn q)
          | OK None => Raise EXml
          | Raise e => Raise e
          | OutOfDomain => OutOfDomain
          end
      | None =>
          match v2 with
          | Some v => OK v
          | None => OK (AStr text)
          end
      end
  end.

(* ---- wire format ---- *)
Definition sx_xout (x : xout) : sexp :=
  L [A "xout"; sx_opt (fun s => L [A "some"; A s]) (x_text x); sx_opt (fun s => L [A "some"; A s]) (x_type x);
     sx_opt (fun s => L [A "some"; A s]) (x_lang x); sx_opt (fun s => L [A "some"; A s]) (x_ref x)].
