(* IOLinksProofs.v — the write protocol over files and symbolic links (IOLinks.v). *)
From Coq Require Import String List Bool Arith.
From Prov Require Import Str StrProofs IO IOProofs IOLinks.
Import ListNotations.
Open Scope string_scope.

(* success: whatever entry the destination was — none, a file, a link to a file, a dangling link — the named path now
   reads as the whole serialisation (with any fuel: the entry is a file), the temp entry is gone and every other entry,
   the file a link at the destination led to included, is as before *)
Theorem serialize_links_exact : forall fs name tmp cs path fs' ok,
  dest_path name = Some path -> tmp <> path -> lget fs tmp = None ->
  serialize_to_l fs name tmp cs NoFault = (fs', ok) ->
  ok = true /\ lget fs' path = Some (EFile (cat cs)) /\ (forall fuel, lread fuel fs' path = Some (cat cs)) /\
  (forall p, p <> path -> lget fs' p = lget fs p).
Proof.
  intros fs name tmp cs path fs' ok D NT FT H. unfold serialize_to_l in H. rewrite D in H.
  rewrite write_chunks_all in H. cbn [negb append] in H. inversion H; subst; clear H.
  assert (G : lget (lset path (EFile (cat cs)) (lremove tmp (lset tmp (EFile (cat cs)) fs))) path = Some (EFile (cat cs)))
    by (unfold lget, lset; apply lookup_dset_same).
  split; [reflexivity|]. split; [exact G|]. split.
  - intros fuel. destruct fuel; cbn [lread]; rewrite G; reflexivity.
  - intros p NP. unfold lget, lset, lremove. rewrite lookup_dset_other by congruence.
    destruct (String.eqb p tmp) eqn:E.
    + apply String.eqb_eq in E. subst p. rewrite lookup_filter_eq. symmetry. exact FT.
    + apply String.eqb_neq in E. rewrite lookup_filter_ne by exact E.
      rewrite lookup_dset_other by congruence. reflexivity.
Qed.

(* in particular: a link at the destination is replaced, the file it led to keeps what it held *)
Corollary serialize_links_target_kept : forall fs name tmp cs path q fs' ok,
  dest_path name = Some path -> tmp <> path -> lget fs tmp = None ->
  lget fs path = Some (ELink q) -> q <> path ->
  serialize_to_l fs name tmp cs NoFault = (fs', ok) ->
  lget fs' path = Some (EFile (cat cs)) /\ lget fs' q = lget fs q.
Proof.
  intros fs name tmp cs path q fs' ok D NT FT L NQ H.
  destruct (serialize_links_exact _ _ _ _ _ _ _ D NT FT H) as [_ [G [_ K]]]. split; [exact G | apply K; exact NQ].
Qed.

(* failure at a write call or at the move: every entry but the temp one is as before — the destination, a link at the
   destination and what it leads to included *)
Theorem serialize_links_atomic : forall fs name tmp cs path f fs' ok,
  dest_path name = Some path -> tmp <> path ->
  (f = FaultAtMove \/ exists k, f = FaultAtWrite k /\ k < length cs) ->
  serialize_to_l fs name tmp cs f = (fs', ok) ->
  ok = false /\ (forall p, p <> tmp -> lget fs' p = lget fs p).
Proof.
  intros fs name tmp cs path f fs' ok D NT F H. unfold serialize_to_l in H. rewrite D in H.
  assert (KEEP : forall content p, p <> tmp -> lget (lset tmp (EFile content) fs) p = lget fs p).
  { intros content p N. unfold lget, lset. rewrite lookup_dset_other by congruence. reflexivity. }
  destruct F as [->|[k [-> L]]].
  - rewrite write_chunks_all in H. cbn [negb] in H. inversion H; subst; clear H.
    split; [reflexivity | intros p N; apply KEEP; exact N].
  - pose proof (write_chunks_fault cs "" k L) as W.
    destruct (write_chunks cs "" (Some k)) as [content b]. cbn [snd] in W. subst b. cbn [negb] in H.
    inversion H; subst; clear H.
    split; [reflexivity | intros p N; apply KEEP; exact N].
Qed.

(* ---- across file systems (IOLinks.serialize_to_lx): the text lands where the chain of links at the destination ends *)
Lemma lresolve_not_link : forall fuel fs p r, lresolve fuel fs p = Some r -> forall q, lget fs r <> Some (ELink q).
Proof.
  induction fuel as [|k IH]; intros fs p r H q; cbn [lresolve] in H.
  - destruct (lget fs p) as [[c|t]|] eqn:E; try discriminate; inversion H; subst; rewrite E; discriminate.
  - destruct (lget fs p) as [[c|t]|] eqn:E; try (inversion H; subst; rewrite E; discriminate).
    exact (IH fs t r H q).
Qed.

(* reading the named path in any tree that agrees with the old one off the end of the chain and holds the text there *)
Lemma lread_through : forall fuel fs fs' p r c,
  lresolve fuel fs p = Some r ->
  (forall q t, lget fs q = Some (ELink t) -> q <> r -> lget fs' q = Some (ELink t)) -> lget fs' r = Some (EFile c) ->
  lread fuel fs' p = Some c.
Proof.
  induction fuel as [|k IH]; intros fs fs' p r c H K G.
  - cbn [lresolve] in H. destruct (lget fs p) as [[c0|t]|] eqn:E; try discriminate; inversion H; subst;
      cbn [lread]; rewrite G; reflexivity.
  - cbn [lresolve] in H. destruct (lget fs p) as [[c0|t]|] eqn:E.
    + inversion H; subst. cbn [lread]. rewrite G. reflexivity.
    + assert (NP : p <> r).
      { intros ->. exact (lresolve_not_link _ _ _ _ H t E). }
      cbn [lread]. rewrite (K p t E NP). exact (IH fs fs' t r c H K G).
    + inversion H; subst. cbn [lread]. rewrite G. reflexivity.
Qed.

Theorem serialize_xdev_exact : forall fuel fs name tmp cs path r fs' ok,
  dest_path name = Some path -> lget fs tmp = None ->
  lresolve fuel (lset tmp (EFile (cat cs)) fs) path = Some r -> r <> tmp ->
  serialize_to_lx fuel fs name tmp cs NoFault = (fs', ok) ->
  ok = true /\ lget fs' r = Some (EFile (cat cs)) /\ lread fuel fs' path = Some (cat cs) /\
  (forall p, p <> r -> lget fs' p = lget fs p).
Proof.
  intros fuel fs name tmp cs path r fs' ok D FT R NT H. unfold serialize_to_lx in H. rewrite D in H.
  rewrite write_chunks_all in H. cbn [negb append] in H. rewrite R in H. inversion H; subst; clear H.
  set (fs2 := lset tmp (EFile (cat cs)) fs) in *.
  assert (G : lget (lset r (EFile (cat cs)) (lremove tmp fs2)) r = Some (EFile (cat cs)))
    by (unfold lget, lset; apply lookup_dset_same).
  assert (K2 : forall p, p <> r -> lget (lset r (EFile (cat cs)) (lremove tmp fs2)) p = lget fs p).
  { intros p NP. unfold lget, lset, lremove. rewrite lookup_dset_other by congruence.
    destruct (String.eqb p tmp) eqn:E.
    - apply String.eqb_eq in E. subst p. rewrite lookup_filter_eq. symmetry. exact FT.
    - apply String.eqb_neq in E. rewrite lookup_filter_ne by exact E.
      unfold fs2, lset. rewrite lookup_dset_other by congruence. reflexivity. }
  split; [reflexivity|]. split; [exact G|]. split; [|exact K2].
  apply (lread_through fuel fs2 _ path r (cat cs) R); [|exact G].
  intros q t L NQ. unfold lget, lset, lremove. rewrite lookup_dset_other by congruence.
  destruct (String.eqb q tmp) eqn:E.
  - (* the temp entry is a file, not a link *)
    apply String.eqb_eq in E. subst q. unfold fs2, lget, lset in L. rewrite lookup_dset_same in L. discriminate.
  - apply String.eqb_neq in E. rewrite lookup_filter_ne by exact E. exact L.
Qed.

(* the links at and behind the destination stay links; the file at the end of the chain is the one entry that changes *)
Corollary serialize_xdev_link_kept : forall fuel fs name tmp cs path q r fs' ok,
  dest_path name = Some path -> lget fs tmp = None ->
  lget fs path = Some (ELink q) ->
  lresolve fuel (lset tmp (EFile (cat cs)) fs) path = Some r -> r <> tmp ->
  serialize_to_lx fuel fs name tmp cs NoFault = (fs', ok) ->
  lget fs' path = Some (ELink q) /\ lread fuel fs' path = Some (cat cs).
Proof.
  intros fuel fs name tmp cs path q r fs' ok D FT L R NT H.
  destruct (serialize_xdev_exact _ _ _ _ _ _ _ _ _ D FT R NT H) as [_ [G [RD K]]]. split; [|exact RD].
  destruct (String.eqb path r) eqn:E.
  - apply String.eqb_eq in E. subst r. exfalso.
    assert (PT : path <> tmp) by exact NT.
    assert (L2 : lget (lset tmp (EFile (cat cs)) fs) path = Some (ELink q))
      by (unfold lget, lset; rewrite lookup_dset_other by congruence; exact L).
    exact (lresolve_not_link _ _ _ _ R q L2).
  - apply String.eqb_neq in E. rewrite (K path E). exact L.
Qed.

(* failure at a write call, at the move, or a chain of links that does not end (ELOOP): every entry but the temp one
   is as before *)
Theorem serialize_xdev_atomic : forall fuel fs name tmp cs path f fs' ok,
  dest_path name = Some path ->
  (f = FaultAtMove \/ (exists k, f = FaultAtWrite k /\ k < length cs) \/
   (f = NoFault /\ lresolve fuel (lset tmp (EFile (cat cs)) fs) path = None)) ->
  serialize_to_lx fuel fs name tmp cs f = (fs', ok) ->
  ok = false /\ (forall p, p <> tmp -> lget fs' p = lget fs p).
Proof.
  intros fuel fs name tmp cs path f fs' ok D F H. unfold serialize_to_lx in H. rewrite D in H.
  assert (KEEP : forall content p, p <> tmp -> lget (lset tmp (EFile content) fs) p = lget fs p).
  { intros content p N. unfold lget, lset. rewrite lookup_dset_other by congruence. reflexivity. }
  destruct F as [->|[[k [-> L]]|[-> R]]].
  - rewrite write_chunks_all in H. cbn [negb] in H. inversion H; subst; clear H.
    split; [reflexivity | intros p N; apply KEEP; exact N].
  - pose proof (write_chunks_fault cs "" k L) as W.
    destruct (write_chunks cs "" (Some k)) as [content b]. cbn [snd] in W. subst b. cbn [negb] in H.
    inversion H; subst; clear H.
    split; [reflexivity | intros p N; apply KEEP; exact N].
  - rewrite write_chunks_all in H. cbn [negb append] in H. rewrite R in H. inversion H; subst; clear H.
    split; [reflexivity | intros p N; apply KEEP; exact N].
Qed.

(* the premise of serialize_xdev_exact, stated over the tree before the call: creating the fresh temp entry does not change
   where the destination's chain of links ends, unless it ends at the temp name itself *)
Lemma lresolve_fresh : forall fuel fs tmp e p r,
  lget fs tmp = None -> lresolve fuel fs p = Some r -> r <> tmp -> lresolve fuel (lset tmp e fs) p = Some r.
Proof.
  induction fuel as [|k IH]; intros fs tmp e p r FT H NT; cbn [lresolve] in *.
  - destruct (String.eqb p tmp) eqn:E.
    + apply String.eqb_eq in E. subst p. rewrite FT in H. inversion H; subst. contradiction.
    + apply String.eqb_neq in E. unfold lget, lset. rewrite lookup_dset_other by congruence. exact H.
  - destruct (String.eqb p tmp) eqn:E.
    + apply String.eqb_eq in E. subst p. rewrite FT in H. inversion H; subst. contradiction.
    + apply String.eqb_neq in E. unfold lget at 1, lset. rewrite lookup_dset_other by congruence.
      fold (lget fs p). destruct (lget fs p) as [[c|t]|]; try exact H. exact (IH fs tmp e t r FT H NT).
Qed.

Corollary serialize_xdev_exact_before : forall fuel fs name tmp cs path r fs' ok,
  dest_path name = Some path -> lget fs tmp = None ->
  lresolve fuel fs path = Some r -> r <> tmp ->
  serialize_to_lx fuel fs name tmp cs NoFault = (fs', ok) ->
  ok = true /\ lget fs' r = Some (EFile (cat cs)) /\ lread fuel fs' path = Some (cat cs) /\
  (forall p, p <> r -> lget fs' p = lget fs p).
Proof.
  intros fuel fs name tmp cs path r fs' ok D FT R NT H.
  exact (serialize_xdev_exact _ _ _ _ _ _ _ _ _ D FT (lresolve_fresh _ _ _ _ _ _ FT R NT) NT H).
Qed.
