(* IOLinksProofs.v — the write protocol over files and symbolic links (IOLinks.v). *)
From Coq Require Import String List Bool Arith.
From Prov Require Import Str StrProofs IO IOProofs IOLinks.
Import ListNotations.
Open Scope string_scope.

(* success: whatever entry the destination was — none, a file, a link to a file, a dangling link — the named path now
   reads as the whole serialisation (with any fuel: the entry is a file), the temp entry is gone and every other entry,
   the file a link at the destination led to included, is as before *)
Theorem serialize_links_exact : forall fs name tmp cs path fs' ok,
  dest_path name = Some path -> tmp <> path -> lget fs tmp = None ->
  serialize_to_l fs name tmp cs NoFault = (fs', ok) ->
  ok = true /\ lget fs' path = Some (EFile (cat cs)) /\ (forall fuel, lread fuel fs' path = Some (cat cs)) /\
  (forall p, p <> path -> lget fs' p = lget fs p).
Proof.
  intros fs name tmp cs path fs' ok D NT FT H. unfold serialize_to_l in H. rewrite D in H.
  rewrite write_chunks_all in H. cbn [negb append] in H. inversion H; subst; clear H.
  assert (G : lget (lset path (EFile (cat cs)) (lremove tmp (lset tmp (EFile (cat cs)) fs))) path = Some (EFile (cat cs)))
    by (unfold lget, lset; apply lookup_dset_same).
  split; [reflexivity|]. split; [exact G|]. split.
  - intros fuel. destruct fuel; cbn [lread]; rewrite G; reflexivity.
  - intros p NP. unfold lget, lset, lremove. rewrite lookup_dset_other by congruence.
    destruct (String.eqb p tmp) eqn:E.
    + apply String.eqb_eq in E. subst p. rewrite lookup_filter_eq. symmetry. exact FT.
    + apply String.eqb_neq in E. rewrite lookup_filter_ne by exact E.
      rewrite lookup_dset_other by congruence. reflexivity.
Qed.

(* in particular: a link at the destination is replaced, the file it led to keeps what it held *)
Corollary serialize_links_target_kept : forall fs name tmp cs path q fs' ok,
  dest_path name = Some path -> tmp <> path -> lget fs tmp = None ->
  lget fs path = Some (ELink q) -> q <> path ->
  serialize_to_l fs name tmp cs NoFault = (fs', ok) ->
  lget fs' path = Some (EFile (cat cs)) /\ lget fs' q = lget fs q.
Proof.
  intros fs name tmp cs path q fs' ok D NT FT L NQ H.
  destruct (serialize_links_exact _ _ _ _ _ _ _ D NT FT H) as [_ [G [_ K]]]. split; [exact G | apply K; exact NQ].
Qed.

(* failure at a write call or at the move: every entry but the temp one is as before — the destination, a link at the
   destination and what it leads to included *)
Theorem serialize_links_atomic : forall fs name tmp cs path f fs' ok,
  dest_path name = Some path -> tmp <> path ->
  (f = FaultAtMove \/ exists k, f = FaultAtWrite k /\ k < length cs) ->
  serialize_to_l fs name tmp cs f = (fs', ok) ->
  ok = false /\ (forall p, p <> tmp -> lget fs' p = lget fs p).
Proof.
  intros fs name tmp cs path f fs' ok D NT F H. unfold serialize_to_l in H. rewrite D in H.
  assert (KEEP : forall content p, p <> tmp -> lget (lset tmp (EFile content) fs) p = lget fs p).
  { intros content p N. unfold lget, lset. rewrite lookup_dset_other by congruence. reflexivity. }
  destruct F as [->|[k [-> L]]].
  - rewrite write_chunks_all in H. cbn [negb] in H. inversion H; subst; clear H.
    split; [reflexivity | intros p N; apply KEEP; exact N].
  - pose proof (write_chunks_fault cs "" k L) as W.
    destruct (write_chunks cs "" (Some k)) as [content b]. cbn [snd] in W. subst b. cbn [negb] in H.
    inversion H; subst; clear H.
    split; [reflexivity | intros p N; apply KEEP; exact N].
Qed.
