(* ProvnRecProofs.v — C06 at record level: the line the PROV-N printer writes for a record, cut into
   tokens by the specification's lexer and read by its expression parser, is the record: kind, identifier,
   positional formal arguments (with '-' for the absent ones) and every other attribute value. *)
From Coq Require Import String Ascii List Bool Arith ZArith Lia.
From Prov Require Import Str StrProofs Sexp Tables Nsm NsmProofs Values Record RecordProofs World Spec Provn ProvnSpec
  ProvnProofs IsoDigits IsoProofs SpecProofs ProvnSpecProofs.
Import ListNotations.
Open Scope string_scope.

(* ---- more fuel never hurts the lexer *)
Definition lex1 (rec : string -> option (list tok)) (s : string) : option (list tok) :=
    match s with
    | EmptyString => Some []
    | String c r =>
        let cons t rest := match rec rest with Some l => Some (t :: l) | None => None end in
        if is_ws c then rec r
        else if Ascii.eqb c "("%char then cons TLpar r
        else if Ascii.eqb c ")"%char then cons TRpar r
        else if Ascii.eqb c "["%char then cons TLbr r
        else if Ascii.eqb c "]"%char then cons TRbr r
        else if Ascii.eqb c ","%char then cons TComma r
        else if Ascii.eqb c ";"%char then cons TSemi r
        else if Ascii.eqb c "="%char then cons TEq r
        else if Ascii.eqb c "%"%char then
          match r with String "%"%char r' => cons TPct r' | _ => None end
        else if Ascii.eqb c "@"%char then
          let '(w, rest) := take_while is_word_char r in cons (TLang w) rest
        else if Ascii.eqb c "<"%char then
          match take_until ">"%char r with Some (u, rest) => cons (TIri u) rest | None => None end
        else if Ascii.eqb c "'"%char then
          match take_until "'"%char r with Some (q, rest) => cons (TQn q) rest | None => None end
        else if Ascii.eqb c dqc then
          match r with
          | String c2 (String c3 r3) =>
              if (Ascii.eqb c2 dqc && Ascii.eqb c3 dqc)%bool then
                match long_string r3 with Some (b, rest) => cons (TStr b) rest | None => None end
              else match short_string r with Some (b, rest) => cons (TStr b) rest | None => None end
          | _ => match short_string r with Some (b, rest) => cons (TStr b) rest | None => None end
          end
        else if is_word_char c then
          let '(w, rest) := take_while is_word_char s in cons (TWord w) rest
        else None
    end.

Lemma lex_unfold : forall f s, lex (S f) s = lex1 (lex f) s.
Proof. intros f s. destruct s; reflexivity. Qed.

Lemma lex1_mono : forall (r1 r2 : string -> option (list tok)) s l,
  (forall x y, r1 x = Some y -> r2 x = Some y) -> lex1 r1 s = Some l -> lex1 r2 s = Some l.
Proof.
  intros r1 r2 s l M H. unfold lex1 in *. destruct s as [|c r]; [exact H|]. cbv zeta in *.
  repeat match goal with
         | H : context [if ?b then _ else _] |- _ => destruct b
         end;
  repeat match goal with
         | H : context [match ?x with _ => _ end] |- _ =>
             match x with
             | r1 _ => fail 1
             | _ => destruct x eqn:?
             end
         end; try discriminate; try (apply M; exact H);
  repeat match goal with
         | H : match r1 ?x with Some _ => _ | None => _ end = Some _ |- _ =>
             destruct (r1 x) as [l0|] eqn:EL; [|discriminate]; rewrite (M _ _ EL); exact H
         end.
Qed.

Lemma lex_step : forall f s l, lex f s = Some l -> lex (S f) s = Some l.
Proof.
  induction f as [|f IH]; intros s l H.
  - cbn [lex] in H. destruct s; [|discriminate]. inversion H. reflexivity.
  - rewrite lex_unfold in *. exact (lex1_mono (lex f) (lex (S f)) s l IH H).
Qed.

Lemma lex_more : forall k f s l, lex f s = Some l -> lex (k + f) s = Some l.
Proof. induction k as [|k IH]; intros f s l H; [exact H|]. cbn [Nat.add]. apply lex_step. apply IH. exact H. Qed.

(* ---- composing lexer facts: the text s, followed by anything that satisfies C, is cut into ts with k more
   units of fuel than the rest needs *)
Definition Lexes (C : string -> Prop) (s : string) (k : nat) (ts : list tok) : Prop :=
  forall rest f toks, C rest -> lex f rest = Some toks -> lex (k + f) (s ++ rest) = Some (ts ++ toks)%list.

Definition any_rest (rest : string) : Prop := True.

Lemma Lexes_app : forall (C1 C2 : string -> Prop) s1 s2 k1 k2 ts1 ts2,
  Lexes C1 s1 k1 ts1 -> Lexes C2 s2 k2 ts2 -> (forall rest, C2 rest -> C1 (s2 ++ rest)) ->
  Lexes C2 (s1 ++ s2) (k1 + k2) (ts1 ++ ts2).
Proof.
  intros C1 C2 s1 s2 k1 k2 ts1 ts2 L1 L2 H rest f toks CR LR.
  rewrite app_assoc_s, <- Nat.add_assoc, <- app_assoc.
  apply L1; [apply H; exact CR | apply L2; assumption].
Qed.

Lemma Lexes_weaken : forall (C C' : string -> Prop) s k ts, Lexes C s k ts -> (forall r, C' r -> C r) -> Lexes C' s k ts.
Proof. intros C C' s k ts L H rest f toks CR LR. apply L; [apply H; exact CR | exact LR]. Qed.

Lemma Lexes_nil : forall C, Lexes C "" 0 [].
Proof. intros C rest f toks _ L. exact L. Qed.

(* punctuation *)
Lemma lex_lpar : Lexes any_rest "(" 1 [TLpar].
Proof. intros rest f toks _ L. cbn [append Nat.add lex]. cbn. rewrite L. reflexivity. Qed.
Lemma lex_rpar : Lexes any_rest ")" 1 [TRpar].
Proof. intros rest f toks _ L. cbn [append Nat.add lex]. cbn. rewrite L. reflexivity. Qed.
Lemma lex_lbr : Lexes any_rest "[" 1 [TLbr].
Proof. intros rest f toks _ L. cbn [append Nat.add lex]. cbn. rewrite L. reflexivity. Qed.
Lemma lex_rbr : Lexes any_rest "]" 1 [TRbr].
Proof. intros rest f toks _ L. cbn [append Nat.add lex]. cbn. rewrite L. reflexivity. Qed.
Lemma lex_eq : Lexes any_rest "=" 1 [TEq].
Proof. intros rest f toks _ L. cbn [append Nat.add lex]. cbn. rewrite L. reflexivity. Qed.
Lemma lex_comma_sp : Lexes any_rest ", " 2 [TComma].
Proof. intros rest f toks _ L. cbn [append Nat.add lex]. cbn. rewrite L. reflexivity. Qed.
Lemma lex_semi_sp : Lexes any_rest "; " 2 [TSemi].
Proof. intros rest f toks _ L. cbn [append Nat.add lex]. cbn. rewrite L. reflexivity. Qed.

(* a word *)
Lemma lex_a_word : forall w, w <> "" -> wordy w = true -> Lexes nonword_start w 1 [TWord w].
Proof.
  intros w NE W rest f toks N L. destruct w as [|c w]; [contradiction|].
  cbn [Nat.add]. rewrite (lex_word f c w rest W N), L. reflexivity.
Qed.

(* ---- values: what the value-level theorems of ProvnSpecProofs say, in one shape *)
Definition VSpec (t : ptable) (v : value) : Prop :=
  exists k ts, forall rest f toks, sep_start rest -> lex f rest = Some toks ->
    lex (k + f) (provn_value v ++ rest) = Some (ts ++ toks)%list /\
    read_literal t (ts ++ toks) = Some (content_value v, toks).

Lemma vspec_str : forall t s, VSpec t (VStr s).
Proof.
  intros t s. exists 1, [TStr s]. intros rest f toks S L.
  destruct (provn_spec_str t s rest f toks S L) as [A B]. split; [exact A | exact B].
Qed.

Lemma vspec_int : forall t z, VSpec t (VInt z).
Proof.
  intros t z. exists 1, [TWord (str_of_Z z)]. intros rest f toks S L.
  destruct (sep_nonword _ S) as [N _]. destruct (provn_spec_int t z rest f toks N L) as [A B]. split; [exact A | exact B].
Qed.

Lemma vspec_time : forall t tm, PStd t -> valid_dt tm = true -> VSpec t (VTime tm).
Proof.
  intros t tm P V. exists 5, [TStr (iso_print tm); TPct; TWord "xsd:dateTime"]. intros rest f toks S L.
  destruct (sep_nonword _ S) as [N _]. destruct (provn_spec_time t tm rest f toks P V N L) as [A B]. split; [exact A | exact B].
Qed.

Lemma vspec_bool : forall t b, PStd t -> VSpec t (VBool b).
Proof.
  intros t b P. exists 5, [TStr (if b then "1" else "0"); TPct; TWord "xsd:boolean"]. intros rest f toks S L.
  destruct (sep_nonword _ S) as [N _]. destruct (provn_spec_bool t b rest f toks P N L) as [A B]. split; [exact A | exact B].
Qed.

Lemma vspec_float : forall t r iv g, PStd t -> safe r = true -> VSpec t (VFloat r iv g).
Proof.
  intros t r iv g P Sf. exists 5, [TStr r; TPct; TWord "xsd:double"]. intros rest f toks S L.
  destruct (sep_nonword _ S) as [N _]. destruct (provn_spec_float t r iv g rest f toks P Sf N L) as [A B]. split; [exact A | exact B].
Qed.

Lemma vspec_id : forall t u, PStd t -> safe u = true -> VSpec t (VId u).
Proof.
  intros t u P Sf. exists 5, [TStr u; TPct; TWord "xsd:anyURI"]. intros rest f toks S L.
  destruct (sep_nonword _ S) as [N _]. destruct (provn_spec_id t u rest f toks P Sf N L) as [A B]. split; [exact A | exact B].
Qed.

(* ---- the attribute list between the brackets *)
Definition content_pair (kv : qname * value) : sexp := L [A (qn_uri (fst kv)); content_value (snd kv)].
Definition item_text (kv : qname * value) : string := qn_str (fst kv) ++ "=" ++ provn_value (snd kv).

Definition name_ok (t : ptable) (a : qname) : Prop :=
  qn_str a <> "" /\ wordy (qn_str a) = true /\ nresolve t (qn_str a) = Some (qn_uri a).

Definition pair_ok (t : ptable) (kv : qname * value) : Prop := name_ok t (fst kv) /\ VSpec t (snd kv).

Lemma sep_start_rbr : forall r, sep_start ("]" ++ r).
Proof. intros r. exists r. right. reflexivity. Qed.
Lemma sep_start_comma : forall r, sep_start (", " ++ r).
Proof. intros r. exists (" " ++ r). left. reflexivity. Qed.

Lemma nonword_eq : forall r, nonword_start ("=" ++ r).
Proof. intros r. reflexivity. Qed.

(* name "=" value, followed by a separator *)
Lemma item_spec : forall t kv, pair_ok t kv ->
  exists k ts, forall rest f toks, sep_start rest -> lex f rest = Some toks ->
    lex (k + f) (item_text kv ++ rest) = Some (TWord (qn_str (fst kv)) :: TEq :: ts ++ toks)%list /\
    read_literal t (ts ++ toks) = Some (content_value (snd kv), toks).
Proof.
  intros t [a v] [[NE [W R]] [k [ts V]]]. cbn [fst snd] in *.
  exists (1 + (1 + k)), ts. intros rest f toks S L.
  destruct (V rest f toks S L) as [LV RV]. split; [|exact RV].
  unfold item_text. cbn [fst snd]. rewrite !app_assoc_s.
  rewrite <- !Nat.add_assoc.
  apply (lex_a_word (qn_str a) NE W ("=" ++ provn_value v ++ rest) (1 + (k + f)) (TEq :: ts ++ toks)%list (nonword_eq _)).
  apply (lex_eq (provn_value v ++ rest) (k + f) (ts ++ toks)%list Logic.I). exact LV.
Qed.

Theorem attrs_spec : forall t es, es <> [] -> Forall (pair_ok t) es ->
  exists k ts, forall rest f toks, lex f rest = Some toks ->
    lex (k + f) (concat_str ", " (map item_text es) ++ "]" ++ rest) = Some (ts ++ TRbr :: toks)%list /\
    forall fuel, length es <= fuel -> read_attrs fuel t (ts ++ TRbr :: toks) = Some (map content_pair es, toks).
Proof.
  intros t es NE F. induction F as [|kv es P F IH]; [contradiction|].
  destruct (item_spec t kv P) as [k1 [ts1 I1]]. destruct P as [[_ [_ R]] _].
  destruct es as [|kv2 es'].
  - (* the last pair *)
    exists (k1 + 1), (TWord (qn_str (fst kv)) :: TEq :: ts1). intros rest f toks L.
    cbn [map concat_str].
    assert (L1 : lex (1 + f) ("]" ++ rest) = Some (TRbr :: toks)) by (apply (lex_rbr rest f toks Logic.I L)).
    destruct (I1 ("]" ++ rest) (1 + f) (TRbr :: toks) (sep_start_rbr rest) L1) as [LX RL].
    rewrite <- Nat.add_assoc. split; [exact LX|].
    intros fuel LE. destruct fuel as [|fu]; [cbn in LE; lia|]. cbn [app read_attrs]. rewrite R, RL. reflexivity.
  - (* more pairs follow *)
    destruct (IH ltac:(discriminate)) as [k2 [ts2 I2]].
    exists (k1 + (2 + k2)), (TWord (qn_str (fst kv)) :: TEq :: (ts1 ++ TComma :: ts2))%list. intros rest f toks L.
    destruct (I2 rest f toks L) as [LX2 RA2].
    set (tail := concat_str ", " (map item_text (kv2 :: es')) ++ "]" ++ rest) in *.
    assert (TXT : concat_str ", " (map item_text (kv :: kv2 :: es')) ++ "]" ++ rest = item_text kv ++ ", " ++ tail).
    { unfold tail. cbn [map concat_str]. rewrite !app_assoc_s. reflexivity. }
    rewrite TXT.
    assert (L1 : lex (2 + (k2 + f)) (", " ++ tail) = Some (TComma :: (ts2 ++ TRbr :: toks))%list).
    { apply (lex_comma_sp tail (k2 + f) (ts2 ++ TRbr :: toks)%list Logic.I). exact LX2. }
    destruct (I1 (", " ++ tail) (2 + (k2 + f)) (TComma :: (ts2 ++ TRbr :: toks))%list (sep_start_comma tail) L1) as [LX RL].
    split.
    + rewrite <- !Nat.add_assoc. cbn [app]. rewrite <- app_assoc. cbn [app]. exact LX.
    + intros fuel LE. destruct fuel as [|fu]; [cbn in LE; lia|]. cbn [app read_attrs]. rewrite <- app_assoc. cbn [app].
      rewrite R, RL. rewrite (RA2 fu) by (cbn [length] in *; lia). reflexivity.
Qed.

(* ---- the ISO form of a datetime consists of word characters *)
Lemma digit_wordy : forall c d, digit_val c = Some d -> is_word_char c = true.
Proof.
  intros [b0 b1 b2 b3 b4 b5 b6 b7] d H.
  destruct b0, b1, b2, b3, b4, b5, b6, b7; vm_compute in H; try discriminate H; reflexivity.
Qed.

Lemma take_digits_wordy : forall n acc s v, take_digits n acc s = Some (v, EmptyString) -> wordy s = true.
Proof.
  induction n as [|n IH]; intros acc s v H; cbn [take_digits] in H.
  - injection H as _ ->. reflexivity.
  - destruct s as [|c r]; [discriminate|]. destruct (digit_val c) as [d|] eqn:E; [|discriminate].
    cbn [wordy all_chars]. rewrite (digit_wordy c d E). exact (IH _ _ _ H).
Qed.

Lemma field_wordy : forall w z, field_ok w z = true -> wordy (pad w z) = true.
Proof.
  intros w z H. unfold field_ok in H. destruct (take_digits w 0%Z (pad w z)) as [[v r]|] eqn:E; [|discriminate].
  destruct r; [|discriminate]. exact (take_digits_wordy _ _ _ _ E).
Qed.

Lemma pad2_wordy : forall z, (0 <= z < 100)%Z -> wordy (pad 2 z) = true.
Proof. intros z Hz. apply field_wordy. apply (proj1 (forallb_forall _ _) all2). apply in_zrange. simpl. lia. Qed.
Lemma pad4_wordy : forall z, (0 <= z < 10000)%Z -> wordy (pad 4 z) = true.
Proof.
  intros z Hz. apply field_wordy. apply (proj1 (forallb_forall _ _) all4). apply in_zrange.
  change (Z.of_nat 10000) with 10000%Z. lia.
Qed.
Lemma pad6_wordy : forall z, (0 <= z < 1000000)%Z -> wordy (pad 6 z) = true.
Proof.
  intros z Hz. apply field_wordy.
  pose proof (proj1 (forallb_forall _ _) all6 (z / 1000)%Z) as Ha.
  assert (Hin : In (z / 1000)%Z (zrange 1000)).
  { apply in_zrange. change (Z.of_nat 1000) with 1000%Z.
    split; [apply Z.div_pos; lia | apply Z.div_lt_upper_bound; lia]. }
  specialize (Ha Hin). cbv beta in Ha.
  pose proof (proj1 (forallb_forall _ _) Ha (z mod 1000)%Z) as Hb.
  assert (Hin2 : In (z mod 1000)%Z (zrange 1000)).
  { apply in_zrange. change (Z.of_nat 1000) with 1000%Z. apply Z.mod_pos_bound. lia. }
  specialize (Hb Hin2). cbv beta in Hb.
  replace (z / 1000 * 1000 + z mod 1000)%Z with z in Hb; [exact Hb|].
  rewrite (Z.div_mod z 1000) at 1 by lia. lia.
Qed.

Lemma all_tz_wordy : forallb (fun k => wordy (print_offset (k - 1439)%Z)) (zrange 2879) = true.
Proof. vm_compute. reflexivity. Qed.

Lemma tz_text_wordy : forall tz, match tz with None => True | Some o => (-1440 < o < 1440)%Z end -> wordy (tz_text tz) = true.
Proof.
  intros [o|] H; [|reflexivity]. cbn [tz_text].
  pose proof (proj1 (forallb_forall _ _) all_tz_wordy (o + 1439)%Z) as X.
  assert (Hin : In (o + 1439)%Z (zrange 2879)) by (apply in_zrange; change (Z.of_nat 2879) with 2879%Z; lia).
  specialize (X Hin). cbv beta in X. replace (o + 1439 - 1439)%Z with o in X by lia. exact X.
Qed.

Lemma iso_print_wordy : forall t, valid_dt t = true -> wordy (iso_print t) = true.
Proof.
  intros t V. destruct (valid_dt_bounds t V) as [Hb Htz]. rewrite iso_print_shape. unfold wordy.
  repeat (rewrite all_chars_app || (cbn [all_chars]; idtac)).
  fold (wordy (pad 4 (dy t))). rewrite pad4_wordy by lia.
  repeat match goal with |- context [all_chars is_word_char (pad 2 ?z)] => fold (wordy (pad 2 z)); rewrite (pad2_wordy z) by lia end.
  fold (wordy (tz_text (dtz t))). rewrite (tz_text_wordy _ Htz).
  destruct (Z.eqb (dus t) 0).
  - reflexivity.
  - cbn [all_chars]. fold (wordy (pad 6 (dus t))). rewrite pad6_wordy by lia. reflexivity.
Qed.

Lemma iso_print_starts_digit : forall t, valid_dt t = true -> exists c s, iso_print t = String c s /\ digit_val c <> None.
Proof.
  intros t V. destruct (valid_dt_bounds t V) as [Hb _]. rewrite iso_print_shape.
  destruct (TimeProofs.pad4_first (dy t)) as [c [s' [E D]]]; [lia|]. rewrite E.
  eexists c, _. split; [reflexivity | exact D].
Qed.

(* ---- the positional terms *)
Fixpoint wtoks (ws : list string) : list tok :=
  match ws with
  | [] => []
  | [w] => [TWord w]
  | w :: r => TWord w :: TComma :: wtoks r
  end.

Definition word_ok (w : string) : Prop := w <> "" /\ wordy w = true.

Lemma nonword_comma : forall r, nonword_start (", " ++ r).
Proof. intros r. reflexivity. Qed.

Lemma words_spec : forall ws, ws <> [] -> Forall word_ok ws ->
  exists k, forall rest f toks, nonword_start rest -> lex f rest = Some toks ->
    lex (k + f) (concat_str ", " ws ++ rest) = Some (wtoks ws ++ toks)%list.
Proof.
  intros ws NE F. induction F as [|w ws [WN WW] F IH]; [contradiction|].
  destruct ws as [|w2 ws'].
  - exists 1. intros rest f toks N L. cbn [concat_str wtoks]. exact (lex_a_word w WN WW rest f toks N L).
  - destruct (IH ltac:(discriminate)) as [k2 I2]. exists (1 + (2 + k2)). intros rest f toks N L.
    assert (TXT : concat_str ", " (w :: w2 :: ws') ++ rest = w ++ ", " ++ (concat_str ", " (w2 :: ws') ++ rest)).
    { cbn [concat_str]. rewrite !app_assoc_s. reflexivity. }
    rewrite TXT. rewrite <- !Nat.add_assoc.
    change (wtoks (w :: w2 :: ws') ++ toks)%list with (TWord w :: TComma :: (wtoks (w2 :: ws') ++ toks))%list.
    apply (lex_a_word w WN WW _ _ _ (nonword_comma _)).
    apply (lex_comma_sp _ _ _ Logic.I). apply I2; assumption.
Qed.

Lemma wtoks_head : forall w ws, exists l, wtoks (w :: ws) = TWord w :: l.
Proof. intros w [|w2 ws]; eexists; reflexivity. Qed.

(* read_terms on the tokens of a non-empty list of words, closed by ')' or by ', [' *)
Lemma read_terms_rpar : forall ws rest fuel, ws <> [] -> length ws <= fuel ->
  read_terms fuel (wtoks ws ++ TRpar :: rest) = Some (ws, TRpar :: rest).
Proof.
  induction ws as [|w ws IH]; intros rest fuel NE LE; [contradiction|].
  destruct fuel as [|fu]; [cbn in LE; lia|]. destruct ws as [|w2 ws'].
  - reflexivity.
  - destruct (wtoks_head w2 ws') as [l E].
    pose proof (IH rest fu ltac:(discriminate) ltac:(cbn [length] in *; lia)) as R.
    change (wtoks (w :: w2 :: ws')) with (TWord w :: TComma :: wtoks (w2 :: ws')).
    rewrite E in *. cbn [app] in *. cbn [read_terms]. rewrite R. reflexivity.
Qed.

Lemma read_terms_lbr : forall ws rest fuel, ws <> [] -> length ws <= fuel ->
  read_terms fuel (wtoks ws ++ TComma :: TLbr :: rest) = Some (ws, TLbr :: rest).
Proof.
  induction ws as [|w ws IH]; intros rest fuel NE LE; [contradiction|].
  destruct fuel as [|fu]; [cbn in LE; lia|]. destruct ws as [|w2 ws'].
  - reflexivity.
  - destruct (wtoks_head w2 ws') as [l E].
    pose proof (IH rest fu ltac:(discriminate) ltac:(cbn [length] in *; lia)) as R.
    change (wtoks (w :: w2 :: ws')) with (TWord w :: TComma :: wtoks (w2 :: ws')).
    rewrite E in *. cbn [app] in *. cbn [read_terms]. rewrite R. reflexivity.
Qed.

(* ---- formal arguments, positionally *)
Definition fword (v : option value) : string := match v with Some x => formal_str x | None => "-" end.

Inductive formal_ok (t : ptable) (l : string) : option value -> list sexp -> Prop :=
| fo_absent : formal_ok t l None []
| fo_ref : forall q, existsb (String.eqb l) spec_time_args = false -> word_ok (qn_str q) -> qn_str q <> "-" ->
    nresolve t (qn_str q) = Some (qn_uri q) ->
    formal_ok t l (Some (VQn q)) [L [A (spec_prov_uri ++ l); L [A "qn"; A (qn_uri q)]]]
| fo_time : forall tm, existsb (String.eqb l) spec_time_args = true -> valid_dt tm = true ->
    formal_ok t l (Some (VTime tm)) [L [A (spec_prov_uri ++ l); time_content tm]].

Lemma formal_word_ok : forall t l v c, formal_ok t l v c -> word_ok (fword v).
Proof.
  intros t l v c H. destruct H as [|q _ W _ _|tm _ V]; cbn [fword formal_str].
  - split; [discriminate | reflexivity].
  - exact W.
  - split; [|apply iso_print_wordy; exact V].
    destruct (iso_print_starts_digit tm V) as [ch [s [E _]]]. rewrite E. discriminate.
Qed.

Lemma formal_pairs_ok : forall t ls vs cs,
  Forall2 (fun lv c => formal_ok t (fst lv) (snd lv) c) (combine ls vs) cs -> length ls = length vs ->
  ProvnSpec.formal_pairs t ls (map fword vs) = Some (concat cs).
Proof.
  intros t ls. induction ls as [|l ls IH]; intros vs cs F LEN.
  - destruct vs; [|discriminate]. inversion F; subst. reflexivity.
  - destruct vs as [|v vs]; [discriminate|]. cbn [combine] in F. inversion F as [|x c xs cs' H F']; subst.
    cbn [fst snd] in H. cbn [map ProvnSpec.formal_pairs]. rewrite (IH vs cs' F') by (cbn in LEN; lia).
    destruct H as [|q NT [WN WW] ND R|tm TT V]; cbn [fword formal_str concat app].
    + reflexivity.
    + assert (E : String.eqb (qn_str q) "-" = false) by (apply String.eqb_neq; exact ND). rewrite E, NT, R. reflexivity.
    + assert (E : String.eqb (iso_print tm) "-" = false).
      { destruct (iso_print_starts_digit tm V) as [ch [s [ES D]]]. rewrite ES. apply String.eqb_neq. intro X.
        inversion X; subst. apply D. reflexivity. }
      rewrite E, TT, (iso_roundtrip tm V). reflexivity.
Qed.

Lemma concat_str_snoc : forall ws x, ws <> [] -> concat_str ", " (ws ++ [x]) = concat_str ", " ws ++ ", " ++ x.
Proof.
  induction ws as [|w ws IH]; intros x NE; [contradiction|]. destruct ws as [|w2 ws'].
  - reflexivity.
  - change ((w :: w2 :: ws') ++ [x])%list with (w :: ((w2 :: ws') ++ [x]))%list.
    assert (E : concat_str ", " (w :: ((w2 :: ws') ++ [x])%list) = w ++ ", " ++ concat_str ", " ((w2 :: ws') ++ [x])%list)
      by reflexivity.
    rewrite E, (IH x ltac:(discriminate)). cbn [concat_str]. rewrite !app_assoc_s. reflexivity.
Qed.

(* ---- one expression *)
Definition attrs_item (es : list (qname * value)) : list string :=
  match es with [] => [] | _ => ["[" ++ concat_str ", " (map item_text es) ++ "]"] end.

Definition expr_text (name relid : string) (ws : list string) (es : list (qname * value)) : string :=
  name ++ "(" ++ relid ++ concat_str ", " (ws ++ attrs_item es) ++ ")".

Lemma nonword_rpar : forall r, nonword_start (")" ++ r).
Proof. intros r. reflexivity. Qed.
Lemma nonword_semi : forall r, nonword_start ("; " ++ r).
Proof. intros r. reflexivity. Qed.

(* the terms and what follows them up to the closing parenthesis *)
Definition body_text (ws : list string) (es : list (qname * value)) : string :=
  concat_str ", " (ws ++ attrs_item es) ++ ")".

Definition body_toks (ws : list string) (es : list (qname * value)) (ats : list tok) : list tok :=
  match es with
  | [] => (wtoks ws ++ [TRpar])%list
  | _ => (wtoks ws ++ TComma :: TLbr :: ats ++ [TRbr; TRpar])%list
  end.

Lemma nonword_comma_lbr : forall r, nonword_start (", [" ++ r).
Proof. intros r. reflexivity. Qed.

Lemma body_spec : forall t ws es, ws <> [] -> Forall word_ok ws -> Forall (pair_ok t) es ->
  exists k ats, forall rest f toks, lex f rest = Some toks ->
    lex (k + f) (body_text ws es ++ rest) = Some (body_toks ws es ats ++ toks)%list /\
    (forall fuel, length ws <= fuel ->
       read_terms fuel (body_toks ws es ats ++ toks)
       = Some (ws, match es with [] => TRpar :: toks | _ => (TLbr :: ats ++ TRbr :: TRpar :: toks)%list end)) /\
    (forall fuel, length es <= fuel -> es <> [] ->
       read_attrs fuel t (ats ++ TRbr :: TRpar :: toks) = Some (map content_pair es, TRpar :: toks)).
Proof.
  intros t ws es NW FW FE. destruct (words_spec ws NW FW) as [kw IW]. destruct es as [|e es'].
  - exists (kw + 1), []. intros rest f toks L. unfold body_text, body_toks, attrs_item. rewrite app_nil_r.
    split; [|split].
    + rewrite <- Nat.add_assoc, app_assoc_s.
      replace ((wtoks ws ++ [TRpar]) ++ toks)%list with (wtoks ws ++ ([TRpar] ++ toks))%list
        by (apply List.app_assoc).
      apply (IW (")" ++ rest) (1 + f) ([TRpar] ++ toks)%list (nonword_rpar rest)).
      apply (lex_rpar rest f toks Logic.I L).
    + intros fuel LE. rewrite <- (List.app_assoc (wtoks ws) [TRpar] toks). exact (read_terms_rpar ws toks fuel NW LE).
    + intros fuel _ X. contradiction.
  - destruct (attrs_spec t (e :: es') ltac:(discriminate) FE) as [ka [ats IA]].
    exists (kw + (2 + (1 + (ka + 1)))), ats. intros rest f toks L.
    assert (L1 : lex (1 + f) (")" ++ rest) = Some (TRpar :: toks)) by (apply (lex_rpar rest f toks Logic.I L)).
    destruct (IA (")" ++ rest) (1 + f) (TRpar :: toks) L1) as [LX RA].
    unfold body_text, body_toks, attrs_item.
    split; [|split].
    + rewrite (concat_str_snoc ws _ NW). rewrite !app_assoc_s. rewrite <- !Nat.add_assoc.
      replace (wtoks ws ++ TComma :: TLbr :: ats ++ [TRbr; TRpar])%list with (wtoks ws ++ (TComma :: TLbr :: ats ++ [TRbr; TRpar]))%list by reflexivity.
      rewrite <- app_assoc.
      apply (IW _ _ _ (nonword_comma_lbr _)).
      replace ((TComma :: TLbr :: ats ++ [TRbr; TRpar]) ++ toks)%list
        with ([TComma] ++ ([TLbr] ++ (ats ++ TRbr :: TRpar :: toks)))%list
        by (cbn [app]; rewrite <- List.app_assoc; reflexivity).
      change (", [" ++ ?x) with (", " ++ "[" ++ x).
      apply (lex_comma_sp ("[" ++ concat_str ", " (map item_text (e :: es')) ++ "]" ++ ")" ++ rest) (1 + (ka + (1 + f)))
               ([TLbr] ++ (ats ++ TRbr :: TRpar :: toks))%list Logic.I).
      apply (lex_lbr (concat_str ", " (map item_text (e :: es')) ++ "]" ++ ")" ++ rest) (ka + (1 + f))
               (ats ++ TRbr :: TRpar :: toks)%list Logic.I).
      exact LX.
    + intros fuel LE. rewrite <- app_assoc. cbn [app]. rewrite <- app_assoc. cbn [app].
      exact (read_terms_lbr ws _ fuel NW LE).
    + intros fuel LE _. exact (RA fuel LE).
Qed.

(* ---- the whole expression: name ( [id ;] terms [, [attrs]] ) *)
Definition idtoks (relid_word : option string) : list tok :=
  match relid_word with Some w => [TWord w; TSemi] | None => [] end.
Definition relid_text (relid_word : option string) : string :=
  match relid_word with Some w => w ++ "; " | None => "" end.

Lemma nonword_lpar : forall r, nonword_start ("(" ++ r).
Proof. intros r. reflexivity. Qed.

Lemma expr_lex : forall t name relid ws es, word_ok name ->
  match relid with Some w => word_ok w | None => True end ->
  ws <> [] -> Forall word_ok ws -> Forall (pair_ok t) es ->
  exists k ats, forall rest f toks, lex f rest = Some toks ->
    lex (k + f) (name ++ "(" ++ relid_text relid ++ body_text ws es ++ rest)
      = Some (TWord name :: TLpar :: idtoks relid ++ body_toks ws es ats ++ toks)%list /\
    (forall fuel, length ws <= fuel ->
       read_terms fuel (body_toks ws es ats ++ toks)
       = Some (ws, match es with [] => TRpar :: toks | _ => (TLbr :: ats ++ TRbr :: TRpar :: toks)%list end)) /\
    (forall fuel, length es <= fuel -> es <> [] ->
       read_attrs fuel t (ats ++ TRbr :: TRpar :: toks) = Some (map content_pair es, TRpar :: toks)).
Proof.
  intros t name relid ws es [NN NW] RW NE FW FE.
  destruct (body_spec t ws es NE FW FE) as [kb [ats IB]].
  destruct relid as [w|].
  - destruct RW as [WN WW]. exists (1 + (1 + (1 + (2 + kb)))), ats. intros rest f toks L.
    destruct (IB rest f toks L) as [LB [RT RA]]. split; [|split; assumption].
    cbn [relid_text idtoks app]. rewrite !app_assoc_s. rewrite <- !Nat.add_assoc.
    apply (lex_a_word name NN NW _ _ _ (nonword_lpar _)).
    apply (lex_lpar _ _ _ Logic.I).
    apply (lex_a_word w WN WW _ _ _ (nonword_semi _)).
    apply (lex_semi_sp _ _ _ Logic.I). exact LB.
  - exists (1 + (1 + kb)), ats. intros rest f toks L.
    destruct (IB rest f toks L) as [LB [RT RA]]. split; [|split; assumption].
    cbn [relid_text idtoks app append]. rewrite <- !Nat.add_assoc.
    apply (lex_a_word name NN NW _ _ _ (nonword_lpar _)).
    apply (lex_lpar _ _ _ Logic.I). exact LB.
Qed.

Lemma no_semi : forall (T : Type) ws es ats toks (a : string -> list tok -> T) (b : T), ws <> [] ->
  match (body_toks ws es ats ++ toks)%list with
  | TWord i :: TSemi :: rest => a i rest
  | _ => b
  end = b.
Proof.
  intros T ws es ats toks a b NE. destruct ws as [|w1 [|w2 ws']]; [contradiction| |]; destruct es; reflexivity.
Qed.

Lemma ats_head : forall t es ats toks, es <> [] ->
  read_attrs (S (length es)) t (ats ++ TRbr :: TRpar :: toks) = Some (map content_pair es, TRpar :: toks) ->
  exists a l, ats = TWord a :: l.
Proof.
  intros t es ats toks NE H. destruct ats as [|x l].
  - cbn in H. discriminate.
  - destruct x; try (cbn in H; discriminate). eauto.
Qed.

Inductive id_mode (t : ptable) : bool -> option string -> list string -> list string -> sexp -> Prop :=
| im_element : forall idw u positional, nresolve t idw = Some u ->
    id_mode t true None (idw :: positional) positional (A u)
| im_anon : forall positional, id_mode t false None positional positional (A "none")
| im_ident : forall idw u positional, idw <> "-" -> nresolve t idw = Some u ->
    id_mode t false (Some idw) positional positional (A u).

Theorem expr_spec : forall t name kind formals el relid ws positional ic es fps,
  word_ok name -> kind_by_name name = Some (kind, formals, el) ->
  match relid with Some w => word_ok w | None => True end ->
  ws <> [] -> Forall word_ok ws -> Forall (pair_ok t) es ->
  id_mode t el relid ws positional ic ->
  ProvnSpec.formal_pairs t formals positional = Some fps ->
  exists k body, forall rest f toks, lex f rest = Some toks ->
    lex (k + f) (name ++ "(" ++ relid_text relid ++ body_text ws es ++ rest)
      = Some (TWord name :: TLpar :: body ++ toks)%list /\
    forall fuel, length ws + length es < fuel ->
      read_expr fuel t name (body ++ toks)
      = Some (L [A "rec"; A (spec_prov_uri ++ kind); ic; L (fps ++ map content_pair es)], toks).
Proof.
  intros t name kind formals el relid ws positional ic es fps WN KN RW NE FW FE IM FP.
  destruct (expr_lex t name relid ws es WN RW NE FW FE) as [k [ats I]].
  exists k, (idtoks relid ++ body_toks ws es ats)%list. intros rest f toks L.
  destruct (I rest f toks L) as [LX [RT RA]]. split; [rewrite <- app_assoc; exact LX|].
  intros fuel LE. unfold read_expr. rewrite KN. rewrite <- app_assoc.
  assert (RTF : read_terms fuel (body_toks ws es ats ++ toks)
                = Some (ws, match es with [] => TRpar :: toks | _ => (TLbr :: ats ++ TRbr :: TRpar :: toks)%list end))
    by (apply RT; lia).
  assert (AFTER : match (match es with [] => TRpar :: toks | _ => (TLbr :: ats ++ TRbr :: TRpar :: toks)%list end) with
                  | TLbr :: TRbr :: TRpar :: rest0 => Some ([], rest0)
                  | TLbr :: rest0 => match read_attrs fuel t rest0 with
                                     | Some (l, TRpar :: r) => Some (l, r)
                                     | _ => None
                                     end
                  | TRpar :: rest0 => Some ([], rest0)
                  | _ => None
                  end = Some (map content_pair es, toks)).
  { destruct es as [|e es']; [reflexivity|].
    destruct (ats_head t (e :: es') ats toks ltac:(discriminate) (RA (S (length (e :: es'))) (Nat.le_succ_diag_r _) ltac:(discriminate))) as [a [l EA]].
    pose proof (RA fuel ltac:(cbn [length] in *; lia) ltac:(discriminate)) as R2.
    rewrite EA in R2 |- *. cbn [app] in R2 |- *. rewrite R2. reflexivity. }
  destruct IM as [idw u pos NR | pos | idw u pos ND NR].
  - (* element: the identifier is the first term *)
    cbn [idtoks app]. rewrite (no_semi _ (idw :: pos) es ats toks _ _ ltac:(discriminate)).
    rewrite RTF, AFTER, FP, NR. reflexivity.
  - cbn [idtoks app]. rewrite (no_semi _ pos es ats toks _ _ NE).
    rewrite RTF, AFTER, FP. reflexivity.
  - cbn [idtoks app].
    assert (E : String.eqb idw "-" = false) by (apply String.eqb_neq; exact ND). rewrite E.
    rewrite RTF, AFTER, FP, NR. reflexivity.
Qed.

(* ---- a record *)
Definition rec_name (r : prec) : string := match lookup (rkind r) prov_n_map with Some n => n | None => "?" end.
Definition rec_relid (r : prec) : option string :=
  match rid r with Some q => if is_element (rkind r) then None else Some (qn_str q) | None => None end.
Definition rec_items0 (r : prec) : list string :=
  match rid r with Some q => if is_element (rkind r) then [qn_str q] else [] | None => [] end.
Definition rec_fvals (r : prec) : list (option value) :=
  map (fun l => hd_opt (attr_get (prov_qn l) (rattrs r))) (formal_attrs (rkind r)).
Definition rec_extras (r : prec) : list (qname * value) :=
  flat_map (fun kv => if is_formal_of (rkind r) (fst kv) then [] else map (pair (fst kv)) (snd kv)) (rattrs r).

Lemma extras_text : forall r,
  flat_map (fun kv => if is_formal_of (rkind r) (fst kv) then []
                      else map (fun v => qn_str (fst kv) ++ "=" ++ provn_value v) (snd kv)) (rattrs r)
  = map item_text (rec_extras r).
Proof.
  intros r. unfold rec_extras. induction (rattrs r) as [|kv l IH]; [reflexivity|].
  cbn [flat_map]. rewrite map_app, IH. f_equal.
  destruct (is_formal_of (rkind r) (fst kv)); [reflexivity|]. rewrite map_map. reflexivity.
Qed.

Lemma record_provn_shape : forall r,
  record_provn r = rec_name r ++ "(" ++ relid_text (rec_relid r)
                   ++ body_text (rec_items0 r ++ map fword (rec_fvals r)) (rec_extras r).
Proof.
  intros r. unfold record_provn, body_text. rewrite extras_text.
  fold (rec_name r).
  assert (RI : (match rid r with Some _ => if is_element (rkind r) then "" else (match rid r with Some q => qn_str q | None => "" end) ++ "; " | None => "" end)
               = relid_text (rec_relid r)).
  { unfold rec_relid, relid_text. destruct (rid r) as [q|]; [destruct (is_element (rkind r)); reflexivity | reflexivity]. }
  rewrite RI.
  assert (I0 : (match rid r with Some _ => if is_element (rkind r) then [match rid r with Some q => qn_str q | None => "" end] else [] | None => [] end)
               = rec_items0 r).
  { unfold rec_items0. destruct (rid r) as [q|]; [destruct (is_element (rkind r)); reflexivity | reflexivity]. }
  rewrite I0.
  assert (FI : map (fun l => match attr_get (prov_qn l) (rattrs r) with v :: _ => formal_str v | [] => "-" end) (formal_attrs (rkind r))
               = map fword (rec_fvals r)).
  { unfold rec_fvals. rewrite map_map. apply map_ext. intros l. destruct (attr_get (prov_qn l) (rattrs r)); reflexivity. }
  rewrite FI.
  assert (EX : (match map item_text (rec_extras r) with [] => [] | _ => ["[" ++ concat_str ", " (map item_text (rec_extras r)) ++ "]"] end)
               = attrs_item (rec_extras r)).
  { unfold attrs_item. destruct (rec_extras r); reflexivity. }
  rewrite EX. rewrite (List.app_assoc (rec_items0 r) (map fword (rec_fvals r)) (attrs_item (rec_extras r))). reflexivity.
Qed.

Definition rec_idc (r : prec) : sexp := match rid r with Some q => A (qn_uri q) | None => A "none" end.

Theorem provn_record : forall t r cs,
  word_ok (rec_name r) ->
  kind_by_name (rec_name r) = Some (rkind r, formal_attrs (rkind r), is_element (rkind r)) ->
  match rid r with
  | Some q => word_ok (qn_str q) /\ nresolve t (qn_str q) = Some (qn_uri q) /\ qn_str q <> "-"
  | None => is_element (rkind r) = false
  end ->
  (is_element (rkind r) = true \/ formal_attrs (rkind r) <> []) ->
  Forall2 (fun lv c => formal_ok t (fst lv) (snd lv) c) (combine (formal_attrs (rkind r)) (rec_fvals r)) cs ->
  Forall (pair_ok t) (rec_extras r) ->
  exists k body, forall rest f toks, lex f rest = Some toks ->
    lex (k + f) (record_provn r ++ rest) = Some (TWord (rec_name r) :: TLpar :: body ++ toks)%list /\
    forall fuel, length (rec_items0 r) + length (rec_fvals r) + length (rec_extras r) < fuel ->
      read_expr fuel t (rec_name r) (body ++ toks)
      = Some (L [A "rec"; A (spec_prov_uri ++ rkind r); rec_idc r; L (concat cs ++ map content_pair (rec_extras r))], toks).
Proof.
  intros t r cs WN KN ID NE FO FE.
  set (ws := (rec_items0 r ++ map fword (rec_fvals r))%list).
  assert (LEN : length (formal_attrs (rkind r)) = length (rec_fvals r)) by (unfold rec_fvals; rewrite map_length; reflexivity).
  assert (FP : ProvnSpec.formal_pairs t (formal_attrs (rkind r)) (map fword (rec_fvals r)) = Some (concat cs))
    by (apply formal_pairs_ok; assumption).
  assert (FWV : Forall word_ok (map fword (rec_fvals r))).
  { clear -FO LEN. revert cs FO LEN. generalize (formal_attrs (rkind r)) as ls. generalize (rec_fvals r) as vs.
    induction vs as [|v vs IH]; intros ls cs FO LEN; [constructor|].
    destruct ls as [|l ls]; [discriminate|]. cbn [combine] in FO. inversion FO as [|x c xs cs' H F']; subst.
    cbn [map]. constructor; [exact (formal_word_ok t l v c H) | apply (IH ls cs' F'); cbn in LEN; lia]. }
  assert (WS : ws <> [] /\ Forall word_ok ws /\
               match rec_relid r with Some w => word_ok w | None => True end /\
               id_mode t (is_element (rkind r)) (rec_relid r) ws (map fword (rec_fvals r)) (rec_idc r)).
  { unfold ws, rec_items0, rec_relid, rec_idc. destruct (rid r) as [q|] eqn:ER.
    - destruct ID as [WQ [NR ND]]. destruct (is_element (rkind r)) eqn:EL.
      + split; [discriminate|]. split; [constructor; assumption|]. split; [exact Logic.I|].
        cbn [app]. apply im_element. exact NR.
      + cbn [app]. destruct NE as [X|X]; [discriminate|].
        split; [unfold rec_fvals; destruct (formal_attrs (rkind r)); [contradiction | discriminate]|].
        split; [exact FWV|]. split; [exact WQ|]. apply im_ident; assumption.
    - rewrite ID. cbn [app]. destruct NE as [X|X]; [rewrite ID in X; discriminate|].
      split; [unfold rec_fvals; destruct (formal_attrs (rkind r)); [contradiction | discriminate]|].
      split; [exact FWV|]. split; [exact Logic.I|]. apply im_anon. }
  destruct WS as [NW [FW [RW IM]]].
  destruct (expr_spec t (rec_name r) (rkind r) (formal_attrs (rkind r)) (is_element (rkind r)) (rec_relid r) ws
              (map fword (rec_fvals r)) (rec_idc r) (rec_extras r) (concat cs) WN KN RW NW FW FE IM FP) as [k [body I]].
  exists k, body. intros rest f toks L. destruct (I rest f toks L) as [LX RE]. split.
  - rewrite record_provn_shape. rewrite !app_assoc_s. exact LX.
  - intros fuel LE. apply RE. unfold ws. rewrite app_length, map_length. exact LE.
Qed.

(* ---- the remaining value kinds *)
Lemma vspec_qn : forall t q, PStd t ->
  ns_prefix (qn_ns q) <> "" -> contains_char colon (ns_prefix (qn_ns q)) = false ->
  lookup (ns_prefix (qn_ns q)) t = Some (ns_uri (qn_ns q)) ->
  contains_char "'"%char (qn_str q) = false -> VSpec t (VQn q).
Proof.
  intros t q P NE C B NA. exists 1, [TQn (qn_str q)]. intros rest f toks S L.
  destruct (provn_spec_qn t q rest f toks P NE C B NA L) as [X Y]. split; [exact X | exact Y].
Qed.

Lemma vspec_lang : forall t lex0 c l, wordy (String c l) = true ->
  VSpec t (VLit lex0 (Some (prov_qn "InternationalizedString")) (Some (String c l))).
Proof.
  intros t lex0 c l W. exists 2, [TStr lex0; TLang (String c l)]. intros rest f toks S L.
  destruct (sep_nonword _ S) as [N _]. destruct (provn_spec_lang t lex0 c l rest f toks W N L) as [X Y]. split; [exact X | exact Y].
Qed.

Lemma vspec_foreign : forall t lex0 d, PStd t ->
  ns_prefix (qn_ns d) <> "" -> contains_char colon (ns_prefix (qn_ns d)) = false ->
  lookup (ns_prefix (qn_ns d)) t = Some (ns_uri (qn_ns d)) ->
  wordy (qn_str d) = true -> starts_with spec_xsd_uri (qn_uri d) = false ->
  VSpec t (VLit lex0 (Some d) None).
Proof.
  intros t lex0 d P NE C B W NX. exists 5, [TStr lex0; TPct; TWord (qn_str d)]. intros rest f toks S L.
  destruct (sep_nonword _ S) as [N _]. destruct (provn_spec_foreign t lex0 d rest f toks P NE C B W NX N L) as [X Y].
  split; [exact X | exact Y].
Qed.

(* ---- the premises are satisfiable: the usage of JsonRecProofs, printed and read in a table binding ex *)
Definition p_t : ptable := [("prov", spec_prov_uri); ("xsd", spec_xsd_uri); ("ex", "http://e/")].
Definition p_q (l : string) : qname := mkQn (mkNs "ex" "http://e/") l.
Definition p_r : prec :=
  mkRec "Usage" (Some (p_q "u"))
    [(p_q "k", [VInt 5; VStr "x"]); (prov_qn "activity", [VQn (p_q "a")]); (prov_qn "type", [VQn (p_q "T")]); (p_q "empty", [])].

Lemma p_std : PStd p_t.
Proof. split; reflexivity. Qed.

Example provn_record_applies :
  exists k body, forall rest f toks, lex f rest = Some toks ->
    lex (k + f) (record_provn p_r ++ rest) = Some (TWord "used" :: TLpar :: body ++ toks)%list /\
    forall fuel, 6 < fuel ->
      read_expr fuel p_t "used" (body ++ toks)
      = Some (L [A "rec"; A (spec_prov_uri ++ "Usage"); A "http://e/u";
                 L [L [A (spec_prov_uri ++ "activity"); L [A "qn"; A "http://e/a"]];
                    L [A "http://e/k"; L [A "int"; sx_Z 5]]; L [A "http://e/k"; L [A "str"; A "x"]];
                    L [A (spec_prov_uri ++ "type"); L [A "qn"; A "http://e/T"]]]], toks).
Proof.
  destruct (provn_record p_t p_r
              [[L [A (spec_prov_uri ++ "activity"); L [A "qn"; A (qn_uri (p_q "a"))]]]; []; []]) as [k [body I]].
  - split; [discriminate | reflexivity].
  - vm_compute. reflexivity.
  - cbn [rid p_r]. split; [split; [discriminate | reflexivity]|]. split; [reflexivity | discriminate].
  - right. vm_compute. discriminate.
  - change (combine (formal_attrs (rkind p_r)) (rec_fvals p_r))
      with [("activity", Some (VQn (p_q "a"))); ("entity", None); ("time", None)].
    constructor; [|constructor; [|constructor; [|constructor]]]; cbn [fst snd].
    + apply fo_ref; [reflexivity | split; [discriminate | reflexivity] | discriminate | reflexivity].
    + apply fo_absent.
    + apply fo_absent.
  - change (rec_extras p_r) with [(p_q "k", VInt 5); (p_q "k", VStr "x"); (prov_qn "type", VQn (p_q "T"))].
    constructor; [|constructor; [|constructor; [|constructor]]]; (split; [split; [discriminate | split; reflexivity]|]); cbn [snd].
    + apply vspec_int.
    + apply vspec_str.
    + apply vspec_qn; [exact p_std | discriminate | reflexivity | reflexivity | reflexivity].
  - exists k, body. intros rest f toks L. destruct (I rest f toks L) as [LX RE]. split; [exact LX|].
    intros fuel LE. refine (eq_trans (RE fuel _) _); [vm_compute; vm_compute in LE; exact LE | reflexivity].
Qed.
