(* XmlReadDocProofs.v — what the PROV-XML reader builds, for every tree it accepts: bundles under pairwise different URIs, and
   in every record an attribute dictionary keyed by pairwise different URIs whose value lists are sets (the shape invariant of
   ShapeProofs.v, threaded through the reader's record loop, its subtype step, the bundleContent dispatch and the document). *)
From Coq Require Import String List Arith ZArith Bool.
From Prov Require Import Str StrProofs Sexp Tables Nsm NsmProofs Values Record RecordProofs World WorldProofs Derive Jtree Json JsonRecProofs
  ShapeProofs XmlSpec XmlLabel XmlRead XmlReadDoc.
Import ListNotations.
Open Scope string_scope.

Lemma xml_read_record_BShape : forall par ft prefix_of b x b' r,
  BShape b -> xml_read_record par ft prefix_of b x = (b', r) -> BShape b'.
Proof.
  intros par ft prefix_of b x b' r G H. destruct x as [ns local attrs scope text kids]. cbn [xml_read_record] in H.
  destruct (negb (String.eqb ns prov_uri)); [inversion H; subst; exact G|].
  destruct (existsb stale_child kids); [inversion H; subst; exact G|].
  destruct (read_label local) as [[kind sub]|]; [|inversion H; subst; exact G].
  destruct (match xattr prov_uri "id" attrs with
            | None => Some None
            | Some s => match xml_qname scope s with Some q => Some (Some q) | None => None end
            end) as [rec_id|]; [|inversion H; subst; exact G].
  destruct (all_args prefix_of kids) as [args0|]; [|inversion H; subst; exact G].
  destruct (match xattr XmlSpec.xsi_ns "type" attrs with
            | None => Some []
            | Some v => match xml_qname scope v with
                        | Some q => Some [(NQn (prov_qn "type"), AQn q)]
                        | None => None
                        end
            end) as [xtl|]; [|inversion H; subst; exact G].
  destruct (if (String.eqb kind "Membership" && Nat.ltb 1 (length (filter is_entity_arg (args0 ++ xtl))))%bool
            then ((filter (fun na => negb (is_entity_arg na)) (args0 ++ xtl) ++ firstn 1 (filter is_entity_arg (args0 ++ xtl)))%list,
                  skipn 1 (filter is_entity_arg (args0 ++ xtl)))
            else ((args0 ++ xtl)%list, [])) as [args extra].
  destruct (new_record par ft b kind (option_map NQn rec_id) args) as [b1 [r1|e|]] eqn:EN;
    pose proof (new_record_BShape _ _ _ _ _ _ _ _ G EN) as G1; try (inversion H; subst; exact G1).
  assert (Gr : ShapeR r1).
  { unfold BShape in G1. rewrite Forall_forall in G1. apply G1. exact (new_record_ok_in' _ _ _ _ _ _ _ _ EN). }
  destruct sub as [ty|].
  - destruct (add_attributes (mkCtx par ft) (bns b1) r1 [(NQn (prov_qn "type"), AQn (prov_qn ty))]) as [m2 r2|m2 r2 e|] eqn:EA.
    + assert (G2 : BShape (mkB (bid b1) m2 (set_nth (length (brecs b1) - 1) r2 (brecs b1)) (bidmap b1))).
      { unfold BShape. cbn [brecs]. apply Forall_set_nth; [exact G1|]. exact (add_attributes_shape_done _ _ _ _ _ _ Gr EA). }
      destruct extra; inversion H; subst; exact G2.
    + assert (G2 : BShape (mkB (bid b1) m2 (set_nth (length (brecs b1) - 1) r2 (brecs b1)) (bidmap b1))).
      { unfold BShape. cbn [brecs]. apply Forall_set_nth; [exact G1|]. exact (add_attributes_shape_fail _ _ _ _ _ _ _ Gr EA). }
      inversion H; subst; exact G2.
    + inversion H; subst; exact G1.
  - destruct extra; inversion H; subst; exact G1.
Qed.

Lemma xml_read_elems_BShape : forall par ft prefix_of xs b b' r,
  BShape b -> xml_read_elems par ft prefix_of b xs = (b', r) -> BShape b'.
Proof.
  induction xs as [|x xs IH]; intros b b' r G H; cbn [xml_read_elems] in H; [inversion H; subst; exact G|].
  destruct (elem_is "other" x); [eapply IH; eauto|].
  destruct (elem_is "bundleContent" x); [inversion H; subst; exact G|].
  destruct (xml_read_record par ft prefix_of b x) as [b1 [y|e|]] eqn:E;
    pose proof (xml_read_record_BShape _ _ _ _ _ _ _ G E) as G1.
  - eapply IH; eauto.
  - inversion H; subst; exact G1.
  - inversion H; subst; exact G1.
Qed.

Definition DocOK (dd : doc) : Prop := DShape dd /\ uniq (dbundles dd).

Lemma xml_read_bundle_DocOK : forall ft prefix_of dd x dd' r,
  DocOK dd -> xml_read_bundle ft prefix_of dd x = (dd', r) -> DocOK dd'.
Proof.
  intros ft prefix_of dd x dd' r [[M B] U] H. destruct x as [ns local attrs scope text kids]. cbn [xml_read_bundle] in H.
  destruct (xattr prov_uri "id" attrs) as [s|]; [|inversion H; subst; repeat split; assumption].
  destruct (xml_qname scope s) as [q0|]; [|inversion H; subst; repeat split; assumption].
  destruct (resolve None (bns (dmain dd)) (NQn q0)) as [[m [q|]]|e|]; try (inversion H; subst; repeat split; assumption).
  - destruct (mem (qn_uri q) (dbundles dd)) eqn:ME; [inversion H; subst; repeat split; assumption|].
    destruct (xml_read_elems (Some m) ft prefix_of (bundle_init (Some q)) kids) as [b' r'] eqn:EE.
    pose proof (xml_read_elems_BShape _ _ _ _ _ _ _ (BShape_init (Some q)) EE) as Gb.
    inversion H; subst. split; [split|].
    + exact M.
    + cbn [dbundles]. apply Forall_app. split; [exact B | constructor; [exact Gb | constructor]].
    + cbn [dbundles]. unfold uniq in *. rewrite map_app. cbn [map fst]. apply NoDup_snoc; [exact U|].
      intro Hin. apply in_map_iff in Hin. destruct Hin as [[k' v'] [E Hin]]. cbn in E. subst k'.
      destruct (In_lookup_some _ _ _ Hin) as [x0 L]. unfold mem in ME. rewrite L in ME. discriminate.
Qed.

Lemma xml_read_top_DocOK : forall ft prefix_of xs dd dd' r,
  DocOK dd -> xml_read_top ft prefix_of dd xs = (dd', r) -> DocOK dd'.
Proof.
  induction xs as [|x xs IH]; intros dd dd' r D H; cbn [xml_read_top] in H; [inversion H; subst; exact D|].
  destruct (elem_is "other" x); [eapply IH; eauto|].
  destruct (elem_is "bundleContent" x).
  - destruct (xml_read_bundle ft prefix_of dd x) as [dd1 [y|e|]] eqn:E;
      pose proof (xml_read_bundle_DocOK _ _ _ _ _ _ D E) as D1.
    + eapply IH; eauto.
    + inversion H; subst; exact D1.
    + inversion H; subst; exact D1.
  - destruct D as [[M B] U].
    destruct (xml_read_record None ft prefix_of (dmain dd) x) as [b1 [y|e|]] eqn:E;
      pose proof (xml_read_record_BShape _ _ _ _ _ _ _ M E) as M1;
      assert (D1 : DocOK (mkD b1 (dbundles dd))) by (repeat split; assumption).
    + eapply IH; eauto.
    + inversion H; subst; exact D1.
    + inversion H; subst; exact D1.
Qed.

(* whatever tree the reader accepts *)
Theorem xml_read_document_ok : forall ft prefix_of t nd, xml_read_document ft prefix_of t = OK nd ->
  uniq (dbundles nd) /\ forall b r, In b (doc_containers nd) -> In r (brecs b) ->
    NoDup (map key_uri (rattrs r)) /\ Forall (fun kv => set_distinct (snd kv)) (rattrs r).
Proof.
  intros ft prefix_of t nd H. destruct t as [ns local attrs scope text kids]. cbn [xml_read_document] in H.
  destruct (xml_read_top ft prefix_of doc_init kids) as [dd [y|e|]] eqn:E; try discriminate. inversion H; subst dd.
  assert (D0 : DocOK doc_init) by (repeat split; constructor).
  destruct (xml_read_top_DocOK _ _ _ _ _ _ D0 E) as [[SM SB] U]. split; [exact U|].
  intros b r Hb Hr.
  assert (Sb : BShape b).
  { destruct Hb as [<-|Hb]; [exact SM|]. apply in_map_iff in Hb. destruct Hb as [[k b0] [<- Hk]].
    rewrite Forall_forall in SB. exact (SB _ Hk). }
  unfold BShape in Sb. rewrite Forall_forall in Sb. exact (Sb r Hr).
Qed.

(* record elements only: the container loop is the record loop of XmlRead *)
Lemma read_elems_records : forall par ft prefix_of xs b,
  Forall (fun x => elem_is "other" x = false /\ elem_is "bundleContent" x = false) xs ->
  xml_read_elems par ft prefix_of b xs = xml_read_records par ft prefix_of b xs.
Proof.
  induction xs as [|x xs IH]; intros b F; [reflexivity|].
  inversion F as [|? ? [O B] F']; subst. cbn [xml_read_elems xml_read_records]. rewrite O, B.
  destruct (xml_read_record par ft prefix_of b x) as [b1 [y|e|]]; try reflexivity. apply IH. exact F'.
Qed.
