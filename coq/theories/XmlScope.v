(* XmlScope.v — the prefix map provxml.serialize_bundle attaches to the element of a container (document or
   bundleContent): the document's registered namespaces and default namespace, overridden by the bundle's own,
   overridden by prov / xsd (written without the trailing '#') / xsi.  Keys are prefixes; "" stands for the default
   namespace (None in lxml's nsmap).  Every record and attribute element below inherits this map, so it is the
   scope in which the reader resolves the names the writer printed. *)
From Coq Require Import String Ascii List Bool.
From Prov Require Import Str Sexp Tables Nsm Values Record World XmlSpec Xml XmlLabel XmlRec.
Import ListNotations.
Open Scope string_scope.

Definition put_ns (acc : list (string * string)) (kv : string * ns) : list (string * string) :=
  dset (ns_prefix (snd kv)) (ns_uri (snd kv)) acc.

Definition put_default (m : nsm) (acc : list (string * string)) : list (string * string) :=
  match dflt m with Some d => dset "" (ns_uri d) acc | None => acc end.

Definition xml_builtin_uri (pu : string * string) : string :=
  if String.eqb (fst pu) "xsd" then XmlSpec.xsd_ns else snd pu.

Definition put_builtin (acc : list (string * string)) (pu : string * string) : list (string * string) :=
  dset (fst pu) (xml_builtin_uri pu) acc.

Definition nsmap_of (dm bm : nsm) : list (string * string) :=
  let m1 := put_default dm (fold_left put_ns (regd dm) []) in
  let m3 := put_default bm (fold_left put_ns (regd bm) m1) in
  fold_left put_builtin default_namespaces m3.

(* the maps of all containers of a document, in writing order *)
Definition doc_nsmaps (d : doc) : list (list (string * string)) :=
  nsmap_of (bns (dmain d)) (bns (dmain d)) :: map (fun kb => nsmap_of (bns (dmain d)) (bns (snd kb))) (dbundles d).

(* ---- the whole tree serialize() builds: the document element with its scope, one element per record of the document
   (XmlRec.xml_record), then one bundleContent element per bundle — prov:id, its own scope, one element per record *)
Definition xml_records (fl : bool) (scope : list (string * string)) (rs : list prec) : option (list xnode) :=
  all_some (map (fun r => xml_record fl scope (rkind r) (rid r) (attributes r)) rs).

Definition xml_bundle (fl : bool) (dm : nsm) (b : bundle) : option xnode :=
  let scope := nsmap_of dm (bns b) in
  match bid b, xml_records fl scope (brecs b) with
  | Some q, Some xs => Some (XE prov_uri "bundleContent" [(prov_uri, "id", qn_str q)] scope "" xs)
  | _, _ => None
  end.

Definition xml_document (fl : bool) (d : doc) : option xnode :=
  let dm := bns (dmain d) in
  let scope := nsmap_of dm dm in
  match xml_records fl scope (brecs (dmain d)), all_some (map (fun kb => xml_bundle fl dm (snd kb)) (dbundles d)) with
  | Some xs, Some bs => Some (XE prov_uri "document" [] scope "" (xs ++ bs))
  | _, _ => None
  end.
